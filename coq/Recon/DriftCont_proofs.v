(* C18 — continuity of the drift lookup across a knot: proofs (definitions: Recon/DriftCont.v).
   1. knot_straddle_real*: the statement for the exact (unrounded) piecewise-linear interpolation.
   2. Section RoundedErr: the algorithm with an abstract rounding that satisfies the laws of Section Rounded
      (Recon/DriftR_proofs.v) plus the standard error model |rnd x - x| <= u |x| + eta; instantiated with Flocq's
      binary64 round-to-nearest-even (error_N_FLT).
   3. the current tables: knot spacing and radius range by computation, and the 0.5 mm corollaries. *)
From Coq Require Import Reals Lra Lia.
From Flocq Require Import Core Relative.
From AG Require Import Base.Prelude Base.Res Base.Bytes Recon.Drift Recon.DriftR Recon.DriftR_proofs
  Recon.Drift_proofs Recon.DriftCont Gen.Drift.

Local Open Scope R_scope.

(* ---------- 1. exact interpolation ---------- *)
(* knots (tm, rm), (tk, rk), (tp, rp); t1 in the left segment, t2 in the right one; radii non-increasing.
   exact(t1) - exact(t2) = lam * (rm - rk) + mu * (rk - rp) with lam = (tk - t1) / h1, mu = (t2 - tk) / h2, and
   t2 - t1 <= c * min h1 h2 gives lam + mu <= c. *)
Lemma knot_straddle_real_scaled tm tk tp rm rk rp t1 t2 c :
  tm < tk -> tk < tp -> rk <= rm -> rp <= rk ->
  tm <= t1 <= tk -> tk <= t2 <= tp -> t2 - t1 <= c * Rmin (tk - tm) (tp - tk) ->
  0 <= exact_lerp tm tk rm rk t1 - exact_lerp tk tp rk rp t2 <= c * Rmax (rm - rk) (rk - rp).
Proof.
  intros H1 H2 Hs1 Hs2 [A1 A2] [B1 B2] Hd.
  set (h1 := tk - tm) in *. set (h2 := tp - tk) in *.
  assert (0 < h1) as P1 by (unfold h1; lra). assert (0 < h2) as P2 by (unfold h2; lra).
  set (lam := (tk - t1) / h1). set (mu := (t2 - tk) / h2).
  assert (exact_lerp tm tk rm rk t1 - exact_lerp tk tp rk rp t2 = lam * (rm - rk) + mu * (rk - rp)) as E.
  { unfold exact_lerp, lam, mu, h1, h2. field. split; lra. }
  assert (lam * h1 = tk - t1) as L1 by (unfold lam; field; lra).
  assert (mu * h2 = t2 - tk) as M1 by (unfold mu; field; lra).
  assert (0 <= lam) as L0 by (destruct (Rle_or_lt 0 lam); [assumption|nra]).
  assert (0 <= mu) as M0 by (destruct (Rle_or_lt 0 mu); [assumption|nra]).
  set (hm := Rmin h1 h2) in *.
  assert (0 < hm) as Pm by (unfold hm; apply Rmin_glb_lt; assumption).
  assert (hm <= h1) as Hm1 by apply Rmin_l. assert (hm <= h2) as Hm2 by apply Rmin_r.
  assert (lam * hm <= lam * h1) as L2 by (apply Rmult_le_compat_l; assumption).
  assert (mu * hm <= mu * h2) as M2 by (apply Rmult_le_compat_l; assumption).
  assert (lam + mu <= c) as Hc.
  { apply (Rmult_le_reg_r hm); [exact Pm|]. lra. }
  set (M := Rmax (rm - rk) (rk - rp)).
  assert (rm - rk <= M) as S1 by apply Rmax_l. assert (rk - rp <= M) as S2 by apply Rmax_r.
  assert (0 <= M) as PM by lra.
  assert (lam * (rm - rk) <= lam * M) as L3 by (apply Rmult_le_compat_l; assumption).
  assert (mu * (rk - rp) <= mu * M) as M3 by (apply Rmult_le_compat_l; assumption).
  assert ((lam + mu) * M <= c * M) as C3 by (apply Rmult_le_compat_r; assumption).
  assert (0 <= lam * (rm - rk)) by (apply Rmult_le_pos; lra).
  assert (0 <= mu * (rk - rp)) by (apply Rmult_le_pos; lra).
  rewrite E. split; lra.
Qed.

(* lookups at most min(h1, h2) apart: the change is at most the LARGER of the two tabulated steps *)
Lemma knot_straddle_real tm tk tp rm rk rp t1 t2 :
  tm < tk -> tk < tp -> rk <= rm -> rp <= rk ->
  tm <= t1 <= tk -> tk <= t2 <= tp -> t2 - t1 <= Rmin (tk - tm) (tp - tk) ->
  0 <= exact_lerp tm tk rm rk t1 - exact_lerp tk tp rk rp t2 <= Rmax (rm - rk) (rk - rp).
Proof.
  intros H1 H2 Hs1 Hs2 A B Hd.
  rewrite <- (Rmult_1_l (Rmax _ _)). apply knot_straddle_real_scaled; try assumption. lra.
Qed.

(* uniform spacing h *)
Lemma knot_straddle_real_uniform tm tk tp rm rk rp t1 t2 h :
  0 < h -> tk - tm = h -> tp - tk = h -> rk <= rm -> rp <= rk ->
  tm <= t1 <= tk -> tk <= t2 <= tp -> t2 - t1 <= h ->
  0 <= exact_lerp tm tk rm rk t1 - exact_lerp tk tp rk rp t2 <= Rmax (rm - rk) (rk - rp).
Proof.
  intros Hh E1 E2 Hs1 Hs2 A B Hd.
  apply knot_straddle_real; try assumption; try lra.
  rewrite E1, E2. unfold Rmin. destruct (Rle_dec h h); exact Hd.
Qed.

(* ---------- 2. the algorithm, with an abstract rounding and its error model ---------- *)
Lemma abs_div_le n d K : 0 < d -> Rabs n <= K * d -> Rabs (n / d) <= K.
Proof.
  intros Hd H. assert (0 < / d) as Hi by (apply Rinv_0_lt_compat; exact Hd).
  apply Rabs_le_inv in H. apply Rabs_le.
  assert (n / d * d = n) as E by (field; lra).
  split; apply (Rmult_le_reg_r d); try exact Hd; rewrite E; lra.
Qed.

Section RoundedErr.
  Variable rnd : R -> R.
  Variable fmt : R -> Prop.
  Hypothesis rnd_mono : forall x y, x <= y -> rnd x <= rnd y.
  Hypothesis rnd_id : forall x, fmt x -> rnd x = x.
  Hypothesis rnd_fmt : forall x, fmt (rnd x).
  Hypothesis fmt_0 : fmt 0.
  Hypothesis fmt_1 : fmt 1.
  Hypothesis rnd_sub_pos : forall x y, fmt x -> fmt y -> x < y -> 0 < rnd (y - x).
  (* the standard model of rounding to nearest with gradual underflow *)
  Variables u eta : R.
  Hypothesis u_range : 0 <= u <= / 8.
  Hypothesis eta_range : 0 <= eta <= u.
  Hypothesis rnd_err : forall x, Rabs (rnd x - x) <= u * Rabs x + eta.

  Notation A := (real_arith rnd).
  Notation d0 := rk0.

  Lemma rnd_err_pos x : 0 <= x -> - (u * x + eta) <= rnd x - x <= u * x + eta.
  Proof.
    intros Hx. pose proof (rnd_err x) as H. rewrite (Rabs_pos_eq x Hx) in H.
    apply Rabs_le_inv in H. lra.
  Qed.

  (* the computed fraction is within 8 u of the exact one *)
  Lemma fraction_err t lt rt :
    fmt lt -> fmt rt -> lt < rt -> lt <= t <= rt -> eta <= u * (rt - lt) ->
    Rabs (fraction_of A t lt rt - (t - lt) / (rt - lt)) <= 8 * u.
  Proof.
    intros Fl Fr Hlr [H1 H2] He. rewrite fraction_eq.
    set (a := t - lt). set (b := rt - lt) in *.
    assert (0 <= a) as Pa by (unfold a; lra). assert (a <= b) as Hab by (unfold a, b; lra).
    assert (0 < b) as Pb by (unfold b; lra).
    pose proof (rnd_err_pos a Pa) as Ea. pose proof (rnd_err_pos b (Rlt_le _ _ Pb)) as Eb.
    set (a' := rnd a) in *. set (b' := rnd b) in *.
    destruct u_range as [U0 U1]. destruct eta_range as [N0 N1].
    assert (u * a <= u * b) as Uab by (apply Rmult_le_compat_l; assumption).
    assert (0 <= u * a) as Ua0 by (apply Rmult_le_pos; assumption).
    assert (u * b <= / 8 * b) as Ub by (apply Rmult_le_compat_r; lra).
    (* |a' - a| <= 2 u b, |b' - b| <= 2 u b, b' >= 3/4 b *)
    assert (Rabs (a' - a) <= 2 * (u * b)) as Da by (apply Rabs_le; lra).
    assert (Rabs (b' - b) <= 2 * (u * b)) as Db by (apply Rabs_le; lra).
    assert (3 / 4 * b <= b') as Lb' by lra.
    assert (0 < b') as Pb' by lra.
    assert (0 <= a') as Pa'.
    { unfold a'. rewrite <- (rnd_id 0 fmt_0). apply rnd_mono, Pa. }
    assert (a' <= b') as Hab' by (apply rnd_mono, Hab).
    set (q := a' / b').
    assert (0 <= q <= 1) as [Q0 Q1] by (apply div_range; assumption).
    pose proof (rnd_err_pos q Q0) as Eq.
    assert (u * q <= u * 1) as Uq by (apply Rmult_le_compat_l; assumption).
    assert (0 <= u * q) as Uq0 by (apply Rmult_le_pos; assumption).
    (* q - a/b = ((a' - a) b - a (b' - b)) / (b b') *)
    assert (q - a / b = ((a' - a) * b - a * (b' - b)) / (b * b')) as Eqf by (unfold q; field; lra).
    assert (Rabs (q - a / b) <= 6 * u) as Dq.
    { rewrite Eqf. apply abs_div_le; [apply Rmult_lt_0_compat; assumption|].
      eapply Rle_trans; [apply Rabs_triang|]. rewrite Rabs_Ropp, !Rabs_mult.
      rewrite (Rabs_pos_eq b) by lra. rewrite (Rabs_pos_eq a) by lra.
      assert (Rabs (a' - a) * b <= 2 * (u * b) * b) as X1 by (apply Rmult_le_compat_r; lra).
      assert (a * Rabs (b' - b) <= b * (2 * (u * b))) as X2.
      { apply Rmult_le_compat; [exact Pa|apply Rabs_pos|exact Hab|exact Db]. }
      assert (0 <= u * b * b) as X3 by (apply Rmult_le_pos; [apply Rmult_le_pos|]; lra).
      assert (u * b * (3 / 4 * b) <= u * b * b') as X4.
      { apply Rmult_le_compat_l; [apply Rmult_le_pos; lra|exact Lb']. }
      lra. }
    apply Rabs_le_inv in Dq. apply Rabs_le. lra.
  Qed.

  (* the computed interpolation of non-increasing data within [0, B] is within u (B + 9 step) + 2 eta of the exact one *)
  Lemma lerp_err f' f lhs rhs B :
    fmt lhs -> fmt rhs -> fmt (rhs - lhs) -> rhs <= lhs -> 0 <= rhs -> lhs <= B ->
    0 <= f' <= 1 -> Rabs (f' - f) <= 8 * u ->
    Rabs (lerp A f' lhs rhs - (lhs + f * (rhs - lhs))) <= lerp_eps u eta B (lhs - rhs).
  Proof.
    intros Fl Fr Fd Hd Hr0 HB [F0 F1] Hf. rewrite lerp_eq, (rnd_id _ Fd). unfold lerp_eps.
    destruct u_range as [U0 U1]. destruct eta_range as [N0 N1].
    set (s := lhs - rhs). assert (0 <= s) as Ps by (unfold s; lra).
    replace (rhs - lhs) with (- s) by (unfold s; ring).
    set (p := f' * - s).
    assert (- s <= p <= 0) as [P1 P2] by (unfold p; split; nra).
    assert (fmt (- s)) as Fs by (replace (- s) with (rhs - lhs) by (unfold s; ring); exact Fd).
    assert (- s <= rnd p <= 0) as [Q1 Q2].
    { split; [rewrite <- (rnd_id _ Fs)|rewrite <- (rnd_id 0 fmt_0)]; apply rnd_mono; assumption. }
    pose proof (rnd_err p) as Ep. rewrite (Rabs_left1 p P2) in Ep. apply Rabs_le_inv in Ep.
    assert (u * - p <= u * s) as Up by (apply Rmult_le_compat_l; lra).
    assert (0 <= u * - p) as Up0 by (apply Rmult_le_pos; lra).
    set (y := lhs + rnd p).
    assert (0 <= y <= B) as [Y0 Y1] by (unfold y, s in *; lra).
    pose proof (rnd_err_pos y Y0) as Ey.
    assert (u * y <= u * B) as Uy by (apply Rmult_le_compat_l; assumption).
    assert (0 <= u * y) as Uy0 by (apply Rmult_le_pos; assumption).
    apply Rabs_le_inv in Hf.
    assert (- (8 * u * s) <= (f' - f) * - s <= 8 * u * s) as [G1 G2] by (split; nra).
    assert (p - f * - s = (f' - f) * - s) as Epf by (unfold p; ring).
    apply Rabs_le. unfold y in *. lra.
  Qed.

  Lemma lerp_eps_pos B step : 0 <= B -> 0 <= step -> 0 <= lerp_eps u eta B step.
  Proof.
    intros HB Hs. unfold lerp_eps. destruct u_range as [U0 _]. destruct eta_range as [N0 _].
    assert (0 <= u * (B + 9 * step)) by (apply Rmult_le_pos; lra). lra.
  Qed.

  (* the bracket of a time inside the half-open segment [time (j-1), time j) is that segment *)
  Lemma seg_index_inside tb j t :
    table_ok fmt tb -> (1 <= j)%nat -> (j < length tb)%nat ->
    rk_time (nth (j - 1) tb d0) <= t < rk_time (nth j tb d0) -> seg_index tb t = j.
  Proof.
    intros Hok Hj1 Hj [Hlo Hhi].
    assert (Hin : in_range tb t).
    { split.
      - eapply Rle_trans; [|exact Hlo]. apply (table_sorted_le fmt tb 0 (j - 1)); auto; lia.
      - eapply Rle_trans; [apply Rlt_le, Hhi|]. apply (table_sorted_le fmt tb j (length tb - 1)); auto; lia. }
    destruct (seg_index_spec rnd fmt rnd_mono rnd_id rnd_fmt rnd_sub_pos tb t Hok Hin)
      as (Hi1 & Hi2 & Hb & Hbelow & Hcase).
    set (i := seg_index tb t) in *.
    destruct (Nat.lt_trichotomy i j) as [H|[H|H]]; [|exact H|].
    - exfalso. destruct Hcase as [Hc|[Hc _]]; [|lia].
      assert (rk_time (nth i tb d0) <= rk_time (nth (j - 1) tb d0)).
      { apply (table_sorted_le fmt tb i (j - 1)); auto; lia. } lra.
    - exfalso. pose proof (Hbelow j H). lra.
  Qed.

  (* one lookup in the closed segment [time (j-1), time j]: computed radius vs exact interpolation *)
  Lemma table_at_exact_err m tb j t r c B :
    table_ok fmt tb -> (1 <= j)%nat -> (j < length tb)%nat ->
    rk_time (nth (j - 1) tb d0) <= t <= rk_time (nth j tb d0) ->
    0 <= rk_radius (nth j tb d0) -> rk_radius (nth (j - 1) tb d0) <= B ->
    eta <= u * (rk_time (nth j tb d0) - rk_time (nth (j - 1) tb d0)) ->
    table_at A m tb t = Ok (r, c) ->
    Rabs (r - exact_lerp (rk_time (nth (j - 1) tb d0)) (rk_time (nth j tb d0))
                         (rk_radius (nth (j - 1) tb d0)) (rk_radius (nth j tb d0)) t)
    <= lerp_eps u eta B (rk_radius (nth (j - 1) tb d0) - rk_radius (nth j tb d0)).
  Proof.
    intros Hok Hj1 Hj [Hlo Hhi] Hr0 HB He E.
    pose proof (table_step fmt tb (j - 1) Hok) as Hst. replace (S (j - 1)) with j in Hst by lia.
    specialize (Hst Hj). destruct Hst as (Hlt & Hrd & Frd & _).
    destruct (table_knot_fmt fmt tb (j - 1) Hok ltac:(lia)) as (Flt & Flr & _).
    destruct (table_knot_fmt fmt tb j Hok Hj) as (Frt & Frr & _).
    set (lhs := nth (j - 1) tb d0) in *. set (rhs := nth j tb d0) in *.
    destruct (Rle_lt_or_eq_dec _ _ Hhi) as [Hin|Heq].
    - (* inside: the bracket is segment j *)
      assert (seg_index tb t = j) as Hi by (apply seg_index_inside; auto).
      assert (in_range tb t) as Hr.
      { split.
        - eapply Rle_trans; [|exact Hlo]. apply (table_sorted_le fmt tb 0 (j - 1)); auto; lia.
        - eapply Rle_trans; [exact Hhi|]. apply (table_sorted_le fmt tb j (length tb - 1)); auto; lia. }
      destruct (table_at_spec rnd fmt rnd_mono rnd_id rnd_fmt rnd_sub_pos m tb t Hok) as [_ Hs].
      destruct (Hs Hr) as [_ E']. rewrite E' in E. rewrite Hi in E. fold lhs rhs in E. inv E.
      unfold exact_lerp. apply lerp_err; try assumption.
      + apply (fraction_range rnd fmt rnd_mono rnd_id fmt_0 fmt_1 rnd_sub_pos); try assumption. split; assumption.
      + apply fraction_err; try assumption. split; assumption.
    - (* at the right knot: exact *)
      destruct (table_at_knot rnd fmt rnd_mono rnd_id rnd_fmt fmt_0 fmt_1 rnd_sub_pos m tb j Hok Hj) as (c' & E').
      fold rhs in E'. rewrite <- Heq in E'. rewrite E' in E. inv E.
      assert (exact_lerp (rk_time lhs) (rk_time rhs) (rk_radius lhs) (rk_radius rhs) (rk_time rhs) = rk_radius rhs) as ->.
      { unfold exact_lerp. field. lra. }
      rewrite Rminus_diag_eq, Rabs_R0 by reflexivity. apply lerp_eps_pos; lra.
  Qed.

  (* two lookups that straddle knot k, t2 - t1 <= c * min(h1, h2):
     r1 - r2 <= c * max(step (k-1), step k) + rounding term *)
  Theorem knot_straddle_scaled_gen m ts z s k t1 t2 r1 c1 r2 c2 B c :
    tables_ok fmt ts -> is_slice ts z s -> (1 <= k)%nat -> (S k < length (fst s))%nat ->
    (forall kn, In kn (fst s) -> 0 <= rk_radius kn <= B) ->
    rk_time (knot_at s (k - 1)) <= t1 <= rk_time (knot_at s k) ->
    rk_time (knot_at s k) <= t2 <= rk_time (knot_at s (S k)) ->
    t2 - t1 <= c * Rmin (rk_time (knot_at s k) - rk_time (knot_at s (k - 1)))
                        (rk_time (knot_at s (S k)) - rk_time (knot_at s k)) ->
    eta <= u * Rmin (rk_time (knot_at s k) - rk_time (knot_at s (k - 1)))
                    (rk_time (knot_at s (S k)) - rk_time (knot_at s k)) ->
    tables_at A m ts z t1 = Ok (r1, c1) -> tables_at A m ts z t2 = Ok (r2, c2) ->
    0 <= r1 - r2 <=
      c * Rmax (rk_radius (knot_at s (k - 1)) - rk_radius (knot_at s k))
               (rk_radius (knot_at s k) - rk_radius (knot_at s (S k)))
      + straddle_eps u eta B (rk_radius (knot_at s (k - 1)) - rk_radius (knot_at s k))
                             (rk_radius (knot_at s k) - rk_radius (knot_at s (S k))).
  Proof.
    intros Hok Hsl Hk1 Hk HB T1 T2 Hd He E1 E2. unfold knot_at in *.
    destruct (lookup_ok_inv rnd fmt rnd_mono rnd_id rnd_fmt rnd_sub_pos m ts z t1 r1 c1 Hok E1) as (s1 & Hsl1 & Htb & E1').
    destruct (lookup_ok_inv rnd fmt rnd_mono rnd_id rnd_fmt rnd_sub_pos m ts z t2 r2 c2 Hok E2) as (s2 & Hsl2 & _ & E2').
    rewrite <- (is_slice_unique rnd ts z s s1 Hsl Hsl1) in *. rewrite <- (is_slice_unique rnd ts z s s2 Hsl Hsl2) in *.
    set (tb := fst s) in *.
    assert (t1 <= t2) as H12 by lra.
    pose proof (radius_monotone_gen rnd fmt rnd_mono rnd_id rnd_fmt fmt_0 fmt_1 rnd_sub_pos m ts z t1 t2 r1 c1 r2 c2 Hok H12 E1 E2) as Hmono.
    pose proof (table_step fmt tb (k - 1) Htb) as St1. replace (S (k - 1)) with k in St1 by lia.
    specialize (St1 ltac:(lia)). destruct St1 as (Ht1 & Hr1 & _).
    pose proof (table_step fmt tb k Htb Hk) as (Ht2 & Hr2 & _).
    set (km := nth (k - 1) tb d0) in *. set (kk := nth k tb d0) in *. set (kp := nth (S k) tb d0) in *.
    assert (In km tb) as Im by (apply nth_In; lia).
    assert (In kp tb) as Ip by (apply nth_In; lia).
    assert (In kk tb) as Ik by (apply nth_In; lia).
    pose proof (HB km Im) as [_ Bm]. pose proof (HB kp Ip) as [Bp _]. pose proof (HB kk Ik) as [Bk0 Bk1].
    set (hm := Rmin (rk_time kk - rk_time km) (rk_time kp - rk_time kk)) in *.
    assert (hm <= rk_time kk - rk_time km) as Hm1 by apply Rmin_l.
    assert (hm <= rk_time kp - rk_time kk) as Hm2 by apply Rmin_r.
    destruct u_range as [U0 _].
    assert (u * hm <= u * (rk_time kk - rk_time km)) as Uh1 by (apply Rmult_le_compat_l; assumption).
    assert (u * hm <= u * (rk_time kp - rk_time kk)) as Uh2 by (apply Rmult_le_compat_l; assumption).
    (* the two lookups against the exact interpolation *)
    pose proof (table_at_exact_err m tb k t1 r1 c1 B Htb Hk1 ltac:(lia) T1 Bk0 Bm ltac:(fold km kk; lra) E1') as X1.
    pose proof (table_at_exact_err m tb (S k) t2 r2 c2 B Htb ltac:(lia) Hk) as X2.
    replace (S k - 1)%nat with k in X2 by lia. fold km kk kp in X1, X2.
    specialize (X2 T2 Bp Bk1 ltac:(lra) E2').
    pose proof (knot_straddle_real_scaled (rk_time km) (rk_time kk) (rk_time kp) (rk_radius km) (rk_radius kk) (rk_radius kp)
                  t1 t2 c Ht1 Ht2 Hr1 Hr2 T1 T2 Hd) as [_ X3].
    apply Rabs_le_inv in X1. apply Rabs_le_inv in X2. unfold lerp_eps in X1, X2. unfold straddle_eps.
    split; lra.
  Qed.
End RoundedErr.

(* ---------- Flocq's binary64 rounding satisfies the error model with u = 2^-53, eta = 2^-1075 ---------- *)
Lemma bpow_neg_inv k : (0 <= k)%Z -> bpow radix2 (- k) = / IZR (2 ^ k).
Proof. intros H. rewrite bpow_opp. f_equal. symmetry. apply pow2_bpow, H. Qed.
Lemma u64_val : u64 = / 9007199254740992.
Proof. unfold u64. change (-53)%Z with (- (53))%Z. rewrite bpow_neg_inv by lia. reflexivity. Qed.
Lemma u64_range : 0 <= u64 <= / 8.
Proof. rewrite u64_val. lra. Qed.
(* 2^-1075 <= 2^-100 *)
Lemma eta64_le : eta64 <= / 1267650600228229401496703205376.
Proof.
  unfold eta64. eapply Rle_trans; [apply (bpow_le radix2 (-1075) (-100)); lia|].
  change (-100)%Z with (- (100))%Z. rewrite bpow_neg_inv by lia. apply Req_le. reflexivity.
Qed.
Lemma eta64_range : 0 <= eta64 <= u64.
Proof. split; [apply bpow_ge_0|apply bpow_le; lia]. Qed.

Lemma rnd64_err x : Rabs (rnd64 x - x) <= u64 * Rabs x + eta64.
Proof.
  destruct (error_N_FLT radix2 (-1074) 53 ltac:(lia) (fun n => negb (Z.even n)) x) as (e & n & He & Hn & _ & E).
  unfold rnd64, fexp64. rewrite E.
  replace (x * (1 + e) + n - x) with (x * e + n) by ring.
  eapply Rle_trans; [apply Rabs_triang|]. rewrite Rabs_mult.
  assert (/ 2 * bpow radix2 (-53 + 1) = u64) as Eu.
  { unfold u64. change (/ 2) with (bpow radix2 (-1)). rewrite <- bpow_plus. reflexivity. }
  assert (/ 2 * bpow radix2 (-1074) = eta64) as En.
  { unfold eta64. change (/ 2) with (bpow radix2 (-1)). rewrite <- bpow_plus. reflexivity. }
  assert (Rabs e <= u64) as He' by (rewrite <- Eu; exact He).
  assert (Rabs n <= eta64) as Hn' by (rewrite <- En; exact Hn).
  assert (Rabs x * Rabs e <= Rabs x * u64) by (apply Rmult_le_compat_l; [apply Rabs_pos|exact He']).
  lra.
Qed.

(* the algorithm of the implementation (lookupR = tables_at (real_arith rnd64)) *)
Lemma knot_straddle_scaled_lemma m ts z s k t1 t2 r1 c1 r2 c2 B c :
  tables_ok fmt64 ts -> is_slice ts z s -> (1 <= k)%nat -> (S k < length (fst s))%nat ->
  (forall kn, In kn (fst s) -> 0 <= rk_radius kn <= B) ->
  rk_time (knot_at s (k - 1)) <= t1 <= rk_time (knot_at s k) ->
  rk_time (knot_at s k) <= t2 <= rk_time (knot_at s (S k)) ->
  t2 - t1 <= c * Rmin (rk_time (knot_at s k) - rk_time (knot_at s (k - 1)))
                      (rk_time (knot_at s (S k)) - rk_time (knot_at s k)) ->
  eta64 <= u64 * Rmin (rk_time (knot_at s k) - rk_time (knot_at s (k - 1)))
                      (rk_time (knot_at s (S k)) - rk_time (knot_at s k)) ->
  lookupR m ts z t1 = Ok (r1, c1) -> lookupR m ts z t2 = Ok (r2, c2) ->
  0 <= r1 - r2 <=
    c * Rmax (rk_radius (knot_at s (k - 1)) - rk_radius (knot_at s k))
             (rk_radius (knot_at s k) - rk_radius (knot_at s (S k)))
    + straddle_eps u64 eta64 B (rk_radius (knot_at s (k - 1)) - rk_radius (knot_at s k))
                               (rk_radius (knot_at s k) - rk_radius (knot_at s (S k))).
Proof.
  intros. unfold lookupR in *.
  eapply (knot_straddle_scaled_gen rnd64 fmt64) with (m := m) (z := z) (t1 := t1) (t2 := t2) (c1 := c1) (c2 := c2);
    try laws; try exact u64_range; try exact eta64_range; try exact rnd64_err; eassumption.
Qed.

Lemma knot_straddle_lemma m ts z s k t1 t2 r1 c1 r2 c2 B :
  tables_ok fmt64 ts -> is_slice ts z s -> (1 <= k)%nat -> (S k < length (fst s))%nat ->
  (forall kn, In kn (fst s) -> 0 <= rk_radius kn <= B) ->
  rk_time (knot_at s (k - 1)) <= t1 <= rk_time (knot_at s k) ->
  rk_time (knot_at s k) <= t2 <= rk_time (knot_at s (S k)) ->
  t2 - t1 <= Rmin (rk_time (knot_at s k) - rk_time (knot_at s (k - 1)))
                  (rk_time (knot_at s (S k)) - rk_time (knot_at s k)) ->
  eta64 <= u64 * Rmin (rk_time (knot_at s k) - rk_time (knot_at s (k - 1)))
                      (rk_time (knot_at s (S k)) - rk_time (knot_at s k)) ->
  lookupR m ts z t1 = Ok (r1, c1) -> lookupR m ts z t2 = Ok (r2, c2) ->
  0 <= r1 - r2 <=
    Rmax (rk_radius (knot_at s (k - 1)) - rk_radius (knot_at s k))
         (rk_radius (knot_at s k) - rk_radius (knot_at s (S k)))
    + straddle_eps u64 eta64 B (rk_radius (knot_at s (k - 1)) - rk_radius (knot_at s k))
                               (rk_radius (knot_at s k) - rk_radius (knot_at s (S k))).
Proof.
  intros Hok Hsl Hk1 Hk HB T1 T2 Hd He E1 E2.
  rewrite <- (Rmult_1_l (Rmax _ _)).
  apply (knot_straddle_scaled_lemma m ts z s k t1 t2 r1 c1 r2 c2 B 1); try assumption. lra.
Qed.

(* ---------- 3. the tables of the current source ---------- *)
(* each evaluated by the VM on the decoded tables (about 10 s each); no other tactic touches the table *)
Lemma spacings_okb_current : spacings_okb d_tables = true.
Proof. vm_compute. reflexivity. Qed.
Lemma radii_okb_current : radii_okb d_tables = true.
Proof. vm_compute. reflexivity. Qed.

Lemma adj_nth_error {X} (p : X -> X -> bool) l j a b :
  adj p l = true -> nth_error l j = Some a -> nth_error l (S j) = Some b -> p a b = true.
Proof.
  revert j. induction l as [|x l IH]; intros j H Ha Hb; [destruct j; discriminate|].
  destruct l as [|y l']; [destruct j as [|[|j]]; discriminate|].
  change (adj p (x :: y :: l')) with (p x y && adj p (y :: l')) in H.
  apply andb_true_iff in H. destruct H as [H1 H2]. destruct j as [|j].
  - cbn in Ha, Hb. inv Ha. inv Hb. exact H1.
  - apply (IH j); [exact H2|exact Ha|exact Hb].
Qed.

(* the bridges are proved for an arbitrary table (no tactic may unfold a definition applied to the closed table:
   the kernel could then try to evaluate the table with its lazy machine) *)
Lemma spacing_gen d i j sd a b :
  spacings_okb d = true ->
  nth_error d i = Some sd -> nth_error (fst sd) j = Some a -> nth_error (fst sd) (S j) = Some b ->
  7999999999999 / 1000000000000000000000 <= dyR (dk_time b) - dyR (dk_time a)
    <= 8000000000001 / 1000000000000000000000.
Proof.
  intros H Hs Ha Hb. unfold spacings_okb in H. rewrite forallb_forall in H.
  specialize (H sd (nth_error_In _ _ Hs)). pose proof (adj_nth_error _ _ _ _ _ H Ha Hb) as H'.
  unfold spacing_okb in H'. apply andb_true_iff in H'. destruct H' as [H1 H2].
  apply dy_le_q_R in H1. apply negb_true_iff in H2. apply dy_lt_q_false in H2.
  rewrite dy_sub_R in H1, H2. split; assumption.
Qed.

Lemma radius_gen d i sd a :
  radii_okb d = true -> nth_error d i = Some sd -> In a (fst sd) -> 0 <= dyR (dk_radius a) <= 1 / 4.
Proof.
  intros H Hs Ha. unfold radii_okb in H. rewrite forallb_forall in H.
  specialize (H sd (nth_error_In _ _ Hs)). rewrite forallb_forall in H. specialize (H a Ha).
  unfold radius_okb in H. apply andb_true_iff in H. destruct H as [H1 H2].
  apply dy_leb_R in H1. rewrite dyR_eq in H1. cbn [IZR] in H1. apply dy_le_q_R in H2. split; lra.
Qed.

(* knot spacing of the current tables: every adjacent pair of tabulated times is 8 ns apart to within 1e-21 s
   (not exactly uniform: the times are the roundings of j * 8e-9) *)
Lemma spacing_current_lemma i j sd a b :
  nth_error d_tables i = Some sd -> nth_error (fst sd) j = Some a -> nth_error (fst sd) (S j) = Some b ->
  7999999999999 / 1000000000000000000000 <= dyR (dk_time b) - dyR (dk_time a)
    <= 8000000000001 / 1000000000000000000000.
Proof. exact (spacing_gen d_tables i j sd a b spacings_okb_current). Qed.

(* every tabulated radius of the current tables lies in [0, 1/4] m *)
Lemma radius_current_lemma i sd a :
  nth_error d_tables i = Some sd -> In a (fst sd) -> 0 <= dyR (dk_radius a) <= 1 / 4.
Proof. exact (radius_gen d_tables i sd a radii_okb_current). Qed.

(* the rounding term on the current tables: radii within [0, 1/4] m, steps < 0.66 mm *)
Lemma straddle_eps_current s1 s2 :
  0 <= s1 < 66 / 100000 -> 0 <= s2 < 66 / 100000 ->
  straddle_eps u64 eta64 (1 / 4) s1 s2 <= 6 / 100000000000000000.
Proof.
  intros [A1 A2] [B1 B2]. unfold straddle_eps. pose proof eta64_le as N1. pose proof eta64_range as [N0 _].
  assert (u64 * (2 * (1 / 4) + 9 * (s1 + s2)) <= u64 * (51188 / 100000)) as U
    by (apply Rmult_le_compat_l; [apply u64_range|lra]).
  rewrite u64_val in U at 2. lra.
Qed.

(* two lookups in adjacent segments j and j+1 of table i of the current tables, t2 - t1 <= cc * min(h1, h2) *)
Lemma straddle_current_scaled_lemma m i j sd a b c z t1 t2 r1 c1 r2 c2 cc :
  nth_error d_tables i = Some sd ->
  nth_error (fst sd) j = Some a -> nth_error (fst sd) (S j) = Some b -> nth_error (fst sd) (S (S j)) = Some c ->
  is_slice r_tables z (map dknotR (fst sd), dyR (snd sd)) ->
  dyR (dk_time a) <= t1 <= dyR (dk_time b) -> dyR (dk_time b) <= t2 <= dyR (dk_time c) ->
  t2 - t1 <= cc * Rmin (dyR (dk_time b) - dyR (dk_time a)) (dyR (dk_time c) - dyR (dk_time b)) ->
  lookupR m r_tables z t1 = Ok (r1, c1) -> lookupR m r_tables z t2 = Ok (r2, c2) ->
  0 <= dyR (dk_radius a) - dyR (dk_radius b) /\ 0 <= dyR (dk_radius b) - dyR (dk_radius c) /\
  0 <= r1 - r2 <=
    cc * Rmax (dyR (dk_radius a) - dyR (dk_radius b)) (dyR (dk_radius b) - dyR (dk_radius c))
    + 6 / 100000000000000000.
Proof.
  intros Hs Ha Hb Hc Hsl T1 T2 Hd E1 E2.
  set (s := (map dknotR (fst sd), dyR (snd sd))) in *.
  assert (knot_at s j = dknotR a) as Ka by (apply nth_map_error, Ha).
  assert (knot_at s (S j) = dknotR b) as Kb by (apply nth_map_error, Hb).
  assert (knot_at s (S (S j)) = dknotR c) as Kc by (apply nth_map_error, Hc).
  assert (S (S j) < length (fst s))%nat as Hlen.
  { cbn [fst s]. rewrite map_length. apply nth_error_Some. congruence. }
  assert (forall kn, In kn (fst s) -> 0 <= rk_radius kn <= 1 / 4) as HB.
  { intros kn Hkn. cbn [fst s] in Hkn. apply in_map_iff in Hkn. destruct Hkn as (a' & <- & Ha').
    rewrite dknotR_radius. exact (radius_current_lemma i sd a' Hs Ha'). }
  pose proof (spacing_current_lemma i j sd a b Hs Ha Hb) as [Sp1 _].
  pose proof (spacing_current_lemma i (S j) sd b c Hs Hb Hc) as [Sp2 _].
  set (hm := Rmin (dyR (dk_time b) - dyR (dk_time a)) (dyR (dk_time c) - dyR (dk_time b))) in *.
  assert (7999999999999 / 1000000000000000000000 <= hm) as Hhm by (apply Rmin_glb; assumption).
  assert (eta64 <= u64 * hm) as He.
  { pose proof eta64_le as N1.
    assert (u64 * (7999999999999 / 1000000000000000000000) <= u64 * hm) as U
      by (apply Rmult_le_compat_l; [apply u64_range|exact Hhm]).
    rewrite u64_val in U at 1. lra. }
  pose proof (slice_table_ok fmt64 r_tables z s table_ok_current_lemma Hsl) as Htb.
  pose proof (table_step fmt64 (fst s) j Htb ltac:(lia)) as (_ & St1 & _).
  pose proof (table_step fmt64 (fst s) (S j) Htb Hlen) as (_ & St2 & _).
  fold (knot_at s j) in St1. fold (knot_at s (S j)) in St1, St2. fold (knot_at s (S (S j))) in St2.
  rewrite Ka, Kb, !dknotR_radius in St1. rewrite Kb, Kc, !dknotR_radius in St2.
  pose proof (knot_straddle_scaled_lemma m r_tables z s (S j) t1 t2 r1 c1 r2 c2 (1 / 4) cc
                table_ok_current_lemma Hsl ltac:(lia) Hlen HB) as X.
  replace (S j - 1)%nat with j in X by lia.
  rewrite Ka, Kb, Kc in X. rewrite !dknotR_time, !dknotR_radius in X.
  specialize (X T1 T2 Hd He E1 E2).
  pose proof (max_knot_step_current_lemma i j sd a b Hs Ha Hb) as M1.
  pose proof (max_knot_step_current_lemma i (S j) sd b c Hs Hb Hc) as M2.
  pose proof (straddle_eps_current (dyR (dk_radius a) - dyR (dk_radius b)) (dyR (dk_radius b) - dyR (dk_radius c))
                ltac:(lra) ltac:(lra)) as Ee.
  split; [lra|]. split; [lra|]. lra.
Qed.

(* (3) lookups that straddle a knot of the current tables, at most min(h1, h2) apart, neither touched segment in
   the known class: the change is below 0.5 mm + 1e-15 m *)
Lemma half_mm_straddle_lemma m i j sd a b c z t1 t2 r1 c1 r2 c2 :
  nth_error d_tables i = Some sd ->
  nth_error (fst sd) j = Some a -> nth_error (fst sd) (S j) = Some b -> nth_error (fst sd) (S (S j)) = Some c ->
  ~ In (N.of_nat i, N.of_nat j) known_steps -> ~ In (N.of_nat i, N.of_nat (S j)) known_steps ->
  is_slice r_tables z (map dknotR (fst sd), dyR (snd sd)) ->
  dyR (dk_time a) <= t1 <= dyR (dk_time b) -> dyR (dk_time b) <= t2 <= dyR (dk_time c) ->
  t2 - t1 <= Rmin (dyR (dk_time b) - dyR (dk_time a)) (dyR (dk_time c) - dyR (dk_time b)) ->
  lookupR m r_tables z t1 = Ok (r1, c1) -> lookupR m r_tables z t2 = Ok (r2, c2) ->
  0 <= r1 - r2 < 5 / 10000 + 1 / 1000000000000000.
Proof.
  intros Hs Ha Hb Hc Hk1 Hk2 Hsl T1 T2 Hd E1 E2.
  pose proof (steps_current_lemma i j sd a b Hs Ha Hb Hk1) as S1.
  pose proof (steps_current_lemma i (S j) sd b c Hs Hb Hc Hk2) as S2.
  destruct (straddle_current_scaled_lemma m i j sd a b c z t1 t2 r1 c1 r2 c2 1 Hs Ha Hb Hc Hsl T1 T2 ltac:(lra) E1 E2)
    as (_ & _ & X).
  assert (Rmax (dyR (dk_radius a) - dyR (dk_radius b)) (dyR (dk_radius b) - dyR (dk_radius c)) < 5 / 10000) as M
    by (apply Rmax_lub_lt; assumption).
  lra.
Qed.

(* ... the same for lookups at most 8 ns apart (the spacing is >= 8 ns - 1e-21 s, so min(h1, h2) may be slightly
   smaller than 8 ns: the bound scales by 8e-9 / (8e-9 - 1e-21), which costs < 1e-16 m) *)
Lemma half_mm_straddle_8ns_lemma m i j sd a b c z t1 t2 r1 c1 r2 c2 :
  nth_error d_tables i = Some sd ->
  nth_error (fst sd) j = Some a -> nth_error (fst sd) (S j) = Some b -> nth_error (fst sd) (S (S j)) = Some c ->
  ~ In (N.of_nat i, N.of_nat j) known_steps -> ~ In (N.of_nat i, N.of_nat (S j)) known_steps ->
  is_slice r_tables z (map dknotR (fst sd), dyR (snd sd)) ->
  dyR (dk_time a) <= t1 <= dyR (dk_time b) -> dyR (dk_time b) <= t2 <= dyR (dk_time c) ->
  t2 - t1 <= 8 / 1000000000 ->
  lookupR m r_tables z t1 = Ok (r1, c1) -> lookupR m r_tables z t2 = Ok (r2, c2) ->
  0 <= r1 - r2 < 5 / 10000 + 1 / 1000000000000000.
Proof.
  intros Hs Ha Hb Hc Hk1 Hk2 Hsl T1 T2 Hd E1 E2.
  pose proof (steps_current_lemma i j sd a b Hs Ha Hb Hk1) as S1.
  pose proof (steps_current_lemma i (S j) sd b c Hs Hb Hc Hk2) as S2.
  pose proof (spacing_current_lemma i j sd a b Hs Ha Hb) as [Sp1 _].
  pose proof (spacing_current_lemma i (S j) sd b c Hs Hb Hc) as [Sp2 _].
  assert (7999999999999 / 1000000000000000000000
          <= Rmin (dyR (dk_time b) - dyR (dk_time a)) (dyR (dk_time c) - dyR (dk_time b))) as Hhm
    by (apply Rmin_glb; assumption).
  destruct (straddle_current_scaled_lemma m i j sd a b c z t1 t2 r1 c1 r2 c2 (8000000000000 / 7999999999999)
              Hs Ha Hb Hc Hsl T1 T2 ltac:(lra) E1 E2) as (_ & _ & X).
  assert (Rmax (dyR (dk_radius a) - dyR (dk_radius b)) (dyR (dk_radius b) - dyR (dk_radius c)) < 5 / 10000) as M
    by (apply Rmax_lub_lt; assumption).
  lra.
Qed.

(* ... and for EVERY pair of adjacent segments (known class included): below 0.66 mm + 1e-15 m *)
Lemma straddle_lt_066_mm_8ns_lemma m i j sd a b c z t1 t2 r1 c1 r2 c2 :
  nth_error d_tables i = Some sd ->
  nth_error (fst sd) j = Some a -> nth_error (fst sd) (S j) = Some b -> nth_error (fst sd) (S (S j)) = Some c ->
  is_slice r_tables z (map dknotR (fst sd), dyR (snd sd)) ->
  dyR (dk_time a) <= t1 <= dyR (dk_time b) -> dyR (dk_time b) <= t2 <= dyR (dk_time c) ->
  t2 - t1 <= 8 / 1000000000 ->
  lookupR m r_tables z t1 = Ok (r1, c1) -> lookupR m r_tables z t2 = Ok (r2, c2) ->
  0 <= r1 - r2 < 66 / 100000 + 1 / 1000000000000000.
Proof.
  intros Hs Ha Hb Hc Hsl T1 T2 Hd E1 E2.
  pose proof (max_knot_step_current_lemma i j sd a b Hs Ha Hb) as S1.
  pose proof (max_knot_step_current_lemma i (S j) sd b c Hs Hb Hc) as S2.
  pose proof (spacing_current_lemma i j sd a b Hs Ha Hb) as [Sp1 _].
  pose proof (spacing_current_lemma i (S j) sd b c Hs Hb Hc) as [Sp2 _].
  assert (7999999999999 / 1000000000000000000000
          <= Rmin (dyR (dk_time b) - dyR (dk_time a)) (dyR (dk_time c) - dyR (dk_time b))) as Hhm
    by (apply Rmin_glb; assumption).
  destruct (straddle_current_scaled_lemma m i j sd a b c z t1 t2 r1 c1 r2 c2 (8000000000000 / 7999999999999)
              Hs Ha Hb Hc Hsl T1 T2 ltac:(lra) E1 E2) as (_ & _ & X).
  assert (Rmax (dyR (dk_radius a) - dyR (dk_radius b)) (dyR (dk_radius b) - dyR (dk_radius c)) < 66 / 100000) as M
    by (apply Rmax_lub_lt; assumption).
  lra.
Qed.
