(* C18 — continuity of the drift lookup across a knot: proofs (definitions: Recon/DriftCont.v).
   1. knot_straddle_real*: the statement for the exact (unrounded) piecewise-linear interpolation.
   2. Section RoundedErr: the algorithm with an abstract rounding that satisfies the laws of Section Rounded
      (Recon/DriftR_proofs.v) plus the standard error model |rnd x - x| <= u |x| + eta; instantiated with Flocq's
      binary64 round-to-nearest-even (error_N_FLT).
   3. the current tables: knot spacing and radius range by computation, and the 0.5 mm corollaries. *)
From Coq Require Import Reals Lra Lia.
From Flocq Require Import Core Relative.
From AG Require Import Base.Prelude Base.Res Base.Bytes Recon.Drift Recon.DriftR Recon.DriftR_proofs
  Recon.Drift_proofs Recon.DriftCont Gen.Drift.

Local Open Scope R_scope.

(* ---------- 1. exact interpolation ---------- *)
(* knots (tm, rm), (tk, rk), (tp, rp); t1 in the left segment, t2 in the right one; radii non-increasing.
   exact(t1) - exact(t2) = lam * (rm - rk) + mu * (rk - rp) with lam = (tk - t1) / h1, mu = (t2 - tk) / h2, and
   t2 - t1 <= c * min h1 h2 gives lam + mu <= c. *)
Lemma knot_straddle_real_scaled tm tk tp rm rk rp t1 t2 c :
  tm < tk -> tk < tp -> rk <= rm -> rp <= rk ->
  tm <= t1 <= tk -> tk <= t2 <= tp -> t2 - t1 <= c * Rmin (tk - tm) (tp - tk) ->
  0 <= exact_lerp tm tk rm rk t1 - exact_lerp tk tp rk rp t2 <= c * Rmax (rm - rk) (rk - rp).
Proof.
  intros H1 H2 Hs1 Hs2 [A1 A2] [B1 B2] Hd.
  set (h1 := tk - tm) in *. set (h2 := tp - tk) in *.
  assert (0 < h1) as P1 by (unfold h1; lra). assert (0 < h2) as P2 by (unfold h2; lra).
  set (lam := (tk - t1) / h1). set (mu := (t2 - tk) / h2).
  assert (exact_lerp tm tk rm rk t1 - exact_lerp tk tp rk rp t2 = lam * (rm - rk) + mu * (rk - rp)) as E.
  { unfold exact_lerp, lam, mu, h1, h2. field. split; lra. }
  assert (lam * h1 = tk - t1) as L1 by (unfold lam; field; lra).
  assert (mu * h2 = t2 - tk) as M1 by (unfold mu; field; lra).
  assert (0 <= lam) as L0 by (destruct (Rle_or_lt 0 lam); [assumption|nra]).
  assert (0 <= mu) as M0 by (destruct (Rle_or_lt 0 mu); [assumption|nra]).
  set (hm := Rmin h1 h2) in *.
  assert (0 < hm) as Pm by (unfold hm; apply Rmin_glb_lt; assumption).
  assert (hm <= h1) as Hm1 by apply Rmin_l. assert (hm <= h2) as Hm2 by apply Rmin_r.
  assert (lam * hm <= lam * h1) as L2 by (apply Rmult_le_compat_l; assumption).
  assert (mu * hm <= mu * h2) as M2 by (apply Rmult_le_compat_l; assumption).
  assert (lam + mu <= c) as Hc.
  { apply (Rmult_le_reg_r hm); [exact Pm|]. lra. }
  set (M := Rmax (rm - rk) (rk - rp)).
  assert (rm - rk <= M) as S1 by apply Rmax_l. assert (rk - rp <= M) as S2 by apply Rmax_r.
  assert (0 <= M) as PM by lra.
  assert (lam * (rm - rk) <= lam * M) as L3 by (apply Rmult_le_compat_l; assumption).
  assert (mu * (rk - rp) <= mu * M) as M3 by (apply Rmult_le_compat_l; assumption).
  assert ((lam + mu) * M <= c * M) as C3 by (apply Rmult_le_compat_r; assumption).
  assert (0 <= lam * (rm - rk)) by (apply Rmult_le_pos; lra).
  assert (0 <= mu * (rk - rp)) by (apply Rmult_le_pos; lra).
  rewrite E. split; lra.
Qed.

(* lookups at most min(h1, h2) apart: the change is at most the LARGER of the two tabulated steps *)
Lemma knot_straddle_real tm tk tp rm rk rp t1 t2 :
  tm < tk -> tk < tp -> rk <= rm -> rp <= rk ->
  tm <= t1 <= tk -> tk <= t2 <= tp -> t2 - t1 <= Rmin (tk - tm) (tp - tk) ->
  0 <= exact_lerp tm tk rm rk t1 - exact_lerp tk tp rk rp t2 <= Rmax (rm - rk) (rk - rp).
Proof.
  intros H1 H2 Hs1 Hs2 A B Hd.
  rewrite <- (Rmult_1_l (Rmax _ _)). apply knot_straddle_real_scaled; try assumption. lra.
Qed.

(* uniform spacing h *)
Lemma knot_straddle_real_uniform tm tk tp rm rk rp t1 t2 h :
  0 < h -> tk - tm = h -> tp - tk = h -> rk <= rm -> rp <= rk ->
  tm <= t1 <= tk -> tk <= t2 <= tp -> t2 - t1 <= h ->
  0 <= exact_lerp tm tk rm rk t1 - exact_lerp tk tp rk rp t2 <= Rmax (rm - rk) (rk - rp).
Proof.
  intros Hh E1 E2 Hs1 Hs2 A B Hd.
  apply knot_straddle_real; try assumption; try lra.
  rewrite E1, E2. unfold Rmin. destruct (Rle_dec h h); exact Hd.
Qed.
