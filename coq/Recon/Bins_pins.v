(* C15 -- the hypothesis `forall p, NoDup (bins p)` of the C15_cluster_* theorems, discharged from the
   STRUCTURE of HoughSpaceAccumulator::get_bins (track_finding.rs:119-151).  This file only pins statements;
   model: Recon/Bins.v, proofs: Recon/Bins_proofs.v.

   `rho_bin : N -> Z` is the abstract float part: rho_bin 0 is prev_rho_bin before the loop (:130), rho_bin k
   (1 <= k <= theta_bins) the `rho_bin` of iteration theta_bin = k (:135).  The theorems hold for EVERY such
   sequence and every theta_bins (the trigonometry, the rounding, the saturating `as i32` play no role).
   The model is tied to the implementation by the `c15bins` lines of the differential run (harness/phys/src/
   c15.rs: the real get_bins through verif_hough_bins vs the extracted get_bins_res on the logged sequence). *)
From Coq Require Import Permutation.
From AG Require Import Base.Prelude Base.Res Recon.Vec Recon.Cluster Recon.Cluster_proofs
  Recon.Bins Recon.Bins_proofs.

(* get_bins returns normally: `theta_bin - 1` does not underflow and `bin.try_into().unwrap()` (i32 -> u32) is
   only reached with bin >= 0, because the range starts at min_bin.max(0) *)
Theorem C15_get_bins_total :
  forall (theta_bins : N) (rho_bin : N -> Z),
  get_bins_res rho_bin theta_bins = Ok (get_bins_model theta_bins rho_bin).
Proof. exact get_bins_total_lemma. Qed.
Print Assumptions C15_get_bins_total.

(* no (theta, rho) pair is pushed twice: different iterations push different theta indices, one iteration
   pushes a strictly increasing range of rho *)
Theorem C15_get_bins_nodup :
  forall (theta_bins : N) (rho_bin : N -> Z), NoDup (get_bins_model theta_bins rho_bin).
Proof. exact get_bins_nodup_lemma. Qed.
Print Assumptions C15_get_bins_nodup.

Theorem C15_get_bins_theta_range :
  forall (theta_bins : N) (rho_bin : N -> Z) (t r : N),
  In (t, r) (get_bins_model theta_bins rho_bin) -> t < theta_bins.
Proof. exact get_bins_theta_range_lemma. Qed.
Print Assumptions C15_get_bins_theta_range.

(* exactly which bins are voted for: theta index t < theta_bins, at least one of the two edge values
   rho_bin t, rho_bin (t+1) non-negative, and rho between them *)
Theorem C15_get_bins_membership :
  forall (theta_bins : N) (rho_bin : N -> Z) (t r : N),
  In (t, r) (get_bins_model theta_bins rho_bin) <->
  t < theta_bins /\ (0 <= rho_bin t \/ 0 <= rho_bin (t + 1)%N)%Z /\
  (Z.min (rho_bin t) (rho_bin (t + 1)%N) <= Z.of_N r <= Z.max (rho_bin t) (rho_bin (t + 1)%N))%Z.
Proof. exact get_bins_in_iff_lemma. Qed.
Print Assumptions C15_get_bins_membership.

(* the same for the `positive` bin names of Recon/Cluster.v: (theta, rho) |-> 1 + rho * theta_bins + theta *)
Theorem C15_bins_of_nodup :
  forall (theta_bins : N) (rho_bin : N -> Z), NoDup (bins_of theta_bins rho_bin).
Proof. exact bins_of_nodup_lemma. Qed.
Print Assumptions C15_bins_of_nodup.

(* ---- how the C15 clustering theorems specialise: `bins` := the modelled get_bins with 230 theta bins
   (reconstruction.rs:63-78) over an arbitrary rho_bin sequence per point; no hypothesis on bins is left ---- *)
Theorem C15_cluster_pub_bins :
  forall (rho : point -> N -> Z) (near : point -> point -> bool) (sp : list point),
  exists clusters rem,
    cluster_spacepoints_pub (fun p => bins_of 230 (rho p)) near sp = Ok (clusters, rem) /\
    Permutation (concat clusters ++ rem) sp /\
    forall c, In c clusters -> (13 <= length c)%nat /\ connected near c.
Proof. intros rho near sp. apply cluster_pub_lemma. intros p. apply bins_of_nodup_lemma. Qed.
Print Assumptions C15_cluster_pub_bins.

Theorem C15_cluster_total_bins :
  forall (theta_bins : N) (rho : point -> N -> Z) (near : point -> point -> bool),
  forall sp fuel min_points, (1 <= min_points)%nat -> (length sp < fuel)%nat ->
  exists clusters rem,
    cluster_spacepoints (fun p => bins_of theta_bins (rho p)) near fuel min_points sp = Ok (clusters, rem).
Proof. intros n rho near. apply cluster_total_lemma. intros p. apply bins_of_nodup_lemma. Qed.
Print Assumptions C15_cluster_total_bins.

(* non-vacuity: a sequence that goes negative and comes back (the skipped iterations, the clamp at 0, a
   descending and an ascending range) *)
Example C15_get_bins_example :
  get_bins_res (fun k => nth (N.to_nat k) [2; 0; -3; -1; 1; 4; 4]%Z 0%Z) 6
  = Ok [(0, 0); (0, 1); (0, 2); (1, 0); (3, 0); (3, 1); (4, 1); (4, 2); (4, 3); (4, 4); (5, 4)].
Proof. vm_compute. reflexivity. Qed.
