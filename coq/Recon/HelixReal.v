(* Real-number reading of Helix::at / Helix::closest_t (physics/src/reconstruction.rs:127-212):
   the same formulas as coq/Recon/Helix.v with the rounding removed.  Definitions only. *)
From Coq Require Import Reals.
Local Open Scope R_scope.

(* the helix parameters, as in `struct Helix` *)
Record rhelix := { x0 : R; y0 : R; z0 : R; rho : R; phi0 : R; h : R }.

(* :127 Helix::at *)
Definition at_x (H : rhelix) (t : R) : R := rho H * cos (t + phi0 H) + x0 H.
Definition at_y (H : rhelix) (t : R) : R := rho H * sin (t + phi0 H) + y0 H.
Definition at_z (H : rhelix) (t : R) : R := h H / (2 * PI) * t + z0 H.

(* squared distance between the helix point at parameter t and the point (u, v, w) *)
Definition dist2 (H : rhelix) (u v w : R) (t : R) : R :=
  (at_x H t - u) ^ 2 + (at_y H t - v) ^ 2 + (at_z H t - w) ^ 2.

(* :174 r = hypot(u - x0, v - y0) *)
Definition k_r (H : rhelix) (u v : R) : R := sqrt ((u - x0 H) ^ 2 + (v - y0 H) ^ 2).
(* :175 delta = atan2(v - y0, u - x0).  Contract of atan2 used by the theorems: (u - x0, v - y0) has polar
   angle delta *)
Definition polar (a b q d : R) : Prop := a = q * cos d /\ b = q * sin d.
(* a concrete atan2 over the reals, with the range convention of libm: (-pi, pi] *)
Definition atan2R (y x : R) : R :=
  if Rlt_dec 0 x then atan (y / x)
  else if Rlt_dec x 0 then (if Rle_dec 0 y then atan (y / x) + PI else atan (y / x) - PI)
  else if Rlt_dec 0 y then PI / 2 else if Rlt_dec y 0 then - (PI / 2) else 0.

(* :177 temp ; :178 n = floor(temp / FULL_TURN) ; :180 M ; :181 e *)
Definition k_temp (H : rhelix) (w delta : R) : R := phi0 H + 2 * PI * (w - z0 H) / h H - delta.
Definition k_n (H : rhelix) (w delta : R) : R := IZR (Int_part (k_temp H w delta / (2 * PI))).
Definition k_M (H : rhelix) (w delta : R) : R := PI + 2 * PI * k_n H w delta - k_temp H w delta.
Definition k_e (H : rhelix) (u v : R) : R := 4 * PI ^ 2 * k_r H u v * rho H / h H ^ 2.
(* :205 t = HALF_TURN - E + 2 pi n - phi0 + delta, read as the definition of E in terms of t;
   with theta = t + phi0 - delta this is E = pi - theta + 2 pi n *)
Definition k_theta (H : rhelix) (delta t : R) : R := t + phi0 H - delta.
Definition k_E (H : rhelix) (w delta t : R) : R := PI - k_theta H delta t + 2 * PI * k_n H w delta.
(* the t the code returns (before clamping) for a given E *)
Definition t_of_E (H : rhelix) (w delta E : R) : R := PI - E + 2 * PI * k_n H w delta - phi0 H + delta.
(* :185 f(E, e, M) *)
Definition kepler_f (E e M : R) : R := E - e * sin E - M.

(* circle branch (:159-166): angle_between_vectors((c.x - x0, c.y - y0), (u - x0, v - y0)), c = at(0) *)
Definition circ_dot (H : rhelix) (u v : R) : R :=
  (at_x H 0 - x0 H) * (u - x0 H) + (at_y H 0 - y0 H) * (v - y0 H).
Definition circ_det (H : rhelix) (u v : R) : R :=
  (at_x H 0 - x0 H) * (v - y0 H) - (at_y H 0 - y0 H) * (u - x0 H).
