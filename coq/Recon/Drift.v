(* C18 — drift-time lookup (physics/src/drift.rs, physics/src/lib.rs:116-128).
   Definitions only.  The algorithm is written ONCE, generically over a carrier F with its
   arithmetic passed as an ordinary record argument, and instantiated
     * here with Coq's primitive binary64 floats (executable, extracted, compared bit for bit with
       the implementation on every run), and
     * in Recon/DriftR.v with the reals and an explicit rounding after every operation (theorems).
   The tables themselves are regenerated from /repo into Gen/Drift.v on every run. *)
From Coq Require Import Floats.
From AG Require Import Base.Prelude Base.Res Base.Bytes.

Record arith (F : Type) : Type := Arith {
  f_add : F -> F -> F;
  f_sub : F -> F -> F;
  f_mul : F -> F -> F;
  f_div : F -> F -> F;
  f_abs : F -> F;
  f_lt : F -> F -> bool;      (* IEEE `<`  (false when an operand is NaN) *)
  f_le : F -> F -> bool       (* IEEE `<=` (false when an operand is NaN) *)
}.
Arguments f_add {F}. Arguments f_sub {F}. Arguments f_mul {F}. Arguments f_div {F}.
Arguments f_abs {F}. Arguments f_lt {F}. Arguments f_le {F}.

(* error kinds of TryDriftLookupError (the property names both, so they are observed) *)
Definition ERR_TIME : N := 1.   (* DriftTimeOutOfRange *)
Definition ERR_Z : N := 2.      (* AxialPositionOutOfRange *)

Section Algo.
  Context {F : Type} (A : arith F).

  (* DriftTable(Vec<(Time, Length, Angle)>): (time, radius, correction) *)
  Definition knot : Type := (F * F * F)%type.
  Definition k_time (k : knot) : F := fst (fst k).
  Definition k_radius (k : knot) : F := snd (fst k).
  Definition k_corr (k : knot) : F := snd k.
  (* DriftTables(Vec<(DriftTable, Length)>): (table, z upper bound) *)
  Definition slice_t : Type := (list knot * F)%type.

  (* drift.rs:32  .iter().position(|&(time, _, _)| time > t) *)
  Fixpoint position (t : F) (l : list knot) (i : N) : option N :=
    match l with
    | [] => None
    | k :: l' => if f_lt A t (k_time k) then Some i else position t l' (i + 1)
    end.

  (* the interpolation, drift.rs:40-42, in the Rust operation order *)
  Definition lerp (fraction lhs rhs : F) : F :=
    f_add A lhs (f_mul A fraction (f_sub A rhs lhs)).
  Definition fraction_of (t lhs_time rhs_time : F) : F :=
    f_div A (f_sub A t lhs_time) (f_sub A rhs_time lhs_time).

  (* rhs index of the bracket, drift.rs:29-35 (range test already passed) *)
  Definition rhs_index_of (m : ovf) (tb : list knot) (t : F) : res N :=
    do dflt <- usub m 64 (lenN tb) 1;                       (* drift.rs:35 unwrap_or(self.0.len() - 1): eager argument *)
    Ok (match position t tb 0 with Some i => i | None => dflt end).

  (* DriftTable::at, drift.rs:23-46 *)
  Definition table_at (m : ovf) (tb : list knot) (t : F) : res (F * F) :=
    do first <- idx tb 0;                                   (* drift.rs:25 self.0[0] *)
    if f_lt A t (k_time first) then Err ERR_TIME else       (* drift.rs:25 t < self.0[0].0 || *)
    do n1 <- usub m 64 (lenN tb) 1;                         (* drift.rs:25 self.0.len() - 1 *)
    do last <- idx tb n1;                                   (* drift.rs:25 self.0[..] *)
    if f_lt A (k_time last) t then Err ERR_TIME else        (* drift.rs:25 t > last *)
    do rhs_index <- rhs_index_of m tb t;                    (* drift.rs:29-35 *)
    do lhs_index <- usub m 64 rhs_index 1;                  (* drift.rs:36 rhs_index - 1 *)
    do lhs <- idx tb lhs_index;                             (* drift.rs:37 *)
    do rhs <- idx tb rhs_index;                             (* drift.rs:38 *)
    let fraction := fraction_of t (k_time lhs) (k_time rhs) in                 (* drift.rs:40 *)
    let radius := lerp fraction (k_radius lhs) (k_radius rhs) in               (* drift.rs:41 *)
    let correction := lerp fraction (k_corr lhs) (k_corr rhs) in               (* drift.rs:42; Angle::from is the identity on the value *)
    Ok (radius, correction).

  (* drift.rs:68 .find(|(_, z_upper_bound)| z_upper_bound >= &z_abs) *)
  Definition find_slice (ts : list slice_t) (z_abs : F) : option slice_t :=
    find (fun e => f_le A z_abs (snd e)) ts.

  (* DriftTables::at, drift.rs:60-73 *)
  Definition tables_at (m : ovf) (ts : list slice_t) (z t : F) : res (F * F) :=
    let z_abs := f_abs A z in                               (* drift.rs:61 *)
    do n1 <- usub m 64 (lenN ts) 1;                         (* drift.rs:62 self.0.len() - 1 *)
    do last <- idx ts n1;
    if f_lt A (snd last) z_abs then Err ERR_Z else          (* drift.rs:62 z_abs > last bound *)
    do e <- unwrap (find_slice ts z_abs);                   (* drift.rs:66-70 .find(..).unwrap() *)
    table_at m (fst e) t.                                   (* drift.rs:72 *)

  (* impl TryFrom<Avalanche> for SpacePoint, lib.rs:119-127: (r, phi, z) *)
  Definition space_point (m : ovf) (ts : list slice_t) (t phi z : F) : res (F * F * F) :=
    do rc <- tables_at m ts z t;                            (* lib.rs:120 *)
    Ok (fst rc, f_sub A phi (snd rc), z).                   (* lib.rs:122-126 *)
End Algo.

(* ---------- instance 1: IEEE binary64 (kernel primitive floats) ---------- *)
Definition prim_arith : arith float :=
  Arith float PrimFloat.add PrimFloat.sub PrimFloat.mul PrimFloat.div PrimFloat.abs PrimFloat.ltb PrimFloat.leb.

Definition ptables : Type := list (list (float * float * float) * float).
Definition space_point_f (m : ovf) (ts : ptables) (t phi z : float) : res (float * float * float) :=
  space_point prim_arith m ts t phi z.

(* ---------- exact decoding of table entries to dyadic rationals m * 2^e (for the table checks) ---------- *)
Definition dyadic : Type := (Z * Z)%type.
Definition dy_of (x : float) : option dyadic :=
  match Prim2SF x with
  | S754_zero _ => Some (0, 0)%Z
  | S754_finite s m e => Some (if s then Z.neg m else Z.pos m, e)
  | _ => None
  end.
(* m1*2^e1 - m2*2^e2, exact *)
Definition dy_sub (a b : dyadic) : dyadic :=
  let '(m1, e1) := a in let '(m2, e2) := b in
  let e := Z.min e1 e2 in
  (m1 * 2 ^ (e1 - e) - m2 * 2 ^ (e2 - e), e)%Z.
Definition dy_sgn (a : dyadic) : Z := Z.sgn (fst a).
Definition dy_leb (a b : dyadic) : bool := (dy_sgn (dy_sub a b) <=? 0)%Z.
Definition dy_ltb (a b : dyadic) : bool := (dy_sgn (dy_sub a b) <? 0)%Z.
Definition dy_eqb (a b : dyadic) : bool := (dy_sgn (dy_sub a b) =? 0)%Z.
(* sufficient test for "representable in binary64" (|m| < 2^53, e >= -1074; no overflow check: the theorems are
   stated for an unbounded exponent range above).  Complete for decoded table entries (normalised mantissas) and for
   the exact difference of two entries whose ratio is within [1/2, 2] or one of which is 0. *)
Definition dy_fmt (a : dyadic) : bool :=
  let '(m, e) := a in (-1074 <=? e)%Z && (Z.abs m <? 2 ^ 53)%Z.
(* m*2^e < p/q  and  m*2^e <= p/q  (q > 0), exact *)
Definition dy_lt_q (a : dyadic) (p : Z) (q : positive) : bool :=
  let '(m, e) := a in (m * 2 ^ Z.max 0 e * Z.pos q <? p * 2 ^ Z.max 0 (- e))%Z.
Definition dy_le_q (a : dyadic) (p : Z) (q : positive) : bool :=
  let '(m, e) := a in (m * 2 ^ Z.max 0 e * Z.pos q <=? p * 2 ^ Z.max 0 (- e))%Z.

Definition dknot : Type := (dyadic * dyadic * dyadic)%type.
Definition dtables : Type := list (list dknot * dyadic).

Definition dy_knot (k : float * float * float) : option dknot :=
  match dy_of (fst (fst k)), dy_of (snd (fst k)), dy_of (snd k) with
  | Some a, Some b, Some c => Some (a, b, c)
  | _, _, _ => None
  end.
Fixpoint opt_map {X Y} (f : X -> option Y) (l : list X) : option (list Y) :=
  match l with
  | [] => Some []
  | x :: l' => match f x, opt_map f l' with Some y, Some r => Some (y :: r) | _, _ => None end
  end.
Definition dy_slice (s : list (float * float * float) * float) : option (list dknot * dyadic) :=
  match opt_map dy_knot (fst s), dy_of (snd s) with Some t, Some b => Some (t, b) | _, _ => None end.
(* None iff some entry is infinite or NaN *)
Definition dy_tables (ts : ptables) : option dtables := opt_map dy_slice ts.

(* adjacent pairs *)
Fixpoint adj {X} (p : X -> X -> bool) (l : list X) : bool :=
  match l with
  | a :: ((b :: _) as l') => p a b && adj p l'
  | _ => true
  end.

Definition dk_time (k : dknot) : dyadic := fst (fst k).
Definition dk_radius (k : dknot) : dyadic := snd (fst k).
Definition dk_corr (k : dknot) : dyadic := snd k.

(* what the unit tests of /repo promise informally, plus what the interpolation needs:
   >= 2 knots; times strictly ascending; radii non-increasing; corrections non-decreasing from 0;
   adjacent radius / correction differences representable (true when adjacent ratios are <= 2, Sterbenz);
   every entry representable *)
Definition dknot_fmt (k : dknot) : bool := dy_fmt (dk_time k) && dy_fmt (dk_radius k) && dy_fmt (dk_corr k).
Definition dstep_ok (a b : dknot) : bool :=
  dy_ltb (dk_time a) (dk_time b) &&
  dy_leb (dk_radius b) (dk_radius a) && dy_fmt (dy_sub (dk_radius b) (dk_radius a)) &&
  dy_leb (dk_corr a) (dk_corr b) && dy_fmt (dy_sub (dk_corr b) (dk_corr a)).
Definition dtable_okb (t : list dknot) : bool :=
  match t with
  | k0 :: _ :: _ => dy_eqb (dk_corr k0) (0, 0)%Z && forallb dknot_fmt t && adj dstep_ok t
  | _ => false
  end.
Definition dtables_okb (ts : dtables) : bool :=
  match ts with
  | [] => false
  | _ => forallb (fun s => dtable_okb (fst s) && dy_fmt (snd s)) ts
         && adj (fun a b => dy_ltb (snd a) (snd b)) ts
  end.
Definition tables_okb (ts : ptables) : bool :=
  match dy_tables ts with Some d => dtables_okb d | None => false end.

(* segments: (table index, index of the left knot); tabulated radius step of a segment *)
Definition seg : Type := (N * N)%type.
Fixpoint steps_from (i j : N) (t : list dknot) : list (seg * dyadic) :=
  match t with
  | a :: ((b :: _) as t') => ((i, j), dy_sub (dk_radius a) (dk_radius b)) :: steps_from i (j + 1) t'
  | _ => []
  end.
Fixpoint all_steps_from (i : N) (ts : dtables) : list (seg * dyadic) :=
  match ts with
  | [] => []
  | s :: ts' => steps_from i 0 (fst s) ++ all_steps_from (i + 1) ts'
  end.
Definition all_steps (ts : dtables) : list (seg * dyadic) := all_steps_from 0 ts.
(* the segments whose tabulated step is >= p/q *)
Definition big_steps (ts : dtables) (p : Z) (q : positive) : list seg :=
  map fst (filter (fun s => negb (dy_lt_q (snd s) p q)) (all_steps ts)).

(* ---------- known finding F8, class `drift_step_ge_half_mm` ----------
   (table, left knot) of the segments of the shipped tables whose tabulated radius step is >= 0.5 mm
   (the same list is KNOWN_STEPS in harness/phys/src/c18.rs). Committed, not generated: a segment outside this
   list with a step >= 0.5 mm makes `steps_okb` false, i.e. is reported. *)
Definition known_steps : list seg :=
  [
   (0, 17); (1, 17); (2, 17); (3, 17); (4, 17); (5, 17); (6, 17); (7, 17); (8, 17); (9, 17);
   (10, 17); (11, 17); (12, 17); (13, 17); (14, 17); (15, 17); (16, 17); (17, 17); (18, 17); (19, 17);
   (24, 17); (25, 17); (26, 17); (27, 17); (28, 17); (29, 17); (30, 17); (31, 17); (32, 17); (33, 17);
   (34, 17); (35, 17); (36, 17); (37, 17); (38, 17); (39, 17); (40, 17); (41, 17); (42, 17); (43, 17);
   (44, 17); (45, 17); (46, 17); (47, 17); (48, 17); (49, 17); (50, 17); (51, 17); (52, 17); (53, 17);
   (54, 17); (55, 17); (72, 17); (75, 17); (80, 17); (81, 1); (81, 2); (81, 4); (81, 6); (81, 8);
   (81, 10); (81, 12); (81, 13); (81, 15); (83, 17); (87, 1); (87, 11); (88, 0); (88, 1); (88, 2);
   (88, 3); (88, 4); (88, 5); (88, 6); (88, 7); (88, 8); (88, 9); (88, 10); (88, 11); (88, 12);
   (88, 13); (88, 14); (88, 15); (88, 16); (89, 0); (89, 1); (89, 2); (89, 3); (89, 4); (89, 5);
   (89, 6); (89, 7); (89, 8); (89, 9); (89, 10); (89, 11); (89, 12); (89, 13); (89, 14); (89, 15);
   (89, 16); (90, 0); (90, 1); (90, 2); (90, 3); (90, 4); (90, 5); (90, 6); (90, 7); (90, 8);
   (90, 9); (90, 10); (90, 11); (90, 12); (90, 13); (90, 14); (90, 15); (90, 16); (91, 0); (91, 1);
   (91, 2); (91, 3); (91, 4); (91, 5); (91, 6); (91, 7); (91, 8); (91, 9); (91, 10); (91, 11);
   (91, 12); (91, 13); (91, 14); (91, 15); (91, 16)
  ].
Definition seg_eqb (a b : seg) : bool := (fst a =? fst b) && (snd a =? snd b).
Definition seg_mem (s : seg) (l : list seg) : bool := existsb (seg_eqb s) l.
(* every tabulated step is < 0.5 mm, except in the known class *)
Definition steps_okb (d : dtables) : bool :=
  forallb (fun s => dy_lt_q (snd s) 5 10000 || seg_mem (fst s) known_steps) (all_steps d).
(* every tabulated step is < 0.66 mm (the computed bound that replaces the property's 0.5 mm) *)
Definition max_step_okb (d : dtables) : bool :=
  forallb (fun s => dy_lt_q (snd s) 66 100000) (all_steps d).
(* the witness of F8: slice 0 contains z = 0; its knots 17 and 18 are 8 ns apart (to 1e-20 s) and their
   radii differ by at least 0.5 mm *)
Definition witness_okb (d : dtables) : bool :=
  match nth_error d 0%nat with
  | Some s =>
      match nth_error (fst s) 17%nat, nth_error (fst s) 18%nat with
      | Some a, Some b =>
          dy_leb (0, 0)%Z (snd s) &&
          negb (dy_lt_q (dy_sub (dk_radius a) (dk_radius b)) 5 10000) &&
          dy_le_q (dy_sub (dk_time b) (dk_time a)) 800000000001 100000000000000000000 &&
          negb (dy_lt_q (dy_sub (dk_time b) (dk_time a)) 799999999999 100000000000000000000)
      | _, _ => false
      end
  | None => false
  end.
