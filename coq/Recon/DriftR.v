(* C18 — the drift lookup over the reals with an explicit rounding after every arithmetic operation:
   the SAME generic algorithm (Recon/Drift.v, Section Algo) instantiated with R.  Definitions only.
   `rnd64` is Flocq's round-to-nearest-even onto the binary64 format with gradual underflow and unbounded
   exponent range above (no overflow, no NaN: the idealisation under which the theorems are stated). *)
From Coq Require Import Reals.
From Flocq Require Import Core.
From AG Require Import Base.Prelude Base.Res Base.Bytes Recon.Drift Gen.Drift.

Local Open Scope R_scope.

Definition fexp64 : Z -> Z := FLT_exp (-1074) 53.
Definition rnd64 : R -> R := round radix2 fexp64 ZnearestE.
Definition fmt64 : R -> Prop := generic_format radix2 fexp64.

(* instance 2 of the generic algorithm: exact operation on R followed by `rnd`; comparisons and |.| exact *)
Definition real_arith (rnd : R -> R) : arith R :=
  Arith R (fun x y => rnd (x + y)) (fun x y => rnd (x - y)) (fun x y => rnd (x * y)) (fun x y => rnd (x / y))
        Rabs Rlt_bool Rle_bool.

Notation rknot := (@knot R).
Notation rslice := (@slice_t R).
Notation rtables := (list (@slice_t R)).

(* (radius, Lorentz correction) looked up at (z, t), and the space point (r, phi, z) *)
Definition lookupR (m : ovf) (ts : rtables) (z t : R) : res (R * R) := tables_at (real_arith rnd64) m ts z t.
Definition space_pointR (m : ovf) (ts : rtables) (t phi z : R) : res (R * R * R) :=
  space_point (real_arith rnd64) m ts t phi z.

(* ---------- what a well-formed table is ---------- *)
Fixpoint adjP {X} (P : X -> X -> Prop) (l : list X) : Prop :=
  match l with
  | a :: ((b :: _) as l') => P a b /\ adjP P l'
  | _ => True
  end.

Notation rk_time := (@k_time R).
Notation rk_radius := (@k_radius R).
Notation rk_corr := (@k_corr R).
Definition rk0 : rknot := (0, 0, 0).

Section TableOk.
  Variable fmt : R -> Prop.
  Definition knot_fmt (k : rknot) : Prop := fmt (rk_time k) /\ fmt (rk_radius k) /\ fmt (rk_corr k).
  (* times strictly ascending, radii non-increasing, corrections non-decreasing,
     adjacent radius and correction differences representable (implied by adjacent ratios <= 2: Sterbenz) *)
  Definition step_ok (a b : rknot) : Prop :=
    rk_time a < rk_time b /\
    rk_radius b <= rk_radius a /\ fmt (rk_radius b - rk_radius a) /\
    rk_corr a <= rk_corr b /\ fmt (rk_corr b - rk_corr a).
  Definition table_ok (t : list rknot) : Prop :=
    (2 <= length t)%nat /\ rk_corr (hd rk0 t) = 0 /\ Forall knot_fmt t /\ adjP step_ok t.
  (* at least one slice, every table well-formed, bounds strictly ascending *)
  Definition tables_ok (ts : rtables) : Prop :=
    ts <> [] /\ Forall (fun s => table_ok (fst s)) ts /\ adjP (fun a b => snd a < snd b) ts.
End TableOk.

(* s is the slice of z: the first one whose upper bound is >= |z| *)
Definition is_slice (ts : rtables) (z : R) (s : rslice) : Prop :=
  exists l1 l2, ts = l1 ++ s :: l2 /\ Rabs z <= snd s /\ Forall (fun s' => snd s' < Rabs z) l1.
Definition zmax (ts : rtables) : R := snd (last ts ([], 0)).
Definition t_first (s : rslice) : R := rk_time (hd rk0 (fst s)).
Definition t_last (s : rslice) : R := rk_time (last (fst s) rk0).
Definition knot_at (s : rslice) (j : nat) : rknot := nth j (fst s) rk0.

(* ---------- exact real value of the decoded table entries ---------- *)
Definition dyR (a : dyadic) : R := F2R (Float radix2 (fst a) (snd a)).
Definition dknotR (k : dknot) : rknot := (dyR (dk_time k), dyR (dk_radius k), dyR (dk_corr k)).
Definition dtablesR (d : dtables) : rtables := map (fun s => (map dknotR (fst s), dyR (snd s))) d.

(* ---------- the tables of the current source (Gen/Drift.v, regenerated on every run) ---------- *)
(* (a `match` written directly on `dy_tables drift_tables` makes the elaborator evaluate the scrutinee) *)
Definition unopt_tables (o : option dtables) : dtables := match o with Some d => d | None => [] end.
Definition d_tables : dtables := unopt_tables (dy_tables drift_tables).
Definition r_tables : rtables := dtablesR d_tables.
(* everything that is decided by computation on the current tables, evaluated once *)
Definition current_checks : bool :=
  tables_okb drift_tables && steps_okb d_tables && witness_okb d_tables && max_step_okb d_tables.
