(* Lemmas about the Vec primitives of Recon/Vec.v. *)
From Coq Require Import Permutation.
From AG Require Import Base.Prelude Base.Res Recon.Vec.
Local Open Scope nat_scope.

Section VecP.
  Context {A : Type}.
  Implicit Types v l : list A.

  Lemma vpop_none v : vpop v = None <-> v = [].
  Proof.
    destruct v as [|x v']; cbn; [tauto|].
    destruct (vpop v') as [[l y]|]; split; intros H; discriminate.
  Qed.

  Lemma vpop_some v l y : vpop v = Some (l, y) <-> v = l ++ [y].
  Proof.
    revert l; induction v as [|x v' IH]; intros l; cbn.
    - split; [discriminate|]. intros H. destruct l; discriminate.
    - destruct (vpop v') as [[l' y']|] eqn:E.
      + split.
        * intros H. inv H. cbn. f_equal. apply IH. reflexivity.
        * intros H. destruct l as [|a l0]; cbn in H.
          -- inv H. cbn in E. discriminate.
          -- inv H. assert (E2 : Some (l', y') = Some (l0, y)) by (apply IH; reflexivity).
             inv E2. reflexivity.
      + apply vpop_none in E. subst v'. split.
        * intros H. inv H. reflexivity.
        * intros H. destruct l as [|a l0]; cbn in H.
          -- inv H. reflexivity.
          -- inv H. destruct l0; discriminate.
  Qed.

  Lemma nth_error_split' l i x :
    nth_error l i = Some x -> l = firstn i l ++ x :: skipn (S i) l.
  Proof.
    revert i; induction l as [|a l IH]; intros [|i] H; cbn in *; try discriminate.
    - inv H. reflexivity.
    - f_equal. apply IH. exact H.
  Qed.

  (* swap_remove succeeds exactly on valid indices, returns v[i], and the rest is v without it *)
  Lemma swap_remove_ok i v x :
    nth_error v i = Some x ->
    exists v', swap_remove i v = Ok (x, v') /\ Permutation v (x :: v').
  Proof.
    intros Hn. unfold swap_remove.
    destruct (vpop v) as [[l y]|] eqn:E.
    - apply vpop_some in E. subst v.
      destruct (i =? length l) eqn:Ei.
      + apply Nat.eqb_eq in Ei. subst i.
        rewrite nth_error_app2 in Hn by lia. rewrite Nat.sub_diag in Hn. cbn in Hn. inv Hn.
        eexists; split; [reflexivity|]. apply Permutation_sym, Permutation_cons_append.
      + apply Nat.eqb_neq in Ei.
        assert (Hlt : i < length l).
        { assert (i < length (l ++ [y])) by (apply nth_error_Some; congruence).
          rewrite app_length in H; cbn in H. lia. }
        rewrite nth_error_app1 in Hn by exact Hlt. rewrite Hn.
        eexists; split; [reflexivity|].
        pose proof (nth_error_split' _ _ _ Hn) as Hs.
        rewrite Hs at 1. rewrite <- app_assoc. cbn.
        apply Permutation_sym, Permutation_cons_app, Permutation_app_head.
        apply Permutation_cons_append.
    - apply vpop_none in E. subst v. destruct i; discriminate.
  Qed.

  Lemma swap_remove_inv i v x v' :
    swap_remove i v = Ok (x, v') -> nth_error v i = Some x /\ Permutation v (x :: v').
  Proof.
    intros H. destruct (nth_error v i) as [x0|] eqn:Hn.
    - destruct (swap_remove_ok _ _ _ Hn) as (v0 & H0 & HP). rewrite H0 in H. inv H. auto.
    - exfalso. unfold swap_remove in H.
      destruct (vpop v) as [[l y]|] eqn:E; [|discriminate].
      apply vpop_some in E. subst v.
      apply nth_error_None in Hn. rewrite app_length in Hn; cbn in Hn.
      destruct (i =? length l) eqn:Ei; [apply Nat.eqb_eq in Ei; lia|].
      destruct (nth_error l i) eqn:Hl; [|discriminate].
      assert (i < length l) by (apply nth_error_Some; congruence). lia.
  Qed.

  Lemma position_some (f : A -> bool) v x :
    In x v -> f x = true ->
    exists i y, position f v = Some i /\ nth_error v i = Some y /\ f y = true.
  Proof.
    induction v as [|a v IH]; intros Hin Hf; [destruct Hin|]. cbn.
    destruct (f a) eqn:Ea.
    - exists 0, a. auto.
    - destruct Hin as [->|Hin]; [congruence|].
      destruct (IH Hin Hf) as (i & y & Hp & Hn & Hy). rewrite Hp. exists (S i), y. auto.
  Qed.

  Lemma max_by_key_from_in (key : A -> nat) l kb b : In (max_by_key_from key kb b l) (b :: l).
  Proof.
    revert kb b; induction l as [|y l IH]; intros kb b; cbn [max_by_key_from]; [left; reflexivity|].
    cbv zeta. destruct (key y <? kb).
    - destruct (IH kb b) as [H|H]; [left; exact H|right; right; exact H].
    - right. apply IH.
  Qed.

  Lemma nth_error_len_app (a b : list A) x : nth_error (a ++ x :: b) (length a) = Some x.
  Proof. induction a; cbn; auto. Qed.
  Lemma firstn_len_app (a b : list A) : firstn (length a) (a ++ b) = a.
  Proof. induction a; cbn; [destruct b; reflexivity|f_equal; auto]. Qed.
  Lemma skipn_S_len_app (a b : list A) x : skipn (S (length a)) (a ++ x :: b) = b.
  Proof. induction a; cbn; auto. Qed.

  Lemma max_by_key_in (key : A -> nat) l x : max_by_key key l = Some x -> In x l.
  Proof.
    destruct l as [|a l]; cbn; [discriminate|]. intros H. inv H. apply max_by_key_from_in.
  Qed.

  Lemma max_by_from_in (cmp : A -> A -> res comparison) l b x :
    max_by_from cmp b l = Ok x -> In x (b :: l).
  Proof.
    revert b; induction l as [|y l IH]; intros b; cbn; intros H.
    - inv H. auto.
    - destruct (cmp b y) as [c| |]; cbn in H; try discriminate.
      apply IH in H. destruct H as [H|H]; [|auto]. rewrite <- H. destruct c; auto.
  Qed.

  Lemma max_by_in (cmp : A -> A -> res comparison) l x : max_by cmp l = Ok (Some x) -> In x l.
  Proof.
    destruct l as [|a l]; cbn; [discriminate|].
    destruct (max_by_from cmp a l) eqn:E; cbn; intros H; inv H.
    eapply max_by_from_in; eauto.
  Qed.

  Lemma filter_split_perm (f : A -> bool) l :
    Permutation (filter f l ++ filter (fun x => negb (f x)) l) l.
  Proof.
    induction l as [|a l IH]; cbn; [constructor|].
    destruct (f a); cbn.
    - constructor. exact IH.
    - apply Permutation_sym, Permutation_cons_app, Permutation_sym, IH.
  Qed.

  Lemma perm_filter (f : A -> bool) l l' : Permutation l l' -> Permutation (filter f l) (filter f l').
  Proof.
    induction 1; cbn.
    - constructor.
    - destruct (f x); [constructor|]; assumption.
    - destruct (f x), (f y); try apply perm_swap; apply Permutation_refl.
    - eapply Permutation_trans; eassumption.
  Qed.

  (* an element of a list of lists is a sub-multiset of the concatenation *)
  Lemma in_concat_perm (c : list A) (cs : list (list A)) :
    In c cs -> exists rest, Permutation (c ++ rest) (concat cs).
  Proof.
    intros H. apply in_split in H. destruct H as (l1 & l2 & ->).
    exists (concat l1 ++ concat l2). rewrite concat_app. cbn.
    rewrite app_assoc. rewrite (app_assoc (concat l1)).
    apply Permutation_app_tail, Permutation_app_comm.
  Qed.
End VecP.
