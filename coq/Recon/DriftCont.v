(* C18 — continuity of the drift lookup ACROSS a knot (physics/src/drift.rs).  Definitions only.
   Recon/DriftR_proofs.v bounds the change between two lookups by the tabulated change over a knot interval
   containing both, so across a knot by the SUM of two steps.  Here: two lookups at most one knot spacing apart
   that straddle one knot differ by at most the MAX of the two tabulated steps, plus an explicit rounding term.
   Proofs: Recon/DriftCont_proofs.v; pins: Recon/DriftCont_pins.v. *)
From Coq Require Import Reals.
From Flocq Require Import Core.
From AG Require Import Base.Prelude Base.Res Base.Bytes Recon.Drift Recon.DriftR Gen.Drift.

Local Open Scope R_scope.

(* the interpolation without any rounding: value at t of the chord through (lt, lhs) and (rt, rhs) *)
Definition exact_lerp (lt rt lhs rhs t : R) : R := lhs + (t - lt) / (rt - lt) * (rhs - lhs).

(* unit roundoff and half the smallest subnormal of binary64: rnd64 x = x (1 + e) + n, |e| <= u64, |n| <= eta64 *)
Definition u64 : R := bpow radix2 (-53).
Definition eta64 : R := bpow radix2 (-1075).

(* rounding term of ONE lookup in a segment with tabulated step `step`, radii within [0, B] *)
Definition lerp_eps (u eta B step : R) : R := u * (B + 9 * step) + 2 * eta.
(* rounding term of the straddle bound: two lookups, in the segments left and right of the knot *)
Definition straddle_eps (u eta B step1 step2 : R) : R := u * (2 * B + 9 * (step1 + step2)) + 4 * eta.

(* ---------- computed facts about the current tables (dyadic, exact) ---------- *)
(* adjacent tabulated times are 8 ns apart to within 1e-21 s:  8e-9 - 1e-21 <= t_(j+1) - t_j <= 8e-9 + 1e-21.
   (The tabulated times are the binary64 roundings of j * 8e-9, so the spacing is NOT exactly uniform.) *)
Definition spacing_okb (a b : dknot) : bool :=
  let d := dy_sub (dk_time b) (dk_time a) in
  dy_le_q d 8000000000001 1000000000000000000000 && negb (dy_lt_q d 7999999999999 1000000000000000000000).
Definition spacings_okb (d : dtables) : bool := forallb (fun s => adj spacing_okb (fst s)) d.
(* every tabulated radius lies in [0, 1/4] m *)
Definition radius_okb (k : dknot) : bool := dy_leb (0, 0)%Z (dk_radius k) && dy_le_q (dk_radius k) 1 4.
Definition radii_okb (d : dtables) : bool := forallb (fun s => forallb radius_okb (fst s)) d.
