(* The equation solved by Helix::closest_t is the stationarity condition of the squared distance;
   the circle branch returns a global minimiser.  (Coquelicot, over R.) *)
From Coq Require Import Reals Lra Lia.
From Coquelicot Require Import Coquelicot.
From AG Require Import Recon.HelixReal.
Local Open Scope R_scope.

Lemma sin_shift_Z : forall x (k : Z), sin (x + 2 * PI * IZR k) = sin x.
Proof.
  intros x k. rewrite sin_plus.
  assert (S0 : sin (IZR k * PI) = 0) by (apply sin_eq_0_1; now exists k).
  replace (2 * PI * IZR k) with (2 * (IZR k * PI)) by ring.
  rewrite sin_2a, cos_2a, S0.
  assert (C1 : cos (IZR k * PI) * cos (IZR k * PI) = 1).
  { generalize (sin2_cos2 (IZR k * PI)). unfold Rsqr. rewrite S0. lra. }
  rewrite C1. ring.
Qed.

(* explicit derivative of the squared distance *)
Definition dist2' (H : rhelix) (u v w t : R) : R :=
  2 * (at_x H t - u) * (- rho H * sin (t + phi0 H))
  + 2 * (at_y H t - v) * (rho H * cos (t + phi0 H))
  + 2 * (at_z H t - w) * (h H / (2 * PI)).

Lemma dist2_is_derive : forall H u v w t, is_derive (dist2 H u v w) t (dist2' H u v w t).
Proof.
  intros H u v w t. unfold dist2, dist2', at_x, at_y, at_z.
  auto_derive; [exact I | ring].
Qed.

Lemma sin_k_E : forall H w delta t, sin (k_E H w delta t) = sin (k_theta H delta t).
Proof.
  intros. unfold k_E, k_n. rewrite sin_shift_Z.
  replace (PI - k_theta H delta t) with (- k_theta H delta t + PI) by ring.
  rewrite neg_sin, sin_neg. ring.
Qed.

(* D'(t) = - h^2 / (2 pi^2) * (E - e sin E - M), with the code's E, e, M *)
Lemma dist2'_kepler : forall H u v w delta t,
  h H <> 0 ->
  polar (u - x0 H) (v - y0 H) (k_r H u v) delta ->
  dist2' H u v w t
  = - (h H ^ 2 / (2 * PI ^ 2)) * kepler_f (k_E H w delta t) (k_e H u v) (k_M H w delta).
Proof.
  intros H u v w delta t Hh [Pu Pv].
  unfold kepler_f. rewrite sin_k_E.
  unfold k_E, k_M, k_e, k_temp, k_theta.
  replace (t + phi0 H - delta) with ((t + phi0 H) - delta) by ring.
  rewrite sin_minus.
  unfold dist2', at_x, at_y, at_z.
  assert (U : u = x0 H + k_r H u v * cos delta) by lra.
  assert (V : v = y0 H + k_r H u v * sin delta) by lra.
  set (q := k_r H u v) in *. clearbody q. clear Pu Pv.
  set (n := k_n H w delta). clearbody n.
  rewrite U, V. clear U V.
  generalize PI_neq0. intros Hpi.
  field. split; assumption.
Qed.

Lemma kepler_iff_stationary_lemma : forall H u v w delta t,
  h H <> 0 ->
  polar (u - x0 H) (v - y0 H) (k_r H u v) delta ->
  (Derive (dist2 H u v w) t = 0
   <-> k_E H w delta t - k_e H u v * sin (k_E H w delta t) = k_M H w delta).
Proof.
  intros H u v w delta t Hh P.
  rewrite (is_derive_unique _ _ _ (dist2_is_derive H u v w t)).
  rewrite (dist2'_kepler H u v w delta t Hh P). unfold kepler_f.
  assert (K : h H ^ 2 / (2 * PI ^ 2) <> 0).
  { generalize PI_neq0. intros Hpi. unfold Rdiv. apply Rmult_integral_contrapositive_currified.
    - apply pow_nonzero, Hh.
    - apply Rinv_neq_0_compat. apply Rmult_integral_contrapositive_currified; [lra | apply pow_nonzero, Hpi]. }
  split; intros E0.
  - apply Rmult_integral in E0. destruct E0 as [E0 | E0]; [ | lra].
    exfalso. apply K. lra.
  - replace (k_E H w delta t - k_e H u v * sin (k_E H w delta t) - k_M H w delta) with 0 by lra. ring.
Qed.

(* the t the code computes from a root E of Kepler's equation is a stationary point *)
Lemma t_of_E_stationary : forall H u v w delta E,
  h H <> 0 ->
  polar (u - x0 H) (v - y0 H) (k_r H u v) delta ->
  E - k_e H u v * sin E = k_M H w delta ->
  Derive (dist2 H u v w) (t_of_E H w delta E) = 0.
Proof.
  intros H u v w delta E Hh P HE.
  apply (kepler_iff_stationary_lemma H u v w delta _ Hh P).
  assert (EE : k_E H w delta (t_of_E H w delta E) = E) by (unfold k_E, t_of_E, k_theta; ring).
  rewrite EE. exact HE.
Qed.

(* ---------------------------------------------------------------------------------------------
   circle branch: h = 0
   --------------------------------------------------------------------------------------------- *)
(* rho * ((u-x0) cos(t+phi0) + (v-y0) sin(t+phi0)) = cos t * dot + sin t * det *)
Lemma circ_key : forall H u v t,
  rho H * ((u - x0 H) * cos (t + phi0 H) + (v - y0 H) * sin (t + phi0 H))
  = cos t * circ_dot H u v + sin t * circ_det H u v.
Proof.
  intros. unfold circ_dot, circ_det, at_x, at_y.
  rewrite !cos_plus, !sin_plus, cos_0, sin_0. ring.
Qed.
Lemma circ_key' : forall H u v t,
  rho H * ((u - x0 H) * sin (t + phi0 H) - (v - y0 H) * cos (t + phi0 H))
  = sin t * circ_dot H u v - cos t * circ_det H u v.
Proof.
  intros. unfold circ_dot, circ_det, at_x, at_y.
  rewrite !cos_plus, !sin_plus, cos_0, sin_0. ring.
Qed.

(* for h = 0 the squared distance is  rho^2 + r^2 + (z0-w)^2 - 2 q cos(t - ts)  where (q, ts) are the polar
   coordinates of (dot, det), i.e. ts is what atan2(det, dot) returns *)
Lemma circle_form : forall H u v w q ts t,
  h H = 0 ->
  polar (circ_dot H u v) (circ_det H u v) q ts ->
  dist2 H u v w t
  = rho H ^ 2 + k_r H u v ^ 2 + (z0 H - w) ^ 2 - 2 * q * cos (t - ts).
Proof.
  intros H u v w q ts t Hh [Pd Pe].
  assert (R2 : k_r H u v ^ 2 = (u - x0 H) ^ 2 + (v - y0 H) ^ 2).
  { unfold k_r. rewrite pow2_sqrt; [reflexivity | apply Rplus_le_le_0_compat; apply pow2_ge_0]. }
  rewrite R2, cos_minus.
  replace (2 * q * (cos t * cos ts + sin t * sin ts))
    with (2 * (cos t * (q * cos ts) + sin t * (q * sin ts))) by ring.
  rewrite <- Pd, <- Pe, <- circ_key.
  unfold dist2, at_x, at_y, at_z. rewrite Hh.
  generalize (sin2_cos2 (t + phi0 H)). unfold Rsqr.
  set (c := cos (t + phi0 H)). set (s := sin (t + phi0 H)). intros C1.
  replace (rho H ^ 2) with (rho H ^ 2 * (s * s + c * c)) by (rewrite C1; ring).
  unfold Rdiv. ring.
Qed.

Lemma circle_min : forall H u v w ts,
  h H = 0 ->
  polar (circ_dot H u v) (circ_det H u v) (sqrt (circ_dot H u v ^ 2 + circ_det H u v ^ 2)) ts ->
  forall t, dist2 H u v w ts <= dist2 H u v w t.
Proof.
  intros H u v w ts Hh P t.
  rewrite (circle_form H u v w _ ts t Hh P), (circle_form H u v w _ ts ts Hh P).
  replace (ts - ts) with 0 by ring. rewrite cos_0.
  assert (Q : 0 <= sqrt (circ_dot H u v ^ 2 + circ_det H u v ^ 2)) by apply sqrt_pos.
  generalize (COS_bound (t - ts)). intros [_ Cb]. nra.
Qed.

Lemma circle_stationary : forall H u v w q ts,
  h H = 0 ->
  polar (circ_dot H u v) (circ_det H u v) q ts ->
  Derive (dist2 H u v w) ts = 0.
Proof.
  intros H u v w q ts Hh [Pd Pe].
  rewrite (is_derive_unique _ _ _ (dist2_is_derive H u v w ts)).
  unfold dist2'. rewrite Hh.
  replace (2 * (at_x H ts - u) * (- rho H * sin (ts + phi0 H)) + 2 * (at_y H ts - v) * (rho H * cos (ts + phi0 H))
           + 2 * (at_z H ts - w) * (0 / (2 * PI)))
    with (2 * (rho H * ((u - x0 H) * sin (ts + phi0 H) - (v - y0 H) * cos (ts + phi0 H))))
    by (unfold at_x, at_y, Rdiv; ring).
  rewrite circ_key', Pd, Pe. ring.
Qed.

(* the modulus of (dot, det) is rho * r: the form R^2 + rho^2 - 2 R rho cos(t - ts) of the property text *)
Lemma circ_modulus : forall H u v, 0 <= rho H ->
  sqrt (circ_dot H u v ^ 2 + circ_det H u v ^ 2) = rho H * k_r H u v.
Proof.
  intros H u v Hr. unfold k_r.
  rewrite <- (sqrt_pow2 (rho H)) at 1 by assumption.
  rewrite <- sqrt_mult; [ | apply pow2_ge_0 | apply Rplus_le_le_0_compat; apply pow2_ge_0]. f_equal.
  unfold circ_dot, circ_det, at_x, at_y. rewrite Rplus_0_l.
  generalize (sin2_cos2 (phi0 H)). unfold Rsqr.
  set (c := cos (phi0 H)). set (s := sin (phi0 H)). intros C1.
  replace ((u - x0 H) ^ 2 + (v - y0 H) ^ 2) with ((s * s + c * c) * ((u - x0 H) ^ 2 + (v - y0 H) ^ 2))
    by (rewrite C1; ring).
  ring.
Qed.

(* ---------------------------------------------------------------------------------------------
   the concrete atan2 over R satisfies the polar contract, and its range is (-pi, pi]
   --------------------------------------------------------------------------------------------- *)
Lemma atan2R_polar : forall y x, polar x y (sqrt (x ^ 2 + y ^ 2)) (atan2R y x).
Proof.
  intros y x. unfold polar, atan2R.
  assert (Hx : forall x y, x <> 0 -> sqrt (x ^ 2 + y ^ 2) = Rabs x * sqrt (1 + (y / x) ^ 2)).
  { intros a b Ha. rewrite <- (sqrt_Rsqr_abs a), <- sqrt_mult; [ | apply Rle_0_sqr | nra].
    f_equal. unfold Rsqr. field. exact Ha. }
  assert (Sp : forall z, 0 < sqrt (1 + z ^ 2)) by (intros; apply sqrt_lt_R0; nra).
  destruct (Rlt_dec 0 x) as [Px | Nx].
  - rewrite (Hx x y) by lra. rewrite cos_atan, sin_atan, Rabs_pos_eq by lra.
    replace ((y / x)²) with ((y / x) ^ 2) by (unfold Rsqr; ring).
    generalize (Sp (y / x)). intros. split; field; lra.
  - destruct (Rlt_dec x 0) as [Lx | Zx].
    + rewrite (Hx x y) by lra. rewrite Rabs_left by lra.
      generalize (Sp (y / x)). intros.
      destruct (Rle_dec 0 y).
      * rewrite neg_cos, neg_sin, cos_atan, sin_atan.
        replace ((y / x)²) with ((y / x) ^ 2) by (unfold Rsqr; ring).
        split; field; lra.
      * replace (atan (y / x) - PI) with (- (- atan (y / x) + PI)) by ring.
        rewrite cos_neg, sin_neg, neg_cos, neg_sin, cos_neg, sin_neg, cos_atan, sin_atan.
        replace ((y / x)²) with ((y / x) ^ 2) by (unfold Rsqr; ring).
        split; field; lra.
    + assert (x = 0) by lra. subst x.
      replace (0 ^ 2 + y ^ 2) with (Rsqr y) by (unfold Rsqr; ring). rewrite sqrt_Rsqr_abs.
      destruct (Rlt_dec 0 y).
      * rewrite cos_PI2, sin_PI2, Rabs_pos_eq by lra. split; ring.
      * destruct (Rlt_dec y 0).
        -- rewrite cos_neg, sin_neg, cos_PI2, sin_PI2, Rabs_left by lra. split; ring.
        -- assert (y = 0) by lra. subst y. rewrite Rabs_R0. split; ring.
Qed.

Lemma atan2R_range : forall y x, - PI < atan2R y x <= PI.
Proof.
  intros y x. unfold atan2R. generalize PI_RGT_0. intros.
  destruct (Rlt_dec 0 x).
  - generalize (atan_bound (y / x)). lra.
  - destruct (Rlt_dec x 0).
    + destruct (Rle_dec 0 y).
      * assert (y / x <= 0).
        { unfold Rdiv. assert (/ x < 0) by (apply Rinv_lt_0_compat; lra). nra. }
        assert (atan (y / x) <= 0).
        { destruct (Req_dec (y / x) 0) as [-> | ]; [rewrite atan_0; lra | ].
          left. rewrite <- atan_0. apply atan_increasing. lra. }
        generalize (atan_bound (y / x)). lra.
      * assert (0 < y / x).
        { unfold Rdiv. assert (/ x < 0) by (apply Rinv_lt_0_compat; lra). nra. }
        assert (0 < atan (y / x)) by (rewrite <- atan_0; apply atan_increasing; lra).
        generalize (atan_bound (y / x)). lra.
    + destruct (Rlt_dec 0 y); [lra | ]. destruct (Rlt_dec y 0); lra.
Qed.

(* ---------------------------------------------------------------------------------------------
   statements with the concrete atan2
   --------------------------------------------------------------------------------------------- *)
Lemma k_r_polar : forall H u v,
  polar (u - x0 H) (v - y0 H) (k_r H u v) (atan2R (v - y0 H) (u - x0 H)).
Proof. intros. unfold k_r. apply atan2R_polar. Qed.

Lemma kepler_iff_stationary_atan2 : forall H u v w t,
  h H <> 0 ->
  let delta := atan2R (v - y0 H) (u - x0 H) in
  (Derive (dist2 H u v w) t = 0
   <-> k_E H w delta t - k_e H u v * sin (k_E H w delta t) = k_M H w delta).
Proof. intros. apply kepler_iff_stationary_lemma; [assumption | apply k_r_polar]. Qed.

Lemma circle_case_lemma : forall H u v w,
  h H = 0 ->
  let ts := atan2R (circ_det H u v) (circ_dot H u v) in
  (forall t, dist2 H u v w ts <= dist2 H u v w t)
  /\ Derive (dist2 H u v w) ts = 0
  /\ (0 <= rho H -> forall t,
        dist2 H u v w t = rho H ^ 2 + k_r H u v ^ 2 + (z0 H - w) ^ 2 - 2 * (rho H * k_r H u v) * cos (t - ts))
  /\ - PI < ts <= PI.
Proof.
  intros H u v w Hh ts.
  assert (P := atan2R_polar (circ_det H u v) (circ_dot H u v)). fold ts in P.
  split; [ | split; [ | split]].
  - apply circle_min; assumption.
  - eapply circle_stationary; eassumption.
  - intros Hr t. rewrite <- circ_modulus by assumption. apply circle_form; assumption.
  - apply atan2R_range.
Qed.

(* non-vacuity of the hypotheses *)
Definition H_example : rhelix := {| x0 := 0; y0 := 0; z0 := 0; rho := 1; phi0 := 0; h := 1 |}.
Lemma nonvacuous_kepler_lemma :
  h H_example <> 0 /\ polar (2 - x0 H_example) (0 - y0 H_example) (k_r H_example 2 0) 0.
Proof.
  unfold H_example, polar, k_r; cbn [h x0 y0]. split; [lra | ].
  rewrite cos_0, sin_0.
  replace ((2 - 0) ^ 2 + (0 - 0) ^ 2) with (Rsqr 2) by (unfold Rsqr; ring).
  rewrite sqrt_Rsqr by lra. split; ring.
Qed.

(* ---------------------------------------------------------------------------------------------
   global minimality over R: the root of Kepler's equation that a monotone iteration started at
   E0 = pi (M >= 0) or -pi (M < 0) brackets is the global minimiser of the distance over the whole helix
   --------------------------------------------------------------------------------------------- *)
(* g(E) = e cos E + (E - M)^2 / 2 : up to the positive factor h^2/(2 pi^2) and a constant, the squared distance *)
Definition kepler_g (e M E : R) : R := e * cos E + (E - M) ^ 2 / 2.

Lemma kepler_g_derive e M E : derivable_pt_lim (kepler_g e M) E (kepler_f E e M).
Proof.
  apply is_derive_Reals. unfold kepler_g, kepler_f. auto_derive; [exact I | field].
Qed.
Lemma kepler_f_derive e M E : derivable_pt_lim (fun x => kepler_f x e M) E (1 - e * cos E).
Proof.
  apply is_derive_Reals. unfold kepler_f. auto_derive; [exact I | ring].
Qed.

(* monotonicity from the sign of the derivative, on a closed interval *)
Lemma g_incr e M a b : a <= b -> (forall x, a <= x <= b -> 0 <= kepler_f x e M) -> kepler_g e M a <= kepler_g e M b.
Proof.
  intros Hab Hf. destruct (Req_dec a b) as [-> | Hne]; [lra | ].
  destruct (MVT_cor2 (kepler_g e M) (fun x => kepler_f x e M) a b) as (c & Hc & Hr); [lra | intros; apply kepler_g_derive | ].
  assert (0 <= kepler_f c e M) by (apply Hf; lra). nra.
Qed.
Lemma g_decr e M a b : a <= b -> (forall x, a <= x <= b -> kepler_f x e M <= 0) -> kepler_g e M b <= kepler_g e M a.
Proof.
  intros Hab Hf. destruct (Req_dec a b) as [-> | Hne]; [lra | ].
  destruct (MVT_cor2 (kepler_g e M) (fun x => kepler_f x e M) a b) as (c & Hc & Hr); [lra | intros; apply kepler_g_derive | ].
  assert (kepler_f c e M <= 0) by (apply Hf; lra). nra.
Qed.

(* f is convex on [0, pi] (f' = 1 - e cos is nondecreasing there): below zero between two points where it is <= 0 *)
Lemma f_below e M a b x : 0 <= e -> 0 <= a -> b <= PI -> a <= x <= b ->
  kepler_f a e M <= 0 -> kepler_f b e M <= 0 -> kepler_f x e M <= 0.
Proof.
  intros He Ha Hb Hx Fa Fb.
  destruct (Rle_dec (kepler_f x e M) 0) as [ | Hpos]; [assumption | exfalso].
  assert (Hx0 : 0 < kepler_f x e M) by lra.
  assert (a < x) by (destruct (Req_dec a x) as [<- | ]; lra).
  assert (x < b) by (destruct (Req_dec x b) as [-> | ]; lra).
  destruct (MVT_cor2 (fun y => kepler_f y e M) (fun y => 1 - e * cos y) a x) as (c1 & E1 & R1);
    [lra | intros; apply kepler_f_derive | ].
  destruct (MVT_cor2 (fun y => kepler_f y e M) (fun y => 1 - e * cos y) x b) as (c2 & E2 & R2);
    [lra | intros; apply kepler_f_derive | ].
  assert (D1 : 0 < 1 - e * cos c1) by nra.
  assert (D2 : 1 - e * cos c2 < 0) by nra.
  assert (C : cos c2 <= cos c1) by (apply cos_decr_1; lra).
  nra.
Qed.

(* the root reached from the right on [0, pi] is the global minimiser of g over R   (case 0 <= M <= pi) *)
Lemma g_global_min_pos e M Es : 0 <= e -> 0 <= M <= PI -> 0 <= Es <= PI ->
  kepler_f Es e M = 0 ->
  (forall x, Es <= x <= PI -> 0 <= kepler_f x e M) ->
  forall E, kepler_g e M Es <= kepler_g e M E.
Proof.
  intros He HM HEs Hroot Hright.
  assert (F0 : kepler_f 0 e M <= 0) by (unfold kepler_f; rewrite sin_0; lra).
  assert (Hmid : forall x, 0 <= x <= PI -> kepler_g e M Es <= kepler_g e M x).
  { intros x Hx. destruct (Rle_dec x Es).
    - apply g_decr; [lra | ]. intros y Hy. apply (f_below e M 0 Es y); lra.
    - apply g_incr; [lra | ]. intros y Hy. apply Hright. lra. }
  assert (Hpi : forall x, PI <= x -> kepler_g e M PI <= kepler_g e M x).
  { intros x Hx. unfold kepler_g. rewrite cos_PI. generalize (COS_bound x). intros [Cl _].
    assert ((PI - M) ^ 2 <= (x - M) ^ 2) by (apply pow_incr; lra). nra. }
  assert (Hge : forall x, 0 <= x -> kepler_g e M Es <= kepler_g e M x).
  { intros x Hx. destruct (Rle_dec x PI); [apply Hmid; lra | ].
    apply Rle_trans with (kepler_g e M PI); [apply Hmid; generalize PI_RGT_0; lra | apply Hpi; lra]. }
  intros E. destruct (Rle_dec 0 E); [apply Hge; assumption | ].
  apply Rle_trans with (kepler_g e M (- E)); [apply Hge; lra | ].
  unfold kepler_g. rewrite cos_neg. nra.
Qed.

(* case -pi <= M <= 0: mirror image *)
Lemma g_global_min_neg e M Es : 0 <= e -> - PI <= M <= 0 -> - PI <= Es <= 0 ->
  kepler_f Es e M = 0 ->
  (forall x, - PI <= x <= Es -> kepler_f x e M <= 0) ->
  forall E, kepler_g e M Es <= kepler_g e M E.
Proof.
  intros He HM HEs Hroot Hleft E.
  assert (Sym : forall x, kepler_g e M x = kepler_g e (- M) (- x)).
  { intros x. unfold kepler_g. rewrite cos_neg. field. }
  assert (SymF : forall x, kepler_f (- x) e (- M) = - kepler_f x e M).
  { intros x. unfold kepler_f. rewrite sin_neg. ring. }
  rewrite (Sym Es), (Sym E).
  apply g_global_min_pos; try lra.
  - rewrite SymF. lra.
  - intros x Hx. replace x with (- - x) by ring. rewrite SymF.
    assert (kepler_f (- x) e M <= 0) by (apply Hleft; lra). lra.
Qed.

Lemma cos_shift_Z : forall x (k : Z), cos (x + 2 * PI * IZR k) = cos x.
Proof.
  intros x k. rewrite cos_plus.
  assert (S0 : sin (IZR k * PI) = 0) by (apply sin_eq_0_1; now exists k).
  replace (2 * PI * IZR k) with (2 * (IZR k * PI)) by ring.
  rewrite sin_2a, cos_2a, S0.
  assert (C1 : cos (IZR k * PI) * cos (IZR k * PI) = 1).
  { generalize (sin2_cos2 (IZR k * PI)). unfold Rsqr. rewrite S0. lra. }
  rewrite C1. ring.
Qed.

Lemma cos_k_E : forall H w delta t, cos (k_E H w delta t) = - cos (k_theta H delta t).
Proof.
  intros. unfold k_E, k_n. rewrite cos_shift_Z.
  replace (PI - k_theta H delta t) with (- k_theta H delta t + PI) by ring.
  rewrite neg_cos, cos_neg. ring.
Qed.

(* the squared distance in terms of g:  D(t) = rho^2 + r^2 + h^2/(2 pi^2) * g(E(t)) *)
Lemma dist2_as_g : forall H u v w delta t,
  h H <> 0 ->
  polar (u - x0 H) (v - y0 H) (k_r H u v) delta ->
  dist2 H u v w t
  = rho H ^ 2 + k_r H u v ^ 2
    + h H ^ 2 / (2 * PI ^ 2) * kepler_g (k_e H u v) (k_M H w delta) (k_E H w delta t).
Proof.
  intros H u v w delta t Hh [Pu Pv].
  unfold kepler_g. rewrite cos_k_E.
  unfold k_E, k_M, k_e, k_temp, k_theta.
  replace (t + phi0 H - delta) with ((t + phi0 H) - delta) by ring.
  rewrite cos_minus.
  unfold dist2, at_x, at_y, at_z.
  assert (U : u = x0 H + k_r H u v * cos delta) by lra.
  assert (V : v = y0 H + k_r H u v * sin delta) by lra.
  set (q := k_r H u v) in *. clearbody q. clear Pu Pv.
  set (n := k_n H w delta). clearbody n.
  rewrite U, V. clear U V.
  generalize (sin2_cos2 (t + phi0 H)) (sin2_cos2 delta). unfold Rsqr.
  set (c := cos (t + phi0 H)). set (s := sin (t + phi0 H)). set (cd := cos delta). set (sd := sin delta).
  intros C1 C2.
  generalize PI_neq0. intros Hpi.
  replace (rho H ^ 2 + q ^ 2) with (rho H ^ 2 * (s * s + c * c) + q ^ 2 * (sd * sd + cd * cd)) by (rewrite C1, C2; ring).
  field. split; assumption.
Qed.

Lemma k_e_nonneg : forall H u v, h H <> 0 -> 0 <= rho H -> 0 <= k_e H u v.
Proof.
  intros H u v Hh Hr. unfold k_e.
  assert (0 <= k_r H u v) by (unfold k_r; apply sqrt_pos).
  assert (0 < h H ^ 2) by (apply pow2_gt_0; assumption).
  assert (0 < PI ^ 2) by (apply pow2_gt_0, PI_neq0).
  apply Rmult_le_pos; [ | left; apply Rinv_0_lt_compat; assumption].
  apply Rmult_le_pos; [ | assumption]. apply Rmult_le_pos; [lra | assumption].
Qed.

(* :178-180  M = pi + 2 pi floor(temp / 2 pi) - temp  lies in (-pi, pi] *)
Lemma k_M_range : forall H w delta, - PI < k_M H w delta <= PI.
Proof.
  intros H w delta. unfold k_M, k_n.
  generalize (base_Int_part (k_temp H w delta / (2 * PI))). intros [B1 B2].
  set (n := IZR (Int_part (k_temp H w delta / (2 * PI)))) in *.
  generalize PI_RGT_0. intros Hpi.
  assert (E : k_temp H w delta = 2 * PI * (k_temp H w delta / (2 * PI))) by (field; lra).
  set (q := k_temp H w delta / (2 * PI)) in *.
  rewrite E. split; nra.
Qed.

(* the root of Kepler's equation reached by a monotone iteration from E0 = pi (M >= 0) resp. -pi (M < 0) gives the
   GLOBAL minimum of the distance over the whole (infinite) helix, hence over t in [-pi, pi] *)
Theorem root_is_global_min_lemma : forall H u v w delta Es,
  h H <> 0 -> 0 <= rho H ->
  polar (u - x0 H) (v - y0 H) (k_r H u v) delta ->
  let e := k_e H u v in
  let M := k_M H w delta in
  kepler_f Es e M = 0 ->
  (0 <= M /\ 0 <= Es <= PI /\ (forall x, Es <= x <= PI -> 0 <= kepler_f x e M)
   \/ M <= 0 /\ - PI <= Es <= 0 /\ (forall x, - PI <= x <= Es -> kepler_f x e M <= 0)) ->
  forall t, dist2 H u v w (t_of_E H w delta Es) <= dist2 H u v w t.
Proof.
  intros H u v w delta Es Hh Hr P e M Hroot Hcase t.
  rewrite !(dist2_as_g H u v w delta _ Hh P).
  assert (EE : k_E H w delta (t_of_E H w delta Es) = Es) by (unfold k_E, t_of_E, k_theta; ring).
  rewrite EE. fold e M.
  assert (He : 0 <= e) by (apply k_e_nonneg; assumption).
  assert (HM := k_M_range H w delta). fold M in HM.
  assert (K : 0 < h H ^ 2 / (2 * PI ^ 2)).
  { apply Rdiv_lt_0_compat; [apply pow2_gt_0; assumption | ].
    assert (0 < PI ^ 2) by (apply pow2_gt_0, PI_neq0). lra. }
  assert (G : kepler_g e M Es <= kepler_g e M (k_E H w delta t)).
  { destruct Hcase as [(M0 & HE & Hf) | (M0 & HE & Hf)].
    - apply g_global_min_pos; try assumption; lra.
    - apply g_global_min_neg; try assumption; lra. }
  nra.
Qed.

(* one Newton step (reconstruction.rs:198) from a point right of the root, in exact arithmetic, stays right of the
   root and does not move right: the iteration started at E0 = pi is monotone and bracketed (M >= 0 case) *)
Lemma newton_step_invariant : forall e M r x,
  0 <= e -> 0 <= r -> r <= x <= PI ->
  kepler_f r e M = 0 -> 0 <= kepler_f x e M -> 0 < 1 - e * cos x ->
  r <= x - kepler_f x e M / (1 - e * cos x) <= x.
Proof.
  intros e M r x He Hr Hx Froot Fx Dx.
  assert (Q : 0 <= kepler_f x e M / (1 - e * cos x)).
  { apply Rmult_le_pos; [assumption | left; apply Rinv_0_lt_compat; assumption]. }
  split; [ | lra].
  destruct (Req_dec r x) as [-> | Hne].
  - rewrite Froot. unfold Rdiv. rewrite Rmult_0_l. lra.
  - destruct (MVT_cor2 (fun y => kepler_f y e M) (fun y => 1 - e * cos y) r x) as (c & Ec & Rc);
      [lra | intros; apply kepler_f_derive | ].
    assert (C : cos x <= cos c) by (apply cos_decr_1; lra).
    (* f(x) = f'(c) (x - r) <= f'(x) (x - r) *)
    assert (C' : e * cos x <= e * cos c) by (apply Rmult_le_compat_l; assumption).
    assert (T : kepler_f x e M <= (1 - e * cos x) * (x - r)).
    { rewrite Froot in Ec. replace (kepler_f x e M) with ((1 - e * cos c) * (x - r)) by lra.
      apply Rmult_le_compat_r; lra. }
    apply Rmult_le_reg_r with (1 - e * cos x); [assumption | ].
    replace ((x - kepler_f x e M / (1 - e * cos x)) * (1 - e * cos x))
      with (x * (1 - e * cos x) - kepler_f x e M) by (field; lra).
    nra.
Qed.
