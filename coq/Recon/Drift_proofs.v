(* C18 — proofs about the drift lookup (model: Recon/Drift.v, real instance: Recon/DriftR.v):
   the laws of Flocq's binary64 rounding used by the abstract section of Recon/DriftR_proofs.v,
   the bridge from the computed (dyadic) table checks to the real-number table predicate,
   the facts about the tables of the current source (by vm_compute, re-proved on every run),
   and the lemmas pinned in Props/C18.v. *)
From Coq Require Import Reals Lra.
From Flocq Require Import Core Plus_error.
From AG Require Import Base.Prelude Base.Res Base.Bytes Recon.Drift Recon.DriftR Recon.DriftR_proofs Gen.Drift.

Local Open Scope R_scope.

(* ---------- Flocq's round-to-nearest-even on binary64 satisfies the laws of Section Rounded ---------- *)
Local Instance prec53 : Prec_gt_0 53. Proof. unfold Prec_gt_0. lia. Qed.
Local Instance valid64 : Valid_exp fexp64 := FLT_exp_valid (-1074) 53.
Local Instance mono64 : Monotone_exp fexp64 := FLT_exp_monotone (-1074) 53.

Lemma rnd64_mono x y : x <= y -> rnd64 x <= rnd64 y.
Proof. intros H. apply round_le; [exact valid64|apply valid_rnd_N|exact H]. Qed.
Lemma rnd64_id x : fmt64 x -> rnd64 x = x.
Proof. intros H. apply round_generic; [apply valid_rnd_N|exact H]. Qed.
Lemma rnd64_fmt x : fmt64 (rnd64 x).
Proof. apply generic_format_round; [exact valid64|apply valid_rnd_N]. Qed.
Lemma fmt64_0 : fmt64 0.
Proof. apply generic_format_0. Qed.
Lemma fmt64_1 : fmt64 1.
Proof.
  change 1 with (bpow radix2 0). apply generic_format_bpow. unfold fexp64, FLT_exp. lia.
Qed.
Lemma rnd64_sub_pos x y : fmt64 x -> fmt64 y -> x < y -> 0 < rnd64 (y - x).
Proof.
  intros Fx Fy Hxy.
  assert (0 <= rnd64 (y - x)) as H0.
  { apply round_ge_generic; [exact valid64|apply valid_rnd_N|exact fmt64_0|lra]. }
  assert (rnd64 (y + - x) <> 0) as H1.
  { apply (round_plus_neq_0 radix2 fexp64 ZnearestE); [exact Fy|apply generic_format_opp; exact Fx|lra]. }
  unfold Rminus in *. lra.
Qed.

Ltac laws := first [exact rnd64_mono | exact rnd64_id | exact rnd64_fmt | exact fmt64_0 | exact fmt64_1 | exact rnd64_sub_pos].

(* ---------- dyadic arithmetic is exact ---------- *)
Lemma dyR_eq m e : dyR (m, e) = IZR m * bpow radix2 e.
Proof. reflexivity. Qed.

Lemma pow2_bpow k : (0 <= k)%Z -> IZR (2 ^ k) = bpow radix2 k.
Proof. intros H. rewrite <- (IZR_Zpower radix2 k H). reflexivity. Qed.

Lemma dy_sub_R a b : dyR (dy_sub a b) = dyR a - dyR b.
Proof.
  destruct a as [m1 e1], b as [m2 e2]. unfold dy_sub. set (e := Z.min e1 e2).
  rewrite !dyR_eq, minus_IZR, !mult_IZR, !pow2_bpow by lia.
  replace (bpow radix2 e1) with (bpow radix2 (e1 - e) * bpow radix2 e) by (rewrite <- bpow_plus; f_equal; lia).
  replace (bpow radix2 e2) with (bpow radix2 (e2 - e) * bpow radix2 e) by (rewrite <- bpow_plus; f_equal; lia).
  ring.
Qed.

Lemma dy_leb_R a b : dy_leb a b = true -> dyR a <= dyR b.
Proof.
  unfold dy_leb, dy_sgn. intros H. pose proof (dy_sub_R a b) as E.
  destruct (dy_sub a b) as [m e]. cbn [fst] in H. rewrite dyR_eq in E.
  assert (m <= 0)%Z as Hm by (destruct m; cbn in H; lia).
  apply IZR_le in Hm. pose proof (bpow_gt_0 radix2 e). nra.
Qed.
Lemma dy_ltb_R a b : dy_ltb a b = true -> dyR a < dyR b.
Proof.
  unfold dy_ltb, dy_sgn. intros H. pose proof (dy_sub_R a b) as E.
  destruct (dy_sub a b) as [m e]. cbn [fst] in H. rewrite dyR_eq in E.
  assert (m < 0)%Z as Hm by (destruct m; cbn in H; lia).
  apply IZR_lt in Hm. pose proof (bpow_gt_0 radix2 e). nra.
Qed.
Lemma dy_eqb_R a b : dy_eqb a b = true -> dyR a = dyR b.
Proof.
  unfold dy_eqb, dy_sgn. intros H. pose proof (dy_sub_R a b) as E.
  destruct (dy_sub a b) as [m e]. cbn [fst] in H. rewrite dyR_eq in E.
  assert (m = 0)%Z as Hm by (destruct m; cbn in H; lia). subst m. lra.
Qed.

Lemma dy_fmt_R a : dy_fmt a = true -> fmt64 (dyR a).
Proof.
  destruct a as [m e]. unfold dy_fmt. intros H. apply andb_true_iff in H. destruct H as [He Hm].
  apply generic_format_FLT. exists (Float radix2 m e); [reflexivity| |]; cbn [Fnum Fexp].
  - change (Zpower radix2 53) with (2 ^ 53)%Z. lia.
  - lia.
Qed.

Lemma dy_scale m e :
  dyR (m, e) = IZR (m * 2 ^ Z.max 0 e) * / IZR (2 ^ Z.max 0 (- e)) /\ 0 < IZR (2 ^ Z.max 0 (- e)).
Proof.
  rewrite dyR_eq, mult_IZR, !pow2_bpow by lia. split; [|apply bpow_gt_0].
  rewrite <- bpow_opp, Rmult_assoc, <- bpow_plus. do 2 f_equal. lia.
Qed.

Lemma scale_lt x B Q p : 0 < B -> 0 < Q -> (x * / B < p / Q <-> x * Q < p * B).
Proof.
  intros HB HQ. assert (0 < / (B * Q)) by (apply Rinv_0_lt_compat; nra).
  replace (x * / B) with ((x * Q) * / (B * Q)) by (field; lra).
  replace (p / Q) with ((p * B) * / (B * Q)) by (field; lra).
  split; intros H'; [|apply Rmult_lt_compat_r; assumption].
  apply (Rmult_lt_reg_r (/ (B * Q))); assumption.
Qed.
Lemma scale_le x B Q p : 0 < B -> 0 < Q -> (x * / B <= p / Q <-> x * Q <= p * B).
Proof.
  intros HB HQ. assert (0 < / (B * Q)) by (apply Rinv_0_lt_compat; nra).
  replace (x * / B) with ((x * Q) * / (B * Q)) by (field; lra).
  replace (p / Q) with ((p * B) * / (B * Q)) by (field; lra).
  split; intros H'; [|apply Rmult_le_compat_r; [lra|assumption]].
  apply (Rmult_le_reg_r (/ (B * Q))); assumption.
Qed.

Lemma dy_lt_q_R a p q : dy_lt_q a p q = true <-> dyR a < IZR p / IZR (Z.pos q).
Proof.
  destruct a as [m e]. unfold dy_lt_q. destruct (dy_scale m e) as [-> HB].
  assert (0 < IZR (Z.pos q)) as HQ by (apply IZR_lt; lia).
  rewrite scale_lt by assumption. rewrite <- !mult_IZR. rewrite Z.ltb_lt.
  split; [apply IZR_lt|apply lt_IZR].
Qed.
Lemma dy_le_q_R a p q : dy_le_q a p q = true <-> dyR a <= IZR p / IZR (Z.pos q).
Proof.
  destruct a as [m e]. unfold dy_le_q. destruct (dy_scale m e) as [-> HB].
  assert (0 < IZR (Z.pos q)) as HQ by (apply IZR_lt; lia).
  rewrite scale_le by assumption. rewrite <- !mult_IZR. rewrite Z.leb_le.
  split; [apply IZR_le|apply le_IZR].
Qed.
Lemma dy_lt_q_false a p q : dy_lt_q a p q = false -> IZR p / IZR (Z.pos q) <= dyR a.
Proof.
  intros H. apply Rnot_lt_le. intros H'. apply dy_lt_q_R in H'. congruence.
Qed.

(* ---------- from the computed checks to the table predicate over R ---------- *)
Lemma adj_adjP {X Y} (p : X -> X -> bool) (P : Y -> Y -> Prop) (f : X -> Y) l :
  (forall a b, p a b = true -> P (f a) (f b)) -> adj p l = true -> adjP P (map f l).
Proof.
  intros H. induction l as [|a l IH]; [intros; exact I|].
  destruct l as [|b l']; [intros; exact I|].
  intros E. change (adj p (a :: b :: l')) with (p a b && adj p (b :: l')) in E.
  apply andb_true_iff in E. destruct E as [E1 E2]. split; [apply H, E1|apply IH, E2].
Qed.

Lemma dknotR_time k : rk_time (dknotR k) = dyR (dk_time k). Proof. reflexivity. Qed.
Lemma dknotR_radius k : rk_radius (dknotR k) = dyR (dk_radius k). Proof. reflexivity. Qed.
Lemma dknotR_corr k : rk_corr (dknotR k) = dyR (dk_corr k). Proof. reflexivity. Qed.

Lemma dstep_ok_R a b : dstep_ok a b = true -> step_ok fmt64 (dknotR a) (dknotR b).
Proof.
  unfold dstep_ok. rewrite !andb_true_iff. intros ((((H1 & H2) & H3) & H4) & H5).
  unfold step_ok. rewrite !dknotR_time, !dknotR_radius, !dknotR_corr, <- !dy_sub_R.
  repeat split; auto using dy_ltb_R, dy_leb_R, dy_fmt_R.
Qed.

Lemma dknot_fmt_R k : dknot_fmt k = true -> knot_fmt fmt64 (dknotR k).
Proof.
  unfold dknot_fmt. rewrite !andb_true_iff. intros ((H1 & H2) & H3).
  unfold knot_fmt. rewrite dknotR_time, dknotR_radius, dknotR_corr. auto using dy_fmt_R.
Qed.

Lemma dtable_okb_R t : dtable_okb t = true -> table_ok fmt64 (map dknotR t).
Proof.
  unfold dtable_okb. destruct t as [|k0 [|k1 t']]; try discriminate.
  rewrite !andb_true_iff. intros ((H1 & H2) & H3). unfold table_ok. split; [cbn [map length]; lia|]. split; [|split].
  - cbn [map hd]. rewrite dknotR_corr. rewrite (dy_eqb_R _ _ H1). rewrite dyR_eq. cbn [IZR]. lra.
  - rewrite forallb_forall in H2. apply Forall_forall. intros k Hk. apply in_map_iff in Hk.
    destruct Hk as (k' & <- & Hk'). apply dknot_fmt_R, H2, Hk'.
  - eapply adj_adjP; [|exact H3]. exact dstep_ok_R.
Qed.

Lemma dtables_okb_R d : dtables_okb d = true -> tables_ok fmt64 (dtablesR d).
Proof.
  unfold dtables_okb. destruct d as [|s0 d']; [discriminate|]. set (d := s0 :: d').
  rewrite andb_true_iff. intros (H1 & H2). unfold tables_ok. split; [discriminate|]. split.
  - rewrite forallb_forall in H1. apply Forall_forall. intros s Hs. unfold dtablesR in Hs. apply in_map_iff in Hs.
    destruct Hs as (s' & <- & Hs'). cbn [fst]. apply dtable_okb_R. specialize (H1 _ Hs').
    apply andb_true_iff in H1. apply H1.
  - unfold dtablesR. eapply adj_adjP; [|exact H2]. intros a b H. cbn [snd]. apply dy_ltb_R, H.
Qed.

(* ---------- the tables of the current source ---------- *)
Lemma current_checks_true : current_checks = true.
Proof. vm_compute. reflexivity. Qed.

(* no tactic may try to convert two different closed terms over the 145 000-entry table: only vm_compute
   (which ignores opacity) evaluates it *)
Opaque drift_tables.
Lemma current_checks_split :
  tables_okb drift_tables = true /\ steps_okb d_tables = true /\ witness_okb d_tables = true /\
  max_step_okb d_tables = true.
Proof.
  pose proof current_checks_true as H. unfold current_checks in H.
  apply andb_true_iff in H. destruct H as [H H4].
  apply andb_true_iff in H. destruct H as [H H3]. apply andb_true_iff in H. destruct H as [H1 H2].
  split; [exact H1|split; [exact H2|split; [exact H3|exact H4]]].
Qed.
Lemma tables_okb_current_lemma : tables_okb drift_tables = true.
Proof. exact (proj1 current_checks_split). Qed.
Lemma steps_okb_current : steps_okb d_tables = true.
Proof. exact (proj1 (proj2 current_checks_split)). Qed.
Lemma witness_okb_current : witness_okb d_tables = true.
Proof. exact (proj1 (proj2 (proj2 current_checks_split))). Qed.
Lemma max_step_okb_current : max_step_okb d_tables = true.
Proof. exact (proj2 (proj2 (proj2 current_checks_split))). Qed.

Lemma table_ok_current_lemma : tables_ok fmt64 r_tables.
Proof.
  apply dtables_okb_R. pose proof tables_okb_current_lemma as H. unfold tables_okb in H.
  unfold d_tables. revert H. destruct (dy_tables drift_tables); intros H; [exact H|discriminate H].
Qed.

(* ---------- the tabulated steps of the current tables ---------- *)
Lemma steps_from_In i j0 t j a b :
  nth_error t j = Some a -> nth_error t (S j) = Some b ->
  In ((i, (j0 + N.of_nat j)%N), dy_sub (dk_radius a) (dk_radius b)) (steps_from i j0 t).
Proof.
  revert j j0. induction t as [|x t IH]; intros j j0 Ha Hb; [destruct j; discriminate|].
  destruct t as [|y t']; [destruct j as [|[|j]]; discriminate|].
  change (steps_from i j0 (x :: y :: t'))
    with (((i, j0), dy_sub (dk_radius x) (dk_radius y)) :: steps_from i (j0 + 1) (y :: t')).
  destruct j as [|j].
  - cbn in Ha, Hb. inv Ha. inv Hb. left. rewrite N.add_0_r. reflexivity.
  - right. replace (j0 + N.of_nat (S j))%N with (j0 + 1 + N.of_nat j)%N by lia.
    apply IH; [exact Ha|exact Hb].
Qed.

Lemma all_steps_from_In i0 (ts : dtables) i s x :
  nth_error ts i = Some s -> In x (steps_from (i0 + N.of_nat i) 0 (fst s)) -> In x (all_steps_from i0 ts).
Proof.
  revert i i0. induction ts as [|s0 ts IH]; intros i i0 Hs Hx; [destruct i; discriminate|].
  cbn [all_steps_from]. apply in_or_app. destruct i as [|i].
  - cbn in Hs. inv Hs. left. rewrite N.add_0_r in Hx. exact Hx.
  - right. apply (IH i (i0 + 1)%N); [exact Hs|].
    replace (i0 + 1 + N.of_nat i)%N with (i0 + N.of_nat (S i))%N by lia. exact Hx.
Qed.

Lemma seg_mem_In s l : seg_mem s l = true -> In s l.
Proof.
  unfold seg_mem. intros H. apply existsb_exists in H. destruct H as (x & Hx & E).
  unfold seg_eqb in E. apply andb_true_iff in E. destruct E as [E1 E2].
  apply N.eqb_eq in E1. apply N.eqb_eq in E2. destruct s, x. cbn [fst snd] in *. subst. exact Hx.
Qed.

(* every tabulated step outside the known class is < 0.5 mm *)
Lemma steps_current_lemma i j sd a b :
  nth_error d_tables i = Some sd -> nth_error (fst sd) j = Some a -> nth_error (fst sd) (S j) = Some b ->
  ~ In (N.of_nat i, N.of_nat j) known_steps ->
  dyR (dk_radius a) - dyR (dk_radius b) < 5 / 10000.
Proof.
  intros Hs Ha Hb Hk. pose proof steps_okb_current as H. unfold steps_okb in H. rewrite forallb_forall in H.
  specialize (H ((N.of_nat i, N.of_nat j), dy_sub (dk_radius a) (dk_radius b))).
  cbn [fst snd] in H. rewrite <- dy_sub_R.
  assert (In ((N.of_nat i, N.of_nat j), dy_sub (dk_radius a) (dk_radius b)) (all_steps d_tables)) as Hin.
  { unfold all_steps. apply (all_steps_from_In 0 d_tables i sd); [exact Hs|].
    rewrite N.add_0_l. pose proof (steps_from_In (N.of_nat i) 0 (fst sd) j a b Ha Hb) as X.
    rewrite N.add_0_l in X. exact X. }
  specialize (H Hin). apply orb_true_iff in H. destruct H as [H|H].
  - apply dy_lt_q_R in H. exact H.
  - exfalso. apply Hk, seg_mem_In, H.
Qed.

(* every tabulated step of the current tables is < 0.66 mm *)
Lemma max_knot_step_current_lemma i j sd a b :
  nth_error d_tables i = Some sd -> nth_error (fst sd) j = Some a -> nth_error (fst sd) (S j) = Some b ->
  dyR (dk_radius a) - dyR (dk_radius b) < 66 / 100000.
Proof.
  intros Hs Ha Hb. pose proof max_step_okb_current as H. unfold max_step_okb in H. rewrite forallb_forall in H.
  specialize (H ((N.of_nat i, N.of_nat j), dy_sub (dk_radius a) (dk_radius b))).
  cbn [fst snd] in H. rewrite <- dy_sub_R. apply dy_lt_q_R, H.
  unfold all_steps. apply (all_steps_from_In 0 d_tables i sd); [exact Hs|].
  rewrite N.add_0_l. pose proof (steps_from_In (N.of_nat i) 0 (fst sd) j a b Ha Hb) as X.
  rewrite N.add_0_l in X. exact X.
Qed.

(* ---------- lemmas pinned in Props/C18.v (the abstract section instantiated with Flocq's rounding) ---------- *)
Lemma lookup_ok_iff_lemma m ts z t :
  tables_ok fmt64 ts ->
  ((exists r c, lookupR m ts z t = Ok (r, c)) <->
   Rabs z <= zmax ts /\ exists s, is_slice ts z s /\ t_first s <= t <= t_last s).
Proof. intros H. unfold lookupR. apply (lookup_ok_iff_gen rnd64 fmt64); try laws; exact H. Qed.

Lemma lookup_err_z_iff_lemma m ts z t :
  tables_ok fmt64 ts -> (lookupR m ts z t = Err ERR_Z <-> zmax ts < Rabs z).
Proof. intros H. unfold lookupR. apply (lookup_err_z_iff_gen rnd64 fmt64); try laws; exact H. Qed.

Lemma lookup_err_time_iff_lemma m ts z t :
  tables_ok fmt64 ts ->
  (lookupR m ts z t = Err ERR_TIME <-> exists s, is_slice ts z s /\ (t < t_first s \/ t_last s < t)).
Proof. intros H. unfold lookupR. apply (lookup_err_time_iff_gen rnd64 fmt64); try laws; exact H. Qed.

Lemma lookup_total_lemma m ts z t : tables_ok fmt64 ts -> lookupR m ts z t <> Panic.
Proof. intros H. unfold lookupR. apply (lookup_total_gen rnd64 fmt64); try laws; exact H. Qed.

Lemma lookup_no_wrap_lemma ts z t :
  tables_ok fmt64 ts -> lookupR Wrapping ts z t = lookupR Checked ts z t.
Proof. intros H. unfold lookupR. apply (lookup_no_wrap_gen rnd64 fmt64); try laws; exact H. Qed.

Lemma no_underflow_index_lemma m tb t :
  table_ok fmt64 tb ->
  rk_time (nth 0 tb rk0) <= t <= rk_time (nth (length tb - 1) tb rk0) ->
  exists i, rhs_index_of (real_arith rnd64) m tb t = Ok i /\ (1 <= i)%N /\ (i < lenN tb)%N.
Proof. intros H1 H2. apply (no_underflow_index_gen rnd64 fmt64); try laws; assumption. Qed.

Lemma radius_in_range_lemma m ts z t r c s lo hi :
  tables_ok fmt64 ts -> is_slice ts z s -> lookupR m ts z t = Ok (r, c) ->
  (forall k, In k (fst s) -> lo <= rk_radius k) -> (forall k, In k (fst s) -> rk_radius k <= hi) ->
  lo <= r <= hi.
Proof. intros. unfold lookupR in *. eapply (radius_in_range_gen rnd64 fmt64) with (m := m) (z := z) (t := t) (c := c) (s := s); try laws; eassumption. Qed.

Lemma lorentz_in_range_lemma m ts z t r c s hi :
  tables_ok fmt64 ts -> is_slice ts z s -> lookupR m ts z t = Ok (r, c) ->
  (forall k, In k (fst s) -> rk_corr k <= hi) -> 0 <= c <= hi.
Proof. intros. unfold lookupR in *. eapply (lorentz_in_range_gen rnd64 fmt64) with (m := m) (z := z) (t := t) (r := r) (s := s); try laws; eassumption. Qed.

Lemma radius_monotone_lemma m ts z t1 t2 r1 c1 r2 c2 :
  tables_ok fmt64 ts -> t1 <= t2 ->
  lookupR m ts z t1 = Ok (r1, c1) -> lookupR m ts z t2 = Ok (r2, c2) -> r2 <= r1.
Proof. intros. unfold lookupR in *. eapply (radius_monotone_gen rnd64 fmt64) with (m := m) (z := z) (t1 := t1) (t2 := t2) (c1 := c1) (c2 := c2); try laws; eassumption. Qed.

Lemma radius_at_knots_lemma m ts z s k :
  tables_ok fmt64 ts -> is_slice ts z s -> In k (fst s) ->
  exists c, lookupR m ts z (rk_time k) = Ok (rk_radius k, c).
Proof. intros. unfold lookupR. eapply (radius_at_knots_gen rnd64 fmt64); try laws; eassumption. Qed.

Lemma z_symmetric_lemma m ts z t : lookupR m ts (- z) t = lookupR m ts z t.
Proof. apply z_symmetric_gen. Qed.

Lemma step_bound_lemma m ts z s i j t1 t2 r1 c1 r2 c2 :
  tables_ok fmt64 ts -> is_slice ts z s -> (i <= j)%nat -> (j < length (fst s))%nat ->
  rk_time (knot_at s i) <= t1 -> t1 <= t2 -> t2 <= rk_time (knot_at s j) ->
  lookupR m ts z t1 = Ok (r1, c1) -> lookupR m ts z t2 = Ok (r2, c2) ->
  0 <= r1 - r2 <= rk_radius (knot_at s i) - rk_radius (knot_at s j).
Proof. intros. unfold lookupR in *. eapply (step_bound_gen rnd64 fmt64) with (m := m) (z := z) (t1 := t1) (t2 := t2) (c1 := c1) (c2 := c2); try laws; eassumption. Qed.

Lemma space_point_lemma m ts t phi z r p z' :
  space_pointR m ts t phi z = Ok (r, p, z') <->
  exists c, lookupR m ts z t = Ok (r, c) /\ p = rnd64 (phi - c) /\ z' = z.
Proof.
  unfold space_pointR, lookupR. rewrite space_point_eq.
  destruct (tables_at (real_arith rnd64) m ts z t) as [[r0 c0]| |]; cbn [fst snd].
  - split.
    + intros E. inv E. exists c0. auto.
    + intros (c & E & -> & ->). inv E. reflexivity.
  - split; [discriminate|intros (c & E & _); discriminate].
  - split; [discriminate|intros (c & E & _); discriminate].
Qed.

Lemma space_point_err_lemma m ts t phi z k :
  space_pointR m ts t phi z = Err k <-> lookupR m ts z t = Err k.
Proof.
  unfold space_pointR, lookupR. rewrite space_point_eq.
  destruct (tables_at (real_arith rnd64) m ts z t) as [[r0 c0]| |]; split; intros E; try discriminate; inv E; reflexivity.
Qed.

(* ---------- the 0.5 mm / 8 ns claim on the current tables ---------- *)
Lemma nth_map_error {X Y} (f : X -> Y) l j a d : nth_error l j = Some a -> nth j (map f l) d = f a.
Proof.
  intros H. apply nth_error_nth. rewrite nth_error_map, H. reflexivity.
Qed.

(* lookups inside one tabulated segment that is not in the known class differ by less than 0.5 mm *)
Lemma half_mm_outside_known_lemma m i j sd a b z t1 t2 r1 c1 r2 c2 :
  nth_error d_tables i = Some sd -> nth_error (fst sd) j = Some a -> nth_error (fst sd) (S j) = Some b ->
  ~ In (N.of_nat i, N.of_nat j) known_steps ->
  is_slice r_tables z (map dknotR (fst sd), dyR (snd sd)) ->
  dyR (dk_time a) <= t1 -> t1 <= t2 -> t2 <= dyR (dk_time b) ->
  lookupR m r_tables z t1 = Ok (r1, c1) -> lookupR m r_tables z t2 = Ok (r2, c2) ->
  0 <= r1 - r2 < 5 / 10000.
Proof.
  intros Hs Ha Hb Hk Hsl H1 H12 H2 E1 E2.
  pose proof (steps_current_lemma i j sd a b Hs Ha Hb Hk) as Hstep.
  set (s := (map dknotR (fst sd), dyR (snd sd))) in *.
  assert (knot_at s j = dknotR a) as Ka by (apply nth_map_error, Ha).
  assert (knot_at s (S j) = dknotR b) as Kb by (apply nth_map_error, Hb).
  assert (S j < length (fst s))%nat as Hlen.
  { cbn [fst s]. rewrite map_length. apply nth_error_Some. congruence. }
  pose proof (step_bound_lemma m r_tables z s j (S j) t1 t2 r1 c1 r2 c2 table_ok_current_lemma Hsl) as X.
  rewrite Ka, Kb in X. rewrite !dknotR_time, !dknotR_radius in X.
  specialize (X ltac:(lia) Hlen H1 H12 H2 E1 E2). lra.
Qed.

(* on the current tables: lookups inside one tabulated segment differ by less than 0.66 mm (every segment) *)
Lemma step_lt_066_mm_lemma m i j sd a b z t1 t2 r1 c1 r2 c2 :
  nth_error d_tables i = Some sd -> nth_error (fst sd) j = Some a -> nth_error (fst sd) (S j) = Some b ->
  is_slice r_tables z (map dknotR (fst sd), dyR (snd sd)) ->
  dyR (dk_time a) <= t1 -> t1 <= t2 -> t2 <= dyR (dk_time b) ->
  lookupR m r_tables z t1 = Ok (r1, c1) -> lookupR m r_tables z t2 = Ok (r2, c2) ->
  0 <= r1 - r2 < 66 / 100000.
Proof.
  intros Hs Ha Hb Hsl H1 H12 H2 E1 E2.
  pose proof (max_knot_step_current_lemma i j sd a b Hs Ha Hb) as Hstep.
  set (s := (map dknotR (fst sd), dyR (snd sd))) in *.
  assert (knot_at s j = dknotR a) as Ka by (apply nth_map_error, Ha).
  assert (knot_at s (S j) = dknotR b) as Kb by (apply nth_map_error, Hb).
  assert (S j < length (fst s))%nat as Hlen.
  { cbn [fst s]. rewrite map_length. apply nth_error_Some. congruence. }
  pose proof (step_bound_lemma m r_tables z s j (S j) t1 t2 r1 c1 r2 c2 table_ok_current_lemma Hsl) as X.
  rewrite Ka, Kb in X. rewrite !dknotR_time, !dknotR_radius in X.
  specialize (X ltac:(lia) Hlen H1 H12 H2 E1 E2). lra.
Qed.

(* F8: two lookups 8 ns apart whose radii differ by at least 0.5 mm *)
Lemma half_mm_refuted_gen d :
  witness_okb d = true -> tables_ok fmt64 (dtablesR d) ->
  exists z t1 t2 r1 c1 r2 c2,
    lookupR Checked (dtablesR d) z t1 = Ok (r1, c1) /\ lookupR Checked (dtablesR d) z t2 = Ok (r2, c2) /\
    Rabs (t2 - t1 - 8 / 1000000000) <= 1 / 100000000000000000000 /\
    5 / 10000 <= r1 - r2.
Proof.
  unfold witness_okb. intros H Hok.
  destruct (nth_error d 0) as [s|] eqn:E0; [|discriminate].
  destruct (nth_error (fst s) 17) as [a|] eqn:Ea; [|discriminate].
  destruct (nth_error (fst s) 18) as [b|] eqn:Eb; [|discriminate].
  rewrite !andb_true_iff in H. destruct H as (((H1 & H2) & H3) & H4).
  destruct d as [|s' d']; [discriminate|]. cbn in E0. inv E0.
  set (sR := (map dknotR (fst s), dyR (snd s))).
  assert (is_slice (dtablesR (s :: d')) 0 sR) as Hsl.
  { exists [], (dtablesR d'). split; [reflexivity|]. split; [|constructor].
    rewrite Rabs_R0. apply dy_leb_R in H1. rewrite dyR_eq in H1. cbn [IZR] in H1. cbn [snd sR]. lra. }
  assert (In (dknotR a) (fst sR)) as Ia by (apply in_map, (nth_error_In _ _ Ea)).
  assert (In (dknotR b) (fst sR)) as Ib by (apply in_map, (nth_error_In _ _ Eb)).
  destruct (radius_at_knots_lemma Checked _ 0 sR _ Hok Hsl Ia) as (ca & La).
  destruct (radius_at_knots_lemma Checked _ 0 sR _ Hok Hsl Ib) as (cb & Lb).
  exists 0, (rk_time (dknotR a)), (rk_time (dknotR b)), (rk_radius (dknotR a)), ca, (rk_radius (dknotR b)), cb.
  split; [exact La|]. split; [exact Lb|].
  rewrite !dknotR_time, !dknotR_radius, <- !dy_sub_R.
  apply negb_true_iff in H2. apply dy_lt_q_false in H2.
  apply dy_le_q_R in H3. apply negb_true_iff in H4. apply dy_lt_q_false in H4.
  split; [|exact H2]. apply Rabs_le. lra.
Qed.

Lemma lipschitz_half_mm_refuted_lemma :
  exists z t1 t2 r1 c1 r2 c2,
    lookupR Checked r_tables z t1 = Ok (r1, c1) /\ lookupR Checked r_tables z t2 = Ok (r2, c2) /\
    Rabs (t2 - t1 - 8 / 1000000000) <= 1 / 100000000000000000000 /\
    5 / 10000 <= r1 - r2.
Proof. exact (half_mm_refuted_gen d_tables witness_okb_current table_ok_current_lemma). Qed.

(* ---------- z-symmetry of the executable PrimFloat instance (bit level, NaN included) ----------
   uses the standard library's specification of the primitive abs / opp (FloatAxioms) *)
From Coq Require Import Floats.
Lemma prim_abs_opp (z : float) : PrimFloat.abs (PrimFloat.opp z) = PrimFloat.abs z.
Proof.
  apply Prim2SF_inj. rewrite !abs_spec, opp_spec. destruct (Prim2SF z); reflexivity.
Qed.

Lemma z_symmetric_prim_lemma m (ts : ptables) t z :
  tables_at prim_arith m ts (PrimFloat.opp z) t = tables_at prim_arith m ts z t.
Proof.
  unfold tables_at. change (f_abs prim_arith (PrimFloat.opp z)) with (PrimFloat.abs (PrimFloat.opp z)).
  change (f_abs prim_arith z) with (PrimFloat.abs z). rewrite prim_abs_opp. reflexivity.
Qed.
