(* C18 — proofs about the drift lookup (model: Recon/Drift.v). *)
From Coq Require Import Floats.
From AG Require Import Base.Prelude Base.Res Base.Bytes Recon.Drift Gen.Drift.

Lemma tables_okb_current_lemma : tables_okb drift_tables = true.
Proof. vm_compute. reflexivity. Qed.
