(* C18 — proofs about the drift lookup (model: Recon/Drift.v, real instance: Recon/DriftR.v):
   the laws of Flocq's binary64 rounding used by the abstract section of Recon/DriftR_proofs.v,
   the bridge from the computed (dyadic) table checks to the real-number table predicate,
   the facts about the tables of the current source (by vm_compute, re-proved on every run),
   and the lemmas pinned in Props/C18.v. *)
From Coq Require Import Reals Lra.
From Flocq Require Import Core Plus_error.
From AG Require Import Base.Prelude Base.Res Base.Bytes Recon.Drift Recon.DriftR Recon.DriftR_proofs Gen.Drift.

Local Open Scope R_scope.

(* ---------- Flocq's round-to-nearest-even on binary64 satisfies the laws of Section Rounded ---------- *)
Local Instance prec53 : Prec_gt_0 53. Proof. unfold Prec_gt_0. lia. Qed.
Local Instance valid64 : Valid_exp fexp64 := FLT_exp_valid (-1074) 53.
Local Instance mono64 : Monotone_exp fexp64 := FLT_exp_monotone (-1074) 53.

Lemma rnd64_mono x y : x <= y -> rnd64 x <= rnd64 y.
Proof. intros H. apply round_le; [exact valid64|apply valid_rnd_N|exact H]. Qed.
Lemma rnd64_id x : fmt64 x -> rnd64 x = x.
Proof. intros H. apply round_generic; [apply valid_rnd_N|exact H]. Qed.
Lemma rnd64_fmt x : fmt64 (rnd64 x).
Proof. apply generic_format_round; [exact valid64|apply valid_rnd_N]. Qed.
Lemma fmt64_0 : fmt64 0.
Proof. apply generic_format_0. Qed.
Lemma fmt64_1 : fmt64 1.
Proof.
  change 1 with (bpow radix2 0). apply generic_format_bpow. unfold fexp64, FLT_exp. lia.
Qed.
Lemma rnd64_sub_pos x y : fmt64 x -> fmt64 y -> x < y -> 0 < rnd64 (y - x).
Proof.
  intros Fx Fy Hxy.
  assert (0 <= rnd64 (y - x)) as H0.
  { apply round_ge_generic; [exact valid64|apply valid_rnd_N|exact fmt64_0|lra]. }
  assert (rnd64 (y + - x) <> 0) as H1.
  { apply (round_plus_neq_0 radix2 fexp64 ZnearestE); [exact Fy|apply generic_format_opp; exact Fx|lra]. }
  unfold Rminus in *. lra.
Qed.

Ltac laws := first [exact rnd64_mono | exact rnd64_id | exact rnd64_fmt | exact fmt64_0 | exact fmt64_1 | exact rnd64_sub_pos].

(* ---------- dyadic arithmetic is exact ---------- *)
Lemma dyR_eq m e : dyR (m, e) = IZR m * bpow radix2 e.
Proof. reflexivity. Qed.

Lemma pow2_bpow k : (0 <= k)%Z -> IZR (2 ^ k) = bpow radix2 k.
Proof. intros H. rewrite <- (IZR_Zpower radix2 k H). reflexivity. Qed.

Lemma dy_sub_R a b : dyR (dy_sub a b) = dyR a - dyR b.
Proof.
  destruct a as [m1 e1], b as [m2 e2]. unfold dy_sub. set (e := Z.min e1 e2).
  rewrite !dyR_eq, minus_IZR, !mult_IZR, !pow2_bpow by lia.
  replace (bpow radix2 e1) with (bpow radix2 (e1 - e) * bpow radix2 e) by (rewrite <- bpow_plus; f_equal; lia).
  replace (bpow radix2 e2) with (bpow radix2 (e2 - e) * bpow radix2 e) by (rewrite <- bpow_plus; f_equal; lia).
  ring.
Qed.

Lemma dy_leb_R a b : dy_leb a b = true -> dyR a <= dyR b.
Proof.
  unfold dy_leb, dy_sgn. intros H. pose proof (dy_sub_R a b) as E.
  destruct (dy_sub a b) as [m e]. cbn [fst] in H. rewrite dyR_eq in E.
  assert (m <= 0)%Z as Hm by (destruct m; cbn in H; lia).
  apply IZR_le in Hm. pose proof (bpow_gt_0 radix2 e). nra.
Qed.
Lemma dy_ltb_R a b : dy_ltb a b = true -> dyR a < dyR b.
Proof.
  unfold dy_ltb, dy_sgn. intros H. pose proof (dy_sub_R a b) as E.
  destruct (dy_sub a b) as [m e]. cbn [fst] in H. rewrite dyR_eq in E.
  assert (m < 0)%Z as Hm by (destruct m; cbn in H; lia).
  apply IZR_lt in Hm. pose proof (bpow_gt_0 radix2 e). nra.
Qed.
Lemma dy_eqb_R a b : dy_eqb a b = true -> dyR a = dyR b.
Proof.
  unfold dy_eqb, dy_sgn. intros H. pose proof (dy_sub_R a b) as E.
  destruct (dy_sub a b) as [m e]. cbn [fst] in H. rewrite dyR_eq in E.
  assert (m = 0)%Z as Hm by (destruct m; cbn in H; lia). subst m. lra.
Qed.

Lemma dy_fmt_R a : dy_fmt a = true -> fmt64 (dyR a).
Proof.
  destruct a as [m e]. unfold dy_fmt. intros H. apply andb_true_iff in H. destruct H as [He Hm].
  apply generic_format_FLT. exists (Float radix2 m e); [reflexivity| |]; cbn [Fnum Fexp].
  - change (Zpower radix2 53) with (2 ^ 53)%Z. lia.
  - lia.
Qed.

Lemma dy_scale m e :
  dyR (m, e) = IZR (m * 2 ^ Z.max 0 e) * / IZR (2 ^ Z.max 0 (- e)) /\ 0 < IZR (2 ^ Z.max 0 (- e)).
Proof.
  rewrite dyR_eq, mult_IZR, !pow2_bpow by lia. split; [|apply bpow_gt_0].
  rewrite <- bpow_opp, Rmult_assoc, <- bpow_plus. do 2 f_equal. lia.
Qed.

Lemma scale_lt x B Q p : 0 < B -> 0 < Q -> (x * / B < p / Q <-> x * Q < p * B).
Proof.
  intros HB HQ. assert (0 < / (B * Q)) by (apply Rinv_0_lt_compat; nra).
  replace (x * / B) with ((x * Q) * / (B * Q)) by (field; lra).
  replace (p / Q) with ((p * B) * / (B * Q)) by (field; lra).
  split; intros H'; [|apply Rmult_lt_compat_r; assumption].
  apply (Rmult_lt_reg_r (/ (B * Q))); assumption.
Qed.
Lemma scale_le x B Q p : 0 < B -> 0 < Q -> (x * / B <= p / Q <-> x * Q <= p * B).
Proof.
  intros HB HQ. assert (0 < / (B * Q)) by (apply Rinv_0_lt_compat; nra).
  replace (x * / B) with ((x * Q) * / (B * Q)) by (field; lra).
  replace (p / Q) with ((p * B) * / (B * Q)) by (field; lra).
  split; intros H'; [|apply Rmult_le_compat_r; [lra|assumption]].
  apply (Rmult_le_reg_r (/ (B * Q))); assumption.
Qed.

Lemma dy_lt_q_R a p q : dy_lt_q a p q = true <-> dyR a < IZR p / IZR (Z.pos q).
Proof.
  destruct a as [m e]. unfold dy_lt_q. destruct (dy_scale m e) as [-> HB].
  assert (0 < IZR (Z.pos q)) as HQ by (apply IZR_lt; lia).
  rewrite scale_lt by assumption. rewrite <- !mult_IZR. rewrite Z.ltb_lt.
  split; [apply IZR_lt|apply lt_IZR].
Qed.
Lemma dy_le_q_R a p q : dy_le_q a p q = true <-> dyR a <= IZR p / IZR (Z.pos q).
Proof.
  destruct a as [m e]. unfold dy_le_q. destruct (dy_scale m e) as [-> HB].
  assert (0 < IZR (Z.pos q)) as HQ by (apply IZR_lt; lia).
  rewrite scale_le by assumption. rewrite <- !mult_IZR. rewrite Z.leb_le.
  split; [apply IZR_le|apply le_IZR].
Qed.
Lemma dy_lt_q_false a p q : dy_lt_q a p q = false -> IZR p / IZR (Z.pos q) <= dyR a.
Proof.
  intros H. apply Rnot_lt_le. intros H'. apply dy_lt_q_R in H'. congruence.
Qed.

(* ---------- from the computed checks to the table predicate over R ---------- *)
Lemma adj_adjP {X Y} (p : X -> X -> bool) (P : Y -> Y -> Prop) (f : X -> Y) l :
  (forall a b, p a b = true -> P (f a) (f b)) -> adj p l = true -> adjP P (map f l).
Proof.
  intros H. induction l as [|a l IH]; [intros; exact I|].
  destruct l as [|b l']; [intros; exact I|].
  intros E. change (adj p (a :: b :: l')) with (p a b && adj p (b :: l')) in E.
  apply andb_true_iff in E. destruct E as [E1 E2]. split; [apply H, E1|apply IH, E2].
Qed.

Lemma dknotR_time k : rk_time (dknotR k) = dyR (dk_time k). Proof. reflexivity. Qed.
Lemma dknotR_radius k : rk_radius (dknotR k) = dyR (dk_radius k). Proof. reflexivity. Qed.
Lemma dknotR_corr k : rk_corr (dknotR k) = dyR (dk_corr k). Proof. reflexivity. Qed.

Lemma dstep_ok_R a b : dstep_ok a b = true -> step_ok fmt64 (dknotR a) (dknotR b).
Proof.
  unfold dstep_ok. rewrite !andb_true_iff. intros ((((H1 & H2) & H3) & H4) & H5).
  unfold step_ok. rewrite !dknotR_time, !dknotR_radius, !dknotR_corr, <- !dy_sub_R.
  repeat split; auto using dy_ltb_R, dy_leb_R, dy_fmt_R.
Qed.

Lemma dknot_fmt_R k : dknot_fmt k = true -> knot_fmt fmt64 (dknotR k).
Proof.
  unfold dknot_fmt. rewrite !andb_true_iff. intros ((H1 & H2) & H3).
  unfold knot_fmt. rewrite dknotR_time, dknotR_radius, dknotR_corr. auto using dy_fmt_R.
Qed.

Lemma dtable_okb_R t : dtable_okb t = true -> table_ok fmt64 (map dknotR t).
Proof.
  unfold dtable_okb. destruct t as [|k0 [|k1 t']]; try discriminate.
  rewrite !andb_true_iff. intros ((H1 & H2) & H3). unfold table_ok. split; [cbn [map length]; lia|]. split; [|split].
  - cbn [map hd]. rewrite dknotR_corr. rewrite (dy_eqb_R _ _ H1). rewrite dyR_eq. cbn [IZR]. lra.
  - rewrite forallb_forall in H2. apply Forall_forall. intros k Hk. apply in_map_iff in Hk.
    destruct Hk as (k' & <- & Hk'). apply dknot_fmt_R, H2, Hk'.
  - eapply adj_adjP; [|exact H3]. exact dstep_ok_R.
Qed.

Lemma dtables_okb_R d : dtables_okb d = true -> tables_ok fmt64 (dtablesR d).
Proof.
  unfold dtables_okb. destruct d as [|s0 d']; [discriminate|]. set (d := s0 :: d').
  rewrite andb_true_iff. intros (H1 & H2). unfold tables_ok. split; [discriminate|]. split.
  - rewrite forallb_forall in H1. apply Forall_forall. intros s Hs. unfold dtablesR in Hs. apply in_map_iff in Hs.
    destruct Hs as (s' & <- & Hs'). cbn [fst]. apply dtable_okb_R. specialize (H1 _ Hs').
    apply andb_true_iff in H1. apply H1.
  - unfold dtablesR. eapply adj_adjP; [|exact H2]. intros a b H. cbn [snd]. apply dy_ltb_R, H.
Qed.

(* ---------- the tables of the current source ---------- *)
Lemma current_checks_true : current_checks = true.
Proof. vm_compute. reflexivity. Qed.

(* no tactic may try to convert two different closed terms over the 145 000-entry table: only vm_compute
   (which ignores opacity) evaluates it *)
Opaque drift_tables.
Lemma current_checks_split :
  tables_okb drift_tables = true /\ steps_okb d_tables = true /\ witness_okb d_tables = true.
Proof.
  pose proof current_checks_true as H. unfold current_checks in H.
  apply andb_true_iff in H. destruct H as [H H3]. apply andb_true_iff in H. destruct H as [H1 H2].
  split; [exact H1|split; [exact H2|exact H3]].
Qed.
Lemma tables_okb_current_lemma : tables_okb drift_tables = true.
Proof. exact (proj1 current_checks_split). Qed.
Lemma steps_okb_current : steps_okb d_tables = true.
Proof. exact (proj1 (proj2 current_checks_split)). Qed.
Lemma witness_okb_current : witness_okb d_tables = true.
Proof. exact (proj2 (proj2 current_checks_split)). Qed.

Lemma table_ok_current_lemma : tables_ok fmt64 r_tables.
Proof.
  apply dtables_okb_R. pose proof tables_okb_current_lemma as H. unfold tables_okb in H.
  unfold d_tables. revert H. destruct (dy_tables drift_tables); intros H; [exact H|discriminate H].
Qed.
