(* Proofs about the vertex bookkeeping model Recon/Vertex.v: tracks are conserved, a primary vertex has
   at least two tracks. *)
From Coq Require Import Permutation.
From AG Require Import Base.Prelude Base.Res Recon.Vec Recon.Vec_proofs Recon.Cluster Recon.Cluster_proofs Recon.Vertex.
Local Open Scope nat_scope.

Section MaxSetP.
  Context {A : Type}.
  Variable key : A -> nat.
  Lemma max_set_from_in l : forall cur result x,
    In x (max_set_from key cur result l) -> In x result \/ In x l.
  Proof.
    induction l as [|y l IH]; intros cur result x H; cbn [max_set_from] in H; [auto|].
    destruct (key y <? cur).
    - apply IH in H. destruct H; [auto|right; right; assumption].
    - destruct (key y =? cur).
      + apply IH in H. destruct H as [H|H]; [|right; right; assumption].
        unfold vpush in H. apply in_app_or in H. destruct H as [H|[<-|[]]]; [auto|right; left; reflexivity].
      + apply IH in H. destruct H as [[<-|[]]|H]; [right; left; reflexivity|right; right; assumption].
  Qed.
  Lemma max_set_by_key_in l x : In x (max_set_by_key key l) -> In x l.
  Proof.
    destruct l as [|y l]; cbn [max_set_by_key]; [auto|]. intros H.
    apply max_set_from_in in H. destruct H as [[<-|[]]|H]; [left; reflexivity|right; assumption].
  Qed.
End MaxSetP.

Section VertexP.
  Variable long_enough close_beam : track -> bool.
  Variable sortF : list track -> res (list track).
  Variable zclose : track -> track -> bool.
  Variable cmp_r : list track -> list track -> res comparison.
  Variable fit : list track -> res unit.
  (* all that is assumed of sort_unstable_by: when it returns, the result is a rearrangement *)
  Hypothesis sort_perm : forall l l', sortF l = Ok l' -> Permutation l' l.

  Lemma chain_concat l : forall clusters cs,
    chain zclose clusters l = Ok cs -> concat cs = concat clusters ++ l.
  Proof.
    induction l as [|t l IH]; intros clusters cs H; cbn [chain] in H.
    - inv H. rewrite app_nil_r. reflexivity.
    - destruct (vpop clusters) as [[init lastc]|] eqn:E; cbn in H; [|discriminate].
      apply vpop_some in E. subst clusters.
      destruct (vpop lastc) as [[i2 lastt]|] eqn:E2; cbn in H; [|discriminate].
      destruct (zclose t lastt).
      + apply IH in H. rewrite H. unfold vpush. rewrite !concat_app. cbn. rewrite !app_nil_r.
        rewrite <- !app_assoc. reflexivity.
      + apply IH in H. rewrite H. unfold vpush. rewrite !concat_app. cbn. rewrite !app_nil_r.
        rewrite <- !app_assoc. reflexivity.
  Qed.

  Lemma beamline_clusters_perm tracks cs :
    beamline_clusters sortF zclose tracks = Ok cs -> Permutation (concat cs) tracks.
  Proof.
    unfold beamline_clusters. destruct tracks as [|t0 tr].
    - intros H. inv H. constructor.
    - destruct (sortF (t0 :: tr)) as [s| |] eqn:Es; cbn; try discriminate.
      apply sort_perm in Es.
      destruct s as [|s0 s]; cbn; [discriminate|].
      intros H. apply chain_concat in H. rewrite H. cbn. exact Es.
  Qed.

  Theorem find_vertices_ok tracks v rem :
    find_vertices long_enough close_beam sortF zclose cmp_r fit tracks = Ok (v, rem) ->
    Permutation (unwrap_or_nil v ++ rem) tracks /\
    (forall c, v = Some c -> 2 <= length c).
  Proof.
    unfold find_vertices.
    destruct (beamline_clusters sortF zclose _) as [cl| |] eqn:Ec; cbn [bind]; try discriminate.
    destruct (max_by cmp_r _) as [v0| |] eqn:Em; cbn [bind]; try discriminate.
    destruct (match v0 with Some c => fit c | None => Ok tt end) as [u| |]; cbn [bind]; try discriminate.
    destruct (fold_res remainder_step tracks (unwrap_or_nil v0)) as [r| |] eqn:Er; cbn [bind]; try discriminate.
    intros H. inv H.
    destruct v as [c|]; cbn [unwrap_or_nil] in *.
    - apply max_by_in, max_set_by_key_in, filter_In in Em. destruct Em as [Hc Hl].
      apply Nat.ltb_lt in Hl.
      split; [|intros c' Hc'; inv Hc'; lia].
      destruct (in_concat_perm _ _ Hc) as (rest & HPr).
      apply beamline_clusters_perm in Ec.
      (* c ++ rest ~ primary; primary ++ others ~ tracks *)
      set (f := long_enough) in *. set (g := close_beam) in *.
      assert (Hsub : exists others, Permutation (filter g (filter f tracks) ++ others) tracks).
      { exists (filter (fun x => negb (g x)) (filter f tracks) ++ filter (fun x => negb (f x)) tracks).
        rewrite app_assoc.
        eapply Permutation_trans; [apply Permutation_app_tail, filter_split_perm|]. apply filter_split_perm. }
      destruct Hsub as (others & HPo).
      assert (HPall : Permutation ((rest ++ others) ++ c) tracks).
      { eapply Permutation_trans; [|exact HPo].
        eapply Permutation_trans; [apply Permutation_app_comm|]. rewrite app_assoc.
        apply Permutation_app_tail. eapply Permutation_trans; [exact HPr|exact Ec]. }
      destruct (remainder_ok c tracks (rest ++ others) HPall) as (r' & Hr' & HPr').
      rewrite Hr' in Er. inv Er.
      eapply Permutation_trans; [apply Permutation_app_comm|].
      eapply Permutation_trans; [apply Permutation_app_tail, HPr'|exact HPall].
    - cbn in Er. inv Er. split; [apply Permutation_refl|discriminate].
  Qed.
End VertexP.

Lemma vertex_partition_lemma :
  forall (long_enough close_beam : track -> bool) (sortF : list track -> res (list track))
         (zclose : track -> track -> bool) (cmp_r : list track -> list track -> res comparison)
         (fit : list track -> res unit),
  (forall l l', sortF l = Ok l' -> Permutation l' l) ->
  forall tracks v rem,
  find_vertices long_enough close_beam sortF zclose cmp_r fit tracks = Ok (v, rem) ->
  Permutation (unwrap_or_nil v ++ rem) tracks.
Proof. intros. eapply find_vertices_ok; eauto. Qed.

(* no assumption on the sort, the comparisons or the fit is needed for this one *)
Lemma primary_two_tracks_lemma :
  forall (long_enough close_beam : track -> bool) (sortF : list track -> res (list track))
         (zclose : track -> track -> bool) (cmp_r : list track -> list track -> res comparison)
         (fit : list track -> res unit),
  forall tracks c rem,
  find_vertices long_enough close_beam sortF zclose cmp_r fit tracks = Ok (Some c, rem) ->
  2 <= length c.
Proof.
  intros f g sortF zclose cmp_r fit tracks c rem. unfold find_vertices.
  destruct (beamline_clusters sortF zclose _) as [cl| |] eqn:Ec; cbn [bind]; try discriminate.
  destruct (max_by cmp_r _) as [v0| |] eqn:Em; cbn [bind]; try discriminate.
  destruct (match v0 with Some c => fit c | None => Ok tt end) as [u| |]; cbn [bind]; try discriminate.
  destruct (fold_res remainder_step tracks (unwrap_or_nil v0)) as [r| |] eqn:Er; cbn [bind]; try discriminate.
  intros H. inv H.
  apply max_by_in, max_set_by_key_in, filter_In in Em. destruct Em as [_ Hl].
  apply Nat.ltb_lt in Hl. lia.
Qed.
