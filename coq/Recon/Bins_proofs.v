(* Proofs about the model of get_bins (Recon/Bins.v): the loops never panic and compute the closed form
   get_bins_spec; the bins are pairwise distinct; theta indices are < theta_bins; the `positive` names are
   distinct too.  Nothing is assumed about the abstract rho_bin sequence. *)
From AG Require Import Base.Prelude Base.Res Recon.Vec Recon.Bins.
Local Open Scope Z_scope.

(* ---- list facts (Coq 8.16 has no NoDup_app) ---- *)
Lemma NoDup_app_intro {A} (l1 l2 : list A) :
  NoDup l1 -> NoDup l2 -> (forall x, In x l1 -> ~ In x l2) -> NoDup (l1 ++ l2).
Proof.
  induction l1 as [|a l1 IH]; intros H1 H2 Hd; [exact H2|].
  inv H1. cbn. constructor.
  - rewrite in_app_iff. intros [H|H]; [auto|]. apply (Hd a); [now left|exact H].
  - apply IH; auto. intros x Hx. apply Hd. now right.
Qed.

Lemma NoDup_map_inj_in {A B} (g : A -> B) (l : list A) :
  NoDup l -> (forall x y, In x l -> In y l -> g x = g y -> x = y) -> NoDup (map g l).
Proof.
  induction l as [|a l IH]; intros Hn Hi; cbn; [constructor|].
  inv Hn. constructor.
  - rewrite in_map_iff. intros [y [Hy Hin]].
    assert (y = a) by (apply Hi; [now right|now left|exact Hy]). subst. auto.
  - apply IH; auto. intros x y Hx Hy. apply Hi; now right.
Qed.

Lemma NoDup_flat_map_fst {B} (g : N -> list (N * B)) (l : list N) :
  NoDup l -> (forall k, NoDup (g k)) -> (forall k x, In x (g k) -> fst x = k) ->
  NoDup (flat_map g l).
Proof.
  induction l as [|a l IH]; intros Hn Hg Hf; cbn; [constructor|].
  inv Hn. apply NoDup_app_intro; auto.
  intros x Hx Hx'. apply in_flat_map in Hx'. destruct Hx' as [k [Hk Hin]].
  apply Hf in Hx. apply Hf in Hin. congruence.
Qed.

(* ---- ranges ---- *)
Lemma zrange_S lo c : zrange lo (S c) = lo :: zrange (lo + 1) c.
Proof.
  unfold zrange. cbn [seq map]. f_equal; [lia|].
  rewrite <- seq_shift, map_map. apply map_ext. intros i. lia.
Qed.

Lemma zrange_in lo cnt z : In z (zrange lo cnt) <-> lo <= z < lo + Z.of_nat cnt.
Proof.
  unfold zrange. rewrite in_map_iff. split.
  - intros [i [<- Hi]]. apply in_seq in Hi. lia.
  - intros H. exists (Z.to_nat (z - lo)). split; [lia|]. apply in_seq. lia.
Qed.

Lemma zrange_nodup lo cnt : NoDup (zrange lo cnt).
Proof.
  unfold zrange. apply NoDup_map_inj_in; [apply seq_NoDup|]. intros x y _ _ H. lia.
Qed.

Lemma nrange_in cnt k : In k (nrange cnt) <-> (k < N.of_nat cnt)%N.
Proof.
  unfold nrange. rewrite in_map_iff. split.
  - intros [i [<- Hi]]. apply in_seq in Hi. lia.
  - intros H. exists (N.to_nat k). split; [lia|]. apply in_seq. lia.
Qed.

Lemma nrange_nodup cnt : NoDup (nrange cnt).
Proof.
  unfold nrange. apply NoDup_map_inj_in; [apply seq_NoDup|]. intros x y _ _ H. lia.
Qed.

(* ---- the inner loop: no panic (bin >= 0 because the range starts at min_bin.max(0)) ---- *)
Lemma push_range_ok th : forall cnt bin bins, 0 <= bin ->
  push_range th bin cnt bins = Ok (bins ++ map (fun z => (th, Z.to_N z)) (zrange bin cnt)).
Proof.
  induction cnt as [|c IH]; intros bin bins Hb.
  - cbn. now rewrite app_nil_r.
  - cbn [push_range]. unfold i32_try_into_u32_unwrap.
    destruct (bin <? 0) eqn:E; [lia|]. cbn [bind].
    rewrite IH by lia. unfold vpush. rewrite <- app_assoc. f_equal.
    rewrite zrange_S. reflexivity.
Qed.

(* the conversion is reached only with a non-negative argument: stated for the primitive itself *)
Lemma try_into_nonneg z : 0 <= z -> i32_try_into_u32_unwrap z = Ok (Z.to_N z).
Proof. intros H. unfold i32_try_into_u32_unwrap. destruct (z <? 0) eqn:E; [lia|reflexivity]. Qed.

(* ---- one iteration of the theta loop ---- *)
Lemma theta_step_ok f tb prev bins : (1 <= tb)%N ->
  theta_step f tb prev bins = Ok (f tb, bins ++ votes_ab (tb - 1) prev (f tb)).
Proof.
  intros Htb. unfold theta_step, votes_ab, is_negative.
  replace (negb (f tb <? 0) || negb (prev <? 0))%bool with ((0 <=? f tb) || (0 <=? prev))%bool
    by (destruct (f tb <? 0) eqn:E1, (0 <=? f tb) eqn:E2, (prev <? 0) eqn:E3, (0 <=? prev) eqn:E4;
        try reflexivity; lia).
  destruct ((0 <=? f tb) || (0 <=? prev))%bool.
  - unfold usub. destruct (1 <=? tb)%N eqn:E; [|lia]. cbn [bind].
    rewrite push_range_ok by lia. reflexivity.
  - now rewrite app_nil_r.
Qed.

Lemma theta_loop_ok f : forall cnt tb bins, (1 <= tb)%N ->
  theta_loop f cnt tb (f (tb - 1)%N) bins
  = Ok (bins ++ flat_map (theta_votes f) (map (fun i => (tb - 1 + N.of_nat i)%N) (seq 0 cnt))).
Proof.
  induction cnt as [|c IH]; intros tb bins Htb.
  - cbn. now rewrite app_nil_r.
  - cbn [theta_loop]. rewrite theta_step_ok by exact Htb. cbn [bind].
    replace (f tb) with (f (tb + 1 - 1)%N) at 1 by (f_equal; lia).
    rewrite IH by lia. rewrite <- app_assoc. do 2 f_equal.
    cbn [seq map flat_map]. f_equal.
    + unfold theta_votes. replace (tb - 1 + N.of_nat 0)%N with (tb - 1)%N by lia.
      do 2 f_equal. lia.
    + f_equal. rewrite <- seq_shift, map_map. apply map_ext. intros i. lia.
Qed.

(* get_bins returns normally, with the closed form *)
Lemma get_bins_res_ok f n : get_bins_res f n = Ok (get_bins_spec n f).
Proof.
  unfold get_bins_res. change (f 0%N) with (f (1 - 1)%N).
  rewrite theta_loop_ok by lia. cbn [app]. unfold get_bins_spec, nrange.
  try reflexivity; repeat f_equal; apply map_ext; intros i; lia.
Qed.

Lemma get_bins_model_spec n f : get_bins_model n f = get_bins_spec n f.
Proof. unfold get_bins_model. now rewrite get_bins_res_ok. Qed.

Lemma get_bins_total_lemma : forall (n : N) (f : N -> Z), get_bins_res f n = Ok (get_bins_model n f).
Proof. intros. rewrite get_bins_model_spec. apply get_bins_res_ok. Qed.

(* ---- distinctness ---- *)
Lemma votes_ab_fst k a b x : In x (votes_ab k a b) -> fst x = k.
Proof.
  unfold votes_ab. destruct ((0 <=? b) || (0 <=? a))%bool; [|intros []].
  rewrite in_map_iff. intros [z [<- _]]. reflexivity.
Qed.

Lemma votes_ab_nodup k a b : NoDup (votes_ab k a b).
Proof.
  unfold votes_ab. destruct ((0 <=? b) || (0 <=? a))%bool; [|constructor].
  apply NoDup_map_inj_in; [apply zrange_nodup|].
  intros x y Hx Hy H. apply zrange_in in Hx. apply zrange_in in Hy.
  injection H as H. lia.
Qed.

Lemma get_bins_spec_nodup n f : NoDup (get_bins_spec n f).
Proof.
  unfold get_bins_spec. apply NoDup_flat_map_fst.
  - apply nrange_nodup.
  - intros k. apply votes_ab_nodup.
  - intros k x. apply votes_ab_fst.
Qed.

Lemma get_bins_nodup_lemma : forall (n : N) (f : N -> Z), NoDup (get_bins_model n f).
Proof. intros. rewrite get_bins_model_spec. apply get_bins_spec_nodup. Qed.

(* ---- ranges of the entries ---- *)
Lemma get_bins_theta_range_lemma : forall (n : N) (f : N -> Z) (t r : N),
  In (t, r) (get_bins_model n f) -> (t < n)%N.
Proof.
  intros n f t r. rewrite get_bins_model_spec. unfold get_bins_spec.
  rewrite in_flat_map. intros [k [Hk Hin]]. apply votes_ab_fst in Hin. cbn in Hin. subst k.
  apply nrange_in in Hk. lia.
Qed.

(* the rho index of a vote with theta index t lies between the two edge values (clamped at 0) *)
Lemma get_bins_rho_range_lemma : forall (n : N) (f : N -> Z) (t r : N),
  In (t, r) (get_bins_model n f) ->
  Z.max (Z.min (f t) (f (t + 1)%N)) 0 <= Z.of_N r <= Z.max (f t) (f (t + 1)%N).
Proof.
  intros n f t r. rewrite get_bins_model_spec. unfold get_bins_spec.
  rewrite in_flat_map. intros [k [Hk Hin]]. pose proof (votes_ab_fst _ _ _ _ Hin) as E. cbn in E. subst k.
  unfold theta_votes, votes_ab in Hin. destruct ((0 <=? f (t + 1)%N) || (0 <=? f t))%bool; [|destruct Hin].
  apply in_map_iff in Hin. destruct Hin as [z [Hz Hin]]. injection Hz as Hz. subst r.
  apply zrange_in in Hin. unfold range_count in Hin. lia.
Qed.

(* membership, exactly: which bins a point votes for *)
Lemma get_bins_in_iff_lemma : forall (n : N) (f : N -> Z) (t r : N),
  In (t, r) (get_bins_model n f) <->
  (t < n)%N /\ (0 <= f t \/ 0 <= f (t + 1)%N) /\
  Z.min (f t) (f (t + 1)%N) <= Z.of_N r <= Z.max (f t) (f (t + 1)%N).
Proof.
  intros n f t r. split.
  - intros H. pose proof (get_bins_theta_range_lemma _ _ _ _ H) as Ht.
    pose proof (get_bins_rho_range_lemma _ _ _ _ H) as Hr. split; [exact Ht|]. split; [|lia].
    destruct (Z_le_gt_dec 0 (f t)); [now left|]. destruct (Z_le_gt_dec 0 (f (t + 1)%N)); [now right|]. lia.
  - intros [Ht [Hs Hr]]. rewrite get_bins_model_spec. unfold get_bins_spec. apply in_flat_map.
    exists t. split; [apply nrange_in; lia|].
    unfold theta_votes, votes_ab.
    destruct ((0 <=? f (t + 1)%N) || (0 <=? f t))%bool eqn:E; [|lia].
    apply in_map_iff. exists (Z.of_N r). split; [f_equal; lia|].
    apply zrange_in. unfold range_count. lia.
Qed.

(* ---- the `positive` names ---- *)
Lemma bin_code_inj n t r t' r' : (t < n)%N -> (t' < n)%N ->
  bin_code n (t, r) = bin_code n (t', r') -> (t, r) = (t', r').
Proof.
  intros Ht Ht' H. unfold bin_code in H. cbn [fst snd] in H.
  assert (E : (r * n + t = r' * n + t')%N).
  { apply N.succ_inj. rewrite <- !N.succ_pos_spec. now rewrite H. }
  assert (r = r') by nia. subst. f_equal. lia.
Qed.

Lemma bins_of_nodup_lemma : forall (n : N) (f : N -> Z), NoDup (bins_of n f).
Proof.
  intros n f. unfold bins_of. apply NoDup_map_inj_in; [apply get_bins_nodup_lemma|].
  intros [t r] [t' r'] Hx Hy. apply bin_code_inj; eapply get_bins_theta_range_lemma; eassumption.
Qed.
