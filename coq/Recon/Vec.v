(* Vec<T> primitives used by the reconstruction models (track_finding.rs, vertex_fitting.rs):
   index, push, pop, swap_remove, Iterator::position, Iterator::max_by_key, with the panics of
   the Rust operations as `Panic`.  Definitions only (lemmas: Recon/Vec_proofs.v). *)
From AG Require Import Base.Prelude Base.Res.
Local Open Scope nat_scope.

(* outcome of a loop that ran out of the explicit fuel of the model (excluded by the theorems) *)
Definition E_fuel : N := 99%N.

Section Vec.
  Context {A : Type}.

  (* v[i] *)
  Definition idx (v : list A) (i : nat) : res A := unwrap (nth_error v i).

  (* v.push(x) *)
  Definition vpush (v : list A) (x : A) : list A := v ++ [x].

  (* v.pop(): None on the empty vector, otherwise (remaining prefix, last element) *)
  Fixpoint vpop (v : list A) : option (list A * A) :=
    match v with
    | [] => None
    | x :: v' => match vpop v' with
                 | None => Some ([], x)
                 | Some (l, y) => Some (x :: l, y)
                 end
    end.

  (* v.swap_remove(i): removes and returns v[i], the last element takes its place;
     panics when i >= v.len() *)
  Definition swap_remove (i : nat) (v : list A) : res (A * list A) :=
    match vpop v with
    | None => Panic
    | Some (l, y) =>
        if i =? length l then Ok (y, l)
        else match nth_error l i with
             | Some x => Ok (x, firstn i l ++ y :: skipn (S i) l)
             | None => Panic
             end
    end.

  (* v.iter().position(f) *)
  Fixpoint position (f : A -> bool) (v : list A) : option nat :=
    match v with
    | [] => None
    | x :: v' => if f x then Some 0 else option_map S (position f v')
    end.

  (* it.max_by_key(key): std folds with `match cmp(acc, new) { Greater => acc, _ => new }`,
     so among equal maxima the LAST one is returned *)
  Fixpoint max_by_key_from (key : A -> nat) (kb : nat) (best : A) (l : list A) : A :=
    match l with
    | [] => best
    | y :: l' => let ky := key y in                      (* the key of every element is computed once *)
                 if ky <? kb then max_by_key_from key kb best l' else max_by_key_from key ky y l'
    end.
  Definition max_by_key (key : A -> nat) (l : list A) : option A :=
    match l with
    | [] => None
    | x :: l' => Some (max_by_key_from key (key x) x l')
    end.

  (* it.max_by(cmp) with a comparison that may panic (partial_cmp(..).unwrap()) *)
  Fixpoint max_by_from (cmp : A -> A -> res comparison) (best : A) (l : list A) : res A :=
    match l with
    | [] => Ok best
    | y :: l' => do c <- cmp best y;
                 max_by_from cmp (match c with Gt => best | _ => y end) l'
    end.
  Definition max_by (cmp : A -> A -> res comparison) (l : list A) : res (option A) :=
    match l with
    | [] => Ok None
    | x :: l' => do m <- max_by_from cmp x l'; Ok (Some m)
    end.

  (* for x in l { state = f(state, x)? } *)
  Fixpoint fold_res {St : Type} (f : St -> A -> res St) (s : St) (l : list A) : res St :=
    match l with
    | [] => Ok s
    | x :: l' => do s' <- f s x; fold_res f s' l'
    end.
End Vec.

(* Option<Vec<T>>::unwrap_or_default() *)
Definition unwrap_or_nil {A} (o : option (list A)) : list A := match o with Some v => v | None => [] end.
