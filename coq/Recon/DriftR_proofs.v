(* C18 — the lookup algorithm over R with an abstract rounding: every lemma about the algorithm.
   The rounding `rnd` and the format `fmt` are Section variables with the laws used listed as hypotheses;
   Recon/Drift_proofs.v instantiates the Section with Flocq's round-to-nearest-even on binary64. *)
From Coq Require Import Reals Lra.
From Flocq Require Import Core.
From AG Require Import Base.Prelude Base.Res Base.Bytes Recon.Drift Recon.DriftR.

Local Open Scope R_scope.

(* ---------- lists ---------- *)
Lemma adjP_impl {X} (P Q : X -> X -> Prop) l : (forall a b, P a b -> Q a b) -> adjP P l -> adjP Q l.
Proof.
  intros H. induction l as [|a l IH]; [cbn; auto|].
  destruct l as [|b l']; [cbn; auto|]. intros [H1 H2]. split; [auto|apply IH, H2].
Qed.

Lemma adjP_succ {X} (P : X -> X -> Prop) l d i :
  adjP P l -> (S i < length l)%nat -> P (nth i l d) (nth (S i) l d).
Proof.
  revert i. induction l as [|a l IH]; intros i H Hi; [cbn [length] in Hi; lia|].
  destruct l as [|b l']; [cbn [length] in Hi; lia|].
  destruct H as [H1 H2]. destruct i as [|i]; [exact H1|].
  change (P (nth i (b :: l') d) (nth (S i) (b :: l') d)). apply IH; [exact H2|cbn [length] in *; lia].
Qed.

Lemma adjP_nth {X} (P : X -> X -> Prop) l d :
  (forall a b c, P a b -> P b c -> P a c) -> adjP P l ->
  forall i j, (i < j)%nat -> (j < length l)%nat -> P (nth i l d) (nth j l d).
Proof.
  intros Tr H i j Hij Hj. induction j as [|j IH]; [lia|].
  destruct (Nat.eq_dec i j) as [->|Hne].
  - apply adjP_succ; auto.
  - eapply Tr; [apply IH; lia|apply adjP_succ; auto].
Qed.

Lemma adjP_app_r {X} (P : X -> X -> Prop) l1 l2 : adjP P (l1 ++ l2) -> adjP P l2.
Proof.
  induction l1 as [|a l1 IH]; cbn [app]; auto. intros H. apply IH.
  destruct (l1 ++ l2); [exact I|apply H].
Qed.

Lemma idx_nth {X} (l : list X) (i : nat) d : (i < length l)%nat -> idx l (N.of_nat i) = Ok (nth i l d).
Proof.
  intros H. unfold idx. rewrite Nat2N.id.
  destruct (nth_error l i) eqn:E.
  - f_equal. symmetry. apply nth_error_nth with (1 := E).
  - apply nth_error_None in E. lia.
Qed.

Lemma idx_none {X} (l : list X) (i : N) : (lenN l <= i)%N -> idx l i = Panic.
Proof.
  intros H. unfold idx. destruct (nth_error l (N.to_nat i)) eqn:E; [|reflexivity].
  assert (nth_error l (N.to_nat i) <> None) as Hn by congruence.
  apply nth_error_Some in Hn. unfold lenN in H. lia.
Qed.

Lemma usub_ok m w a b : (b <= a)%N -> usub m w a b = Ok (a - b)%N.
Proof. intros H. unfold usub. destruct (N.leb_spec b a); [reflexivity|lia]. Qed.

Lemma last_nth {X} (l : list X) d : last l d = nth (length l - 1) l d.
Proof.
  induction l as [|a l IH]; [reflexivity|].
  destruct l as [|b l']; [reflexivity|].
  change (last (a :: b :: l') d) with (last (b :: l') d). rewrite IH.
  cbn [length]. replace (S (S (length l')) - 1)%nat with (S (S (length l') - 1))%nat by lia.
  reflexivity.
Qed.

(* ---------- the algorithm ---------- *)
Section Rounded.
  Variable rnd : R -> R.
  Variable fmt : R -> Prop.
  Hypothesis rnd_mono : forall x y, x <= y -> rnd x <= rnd y.
  Hypothesis rnd_id : forall x, fmt x -> rnd x = x.
  Hypothesis rnd_fmt : forall x, fmt (rnd x).
  Hypothesis fmt_0 : fmt 0.
  Hypothesis fmt_1 : fmt 1.
  (* gradual underflow: the difference of two distinct representable numbers does not round to zero *)
  Hypothesis rnd_sub_pos : forall x y, fmt x -> fmt y -> x < y -> 0 < rnd (y - x).

  Notation A := (real_arith rnd).
  Notation d0 := rk0.

  Lemma rnd_0 : rnd 0 = 0. Proof. apply rnd_id, fmt_0. Qed.
  Lemma rnd_1 : rnd 1 = 1. Proof. apply rnd_id, fmt_1. Qed.
  Lemma rnd_le_r x y : fmt y -> x <= y -> rnd x <= y.
  Proof. intros F H. rewrite <- (rnd_id y F). apply rnd_mono, H. Qed.
  Lemma rnd_le_l x y : fmt x -> x <= y -> x <= rnd y.
  Proof. intros F H. rewrite <- (rnd_id x F). apply rnd_mono, H. Qed.

  (* position as a nat, counted from the head *)
  Fixpoint pos_nat (t : R) (l : list rknot) : option nat :=
    match l with
    | [] => None
    | k :: l' => if Rlt_bool t (rk_time k) then Some O else option_map S (pos_nat t l')
    end.

  Lemma position_nat t l i :
    position A t l i = option_map (fun j => (i + N.of_nat j)%N) (pos_nat t l).
  Proof.
    revert i. induction l as [|k l IH]; intros i; cbn [position pos_nat]; [reflexivity|].
    change (f_lt A t (k_time k)) with (Rlt_bool t (rk_time k)).
    destruct (Rlt_bool t (rk_time k)); cbn [option_map].
    - f_equal. lia.
    - rewrite IH. destruct (pos_nat t l); cbn [option_map]; [f_equal; lia|reflexivity].
  Qed.

  Lemma pos_nat_some t l j :
    pos_nat t l = Some j ->
    (j < length l)%nat /\ t < rk_time (nth j l d0) /\ forall i, (i < j)%nat -> rk_time (nth i l d0) <= t.
  Proof.
    revert j. induction l as [|k l IH]; intros j; cbn [pos_nat]; [discriminate|].
    destruct (Rlt_bool_spec t (rk_time k)) as [Hlt|Hge].
    - intros E. inv E. cbn [length nth]. repeat split; [lia|exact Hlt|intros; lia].
    - destruct (pos_nat t l) as [j'|] eqn:E; cbn [option_map]; [|discriminate].
      intros E'. inv E'. destruct (IH j' eq_refl) as (H1 & H2 & H3).
      cbn [length nth]. repeat split; [lia|exact H2|].
      intros [|i] Hi; [exact Hge|apply H3; lia].
  Qed.

  Lemma pos_nat_none t l :
    pos_nat t l = None -> forall i, (i < length l)%nat -> rk_time (nth i l d0) <= t.
  Proof.
    induction l as [|k l IH]; cbn [pos_nat length]; [intros; lia|].
    destruct (Rlt_bool_spec t (rk_time k)) as [Hlt|Hge]; [discriminate|].
    destruct (pos_nat t l) eqn:E; cbn [option_map]; [discriminate|].
    intros _ [|i] Hi; cbn [nth]; [exact Hge|apply IH; [reflexivity|lia]].
  Qed.

  (* index (from the head) of the right knot of the bracket *)
  Definition seg_index (tb : list rknot) (t : R) : nat :=
    match pos_nat t tb with Some j => j | None => (length tb - 1)%nat end.

  (* the pair returned for the bracket (lhs, rhs) *)
  Definition interp (lhs rhs : rknot) (t : R) : R * R :=
    let f := fraction_of A t (rk_time lhs) (rk_time rhs) in
    (lerp A f (rk_radius lhs) (rk_radius rhs), lerp A f (rk_corr lhs) (rk_corr rhs)).

  (* order facts of a well-formed table *)
  Definition knot_le (a b : rknot) : Prop :=
    rk_time a < rk_time b /\ rk_radius b <= rk_radius a /\ rk_corr a <= rk_corr b.
  Lemma knot_le_trans a b c : knot_le a b -> knot_le b c -> knot_le a c.
  Proof. unfold knot_le. intros (?&?&?) (?&?&?). repeat split; lra. Qed.

  Lemma table_sorted tb i j :
    table_ok fmt tb -> (i < j)%nat -> (j < length tb)%nat -> knot_le (nth i tb d0) (nth j tb d0).
  Proof.
    intros (_ & _ & _ & H) Hij Hj. apply adjP_nth; [exact knot_le_trans| |exact Hij|exact Hj].
    eapply adjP_impl; [|exact H]. unfold step_ok, knot_le. tauto.
  Qed.
  Lemma table_sorted_le tb i j :
    table_ok fmt tb -> (i <= j)%nat -> (j < length tb)%nat ->
    rk_time (nth i tb d0) <= rk_time (nth j tb d0) /\ rk_radius (nth j tb d0) <= rk_radius (nth i tb d0) /\
    rk_corr (nth i tb d0) <= rk_corr (nth j tb d0).
  Proof.
    intros H Hij Hj. destruct (Nat.eq_dec i j) as [->|Hne]; [repeat split; lra|].
    destruct (table_sorted tb i j H) as (?&?&?); [lia|lia|]. repeat split; lra.
  Qed.
  Lemma table_step tb i :
    table_ok fmt tb -> (S i < length tb)%nat -> step_ok fmt (nth i tb d0) (nth (S i) tb d0).
  Proof. intros (_ & _ & _ & H) Hi. apply adjP_succ; auto. Qed.
  Lemma table_knot_fmt tb i : table_ok fmt tb -> (i < length tb)%nat -> knot_fmt fmt (nth i tb d0).
  Proof.
    intros (_ & _ & H & _) Hi. rewrite Forall_forall in H. apply H, nth_In, Hi.
  Qed.

  (* in range: the bracket *)
  Lemma seg_index_spec tb t :
    table_ok fmt tb ->
    rk_time (nth 0 tb d0) <= t <= rk_time (nth (length tb - 1) tb d0) ->
    let i := seg_index tb t in
    (1 <= i)%nat /\ (i < length tb)%nat /\
    rk_time (nth (i - 1) tb d0) <= t <= rk_time (nth i tb d0) /\
    (forall j, (j < i)%nat -> rk_time (nth j tb d0) <= t) /\
    (t < rk_time (nth i tb d0) \/ (i = length tb - 1)%nat /\ t = rk_time (nth i tb d0)).
  Proof.
    intros Hok [Hlo Hhi]. assert (Hn : (2 <= length tb)%nat) by apply Hok.
    unfold seg_index. destruct (pos_nat t tb) as [j|] eqn:E; cbn zeta.
    - destruct (pos_nat_some _ _ _ E) as (Hj & Hlt & Hbelow).
      assert (j <> 0)%nat as Hj0 by (intros ->; lra).
      split; [lia|]. split; [exact Hj|]. split; [|split].
      + split; [apply Hbelow; lia|lra].
      + exact Hbelow.
      + left. exact Hlt.
    - pose proof (pos_nat_none _ _ E) as Hall.
      assert (t = rk_time (nth (length tb - 1) tb d0)) as Ht.
      { apply Rle_antisym; [exact Hhi|apply Hall; lia]. }
      split; [lia|]. split; [lia|]. split; [|split].
      + split; [apply Hall; lia|lra].
      + intros j Hj. apply Hall. lia.
      + right. split; [reflexivity|exact Ht].
  Qed.

  Lemma table_at_spec m tb t :
    table_ok fmt tb ->
    let n := length tb in
    let first := rk_time (nth 0 tb d0) in
    let last := rk_time (nth (n - 1) tb d0) in
    (t < first \/ last < t -> table_at A m tb t = Err ERR_TIME) /\
    (first <= t <= last ->
       rhs_index_of A m tb t = Ok (N.of_nat (seg_index tb t)) /\
       table_at A m tb t = Ok (interp (nth (seg_index tb t - 1) tb d0) (nth (seg_index tb t) tb d0) t)).
  Proof.
    intros Hok n first last.
    assert (Hn : (2 <= length tb)%nat) by apply Hok.
    assert (Hlen : lenN tb = N.of_nat n) by reflexivity.
    assert (H0 : idx tb 0 = Ok (nth 0 tb d0)) by (apply (idx_nth tb 0); lia).
    assert (Hs : usub m 64 (lenN tb) 1 = Ok (N.of_nat (n - 1))).
    { rewrite usub_ok by (rewrite Hlen; lia). f_equal. rewrite Hlen. lia. }
    assert (Hl : idx tb (N.of_nat (n - 1)) = Ok (nth (n - 1) tb d0)) by (apply idx_nth; lia).
    assert (Hri : rhs_index_of A m tb t = Ok (N.of_nat (seg_index tb t))).
    { unfold rhs_index_of. rewrite Hs. cbn [bind]. rewrite position_nat. unfold seg_index.
      destruct (pos_nat t tb); cbn [option_map]; f_equal. }
    split.
    - intros Hout. unfold table_at. rewrite H0. cbn [bind].
      change (f_lt A t (k_time (nth 0 tb d0))) with (Rlt_bool t first).
      destruct (Rlt_bool_spec t first) as [Hlt|Hge]; [reflexivity|].
      rewrite Hs. cbn [bind]. rewrite Hl. cbn [bind].
      change (f_lt A (k_time (nth (n - 1) tb d0)) t) with (Rlt_bool last t).
      destruct (Rlt_bool_spec last t) as [Hlt|Hge2]; [reflexivity|]. lra.
    - intros Hin. split; [exact Hri|].
      destruct (seg_index_spec tb t Hok Hin) as (Hi1 & Hi2 & _).
      unfold table_at. rewrite H0. cbn [bind].
      change (f_lt A t (k_time (nth 0 tb d0))) with (Rlt_bool t first).
      destruct (Rlt_bool_spec t first) as [Hlt|Hge]; [lra|].
      rewrite Hs. cbn [bind]. rewrite Hl. cbn [bind].
      change (f_lt A (k_time (nth (n - 1) tb d0)) t) with (Rlt_bool last t).
      destruct (Rlt_bool_spec last t) as [Hlt|Hge2]; [lra|].
      rewrite Hri. cbn [bind].
      rewrite usub_ok by lia. cbn [bind].
      replace (N.of_nat (seg_index tb t) - 1)%N with (N.of_nat (seg_index tb t - 1)) by lia.
      rewrite (idx_nth tb (seg_index tb t - 1) d0) by lia. cbn [bind].
      rewrite (idx_nth tb (seg_index tb t) d0) by lia. cbn [bind].
      reflexivity.
  Qed.

  (* ---------- the interpolation ---------- *)
  Lemma fraction_eq t lt rt : fraction_of A t lt rt = rnd (rnd (t - lt) / rnd (rt - lt)).
  Proof. reflexivity. Qed.
  Lemma lerp_eq f lhs rhs : lerp A f lhs rhs = rnd (lhs + rnd (f * rnd (rhs - lhs))).
  Proof. reflexivity. Qed.

  Lemma div_range a b : 0 <= a -> a <= b -> 0 < b -> 0 <= a / b <= 1.
  Proof.
    intros Ha Hab Hb. assert (0 < / b) by (apply Rinv_0_lt_compat; exact Hb). split.
    - unfold Rdiv. apply Rmult_le_pos; lra.
    - apply (Rmult_le_reg_r b); [exact Hb|]. unfold Rdiv. rewrite Rmult_assoc, Rinv_l by lra. lra.
  Qed.

  Lemma fraction_range t lt rt :
    fmt lt -> fmt rt -> lt < rt -> lt <= t <= rt -> 0 <= fraction_of A t lt rt <= 1.
  Proof.
    intros Fl Fr Hlr [H1 H2]. rewrite fraction_eq.
    pose proof (rnd_sub_pos lt rt Fl Fr Hlr) as Hb.
    assert (0 <= rnd (t - lt)) as Ha by (apply rnd_le_l; [exact fmt_0|lra]).
    assert (rnd (t - lt) <= rnd (rt - lt)) as Hab by (apply rnd_mono; lra).
    destruct (div_range _ _ Ha Hab Hb) as [D1 D2].
    split; [apply rnd_le_l|apply rnd_le_r]; assumption.
  Qed.

  Lemma fraction_mono t1 t2 lt rt :
    fmt lt -> fmt rt -> lt < rt -> t1 <= t2 -> fraction_of A t1 lt rt <= fraction_of A t2 lt rt.
  Proof.
    intros Fl Fr Hlr H12. rewrite !fraction_eq. apply rnd_mono.
    pose proof (rnd_sub_pos lt rt Fl Fr Hlr) as Hb.
    assert (0 < / rnd (rt - lt)) by (apply Rinv_0_lt_compat; exact Hb).
    unfold Rdiv. apply Rmult_le_compat_r; [lra|]. apply rnd_mono. lra.
  Qed.

  Lemma fraction_at_lhs lt rt : fraction_of A lt lt rt = 0.
  Proof.
    rewrite fraction_eq. replace (lt - lt) with 0 by ring. rewrite rnd_0.
    unfold Rdiv. rewrite Rmult_0_l. apply rnd_0.
  Qed.

  Lemma fraction_at_rhs lt rt : fmt lt -> fmt rt -> lt < rt -> fraction_of A rt lt rt = 1.
  Proof.
    intros Fl Fr Hlr. rewrite fraction_eq.
    pose proof (rnd_sub_pos lt rt Fl Fr Hlr) as Hb.
    unfold Rdiv. rewrite Rinv_r by lra. apply rnd_1.
  Qed.

  Lemma lerp_at_0 lhs rhs : fmt lhs -> lerp A 0 lhs rhs = lhs.
  Proof. intros F. rewrite lerp_eq, Rmult_0_l, rnd_0, Rplus_0_r. apply rnd_id, F. Qed.

  Lemma lerp_at_1 lhs rhs : fmt rhs -> fmt (rhs - lhs) -> lerp A 1 lhs rhs = rhs.
  Proof.
    intros F Fd. rewrite lerp_eq, (rnd_id _ Fd), Rmult_1_l, (rnd_id _ Fd).
    replace (lhs + (rhs - lhs)) with rhs by ring. apply rnd_id, F.
  Qed.

  (* non-increasing data (radius) *)
  Lemma lerp_range_dec f lhs rhs :
    fmt lhs -> fmt rhs -> fmt (rhs - lhs) -> rhs <= lhs -> 0 <= f <= 1 ->
    rhs <= lerp A f lhs rhs <= lhs.
  Proof.
    intros Fl Fr Fd Hd [F0 F1]. rewrite lerp_eq, (rnd_id _ Fd).
    assert (rhs - lhs <= f * (rhs - lhs) <= 0) as [P1 P2] by (split; nra).
    assert (rhs - lhs <= rnd (f * (rhs - lhs)) <= 0) as [Q1 Q2].
    { split; [apply rnd_le_l|apply rnd_le_r]; assumption. }
    split; [apply rnd_le_l|apply rnd_le_r]; try assumption; lra.
  Qed.

  (* non-decreasing data (Lorentz correction) *)
  Lemma lerp_range_inc f lhs rhs :
    fmt lhs -> fmt rhs -> fmt (rhs - lhs) -> lhs <= rhs -> 0 <= f <= 1 ->
    lhs <= lerp A f lhs rhs <= rhs.
  Proof.
    intros Fl Fr Fd Hd [F0 F1]. rewrite lerp_eq, (rnd_id _ Fd).
    assert (0 <= f * (rhs - lhs) <= rhs - lhs) as [P1 P2] by (split; nra).
    assert (0 <= rnd (f * (rhs - lhs)) <= rhs - lhs) as [Q1 Q2].
    { split; [apply rnd_le_l|apply rnd_le_r]; assumption. }
    split; [apply rnd_le_l|apply rnd_le_r]; try assumption; lra.
  Qed.

  Lemma lerp_mono_dec f1 f2 lhs rhs :
    rhs <= lhs -> f1 <= f2 -> lerp A f2 lhs rhs <= lerp A f1 lhs rhs.
  Proof.
    intros Hd H12. rewrite !lerp_eq. apply rnd_mono.
    assert (rnd (rhs - lhs) <= 0) as Hneg by (apply rnd_le_r; [exact fmt_0|lra]).
    apply Rplus_le_compat_l, rnd_mono. nra.
  Qed.

  (* ---------- one table ---------- *)
  Definition in_range (tb : list rknot) (t : R) : Prop :=
    rk_time (nth 0 tb d0) <= t <= rk_time (nth (length tb - 1) tb d0).

  (* facts about the bracket of an in-range time *)
  Lemma bracket_facts tb t :
    table_ok fmt tb -> in_range tb t ->
    let i := seg_index tb t in
    let lhs := nth (i - 1) tb d0 in let rhs := nth i tb d0 in
    (1 <= i)%nat /\ (i < length tb)%nat /\
    knot_fmt fmt lhs /\ knot_fmt fmt rhs /\ step_ok fmt lhs rhs /\
    rk_time lhs <= t <= rk_time rhs /\ 0 <= fraction_of A t (rk_time lhs) (rk_time rhs) <= 1.
  Proof.
    intros Hok Hin i lhs rhs.
    destruct (seg_index_spec tb t Hok Hin) as (Hi1 & Hi2 & Hb & _).
    fold i in Hi1, Hi2, Hb.
    assert (Fl : knot_fmt fmt lhs) by (apply table_knot_fmt; [exact Hok|lia]).
    assert (Fr : knot_fmt fmt rhs) by (apply table_knot_fmt; [exact Hok|lia]).
    assert (Hs : step_ok fmt lhs rhs).
    { unfold lhs, rhs. replace i with (S (i - 1)) at 2 by lia. apply table_step; [exact Hok|lia]. }
    split; [exact Hi1|]. split; [exact Hi2|]. split; [exact Fl|]. split; [exact Fr|].
    split; [exact Hs|]. split; [exact Hb|].
    apply fraction_range; [apply Fl|apply Fr|apply Hs|exact Hb].
  Qed.

  Lemma table_result_range m tb t r c :
    table_ok fmt tb -> table_at A m tb t = Ok (r, c) ->
    in_range tb t /\
    let i := seg_index tb t in
    rk_radius (nth i tb d0) <= r <= rk_radius (nth (i - 1) tb d0) /\
    rk_corr (nth (i - 1) tb d0) <= c <= rk_corr (nth i tb d0).
  Proof.
    intros Hok E.
    destruct (table_at_spec m tb t Hok) as [Hout Hin].
    assert (in_range tb t) as Hr.
    { unfold in_range.
      destruct (Rlt_or_le t (rk_time (nth 0 tb d0))) as [H|H]; [rewrite Hout in E by (left; exact H); discriminate|].
      destruct (Rlt_or_le (rk_time (nth (length tb - 1) tb d0)) t) as [H'|H'];
        [rewrite Hout in E by (right; exact H'); discriminate|]. split; assumption. }
    split; [exact Hr|]. destruct (Hin Hr) as [_ E']. rewrite E' in E. inv E.
    destruct (bracket_facts tb t Hok Hr) as (_ & _ & Fl & Fr & Hs & _ & Hf).
    destruct Fl as (_ & Flr & Flc). destruct Fr as (_ & Frr & Frc).
    destruct Hs as (_ & Hrd & Frd & Hcd & Fcd).
    cbn zeta. split.
    - apply lerp_range_dec; assumption.
    - apply lerp_range_inc; assumption.
  Qed.

  (* exact at every tabulated time *)
  Lemma seg_index_at_knot tb j :
    table_ok fmt tb -> (j < length tb)%nat ->
    seg_index tb (rk_time (nth j tb d0)) = if (S j <? length tb)%nat then S j else j.
  Proof.
    intros Hok Hj. set (t := rk_time (nth j tb d0)).
    assert (Hin : in_range tb t).
    { split; [apply (table_sorted_le tb 0 j)|apply (table_sorted_le tb j (length tb - 1))]; auto; lia. }
    destruct (seg_index_spec tb t Hok Hin) as (Hi1 & Hi2 & Hb & Hbelow & Hcase).
    set (i := seg_index tb t) in *.
    (* j < i: otherwise time_i <= time_j = t contradicts, unless i is the last *)
    destruct (Nat.ltb_spec (S j) (length tb)) as [Hlt|Hge].
    - (* not the last knot: i = S j *)
      destruct (Nat.lt_trichotomy i (S j)) as [H|[H|H]]; [|exact H|].
      + exfalso. destruct Hcase as [Hc|[Hc _]]; [|lia].
        assert (rk_time (nth i tb d0) <= t).
        { apply (table_sorted_le tb i j); auto; lia. } lra.
      + exfalso. pose proof (Hbelow (S j) H) as Hle.
        destruct (table_sorted tb j (S j) Hok) as (Hlt' & _); [lia|lia|]. fold t in Hlt'. lra.
    - (* the last knot *)
      assert (j = length tb - 1)%nat as -> by lia.
      destruct Hcase as [Hc|[Hc _]]; [|exact Hc].
      exfalso. assert (rk_time (nth i tb d0) <= t).
      { apply (table_sorted_le tb i (length tb - 1)); auto; lia. } lra.
  Qed.

  Lemma table_at_knot m tb j :
    table_ok fmt tb -> (j < length tb)%nat ->
    exists c, table_at A m tb (rk_time (nth j tb d0)) = Ok (rk_radius (nth j tb d0), c).
  Proof.
    intros Hok Hj. set (t := rk_time (nth j tb d0)).
    assert (Hin : in_range tb t).
    { split; [apply (table_sorted_le tb 0 j)|apply (table_sorted_le tb j (length tb - 1))]; auto; lia. }
    destruct (table_at_spec m tb t Hok) as [_ Hs]. destruct (Hs Hin) as [_ E]. rewrite E.
    pose proof (seg_index_at_knot tb j Hok Hj) as Hi. fold t in Hi. rewrite Hi.
    destruct (Nat.ltb_spec (S j) (length tb)) as [Hlt|Hge].
    - (* lhs is the knot: fraction 0 *)
      replace (S j - 1)%nat with j by lia. eexists. unfold interp. fold t.
      rewrite fraction_at_lhs, lerp_at_0; [reflexivity|]. apply (table_knot_fmt tb j Hok Hj).
    - (* last knot: rhs is the knot, fraction 1 *)
      assert (1 <= j)%nat by (destruct Hok as (Hn & _); lia).
      eexists. unfold interp. fold t.
      pose proof (table_step tb (j - 1) Hok) as Hst. replace (S (j - 1)) with j in Hst by lia.
      specialize (Hst Hj). destruct Hst as (Hlt & _ & Frd & _).
      rewrite fraction_at_rhs, lerp_at_1; [reflexivity| | | | |].
      + apply (table_knot_fmt tb j Hok Hj).
      + exact Frd.
      + apply (table_knot_fmt tb (j - 1) Hok). lia.
      + apply (table_knot_fmt tb j Hok Hj).
      + exact Hlt.
  Qed.

  (* the bracket moves right when t grows *)
  Lemma pos_nat_mono t1 t2 l j2 :
    t1 <= t2 -> pos_nat t2 l = Some j2 -> exists j1, pos_nat t1 l = Some j1 /\ (j1 <= j2)%nat.
  Proof.
    intros H12. revert j2. induction l as [|k l IH]; intros j2; cbn [pos_nat]; [discriminate|].
    destruct (Rlt_bool_spec t2 (rk_time k)) as [H2|H2].
    - intros E. inv E. destruct (Rlt_bool_spec t1 (rk_time k)); [eexists; split; [reflexivity|lia]|lra].
    - destruct (pos_nat t2 l) as [j|] eqn:E; cbn [option_map]; [|discriminate].
      intros E'. inv E'. destruct (Rlt_bool_spec t1 (rk_time k)); [eexists; split; [reflexivity|lia]|].
      destruct (IH j eq_refl) as (j1 & -> & Hle). eexists; split; [reflexivity|lia].
  Qed.

  Lemma seg_index_mono tb t1 t2 : t1 <= t2 -> (seg_index tb t1 <= seg_index tb t2)%nat.
  Proof.
    intros H12. unfold seg_index. destruct (pos_nat t2 tb) as [j2|] eqn:E2.
    - destruct (pos_nat_mono t1 t2 tb j2 H12 E2) as (j1 & -> & Hle). exact Hle.
    - destruct (pos_nat t1 tb) as [j1|] eqn:E1; [|lia].
      apply pos_nat_some in E1. lia.
  Qed.

  Lemma table_radius_monotone m tb t1 t2 r1 c1 r2 c2 :
    table_ok fmt tb -> t1 <= t2 ->
    table_at A m tb t1 = Ok (r1, c1) -> table_at A m tb t2 = Ok (r2, c2) -> r2 <= r1.
  Proof.
    intros Hok H12 E1 E2.
    destruct (table_result_range m tb t1 r1 c1 Hok E1) as (Hin1 & Hr1 & _).
    destruct (table_result_range m tb t2 r2 c2 Hok E2) as (Hin2 & Hr2 & _).
    cbn zeta in Hr1, Hr2.
    pose proof (seg_index_mono tb t1 t2 H12) as Hi.
    destruct (bracket_facts tb t2 Hok Hin2) as (Hi21 & Hi22 & Fl & Fr & Hs & Hb2 & _).
    destruct (Nat.eq_dec (seg_index tb t1) (seg_index tb t2)) as [Heq|Hne].
    - (* same segment: monotone rounding *)
      destruct (table_at_spec m tb t1 Hok) as [_ S1]. destruct (S1 Hin1) as [_ X1].
      destruct (table_at_spec m tb t2 Hok) as [_ S2]. destruct (S2 Hin2) as [_ X2].
      rewrite X1 in E1. rewrite X2 in E2. inv E1. inv E2. rewrite Heq.
      apply lerp_mono_dec; [apply Hs|].
      apply fraction_mono; [apply Fl|apply Fr|apply Hs|exact H12].
    - (* different segments: r2 <= radius lhs(t2) <= radius rhs(t1) <= r1 *)
      assert (rk_radius (nth (seg_index tb t2 - 1) tb d0) <= rk_radius (nth (seg_index tb t1) tb d0)).
      { apply (table_sorted_le tb (seg_index tb t1) (seg_index tb t2 - 1)); auto; lia. }
      lra.
  Qed.

  (* ---------- the slices ---------- *)
  Lemma find_is_slice ts z s : is_slice ts z s -> find_slice A ts (Rabs z) = Some s.
  Proof.
    intros (l1 & l2 & -> & Hle & Hall). unfold find_slice.
    induction l1 as [|a l1 IH]; cbn [app find].
    - change (f_le A (Rabs z) (snd s)) with (Rle_bool (Rabs z) (snd s)).
      rewrite Rle_bool_true by exact Hle. reflexivity.
    - inv Hall. change (f_le A (Rabs z) (snd a)) with (Rle_bool (Rabs z) (snd a)).
      rewrite Rle_bool_false by assumption. apply IH. assumption.
  Qed.

  Lemma is_slice_exists (ts : rtables) z :
    (exists s, In s ts /\ Rabs z <= snd s) -> exists s, is_slice ts z s.
  Proof.
    induction ts as [|a ts IH]; intros (s & Hin & Hle); [destruct Hin|].
    destruct (Rle_or_lt (Rabs z) (snd a)) as [H|H].
    - exists a, [], ts. repeat split; [exact H|constructor].
    - destruct Hin as [->|Hin]; [lra|].
      destruct IH as (s' & l1 & l2 & -> & Hle' & Hall); [exists s; auto|].
      exists s', (a :: l1), l2. repeat split; [exact Hle'|constructor; assumption].
  Qed.

  Lemma is_slice_unique ts z s s' : is_slice ts z s -> is_slice ts z s' -> s = s'.
  Proof.
    intros H H'. apply find_is_slice in H. apply find_is_slice in H'. congruence.
  Qed.

  Lemma bounds_sorted (ts : rtables) i j :
    adjP (fun a b : rslice => snd a < snd b) ts -> (i <= j)%nat -> (j < length ts)%nat ->
    snd (nth i ts ([], 0)) <= snd (nth j ts ([], 0)).
  Proof.
    intros H Hij Hj. destruct (Nat.eq_dec i j) as [->|Hne]; [lra|].
    apply Rlt_le. apply (adjP_nth (fun a b : rslice => snd a < snd b)); [intros; lra|exact H|lia|exact Hj].
  Qed.

  Lemma is_slice_le_zmax ts z s : tables_ok fmt ts -> is_slice ts z s -> Rabs z <= zmax ts.
  Proof.
    intros (Hne & _ & Hs) (l1 & l2 & -> & Hle & _).
    unfold zmax. rewrite last_nth.
    set (ts := l1 ++ s :: l2) in *.
    assert (s = nth (length l1) ts ([], 0)) as Hs'.
    { unfold ts. rewrite app_nth2 by lia. rewrite Nat.sub_diag. reflexivity. }
    assert (length ts = length l1 + S (length l2))%nat as Hlen by (unfold ts; rewrite app_length; reflexivity).
    eapply Rle_trans; [exact Hle|]. rewrite Hs' at 1. apply bounds_sorted; [exact Hs|lia|lia].
  Qed.

  Lemma tables_at_spec m ts z t :
    tables_ok fmt ts ->
    (zmax ts < Rabs z -> tables_at A m ts z t = Err ERR_Z) /\
    (forall s, is_slice ts z s -> tables_at A m ts z t = table_at A m (fst s) t).
  Proof.
    intros Hok. pose proof Hok as (Hne & _ & _).
    assert (Hlen : (1 <= length ts)%nat) by (destruct ts; [congruence|cbn [length]; lia]).
    assert (Hs : usub m 64 (lenN ts) 1 = Ok (N.of_nat (length ts - 1))).
    { rewrite usub_ok by (unfold lenN; lia). f_equal. unfold lenN. lia. }
    assert (Hl : idx ts (N.of_nat (length ts - 1)) = Ok (last ts ([], 0))).
    { rewrite last_nth. apply idx_nth. lia. }
    split.
    - intros Hz. unfold tables_at. rewrite Hs. cbn [bind]. rewrite Hl. cbn [bind].
      change (f_lt A (snd (last ts ([], 0))) (f_abs A z)) with (Rlt_bool (zmax ts) (Rabs z)).
      rewrite Rlt_bool_true by exact Hz. reflexivity.
    - intros s Hsl. pose proof (is_slice_le_zmax ts z s Hok Hsl) as Hz.
      unfold tables_at. rewrite Hs. cbn [bind]. rewrite Hl. cbn [bind].
      change (f_lt A (snd (last ts ([], 0))) (f_abs A z)) with (Rlt_bool (zmax ts) (Rabs z)).
      rewrite Rlt_bool_false by exact Hz.
      change (f_abs A z) with (Rabs z). rewrite (find_is_slice ts z s Hsl). reflexivity.
  Qed.

  Lemma zmax_slice_exists ts z : ts <> [] -> Rabs z <= zmax ts -> exists s, is_slice ts z s.
  Proof.
    intros Hne Hz. apply is_slice_exists. exists (last ts ([], 0)). split; [|exact Hz].
    destruct ts as [|a ts]; [congruence|]. apply (@exists_last _ (a :: ts)) in Hne.
    destruct Hne as (l' & x & ->). rewrite last_last. apply in_or_app. right. left. reflexivity.
  Qed.

  (* ---------- the theorems, for an abstract rounding ---------- *)
  Lemma hd_nth0 (l : list rknot) : hd d0 l = nth 0 l d0.
  Proof. destruct l; reflexivity. Qed.
  Lemma t_first_eq s : t_first s = rk_time (nth 0 (fst s) d0).
  Proof. unfold t_first. rewrite hd_nth0. reflexivity. Qed.
  Lemma t_last_eq s : t_last s = rk_time (nth (length (fst s) - 1) (fst s) d0).
  Proof. unfold t_last. rewrite last_nth. reflexivity. Qed.

  Lemma slice_table_ok ts z s : tables_ok fmt ts -> is_slice ts z s -> table_ok fmt (fst s).
  Proof.
    intros (_ & H & _) (l1 & l2 & -> & _). rewrite Forall_forall in H. apply H.
    apply in_or_app. right. left. reflexivity.
  Qed.

  (* trichotomy of outcomes *)
  Lemma lookup_outcome_gen m ts z t :
    tables_ok fmt ts ->
    (zmax ts < Rabs z /\ tables_at A m ts z t = Err ERR_Z) \/
    (exists s, is_slice ts z s /\
       (((t < t_first s \/ t_last s < t) /\ tables_at A m ts z t = Err ERR_TIME) \/
        (t_first s <= t <= t_last s /\
         tables_at A m ts z t =
           Ok (interp (nth (seg_index (fst s) t - 1) (fst s) d0) (nth (seg_index (fst s) t) (fst s) d0) t)))).
  Proof.
    intros Hok. destruct (tables_at_spec m ts z t Hok) as [Hz Hs].
    destruct (Rlt_or_le (zmax ts) (Rabs z)) as [H|H]; [left; split; [exact H|apply Hz, H]|].
    right. destruct (zmax_slice_exists ts z (proj1 Hok) H) as (s & Hsl).
    exists s. split; [exact Hsl|]. rewrite (Hs s Hsl).
    pose proof (slice_table_ok ts z s Hok Hsl) as Htb.
    destruct (table_at_spec m (fst s) t Htb) as [Hout Hin].
    rewrite t_first_eq, t_last_eq.
    destruct (Rlt_or_le t (rk_time (nth 0 (fst s) d0))) as [H1|H1];
      [left; split; [left; exact H1|apply Hout; left; exact H1]|].
    destruct (Rlt_or_le (rk_time (nth (length (fst s) - 1) (fst s) d0)) t) as [H2|H2];
      [left; split; [right; exact H2|apply Hout; right; exact H2]|].
    right. split; [split; assumption|]. apply Hin. split; assumption.
  Qed.

  Lemma err_kinds_differ : ERR_TIME <> ERR_Z. Proof. discriminate. Qed.

  Theorem lookup_ok_iff_gen m ts z t :
    tables_ok fmt ts ->
    ((exists r c, tables_at A m ts z t = Ok (r, c)) <->
     Rabs z <= zmax ts /\ exists s, is_slice ts z s /\ t_first s <= t <= t_last s).
  Proof.
    intros Hok. destruct (lookup_outcome_gen m ts z t Hok) as [[Hz E]|(s & Hsl & [[Ht E]|[Ht E]])]; rewrite E.
    - split; [intros (r & c & X); discriminate|]. intros [H _]. lra.
    - split; [intros (r & c & X); discriminate|]. intros [_ (s' & Hsl' & H)].
      rewrite <- (is_slice_unique ts z s s' Hsl Hsl') in H. lra.
    - split; [|intros _; eexists; eexists; unfold interp; reflexivity].
      intros _. split; [eapply is_slice_le_zmax; eauto|]. exists s. split; assumption.
  Qed.

  Theorem lookup_err_z_iff_gen m ts z t :
    tables_ok fmt ts -> (tables_at A m ts z t = Err ERR_Z <-> zmax ts < Rabs z).
  Proof.
    intros Hok. destruct (lookup_outcome_gen m ts z t Hok) as [[Hz E]|(s & Hsl & [[Ht E]|[Ht E]])]; rewrite E.
    - tauto.
    - pose proof (is_slice_le_zmax ts z s Hok Hsl). split; [intros X; inv X|lra].
    - pose proof (is_slice_le_zmax ts z s Hok Hsl). split; [discriminate|lra].
  Qed.

  Theorem lookup_err_time_iff_gen m ts z t :
    tables_ok fmt ts ->
    (tables_at A m ts z t = Err ERR_TIME <-> exists s, is_slice ts z s /\ (t < t_first s \/ t_last s < t)).
  Proof.
    intros Hok. destruct (lookup_outcome_gen m ts z t Hok) as [[Hz E]|(s & Hsl & [[Ht E]|[Ht E]])]; rewrite E.
    - split; [intros X; inv X|]. intros (s & Hsl & _). pose proof (is_slice_le_zmax ts z s Hok Hsl). lra.
    - split; [intros _; exists s; split; assumption|reflexivity].
    - split; [discriminate|]. intros (s' & Hsl' & H).
      rewrite <- (is_slice_unique ts z s s' Hsl Hsl') in H. lra.
  Qed.

  (* never a panic, and the checked and the wrapping build agree *)
  Theorem lookup_total_gen m ts z t : tables_ok fmt ts -> tables_at A m ts z t <> Panic.
  Proof.
    intros Hok. destruct (lookup_outcome_gen m ts z t Hok) as [[Hz E]|(s & Hsl & [[Ht E]|[Ht E]])];
      rewrite E; discriminate.
  Qed.

  Theorem lookup_no_wrap_gen ts z t :
    tables_ok fmt ts -> tables_at A Wrapping ts z t = tables_at A Checked ts z t.
  Proof.
    intros Hok.
    destruct (lookup_outcome_gen Checked ts z t Hok) as [[Hz E]|(s & Hsl & [[Ht E]|[Ht E]])]; rewrite E;
    destruct (lookup_outcome_gen Wrapping ts z t Hok) as [[Hz' E']|(s' & Hsl' & [[Ht' E']|[Ht' E']])]; rewrite E';
    try reflexivity;
    try (pose proof (is_slice_le_zmax ts z _ Hok Hsl); lra);
    try (pose proof (is_slice_le_zmax ts z _ Hok Hsl'); lra);
    try (rewrite <- (is_slice_unique ts z s s' Hsl Hsl') in *; lra).
    rewrite <- (is_slice_unique ts z s s' Hsl Hsl'). reflexivity.
  Qed.

  (* rhs_index >= 1 whenever the range test passed: `rhs_index - 1` cannot underflow *)
  Theorem no_underflow_index_gen m tb t :
    table_ok fmt tb -> in_range tb t ->
    exists i, rhs_index_of A m tb t = Ok i /\ (1 <= i)%N /\ (i < lenN tb)%N.
  Proof.
    intros Hok Hin. destruct (table_at_spec m tb t Hok) as [_ H]. destruct (H Hin) as [E _].
    destruct (seg_index_spec tb t Hok Hin) as (H1 & H2 & _).
    exists (N.of_nat (seg_index tb t)). split; [exact E|]. unfold lenN. lia.
  Qed.

  (* Ok results come from the slice's table *)
  Lemma lookup_ok_inv m ts z t r c :
    tables_ok fmt ts -> tables_at A m ts z t = Ok (r, c) ->
    exists s, is_slice ts z s /\ table_ok fmt (fst s) /\ table_at A m (fst s) t = Ok (r, c).
  Proof.
    intros Hok E. destruct (tables_at_spec m ts z t Hok) as [Hz Hs].
    destruct (Rlt_or_le (zmax ts) (Rabs z)) as [H|H]; [rewrite (Hz H) in E; discriminate|].
    destruct (zmax_slice_exists ts z (proj1 Hok) H) as (s & Hsl). exists s.
    split; [exact Hsl|]. split; [eapply slice_table_ok; eauto|]. rewrite <- (Hs s Hsl). exact E.
  Qed.

  Lemma table_extremes tb k :
    table_ok fmt tb -> In k tb ->
    rk_radius (nth (length tb - 1) tb d0) <= rk_radius k <= rk_radius (nth 0 tb d0) /\
    rk_corr (nth 0 tb d0) <= rk_corr k <= rk_corr (nth (length tb - 1) tb d0).
  Proof.
    intros Hok Hin. destruct (In_nth tb k d0 Hin) as (j & Hj & <-).
    destruct (table_sorted_le tb 0 j Hok) as (_ & A1 & A2); [lia|exact Hj|].
    destruct (table_sorted_le tb j (length tb - 1) Hok) as (_ & B1 & B2); [lia|lia|].
    repeat split; assumption.
  Qed.

  (* radius between the smallest and the largest radius tabulated for the slice *)
  Theorem radius_in_range_gen m ts z t r c s lo hi :
    tables_ok fmt ts -> is_slice ts z s -> tables_at A m ts z t = Ok (r, c) ->
    (forall k, In k (fst s) -> lo <= rk_radius k) -> (forall k, In k (fst s) -> rk_radius k <= hi) ->
    lo <= r <= hi.
  Proof.
    intros Hok Hsl E Hlo Hhi.
    destruct (lookup_ok_inv m ts z t r c Hok E) as (s' & Hsl' & Htb & E').
    rewrite <- (is_slice_unique ts z s s' Hsl Hsl') in *.
    destruct (table_result_range m (fst s) t r c Htb E') as (Hin & Hr & _). cbn zeta in Hr.
    destruct (bracket_facts (fst s) t Htb Hin) as (H1 & H2 & _).
    assert (In (nth (seg_index (fst s) t) (fst s) d0) (fst s)) as I1 by (apply nth_In; lia).
    assert (In (nth (seg_index (fst s) t - 1) (fst s) d0) (fst s)) as I2 by (apply nth_In; lia).
    specialize (Hlo _ I1). specialize (Hhi _ I2). lra.
  Qed.

  (* correction between 0 and the slice's largest tabulated correction *)
  Theorem lorentz_in_range_gen m ts z t r c s hi :
    tables_ok fmt ts -> is_slice ts z s -> tables_at A m ts z t = Ok (r, c) ->
    (forall k, In k (fst s) -> rk_corr k <= hi) ->
    0 <= c <= hi.
  Proof.
    intros Hok Hsl E Hhi.
    destruct (lookup_ok_inv m ts z t r c Hok E) as (s' & Hsl' & Htb & E').
    rewrite <- (is_slice_unique ts z s s' Hsl Hsl') in *.
    destruct (table_result_range m (fst s) t r c Htb E') as (Hin & _ & Hc). cbn zeta in Hc.
    destruct (bracket_facts (fst s) t Htb Hin) as (H1 & H2 & _).
    assert (In (nth (seg_index (fst s) t) (fst s) d0) (fst s)) as I1 by (apply nth_In; lia).
    assert (In (nth (seg_index (fst s) t - 1) (fst s) d0) (fst s)) as I2 by (apply nth_In; lia).
    destruct (table_extremes (fst s) _ Htb I2) as (_ & C0 & _).
    assert (rk_corr (nth 0 (fst s) d0) = 0) as Z0.
    { destruct Htb as (_ & Hz & _). rewrite hd_nth0 in Hz. exact Hz. }
    specialize (Hhi _ I1). lra.
  Qed.

  (* radius does not increase with drift time *)
  Theorem radius_monotone_gen m ts z t1 t2 r1 c1 r2 c2 :
    tables_ok fmt ts -> t1 <= t2 ->
    tables_at A m ts z t1 = Ok (r1, c1) -> tables_at A m ts z t2 = Ok (r2, c2) -> r2 <= r1.
  Proof.
    intros Hok H12 E1 E2.
    destruct (lookup_ok_inv m ts z t1 r1 c1 Hok E1) as (s & Hsl & Htb & E1').
    destruct (lookup_ok_inv m ts z t2 r2 c2 Hok E2) as (s' & Hsl' & _ & E2').
    rewrite <- (is_slice_unique ts z s s' Hsl Hsl') in *.
    eapply table_radius_monotone; eauto.
  Qed.

  (* the tabulated radius is reproduced exactly at every tabulated time *)
  Theorem radius_at_knots_gen m ts z s k :
    tables_ok fmt ts -> is_slice ts z s -> In k (fst s) ->
    exists c, tables_at A m ts z (rk_time k) = Ok (rk_radius k, c).
  Proof.
    intros Hok Hsl Hin. destruct (tables_at_spec m ts z (rk_time k) Hok) as [_ Hs].
    rewrite (Hs s Hsl). destruct (In_nth (fst s) k d0 Hin) as (j & Hj & <-).
    apply table_at_knot; [eapply slice_table_ok; eauto|exact Hj].
  Qed.

  (* only |z| is used *)
  Theorem z_symmetric_gen m ts z t : tables_at A m ts (- z) t = tables_at A m ts z t.
  Proof.
    unfold tables_at. change (f_abs A (- z)) with (Rabs (- z)). change (f_abs A z) with (Rabs z).
    rewrite Rabs_Ropp. reflexivity.
  Qed.

  (* the change between two lookups is bounded by the tabulated change over any knot interval
     [time_i, time_j] that contains both times *)
  Theorem step_bound_gen m ts z s i j t1 t2 r1 c1 r2 c2 :
    tables_ok fmt ts -> is_slice ts z s -> (i <= j)%nat -> (j < length (fst s))%nat ->
    rk_time (knot_at s i) <= t1 -> t1 <= t2 -> t2 <= rk_time (knot_at s j) ->
    tables_at A m ts z t1 = Ok (r1, c1) -> tables_at A m ts z t2 = Ok (r2, c2) ->
    0 <= r1 - r2 <= rk_radius (knot_at s i) - rk_radius (knot_at s j).
  Proof.
    intros Hok Hsl Hij Hj Hi1 H12 H2j E1 E2.
    assert (In (knot_at s i) (fst s)) as Ii by (apply nth_In; lia).
    assert (In (knot_at s j) (fst s)) as Ij by (apply nth_In; lia).
    destruct (radius_at_knots_gen m ts z s _ Hok Hsl Ii) as (ci & Ei).
    destruct (radius_at_knots_gen m ts z s _ Hok Hsl Ij) as (cj & Ej).
    pose proof (radius_monotone_gen m ts z _ _ _ _ _ _ Hok Hi1 Ei E1).
    pose proof (radius_monotone_gen m ts z _ _ _ _ _ _ Hok H12 E1 E2).
    pose proof (radius_monotone_gen m ts z _ _ _ _ _ _ Hok H2j E2 Ej).
    lra.
  Qed.

  (* the space point: r from the lookup, phi - correction, z unchanged *)
  Lemma space_point_eq m ts t phi z :
    space_point A m ts t phi z =
    match tables_at A m ts z t with
    | Ok rc => Ok (fst rc, rnd (phi - snd rc), z)
    | Err k => Err k
    | Panic => Panic
    end.
  Proof. unfold space_point, bind. destruct (tables_at A m ts z t); reflexivity. Qed.
End Rounded.
