(* Model of alpha_g_physics::reconstruction::track_finding::cluster_spacepoints
   (physics/src/reconstruction/track_finding.rs), line by line.  Definitions only.

   A point is the identifier of an `==`-class of SpacePoints (derived PartialEq on r, phi, z);
   the same class may occur several times in the input (duplicates matter).  The geometry is
   abstract: `bins p` is what `get_bins(p)` returns (a bin (theta_bin, rho_bin) is a `positive`),
   `near p q` is `p.distance(q) <= max_distance`.  In the correspondence check both are the
   tables logged from the implementation on the same case.

   IndexMap<(u32,u32), Vec<SpacePoint>> is represented by the list of its keys (newest first;
   `values` reverses it, so iteration is in insertion order) and a finite map key -> Vec.
   Keys are never removed by the code (emptied bins stay in the map). *)
From Coq Require Import FMapPositive Permutation.
From AG Require Import Base.Prelude Base.Res Recon.Vec.
Local Open Scope nat_scope.

Definition point := N.
Definition bin := positive.
Definition peqb (p q : point) : bool := N.eqb p q.

Record accum := { rkeys : list bin; tbl : PositiveMap.t (list point) }.

Definition acc_empty : accum := {| rkeys := []; tbl := PositiveMap.empty _ |}.      (* IndexMap::new()  :30 *)
Definition acc_get (a : accum) (b : bin) : list point :=
  match PositiveMap.find b (tbl a) with Some v => v | None => [] end.
(* accumulator.values() in insertion order *)
Definition acc_values (a : accum) : list (list point) := map (acc_get a) (rev_append (rkeys a) []).

Section Cluster.
  Variable bins : point -> list bin.
  Variable near : point -> point -> bool.

  (* self.accumulator.entry(bin).or_default().push(point)                                   :155 *)
  Definition entry_push (p : point) (a : accum) (b : bin) : accum :=
    match PositiveMap.find b (tbl a) with
    | Some v => {| rkeys := rkeys a; tbl := PositiveMap.add b (vpush v p) (tbl a) |}
    | None => {| rkeys := b :: rkeys a; tbl := PositiveMap.add b (vpush [] p) (tbl a) |}
    end.
  (* fn add                                                                                 :153-157 *)
  Definition acc_add (a : accum) (p : point) : accum := fold_left (entry_push p) (bins p) a.

  (* body of the loop of remove_unchecked                                                   :162-164 *)
  Definition remove_bin (p : point) (a : accum) (b : bin) : res accum :=
    do v <- unwrap (PositiveMap.find b (tbl a));            (* get_mut(&bin).unwrap() *)
    do pos <- unwrap (position (fun q => peqb q p) v);                (* position(|q| *q == point).unwrap() *)
    do '(_, v') <- swap_remove pos v;                       (* vec.swap_remove(pos) *)
    Ok {| rkeys := rkeys a; tbl := PositiveMap.add b v' (tbl a) |}.
  (* fn remove_unchecked                                                                    :160-166 *)
  Definition acc_remove (a : accum) (p : point) : res accum := fold_res (remove_bin p) a (bins p).

  (* fn most_popular: values().max_by_key(|v| v.len()).cloned().unwrap_or_default()         :169-175 *)
  Definition most_popular (a : accum) : list point :=
    unwrap_or_nil (max_by_key (@length point) (acc_values a)).

  (* ---- fn largest_cluster                                                                :190-214 *)
  (* while j < points.len() { if cluster[i].distance(points[j]) <= max { cluster.push(points.swap_remove(j)) }
     else { j += 1 } }                                                                      :198-204
     `ci` is cluster[i]: pushes go to the end of `cluster` and i < cluster.len() holds in the
     enclosing loop, so the element read at :199 is the one read once by flood_i. *)
  Fixpoint flood_j_idx (fuel : nat) (ci : point) (cluster points : list point) (j : nat)
    : res (list point * list point) :=
    match fuel with
    | O => Err E_fuel
    | S f =>
        if j <? length points then
          do pj <- idx points j;
          if near ci pj then
            do '(x, points') <- swap_remove j points;
            flood_j_idx f ci (vpush cluster x) points' j
          else flood_j_idx f ci cluster points (S j)
        else Ok (cluster, points)
    end.
  (* The same loop on a zipper, used by the executable model (the index form costs O(len) per step):
     points = rev pre_rev ++ suf and j = length pre_rev.  Cluster_proofs.flood_jz_index proves
       flood_jz fuel ci cluster pre_rev suf = flood_j_idx fuel ci cluster (rev pre_rev ++ suf) (length pre_rev),
     outcome for outcome, with the same fuel. *)
  Fixpoint flood_jz (fuel : nat) (ci : point) (cluster pre_rev suf : list point)
    : res (list point * list point) :=
    match fuel with
    | O => Err E_fuel
    | S f =>
        match suf with
        | [] => Ok (cluster, rev_append pre_rev [])                         (* j = points.len() *)
        | pj :: suf' =>
            if near ci pj then
              match vpop suf' with
              | None => flood_jz f ci (vpush cluster pj) pre_rev []         (* j was the last index *)
              | Some (l, y) => flood_jz f ci (vpush cluster pj) pre_rev (y :: l)  (* the last element moves to j *)
              end
            else flood_jz f ci cluster (pj :: pre_rev) suf'                 (* j += 1 *)
        end
    end.
  Definition flood_j (fuel : nat) (ci : point) (cluster points : list point) :=   (* let mut j = 0; while ... *)
    flood_jz fuel ci cluster [] points.
  (* while i < cluster.len() { let mut j = 0; ...; i += 1 }                                 :196-206 *)
  Fixpoint flood_i (fuel : nat) (cluster points : list point) (i : nat)
    : res (list point * list point) :=
    match fuel with
    | O => Err E_fuel
    | S f =>
        if i <? length cluster then
          do ci <- idx cluster i;
          do '(cluster', points') <- flood_j (S (length points)) ci cluster points;
          flood_i f cluster' points' (S i)
        else Ok (cluster, points)
    end.
  (* while let Some(point) = points.pop() { let mut cluster = vec![point]; ...; clusters.push(cluster) }  :193-208 *)
  Fixpoint flood_all (fuel : nat) (points : list point) (clusters : list (list point))
    : res (list (list point)) :=
    match fuel with
    | O => Err E_fuel
    | S f =>
        match vpop points with
        | None => Ok clusters
        | Some (points', p) =>
            do '(cluster, points'') <- flood_i (S (S (length points'))) [p] points' 0;
            flood_all f points'' (vpush clusters cluster)
        end
    end.
  Definition largest_cluster (points : list point) : res (list point) :=
    do cs <- flood_all (S (length points)) points [];
    Ok (unwrap_or_nil (max_by_key (@length point) cs)).      (* max_by_key(|c| c.len()).unwrap_or_default()  :210-213 *)

  (* ---- fn best_cluster                                                                   :40-63 *)
  Fixpoint best_cluster (fuel : nat) (a : accum) (prev_best : list point) : res (accum * list point) :=
    match fuel with
    | O => Err E_fuel
    | S f =>
        do best <- largest_cluster (most_popular a);                  (* :47 *)
        if length best <=? length prev_best then Ok (a, prev_best)    (* :48-50, :62 *)
        else
          do a1 <- fold_res acc_remove a best;                        (* :52-54 *)
          let a2 := fold_left acc_add prev_best a1 in                 (* :55-57 *)
          best_cluster f a2 best                                      (* :59 *)
    end.

  (* loop { let cluster = best_cluster(..); if cluster.len() < min { break } clusters.push(Cluster(cluster)) }  :66-73 *)
  Fixpoint outer_loop (fuel bfuel : nat) (min_points : nat) (a : accum) (clusters : list (list point))
    : res (list (list point)) :=
    match fuel with
    | O => Err E_fuel
    | S f =>
        do '(a', cluster) <- best_cluster bfuel a [];
        if length cluster <? min_points then Ok clusters
        else outer_loop f bfuel min_points a' (vpush clusters cluster)
    end.

  (* for &point in clusters.iter().flatten() { let index = sp.iter().position(|&p| p == point).unwrap();
     sp.swap_remove(index); }                                                               :75-80 *)
  Definition remainder_step (sp : list point) (p : point) : res (list point) :=
    do i <- unwrap (position (fun q => peqb q p) sp);
    do '(_, sp') <- swap_remove i sp;
    Ok sp'.

  (* fn cluster_spacepoints                                                                 :20-86 *)
  Definition cluster_spacepoints (fuel : nat) (min_points : nat) (sp : list point)
    : res (list (list point) * list point) :=
    let a := fold_left acc_add sp acc_empty in                        (* :32-34 *)
    do clusters <- outer_loop fuel fuel min_points a [];
    do rem <- fold_res remainder_step sp (concat clusters);
    Ok (clusters, rem).
End Cluster.

(* ---- specification vocabulary (independent of the algorithm) ---- *)
Section Spec.
  Variable near : point -> point -> bool.
  (* single linkage: two points are linked when one is within max_distance of the other
     (`near` need not be symmetric for the theorems; the measured relation is) *)
  Definition link (x y : point) : Prop := near x y = true \/ near y x = true.
  (* x and y are joined by a chain of links through points of c *)
  Inductive conn (c : list point) : point -> point -> Prop :=
  | conn_refl x : In x c -> conn c x x
  | conn_step x y z : conn c x y -> In z c -> link y z -> conn c x z.
  Definition connected (c : list point) : Prop := forall x y, In x c -> In y c -> conn c x y.
End Spec.

(* the invariant of the accumulator: every bin holds exactly the live points that vote for it, with
   multiplicity (live = points added and not removed since) *)
Section AccSpec.
  Variable bins : point -> list bin.
  Definition votes (b : bin) (p : point) : bool := existsb (Pos.eqb b) (bins p).
  Definition Acc_inv (live : list point) (a : accum) : Prop :=
    forall b, Permutation (acc_get a b) (filter (votes b) live).
End AccSpec.

(* reconstruction.rs:63-78: the public wrapper fixes min_num_points_per_cluster = 13
   (250 x 230 Hough bins and 3 cm are inside `bins` and `near`) *)
Definition MIN_POINTS : nat := 13.
Definition cluster_spacepoints_pub bins near (sp : list point) :=
  cluster_spacepoints bins near (S (length sp)) MIN_POINTS sp.
