(* Model of HoughSpaceAccumulator::get_bins (physics/src/reconstruction/track_finding.rs:119-151),
   line by line.  Definitions only (proofs: Recon/Bins_proofs.v, pins: Recon/Bins_pins.v).

   The float part (conformal coordinates, delta_theta, delta_rho, sin_cos, `floor() as i32`) is ABSTRACT:
   `rho_bin : N -> Z` gives, for theta_bin = 0, the value of prev_rho_bin before the loop (:130) and,
   for theta_bin in 1..=theta_bins, the value of `rho_bin` computed in that iteration (:132-135).  Nothing is
   assumed about it (any i32 sequence, in fact any integer sequence).  What is modelled is the integer
   control structure: the sign test, min/max, the inclusive range and the i32 -> u32 conversion. *)
From AG Require Import Base.Prelude Base.Res Recon.Vec.
Local Open Scope Z_scope.

(* i32::is_negative *)
Definition is_negative (z : Z) : bool := z <? 0.

(* `bin.try_into().unwrap()` with bin : i32 and target u32: TryFrom<i32> for u32 fails exactly on negative
   values, the unwrap then panics                                                            :144 *)
Definition i32_try_into_u32_unwrap (z : Z) : res N := if z <? 0 then Panic else Ok (Z.to_N z).

(* number of iterations of the RangeInclusive<i32> `lo..=hi` (empty when hi < lo) *)
Definition range_count (lo hi : Z) : nat := Z.to_nat (hi - lo + 1).

(* for bin in lo..=hi { bins.push((th, bin.try_into().unwrap())) }                         :143-145
   `cnt` = iterations left, `bin` = current value of the loop variable *)
Fixpoint push_range (th : N) (bin : Z) (cnt : nat) (bins : list (N * N)) : res (list (N * N)) :=
  match cnt with
  | O => Ok bins
  | S c =>
      do b <- i32_try_into_u32_unwrap bin;
      push_range th (bin + 1) c (vpush bins (th, b))
  end.

Section GetBins.
  Variable rho_bin : N -> Z.

  (* body of `for theta_bin in 1..=self.theta_bins`                                          :132-147 *)
  Definition theta_step (theta_bin : N) (prev_rho_bin : Z) (bins : list (N * N)) : res (Z * list (N * N)) :=
    let rb := rho_bin theta_bin in                                             (* :132-135, abstract *)
    if negb (is_negative rb) || negb (is_negative prev_rho_bin) then           (* :140 *)
      let min_bin := Z.min prev_rho_bin rb in                                  (* :141 *)
      let max_bin := Z.max prev_rho_bin rb in                                  (* :142 *)
      do th <- usub Checked 32 theta_bin 1;                                    (* theta_bin - 1 (u32)  :144 *)
      let lo := Z.max min_bin 0 in                                             (* min_bin.max(0)  :143 *)
      do bins' <- push_range th lo (range_count lo max_bin) bins;              (* :143-145 *)
      Ok (rb, bins')                                                           (* prev_rho_bin = rho_bin  :147 *)
    else Ok (rb, bins).

  (* for theta_bin in 1..=self.theta_bins: `cnt` iterations left, starting at `theta_bin`    :131 *)
  Fixpoint theta_loop (cnt : nat) (theta_bin : N) (prev_rho_bin : Z) (bins : list (N * N))
    : res (list (N * N)) :=
    match cnt with
    | O => Ok bins                                                             (* :150 *)
    | S c =>
        do '(prev', bins') <- theta_step theta_bin prev_rho_bin bins;
        theta_loop c (theta_bin + 1)%N prev' bins'
    end.

  (* fn get_bins, panic-aware                                                                :119-151 *)
  Definition get_bins_res (theta_bins : N) : res (list (N * N)) :=
    theta_loop (N.to_nat theta_bins) 1%N (rho_bin 0%N) [].                     (* :126, :130, :131 *)
End GetBins.

(* the value returned (Bins_proofs.get_bins_res_ok: get_bins_res is always Ok of this) *)
Definition get_bins_model (theta_bins : N) (rho_bin : N -> Z) : list (N * N) :=
  match get_bins_res rho_bin theta_bins with Ok l => l | _ => [] end.

(* ---- closed form (specification vocabulary, independent of the loops) ---- *)
(* lo, lo+1, ..., lo+cnt-1 *)
Definition zrange (lo : Z) (cnt : nat) : list Z := map (fun i => lo + Z.of_nat i) (seq 0 cnt).
(* the votes with theta index k (= theta_bin - 1): every rho from max(min(a, b), 0) to max(a, b), where
   a, b are the rho bins at the two edges k, k+1 of the theta bin; none when both are negative *)
Definition votes_ab (k : N) (a b : Z) : list (N * N) :=
  if (0 <=? b) || (0 <=? a) then
    map (fun z => (k, Z.to_N z)) (zrange (Z.max (Z.min a b) 0) (range_count (Z.max (Z.min a b) 0) (Z.max a b)))
  else [].
Definition theta_votes (rho_bin : N -> Z) (k : N) : list (N * N) :=
  votes_ab k (rho_bin k) (rho_bin (k + 1)%N).
Definition nrange (cnt : nat) : list N := map N.of_nat (seq 0 cnt).
Definition get_bins_spec (theta_bins : N) (rho_bin : N -> Z) : list (N * N) :=
  flat_map (theta_votes rho_bin) (nrange (N.to_nat theta_bins)).

(* ---- the bins as the `positive` names used by Recon/Cluster.v ----
   (theta, rho) |-> 1 + rho * theta_bins + theta: injective on theta < theta_bins *)
Definition bin_code (theta_bins : N) (b : N * N) : positive :=
  N.succ_pos (snd b * theta_bins + fst b)%N.
Definition bins_of (theta_bins : N) (rho_bin : N -> Z) : list positive :=
  map (bin_code theta_bins) (get_bins_model theta_bins rho_bin).
