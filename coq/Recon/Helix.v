(* Executable, bit-exact model (IEEE binary64 = Coq primitive floats) of
     alpha_g_physics::reconstruction::{Helix::at, Helix::closest_t, angle_between_vectors,
     Helix::closest_to_beamline, Helix::arc_length}               (physics/src/reconstruction.rs)
     SpacePoint::{x, y}                                            (physics/src/lib.rs)
   Every operation is written in the order the Rust code (with uom 0.35, feature autoconvert) performs it.
   The transcendental functions are the fields of a record `libm` passed as an ordinary argument;
   the OCaml runner passes glibc's, which is what Rust's f64 methods call.  Definitions only. *)
From Coq Require Import PrimFloat.
From AG Require Import Base.Prelude.
Local Open Scope float_scope.

Record libm := {
  lsin : float -> float;            (* f64::sin   -> libm sin   *)
  lcos : float -> float;            (* f64::cos   -> libm cos   *)
  latan2 : float -> float -> float; (* f64::atan2(y, x) -> libm atan2 *)
  lhypot : float -> float -> float; (* f64::hypot -> libm hypot *)
  lfloor : float -> float           (* f64::floor *)
}.

(* ---- uom 0.35: a quantity is an f64 in SI base units; meter, radian, ratio have coefficient 1, constant 0 ---- *)
(* Quantity::new::<N>(v) = to_base(v) = (v + n_cons) * (n_coef / f)  with n_coef = f = 1.0 (src/system.rs `to_base`,
   branch n_coef >= f) and n_cons = N::constant(ConstantOp::Add) = -0.0 (src/unit.rs:289-293: the additive constant
   is NEGATIVE zero so that the sign of a zero argument survives: -0.0 + -0.0 = -0.0, +0.0 + -0.0 = +0.0). *)
Definition q_new (v : float) : float := (v + neg_zero) * (1 / 1).
(* Quantity::get::<N>() = from_base(v) = v / (n_coef / f) - n_cons   (branch not (n_coef < f)),
   n_cons = N::constant(ConstantOp::Sub) = +0.0 *)
Definition q_get (v : float) : float := v / (1 / 1) - 0.
(* change_base (autoconvert: applied to the right operand of + - hypot partial_cmp):
   v * (1.0.powi(k) / 1.0.powi(k)) : the identity on every non-NaN value, NaN stays NaN; left out. *)

Definition PI : float := 0x1.921fb54442d18p+1.        (* std::f64::consts::PI = Angle::HALF_TURN *)
Definition TWO_PI : float := 2 * PI.                   (* Angle::FULL_TURN = 2. * PI ; also `2.0 * PI` *)
Definition EPS : float := 0x1p-52.                     (* f64::EPSILON *)

Record helix := { hx0 : float; hy0 : float; hz0 : float; hr : float; hphi0 : float; hh : float }.
Record spoint := { sp_r : float; sp_phi : float; sp_z : float }.

(* reconstruction.rs:364 verif_helix: every parameter goes through Length::new::<meter> / Angle::new::<radian> *)
Definition mk_helix (x0 y0 z0 r phi0 h : float) : helix :=
  {| hx0 := q_new x0; hy0 := q_new y0; hz0 := q_new z0; hr := q_new r; hphi0 := q_new phi0; hh := q_new h |}.
(* the harness builds SpacePoint { r: Length::new::<meter>(r), phi: Angle::new::<radian>(phi), z: Length::new::<meter>(z) } *)
Definition mk_spoint (r phi z : float) : spoint := {| sp_r := q_new r; sp_phi := q_new phi; sp_z := q_new z |}.

Definition sp_x (L : libm) (p : spoint) : float := sp_r p * lcos L (sp_phi p).   (* lib.rs:132 *)
Definition sp_y (L : libm) (p : spoint) : float := sp_r p * lsin L (sp_phi p).   (* lib.rs:136 *)

(* reconstruction.rs:127 Helix::at *)
Definition helix_at (L : libm) (H : helix) (t : float) : float * float * float :=
  let t := q_new t in                                               (* :128 Angle::new::<radian>(t) *)
  (hr H * lcos L (t + hphi0 H) + hx0 H,                             (* :131 *)
   hr H * lsin L (t + hphi0 H) + hy0 H,                             (* :132 *)
   (hh H / TWO_PI) * t + hz0 H).                                    (* :133 *)

(* reconstruction.rs:118 angle_between_vectors; Quantity::atan2 = Angle::new::<radian>(y.atan2(x)) *)
Definition angle_between (L : libm) (v1x v1y v2x v2y : float) : float :=
  let dot := v1x * v2x + v1y * v2y in                               (* :119 *)
  let det := v1x * v2y - v1y * v2x in                               (* :120 *)
  q_new (latan2 L det dot).                                         (* :123 *)

(* f64::clamp(self, min, max): assert!(min <= max) (holds for -PI, PI);
   if self < min { min } else if self > max { max } else { self }  — NaN stays NaN *)
Definition clamp (x lo hi : float) : float :=
  if x <? lo then lo else if hi <? x then hi else x.

(* :185 f(E, e, M) = E - e*sin(E) - M ; :188 df(E, e) = 1 - e*cos(E) *)
Definition kep_f (L : libm) (E e M : float) : float := E - e * lsin L E - M.
Definition kep_df (L : libm) (E e : float) : float := q_new 1 - e * lcos L E.

(* :197-203  for _ in 0..max_num_iter { E -= f/df; if |f(E)| < tolerance { break } } *)
Fixpoint newton (L : libm) (iters : nat) (E e M tol : float) : float :=
  match iters with
  | O => E
  | S k =>
      let E' := E - kep_f L E e M / kep_df L E e in                 (* :198 *)
      if abs (kep_f L E' e M) <? tol then E'                        (* :200 *)
      else newton L k E' e M tol
  end.

(* intermediate values of the Kepler branch (also used by the theorems about the skeleton) *)
Record kepler := { kf_r : float; kf_delta : float; kf_temp : float; kf_n : float; kf_M : float; kf_e : float;
                   kf_E0 : float }.
Definition kepler_setup (L : libm) (H : helix) (p : spoint) : kepler :=
  let u := sp_x L p in                                              (* :172 *)
  let v := sp_y L p in                                              (* :173 *)
  let r := lhypot L (u - hx0 H) (v - hy0 H) in                      (* :174 *)
  let delta := q_new (latan2 L (v - hy0 H) (u - hx0 H)) in          (* :175 *)
  let temp := hphi0 H + (TWO_PI * (sp_z p - hz0 H)) / hh H - delta in   (* :177 *)
  let n := q_new (lfloor L (q_get (temp / TWO_PI))) in              (* :178 floor::<ratio>() = new(get().floor()) *)
  let M := PI + TWO_PI * n - temp in                                (* :180 *)
  let e := 4 * (PI * PI) * r * hr H / (hh H * hh H) in              (* :181 powi(2) = x*x *)
  let E0 := if M <? q_new 0 then - PI else PI in                    (* :192 *)
  {| kf_r := r; kf_delta := delta; kf_temp := temp; kf_n := n; kf_M := M; kf_e := e; kf_E0 := E0 |}.

(* reconstruction.rs:153 Helix::closest_t *)
Definition closest_t (L : libm) (H : helix) (p : spoint) (tolerance : float) (max_num_iter : nat) : float :=
  if abs (hh H) <? q_new EPS then                                   (* :159 *)
    let '(cx, cy, _) := helix_at L H 0 in                           (* :160 *)
    q_get (angle_between L (cx - hx0 H) (cy - hy0 H)                (* :161-166 *)
                           (sp_x L p - hx0 H) (sp_y L p - hy0 H))
  else
    let tol := q_new (abs tolerance) in                             (* :170 *)
    let K := kepler_setup L H p in
    let E := newton L max_num_iter (kf_E0 K) (kf_e K) (kf_M K) tol in
    let t := PI - E + TWO_PI * kf_n K - hphi0 H + kf_delta K in       (* :205 *)
    clamp (q_get t) (- PI) PI.                                      (* :211 *)

(* reconstruction.rs:214 closest_to_beamline *)
Definition closest_to_beamline (L : libm) (H : helix) : float * float * float :=
  let '(cx, cy, _) := helix_at L H 0 in
  let t := q_get (angle_between L (cx - hx0 H) (cy - hy0 H) (- hx0 H) (- hy0 H)) in
  helix_at L H t.

(* reconstruction.rs:222 arc_length *)
Definition arc_length (L : libm) (H : helix) (t1 t2 : float) : float :=
  let delta_t := abs (t2 - t1) in
  let s := hr H * delta_t in
  let '(_, _, z2) := helix_at L H t2 in
  let '(_, _, z1) := helix_at L H t1 in
  lhypot L s (abs (z2 - z1)).

(* what the runner prints for one case (all through the hooks verif_helix_closest_t / verif_helix_at):
   t = closest_t, at(t), at(tq) *)
Definition c16_obs (L : libm) (x0 y0 z0 r phi0 h pr pphi pz tol : float) (iters : nat) (tq : float)
  : float * (float * float * float) * (float * float * float) :=
  let H := mk_helix x0 y0 z0 r phi0 h in
  let p := mk_spoint pr pphi pz in
  let t := closest_t L H p tol iters in
  (t, helix_at L H t, helix_at L H tq).
