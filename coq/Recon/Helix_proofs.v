(* Proofs about the float skeleton of Helix::closest_t (coq/Recon/Helix.v). *)
From Coq Require Import PrimFloat.
From AG Require Import Base.Prelude Recon.Helix.

(* ---- f64::clamp over an abstract ordered carrier with NaN ---- *)
Section ClampRange.
  Variable F : Type.
  Variables (fltb fleb : F -> F -> bool) (fnan : F -> bool) (lo hi : F).
  Definition clampF (x : F) : F := if fltb x lo then lo else if fltb hi x then hi else x.
  Definition in_rangeF (x : F) : bool := fleb lo x && fleb x hi.
  (* IEEE comparison laws used: for comparable (non-NaN) operands, not (x < y) gives y <= x *)
  Hypothesis nlt_le : forall x y, fnan x = false -> fnan y = false -> fltb x y = false -> fleb y x = true.
  Hypothesis lo_le_hi : fleb lo hi = true.
  Hypothesis lo_refl : fleb lo lo = true.
  Hypothesis hi_refl : fleb hi hi = true.
  Hypothesis lo_num : fnan lo = false.
  Hypothesis hi_num : fnan hi = false.

  Lemma clampF_range : forall x, fnan x = true \/ in_rangeF (clampF x) = true.
  Proof.
    intros x. destruct (fnan x) eqn:Nx; [now left | right].
    unfold clampF, in_rangeF.
    destruct (fltb x lo) eqn:E1.
    - now rewrite lo_refl, lo_le_hi.
    - destruct (fltb hi x) eqn:E2.
      + now rewrite lo_le_hi, hi_refl.
      + rewrite (nlt_le x lo Nx lo_num E1), (nlt_le hi x hi_num Nx E2). reflexivity.
  Qed.

  Lemma clampF_nan : forall x, fnan x = true -> (forall y, fnan x = true -> fltb x y = false) ->
    (forall y, fnan x = true -> fltb y x = false) -> clampF x = x.
  Proof. intros x Nx H1 H2. unfold clampF. now rewrite (H1 lo Nx), (H2 hi Nx). Qed.
End ClampRange.
