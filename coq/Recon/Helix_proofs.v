(* Proofs about the float skeleton of Helix::closest_t (coq/Recon/Helix.v). *)
From Coq Require Import ZArith Reals Floats SpecFloat Lra Lia.
From Flocq Require Import Core BinarySingleNaN PrimFloat.
From AG Require Import Base.Prelude Recon.Helix.


(* ---------------------------------------------------------------------------------------------
   binary64 (Coq primitive floats, linked to Flocq's binary_float by the standard FloatAxioms):
   the value returned by closest_t is NaN or lies in [-pi, pi]
   --------------------------------------------------------------------------------------------- *)
Local Open Scope float_scope.
Local Existing Instance Hprec.
Local Existing Instance Hmax.

Definition fin (x : PrimFloat.float) : Prop := is_finite (Prim2B x) = true.
Definition R_of (x : PrimFloat.float) : R := B2R (Prim2B x).

Lemma Prim2B_zero : Prim2B 0 = B754_zero false.
Proof. change 0 with zero. rewrite zero_equiv. apply Prim2B_B2Prim. Qed.
Lemma Prim2B_neg_zero : Prim2B neg_zero = B754_zero true.
Proof. rewrite neg_zero_equiv. apply Prim2B_B2Prim. Qed.
Lemma Prim2B_one : Prim2B 1 = Bone.
Proof. change 1 with one. rewrite one_equiv. apply Prim2B_B2Prim. Qed.

Lemma round_B2R (b : binary_float prec emax) :
  round radix2 (fexp prec emax) (round_mode mode_NE) (B2R b) = B2R b.
Proof. apply round_generic; [apply valid_rnd_round_mode | apply generic_format_B2R]. Qed.

Lemma add0 x : fin x -> fin (x + neg_zero) /\ R_of (x + neg_zero) = R_of x.
Proof.
  unfold fin, R_of. intros Hx. rewrite add_equiv, Prim2B_neg_zero.
  generalize (Bplus_correct prec emax _ _ mode_NE (Prim2B x) (B754_zero true) Hx eq_refl).
  cbn [B2R]. rewrite Rplus_0_r, round_B2R, Rlt_bool_true by apply abs_B2R_lt_emax.
  intros (A & B & _). auto.
Qed.
Lemma sub0 x : fin x -> fin (x - 0) /\ R_of (x - 0) = R_of x.
Proof.
  unfold fin, R_of. intros Hx. rewrite sub_equiv, Prim2B_zero.
  generalize (Bminus_correct prec emax _ _ mode_NE (Prim2B x) (B754_zero false) Hx eq_refl).
  cbn [B2R]. rewrite Rminus_0_r, round_B2R, Rlt_bool_true by apply abs_B2R_lt_emax.
  intros (A & B & _). auto.
Qed.
Lemma mul1 x : fin x -> fin (x * 1) /\ R_of (x * 1) = R_of x.
Proof.
  unfold fin, R_of. intros Hx. rewrite mul_equiv, Prim2B_one.
  generalize (Bmult_correct prec emax _ _ mode_NE (Prim2B x) Bone).
  rewrite Bone_correct, Rmult_1_r, round_B2R, Rlt_bool_true by apply abs_B2R_lt_emax.
  rewrite Hx, is_finite_Bone. intros (A & B & _). auto.
Qed.
Lemma div1 x : fin x -> fin (x / 1) /\ R_of (x / 1) = R_of x.
Proof.
  unfold fin, R_of. intros Hx. rewrite div_equiv, Prim2B_one.
  assert (N1 : B2R (@Bone prec emax _ _) <> 0%R) by (rewrite Bone_correct; lra).
  generalize (Bdiv_correct prec emax _ _ mode_NE (Prim2B x) Bone N1).
  replace (B2R (Prim2B x) / B2R (@Bone prec emax _ _))%R with (B2R (Prim2B x)) by (rewrite Bone_correct; field).
  rewrite round_B2R, Rlt_bool_true by apply abs_B2R_lt_emax.
  rewrite Hx. intros (A & B & _). auto.
Qed.
Lemma one_one : (1 / 1 = 1)%float. Proof. reflexivity. Qed.
Lemma conv_id x : fin x -> fin (q_get (q_new x)) /\ R_of (q_get (q_new x)) = R_of x.
Proof.
  intros Hx. unfold q_get, q_new. rewrite one_one.
  destruct (add0 x Hx) as [F1 R1]. destruct (mul1 _ F1) as [F2 R2].
  destruct (div1 _ F2) as [F3 R3]. destruct (sub0 _ F3) as [F4 R4].
  split; [assumption | congruence].
Qed.

Definition rn (x : PrimFloat.float) : Prop :=
  PrimFloat.is_nan x = true \/ ((- PI <=? x) = true /\ (x <=? PI) = true).

Lemma fin_SF x : fin x <-> is_finite_SF (Prim2SF x) = true.
Proof. unfold fin. now rewrite <- is_finite_SF_B2SF, B2SF_Prim2B. Qed.
Lemma fin_PI : fin PI. Proof. apply fin_SF. reflexivity. Qed.
Lemma fin_mPI : fin (- PI). Proof. apply fin_SF. reflexivity. Qed.

Lemma range_fin x : (- PI <=? x) = true -> (x <=? PI) = true -> fin x.
Proof.
  intros H1 H2. apply fin_SF. rewrite leb_spec in H1, H2.
  destruct (Prim2SF x) as [s | s | | s m e]; try reflexivity.
  - destruct s; vm_compute in H1, H2; discriminate.
  - vm_compute in H1. discriminate.
Qed.

Lemma leb_R x y : fin x -> fin y -> (x <=? y) = Rle_bool (R_of x) (R_of y).
Proof. intros Hx Hy. rewrite leb_equiv. apply Bleb_correct; assumption. Qed.

Lemma rn_transfer a b : fin a -> fin b -> R_of b = R_of a ->
  (- PI <=? a) = true -> (a <=? PI) = true -> rn b.
Proof.
  intros Fa Fb E H1 H2. right.
  rewrite (leb_R _ _ fin_mPI Fb), (leb_R _ _ Fb fin_PI), E.
  rewrite <- (leb_R _ _ fin_mPI Fa), <- (leb_R _ _ Fa fin_PI). auto.
Qed.

Lemma nan_B x : PrimFloat.is_nan x = true -> Prim2B x = B754_nan.
Proof. rewrite is_nan_equiv. destruct (Prim2B x); try discriminate. reflexivity. Qed.
Lemma nan_add x y : PrimFloat.is_nan x = true -> PrimFloat.is_nan (x + y) = true.
Proof. intros H. rewrite is_nan_equiv, add_equiv, (nan_B x H). reflexivity. Qed.
Lemma nan_sub x y : PrimFloat.is_nan x = true -> PrimFloat.is_nan (x - y) = true.
Proof. intros H. rewrite is_nan_equiv, sub_equiv, (nan_B x H). reflexivity. Qed.
Lemma nan_mul x y : PrimFloat.is_nan x = true -> PrimFloat.is_nan (x * y) = true.
Proof. intros H. rewrite is_nan_equiv, mul_equiv, (nan_B x H). reflexivity. Qed.
Lemma nan_div x y : PrimFloat.is_nan x = true -> PrimFloat.is_nan (x / y) = true.
Proof. intros H. rewrite is_nan_equiv, div_equiv, (nan_B x H). reflexivity. Qed.

Lemma rn_conv a : rn a -> rn (q_get (q_new a)).
Proof.
  intros [N | [H1 H2]].
  - left. unfold q_get, q_new. apply nan_sub, nan_div, nan_mul, nan_add, N.
  - assert (Fa := range_fin a H1 H2). destruct (conv_id a Fa) as [Fb E].
    exact (rn_transfer a _ Fa Fb E H1 H2).
Qed.

Lemma Bcompare_None (x y : binary_float prec emax) :
  Bcompare x y = None -> is_nan x = true \/ is_nan y = true.
Proof.
  unfold Bcompare. destruct x as [s | s | | s m e B], y as [s' | s' | | s' m' e' B']; cbn; auto;
    try (destruct s; discriminate); try (destruct s'; discriminate); try (destruct s, s'; discriminate).
Qed.

Lemma ltb_false_leb x y : PrimFloat.is_nan x = false -> PrimFloat.is_nan y = false ->
  (x <? y) = false -> (y <=? x) = true.
Proof.
  rewrite ltb_equiv, leb_equiv, !is_nan_equiv. unfold Bltb, Bleb, SFltb, SFleb.
  change (SFcompare (B2SF (Prim2B x)) (B2SF (Prim2B y))) with (Bcompare (Prim2B x) (Prim2B y)).
  change (SFcompare (B2SF (Prim2B y)) (B2SF (Prim2B x))) with (Bcompare (Prim2B y) (Prim2B x)).
  rewrite (Bcompare_swap _ _ (Prim2B x) (Prim2B y)).
  intros Nx Ny. destruct (Bcompare (Prim2B x) (Prim2B y)) as [[ | | ] | ] eqn:E; cbn; try easy.
  destruct (Bcompare_None _ _ E); congruence.
Qed.

Lemma rn_mPI : rn (- PI). Proof. right. split; reflexivity. Qed.
Lemma rn_PI : rn PI. Proof. right. split; reflexivity. Qed.

Lemma clamp_rn x : rn (clamp x (- PI) PI).
Proof.
  unfold clamp. destruct (x <? - PI) eqn:E1; [apply rn_mPI | ].
  destruct (PI <? x) eqn:E2; [apply rn_PI | ].
  destruct (PrimFloat.is_nan x) eqn:N; [now left | right]. split.
  - apply ltb_false_leb; [assumption | reflexivity | assumption].
  - apply ltb_false_leb; [reflexivity | assumption | assumption].
Qed.

Theorem closest_t_range_lemma : forall (L : libm),
  (forall y x, rn (latan2 L y x)) ->
  forall H p tol n, rn (closest_t L H p tol n).
Proof.
  intros L Hat H p tol n. unfold closest_t.
  destruct (abs (hh H) <? q_new EPS).
  - destruct (helix_at L H 0) as [[cx cy] cz]. unfold angle_between. apply rn_conv, Hat.
  - apply clamp_rn.
Qed.

(* the hypothesis on libm's atan2 is satisfiable (any function with values in [-pi, pi], e.g. a constant) *)
Definition toy_libm : libm :=
  {| lsin := fun x => x; lcos := fun x => x; latan2 := fun _ _ => 0; lhypot := fun x _ => x; lfloor := fun x => x |}.
Lemma toy_atan2_range : forall y x, rn (latan2 toy_libm y x).
Proof. intros. right. split; reflexivity. Qed.
