(* C11 - event results do not depend on bank order (nor on the HashMap iteration order).
   This file only pins statements; proofs live in Event/EventThm_proofs.v.

   What is proved: for every permutation of the bank list and every pair of iteration orders of
   the chunk-group map, the build succeeds or fails alike, and on success yields the same event
   (same timestamp, same content of every wire and pad slot).  avalanches() and vertex() are
   functions of exactly that content (C13/C14/C17 model them), so equal events give equal results.

   What is NOT provable in this technique: "the same in another thread / another process" is a
   statement about the runtime (hash seeds, CPU feature detection in faer/pulp); no Gallina model
   exhibits it.  The harness exercises it (`rel11` cases: main thread, spawned thread, fresh child
   process, compared bit for bit including avalanches() and vertex()); that part is a test, not a
   proof, and is labelled so in tools/propcfg/C11.py.

   Hypotheses: env_typed/banks_typed = ranges imposed by the Rust types; wire_pos_injective = the
   run's wire map is one-to-one (C08); reasm_perm = chunk reassembly does not depend on arrival
   order (C04).  Without injectivity the statement is false of the model: a slot occupied by one
   name and claimed by a second name with an empty post-delay signal is an error in one order only. *)
From AG Require Import Base.Prelude Base.Res Event.Event Event.EventSpec Event.EventThm_proofs Event.EventExample.
From Coq Require Import Permutation.

Theorem C11_build_perm_invariant : forall (F : Type) (fcal : Z -> F -> F) (e : env F) (m : ovf)
    (banks banks' : list bank) (order order' : list (list chunkv) -> list (list chunkv)),
  env_typed e -> banks_typed banks -> wire_pos_injective e -> reasm_perm e ->
  Permutation banks banks' -> is_order order -> is_order order' ->
  is_ok (build fcal e m order banks) = is_ok (build fcal e m order' banks') /\
  (forall ev ev', build fcal e m order banks = Ok ev -> build fcal e m order' banks' = Ok ev' -> ev_eq ev ev').
Proof. exact build_perm_invariant_lemma. Qed.
Print Assumptions C11_build_perm_invariant.

Theorem C11_group_order_irrelevant : forall (F : Type) (fcal : Z -> F -> F) (e : env F) (m : ovf)
    (banks : list bank) (order order' : list (list chunkv) -> list (list chunkv)),
  env_typed e -> banks_typed banks -> wire_pos_injective e -> is_order order -> is_order order' ->
  is_ok (build fcal e m order banks) = is_ok (build fcal e m order' banks) /\
  (forall ev ev', build fcal e m order banks = Ok ev -> build fcal e m order' banks = Ok ev' -> ev_eq ev ev').
Proof. exact group_order_irrelevant_lemma. Qed.
Print Assumptions C11_group_order_irrelevant.

(* non-vacuity: the hypotheses hold of a concrete environment; the reversed bank list with the
   reversed group order gives the same event *)
Example C11_hypotheses_satisfiable :
  env_typed ex_env /\ wire_pos_injective ex_env /\ reasm_perm ex_env /\ banks_typed ex_banks /\
  is_order (@rev (list chunkv)).
Proof.
  split; [exact ex_env_typed|]. split; [exact ex_env_injective|]. split; [exact ex_env_reasm_perm|].
  split; [exact ex_banks_typed|]. intros l. apply Permutation_sym. apply Permutation_rev.
Qed.
Example C11_nonvacuous :
  build ex_fcal ex_env Checked (@rev _) (rev ex_banks) = Ok ex_event.
Proof. vm_compute. reflexivity. Qed.

(* ===== end-to-end model (coq/Event/E2E.v): the run number and the RAW (bank name bytes, data bytes) list, decoded by
   the models of C02-C06/C08, calibrated with the tables regenerated into Gen/Calib.v, assembled by Event.build. The only
   hypothesis left is that the data are bytes. ===== *)
From Coq Require Import Permutation.
From AG Require Import Base.Prelude Base.Res Base.Bytes Ident.Tables.
From AG Require Codec.Adc Codec.Chunk Codec.Reasm Codec.Pwb Codec.Trg Ident.Names Ident.Maps.
From AG Require Import Event.Event Event.EventSpec Event.E2E Event.E2E_proofs.

(* =============================================================================================== C11 *)
(* for every run the wire map of the composed environment is one-to-one (C08) ... *)
Theorem C11_e2e_wire_pos_injective : forall (F : Type) (gain_of : Z * Z -> F) (m : ovf) (run : N), wire_pos_injective (env_e2e_m gain_of m run).
Proof. exact e2e_wire_pos_injective. Qed.
Print Assumptions C11_e2e_wire_pos_injective.
(* ... and its reassembly does not depend on the arrival order of the chunks (C04) *)
Theorem C11_e2e_reasm_perm : forall (F : Type) (gain_of : Z * Z -> F) (m : ovf) (run : N), reasm_perm (env_e2e_m gain_of m run).
Proof. exact e2e_reasm_perm. Qed.
Print Assumptions C11_e2e_reasm_perm.

(* hence: any permutation of the RAW bank list and any two HashMap iteration orders succeed or fail alike and on
   success give the same event (timestamp, every wire slot, every pad slot) *)
Theorem C11_e2e_build_perm_invariant : forall (F : Type) (fcal : Z -> F -> F) (gain_of : Z * Z -> F) (m : ovf) (run : N) (banks banks' : list (list N * list N))
    (order order' : list (list chunkv) -> list (list chunkv)),
  Forall bytes (map snd banks) -> Permutation banks banks' -> is_order order -> is_order order' ->
  is_ok (try_from_banks_model fcal gain_of m run banks order) = is_ok (try_from_banks_model fcal gain_of m run banks' order') /\
  (forall ev ev', try_from_banks_model fcal gain_of m run banks order = Ok ev ->
                  try_from_banks_model fcal gain_of m run banks' order' = Ok ev' -> ev_eq ev ev').
Proof. exact e2e_build_perm_invariant. Qed.
Print Assumptions C11_e2e_build_perm_invariant.

Theorem C11_e2e_group_order_irrelevant : forall (F : Type) (fcal : Z -> F -> F) (gain_of : Z * Z -> F) (m : ovf) (run : N) (banks : list (list N * list N))
    (order order' : list (list chunkv) -> list (list chunkv)),
  Forall bytes (map snd banks) -> is_order order -> is_order order' ->
  is_ok (try_from_banks_model fcal gain_of m run banks order) = is_ok (try_from_banks_model fcal gain_of m run banks order') /\
  (forall ev ev', try_from_banks_model fcal gain_of m run banks order = Ok ev ->
                  try_from_banks_model fcal gain_of m run banks order' = Ok ev' -> ev_eq ev ev').
Proof. exact e2e_group_order_irrelevant. Qed.
Print Assumptions C11_e2e_group_order_irrelevant.
