(* C11 - event results do not depend on bank order (nor on the HashMap iteration order).
   This file only pins statements; proofs live in Event/EventThm_proofs.v.

   What is proved: for every permutation of the bank list and every pair of iteration orders of
   the chunk-group map, the build succeeds or fails alike, and on success yields the same event
   (same timestamp, same content of every wire and pad slot).  avalanches() and vertex() are
   functions of exactly that content (C13/C14/C17 model them), so equal events give equal results.

   What is NOT provable in this technique: "the same in another thread / another process" is a
   statement about the runtime (hash seeds, CPU feature detection in faer/pulp); no Gallina model
   exhibits it.  The harness exercises it (`rel11` cases: main thread, spawned thread, fresh child
   process, compared bit for bit including avalanches() and vertex()); that part is a test, not a
   proof, and is labelled so in tools/propcfg/C11.py.

   Hypotheses: env_typed/banks_typed = ranges imposed by the Rust types; wire_pos_injective = the
   run's wire map is one-to-one (C08); reasm_perm = chunk reassembly does not depend on arrival
   order (C04).  Without injectivity the statement is false of the model: a slot occupied by one
   name and claimed by a second name with an empty post-delay signal is an error in one order only. *)
From AG Require Import Base.Prelude Base.Res Event.Event Event.EventSpec Event.EventThm_proofs Event.EventExample.
From Coq Require Import Permutation.

Theorem C11_build_perm_invariant : forall (F : Type) (fcal : Z -> F -> F) (e : env F) (m : ovf)
    (banks banks' : list bank) (order order' : list (list chunkv) -> list (list chunkv)),
  env_typed e -> banks_typed banks -> wire_pos_injective e -> reasm_perm e ->
  Permutation banks banks' -> is_order order -> is_order order' ->
  is_ok (build fcal e m order banks) = is_ok (build fcal e m order' banks') /\
  (forall ev ev', build fcal e m order banks = Ok ev -> build fcal e m order' banks' = Ok ev' -> ev_eq ev ev').
Proof. exact build_perm_invariant_lemma. Qed.
Print Assumptions C11_build_perm_invariant.

Theorem C11_group_order_irrelevant : forall (F : Type) (fcal : Z -> F -> F) (e : env F) (m : ovf)
    (banks : list bank) (order order' : list (list chunkv) -> list (list chunkv)),
  env_typed e -> banks_typed banks -> wire_pos_injective e -> is_order order -> is_order order' ->
  is_ok (build fcal e m order banks) = is_ok (build fcal e m order' banks) /\
  (forall ev ev', build fcal e m order banks = Ok ev -> build fcal e m order' banks = Ok ev' -> ev_eq ev ev').
Proof. exact group_order_irrelevant_lemma. Qed.
Print Assumptions C11_group_order_irrelevant.

(* non-vacuity: the hypotheses hold of a concrete environment; the reversed bank list with the
   reversed group order gives the same event *)
Example C11_hypotheses_satisfiable :
  env_typed ex_env /\ wire_pos_injective ex_env /\ reasm_perm ex_env /\ banks_typed ex_banks /\
  is_order (@rev (list chunkv)).
Proof.
  split; [exact ex_env_typed|]. split; [exact ex_env_injective|]. split; [exact ex_env_reasm_perm|].
  split; [exact ex_banks_typed|]. intros l. apply Permutation_sym. apply Permutation_rev.
Qed.
Example C11_nonvacuous :
  build ex_fcal ex_env Checked (@rev _) (rev ex_banks) = Ok ex_event.
Proof. vm_compute. reflexivity. Qed.

(* ===== end-to-end model (coq/Event/E2E.v): the run number and the RAW (bank name bytes, data bytes) list, decoded by
   the models of C02-C06/C08, calibrated with the tables regenerated into Gen/Calib.v, assembled by Event.build. The only
   hypothesis left is that the data are bytes. ===== *)
From Coq Require Import Permutation.
From AG Require Import Base.Prelude Base.Res Base.Bytes Ident.Tables.
From AG Require Codec.Adc Codec.Chunk Codec.Reasm Codec.Pwb Codec.Trg Ident.Names Ident.Maps.
From AG Require Import Event.Event Event.EventSpec Event.E2E Event.E2E_proofs.

(* =============================================================================================== C11 *)
(* for every run the wire map of the composed environment is one-to-one (C08) ... *)
Theorem C11_e2e_wire_pos_injective : forall (F : Type) (gain_of : Z * Z -> F) (m : ovf) (run : N), wire_pos_injective (env_e2e_m gain_of m run).
Proof. exact e2e_wire_pos_injective. Qed.
Print Assumptions C11_e2e_wire_pos_injective.
(* ... and its reassembly does not depend on the arrival order of the chunks (C04) *)
Theorem C11_e2e_reasm_perm : forall (F : Type) (gain_of : Z * Z -> F) (m : ovf) (run : N), reasm_perm (env_e2e_m gain_of m run).
Proof. exact e2e_reasm_perm. Qed.
Print Assumptions C11_e2e_reasm_perm.

(* hence: any permutation of the RAW bank list and any two HashMap iteration orders succeed or fail alike and on
   success give the same event (timestamp, every wire slot, every pad slot) *)
Theorem C11_e2e_build_perm_invariant : forall (F : Type) (fcal : Z -> F -> F) (gain_of : Z * Z -> F) (m : ovf) (run : N) (banks banks' : list (list N * list N))
    (order order' : list (list chunkv) -> list (list chunkv)),
  Forall bytes (map snd banks) -> Permutation banks banks' -> is_order order -> is_order order' ->
  is_ok (try_from_banks_model fcal gain_of m run banks order) = is_ok (try_from_banks_model fcal gain_of m run banks' order') /\
  (forall ev ev', try_from_banks_model fcal gain_of m run banks order = Ok ev ->
                  try_from_banks_model fcal gain_of m run banks' order' = Ok ev' -> ev_eq ev ev').
Proof. exact e2e_build_perm_invariant. Qed.
Print Assumptions C11_e2e_build_perm_invariant.

Theorem C11_e2e_group_order_irrelevant : forall (F : Type) (fcal : Z -> F -> F) (gain_of : Z * Z -> F) (m : ovf) (run : N) (banks : list (list N * list N))
    (order order' : list (list chunkv) -> list (list chunkv)),
  Forall bytes (map snd banks) -> is_order order -> is_order order' ->
  is_ok (try_from_banks_model fcal gain_of m run banks order) = is_ok (try_from_banks_model fcal gain_of m run banks order') /\
  (forall ev ev', try_from_banks_model fcal gain_of m run banks order = Ok ev ->
                  try_from_banks_model fcal gain_of m run banks order' = Ok ev' -> ev_eq ev ev').
Proof. exact e2e_group_order_irrelevant. Qed.
Print Assumptions C11_e2e_group_order_irrelevant.

(* =============================================================================================== avalanches *)
From AG Require Import Signal.Ring Signal.Avalanches Signal.AvalTotal Event.EventSlots Event.E2E_more_proofs.
(* Event/EventSlots.v: main_event_of turns the assembled event (occupied slots) into the MainEvent value the avalanche
   stage consumes - the [Option<Vec<f64>>; 256] and [[Option<Vec<f64>>; 576]; 32] arrays and the timestamp.  It has the
   shape of the Rust arrays, holds at every index exactly that slot's content, and RESPECTS ev_eq: events with the same
   timestamp and the same content of every wire and pad slot are the same MainEvent value *)
Theorem C11_main_event_respects_ev_eq : forall (F : Type) (a b : event F),
  event_shape (main_event_of a) /\
  (forall w, w < 256 -> nth_error (wire_signals (main_event_of a)) (N.to_nat w) = Some (wire_at a w)) /\
  (forall c r, c < 32 -> r < 576 -> exists col, nth_error (pad_signals (main_event_of a)) (N.to_nat c) = Some col /\
                                                nth_error col (N.to_nat r) = Some (pad_at a c r)) /\
  (ev_eq a b -> main_event_of a = main_event_of b).
Proof.
  intros F a b. split; [apply main_event_of_shape|]. split; [exact (wire_slots_nth a)|].
  split; [exact (pad_slots_nth a)|exact (main_event_of_ev_eq a b)].
Qed.
Print Assumptions C11_main_event_respects_ev_eq.

(* the avalanche stage is a FUNCTION of the slot contents: the panic-aware model avalanches_res (C09) and the pure
   skeleton `avalanches` (C13) take nothing of the event but the two slot arrays, so ev_eq events give equal results
   (Ok list, in order / panic alike), for every instance of the kernels (Cholesky solve, deconvolutions, sorts, centroid) *)
Theorem C11_avalanches_respect_ev_eq : forall (F amp zt : Type) (azero : amp) (apos : amp -> bool) (agt : amp -> amp -> bool)
    (pcmp : amp -> amp -> option comparison) (zf : N -> amp -> amp -> amp -> zt) (slen : list F -> nat)
    (solve : nat -> list (list F) -> list (list amp)) (wdec : list amp -> res (list amp))
    (pdec : list F -> res (list amp)) (D : list (list F) -> list (list amp)) (P : list F -> list amp)
    (sortW : list (N * amp) -> list (N * amp)) (sortP : list (zt * amp) -> list (zt * amp)) (a b : event F),
  ev_eq a b ->
  avalanches_res azero apos agt pcmp zf slen solve wdec pdec sortW sortP (wire_slots a) (pad_slots a) =
  avalanches_res azero apos agt pcmp zf slen solve wdec pdec sortW sortP (wire_slots b) (pad_slots b) /\
  avalanches azero apos agt zf D P sortW sortP (wire_slots a) (pad_slots a) =
  avalanches azero apos agt zf D P sortW sortP (wire_slots b) (pad_slots b) /\
  timestamp_res (main_event_of a) = timestamp_res (main_event_of b).
Proof. exact avalanches_respect_ev_eq. Qed.
Print Assumptions C11_avalanches_respect_ev_eq.

(* together with C11_e2e_build_perm_invariant: for every permutation of the RAW bank list and any two HashMap iteration
   orders, success is alike, and on success the MainEvent values are EQUAL, hence the avalanche model outputs (and the
   timestamp) are equal - the same list in the same order, or the same panic *)
Theorem C11_e2e_avalanches_perm_invariant : forall (F : Type) (fcal : Z -> F -> F) (gain_of : Z * Z -> F) (m : ovf) (run : N)
    (banks banks' : list (list N * list N)) (order order' : list (list chunkv) -> list (list chunkv)),
  Forall bytes (map snd banks) -> Permutation banks banks' -> is_order order -> is_order order' ->
  is_ok (try_from_banks_model fcal gain_of m run banks order) =
  is_ok (try_from_banks_model fcal gain_of m run banks' order') /\
  (forall ev ev', try_from_banks_model fcal gain_of m run banks order = Ok ev ->
                  try_from_banks_model fcal gain_of m run banks' order' = Ok ev' ->
     main_event_of ev = main_event_of ev' /\
     forall (amp zt : Type) (azero : amp) (apos : amp -> bool) (agt : amp -> amp -> bool)
       (pcmp : amp -> amp -> option comparison) (zf : N -> amp -> amp -> amp -> zt) (slen : list F -> nat)
       (solve : nat -> list (list F) -> list (list amp)) (wdec : list amp -> res (list amp))
       (pdec : list F -> res (list amp)) (D : list (list F) -> list (list amp)) (P : list F -> list amp)
       (sortW : list (N * amp) -> list (N * amp)) (sortP : list (zt * amp) -> list (zt * amp)),
     avalanches_res azero apos agt pcmp zf slen solve wdec pdec sortW sortP (wire_slots ev) (pad_slots ev) =
     avalanches_res azero apos agt pcmp zf slen solve wdec pdec sortW sortP (wire_slots ev') (pad_slots ev') /\
     avalanches azero apos agt zf D P sortW sortP (wire_slots ev) (pad_slots ev) =
     avalanches azero apos agt zf D P sortW sortP (wire_slots ev') (pad_slots ev') /\
     timestamp_res (main_event_of ev) = timestamp_res (main_event_of ev')).
Proof. exact e2e_avalanches_perm_invariant. Qed.
Print Assumptions C11_e2e_avalanches_perm_invariant.

(* non-vacuity: the slot arrays of the accepted example event: wire slot 34 of 256 and pad slot (13, 7) of 32 x 576 are
   occupied, their neighbours empty *)
Example C11_slots_nonvacuous :
  nth_error (wire_slots ex_event) 34 = Some (Some [6; 8]%Z) /\ nth_error (wire_slots ex_event) 35 = Some None /\
  option_map (fun col => nth_error col 7) (nth_error (pad_slots ex_event) 13) = Some (Some (Some [-9; -6]%Z)) /\
  length (wire_slots ex_event) = 256%nat /\ length (pad_slots ex_event) = 32%nat.
Proof. vm_compute. repeat split; reflexivity. Qed.
