(* C01 — the raw-data decoders are total: any bytes give Ok or a typed Err, never a panic, with or without
   overflow checks. Statements only; every proof is a lemma of the decoder's own development
   (C02 ADC, C03 chunk, C04 reassembly, C05 PWB packet, C06 TRG, C07 Chronobox FIFO, C08 names).
   `Panic` is the outcome of every Rust construct that can panic in the modelled code (index, slice,
   try_into().unwrap(), unwrap, str slicing off a char boundary, arithmetic overflow in mode Checked);
   mode Wrapping is the build without overflow checks, and the *_no_wrap theorems say that nothing wraps
   silently: both builds decode every input alike. No bound on the input length anywhere. *)
From AG Require Import Base.Prelude Base.Res Base.Bytes
  Codec.Adc Codec.Adc_proofs Codec.Trg Codec.Trg_proofs Codec.Chrono Codec.Chrono_proofs
  Codec.Chunk Codec.Chunk_proofs Codec.Pwb Codec.Pwb_proofs Codec.Reasm Codec.Reasm_proofs
  Ident.Names Ident.Names_proofs.

(* ADC packet (any MAC table) *)
Theorem C01_adc_total : forall macs m l, bytes l -> adc_decode macs m l <> Panic.
Proof. exact adc_total_lemma. Qed.
Print Assumptions C01_adc_total.
Theorem C01_adc_no_wrap : forall macs l, bytes l -> adc_decode macs Checked l = adc_decode macs Wrapping l.
Proof. exact adc_no_wrap_lemma. Qed.
Print Assumptions C01_adc_no_wrap.

(* PWB chunk (any device table) *)
Theorem C01_chunk_total : forall devices m l, bytes l -> chunk_decode devices m l <> Panic.
Proof. exact chunk_total_lemma. Qed.
Print Assumptions C01_chunk_total.
Theorem C01_chunk_no_wrap : forall devices l, bytes l ->
  chunk_decode devices Checked l = chunk_decode devices Wrapping l.
Proof. exact chunk_no_wrap_lemma. Qed.
Print Assumptions C01_chunk_no_wrap.

(* PWB packet from bytes (any MAC table) *)
Theorem C01_pwb_total : forall macs m l, bytes l -> pwb_decode macs m l <> Panic.
Proof. exact pwb_total_lemma. Qed.
Print Assumptions C01_pwb_total.
Theorem C01_pwb_no_wrap : forall macs l, bytes l -> pwb_decode macs Checked l = pwb_decode macs Wrapping l.
Proof. exact pwb_no_wrap_lemma. Qed.
Print Assumptions C01_pwb_no_wrap.

(* PWB packet from a list of chunks: a Chunk can only be obtained by decoding bytes, so the list handed to the
   reassembly is a list of decoder outputs; any admissible sort (sort_unstable on possibly equal keys) *)
Theorem C01_reasm_total : forall devices macs m sortF ls cs,
  admissible_sort sortF -> Forall bytes ls ->
  Forall2 (fun l c => chunk_decode devices m l = Ok c) ls cs ->
  reasm devices m sortF pwb (pwb_decode macs m) cs <> Panic.
Proof.
  intros devices macs m sortF ls cs Hs Hb Hd.
  apply reasm_total; [exact Hs | exact (decoded_chunks_ok devices m ls cs Hb Hd) |].
  intros l Hl. apply pwb_total_lemma. exact Hl.
Qed.
Print Assumptions C01_reasm_total.

(* TRG packet (no arithmetic on wire-controlled fields: one model for both builds) *)
Theorem C01_trg_total : forall l, bytes l -> trg_decode l <> Panic.
Proof. exact trg_total_lemma. Qed.
Print Assumptions C01_trg_total.

(* Chronobox FIFO parser: returns for every input (the fuel `length l` is sufficient), never consumes more than it
   was given, and every accepted element makes progress (4 or 244 bytes): no loop without progress *)
Theorem C01_cb_returns : forall l, exists es r, cb_fifo l = (es, r) /\ (length r <= length l)%nat.
Proof. exact cb_total_lemma. Qed.
Print Assumptions C01_cb_returns.

(* bank-name parsers on every UTF-8 string, and on arbitrary byte lists (a superset) *)
Theorem C01_names_total : forall s, utf8b s = true ->
  parse_main s <> Panic /\ parse_alpha16 s <> Panic /\ parse_adc16 s <> Panic /\ parse_adc32 s <> Panic
  /\ parse_pwb s <> Panic /\ parse_trg s <> Panic /\ parse_trb3 s <> Panic /\ parse_mcvx s <> Panic
  /\ parse_cb s <> Panic /\ parse_seq2 s <> Panic.
Proof. exact names_total_lemma. Qed.
Print Assumptions C01_names_total.
Theorem C01_names_total_bytes : forall s,
  parse_alpha16 s <> Panic /\ parse_adc16 s <> Panic /\ parse_adc32 s <> Panic
  /\ parse_trg s <> Panic /\ parse_trb3 s <> Panic /\ parse_mcvx s <> Panic /\ parse_cb s <> Panic /\ parse_seq2 s <> Panic
  /\ (parse_pwb s = Panic <-> exists c d, s = [80; 67; c; d] /\ is_cont c = true).
Proof. exact names_total_bytes_lemma. Qed.
Print Assumptions C01_names_total_bytes.

(* ===== Chronobox FIFO at the combinator level: pins imported from Codec/ChronoWinnow_pins.v ===== *)
From AG Require Import Codec.Winnow Codec.ChronoWinnow Codec.ChronoWinnow_proofs.

(* totality at the combinator level: no assert, no ChannelId unwrap, no final PResult::unwrap panic, and the
   fuel never runs out *)
Theorem C01_cbw_no_panic : forall dbg l,
  chronobox_fifo_winnow dbg l <> PPanic /\ chronobox_fifo_winnow dbg l <> PFuel.
Proof. exact cbw_no_panic. Qed.
Print Assumptions C01_cbw_no_panic.

(* the element parsers only succeed or Backtrack (never Cut, never panic) ... *)
Theorem C01_cbw_elems_never_cut : forall l,
  ok_or_back (fifo_entry l) /\ ok_or_back (scalers_block l).
Proof. exact elems_ok_or_back. Qed.
Print Assumptions C01_cbw_elems_never_cut.

(* ... and the whole parser returns Ok before `.unwrap()`: "this parser always succeeds" (chronobox.rs:171) *)
Theorem C01_cbw_never_cut : forall dbg fuel l, (length l < fuel)%nat ->
  exists es r, chronobox_fifo_parser dbg fuel l = POk es r.
Proof. exact cbw_never_cut. Qed.
Print Assumptions C01_cbw_never_cut.

(* debug_assertions on (assert panics) and off (assert is a Cut error, then unwrap panics) agree *)
Theorem C01_cbw_dbg_irrelevant : forall l, chronobox_fifo_winnow true l = chronobox_fifo_winnow false l.
Proof. exact cbw_dbg_irrelevant. Qed.
Print Assumptions C01_cbw_dbg_irrelevant.

