(* C16 — reported track parameters are true closest-approach parameters (PARTIAL).
   This file only pins statements; proofs live in Recon/Helix_proofs.v and Recon/HelixReal_proofs.v. *)
From Coq Require Import PrimFloat.
From AG Require Import Base.Prelude Recon.Helix Recon.Helix_proofs.

Theorem C16_clamp_range_abstract :
  forall (F : Type) (fltb fleb : F -> F -> bool) (fnan : F -> bool) (lo hi : F),
  (forall x y, fnan x = false -> fnan y = false -> fltb x y = false -> fleb y x = true) ->
  fleb lo hi = true -> fleb lo lo = true -> fleb hi hi = true -> fnan lo = false -> fnan hi = false ->
  forall x, fnan x = true \/ in_rangeF F fleb lo hi (clampF F fltb lo hi x) = true.
Proof. exact clampF_range. Qed.
Print Assumptions C16_clamp_range_abstract.
