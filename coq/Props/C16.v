(* C16 — reported track parameters are true closest-approach parameters.   PARTIAL.

   FULL STATEMENT OF THE PROPERTY (not proved in full):
     for every helix with centre within +-3 m, radius 0.03..5 m, any phase, pitch h in
     {0, +-subnormal, +-1e-17..+-1e2 m}, every point p in the drift volume or within 1 cm of the helix, and
     t := Helix::closest_t(p, f64::EPSILON, 20) evaluated in binary64 with glibc's libm:
       (1) t is not NaN,
       (2) -pi <= t <= pi,
       (3) -pi < t < pi  ->  forall t' in [-pi, pi], |helix(t) - p| <= |helix(t') - p| + 1e-9 m.

   WHAT IS PROVED HERE
     * C16_kepler_iff_stationary (+ _atan2, C16_root_gives_stationary_t): over the reals, for h <> 0, the equation
       E - e sin E = M that the code solves, with the code's theta, E, M, e, n (branch and sign conventions
       included), is exactly  d/dt |helix(t) - p|^2 = 0;  explicit derivative, Coquelicot.
     * C16_M_range, C16_root_is_global_min, C16_newton_step_invariant: over the reals, M lies in (-pi, pi]; the root
       bracketed from the code's start value E0 = +-pi gives the GLOBAL minimum of the distance over the whole helix;
       an exact Newton step keeps the bracket (monotone iteration).
     * C16_circle_case: for h = 0 the squared distance is R^2 + rho^2 + dz^2 - 2 R rho cos(t - ts) with
       ts = atan2(det, dot) as in the code, so ts is a global minimiser and stationary, and ts in (-pi, pi].
     * C16_closest_t_range_partial: over binary64 (Coq's primitive floats, the executable model the differential
       run ties to the code): the value returned by closest_t is NaN or lies in [-pi, pi]  — part (2) of the
       property; hypothesis: libm's atan2 returns NaN or a value in [-pi, pi].
   WHAT IS ONLY MEASURED (harness lines `relk`, a test on the implementation, not a proof)
     (1) NaN-freedom, and (3) global minimality within 1e-9 m: they need convergence of a 20-step binary64
     Newton iteration through glibc sin/cos (eccentricities up to 1e34), for which there is no verified libm /
     VCFloat-level tooling in this environment.

   This file only pins statements; proofs are in Recon/HelixReal_proofs.v and Recon/Helix_proofs.v. *)
From Coq Require Import Reals.
From Coquelicot Require Import Coquelicot.
From AG Require Import Recon.HelixReal Recon.HelixReal_proofs.
Local Open Scope R_scope.

(* delta is the polar angle of (u - x0, v - y0): the contract of atan2 *)
Theorem C16_kepler_iff_stationary : forall (H : rhelix) (u v w delta t : R),
  h H <> 0 ->
  polar (u - x0 H) (v - y0 H) (k_r H u v) delta ->
  (Derive (dist2 H u v w) t = 0
   <-> k_E H w delta t - k_e H u v * sin (k_E H w delta t) = k_M H w delta).
Proof. exact kepler_iff_stationary_lemma. Qed.
Print Assumptions C16_kepler_iff_stationary.

(* the same with a concrete atan2 over R (range (-pi, pi]) in place of the contract *)
Theorem C16_kepler_iff_stationary_atan2 : forall (H : rhelix) (u v w t : R),
  h H <> 0 ->
  let delta := atan2R (v - y0 H) (u - x0 H) in
  (Derive (dist2 H u v w) t = 0
   <-> k_E H w delta t - k_e H u v * sin (k_E H w delta t) = k_M H w delta).
Proof. exact kepler_iff_stationary_atan2. Qed.
Print Assumptions C16_kepler_iff_stationary_atan2.

(* the derivative itself: D'(t) = -(h^2 / 2 pi^2) (E - e sin E - M) *)
Theorem C16_distance_derivative : forall (H : rhelix) (u v w delta t : R),
  h H <> 0 ->
  polar (u - x0 H) (v - y0 H) (k_r H u v) delta ->
  is_derive (dist2 H u v w) t
    (- (h H ^ 2 / (2 * PI ^ 2)) * kepler_f (k_E H w delta t) (k_e H u v) (k_M H w delta)).
Proof. intros. rewrite <- dist2'_kepler by assumption. apply dist2_is_derive. Qed.
Print Assumptions C16_distance_derivative.

(* reconstruction.rs:205: the t computed from a root E of Kepler's equation is a stationary point *)
Theorem C16_root_gives_stationary_t : forall (H : rhelix) (u v w delta E : R),
  h H <> 0 ->
  polar (u - x0 H) (v - y0 H) (k_r H u v) delta ->
  E - k_e H u v * sin E = k_M H w delta ->
  Derive (dist2 H u v w) (t_of_E H w delta E) = 0.
Proof. exact t_of_E_stationary. Qed.
Print Assumptions C16_root_gives_stationary_t.

Theorem C16_circle_case : forall (H : rhelix) (u v w : R),
  h H = 0 ->
  let ts := atan2R (circ_det H u v) (circ_dot H u v) in
  (forall t, dist2 H u v w ts <= dist2 H u v w t)
  /\ Derive (dist2 H u v w) ts = 0
  /\ (0 <= rho H -> forall t,
        dist2 H u v w t = rho H ^ 2 + k_r H u v ^ 2 + (z0 H - w) ^ 2 - 2 * (rho H * k_r H u v) * cos (t - ts))
  /\ - PI < ts <= PI.
Proof. exact circle_case_lemma. Qed.
Print Assumptions C16_circle_case.

(* reconstruction.rs:178-180: the branch selection n = floor(temp / 2 pi) puts M into (-pi, pi] *)
Theorem C16_M_range : forall (H : rhelix) (w delta : R), - PI < k_M H w delta <= PI.
Proof. exact k_M_range. Qed.
Print Assumptions C16_M_range.

(* exact arithmetic: the root of E - e sin E = M that is bracketed from the code's start value (E0 = pi for M >= 0 with
   f >= 0 on [E, pi]; E0 = -pi for M <= 0 with f <= 0 on [-pi, E]) yields, through reconstruction.rs:205, a t at which the
   distance to the point is minimal over ALL t (the whole infinite helix, hence also t in [-pi, pi]):
   the comment "If t is within the range, then it is the actual global minimum" of the source, over R.
   What is NOT proved is that 20 binary64 Newton steps through glibc reach that root to within 1e-9 m. *)
Theorem C16_root_is_global_min : forall (H : rhelix) (u v w delta Es : R),
  h H <> 0 -> 0 <= rho H ->
  polar (u - x0 H) (v - y0 H) (k_r H u v) delta ->
  let e := k_e H u v in
  let M := k_M H w delta in
  kepler_f Es e M = 0 ->
  (0 <= M /\ 0 <= Es <= PI /\ (forall x, Es <= x <= PI -> 0 <= kepler_f x e M)
   \/ M <= 0 /\ - PI <= Es <= 0 /\ (forall x, - PI <= x <= Es -> kepler_f x e M <= 0)) ->
  forall t, dist2 H u v w (t_of_E H w delta Es) <= dist2 H u v w t.
Proof. exact root_is_global_min_lemma. Qed.
Print Assumptions C16_root_is_global_min.

(* exact arithmetic: one Newton step of reconstruction.rs:198 from a point right of the root r (where f >= 0, f' > 0)
   stays in [r, x]: the iteration from E0 = pi is monotone and keeps the bracket of C16_root_is_global_min *)
Theorem C16_newton_step_invariant : forall e M r x : R,
  0 <= e -> 0 <= r -> r <= x <= PI ->
  kepler_f r e M = 0 -> 0 <= kepler_f x e M -> 0 < 1 - e * cos x ->
  r <= x - kepler_f x e M / (1 - e * cos x) <= x.
Proof. exact newton_step_invariant. Qed.
Print Assumptions C16_newton_step_invariant.

(* non-vacuity: a helix with h <> 0 and one with h = 0; the hypotheses of the theorems are satisfiable *)
Example C16_nonvacuous_kepler :
  h H_example <> 0 /\ polar (2 - x0 H_example) (0 - y0 H_example) (k_r H_example 2 0) 0.
Proof. exact nonvacuous_kepler_lemma. Qed.

(* ---- binary64: the executable model that the differential run ties to the code ---- *)
From AG Require Recon.Helix Recon.Helix_proofs.

(* rn x  :=  is_nan x = true  \/  (-PI <=? x) = true /\ (x <=? PI) = true     (PI = 0x1.921fb54442d18p+1)
   Part (2) of the property; hypothesis: libm's atan2 returns NaN or a value in [-pi, pi] (its range contract).
   Depends on the standard library's FloatAxioms (link between primitive floats and their specification). *)
Theorem C16_closest_t_range_partial : forall (L : Helix.libm),
  (forall y x, Helix_proofs.rn (Helix.latan2 L y x)) ->
  forall (H : Helix.helix) (p : Helix.spoint) (tol : PrimFloat.float) (n : nat),
  Helix_proofs.rn (Helix.closest_t L H p tol n).
Proof. exact Helix_proofs.closest_t_range_lemma. Qed.
Print Assumptions C16_closest_t_range_partial.

(* f64::clamp(-PI, PI) returns NaN only for NaN, otherwise a value in [-pi, pi] *)
Theorem C16_clamp_range : forall x : PrimFloat.float, Helix_proofs.rn (Helix.clamp x (PrimFloat.opp Helix.PI) Helix.PI).
Proof. exact Helix_proofs.clamp_rn. Qed.
Print Assumptions C16_clamp_range.

Example C16_atan2_contract_satisfiable : forall y x, Helix_proofs.rn (Helix.latan2 Helix_proofs.toy_libm y x).
Proof. exact Helix_proofs.toy_atan2_range. Qed.
