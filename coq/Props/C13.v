(* C13 — reconstruction respects the detector's cylindrical and mirror symmetry.
   This file only pins statements; proofs live in Signal/Ring_proofs.v and Signal/Avalanches_proofs.v.
   Model: Signal/Ring.v (contiguous_ranges, range_to_indices, range_to_len of deconvolution/wires.rs),
   Signal/Avalanches.v (MainEvent::avalanches of lib.rs and matching.rs) with the numeric kernels
   abstract: D block deconvolution, P pad deconvolution, zf pad centroid, sortW/sortP the two sorts.

   Three classes of events are OPEN known findings on the real code:
     full_ring_256            (F3)   all 256 wires carry data            -> C13_rotation_full_ring_refuted
     pad_amplitude_tie        (F6)   equal pad amplitudes in a time bin  -> C13_pad_tie_witness
     centroid_ill_conditioned (F11)  a pad hit with middle^2/(first*last) - 1 < 3.4e-10: the binary64 centroid is
                                     not antisymmetric to 1e-9 m       -> C13_centroid_ill_conditioned_witness
   The first two are excluded by hypothesis of the skeleton theorems; the third concerns only the numeric
   centroid formula, which the skeleton theorems leave abstract / symbolic. *)
From Coq Require Import Permutation Sorted Floats.
From AG Require Import Base.Prelude Signal.Ring Signal.Ring_proofs Signal.Avalanches Signal.Avalanches_proofs
  Signal.Avalanches_float_proofs.

(* --- the ring of wires ---------------------------------------------------------------------- *)

(* contiguous_ranges returns exactly the maximal cyclic blocks of present wires ((first wire, last wire + 1),
   all wires of the block present, the wire before and the wire after absent) ... *)
Theorem C13_contiguous_ranges_blocks : forall (sig : Type) (ws : list (option sig)) (f l : N),
  ~ full_ring ws -> (In (f, l) (contiguous_ranges ws) <-> block ws f l).
Proof. exact (@cr_in). Qed.
Print Assumptions C13_contiguous_ranges_blocks.

(* ... each once, with pairwise disjoint wire sets (so the order in which blocks are written into
   wire_inputs is immaterial) *)
Theorem C13_blocks_disjoint : forall (sig : Type) (ws : list (option sig)),
  NoDup (contiguous_ranges ws) /\ NoDup (flat_map range_to_indices (contiguous_ranges ws)).
Proof. exact blocks_disjoint_lemma. Qed.
Print Assumptions C13_blocks_disjoint.

(* key lemma: the blocks of the rotated ring are the rotated blocks, as a SET (their order in the
   vector may differ: pop + swap_remove(0) + push) *)
Theorem C13_contiguous_ranges_rotation : forall (sig : Type) (ws : list (option sig)) (s : N),
  wf ws -> ~ full_ring ws -> s <= NW ->
  Permutation (contiguous_ranges (rotw s ws)) (map (rot_range s) (contiguous_ranges ws)).
Proof. exact (@cr_rot_perm). Qed.
Print Assumptions C13_contiguous_ranges_rotation.

(* every block kernel call receives the same argument list: same signals, same order; and the wire
   indices it is zipped with are the shifted ones *)
Theorem C13_block_arguments_rotation : forall (sig : Type) (ws : list (option sig)) (s f l : N),
  wf ws -> s <= NW -> f < NW -> 1 <= l <= NW ->
  block_sigs (rotw s ws) (rot_range s (f, l)) = block_sigs ws (f, l) /\
  range_to_indices (rot_range s (f, l)) = map (fun i => (i + s) mod NW) (range_to_indices (f, l)).
Proof. exact block_arguments_rotation_lemma. Qed.
Print Assumptions C13_block_arguments_rotation.

(* the unwrap()s of y_matrix cannot fail on a block, and the index list has range_to_len entries *)
Theorem C13_block_signals_present : forall (sig : Type) (ws : list (option sig)) (f l : N),
  block ws f l ->
  length (block_sigs ws (f, l)) = length (range_to_indices (f, l)) /\
  length (range_to_indices (f, l)) = N.to_nat (range_to_len (f, l)).
Proof. exact block_signals_present_lemma. Qed.
Print Assumptions C13_block_signals_present.

(* wire_inputs[first..first + 8] of lib.rs:441 stays inside the 256 slots *)
Theorem C13_column_slice_in_bounds : forall c : N,
  snd (pad_column_to_wires c) <= NW /\ fst (pad_column_to_wires c) + 8 = snd (pad_column_to_wires c).
Proof. exact pctw_in_bounds. Qed.
Print Assumptions C13_column_slice_in_bounds.

(* --- rotation ------------------------------------------------------------------------------- *)

(* For every event outside the class full_ring_256: rotating by k pad columns (8k wires) permutes the
   avalanches and moves each to the rotated wire; t, z and both amplitudes are untouched.
   Assumed of the kernels: D returns one input per wire of the block; the wire-hit sort looks at
   amplitudes only. Nothing is assumed about P, zf, sortP or the values D returns. *)
Theorem C13_rotation_equivariant :
  forall (sig amp zt : Type) (azero : amp) (apos : amp -> bool) (agt : amp -> amp -> bool)
         (zf : N -> amp -> amp -> amp -> zt) (D : list sig -> list (list amp)) (P : sig -> list amp)
         (sortW : list (N * amp) -> list (N * amp)) (sortP : list (zt * amp) -> list (zt * amp)),
    (forall l, length (D l) = length l) ->
    (forall (f : N -> N) l, sortW (map (fun h => (f (fst h), snd h)) l)
                            = map (fun h => (f (fst h), snd h)) (sortW l)) ->
    forall (ws : list (option sig)) (pads : list (list (option sig))) (k : N),
      wf ws -> N.of_nat (length pads) = NCOLS ->
      ~ full_ring ws ->
      k < 32 ->
      Permutation (avalanches azero apos agt zf D P sortW sortP (rotw (8 * k) ws) (rotc k pads))
                  (map (shift_wire (8 * k)) (avalanches azero apos agt zf D P sortW sortP ws pads)).
Proof. exact (@rotation_equivariant_lemma). Qed.
Print Assumptions C13_rotation_equivariant.

(* the same for the executable binary64 skeleton that the differential run replays against the
   implementation (stable insertion sorts): only the shape law of D remains as a premise *)
Theorem C13_rotation_equivariant_executable :
  forall zf D P (ws : list (option N)) (pads : list (list (option N))) (k : N),
    (forall l, length (D l) = length l) ->
    wf ws -> N.of_nat (length pads) = NCOLS -> ~ full_ring ws -> k < 32 ->
    Permutation (avalanches_f zf D P (rotw (8 * k) ws) (rotc k pads))
                (map (shift_wire (8 * k)) (avalanches_f zf D P ws pads)).
Proof. exact rotation_equivariant_f_lemma. Qed.
Print Assumptions C13_rotation_equivariant_executable.

(* class full_ring_256: the single block always starts at wire 0, so D receives the ROTATED list of
   signals, where equivariance needs the block (s, s) and the same list *)
Theorem C13_full_ring_block_not_rotated : forall (sig : Type) (sigs : list sig) (s : N),
  N.of_nat (length sigs) = NW -> s <= NW ->
  contiguous_ranges (rotw s (map Some sigs)) = [(0, NW)] /\
  block_sigs (rotw s (map Some sigs)) (0, NW) = rotw s sigs /\
  (0 < s < NW -> rot_range s (0, NW) = (s, s)).
Proof. exact (@full_ring_block_not_rotated). Qed.
Print Assumptions C13_full_ring_block_not_rotated.

(* ... and with a position-dependent block kernel (as a banded, non-circulant solve is) the conclusion of
   C13_rotation_equivariant fails: witness in the class, all other premises true *)
Theorem C13_rotation_full_ring_refuted :
  exists (D : list (list Z) -> list (list Z)) ws pads k,
    (forall l, length (D l) = length l) /\ wf ws /\ N.of_nat (length pads) = NCOLS /\
    full_ring ws /\ k < 32 /\
    ~ Permutation (Toy.av D (rotw (8 * k) ws) (rotc k pads))
                  (map (shift_wire (8 * k)) (Toy.av D ws pads)).
Proof. exact rotation_full_ring_refuted_lemma. Qed.
Print Assumptions C13_rotation_full_ring_refuted.

(* --- mirror --------------------------------------------------------------------------------- *)

(* For every event outside the class pad_amplitude_tie: mirroring the pad rows (r -> 575 - r) maps every
   avalanche to the same wire, time and amplitudes with z negated, in the same order.
   Assumed: the centroid is antisymmetric (exactly, here); distinct HIT amplitudes (hit_amp: values exceeding a
   neighbour that is > 0.0, the only ones that reach the pad-hit sort) are comparable; sortP returns a
   permutation, sorted by descending amplitude on lists of hit amplitudes (nothing about the order of ties, as
   for an unstable sort).  The comparability and sortedness premises are restricted to hit amplitudes because
   they are FALSE for arbitrary binary64 values (C13_float_order_not_total: NaN vs 1.0) and TRUE for binary64 hit
   amplitudes (C13_float_hit_amplitudes_ordered), so that the theorem can be instantiated on the executable
   binary64 skeleton: C13_mirror_equivariant_executable. *)
Theorem C13_mirror_equivariant :
  forall (sig amp zt : Type) (azero : amp) (apos : amp -> bool) (agt : amp -> amp -> bool)
         (zf : N -> amp -> amp -> amp -> zt) (D : list sig -> list (list amp)) (P : sig -> list amp)
         (sortW : list (N * amp) -> list (N * amp)) (sortP : list (zt * amp) -> list (zt * amp))
         (zneg : zt -> zt),
    (forall r f m l, r <= 575 -> zf (575 - r) l m f = zneg (zf r f m l)) ->
    (forall a b : amp, hit_amp apos agt a -> hit_amp apos agt b -> a <> b -> agt a b = true \/ agt b a = true) ->
    (forall l, Permutation (sortP l) l) ->
    (forall l, hitsP apos agt l -> StronglySorted (descP agt) (sortP l)) ->
    forall (ws : list (option sig)) (pads : list (list (option sig))),
      Forall (fun col => N.of_nat (length col) = NROWS) pads ->
      NoPadTie azero apos agt zf P pads ->
      avalanches azero apos agt zf D P sortW sortP ws (mirror pads)
      = map (neg_z zneg) (avalanches azero apos agt zf D P sortW sortP ws pads).
Proof. exact (@mirror_equivariant_lemma). Qed.
Print Assumptions C13_mirror_equivariant.

(* --- mirror, on the executable binary64 skeleton (the one the differential run replays) ----------------- *)

(* binary64 `>` is not total on distinct values ... *)
Theorem C13_float_order_not_total :
  ~ (forall a b : float, a <> b -> fgt a b = true \/ fgt b a = true).
Proof. exact fgt_total_unrestricted_false. Qed.
Print Assumptions C13_float_order_not_total.

(* ... but it is a strict total order on hit amplitudes (positive, not NaN), and the stable insertion sort
   of the model sorts lists of them (standard library FloatAxioms: ltb_spec, Prim2SF/SF2Prim) *)
Theorem C13_float_hit_amplitudes_ordered :
  (forall a b : float, hit_amp fpos fgt a -> hit_amp fpos fgt b -> a <> b -> fgt a b = true \/ fgt b a = true) /\
  (forall (zt : Type) (l : list (zt * float)),
     hitsP fpos fgt l -> StronglySorted (descP fgt) (isort (lessP fgt) l)).
Proof. exact float_hit_amplitudes_ordered_lemma. Qed.
Print Assumptions C13_float_hit_amplitudes_ordered.

(* the skeleton never looks at z: avalanches_f zf is the symbolic skeleton avalanches_s (z = (row, first,
   middle, last)) with the centroid evaluated afterwards *)
Theorem C13_executable_factor :
  forall zf D P (ws : list (option N)) (pads : list (list (option N))),
    avalanches_f zf D P ws pads = map (map_z (zeval zf)) (avalanches_s D P ws pads).
Proof. exact avalanches_f_factor. Qed.
Print Assumptions C13_executable_factor.

(* MIRROR THEOREM FOR BINARY64 AMPLITUDES, no premise on the kernels D, P, zf and none on the amplitudes:
   for every event without a pad-amplitude tie, the avalanches of the mirrored event are, in the same order,
   the avalanches of the event with the same wire, time bin, wire and pad amplitude (bit-identical), and
   z = zf (575 - row) last middle first  where the event has  z = zf row first middle last.
   Block finding, column selection, hit extraction, both sorts and the pairing are thereby proved mirror
   invariant for the executable binary64 skeleton. *)
Theorem C13_mirror_equivariant_executable :
  forall zf D P (ws : list (option N)) (pads : list (list (option N))),
    Forall (fun col => N.of_nat (length col) = NROWS) pads ->
    NoPadTie 0%float fpos fgt zf P pads ->
    avalanches_f zf D P ws (mirror pads)
    = map (map_z (fun z => zeval zf (zmir z))) (avalanches_s D P ws pads).
Proof. exact mirror_equivariant_f_lemma. Qed.
Print Assumptions C13_mirror_equivariant_executable.

(* the same on the symbolic skeleton, as an instance of C13_mirror_equivariant (zneg := zmir: antisymmetry is
   exact there) *)
Theorem C13_mirror_equivariant_symbolic :
  forall D P (ws : list (option N)) (pads : list (list (option N))),
    Forall (fun col => N.of_nat (length col) = NROWS) pads ->
    NoPadTie 0%float fpos fgt zf_sym P pads ->
    avalanches_s D P ws (mirror pads) = map (map_z zmir) (avalanches_s D P ws pads).
Proof. exact mirror_equivariant_s_lemma. Qed.
Print Assumptions C13_mirror_equivariant_symbolic.

(* WHAT IS LEFT for the property's "z negated within 1e-9 m" is a statement about ONE numeric function, the
   centroid formula of matching.rs:80-84:  | zf (575 - row) last middle first + zf row first middle last | <= 1e-9
   for every hit triple.  Over the reals the sum is exactly 0 (C13_centroid_antisymmetric_real below).  In binary64
   it is NOT within 1e-9 m for every hit triple: class centroid_ill_conditioned, finding F11 — witness on
   PrimFloat without libm (the two logarithm arguments fl(last/first) and fl(first/last) are not reciprocal while
   sigma^2 is bit-identical; explanation in Signal/Avalanches_float_proofs.v section 5).  Outside the class the
   bound is measured by the rel-mir lines of the differential run, not proved (it needs an error model of libm's
   ln; the error analysis in harness/phys/src/c13.rs gives 0.002 * 1.5 * 2^-53 / cond + 6e-16 m). *)
Theorem C13_centroid_ill_conditioned_witness :
  (fpos w11_f && fpos w11_l && fgt w11_m w11_f && fgt w11_m w11_l)%bool = true /\
  PrimFloat.ltb (cond_number w11_f w11_m w11_l) THETA = true /\
  Prim2SF (w11_m * w11_m / (w11_f * w11_l)) = S754_finite false (2 ^ 52 + 11) (-52) /\
  Prim2SF (w11_f * w11_l) = Prim2SF (w11_l * w11_f) /\
  Prim2SF (w11_l / w11_f) = S754_finite false (2 ^ 52 + 2) (-52) /\
  Prim2SF (w11_f / w11_l) = S754_finite false (2 ^ 53 - 3) (-53) /\
  ((2 ^ 52 + 2) * (2 ^ 53 - 3) <> 2 ^ 105)%Z.
Proof. exact illcond_witness_lemma. Qed.
Print Assumptions C13_centroid_ill_conditioned_witness.

Example C13_ill_conditioned_class_inhabited : centroid_ill_conditioned w11_P [w11_col].
Proof. exact illcond_witness_in_class. Qed.

(* class pad_amplitude_tie: witness in the class (the F6 event of DESIGN.md A.12, exact arithmetic,
   the executable stable sort), all other premises true, conclusion false *)
Theorem C13_pad_tie_witness :
  Forall (fun col => N.of_nat (length col) = NROWS) Toy.pads6 /\
  ~ NoPadTie 0%Z Toy.apos Toy.agt Toy.zf Toy.P Toy.pads6 /\
  Toy.av Toy.Did Toy.ws6 (mirror Toy.pads6) <> map (neg_z Z.opp) (Toy.av Toy.Did Toy.ws6 Toy.pads6).
Proof. exact pad_tie_witness_lemma. Qed.
Print Assumptions C13_pad_tie_witness.

(* --- the premises are satisfiable: an exact instance (amplitudes and z in Z, stable insertion sorts) --- *)
Theorem C13_instance_rotation : forall D ws pads k, (forall l, length (D l) = length l) ->
  wf ws -> N.of_nat (length pads) = NCOLS -> ~ full_ring ws -> k < 32 ->
  Permutation (Toy.av D (rotw (8 * k) ws) (rotc k pads)) (map (shift_wire (8 * k)) (Toy.av D ws pads)).
Proof. exact Toy.toy_rotation. Qed.
Print Assumptions C13_instance_rotation.

Theorem C13_instance_mirror : forall D ws pads,
  Forall (fun col => N.of_nat (length col) = NROWS) pads ->
  NoPadTie 0%Z Toy.apos Toy.agt Toy.zf Toy.P pads ->
  Toy.av D ws (mirror pads) = map (neg_z Z.opp) (Toy.av D ws pads).
Proof. exact Toy.toy_mirror. Qed.
Print Assumptions C13_instance_mirror.

(* the premise NoPadTie holds on a non-trivial concrete value (the F6 column with a single peak) *)
Example C13_nonvacuous_no_tie : NoPadTie 0%Z Toy.apos Toy.agt Toy.zf Toy.P (Toy.mkpads (Toy.peak 11 100)).
Proof. exact toy_no_tie. Qed.

(* non-vacuity on concrete values: the F6 event is a partial ring of the right shape with two avalanches;
   its blocks and their rotation by one pad column *)
Example C13_nonvacuous_event :
  wf Toy.ws6 /\ full_ringb Toy.ws6 = false /\
  contiguous_ranges Toy.ws6 = [(94, 109)] /\
  contiguous_ranges (rotw 152 Toy.ws6) = [(246, 5)] /\
  Toy.av Toy.Did Toy.ws6 Toy.pads6 = [Aval 100 1 (-740)%Z 100%Z 80%Z; Aval 102 1 60%Z 60%Z 80%Z] /\
  Toy.av Toy.Did (rotw 152 Toy.ws6) (rotc 19 Toy.pads6)
  = [Aval 252 1 (-740)%Z 100%Z 80%Z; Aval 254 1 60%Z 60%Z 80%Z].
Proof. vm_compute. repeat split; reflexivity. Qed.

(* ===== centroid z: antisymmetry of the real formula under row reversal (the zf premise of the mirror theorem) — imported from Signal/Centroid_pins.v ===== *)
(* C13 -- the hypothesis of C13_mirror_equivariant on the abstract centroid `zf`
     forall r f m l, r <= 575 -> zf (575 - r) l m f = zneg (zf r f m l)
   tied to the formula of pad_hits_at_t (physics/src/matching.rs:78-86) and TpcPadRow::z
   (detector/src/padwing/map.rs:520-524), OVER THE REALS.  This file only pins statements; definitions:
   Signal/Centroid.v, proofs: Signal/Centroid_proofs.v.

     zR r first middle last = pad_row_z r + (sigma^2 / (2 w)) * ln (last / first),
     sigma^2 = w^2 / ln (middle^2 / (first * last)),  w = PAD_PITCH_Z = 2.304 / 576,
     pad_row_z r = (r + 1/2) * w - 2.304 / 2,   576 = gen_TPC_PAD_ROWS (regenerated from the source).

   What remains between these theorems and the binary64 implementation is the rounding of this ONE formula
   (the pairing / sorting / ordering part of the mirror statement is proved for binary64 amplitudes:
   C13_mirror_equivariant_executable).  The rounding is NOT harmless everywhere: class
   centroid_ill_conditioned, finding F11 (C13_centroid_ill_conditioned_witness).  In detail:
   * pad_row_z: `(row as f64 + 0.5) * PAD_PITCH_Z - DETECTOR_HALF_LENGTH` is evaluated with PAD_PITCH_Z =
     fl(2.304 / 576), one rounded product and one rounded difference; the two mirrored rows round
     independently, so fl(z(575 - r)) = - fl(z(r)) holds only up to a few ulp of 1.152 m (~ 1e-16 m).
   * the centroid: powi(2), two products, two divisions and two libm `ln` calls, each correctly or
     faithfully rounded; fl(ln(last/first)) and fl(ln(first/last)) are negatives of each other only up to the
     rounding of the quotient and the accuracy of libm's ln; first * last is commutative in binary64, so
     sigma^2 is bit-identical on both sides.  The term is bounded by w/2 * |ln(l/f)| / ln(m^2/(f l)) < w/2 = 2 mm
     (under the hit condition |ln (l/f)| < ln (m^2/(f l))), hence the absolute discrepancy is of the order
     of 1e-18..1e-15 m except when ln (m^2/(f l)) is small: the absolute error (<= 1.5 * 2^-53) of
     ln fl(l/f) + ln fl(f/l) is divided by it, giving up to 0.002 * 1.5 * 2^-53 / (m^2/(f l) - 1) m: more than
     1e-9 m for m^2/(f l) - 1 < 3.33e-10 (measured: up to 2.22e-10; 2.5e-4 m at 1e-15) = finding F11.
   * no real-number fact is missing: the formula is EXACTLY antisymmetric (C13_centroid_antisymmetric_real),
     the hit condition is EXACTLY symmetric (C13_hit_condition_symmetric; the comparisons `>` on binary64
     are exact, so this part carries over to the implementation as it is), and under the hit condition
     every division and logarithm of the formula is well defined (C13_hit_condition_well_defined).
   The property tolerates 1e-9 m; the binary64 discrepancy |z(mirrored) + z(original)| is MEASURED against
   that tolerance by the `rel-mir` lines of the C13 differential run on every generated event outside the
   class centroid_ill_conditioned (it is not proved: a proof needs an error model of libm's ln, which the
   tooling present does not provide); events inside the class carry the tag relkf-illcond.

   Allowed axioms: the standard library's real-number axioms (ClassicalDedekindReals.sig_forall_dec,
   sig_not_dec, FunctionalExtensionality.functional_extensionality_dep, Classical_Prop.classic). *)
From Coq Require Import Reals Lra.
From AG Require Import Base.Prelude Signal.Centroid Signal.Centroid_proofs.
Local Open Scope R_scope.

(* TpcPadRow::z is odd under row -> 575 - row, for every row 0..=575 *)
Theorem C13_pad_row_z_antisymmetric :
  forall r : N, (r <= 575)%N -> pad_row_z (575 - r) = - pad_row_z r.
Proof. exact pad_row_z_antisymmetric_lemma. Qed.
Print Assumptions C13_pad_row_z_antisymmetric.

(* the constants: z(row) = (row + 1/2) * 4 mm - 1.152 m *)
Theorem C13_pad_row_z_value :
  forall r : N, pad_row_z r = (NR r + /2) * (4 / 1000) - 1152 / 1000.
Proof. exact pad_row_z_value_lemma. Qed.
Print Assumptions C13_pad_row_z_value.

(* the hit test of matching.rs:78 is invariant under exchanging first and last *)
Theorem C13_hit_condition_symmetric :
  forall first middle last : R,
  hit_condition first middle last <-> hit_condition last middle first.
Proof. exact hit_condition_symmetric_lemma. Qed.
Print Assumptions C13_hit_condition_symmetric.

(* the centroid of the mirrored triple at the mirrored row is minus the centroid *)
Theorem C13_centroid_antisymmetric_real :
  forall (r : N) (first middle last : R), (r <= 575)%N ->
  hit_condition first middle last ->
  zR (575 - r) last middle first = - zR r first middle last.
Proof. exact centroid_antisymmetric_real_lemma. Qed.
Print Assumptions C13_centroid_antisymmetric_real.

(* under the hit condition the formula is a genuine real expression: non-zero divisors, positive arguments
   of both logarithms, sigma^2 > 0 *)
Theorem C13_hit_condition_well_defined :
  forall first middle last : R,
  hit_condition first middle last ->
  first <> 0 /\ first * last > 0 /\ last / first > 0 /\ middle ^ 2 / (first * last) > 1 /\
  ln (middle ^ 2 / (first * last)) > 0 /\ PAD_PITCH_Z > 0 /\
  sigma_squared PAD_PITCH_Z first middle last > 0.
Proof. exact hit_condition_well_defined_lemma. Qed.
Print Assumptions C13_hit_condition_well_defined.

(* the exact shape of the hypothesis of C13_mirror_equivariant (zt := R, amp := R, zf := zR, zneg := Ropp):
   with Coq's total / and ln the identity needs no condition on the amplitudes, so C13_mirror_equivariant
   can be instantiated with zf := zR and this theorem as its first premise *)
Theorem C13_centroid_antisymmetric_total :
  forall (r : N) (f m l : R), (r <= 575)%N -> zR (575 - r) l m f = Ropp (zR r f m l).
Proof. exact centroid_antisymmetric_total_lemma. Qed.
Print Assumptions C13_centroid_antisymmetric_total.

(* non-vacuity: a triple satisfying the hit condition; a symmetric triple is centred on its row *)
Example C13_hit_condition_example : hit_condition 1 3 2.
Proof. unfold hit_condition. repeat split; lra. Qed.
Example C13_centroid_symmetric_triple : forall r a m, zR r a m a = pad_row_z r.
Proof.
  intros. unfold zR, centroid_gen, pad_row_z. cbv zeta.
  destruct (Req_dec a 0) as [->|Ha].
  - unfold Rdiv at 4. rewrite Rinv_0, Rmult_0_r, ln_nonpos by lra. ring.
  - unfold Rdiv at 4. rewrite Rinv_r by exact Ha. rewrite ln_1. ring.
Qed.


(* ===== centroid z: antisymmetry of the real formula under row reversal (the zf premise of the mirror theorem) — imported from Signal/Centroid_mirror_pins.v ===== *)
(* C13 -- C13_mirror_equivariant instantiated over the reals with the ACTUAL centroid formula
   (zt := R, amp := R, zf := zR of Signal/Centroid.v, zneg := Ropp, `> 0.0` and `>` the order of R):
   the antisymmetry premise on zf and the comparability premise are discharged; what is left are the
   premises on the sort (any permutation sorted by descending amplitude), the shape of the pad table and
   NoPadTie (class pad_amplitude_tie, F6).  Pins only; axioms: the standard library's real-number axioms. *)
From Coq Require Import Reals Permutation Sorted.
From AG Require Import Base.Prelude Signal.Ring Signal.Avalanches Signal.Avalanches_proofs
  Signal.Centroid Signal.Centroid_proofs.

Theorem C13_mirror_equivariant_real :
  forall (sig : Type) (D : list sig -> list (list R)) (P : sig -> list R)
         (sortW : list (N * R) -> list (N * R)) (sortP : list (R * R) -> list (R * R)),
    (forall l, Permutation (sortP l) l) ->
    (forall l, hitsP Rposb Rgtb l -> StronglySorted (descP Rgtb) (sortP l)) ->
    forall (ws : list (option sig)) (pads : list (list (option sig))),
      Forall (fun col => N.of_nat (length col) = NROWS) pads ->
      NoPadTie 0%R Rposb Rgtb zR P pads ->
      avalanches 0%R Rposb Rgtb zR D P sortW sortP ws (mirror pads)
      = map (neg_z Ropp) (avalanches 0%R Rposb Rgtb zR D P sortW sortP ws pads).
Proof.
  intros sig D P sortW sortP Hperm Hsorted ws pads Hrows Hnt.
  apply (@mirror_equivariant_lemma sig R R 0%R Rposb Rgtb zR D P sortW sortP Ropp); auto.
  - intros r f m l Hr. apply centroid_antisymmetric_total_lemma. exact Hr.
  - intros a b _ _. apply Rgtb_total.
Qed.
Print Assumptions C13_mirror_equivariant_real.

(* the boolean test used by the instance is the hit condition of the pinned real theorems *)
Theorem C13_hit_condition_bool :
  forall f m l : R, (Rposb f && Rposb l && Rgtb m f && Rgtb m l)%bool = true <-> hit_condition f m l.
Proof. exact hit_condition_bool. Qed.
Print Assumptions C13_hit_condition_bool.

