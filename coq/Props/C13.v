(* C13 — reconstruction respects the detector's cylindrical and mirror symmetry.
   This file only pins statements; proofs live in Signal/Ring_proofs.v and Signal/Avalanches_proofs.v.
   Model: Signal/Ring.v (contiguous_ranges, range_to_indices, range_to_len of deconvolution/wires.rs),
   Signal/Avalanches.v (MainEvent::avalanches of lib.rs and matching.rs) with the numeric kernels
   abstract: D block deconvolution, P pad deconvolution, zf pad centroid, sortW/sortP the two sorts.

   Two classes of events are excluded by hypothesis and are OPEN known findings on the real code:
     full_ring_256      (F3)  all 256 wires carry data            -> C13_rotation_full_ring_refuted
     pad_amplitude_tie  (F6)  equal pad amplitudes in a time bin  -> C13_pad_tie_witness *)
From Coq Require Import Permutation Sorted.
From AG Require Import Base.Prelude Signal.Ring Signal.Ring_proofs Signal.Avalanches Signal.Avalanches_proofs.

(* --- the ring of wires ---------------------------------------------------------------------- *)

(* contiguous_ranges returns exactly the maximal cyclic blocks of present wires ((first wire, last wire + 1),
   all wires of the block present, the wire before and the wire after absent) ... *)
Theorem C13_contiguous_ranges_blocks : forall (sig : Type) (ws : list (option sig)) (f l : N),
  ~ full_ring ws -> (In (f, l) (contiguous_ranges ws) <-> block ws f l).
Proof. exact (@cr_in). Qed.
Print Assumptions C13_contiguous_ranges_blocks.

(* ... each once, with pairwise disjoint wire sets (so the order in which blocks are written into
   wire_inputs is immaterial) *)
Theorem C13_blocks_disjoint : forall (sig : Type) (ws : list (option sig)),
  NoDup (contiguous_ranges ws) /\ NoDup (flat_map range_to_indices (contiguous_ranges ws)).
Proof. exact blocks_disjoint_lemma. Qed.
Print Assumptions C13_blocks_disjoint.

(* key lemma: the blocks of the rotated ring are the rotated blocks, as a SET (their order in the
   vector may differ: pop + swap_remove(0) + push) *)
Theorem C13_contiguous_ranges_rotation : forall (sig : Type) (ws : list (option sig)) (s : N),
  wf ws -> ~ full_ring ws -> s <= NW ->
  Permutation (contiguous_ranges (rotw s ws)) (map (rot_range s) (contiguous_ranges ws)).
Proof. exact (@cr_rot_perm). Qed.
Print Assumptions C13_contiguous_ranges_rotation.

(* every block kernel call receives the same argument list: same signals, same order; and the wire
   indices it is zipped with are the shifted ones *)
Theorem C13_block_arguments_rotation : forall (sig : Type) (ws : list (option sig)) (s f l : N),
  wf ws -> s <= NW -> f < NW -> 1 <= l <= NW ->
  block_sigs (rotw s ws) (rot_range s (f, l)) = block_sigs ws (f, l) /\
  range_to_indices (rot_range s (f, l)) = map (fun i => (i + s) mod NW) (range_to_indices (f, l)).
Proof. exact block_arguments_rotation_lemma. Qed.
Print Assumptions C13_block_arguments_rotation.

(* the unwrap()s of y_matrix cannot fail on a block, and the index list has range_to_len entries *)
Theorem C13_block_signals_present : forall (sig : Type) (ws : list (option sig)) (f l : N),
  block ws f l ->
  length (block_sigs ws (f, l)) = length (range_to_indices (f, l)) /\
  length (range_to_indices (f, l)) = N.to_nat (range_to_len (f, l)).
Proof. exact block_signals_present_lemma. Qed.
Print Assumptions C13_block_signals_present.

(* wire_inputs[first..first + 8] of lib.rs:441 stays inside the 256 slots *)
Theorem C13_column_slice_in_bounds : forall c : N,
  snd (pad_column_to_wires c) <= NW /\ fst (pad_column_to_wires c) + 8 = snd (pad_column_to_wires c).
Proof. exact pctw_in_bounds. Qed.
Print Assumptions C13_column_slice_in_bounds.

(* --- rotation ------------------------------------------------------------------------------- *)

(* For every event outside the class full_ring_256: rotating by k pad columns (8k wires) permutes the
   avalanches and moves each to the rotated wire; t, z and both amplitudes are untouched.
   Assumed of the kernels: D returns one input per wire of the block; the wire-hit sort looks at
   amplitudes only. Nothing is assumed about P, zf, sortP or the values D returns. *)
Theorem C13_rotation_equivariant :
  forall (sig amp zt : Type) (azero : amp) (apos : amp -> bool) (agt : amp -> amp -> bool)
         (zf : N -> amp -> amp -> amp -> zt) (D : list sig -> list (list amp)) (P : sig -> list amp)
         (sortW : list (N * amp) -> list (N * amp)) (sortP : list (zt * amp) -> list (zt * amp)),
    (forall l, length (D l) = length l) ->
    (forall (f : N -> N) l, sortW (map (fun h => (f (fst h), snd h)) l)
                            = map (fun h => (f (fst h), snd h)) (sortW l)) ->
    forall (ws : list (option sig)) (pads : list (list (option sig))) (k : N),
      wf ws -> N.of_nat (length pads) = NCOLS ->
      ~ full_ring ws ->
      k < 32 ->
      Permutation (avalanches azero apos agt zf D P sortW sortP (rotw (8 * k) ws) (rotc k pads))
                  (map (shift_wire (8 * k)) (avalanches azero apos agt zf D P sortW sortP ws pads)).
Proof. exact (@rotation_equivariant_lemma). Qed.
Print Assumptions C13_rotation_equivariant.

(* the same for the executable binary64 skeleton that the differential run replays against the
   implementation (stable insertion sorts): only the shape law of D remains as a premise *)
Theorem C13_rotation_equivariant_executable :
  forall zf D P (ws : list (option N)) (pads : list (list (option N))) (k : N),
    (forall l, length (D l) = length l) ->
    wf ws -> N.of_nat (length pads) = NCOLS -> ~ full_ring ws -> k < 32 ->
    Permutation (avalanches_f zf D P (rotw (8 * k) ws) (rotc k pads))
                (map (shift_wire (8 * k)) (avalanches_f zf D P ws pads)).
Proof. exact rotation_equivariant_f_lemma. Qed.
Print Assumptions C13_rotation_equivariant_executable.

(* class full_ring_256: the single block always starts at wire 0, so D receives the ROTATED list of
   signals, where equivariance needs the block (s, s) and the same list *)
Theorem C13_full_ring_block_not_rotated : forall (sig : Type) (sigs : list sig) (s : N),
  N.of_nat (length sigs) = NW -> s <= NW ->
  contiguous_ranges (rotw s (map Some sigs)) = [(0, NW)] /\
  block_sigs (rotw s (map Some sigs)) (0, NW) = rotw s sigs /\
  (0 < s < NW -> rot_range s (0, NW) = (s, s)).
Proof. exact (@full_ring_block_not_rotated). Qed.
Print Assumptions C13_full_ring_block_not_rotated.

(* ... and with a position-dependent block kernel (as a banded, non-circulant solve is) the conclusion of
   C13_rotation_equivariant fails: witness in the class, all other premises true *)
Theorem C13_rotation_full_ring_refuted :
  exists (D : list (list Z) -> list (list Z)) ws pads k,
    (forall l, length (D l) = length l) /\ wf ws /\ N.of_nat (length pads) = NCOLS /\
    full_ring ws /\ k < 32 /\
    ~ Permutation (Toy.av D (rotw (8 * k) ws) (rotc k pads))
                  (map (shift_wire (8 * k)) (Toy.av D ws pads)).
Proof. exact rotation_full_ring_refuted_lemma. Qed.
Print Assumptions C13_rotation_full_ring_refuted.

(* --- mirror --------------------------------------------------------------------------------- *)

(* For every event outside the class pad_amplitude_tie: mirroring the pad rows (r -> 575 - r) maps every
   avalanche to the same wire, time and amplitudes with z negated, in the same order.
   Assumed: the centroid is antisymmetric (exactly, here; to 1e-9 m in binary64, checked by the rel-mir
   lines); distinct amplitudes are comparable; sortP returns a permutation sorted by descending amplitude
   (nothing about the order of ties, as for an unstable sort). *)
Theorem C13_mirror_equivariant :
  forall (sig amp zt : Type) (azero : amp) (apos : amp -> bool) (agt : amp -> amp -> bool)
         (zf : N -> amp -> amp -> amp -> zt) (D : list sig -> list (list amp)) (P : sig -> list amp)
         (sortW : list (N * amp) -> list (N * amp)) (sortP : list (zt * amp) -> list (zt * amp))
         (zneg : zt -> zt),
    (forall r f m l, r <= 575 -> zf (575 - r) l m f = zneg (zf r f m l)) ->
    (forall a b : amp, a <> b -> agt a b = true \/ agt b a = true) ->
    (forall l, Permutation (sortP l) l) ->
    (forall l, StronglySorted (descP agt) (sortP l)) ->
    forall (ws : list (option sig)) (pads : list (list (option sig))),
      Forall (fun col => N.of_nat (length col) = NROWS) pads ->
      NoPadTie azero apos agt zf P pads ->
      avalanches azero apos agt zf D P sortW sortP ws (mirror pads)
      = map (neg_z zneg) (avalanches azero apos agt zf D P sortW sortP ws pads).
Proof. exact (@mirror_equivariant_lemma). Qed.
Print Assumptions C13_mirror_equivariant.

(* class pad_amplitude_tie: witness in the class (the F6 event of DESIGN.md A.12, exact arithmetic,
   the executable stable sort), all other premises true, conclusion false *)
Theorem C13_pad_tie_witness :
  Forall (fun col => N.of_nat (length col) = NROWS) Toy.pads6 /\
  ~ NoPadTie 0%Z Toy.apos Toy.agt Toy.zf Toy.P Toy.pads6 /\
  Toy.av Toy.Did Toy.ws6 (mirror Toy.pads6) <> map (neg_z Z.opp) (Toy.av Toy.Did Toy.ws6 Toy.pads6).
Proof. exact pad_tie_witness_lemma. Qed.
Print Assumptions C13_pad_tie_witness.

(* --- the premises are satisfiable: an exact instance (amplitudes and z in Z, stable insertion sorts) --- *)
Theorem C13_instance_rotation : forall D ws pads k, (forall l, length (D l) = length l) ->
  wf ws -> N.of_nat (length pads) = NCOLS -> ~ full_ring ws -> k < 32 ->
  Permutation (Toy.av D (rotw (8 * k) ws) (rotc k pads)) (map (shift_wire (8 * k)) (Toy.av D ws pads)).
Proof. exact Toy.toy_rotation. Qed.
Print Assumptions C13_instance_rotation.

Theorem C13_instance_mirror : forall D ws pads,
  Forall (fun col => N.of_nat (length col) = NROWS) pads ->
  NoPadTie 0%Z Toy.apos Toy.agt Toy.zf Toy.P pads ->
  Toy.av D ws (mirror pads) = map (neg_z Z.opp) (Toy.av D ws pads).
Proof. exact Toy.toy_mirror. Qed.
Print Assumptions C13_instance_mirror.

(* the premise NoPadTie holds on a non-trivial concrete value (the F6 column with a single peak) *)
Example C13_nonvacuous_no_tie : NoPadTie 0%Z Toy.apos Toy.agt Toy.zf Toy.P (Toy.mkpads (Toy.peak 11 100)).
Proof. exact toy_no_tie. Qed.

(* non-vacuity on concrete values: the F6 event is a partial ring of the right shape with two avalanches;
   its blocks and their rotation by one pad column *)
Example C13_nonvacuous_event :
  wf Toy.ws6 /\ full_ringb Toy.ws6 = false /\
  contiguous_ranges Toy.ws6 = [(94, 109)] /\
  contiguous_ranges (rotw 152 Toy.ws6) = [(246, 5)] /\
  Toy.av Toy.Did Toy.ws6 Toy.pads6 = [Aval 100 1 (-740)%Z 100%Z 80%Z; Aval 102 1 60%Z 60%Z 80%Z] /\
  Toy.av Toy.Did (rotw 152 Toy.ws6) (rotc 19 Toy.pads6)
  = [Aval 252 1 (-740)%Z 100%Z 80%Z; Aval 254 1 60%Z 60%Z 80%Z].
Proof. vm_compute. repeat split; reflexivity. Qed.
