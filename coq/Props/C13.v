(* C13 — placeholder, statements are pinned below once proved. *)
From AG Require Import Base.Prelude Signal.Ring Signal.Avalanches.
