(* C06 — TRG packet decoding is exact and decoded counters are ordered.
   This file only pins statements; proofs live in Codec/Trg_proofs.v. *)
From AG Require Import Base.Prelude Base.Res Base.Bytes Codec.Trg Codec.Trg_proofs.

(* accepted  <->  field ranges hold and the bytes are the documented little-endian layout of the fields
   (reserved bits/words are zero because the encoder never writes them) *)
Theorem C06_trg_exact : forall l f,
  bytes l -> (trg_decode l = Ok f <-> trg_fields_ok f /\ l = trg_encode f).
Proof. exact trg_exact_lemma. Qed.
Print Assumptions C06_trg_exact.

Theorem C06_trg_other_length_rejected : forall l, lenN l <> 80 -> exists k, trg_decode l = Err k.
Proof. exact trg_len_lemma. Qed.
Print Assumptions C06_trg_other_length_rejected.

Theorem C06_trg_counters_ordered : forall l f, bytes l -> trg_decode l = Ok f ->
  t_out f <= t_scaled f /\ t_scaled f <= t_drift f /\ t_drift f <= t_in f.
Proof. exact trg_counters_ordered_lemma. Qed.
Print Assumptions C06_trg_counters_ordered.

Theorem C06_trg_reencode : forall l f, bytes l -> trg_decode l = Ok f -> trg_encode f = l.
Proof. exact trg_reencode_lemma. Qed.
Print Assumptions C06_trg_reencode.

Theorem C06_trg_total : forall l, bytes l -> trg_decode l <> Panic.
Proof. exact trg_total_lemma. Qed.
Print Assumptions C06_trg_total.

(* non-vacuity: the packet of the repository's documentation is accepted, with ordered counters *)
Definition doc_packet : list N :=
  [255;0;0;0; 0;0;0;128; 254;0;0;0; 0;0;0;0; 3;0;0;0; 0;0;0;0; 5;0;0;0; 6;0;0;0; 7;0;0;0;
   8;0;0;128; 2;0;0;0; 1;0;0;0; 0;0;0;0; 9;0;10;0; 11;0;0;0;0;0;0;0; 12;0;0;0; 13;0;0;0;
   14;0;0;0; 0;0;0;224].
Example C06_nonvacuous : is_ok (trg_decode doc_packet) = true /\ bytesb doc_packet = true.
Proof. vm_compute. split; reflexivity. Qed.
