(* C04 — PWB packet reassembly is arrival-order independent and loss/duplication safe.
   This file only pins statements; model in Codec/Reasm.v, proofs in Codec/Reasm_proofs.v.
   `sortF` stands for slice::sort_unstable_by_key: any permutation sorted by chunk id (admissible_sort).
   `pwb_decode` stands for PwbV2Packet::try_from(&[u8]) (modelled for C05; abstract here).
   Hypothesis `Forall (chunk_ok devices) cs`: the chunks are values the chunk decoder can produce
   (C04_decoded_chunks_ok); the Rust type Chunk has no other constructor. *)
From Coq Require Import Sorting.Permutation.
From AG Require Import Base.Prelude Base.Res Base.Bytes Codec.Chunk Codec.Reasm Codec.Reasm_proofs.

(* success <-> the set is well formed (non-empty, one board, one chip, ids a permutation of 0..n-1, end-of-message
   on id n-1 only, every id < n-1 as long as id 0; the final chunk may have any size) and the payloads concatenated
   in id order decode to that packet *)
Theorem C04_reasm_ok_iff : forall devices m P (pwb_decode : list N -> res P) sortF cs p,
  admissible_sort sortF -> Forall (chunk_ok devices) cs ->
  (reasm devices m sortF P pwb_decode cs = Ok p <-> wf_set cs /\ pwb_decode (concat_by_id cs) = Ok p).
Proof. exact reasm_ok_iff. Qed.
Print Assumptions C04_reasm_ok_iff.

(* any arrival order and any two admissible sorts: identical result (packet, or error kind and position) *)
Theorem C04_reasm_perm : forall devices m P (pwb_decode : list N -> res P) sortF sortF' cs cs',
  admissible_sort sortF -> admissible_sort sortF' -> Forall (chunk_ok devices) cs -> Permutation cs cs' ->
  reasm devices m sortF P pwb_decode cs = reasm devices m sortF' P pwb_decode cs'.
Proof. exact reasm_perm. Qed.
Print Assumptions C04_reasm_perm.

(* never a panic (both overflow modes), provided the payload decoder does not panic *)
Theorem C04_reasm_total : forall devices m P (pwb_decode : list N -> res P) sortF cs,
  admissible_sort sortF -> Forall (chunk_ok devices) cs ->
  (forall l, bytes l -> pwb_decode l <> Panic) -> reasm devices m sortF P pwb_decode cs <> Panic.
Proof. exact reasm_total. Qed.
Print Assumptions C04_reasm_total.

Theorem C04_decoded_chunks_ok : forall devices m ls cs, Forall bytes ls ->
  Forall2 (fun l c => chunk_decode devices m l = Ok c) ls cs -> Forall (chunk_ok devices) cs.
Proof. exact decoded_chunks_ok. Qed.
Print Assumptions C04_decoded_chunks_ok.

(* every ill-formed set is refused with an error, before the payload decoder is reached *)
Theorem C04_reasm_not_wf : forall devices m P (pwb_decode : list N -> res P) sortF cs,
  admissible_sort sortF -> Forall (chunk_ok devices) cs -> ~ wf_set cs ->
  exists k, reasm devices m sortF P pwb_decode cs = Err k.
Proof. exact reasm_not_wf. Qed.
Print Assumptions C04_reasm_not_wf.

(* the single faults of the property text *)
Theorem C04_missing_id_err : forall devices m P (pwb_decode : list N -> res P) sortF,
  admissible_sort sortF -> forall cs, Forall (chunk_ok devices) cs ->
  (exists i, i < lenN cs /\ ~ In i (map c_id cs)) -> exists k, reasm devices m sortF P pwb_decode cs = Err k.
Proof. exact missing_id_err. Qed.
Print Assumptions C04_missing_id_err.

Theorem C04_dup_id_err : forall devices m P (pwb_decode : list N -> res P) sortF,
  admissible_sort sortF -> forall cs, Forall (chunk_ok devices) cs ->
  ~ NoDup (map c_id cs) -> exists k, reasm devices m sortF P pwb_decode cs = Err k.
Proof. exact dup_id_err. Qed.
Print Assumptions C04_dup_id_err.

Theorem C04_mixed_board_err : forall devices m P (pwb_decode : list N -> res P) sortF,
  admissible_sort sortF -> forall cs, Forall (chunk_ok devices) cs ->
  (exists c c', In c cs /\ In c' cs /\ c_dev c <> c_dev c') -> exists k, reasm devices m sortF P pwb_decode cs = Err k.
Proof. exact mixed_board_err. Qed.
Print Assumptions C04_mixed_board_err.

Theorem C04_mixed_chip_err : forall devices m P (pwb_decode : list N -> res P) sortF,
  admissible_sort sortF -> forall cs, Forall (chunk_ok devices) cs ->
  (exists c c', In c cs /\ In c' cs /\ c_chan c <> c_chan c') -> exists k, reasm devices m sortF P pwb_decode cs = Err k.
Proof. exact mixed_chip_err. Qed.
Print Assumptions C04_mixed_chip_err.

Theorem C04_eom_absent_err : forall devices m P (pwb_decode : list N -> res P) sortF,
  admissible_sort sortF -> forall cs, Forall (chunk_ok devices) cs ->
  (exists c, In c cs /\ c_id c = lenN cs - 1 /\ c_eom c = false) ->
  exists k, reasm devices m sortF P pwb_decode cs = Err k.
Proof. exact eom_absent_err. Qed.
Print Assumptions C04_eom_absent_err.

Theorem C04_eom_early_err : forall devices m P (pwb_decode : list N -> res P) sortF,
  admissible_sort sortF -> forall cs, Forall (chunk_ok devices) cs ->
  (exists c, In c cs /\ c_id c <> lenN cs - 1 /\ c_eom c = true) ->
  exists k, reasm devices m sortF P pwb_decode cs = Err k.
Proof. exact eom_early_err. Qed.
Print Assumptions C04_eom_early_err.

Theorem C04_nonfinal_size_err : forall devices m P (pwb_decode : list N -> res P) sortF,
  admissible_sort sortF -> forall cs, Forall (chunk_ok devices) cs ->
  (exists c c0, In c cs /\ In c0 cs /\ c_id c0 = 0 /\ c_id c < lenN cs - 1 /\
                lenN (c_payload c) <> lenN (c_payload c0)) ->
  exists k, reasm devices m sortF P pwb_decode cs = Err k.
Proof. exact nonfinal_size_err. Qed.
Print Assumptions C04_nonfinal_size_err.

(* the fault list of the property text is complete: a set is well formed (hence, by C04_reasm_ok_iff, reassembled
   whenever its concatenated payload decodes) exactly when it is non-empty and shows none of the listed faults *)
Theorem C04_wf_set_iff_no_fault : forall cs,
  wf_set cs <-> cs <> [] /\ ~ F_board cs /\ ~ F_chip cs /\ ~ F_missing cs /\ ~ F_dup cs /\
                ~ F_eom_absent cs /\ ~ F_eom_early cs /\ ~ F_size cs.
Proof. exact wf_set_iff_no_fault. Qed.
Print Assumptions C04_wf_set_iff_no_fault.

(* all valid messages, all chunk sizes, all arrival orders: a payload cut by the sender into pieces of k bytes
   (1 <= k <= 65535; the last piece takes the rest; at most 65536 pieces), numbered from 0, end-of-message on the last
   one, arriving in any order, reassembles to exactly what the payload decoder makes of the payload *)
Theorem C04_split_reasm : forall devices m dev chan (pseq cseq : N -> N),
  dev_known devices dev = true -> chan <= 3 -> (forall i, pseq i < 2^32) -> (forall i, cseq i < 2^16) ->
  forall k, 1 <= k <= 65535 ->
  forall (front : list (list N)) (lastp : list N),
  Forall (fun q => lenN q = k /\ bytes q) front -> 1 <= lenN lastp <= 65535 /\ bytes lastp ->
  N.of_nat (length front) <= 65535 ->
  forall P (pwb_decode : list N -> res P) sortF, admissible_sort sortF ->
  forall cs', Permutation (chunks_of dev chan pseq cseq front lastp) cs' ->
  reasm devices m sortF P pwb_decode cs' =
  match pwb_decode (concat front ++ lastp) with Ok p => Ok p | Err _ => Err E_PAYLOAD | Panic => Panic end.
Proof. exact split_reasm. Qed.
Print Assumptions C04_split_reasm.

(* the hypotheses on the sort are satisfiable: the insertion sort used by the executable model *)
Theorem C04_isort_admissible : admissible_sort isort_by_id.
Proof. exact isort_admissible. Qed.
Print Assumptions C04_isort_admissible.

(* ---------- a 3-chunk packet in all 6 arrival orders, and its single faults ---------- *)
Definition ex_dev : N := 2281646316.
Definition ex_chunk (id flags : N) (payload : list N) : chunk :=
  {| c_dev := ex_dev; c_pseq := 7; c_cseq := 9; c_chan := 2; c_flags := flags; c_id := id; c_payload := payload |}.
Definition ka := ex_chunk 0 0 [1; 2].
Definition kb := ex_chunk 1 0 [3; 4].
Definition kc := ex_chunk 2 1 [5].
Definition ex_reasm (cs : list chunk) : res (list N) :=
  reasm [ex_dev; 2734303468] Checked isort_by_id (list N) (fun l => Ok l) cs.
Example C04_six_orders :
  map ex_reasm [[ka; kb; kc]; [ka; kc; kb]; [kb; ka; kc]; [kb; kc; ka]; [kc; ka; kb]; [kc; kb; ka]]
  = repeat (Ok [1; 2; 3; 4; 5]) 6.
Proof. vm_compute. reflexivity. Qed.
Example C04_faults :
  map (fun cs => is_err (ex_reasm cs))
    [ [];                                            (* nothing *)
      [ka; kc];                                      (* id 1 missing *)
      [kb; kc];                                      (* id 0 missing *)
      [ka; kb];                                      (* last missing: no end-of-message *)
      [ka; kb; kb; kc];                              (* duplicate *)
      [ka; kb; ex_chunk 2 0 [5]];                    (* end-of-message absent *)
      [ka; ex_chunk 1 1 [3; 4]; kc];                 (* end-of-message early *)
      [ka; ex_chunk 1 0 [3]; kc];                    (* non-final chunk of another size *)
      [ka; kb; {| c_dev := 2734303468; c_pseq := 7; c_cseq := 9; c_chan := 2; c_flags := 1; c_id := 2; c_payload := [5] |}];
      [ka; kb; {| c_dev := ex_dev; c_pseq := 7; c_cseq := 9; c_chan := 3; c_flags := 1; c_id := 2; c_payload := [5] |}] ]
  = repeat true 10.
Proof. vm_compute. reflexivity. Qed.
(* the final chunk may be longer than the others *)
Example C04_last_chunk_any_size : ex_reasm [ex_chunk 1 1 [3; 4; 5; 6; 7]; ka] = Ok [1; 2; 3; 4; 5; 6; 7].
Proof. vm_compute. reflexivity. Qed.
