(* C05 — PWB v2 packet decoding is exact; every sent channel has its full waveform.
   Statements only; proofs in Codec/Pwb_proofs.v. *)
From Coq Require Import Sorted.
From AG Require Import Base.Prelude Base.Res Base.Bytes Codec.Adc Codec.Pwb Codec.Pwb_proofs Gen.Boards Ident.Tables.

(* non-vacuity: two channels (pad 1 = readout index 4, FPN 1 = readout index 16), 3 samples each (odd: padded) *)
Definition c05_example : list N :=
  [2;65;0;0; 236;40;255;135;84;2; 1;0; 1;2;3;4;5;6; 0;0; 10;0; 3;0;
   8;128;0;0;0;0;0;0;0;0;  8;0;0;0;0;0;0;0;0;0; 7;0;0;0; 9;0; 1; 2;
   4;0;3;0; 1;0; 255;255; 0;128; 0;0;
   16;0;3;0; 5;0; 6;0; 7;0; 0;0;
   204;204;204;204].
Example C05_nonvacuous_decode :
  match pwb_decode pwb_macs Checked c05_example with
  | Ok f => list_eqb (pwb_encode f) c05_example &&
            match p_sent f, waveform_at Checked f (Fpn 1), waveform_at Checked f (Pad 2) with
            | [Pad 1; Fpn 1], Ok (Some [5; 6; 7]%Z), Ok None => true
            | _, _, _ => false
            end
  | _ => false
  end = true.
Proof. vm_compute. reflexivity. Qed.
