(* C05 — PWB v2 packet decoding is exact; every sent channel has its full waveform.
   Statements only; proofs in Codec/Pwb_proofs.v. *)
From Coq Require Import Sorted.
From AG Require Import Base.Prelude Base.Res Base.Bytes Codec.Adc Codec.Pwb Codec.Pwb_proofs Gen.Boards Ident.Tables.

(* ---- exactness ---- *)
(* For ANY table of known MAC addresses, both overflow modes and every byte list:
   accepted  <->  the field rules hold and the bytes are the documented little-endian layout of the fields:
   version 2, chip 'A' + 0..3, compression 0, trigger source 0/1/3, known MAC, delay, 48-bit timestamp, two zero
   bytes, last SCA cell and requested samples <= 511, the two 80-bit masks of the channel lists (channels of the
   chip in strictly ascending readout order, hence bit 79 clear), event counter, FIFO depths, then one block per sent
   channel in that order -- readout index, sample count, samples, two zero bytes iff the count is odd -- and the
   end marker CC CC CC CC with nothing after it.  Re-encoding the decoded fields reproduces the input. *)
Theorem C05_pwb_exact : forall macs m l f, bytes l ->
  (pwb_decode macs m l = Ok f <-> pwb_fields_ok macs f /\ l = pwb_encode f).
Proof. exact pwb_exact_lemma. Qed.
Print Assumptions C05_pwb_exact.

(* the acceptance condition as the bullet list of the property text, stated on the input bytes alone ([pwb_wf] in
   Codec/Pwb_proofs.v): at least 56 bytes, version 2, chip 'A'..'D', compression 0, trigger source 0/1/3, known MAC,
   zero bytes 18-19, last SCA cell and requested samples <= 511, bit 79 clear in both masks, exactly
   56 + bytes_per_channel * (number of set bits of the sent mask) bytes, for the k-th set bit a block at
   52 + k * bytes_per_channel carrying that channel's readout index, the requested count and zero padding iff odd,
   and CC CC CC CC as the last four bytes *)
Theorem C05_pwb_accept_iff_wf : forall macs m l, bytes l ->
  ((exists f, pwb_decode macs m l = Ok f) <-> pwb_wf macs l).
Proof. exact pwb_accept_iff_wf_lemma. Qed.
Print Assumptions C05_pwb_accept_iff_wf.

(* ---- every sent channel has its full waveform ---- *)
(* For a packet satisfying the field rules (by C05_pwb_exact: every accepted packet) and a channel c that was sent:
   c is the k-th sent channel, waveform_at returns -- without panic, in both overflow modes -- exactly the samples w
   of the k-th block of the encoding ([pwb_encode f] writes [block_bytes req c w] as its k-th block, w being the
   k-th element of [pwb_waves f]), and there are exactly requested_samples of them. *)
Theorem C05_waveform_at_block : forall macs m f c, pwb_fields_ok macs f -> In c (p_sent f) ->
  exists k w, nth_error (p_sent f) k = Some c /\ nth_error (pwb_waves f) k = Some w /\
              waveform_at m f c = Ok (Some w) /\ lenN w = p_req f.
Proof. exact waveform_at_block_lemma. Qed.
Print Assumptions C05_waveform_at_block.

(* a channel that was not sent has no waveform (any packet value, both overflow modes) *)
Theorem C05_waveform_absent : forall m f c, ~ In c (p_sent f) -> waveform_at m f c = Ok None.
Proof. exact waveform_absent_lemma. Qed.
Print Assumptions C05_waveform_absent.

(* the same on the INPUT bytes: for an accepted payload l and a sent channel c (the k-th), the bytes of l at offset
   52 + k * bytes_per_channel are exactly [readout index of c; count; the samples waveform_at returns; zero padding
   iff odd], with bytes_per_channel = 4 + 2 * requested_samples (+ 2 iff odd) *)
Theorem C05_waveform_bytes : forall macs m l f c, bytes l -> pwb_decode macs m l = Ok f -> In c (p_sent f) ->
  exists k w, nth_error (p_sent f) (N.to_nat k) = Some c /\ waveform_at m f c = Ok (Some w) /\ lenN w = p_req f /\
    subN l (52 + bpc_of (p_req f) * k) (bpc_of (p_req f)) = block_bytes (p_req f) c w.
Proof. exact waveform_bytes_lemma. Qed.
Print Assumptions C05_waveform_bytes.

(* the sent and over-threshold channel lists of an accepted payload are the set bits of its two masks (bytes 24-33
   and 34-43) in ascending order, bit i <-> readout index i + 1, and bit 79 of both masks is clear *)
Theorem C05_channel_lists : forall macs m l f, bytes l -> pwb_decode macs m l = Ok f ->
  p_sent f = mask_chan_list (le_val (subN l 24 10)) /\ p_over f = mask_chan_list (le_val (subN l 34 10)) /\
  N.testbit (le_val (subN l 24 10)) 79 = false /\ N.testbit (le_val (subN l 34 10)) 79 = false.
Proof. exact channel_lists_lemma. Qed.
Print Assumptions C05_channel_lists.

(* ---- the mask loop (padwing.rs:1390-1394) ---- *)
(* For every u128 and both overflow modes the leading_zeros loop with fuel 128 terminates without panic and pushes
   exactly the set bits, highest first (the code then reverses: ascending).  [mask_bits num n] is
   [filter (N.testbit num) [0; ...; n-1]]. *)
Theorem C05_mask_loop_set_bits : forall m num, num < 2 ^ 128 ->
  mask_loop m 128 num = Ok (rev (mask_bits num 128)) /\ StronglySorted N.lt (mask_bits num 128).
Proof. exact mask_bits_ascending_lemma. Qed.
Print Assumptions C05_mask_loop_set_bits.

(* Ten mask bytes with bit 79 clear give exactly the set bits 0..78 in ascending readout order, bit i mapped to
   the channel with readout index i + 1 ([mask_chan_list]); the list is strictly ascending in readout index. *)
Theorem C05_mask_bits_ascending : forall m s, bytes s -> lenN s = 10 -> nthN s 9 < 128 ->
  mask_chans m s = Ok (mask_chan_list (le_val s)) /\
  mask_chan_list (le_val s) = map (fun i => readout_chan_d (i + 1)) (filter (N.testbit (le_val s)) (Nrange 79)) /\
  StronglySorted N.lt (map chan_readout (mask_chan_list (le_val s))).
Proof. exact mask_chans_lemma. Qed.
Print Assumptions C05_mask_bits_ascending.

(* ---- readout index <-> channel (padwing.rs:819-839), finite computation over the 79 indices ---- *)
(* The conversion of the code equals the documented readout order for EVERY index (both overflow modes);
   indices 1..79 and the 3 reset + 4 FPN + 72 pad channels are in bijection. *)
Theorem C05_readout_bijection :
  (forall m i, chan_of_readout m i = match readout_chan i with Some c => Ok c | None => Err PE end) /\
  (forall i, readout_chan i <> None <-> 1 <= i <= 79) /\
  (forall i c, readout_chan i = Some c -> chan_readout c = i /\ chan_valid c = true) /\
  (forall c, chan_valid c = true -> readout_chan (chan_readout c) = Some c /\ 1 <= chan_readout c <= 79) /\
  (forall c, chan_valid c = true <->
             match c with Reset n => 1 <= n <= 3 | Fpn n => 1 <= n <= 4 | Pad n => 1 <= n <= 72 end) /\
  length readout_order = 79%nat /\ NoDup readout_order.
Proof. exact readout_bijection_lemma. Qed.
Print Assumptions C05_readout_bijection.

(* ---- no panic, no silent wrap-around ---- *)
Theorem C05_pwb_total : forall macs m l, bytes l -> pwb_decode macs m l <> Panic.
Proof. exact pwb_total_lemma. Qed.
Print Assumptions C05_pwb_total.

Theorem C05_pwb_no_wrap : forall macs l, bytes l -> pwb_decode macs Checked l = pwb_decode macs Wrapping l.
Proof. exact pwb_no_wrap_lemma. Qed.
Print Assumptions C05_pwb_no_wrap.

(* the MAC table regenerated from detector/src/padwing.rs (PADWING_BOARDS) is well formed: the decoder's
   6-byte comparison can match every entry *)
Theorem C05_boards_current : Forall (fun mac => length mac = 6%nat /\ bytes mac) pwb_macs.
Proof.
  apply Forall_forall. intros mac H.
  assert (G : forallb (fun mac => Nat.eqb (length mac) 6 && bytesb mac) pwb_macs = true) by (vm_compute; reflexivity).
  rewrite forallb_forall in G. specialize (G mac H). apply andb_true_iff in G. destruct G as [G1 G2].
  split; [apply Nat.eqb_eq; exact G1|apply bytesb_spec; exact G2].
Qed.
Print Assumptions C05_boards_current.

(* non-vacuity: two channels (pad 1 = readout index 4, FPN 1 = readout index 16), 3 samples each (odd: padded) *)
Definition c05_example : list N :=
  [2;65;0;0; 236;40;255;135;84;2; 1;0; 1;2;3;4;5;6; 0;0; 10;0; 3;0;
   8;128;0;0;0;0;0;0;0;0;  8;0;0;0;0;0;0;0;0;0; 7;0;0;0; 9;0; 1; 2;
   4;0;3;0; 1;0; 255;255; 0;128; 0;0;
   16;0;3;0; 5;0; 6;0; 7;0; 0;0;
   204;204;204;204].
Example C05_nonvacuous_decode :
  match pwb_decode pwb_macs Checked c05_example with
  | Ok f => list_eqb (pwb_encode f) c05_example &&
            match p_sent f, waveform_at Checked f (Fpn 1), waveform_at Checked f (Pad 2) with
            | [Pad 1; Fpn 1], Ok (Some [5; 6; 7]%Z), Ok None => true
            | _, _, _ => false
            end
  | _ => false
  end = true.
Proof. vm_compute. reflexivity. Qed.

(* the field predicate is satisfiable: the decoded fields of the example, by C05_pwb_exact *)
Definition c05_example_fields : pwb :=
  {| p_chip := 0; p_trig := 0; p_mac := [236; 40; 255; 135; 84; 2]; p_delay := 1; p_ts := 6618611909121;
     p_last := 10; p_req := 3; p_sent := [Pad 1; Fpn 1]; p_over := [Pad 1]; p_counter := 7; p_fifo := 9;
     p_wdepth := 1; p_rdepth := 2;
     p_data := [4; 3; 1; -1; -32768; 0; 16; 3; 5; 6; 7; 0; -13108; -13108]%Z |}.
Example C05_fields_ok_satisfiable :
  pwb_fields_ok pwb_macs c05_example_fields /\ pwb_encode c05_example_fields = c05_example /\
  pwb_waves c05_example_fields = [[1; -1; -32768]; [5; 6; 7]]%Z.
Proof.
  assert (Hb : bytes c05_example) by (apply bytesb_spec; vm_compute; reflexivity).
  assert (E : pwb_decode pwb_macs Checked c05_example = Ok c05_example_fields) by (vm_compute; reflexivity).
  destruct (proj1 (C05_pwb_exact pwb_macs Checked _ _ Hb) E) as [A B].
  split; [exact A|]. split; [symmetry; exact B|]. vm_compute. reflexivity.
Qed.
