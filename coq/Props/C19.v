(* C19 — vertex / trg-scaler CSVs: one row per main event, in run order, with unwrapped time.
   This file only pins statements; proofs live in Apps/Rows_proofs.v and Apps/FileOrder_proofs.v.

   Not a theorem (runtime behaviour): byte-identical output for every RAYON_NUM_THREADS. The model
   assumes that rayon's indexed `par_extend(into_par_iter().filter().map())` keeps the order of the
   events; the harness exercises the real binary with 1, 2, 5 and 16 threads on every case. *)
From AG Require Import Base.Prelude Base.Res Apps.FileOrder Apps.Rows Apps.FileOrder_proofs Apps.Rows_proofs.
From Coq Require Import Permutation Sorted.

(* ---------------------------------------------------------------------------------------------
   rows: exactly one per main event, in order, with its serial number; empty fields iff undecodable;
   payload columns are the event's; other event types give none.  For every event list. *)
Theorem C19_rows_one_per_main : forall (P : Type) (evs : list (event P)),
  Forall2 (fun (r : row P) (e : event P) =>
             fst r = e_serial e /\
             (snd r = None <-> e_dec e = None) /\
             (forall t p, e_dec e = Some (t, p) -> exists c, snd r = Some (c, p)))
          (scan_rows (main_items evs))
          (filter (fun e => is_main (e_id e)) evs).
Proof. exact rows_one_per_main_lemma. Qed.
Print Assumptions C19_rows_one_per_main.

Theorem C19_main_event_is_id_1 : forall id, is_main id = true <-> id = 1.
Proof. exact is_main_iff. Qed.
Print Assumptions C19_main_event_is_id_1.

Theorem C19_other_event_types_give_no_row : forall (P : Type) (a b : list (event P)) e,
  e_id e <> 1 -> main_items (a ++ e :: b) = main_items (a ++ b).
Proof. exact rows_skip_other_lemma. Qed.
Print Assumptions C19_other_event_types_give_no_row.

(* ---------------------------------------------------------------------------------------------
   time: for decodable events x before y (anything before, between, after), ticks(y) - ticks(x) is
   the sum of the 32-bit-wrapped differences along x, the decodable events in between, y.
   What the code does with the "previous timestamp": an undecodable event re-uses it (delta 0) and
   leaves it unchanged, so undecodable events neither add time nor reset the reference — the
   statement of the property text is TRUE of the faithful model, for every sequence. *)
Theorem C19_ticks_difference : forall (P : Type) (a b rest : list (item P)) sx tx px sy ty py,
  let items := a ++ (sx, Some (tx, px)) :: b ++ (sy, Some (ty, py)) :: rest in
  exists cx,
    nth_error (scan_rows items) (length a) = Some (sx, Some (cx, px)) /\
    nth_error (scan_rows items) (length a + 1 + length b) =
      Some (sy, Some (cx + wrapped_sum (tx :: dec_ts b ++ [ty]), py)).
Proof. exact ticks_difference_lemma. Qed.
Print Assumptions C19_ticks_difference.

(* the wrapped difference of the model is subtraction modulo 2^32 *)
Theorem C19_wrapped_difference_mod_2_32 : forall a b, a < 2 ^ 32 -> b < 2 ^ 32 ->
  Z.of_N (wsub32 a b) = ((Z.of_N a - Z.of_N b) mod 2 ^ 32)%Z.
Proof. exact wsub32_spec. Qed.
Print Assumptions C19_wrapped_difference_mod_2_32.

(* unwrapped time: true tick counts T0 <= T1 <= .. with consecutive gaps below one period *)
Theorem C19_ticks_unwrapped : forall T T0, slow_chain T0 T ->
  wrapped_sum (map (fun x => x mod 2 ^ 32) (T0 :: T)) = last T T0 - T0.
Proof. exact wrapped_sum_unwrap_lemma. Qed.
Print Assumptions C19_ticks_unwrapped.

(* origin of the time axis (not constrained by the property, recorded because it is surprising):
   0 if the first main event is decodable, otherwise the RAW counter value of the first decodable one *)
Theorem C19_ticks_origin_first : forall (P : Type) s t (p : P) (rest : list (item P)),
  nth_error (scan_rows ((s, Some (t, p)) :: rest)) 0 = Some (s, Some (0, p)).
Proof. exact ticks_origin_first_lemma. Qed.
Print Assumptions C19_ticks_origin_first.

Theorem C19_ticks_origin_after_undecodable : forall (P : Type) (a rest : list (item P)) s t (p : P),
  a <> [] -> dec_ts a = [] ->
  nth_error (scan_rows (a ++ (s, Some (t, p)) :: rest)) (length a) = Some (s, Some (t, p)).
Proof. exact ticks_origin_after_undecodable_lemma. Qed.
Print Assumptions C19_ticks_origin_after_undecodable.

(* the u64 accumulator does not overflow for up to 2^32 main events (the model adds in N) *)
Theorem C19_cumulative_fits_u64 : forall (P : Type) (items : list (item P)) i s c (p : P),
  Forall (fun it => forall t q, snd it = Some (t, q) -> t < 2 ^ 32) items ->
  N.of_nat (length items) <= 2 ^ 32 ->
  nth_error (scan_rows items) i = Some (s, Some (c, p)) -> c < 2 ^ 64.
Proof. exact scan_cumulative_bound_lemma. Qed.
Print Assumptions C19_cumulative_fits_u64.

(* ---------------------------------------------------------------------------------------------
   file order.  `sorting`: what is assumed of slice::sort_unstable_by_key — some permutation of
   the input that is sorted by the key. *)
Theorem C19_file_order_canonical :
  forall (P : Type) (sort1 sort2 : list (hdr P) -> list (hdr P)) (args args' : list (arg P)),
  sorting sort1 -> sorting sort2 -> Permutation args args' ->
  sort_run_files sort1 args = sort_run_files sort2 args'.
Proof. exact @file_order_canonical_lemma. Qed.
Print Assumptions C19_file_order_canonical.

(* accepted exactly when extensions are known, the run is one, initial timestamps are distinct; the
   paths then come out in strictly increasing order of initial timestamp *)
Theorem C19_processing_order :
  forall (P : Type) (sort : list (hdr P) -> list (hdr P)) (args : list (arg P)) r ps,
  sorting sort -> args <> [] ->
  (sort_run_files sort args = Ok (r, ps) <->
   Forall (fun a => extension_try_from (a_ext a) <> None) args /\
   (forall a, In a args -> a_run a = r) /\
   NoDup (map a_t0 args) /\
   exists hs, Permutation hs (map (fun a => (a_run a, a_t0 a, a_path a)) args) /\
              StronglySorted (fun x y => h_t0 x < h_t0 y) hs /\ ps = map h_path hs).
Proof. exact @processing_order_lemma. Qed.
Print Assumptions C19_processing_order.

Theorem C19_refusals :
  forall (P : Type) (sort : list (hdr P) -> list (hdr P)) (args : list (arg P)),
  sorting sort -> args <> [] ->
  (exists a b, In a args /\ In b args /\ a_run a <> a_run b) \/       (* files of different runs *)
  ~ NoDup (map a_t0 args) \/                                          (* duplicate initial timestamps *)
  (exists a, In a args /\ extension_try_from (a_ext a) = None) ->     (* unknown extension *)
  exists k, sort_run_files sort args = Err k.
Proof. exact @refusals_lemma. Qed.
Print Assumptions C19_refusals.

Theorem C19_known_extensions : forall s,
  extension_try_from s <> None <-> s = str_mid \/ s = str_lz4.
Proof. exact extension_known_iff. Qed.
Print Assumptions C19_known_extensions.

Theorem C19_sort_run_files_total :
  forall (P : Type) (sort : list (hdr P) -> list (hdr P)) (args : list (arg P)),
  args <> [] -> sort_run_files sort args <> Panic.
Proof. exact @sort_run_files_total_lemma. Qed.
Print Assumptions C19_sort_run_files_total.

(* the assumption on the sort is satisfiable: the instance run by the differential *)
Theorem C19_sorting_instance : forall P : Type, sorting (@isort P).
Proof. exact @isort_sorting. Qed.
Print Assumptions C19_sorting_instance.

(* ---------------------------------------------------------------------------------------------
   whole run (both binaries): rows are independent of the argument order and of the sorting
   permutation; an accepted command line is one run of known extensions, processed in strictly
   increasing order of initial timestamp, each file's main events in file order *)
Theorem C19_run_rows_order_independent :
  forall (P : Type) (sort1 sort2 : list (hdr (file P)) -> list (hdr (file P))) m (args args' : list (file P)),
  sorting sort1 -> sorting sort2 -> Permutation args args' ->
  run_rows sort1 m args = run_rows sort2 m args'.
Proof. exact run_rows_order_independent_lemma. Qed.
Print Assumptions C19_run_rows_order_independent.

Theorem C19_run_rows_accepted :
  forall (P : Type) (sort : list (hdr (file P)) -> list (hdr (file P))) m (args : list (file P)) rows,
  sorting sort -> args <> [] -> run_rows sort m args = Ok rows ->
  exists files,
    Permutation files args /\
    StronglySorted (fun f g => f_t0 f < f_t0 g) files /\
    (forall f g, In f args -> In g args -> f_run f = f_run g) /\
    Forall (fun f => extension_try_from (f_ext f) <> None) args /\
    check_gaps m None files = Ok tt /\
    rows = scan_rows (flat_map (fun f => main_items (f_events f)) files).
Proof. exact run_rows_accepted_lemma. Qed.
Print Assumptions C19_run_rows_accepted.

(* the positive direction.  `gaps_ok`: each file starts at the final timestamp of the previous one or one
   second later — the binaries' own `ensure!(initial - previous_final <= 1)` ("missing file"), a fourth
   refusal that the property text does not list; a contiguous run passes it in both overflow modes *)
Theorem C19_run_rows_complete :
  forall (P : Type) (sort : list (hdr (file P)) -> list (hdr (file P))) m (args files : list (file P)),
  sorting sort -> args <> [] ->
  Permutation files args -> StronglySorted (fun f g => f_t0 f < f_t0 g) files ->
  (forall f g, In f args -> In g args -> f_run f = f_run g) ->
  Forall (fun f => extension_try_from (f_ext f) <> None) args ->
  gaps_ok P None files ->
  run_rows sort m args = Ok (scan_rows (flat_map (fun f => main_items (f_events f)) files)).
Proof. exact run_rows_complete_lemma. Qed.
Print Assumptions C19_run_rows_complete.

Theorem C19_run_refusals :
  forall (P : Type) (sort : list (hdr (file P)) -> list (hdr (file P))) m (args : list (file P)),
  sorting sort -> args <> [] ->
  (exists f g, In f args /\ In g args /\ f_run f <> f_run g) \/
  ~ NoDup (map f_t0 args) \/
  (exists f, In f args /\ extension_try_from (f_ext f) = None) ->
  forall rows, run_rows sort m args <> Ok rows.
Proof. exact run_rows_refusals_lemma. Qed.
Print Assumptions C19_run_refusals.

(* ---------------------------------------------------------------------------------------------
   non-vacuity: a run of two files given in the wrong order; an undecodable first event; the wrap
   0xFFFFFF00 -> 0x100 (0x200 ticks); a chronobox event in between *)
Definition ex_ev (id s : N) (d : option N) : event unit :=
  {| e_id := id; e_serial := s; e_dec := option_map (fun t => (t, tt)) d |}.
Definition ex_f1 : file unit :=
  {| f_run := 9277; f_t0 := 100; f_t1 := 200; f_ext := str_mid;
     f_events := [ex_ev 1 0 None; ex_ev 1 1 (Some 0xFFFFFF00); ex_ev 4 0 (Some 7); ex_ev 1 2 None] |}.
Definition ex_f2 : file unit :=
  {| f_run := 9277; f_t0 := 201; f_t1 := 300; f_ext := str_lz4;
     f_events := [ex_ev 1 3 (Some 0x100); ex_ev 8 0 None; ex_ev 1 4 (Some 0x100)] |}.
Example C19_nonvacuous :
  run_rows_exec [ex_f2; ex_f1] =
    Ok [(0, None); (1, Some (0xFFFFFF00, tt)); (2, None); (3, Some (0xFFFFFF00 + 0x200, tt));
        (4, Some (0xFFFFFF00 + 0x200, tt))]
  /\ run_rows_exec [ex_f1; ex_f2] = run_rows_exec [ex_f2; ex_f1]
  /\ slow_chain 5 [6; 2 ^ 32 + 4; 2 ^ 33]
  /\ gaps_ok unit None [ex_f1; ex_f2].
Proof. vm_compute. repeat split; discriminate. Qed.
(* the refusals are reachable *)
Example C19_refusals_nonvacuous :
  is_err (run_rows_exec [ex_f1; ex_f1]) = true /\
  is_err (run_rows_exec [ex_f1; {| f_run := 1; f_t0 := 201; f_t1 := 0; f_ext := str_mid; f_events := [] |}]) = true /\
  is_err (run_rows_exec [{| f_run := 1; f_t0 := 201; f_t1 := 0; f_ext := [103; 122]; f_events := @nil (event unit) |}]) = true /\
  is_err (run_rows_exec [ex_f1; {| f_run := 9277; f_t0 := 203; f_t1 := 0; f_ext := str_mid; f_events := [] |}]) = true.
Proof. vm_compute. repeat split. Qed.
