(* C07 — Chronobox FIFO parsing is faithful, resumable and split-invariant. Statements only. *)
From AG Require Import Base.Prelude Base.Res Base.Bytes Codec.Chrono Codec.Chrono_proofs.

(* classification of every 4-byte word (all 2^32, symbolically): timestamp iff top byte in [0x80, 0x80+59),
   marker iff top byte 0xFF, with the documented channel / edge / 24-bit timestamp / top bit / 23-bit counter *)
Theorem C07_cb_classify_word : forall b0 b1 b2 b3,
  b0 < 256 -> b1 < 256 -> b2 < 256 -> b3 < 256 ->
  word b0 b1 b2 b3 =
    (let w := b0 + 256 * b1 + 65536 * b2 in
     if (128 <=? b3) && (b3 <? 128 + 59) then Some (TS (b3 - 128) (b0 mod 2 =? 1) (w - b0 mod 2))
     else if b3 =? 255 then Some (MK (128 <=? b2) (w mod 8388608))
     else None).
Proof. exact cb_classify_word_lemma. Qed.
Print Assumptions C07_cb_classify_word.

(* the parser consumes a prefix made of timestamp words, marker words and complete 244-byte scaler blocks,
   returns exactly the entries of that prefix in order, leaves the rest untouched, and the rest does not
   start with another complete element (longest prefix) *)
Theorem C07_cb_sound_maximal : forall l es r, cb_fifo l = (es, r) ->
  exists p, l = p ++ r /\ Elems p es /\ ~ starts_complete r.
Proof. exact cb_sound_maximal_lemma. Qed.
Print Assumptions C07_cb_sound_maximal.

Theorem C07_cb_split2 : forall a b,
  cb_fifo (a ++ b) = let (e1, r1) := cb_fifo a in let (e2, r2) := cb_fifo (r1 ++ b) in (e1 ++ e2, r2).
Proof. exact cb_split2_lemma. Qed.
Print Assumptions C07_cb_split2.

(* any way of cutting the stream into consecutive pieces, fed with the resume protocol *)
Theorem C07_cb_split_many : forall pieces, cb_feed [] pieces = cb_fifo (concat pieces).
Proof. intros. apply (cb_split_many_lemma pieces []). reflexivity. Qed.
Print Assumptions C07_cb_split_many.

(* no loop without progress: every accepted element consumes 4 or 244 bytes *)
Theorem C07_cb_progress : forall l x r, next l = Some (x, r) ->
  exists p, l = p ++ r /\ (match x with E _ => lenN p = 4 | Scalers => lenN p = 244 end).
Proof. exact next_consumes. Qed.
Print Assumptions C07_cb_progress.

Example C07_nonvacuous :
  cb_fifo [0x10;0x20;0x30;0x85; 0x01;0x00;0x80;0xFF; 0x3C;0;0;0xFE; 1;2;3] =
  ([TS 5 false 0x302010; MK true 1], [0x3C;0;0;0xFE; 1;2;3]).
Proof. vm_compute. reflexivity. Qed.

(* ===== combinator layer: pins imported from Codec/ChronoWinnow_pins.v =====
   chronobox_fifo transcribed combinator by combinator (Codec/ChronoWinnow.v) over the winnow 0.6.1 semantics
   (Codec/Winnow.v: checkpoint/reset, Backtrack vs Cut, the "must consume" assert) equals cb_fifo, so every
   theorem above is a theorem about the combinator-level parser. *)
From AG Require Import Codec.Winnow Codec.ChronoWinnow Codec.ChronoWinnow_proofs.

(* combinator-level parser = recursive parser, for every input, with fuel = length + 1, in debug and release *)
Theorem C07_cbw_fifo_eq : forall dbg l,
  chronobox_fifo_winnow dbg l = POk (fst (cb_fifo l)) (snd (cb_fifo l)).
Proof. exact cbw_fifo_eq. Qed.
Print Assumptions C07_cbw_fifo_eq.

(* fuel = length + 1 is sufficient: any larger fuel gives the same outcome *)
Theorem C07_cbw_fuel_enough : forall dbg fuel l, (length l < fuel)%nat ->
  chronobox_fifo_fuel dbg fuel l = chronobox_fifo_winnow dbg l.
Proof. exact cbw_fuel_enough. Qed.
Print Assumptions C07_cbw_fuel_enough.

(* the resume protocol over the combinator-level parser = cb_feed *)
Theorem C07_cbw_feed_eq : forall dbg pieces rem,
  cbw_feed dbg rem pieces = POk (fst (cb_feed rem pieces)) (snd (cb_feed rem pieces)).
Proof. exact cbw_feed_eq. Qed.
Print Assumptions C07_cbw_feed_eq.

(* every element parser that succeeds consumes exactly 4 bytes (entry) / 244 bytes (separator), so the
   "`repeat` parsers must always consume" assertions of repeat0_ and separated_foldl1 cannot fire *)
Theorem C07_cbw_entry_consumes : forall l e r, fifo_entry l = POk e r -> exists p, l = p ++ r /\ lenN p = 4.
Proof. exact fifo_entry_consumes. Qed.
Print Assumptions C07_cbw_entry_consumes.

Theorem C07_cbw_scalers_consumes : forall l u r,
  scalers_block l = POk u r -> exists p, l = p ++ r /\ lenN p = 244.
Proof. exact scalers_block_consumes. Qed.
Print Assumptions C07_cbw_scalers_consumes.

(* the combinator semantics is not vacuous: reset after a failed branch, a non-consuming element trips the
   assert (panic in debug, Cut in release), and the running example of Props/C07.v *)
Example C07_cbw_nonvacuous :
  chronobox_fifo_winnow true [0x10;0x20;0x30;0x85; 0x01;0x00;0x80;0xFF; 0x3C;0;0;0xFE; 1;2;3] =
  POk [TS 5 false 0x302010; MK true 1] [0x3C;0;0;0xFE; 1;2;3].
Proof. vm_compute. reflexivity. Qed.
Example C07_cbw_failed_entry_leaves_stream_advanced : fifo_entry [1; 2; 3; 0x7F; 9] = PBack [0x7F; 9].
Proof. vm_compute. reflexivity. Qed.
Example C07_cbw_assert_sites :
  repeat0 true 5 empty [1; 2] = PPanic /\ repeat0 false 5 empty [1; 2] = PCut [1; 2].
Proof. split; vm_compute; reflexivity. Qed.
