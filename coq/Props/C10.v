(* C10 - event assembly puts each waveform on its detector element, calibrated, or fails.
   This file only pins statements; the model is Event/Event.v (MainEvent::try_from_banks over decoded
   banks), the declarative specification Event/EventSpec.v, proofs in Event/*_proofs.v.
   F is the sample type (f64 in the code) and fcal d g = f64::from(d) * g: every theorem holds for
   every F and fcal.  env_typed / banks_typed are the ranges the Rust types impose on decoded values
   (i16 samples and baselines, wire < 256, pad < (32, 576), channels_sent without repetition). *)
From AG Require Import Base.Prelude Base.Res Event.Event Event.EventSpec Event.EventThm_proofs
  Event.EventSpec_proofs Event.EventExample.
From Coq Require Import Permutation.

(* an accepted build meets the specification: every name parses, every wire/pad waveform is on the
   element its (board, channel) maps to, as (raw - baseline) x gain after the delay, all other slots
   are empty, the timestamp is the TRG bank's *)
Theorem C10_build_sound : forall (F : Type) (fcal : Z -> F -> F) (e : env F) (m : ovf)
    (order : list (list chunkv) -> list (list chunkv)) (banks : list bank) (ev : event F),
  env_typed e -> banks_typed banks -> is_order order ->
  build fcal e m order banks = Ok ev -> event_spec fcal e banks ev.
Proof. exact build_sound. Qed.
Print Assumptions C10_build_sound.

(* the build succeeds exactly on the bank lists the specification admits, and produces the
   specified event (wire_pos_injective: the run's wire map is one-to-one, C08) *)
Theorem C10_build_spec_iff : forall (F : Type) (fcal : Z -> F -> F) (e : env F) (m : ovf)
    (banks : list bank) (ev : event F),
  env_typed e -> banks_typed banks -> wire_pos_injective e ->
  ((exists order ev', is_order order /\ build fcal e m order banks = Ok ev' /\ ev_eq ev' ev) <->
   event_spec fcal e banks ev).
Proof. exact build_spec_iff_lemma. Qed.
Print Assumptions C10_build_spec_iff.

(* the specification determines the event *)
Theorem C10_spec_deterministic : forall (F : Type) (fcal : Z -> F -> F) (e : env F) (banks : list bank)
    (ev ev' : event F),
  event_spec fcal e banks ev -> event_spec fcal e banks ev' -> ev_eq ev ev'.
Proof. exact spec_deterministic. Qed.
Print Assumptions C10_spec_deterministic.

(* one rejection theorem per cause named in the property text; all for every iteration order *)
Section Rejections.
Variables (F : Type) (fcal : Z -> F -> F) (e : env F) (m : ovf)
          (order : list (list chunkv) -> list (list chunkv)) (banks : list bank).
Hypothesis T : env_typed e.
Hypothesis B : banks_typed banks.
Hypothesis O : is_order order.

Theorem C10_reject_unknown_name : In BUnknown banks -> exists k, build fcal e m order banks = Err k.
Proof. exact (reject_unknown_name F fcal e m order banks T B O). Qed.
Theorem C10_reject_malformed_wire_payload : forall nb nc,
  In (BWire nb nc DErr) banks -> exists k, build fcal e m order banks = Err k.
Proof. exact (reject_malformed_wire F fcal e m order banks T B O). Qed.
Theorem C10_reject_bv_channel_in_wire_bank : forall nb nc p c,
  In (BWire nb nc (DOk p)) banks -> a_chan p = BV16 c -> exists k, build fcal e m order banks = Err k.
Proof. exact (reject_bv_channel F fcal e m order banks T B O). Qed.
Theorem C10_reject_wire_channel_mismatch : forall nb nc p c,
  In (BWire nb nc (DOk p)) banks -> a_chan p = A32 c -> c <> nc -> exists k, build fcal e m order banks = Err k.
Proof. exact (reject_channel_mismatch F fcal e m order banks T B O). Qed.
Theorem C10_reject_wire_board_mismatch : forall nb nc p b,
  In (BWire nb nc (DOk p)) banks -> a_board p = Some b -> b <> nb -> exists k, build fcal e m order banks = Err k.
Proof. exact (reject_board_mismatch F fcal e m order banks T B O). Qed.
Theorem C10_reject_duplicate_wire_bank : forall l1 l2 l3 nb nc d1 d2,
  banks = l1 ++ BWire nb nc d1 :: l2 ++ BWire nb nc d2 :: l3 -> exists k, build fcal e m order banks = Err k.
Proof. exact (reject_duplicate_wire F fcal e m order banks T B O). Qed.
Theorem C10_reject_missing_wire_map : forall nb nc p,
  In (BWire nb nc (DOk p)) banks -> a_wf p <> [] -> wire_pos e nb nc = DErr ->
  exists k, build fcal e m order banks = Err k.
Proof. exact (reject_missing_wire_map F fcal e m order banks T B O). Qed.
Theorem C10_reject_missing_wire_calibration : forall nb nc p w,
  In (BWire nb nc (DOk p)) banks -> a_wf p <> [] -> wire_pos e nb nc = DOk w -> wire_cal e w = DErr ->
  exists k, build fcal e m order banks = Err k.
Proof. exact (reject_missing_wire_calibration F fcal e m order banks T B O). Qed.
Theorem C10_reject_malformed_chunk : forall nb,
  In (BPad nb DErr) banks -> exists k, build fcal e m order banks = Err k.
Proof. exact (reject_malformed_chunk F fcal e m order banks T B O). Qed.
Theorem C10_reject_pad_board_mismatch : forall nb c,
  In (BPad nb (DOk c)) banks -> c_board c <> nb -> exists k, build fcal e m order banks = Err k.
Proof. exact (reject_pad_board_mismatch F fcal e m order banks T B O). Qed.
Theorem C10_reject_malformed_pwb_packet : forall k0,
  In k0 (gkeys banks) -> reasm e (group k0 banks) = DErr -> exists k, build fcal e m order banks = Err k.
Proof. exact (reject_malformed_pwb_packet F fcal e m order banks T B O). Qed.
Theorem C10_reject_missing_pad_map : forall k0 p pc wf,
  In k0 (gkeys banks) -> reasm e (group k0 banks) = DOk p -> In (Pad pc, wf) (p_sent p) ->
  pad_pos e (p_board p) (p_chip p) pc = DErr -> exists k, build fcal e m order banks = Err k.
Proof. exact (reject_missing_pad_map F fcal e m order banks T B O). Qed.
Theorem C10_reject_missing_pad_calibration : forall k0 p pc wf c r,
  In k0 (gkeys banks) -> reasm e (group k0 banks) = DOk p -> In (Pad pc, wf) (p_sent p) ->
  pad_pos e (p_board p) (p_chip p) pc = DOk (c, r) -> pad_cal e c r = DErr ->
  exists k, build fcal e m order banks = Err k.
Proof. exact (reject_missing_pad_calibration F fcal e m order banks T B O). Qed.
Theorem C10_reject_duplicate_pad_signal :
  ~ NoDup (pad_claims e banks) -> exists k, build fcal e m order banks = Err k.
Proof. exact (reject_duplicate_pad F fcal e m order banks T B O). Qed.
Theorem C10_reject_malformed_trg : In (BTrg DErr) banks -> exists k, build fcal e m order banks = Err k.
Proof. exact (reject_malformed_trg F fcal e m order banks T B O). Qed.
Theorem C10_reject_duplicate_trg : forall l1 l2 l3 d1 d2,
  banks = l1 ++ BTrg d1 :: l2 ++ BTrg d2 :: l3 -> exists k, build fcal e m order banks = Err k.
Proof. exact (reject_duplicate_trg F fcal e m order banks T B O). Qed.
Theorem C10_reject_missing_trg : (forall d, ~ In (BTrg d) banks) -> exists k, build fcal e m order banks = Err k.
Proof. exact (reject_missing_trg F fcal e m order banks T B O). Qed.
End Rejections.
Print Assumptions C10_reject_unknown_name.
Print Assumptions C10_reject_malformed_wire_payload.
Print Assumptions C10_reject_bv_channel_in_wire_bank.
Print Assumptions C10_reject_wire_channel_mismatch.
Print Assumptions C10_reject_wire_board_mismatch.
Print Assumptions C10_reject_duplicate_wire_bank.
Print Assumptions C10_reject_missing_wire_map.
Print Assumptions C10_reject_missing_wire_calibration.
Print Assumptions C10_reject_malformed_chunk.
Print Assumptions C10_reject_pad_board_mismatch.
Print Assumptions C10_reject_malformed_pwb_packet.
Print Assumptions C10_reject_missing_pad_map.
Print Assumptions C10_reject_missing_pad_calibration.
Print Assumptions C10_reject_duplicate_pad_signal.
Print Assumptions C10_reject_malformed_trg.
Print Assumptions C10_reject_duplicate_trg.
Print Assumptions C10_reject_missing_trg.

(* non-vacuity: a concrete environment satisfies every hypothesis, a concrete bank list (a long
   wire packet with a board, a suppressed one without, a PWB chunk, TRG, an ignored bank) is
   assembled into the expected event: wire 1*32+2 = 34 gets (13-10)*2, (14-10)*2 after a delay of 2;
   pad (3*4+1, 7) gets (2-5)*3, (3-5)*3 after a delay of 1 *)
Example C10_hypotheses_satisfiable :
  env_typed ex_env /\ wire_pos_injective ex_env /\ banks_typed ex_banks.
Proof. exact (conj ex_env_typed (conj ex_env_injective ex_banks_typed)). Qed.
Example C10_nonvacuous_build : build ex_fcal ex_env Checked (fun l => l) ex_banks = Ok ex_event.
Proof. vm_compute. reflexivity. Qed.
Example C10_nonvacuous_spec : event_spec ex_fcal ex_env ex_banks ex_event.
Proof.
  apply (build_sound Z ex_fcal ex_env Checked (fun l => l)).
  - exact ex_env_typed.
  - exact ex_banks_typed.
  - intros l; apply Permutation_refl.
  - exact C10_nonvacuous_build.
Qed.
(* a duplicated wire bank whose first copy is the suppressed form is rejected (finding F5, repaired) *)
Example C10_short_then_long_rejected :
  is_err (build ex_fcal ex_env Checked (fun l => l)
    (BWire 1 2 (DOk {| a_board := None; a_chan := A32 2; a_wf := [] |}) :: ex_banks)) = true.
Proof. vm_compute. reflexivity. Qed.

(* ===== end-to-end model (coq/Event/E2E.v): the run number and the RAW (bank name bytes, data bytes) list, decoded by
   the models of C02-C06/C08, calibrated with the tables regenerated into Gen/Calib.v, assembled by Event.build. The only
   hypothesis left is that the data are bytes. ===== *)
From Coq Require Import Permutation.
From AG Require Import Base.Prelude Base.Res Base.Bytes Ident.Tables.
From AG Require Codec.Adc Codec.Chunk Codec.Reasm Codec.Pwb Codec.Trg Ident.Names Ident.Maps.
From AG Require Import Event.Event Event.EventSpec Event.E2E Event.E2E_proofs.

(* =============================================================================================== C10 *)
(* an accepted build meets the declarative specification (Event/EventSpec.v) over the banks AS DECODED BY THE
   MODELS from the raw bytes: every name parses; every wire / pad waveform is on the element its (board, channel) /
   (board, chip, channel) maps to, as (raw - baseline) x gain after the delay, with map and calibration of the run;
   all other slots empty; the timestamp is the TRG bank's *)
Theorem C10_e2e_build_sound : forall (F : Type) (fcal : Z -> F -> F) (gain_of : Z * Z -> F) (m : ovf) (run : N) (banks : list (list N * list N))
    (order : list (list chunkv) -> list (list chunkv)) (ev : event F),
  Forall bytes (map snd banks) -> is_order order ->
  try_from_banks_model fcal gain_of m run banks order = Ok ev ->
  event_spec fcal (env_e2e_m gain_of m run) (decode_banks_m m banks) ev.
Proof. exact e2e_build_sound. Qed.
Print Assumptions C10_e2e_build_sound.

(* the build succeeds exactly on the raw bank lists the specification admits - no extra hypothesis: the run's wire
   map is one-to-one by C08 *)
Theorem C10_e2e_build_spec_iff : forall (F : Type) (fcal : Z -> F -> F) (gain_of : Z * Z -> F) (m : ovf) (run : N) (banks : list (list N * list N)) (ev : event F),
  Forall bytes (map snd banks) ->
  ((exists order ev', is_order order /\ try_from_banks_model fcal gain_of m run banks order = Ok ev' /\ ev_eq ev' ev) <->
   event_spec fcal (env_e2e_m gain_of m run) (decode_banks_m m banks) ev).
Proof. exact e2e_build_spec_iff. Qed.
Print Assumptions C10_e2e_build_spec_iff.

(* boards are compared by their row in ALPHA16BOARDS / PADWING_BOARDS; the row lookups of the decoded views always
   succeed: a long ADC packet always shows its board (`unwrap_or(bank name's board)` only applies to the 16-byte
   suppressed form), a chunk and a reassembled packet always have a board row *)
Theorem C10_e2e_board_rows_found : forall m : ovf,
  (forall d f lg, bytes d -> Adc.adc_decode adc_macs m d = Ok f -> Adc.a_long f = Some lg ->
     exists r, a_board (adcv_of f) = Some r) /\
  (forall d c, bytes d -> Chunk.chunk_decode pwb_devices m d = Ok c -> exists r, pwb_row_of_dev (Chunk.c_dev c) = Some r) /\
  (forall cs p, reasm_e2e m cs = DOk p -> p_board p <> no_row).
Proof. exact e2e_board_rows_found. Qed.
Print Assumptions C10_e2e_board_rows_found.

(* one rejection statement per cause named in the property text, on the RAW banks (name bytes, data bytes); bundled
   in one theorem (each `Print Assumptions` walks the whole development); the single lemmas are
   e2e_reject_* in Event/E2E_proofs.v *)
Theorem C10_e2e_rejections : forall (F : Type) (fcal : Z -> F -> F) (gain_of : Z * Z -> F) (m : ovf) (run : N)
    (banks : list (list N * list N)) (order : list (list chunkv) -> list (list chunkv)),
  Forall bytes (map snd banks) -> is_order order ->
  let rejected := exists k, try_from_banks_model fcal gain_of m run banks order = Err k in
  let D := decode_banks_m m banks in
  (* unknown bank name *)
  (forall n d, In (n, d) banks -> (forall k, Names.parse_main n <> Ok k) -> rejected) /\
  (* malformed wire payload *)
  (forall n d b c, In (n, d) banks -> Names.parse_main n = Ok (Names.KAdc32 b c) ->
     (forall f, Adc.adc_decode adc_macs m d <> Ok f) -> rejected) /\
  (* barrel-veto channel in a wire bank *)
  (forall n d b c f, In (n, d) banks -> Names.parse_main n = Ok (Names.KAdc32 b c) ->
     Adc.adc_decode adc_macs m d = Ok f -> Adc.a_chan f < 128 -> rejected) /\
  (* payload channel differs from the name *)
  (forall n d b c f, In (n, d) banks -> Names.parse_main n = Ok (Names.KAdc32 b c) ->
     Adc.adc_decode adc_macs m d = Ok f -> 128 <= Adc.a_chan f -> Adc.a_chan f - 128 <> c -> rejected) /\
  (* payload board (MAC address) differs from the name *)
  (forall n d b c f lg b', In (n, d) banks -> Names.parse_main n = Ok (Names.KAdc32 b c) ->
     Adc.adc_decode adc_macs m d = Ok f -> Adc.a_long f = Some lg -> a16_row_of_mac (Adc.al_mac lg) = Some b' ->
     b' <> b -> rejected) /\
  (* the same wire bank name twice *)
  (forall l1 l2 l3 n d1 d2 b c, banks = l1 ++ (n, d1) :: l2 ++ (n, d2) :: l3 ->
     Names.parse_main n = Ok (Names.KAdc32 b c) -> rejected) /\
  (* no wire map for the run / board *)
  (forall n d b c f lg, In (n, d) banks -> Names.parse_main n = Ok (Names.KAdc32 b c) ->
     Adc.adc_decode adc_macs m d = Ok f -> Adc.a_long f = Some lg -> Adc.al_wave lg <> [] ->
     (forall w, Maps.wire_position run b c <> Ok w) -> rejected) /\
  (* no wire calibration for the run / wire *)
  (forall n d b c f lg w, In (n, d) banks -> Names.parse_main n = Ok (Names.KAdc32 b c) ->
     Adc.adc_decode adc_macs m d = Ok f -> Adc.a_long f = Some lg -> Adc.al_wave lg <> [] ->
     Maps.wire_position run b c = Ok w -> wire_cal_e2e gain_of run w = DErr -> rejected) /\
  (* malformed chunk *)
  (forall n d b, In (n, d) banks -> Names.parse_main n = Ok (Names.KPwb b) ->
     (forall c, Chunk.chunk_decode pwb_devices m d <> Ok c) -> rejected) /\
  (* chunk of another board than the bank name says *)
  (forall n d b c, In (n, d) banks -> Names.parse_main n = Ok (Names.KPwb b) ->
     Chunk.chunk_decode pwb_devices m d = Ok c -> row_or_none (pwb_row_of_dev (Chunk.c_dev c)) <> b -> rejected) /\
  (* the chunks of a (board, chip) do not reassemble into a valid packet *)
  (forall k0, In k0 (gkeys D) -> reasm_e2e m (group k0 D) = DErr -> rejected) /\
  (* no pad map for the run / board *)
  (forall k0 p pc wf, In k0 (gkeys D) -> reasm_e2e m (group k0 D) = DOk p -> In (Pad pc, wf) (p_sent p) ->
     (forall pos, Maps.pad_position run (p_board p) (p_chip p) pc <> Ok pos) -> rejected) /\
  (* no pad calibration for the run / pad *)
  (forall k0 p pc wf c r, In k0 (gkeys D) -> reasm_e2e m (group k0 D) = DOk p -> In (Pad pc, wf) (p_sent p) ->
     Maps.pad_position run (p_board p) (p_chip p) pc = Ok (c, r) -> pad_cal_e2e gain_of run c r = DErr -> rejected) /\
  (* a pad claimed twice *)
  (~ NoDup (pad_claims (env_e2e_m gain_of m run) D) -> rejected) /\
  (* malformed TRG payload *)
  (forall n d, In (n, d) banks -> Names.parse_main n = Ok Names.KTrg -> (forall t, Trg.trg_decode d <> Ok t) ->
     rejected) /\
  (* two TRG banks *)
  (forall l1 l2 l3 n d1 d2, banks = l1 ++ (n, d1) :: l2 ++ (n, d2) :: l3 -> Names.parse_main n = Ok Names.KTrg ->
     rejected) /\
  (* no TRG bank *)
  ((forall n d, In (n, d) banks -> Names.parse_main n <> Ok Names.KTrg) -> rejected).
Proof.
  intros F fcal gain_of m run banks order Hb O. cbv zeta.
  split; [exact (e2e_reject_unknown_name F fcal gain_of m run banks order Hb O)|].
  split; [exact (e2e_reject_malformed_wire_payload F fcal gain_of m run banks order Hb O)|].
  split; [exact (e2e_reject_bv_channel_in_wire_bank F fcal gain_of m run banks order Hb O)|].
  split; [exact (e2e_reject_wire_channel_mismatch F fcal gain_of m run banks order Hb O)|].
  split; [exact (e2e_reject_wire_board_mismatch F fcal gain_of m run banks order Hb O)|].
  split; [exact (e2e_reject_duplicate_wire_bank F fcal gain_of m run banks order Hb O)|].
  split; [exact (e2e_reject_missing_wire_map F fcal gain_of m run banks order Hb O)|].
  split; [exact (e2e_reject_missing_wire_calibration F fcal gain_of m run banks order Hb O)|].
  split; [exact (e2e_reject_malformed_chunk F fcal gain_of m run banks order Hb O)|].
  split; [exact (e2e_reject_pad_board_mismatch F fcal gain_of m run banks order Hb O)|].
  split; [exact (e2e_reject_malformed_pwb_packet F fcal gain_of m run banks order Hb O)|].
  split; [exact (e2e_reject_missing_pad_map F fcal gain_of m run banks order Hb O)|].
  split; [exact (e2e_reject_missing_pad_calibration F fcal gain_of m run banks order Hb O)|].
  split; [exact (e2e_reject_duplicate_pad_signal F fcal gain_of m run banks order Hb O)|].
  split; [exact (e2e_reject_malformed_trg F fcal gain_of m run banks order Hb O)|].
  split; [exact (e2e_reject_duplicate_trg F fcal gain_of m run banks order Hb O)|].
  exact (e2e_reject_missing_trg F fcal gain_of m run banks order Hb O).
Qed.
Print Assumptions C10_e2e_rejections.


(* =============================================================================================== non-vacuity *)
(* a TRG v3 packet with timestamp 1234 *)
Definition e2e_ex_trg : list N :=
  [255; 0; 0; 0; 7; 0; 0; 128; 210; 4; 0; 0; 7; 0; 0; 0; 12; 0; 0; 0; 0; 0; 0; 0; 5; 0; 0; 0; 6; 0; 0; 0; 7; 0; 0; 0;
   8; 0; 0; 128; 10; 0; 0; 0; 8; 0; 0; 0; 0; 0; 0; 0; 9; 0; 10; 0; 11; 0; 0; 0; 0; 0; 0; 0; 12; 0; 0; 0; 13; 0; 0; 0;
   14; 0; 0; 0; 7; 0; 0; 224].
(* an ADC v3 long packet of board "09" (MAC d8:80:39:68:37:4c), channel byte 128 + 2, 132 requested = 130 samples:
   100 samples of 3005, then 30 of 3007 (big-endian), no suppression, baseline word 3005 *)
Definition e2e_ex_adc : list N :=
  [1; 3; 0; 4; 5; 130; 0; 132; 0; 0; 0; 7; 0; 0; 216; 128; 57; 104; 55; 76] ++ repeat 0 12 ++
  flat_map (fun _ => [11; 189]) (seq 0 100) ++ flat_map (fun _ => [11; 191]) (seq 0 30) ++ [0; 0; 11; 189].
(* banks "C092", "ATAT", "MCVX" *)
Definition e2e_ex_banks : list (list N * list N) :=
  [([67; 48; 57; 50], e2e_ex_adc); ([65; 84; 65; 84], e2e_ex_trg); ([77; 67; 86; 88], [1; 2; 3])].
(* the examples use an exact, symbolic sample type: a calibrated sample is the pair (raw - baseline, gain) *)
Definition ex_F : Type := Z * (Z * Z).
Definition ex_fcal' (d : Z) (g : ex_F) : ex_F := (d * fst g, snd g)%Z.
Definition ex_gain (g : Z * Z) : ex_F := (1%Z, g).
Definition e2e_ex_event : event ex_F :=
  {| ev_wires := [(0, repeat (7, (1, 0))%Z 30)]; ev_pads := []; ev_ts := 1234 |}.

Example E2E_hypothesis_satisfiable : Forall bytes (map snd e2e_ex_banks).
Proof. apply Forall_forall. intros l H. apply bytesb_spec. revert l H. apply Forall_forall.
  repeat constructor. Qed.
(* simulation run: wire 0 gets (3007 - 3000) x gain (gain = 1 x 2^0) for the 30 samples after the delay of 100;
   the reversed bank list under the reversed group order and without overflow checks gives the same event;
   an unknown bank name, a run without maps, a second TRG bank are rejected *)
Example E2E_nonvacuous_build :
  let model := try_from_banks_model ex_fcal' ex_gain in
  model Checked 4294967295 e2e_ex_banks (fun l => l) = Ok e2e_ex_event /\
  model Wrapping 4294967295 (rev e2e_ex_banks) (@rev _) = Ok e2e_ex_event /\
  is_err (model Checked 4294967295 (e2e_ex_banks ++ [([88; 88; 88; 88], [])]) (fun l => l)) = true /\
  is_err (model Checked 100 e2e_ex_banks (fun l => l)) = true /\
  is_err (model Checked 4294967295 (([65; 84; 65; 84], e2e_ex_trg) :: e2e_ex_banks) (fun l => l)) = true.
Proof. vm_compute. repeat split; reflexivity. Qed.


(* =============================================================================================== duplicated pad bank *)
From AG Require Import Event.E2E_more_proofs.
(* the rejection cause "a pad bank is duplicated" on the RAW banks (completes C10_e2e_rejections, which has the
   duplicated wire and TRG banks): the same PWB bank - the same name bytes n, parsing to a Padwing bank name, and the
   same data bytes d, decoding to a chunk - twice anywhere in the bank list.  The build is rejected whatever the other
   banks are and under every iteration order of the chunk-group HashMap: both copies carry the same (board, chip) and
   the same chunk id, so PwbPacket::try_from refuses their group (C04 dup_id_err); or an earlier check already failed *)
Theorem C10_e2e_reject_duplicate_pad_bank : forall (F : Type) (fcal : Z -> F -> F) (gain_of : Z * Z -> F) (m : ovf)
    (run : N) (banks : list (list N * list N)) (order : list (list chunkv) -> list (list chunkv))
    (l1 l2 l3 : list (list N * list N)) (n d : list N) (b : N) (c : Chunk.chunk),
  Forall bytes (map snd banks) -> is_order order ->
  banks = l1 ++ (n, d) :: l2 ++ (n, d) :: l3 ->
  Names.parse_main n = Ok (Names.KPwb b) -> Chunk.chunk_decode pwb_devices m d = Ok c ->
  exists k, try_from_banks_model fcal gain_of m run banks order = Err k.
Proof. exact e2e_reject_duplicate_pad_bank. Qed.
Print Assumptions C10_e2e_reject_duplicate_pad_bank.

(* non-vacuity: bank "PC00" with a one-chunk message of board 00 (device id 0x87ff28ec, chip 0, chunk 0, end of
   message, payload 1 2 3 4, both CRC-32C valid): the name parses, the data decode; the bank twice, around the
   banks of the accepted example, is rejected *)
Definition e2e_ex_pwb_bank : list N * list N :=
  ([80; 67; 48; 48],
   [236; 40; 255; 135; 1; 0; 0; 0; 0; 0; 0; 1; 0; 0; 4; 0; 86; 82; 26; 34; 1; 2; 3; 4; 11; 115; 207; 214]).
Example E2E_nonvacuous_duplicate_pad_bank :
  Names.parse_main (fst e2e_ex_pwb_bank) = Ok (Names.KPwb 0) /\
  is_ok (Chunk.chunk_decode pwb_devices Checked (snd e2e_ex_pwb_bank)) = true /\
  is_err (try_from_banks_model ex_fcal' ex_gain Checked 4294967295
            (e2e_ex_pwb_bank :: e2e_ex_banks ++ [e2e_ex_pwb_bank]) (fun l => l)) = true.
Proof. vm_compute. repeat split; reflexivity. Qed.


(* =============================================================================================== non-vacuity, pad path *)
From AG Require Import Event.E2EExample.
(* The example above (E2E_nonvacuous_duplicate_pad_bank) uses a 4-byte chunk payload that is no PWB packet: already ONE
   copy of it is rejected, so it shows only that the hypotheses of C10_e2e_reject_duplicate_pad_bank are satisfiable.
   The statements below are about a genuine PWB bank (Event/E2EExample.v): bank "PC00" whose 288 data bytes are
   Chunk.chunk_encode (C03 specification encoder, both CRC-32C computed) of one end-of-message chunk (device of board
   "00", chip 1, id 0) carrying Pwb.pwb_encode (C05 specification encoder) of a packet with the MAC of board "00", chip
   B, pad channel 5, 102 samples: 100 at the pad's baseline 1725, then 1735, 1750.
   They are statements about the SAME definitions the C10_e2e_* theorems quantify over - try_from_banks_model (at the
   exact symbolic sample type e2x_F = ex_F, e2x_fcal = ex_fcal', e2x_gain = ex_gain), decode_banks_m, reasm_e2e,
   Names.parse_main, Chunk.chunk_decode pwb_devices, Maps.pad_position, pad_cal_e2e, env_e2e_m, pad_claims, gkeys,
   group - and the Examples after them instantiate the theorems' hypotheses on these values and apply the theorems.
   All are closed by vm_compute on closed terms (the whole of Event/E2EExample.v compiles in under 3 s); the binary64
   instance of the model (Event/E2E64.v) on the same banks is the last Example of Event/E2EExample.v (not pinned:
   primitive floats show up in `Print Assumptions`). *)

(* the bank is well formed: name, chunk (decodes to exactly the chunk it was encoded from, in both overflow modes),
   decoded view, reassembly of the chunk alone into the packet view with the 102 raw samples, pad position and
   calibration (baseline, gain 1 x 2^0, delay) of the simulation run *)
Theorem C10_e2e_nonvacuous_pad_bank_well_formed :
  Names.parse_main (fst e2x_pad_bank) = Ok (Names.KPwb 0) /\
  lenN (snd e2x_pad_bank) = 288 /\
  Chunk.chunk_decode pwb_devices Checked (snd e2x_pad_bank) = Ok e2x_chunk /\
  Chunk.chunk_decode pwb_devices Wrapping (snd e2x_pad_bank) = Ok e2x_chunk /\
  decode_banks_m Checked [e2x_pad_bank] =
    [BPad 0 (DOk {| c_board := 0; c_chip := 1; c_uid := uid_of_bytes (snd e2x_pad_bank) |})] /\
  reasm_e2e Checked [{| c_board := 0; c_chip := 1; c_uid := uid_of_bytes (snd e2x_pad_bank) |}] =
    DOk {| p_board := 0; p_chip := 1; p_sent := [(Pad 5, e2x_wave)] |} /\
  Maps.pad_position e2x_run 0 1 5 = Ok (25, 112) /\
  pad_cal_e2e e2x_gain e2x_run 25 112 = DOk (1725%Z, (1, (1, 0))%Z, 100).
Proof. exact e2x_pad_bank_well_formed. Qed.
Print Assumptions C10_e2e_nonvacuous_pad_bank_well_formed.

(* (a) ONE copy of the bank (and the TRG bank every event needs) is ACCEPTED by the end-to-end model, in both overflow
   modes and both orders; exactly one slot is occupied: pad (column 25, row 112) = [(1735 - 1725) x 1; (1750 - 1725) x 1],
   the samples after the delay of 100 *)
Theorem C10_e2e_nonvacuous_pad_bank_accepted :
  try_from_banks_model e2x_fcal e2x_gain Checked e2x_run e2x_single (fun l => l) = Ok e2x_pad_event /\
  try_from_banks_model e2x_fcal e2x_gain Wrapping e2x_run (rev e2x_single) (@rev _) = Ok e2x_pad_event /\
  pad_at e2x_pad_event 25 112 = Some [(10, (1, 0)); (25, (1, 0))]%Z.
Proof. exact e2x_pad_bank_accepted. Qed.
Print Assumptions C10_e2e_nonvacuous_pad_bank_accepted.

(* (b) the SAME event with the SAME bank a second time is REJECTED, with the error of PwbPacket::try_from: the only
   chunk group, (board 0, chip 1), holds chunk id 0 twice and does not reassemble; wherever the second copy stands, in
   both modes, under both orders, also for the data-run bank.  (a) + (b) = one copy accepted, two copies rejected *)
Theorem C10_e2e_nonvacuous_pad_bank_twice_rejected :
  e2x_twice = [] ++ e2x_pad_bank :: [e2x_trg_bank] ++ e2x_pad_bank :: [] /\
  try_from_banks_model e2x_fcal e2x_gain Checked e2x_run e2x_twice (fun l => l) = Err E_pwb /\
  try_from_banks_model e2x_fcal e2x_gain Wrapping e2x_run e2x_twice (@rev _) = Err E_pwb /\
  try_from_banks_model e2x_fcal e2x_gain Checked e2x_run (e2x_pad_bank :: e2x_single) (fun l => l) = Err E_pwb /\
  try_from_banks_model e2x_fcal e2x_gain Checked e2x_run (e2x_single ++ [e2x_pad_bank]) (fun l => l) = Err E_pwb /\
  gkeys (decode_banks_m Checked e2x_twice) = [(0, 1)] /\
  reasm_e2e Checked (group (0, 1) (decode_banks_m Checked e2x_twice)) = DErr /\
  try_from_banks_model e2x_fcal e2x_gain Checked e2x_run_data [e2x_pad_bank_data; e2x_trg_bank; e2x_pad_bank_data]
    (fun l => l) = Err E_pwb.
Proof. exact e2x_pad_bank_twice_rejected. Qed.
Print Assumptions C10_e2e_nonvacuous_pad_bank_twice_rejected.

(* (c) an anode-wire bank ("C092", the ADC packet of e2e_ex_adc), the pad bank, the TRG bank and an ignored bank
   together are accepted: wire slot 0 and pad slot (25, 112) are the occupied slots; with the pad bank once more the
   event is rejected *)
Theorem C10_e2e_nonvacuous_wire_and_pad_accepted :
  try_from_banks_model e2x_fcal e2x_gain Checked e2x_run e2x_wire_pad (fun l => l) = Ok e2x_wire_pad_event /\
  try_from_banks_model e2x_fcal e2x_gain Wrapping e2x_run (rev e2x_wire_pad) (@rev _) = Ok e2x_wire_pad_event /\
  try_from_banks_model e2x_fcal e2x_gain Checked e2x_run (e2x_wire_pad ++ [e2x_pad_bank]) (fun l => l) = Err E_pwb.
Proof. exact e2x_wire_and_pad_accepted. Qed.
Print Assumptions C10_e2e_nonvacuous_wire_and_pad_accepted.

(* further accepted / rejected pad events (one theorem: each `Print Assumptions` walks the whole development):
   - a data run (11084: calibration tables of that run, delay 115, 117 samples = odd count with its padding word,
     baseline 1738, gain 5084909536333083 x 2^-52);
   - the packet cut into two chunks = two DIFFERENT banks of the same name "PC00", in either order: accepted - two pad
     banks of one name are the normal case, only a repeated bank is refused;
   - clause "a pad claimed twice" of C10_e2e_rejections: the packet (MAC of board "00") a second time inside a chunk of
     the device of board "01" in bank "PC01" is accepted alone; both banks together make two chunk groups that claim
     pad (25, 112) twice - pad_claims has a repetition - and the build fails with the duplicate-pad error under both
     group orders *)
Theorem C10_e2e_nonvacuous_pad_more :
  (Chunk.chunk_decode pwb_devices Checked (snd e2x_pad_bank_data) = Ok e2x_chunk_data /\
   pad_cal_e2e e2x_gain e2x_run_data 25 112 = DOk (1738%Z, (1, (5084909536333083, -52))%Z, 115) /\
   try_from_banks_model e2x_fcal e2x_gain Checked e2x_run_data [e2x_pad_bank_data; e2x_trg_bank] (fun l => l) =
     Ok e2x_pad_event_data) /\
  (map fst e2x_two_banks = [e2x_name_pc00; e2x_name_pc00] /\
   try_from_banks_model e2x_fcal e2x_gain Checked e2x_run (e2x_two_banks ++ [e2x_trg_bank]) (fun l => l) =
     Ok e2x_pad_event /\
   try_from_banks_model e2x_fcal e2x_gain Checked e2x_run (e2x_trg_bank :: rev e2x_two_banks) (fun l => l) =
     Ok e2x_pad_event) /\
  (try_from_banks_model e2x_fcal e2x_gain Checked e2x_run [e2x_pad_bank_other_dev; e2x_trg_bank] (fun l => l) =
     Ok e2x_pad_event /\
   pad_claims (env_e2e_m e2x_gain Checked e2x_run)
              (decode_banks_m Checked [e2x_pad_bank; e2x_pad_bank_other_dev; e2x_trg_bank]) = [(25, 112); (25, 112)] /\
   try_from_banks_model e2x_fcal e2x_gain Checked e2x_run [e2x_pad_bank; e2x_pad_bank_other_dev; e2x_trg_bank]
     (fun l => l) = Err E_duppad /\
   try_from_banks_model e2x_fcal e2x_gain Checked e2x_run [e2x_pad_bank; e2x_pad_bank_other_dev; e2x_trg_bank]
     (@rev _) = Err E_duppad).
Proof.
  exact (conj e2x_pad_bank_accepted_data_run (conj e2x_two_chunk_banks_accepted e2x_pad_claimed_twice_rejected)).
Qed.
Print Assumptions C10_e2e_nonvacuous_pad_more.

(* ---- the theorems' hypotheses instantiated on these values ---- *)
(* what the names stand for: the bank lists, the run, the expected events; the wire and TRG banks are those of
   e2e_ex_banks; the sample type and arithmetic are those of the examples above *)
Example E2E_pad_examples_definitions :
  e2x_run = 4294967295 /\ e2x_single = [e2x_pad_bank; e2x_trg_bank] /\
  e2x_twice = [e2x_pad_bank; e2x_trg_bank; e2x_pad_bank] /\
  e2x_wire_pad = [e2x_wire_bank; e2x_pad_bank; e2x_trg_bank; e2x_other_bank] /\
  e2x_wire_bank = ([67; 48; 57; 50], e2e_ex_adc) /\ e2x_trg_bank = ([65; 84; 65; 84], e2e_ex_trg) /\
  e2x_pad_event = {| ev_wires := []; ev_pads := [((25, 112), [(10, (1, 0)); (25, (1, 0))]%Z)]; ev_ts := 1234 |} /\
  e2x_wire_pad_event = {| ev_wires := [(0, repeat (7, (1, 0))%Z 30)];
                          ev_pads := [((25, 112), [(10, (1, 0)); (25, (1, 0))]%Z)]; ev_ts := 1234 |} /\
  e2x_F = ex_F /\ e2x_fcal = ex_fcal' /\ e2x_gain = ex_gain.
Proof. repeat split; reflexivity. Qed.
Example E2E_pad_hypotheses_satisfiable :
  Forall bytes (map snd e2x_single) /\ Forall bytes (map snd e2x_twice) /\ Forall bytes (map snd e2x_wire_pad) /\
  is_order (fun l => l) /\ is_order (@rev _).
Proof.
  exact (conj e2x_single_bytes (conj e2x_twice_bytes (conj e2x_wire_pad_bytes (conj id_order_is_order rev_is_order)))).
Qed.
(* C10_e2e_build_sound applies to the accepted events: they meet the declarative specification over the banks as
   decoded by the models *)
Example E2E_nonvacuous_pad_spec :
  event_spec e2x_fcal (env_e2e_m e2x_gain Checked e2x_run) (decode_banks_m Checked e2x_single) e2x_pad_event /\
  event_spec e2x_fcal (env_e2e_m e2x_gain Checked e2x_run) (decode_banks_m Checked e2x_wire_pad) e2x_wire_pad_event.
Proof.
  split.
  - exact (C10_e2e_build_sound e2x_F e2x_fcal e2x_gain Checked e2x_run e2x_single (fun l => l) e2x_pad_event
             e2x_single_bytes id_order_is_order (proj1 e2x_pad_bank_accepted)).
  - exact (C10_e2e_build_sound e2x_F e2x_fcal e2x_gain Checked e2x_run e2x_wire_pad (fun l => l) e2x_wire_pad_event
             e2x_wire_pad_bytes id_order_is_order (proj1 e2x_wire_and_pad_accepted)).
Qed.
(* all hypotheses of C10_e2e_reject_duplicate_pad_bank hold of the rejected event, with l1 = [], l2 = [TRG bank],
   l3 = [], n / d the name / data bytes of the pad bank, b = 0, c = e2x_chunk: the theorem applies to a bank whose
   single copy is accepted (C10_e2e_nonvacuous_pad_bank_accepted) *)
Example E2E_nonvacuous_duplicate_pad_bank_applies :
  exists k, try_from_banks_model e2x_fcal e2x_gain Checked e2x_run e2x_twice (fun l => l) = Err k.
Proof.
  exact (C10_e2e_reject_duplicate_pad_bank e2x_F e2x_fcal e2x_gain Checked e2x_run e2x_twice (fun l => l)
           [] [e2x_trg_bank] [] (fst e2x_pad_bank) (snd e2x_pad_bank) 0 e2x_chunk
           e2x_twice_bytes id_order_is_order eq_refl
           (proj1 e2x_pad_bank_well_formed) (proj1 (proj2 (proj2 e2x_pad_bank_well_formed)))).
Qed.
(* the hypotheses of the clauses "the chunks of a (board, chip) do not reassemble" and "a pad claimed twice" of
   C10_e2e_rejections hold of the two rejected events *)
Example E2E_nonvacuous_pad_rejection_clauses :
  (In (0, 1) (gkeys (decode_banks_m Checked e2x_twice)) /\
   reasm_e2e Checked (group (0, 1) (decode_banks_m Checked e2x_twice)) = DErr) /\
  ~ NoDup (pad_claims (env_e2e_m e2x_gain Checked e2x_run)
                      (decode_banks_m Checked [e2x_pad_bank; e2x_pad_bank_other_dev; e2x_trg_bank])).
Proof.
  destruct e2x_pad_bank_twice_rejected as (_ & _ & _ & _ & _ & K & R & _).
  destruct e2x_pad_claimed_twice_rejected as (_ & C & _).
  split; [split; [rewrite K; left; reflexivity | exact R]|].
  rewrite C. intros H. inversion H as [|x l H1 H2]. apply H1. left. reflexivity.
Qed.
