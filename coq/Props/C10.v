(* C10 - event assembly.  This file only pins statements; proofs live in Event/*_proofs.v. *)
From AG Require Import Base.Prelude Base.Res Event.Event.

Theorem C10_placeholder : forall (F : Type) (e : env F), True.
Proof. intros; exact I. Qed.
Print Assumptions C10_placeholder.
