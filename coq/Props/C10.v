(* C10 - event assembly puts each waveform on its detector element, calibrated, or fails.
   This file only pins statements; the model is Event/Event.v (MainEvent::try_from_banks over decoded
   banks), the declarative specification Event/EventSpec.v, proofs in Event/*_proofs.v.
   F is the sample type (f64 in the code) and fcal d g = f64::from(d) * g: every theorem holds for
   every F and fcal.  env_typed / banks_typed are the ranges the Rust types impose on decoded values
   (i16 samples and baselines, wire < 256, pad < (32, 576), channels_sent without repetition). *)
From AG Require Import Base.Prelude Base.Res Event.Event Event.EventSpec Event.EventThm_proofs
  Event.EventSpec_proofs Event.EventExample.
From Coq Require Import Permutation.

(* an accepted build meets the specification: every name parses, every wire/pad waveform is on the
   element its (board, channel) maps to, as (raw - baseline) x gain after the delay, all other slots
   are empty, the timestamp is the TRG bank's *)
Theorem C10_build_sound : forall (F : Type) (fcal : Z -> F -> F) (e : env F) (m : ovf)
    (order : list (list chunkv) -> list (list chunkv)) (banks : list bank) (ev : event F),
  env_typed e -> banks_typed banks -> is_order order ->
  build fcal e m order banks = Ok ev -> event_spec fcal e banks ev.
Proof. exact build_sound. Qed.
Print Assumptions C10_build_sound.

(* the build succeeds exactly on the bank lists the specification admits, and produces the
   specified event (wire_pos_injective: the run's wire map is one-to-one, C08) *)
Theorem C10_build_spec_iff : forall (F : Type) (fcal : Z -> F -> F) (e : env F) (m : ovf)
    (banks : list bank) (ev : event F),
  env_typed e -> banks_typed banks -> wire_pos_injective e ->
  ((exists order ev', is_order order /\ build fcal e m order banks = Ok ev' /\ ev_eq ev' ev) <->
   event_spec fcal e banks ev).
Proof. exact build_spec_iff_lemma. Qed.
Print Assumptions C10_build_spec_iff.

(* the specification determines the event *)
Theorem C10_spec_deterministic : forall (F : Type) (fcal : Z -> F -> F) (e : env F) (banks : list bank)
    (ev ev' : event F),
  event_spec fcal e banks ev -> event_spec fcal e banks ev' -> ev_eq ev ev'.
Proof. exact spec_deterministic. Qed.
Print Assumptions C10_spec_deterministic.

(* one rejection theorem per cause named in the property text; all for every iteration order *)
Section Rejections.
Variables (F : Type) (fcal : Z -> F -> F) (e : env F) (m : ovf)
          (order : list (list chunkv) -> list (list chunkv)) (banks : list bank).
Hypothesis T : env_typed e.
Hypothesis B : banks_typed banks.
Hypothesis O : is_order order.

Theorem C10_reject_unknown_name : In BUnknown banks -> exists k, build fcal e m order banks = Err k.
Proof. exact (reject_unknown_name F fcal e m order banks T B O). Qed.
Theorem C10_reject_malformed_wire_payload : forall nb nc,
  In (BWire nb nc DErr) banks -> exists k, build fcal e m order banks = Err k.
Proof. exact (reject_malformed_wire F fcal e m order banks T B O). Qed.
Theorem C10_reject_bv_channel_in_wire_bank : forall nb nc p c,
  In (BWire nb nc (DOk p)) banks -> a_chan p = BV16 c -> exists k, build fcal e m order banks = Err k.
Proof. exact (reject_bv_channel F fcal e m order banks T B O). Qed.
Theorem C10_reject_wire_channel_mismatch : forall nb nc p c,
  In (BWire nb nc (DOk p)) banks -> a_chan p = A32 c -> c <> nc -> exists k, build fcal e m order banks = Err k.
Proof. exact (reject_channel_mismatch F fcal e m order banks T B O). Qed.
Theorem C10_reject_wire_board_mismatch : forall nb nc p b,
  In (BWire nb nc (DOk p)) banks -> a_board p = Some b -> b <> nb -> exists k, build fcal e m order banks = Err k.
Proof. exact (reject_board_mismatch F fcal e m order banks T B O). Qed.
Theorem C10_reject_duplicate_wire_bank : forall l1 l2 l3 nb nc d1 d2,
  banks = l1 ++ BWire nb nc d1 :: l2 ++ BWire nb nc d2 :: l3 -> exists k, build fcal e m order banks = Err k.
Proof. exact (reject_duplicate_wire F fcal e m order banks T B O). Qed.
Theorem C10_reject_missing_wire_map : forall nb nc p,
  In (BWire nb nc (DOk p)) banks -> a_wf p <> [] -> wire_pos e nb nc = DErr ->
  exists k, build fcal e m order banks = Err k.
Proof. exact (reject_missing_wire_map F fcal e m order banks T B O). Qed.
Theorem C10_reject_missing_wire_calibration : forall nb nc p w,
  In (BWire nb nc (DOk p)) banks -> a_wf p <> [] -> wire_pos e nb nc = DOk w -> wire_cal e w = DErr ->
  exists k, build fcal e m order banks = Err k.
Proof. exact (reject_missing_wire_calibration F fcal e m order banks T B O). Qed.
Theorem C10_reject_malformed_chunk : forall nb,
  In (BPad nb DErr) banks -> exists k, build fcal e m order banks = Err k.
Proof. exact (reject_malformed_chunk F fcal e m order banks T B O). Qed.
Theorem C10_reject_pad_board_mismatch : forall nb c,
  In (BPad nb (DOk c)) banks -> c_board c <> nb -> exists k, build fcal e m order banks = Err k.
Proof. exact (reject_pad_board_mismatch F fcal e m order banks T B O). Qed.
Theorem C10_reject_malformed_pwb_packet : forall k0,
  In k0 (gkeys banks) -> reasm e (group k0 banks) = DErr -> exists k, build fcal e m order banks = Err k.
Proof. exact (reject_malformed_pwb_packet F fcal e m order banks T B O). Qed.
Theorem C10_reject_missing_pad_map : forall k0 p pc wf,
  In k0 (gkeys banks) -> reasm e (group k0 banks) = DOk p -> In (Pad pc, wf) (p_sent p) ->
  pad_pos e (p_board p) (p_chip p) pc = DErr -> exists k, build fcal e m order banks = Err k.
Proof. exact (reject_missing_pad_map F fcal e m order banks T B O). Qed.
Theorem C10_reject_missing_pad_calibration : forall k0 p pc wf c r,
  In k0 (gkeys banks) -> reasm e (group k0 banks) = DOk p -> In (Pad pc, wf) (p_sent p) ->
  pad_pos e (p_board p) (p_chip p) pc = DOk (c, r) -> pad_cal e c r = DErr ->
  exists k, build fcal e m order banks = Err k.
Proof. exact (reject_missing_pad_calibration F fcal e m order banks T B O). Qed.
Theorem C10_reject_duplicate_pad_signal :
  ~ NoDup (pad_claims e banks) -> exists k, build fcal e m order banks = Err k.
Proof. exact (reject_duplicate_pad F fcal e m order banks T B O). Qed.
Theorem C10_reject_malformed_trg : In (BTrg DErr) banks -> exists k, build fcal e m order banks = Err k.
Proof. exact (reject_malformed_trg F fcal e m order banks T B O). Qed.
Theorem C10_reject_duplicate_trg : forall l1 l2 l3 d1 d2,
  banks = l1 ++ BTrg d1 :: l2 ++ BTrg d2 :: l3 -> exists k, build fcal e m order banks = Err k.
Proof. exact (reject_duplicate_trg F fcal e m order banks T B O). Qed.
Theorem C10_reject_missing_trg : (forall d, ~ In (BTrg d) banks) -> exists k, build fcal e m order banks = Err k.
Proof. exact (reject_missing_trg F fcal e m order banks T B O). Qed.
End Rejections.
Print Assumptions C10_reject_unknown_name.
Print Assumptions C10_reject_malformed_wire_payload.
Print Assumptions C10_reject_bv_channel_in_wire_bank.
Print Assumptions C10_reject_wire_channel_mismatch.
Print Assumptions C10_reject_wire_board_mismatch.
Print Assumptions C10_reject_duplicate_wire_bank.
Print Assumptions C10_reject_missing_wire_map.
Print Assumptions C10_reject_missing_wire_calibration.
Print Assumptions C10_reject_malformed_chunk.
Print Assumptions C10_reject_pad_board_mismatch.
Print Assumptions C10_reject_malformed_pwb_packet.
Print Assumptions C10_reject_missing_pad_map.
Print Assumptions C10_reject_missing_pad_calibration.
Print Assumptions C10_reject_duplicate_pad_signal.
Print Assumptions C10_reject_malformed_trg.
Print Assumptions C10_reject_duplicate_trg.
Print Assumptions C10_reject_missing_trg.

(* non-vacuity: a concrete environment satisfies every hypothesis, a concrete bank list (a long
   wire packet with a board, a suppressed one without, a PWB chunk, TRG, an ignored bank) is
   assembled into the expected event: wire 1*32+2 = 34 gets (13-10)*2, (14-10)*2 after a delay of 2;
   pad (3*4+1, 7) gets (2-5)*3, (3-5)*3 after a delay of 1 *)
Example C10_hypotheses_satisfiable :
  env_typed ex_env /\ wire_pos_injective ex_env /\ banks_typed ex_banks.
Proof. exact (conj ex_env_typed (conj ex_env_injective ex_banks_typed)). Qed.
Example C10_nonvacuous_build : build ex_fcal ex_env Checked (fun l => l) ex_banks = Ok ex_event.
Proof. vm_compute. reflexivity. Qed.
Example C10_nonvacuous_spec : event_spec ex_fcal ex_env ex_banks ex_event.
Proof.
  apply (build_sound Z ex_fcal ex_env Checked (fun l => l)).
  - exact ex_env_typed.
  - exact ex_banks_typed.
  - intros l; apply Permutation_refl.
  - exact C10_nonvacuous_build.
Qed.
(* a duplicated wire bank whose first copy is the suppressed form is rejected (finding F5, repaired) *)
Example C10_short_then_long_rejected :
  is_err (build ex_fcal ex_env Checked (fun l => l)
    (BWire 1 2 (DOk {| a_board := None; a_chan := A32 2; a_wf := [] |}) :: ex_banks)) = true.
Proof. vm_compute. reflexivity. Qed.
