(* C02 — ADC packet decoding is exact. Statements only; proofs in Codec/Adc_proofs.v. *)
From AG Require Import Base.Prelude Base.Res Base.Bytes Codec.Adc Codec.Adc_proofs Gen.Boards Ident.Tables.

(* For ANY table of known MAC addresses and both overflow modes:
   accepted  <->  the field ranges and consistency rules hold and the bytes are the documented big-endian
   layout of the fields (u = the two unused footer bits).  All arithmetic of the rules is over Z, so
   requested_samples < 2 admits no long packet. *)
Theorem C02_adc_exact : forall macs m l f, bytes l ->
  (adc_decode macs m l = Ok f <-> adc_fields_ok macs f /\ exists u, u < 4 /\ l = adc_encode f u).
Proof. exact adc_exact_lemma. Qed.
Print Assumptions C02_adc_exact.

(* the code's truncate-then-adjust baseline equals the floor of the mean *)
Theorem C02_floor_mean : forall num : Z,
  (if (Z.rem num 64 <? 0)%Z then Z.quot num 64 - 1 else Z.quot num 64)%Z = (num / 64)%Z.
Proof. exact floor_mean_lemma. Qed.
Print Assumptions C02_floor_mean.

Theorem C02_adc_total : forall macs m l, bytes l -> adc_decode macs m l <> Panic.
Proof. exact adc_total_lemma. Qed.
Print Assumptions C02_adc_total.

(* a build without overflow checks decodes exactly like a build with them: nothing wraps silently *)
Theorem C02_adc_no_wrap : forall macs l, bytes l -> adc_decode macs Checked l = adc_decode macs Wrapping l.
Proof. exact adc_no_wrap_lemma. Qed.
Print Assumptions C02_adc_no_wrap.

(* constants regenerated from detector/src/alpha16.rs agree with the model *)
Theorem C02_consts_current :
  gen_BASELINE_SAMPLES = BASELINE_SAMPLES /\ gen_MIN_KEEP_LAST = MIN_KEEP_LAST /\
  Forall (fun mac => length mac = 6%nat /\ bytes mac) adc_macs.
Proof. split; [reflexivity|]. split; [reflexivity|]. repeat constructor. Qed.
Print Assumptions C02_consts_current.

(* non-vacuity: a 16-byte suppressed packet and the rejection of requested_samples = 1 *)
Example C02_nonvacuous_short :
  is_ok (adc_decode adc_macs Checked [1;3;0;4;5;139;2;187;0;0;0;7;0x20;0;0;0]) = true.
Proof. vm_compute. reflexivity. Qed.

(* non-vacuity of the long form: a 130-sample packet of board 09 (130 requested + 2 = 132), no suppression,
   baseline 3005 = floor of the mean of the first 64 samples; it decodes, satisfies adc_fields_ok with Some long part,
   and re-encodes to the same bytes *)
Definition ex_long_adc : list N :=
  [1; 3; 0; 4; 5; 130; 0; 132; 0; 0; 0; 7; 0; 0; 216; 128; 57; 104; 55; 76] ++ repeat 0 12 ++
  flat_map (fun _ => [11; 189]) (seq 0 100) ++ flat_map (fun _ => [11; 191]) (seq 0 30) ++ [0; 0; 11; 189].
Example C02_nonvacuous_long :
  match adc_decode adc_macs Checked ex_long_adc with
  | Ok f => match a_long f with Some lg => (length (al_wave lg) =? 130)%nat | None => false end
            && list_eqb (adc_encode f 0) ex_long_adc
  | _ => false
  end = true.
Proof. vm_compute. reflexivity. Qed.
(* the same packet with requested_samples = 1 (finding F1: 1 - 2 over Z admits nothing) is rejected, not a panic *)
Example C02_requested_samples_1_rejected :
  is_err (adc_decode adc_macs Checked (firstn 6 ex_long_adc ++ [0; 1] ++ skipn 8 ex_long_adc)) = true.
Proof. vm_compute. reflexivity. Qed.
