(* C14 — reconstruction stages are total on physical inputs and return finite geometry.   PARTIAL.

   FULL STATEMENT OF THE PROPERTY (not proved in full):
     for every finite set of space points (0..=2000 points, r in [0.05, 0.25] m, any phi, |z| <= 1.3 m, including the
     degenerate families of the quantifier) cluster_spacepoints returns; for every cluster Track::try_from returns a
     track or Err(NoInitialParameters); for every set of tracks find_vertices returns; none of them panics; every
     returned track has finite parameters and t_inner, t_outer in [-pi, pi]; every returned vertex is finite.

   LEVEL CLAIMED: proof of the CONTROL SKELETON, conditional on named numeric hypotheses that are stated RELATIVE TO THE
   PARAMETER VECTORS THE OPTIMISER ACTUALLY PASSES TO THE COST FUNCTION.
     The optimiser (argmin Executor + NelderMead) is a procedure that receives the cost function: an interaction tree
     `tree simplex : strategy F` (coq/Recon/Fit.v: Ask p k / Done best / Crash), run by `run_strategy cost (tree simplex)`;
     `asked cost (tree simplex)` is the list of vectors the cost function is called on.  Which vectors it asks is not
     modelled (the tree is universally quantified).
     * C14_fit_skeleton_total: every unwrap / assert! / partial_cmp().unwrap() / index of fit_cluster_to_helix,
       three_template_points and Problem::cost succeeds, and NoInitialParameters is the only error, PROVIDED
         (N1)  partial_cmp of non-NaN numbers is Some                                              (IEEE law)
         (N2)  |p.r - (a.r + b.r)/2| is not NaN for points of the cluster                           (finite radii)
         (N3e) NAMED NUMERIC GAP: on every vector the optimiser asks for THIS cluster, started from THIS cluster's initial
               simplex, the cost function returns a `good` number -- by C14_cost_ok_iff: norm_sqr(q, at(closest_t(q))) is
               not NaN for every point q of the cluster, i.e. the assert at track_fitting.rs:265 does not fire in this fit
         (N4e) NAMED GAP (argmin not modelled): for this simplex the optimiser is well formed (wf_strategy good 6): while the
               answers are good it asks vectors of dimension 6, does not fail by itself, and best_param is a vector it asked
         the sd tolerance is not negative; the cluster has >= 3 points.
       SATISFIABLE BY THE REAL CODE: with good := "not NaN" (N3e) holds of the implementation on exactly those clusters on
       which the assert does not fire -- every cluster outside the open finding F9 that the harness has tried -- and (N4e)
       is what argmin 0.8.1's NelderMead::init / next_iter do on non-NaN costs (read from its source, not proved).  The
       former form "(N3) the cost kernel is not NaN for EVERY parameter vector" was false of every binary64 kernel
       (p = [nan; ..] gives NaN); the lemmas that carried it have been removed (C09_vertex_total_partial uses (N3e) too).
       C14_fit_instance_binary64 instantiates all hypotheses with the real cost kernel of coq/Recon/Helix.v over binary64.
     * C14_fit_skeleton_total_binary64: (N1), (N2) discharged for the binary64 instance (Flocq link).
     * C14_vertex_skeleton_total: likewise for find_vertices / beamline_clusters / the vertex cost, PROVIDED
         (V1) z of closest approach to the beamline is not NaN, (V2) sums of radii are not NaN,
         (V3e), (V4e) as (N3e), (N4e) for the vertex cost function, the tracks the vertex fit is run on and dimension 3,
         (V5) the input tracks have no NaN field, so Track's PartialEq is reflexive on them;
         sort_unstable_by returns a permutation (std, not modelled).
       The position(..).unwrap() / swap_remove bookkeeping is proved by a multiset argument, not assumed.
     * C14_t_range / C14_t_range_binary64: NO numeric hypothesis: t_inner and t_outer of a RETURNED track are values of
       closest_t, hence (through C16_closest_t_range_partial, given atan2's range) NaN or in [-pi, pi].
     * C14_t_not_nan: t_inner / t_outer of a returned track are not NaN, given that best_param is a vector on which the
       cost function returned.
     * C14_tinyphi_known_witness: the open finding `tinyphi` (F9), where (N3e) is false of the implementation.
   NOT PROVED (monitored on the implementation by the harness lines rel14p / rel14f / rel14v, a test):
     (N3e), (N4e), (V3e), (V4e), finiteness of the returned parameters; totality of cluster_spacepoints is the subject of
     C15 (cluster_terminates) and is exercised here by rel14p.

   This file only pins statements; proofs are in Recon/Fit_proofs.v. *)
From Coq Require Import PrimFloat Permutation.
From AG Require Import Base.Prelude Base.Res Recon.Helix Recon.Fit Recon.Fit_proofs.
Local Open Scope nat_scope.

Theorem C14_fit_skeleton_total :
  forall (F point : Type) (p_r p_x p_y : point -> F) (flt feq : F -> F -> bool)
    (fcmp : F -> F -> option comparison) (fnan : F -> bool) (fadd fsub fmul : F -> F -> F)
    (fhalf fabs : F -> F) (fzero : F)
    (guess6 : list point -> point -> point -> point -> list F) (bump : F -> F)
    (point_val closest : list F -> point -> F)
    (tree : list (list F) -> strategy F) (good : F -> Prop) (sd_tol_ok : bool)
    (pts : list point),
  (* N1 *) (forall x y, fnan x = false -> fnan y = false -> fcmp x y <> None) ->
  (* N2 *) (forall a b p, In a pts -> In b pts -> In p pts ->
              fnan (dev F point p_r fsub fabs (fhalf (fadd (p_r a) (p_r b))) p) = false) ->
  (* N3e *) (forall s, fit_simplex F point p_r p_x p_y flt feq fcmp fadd fsub fmul fhalf fabs guess6 bump pts = Ok s ->
              forall p, In p (asked (cost F point fnan fadd fzero point_val pts) (tree s)) ->
              exists y, cost F point fnan fadd fzero point_val pts p = Ok y /\ good y) ->
  (* N4e *) (forall s, fit_simplex F point p_r p_x p_y flt feq fcmp fadd fsub fmul fhalf fabs guess6 bump pts = Ok s ->
              wf_strategy good 6 [] (tree s)) ->
  sd_tol_ok = true -> 3 <= length pts ->
  let fit := fit_cluster_to_helix F point p_r p_x p_y flt feq fcmp fnan fadd fsub fmul fhalf fabs fzero
               guess6 bump point_val closest (fun c s => run_strategy c (tree s)) sd_tol_ok in
  fit pts <> Panic /\ (forall k, fit pts = Err k -> k = E_noinit).
Proof. exact fit_skeleton_total_evaluated_lemma. Qed.
Print Assumptions C14_fit_skeleton_total.

(* the meaning of (N3e): Problem::cost returns on a vector of six parameters iff the summand is not NaN at every point *)
Theorem C14_cost_ok_iff :
  forall (F point : Type) (fnan : F -> bool) (fadd : F -> F -> F) (fzero : F) (point_val : list F -> point -> F)
    (pts : list point) (p : list F), length p = 6 ->
  ((exists y, cost F point fnan fadd fzero point_val pts p = Ok y) <->
   (forall q, In q pts -> fnan (point_val p q) = false)).
Proof. exact cost_ok_iff. Qed.
Print Assumptions C14_cost_ok_iff.

(* no numeric hypothesis: any fit that RETURNS a track reports values of closest_t *)
Theorem C14_t_range :
  forall (F point : Type) (p_r p_x p_y : point -> F) (flt feq : F -> F -> bool)
    (fcmp : F -> F -> option comparison) (fnan : F -> bool) (fadd fsub fmul : F -> F -> F)
    (fhalf fabs : F -> F) (fzero : F)
    (guess6 : list point -> point -> point -> point -> list F) (bump : F -> F)
    (point_val closest : list F -> point -> F)
    (nm : (list F -> res F) -> list (list F) -> res (option (list F))) (sd_tol_ok : bool)
    (pts : list point) (in_range : F -> Prop),
  (* the contract of closest_t: C16_closest_t_range_partial *)
  (forall hp q, in_range (closest hp q)) ->
  forall tr,
  fit_cluster_to_helix F point p_r p_x p_y flt feq fcmp fnan fadd fsub fmul fhalf fabs fzero
    guess6 bump point_val closest nm sd_tol_ok pts = Ok tr ->
  in_range (tr_t_inner F tr) /\ in_range (tr_t_outer F tr).
Proof. exact fit_t_range_min_lemma. Qed.
Print Assumptions C14_t_range.

Theorem C14_vertex_skeleton_total :
  forall (F point : Type) (fcmp : F -> F -> option comparison) (fnan : F -> bool) (fadd : F -> F -> F) (fzero : F)
    (bump : F -> F) (tree : list (list F) -> strategy F) (good : F -> Prop) (sd_tol_ok : bool)
    (T : Type) (teq : T -> T -> bool) (t_zb t_rad : T -> F) (is_primary : T -> bool) (close_z : F -> F -> bool)
    (sumF : list F -> F) (mean_z : list T -> F) (sortP : list T -> list T) (vpoint_of : list F -> point)
    (vcost_val : list T -> list F -> T -> F) (vguess : F -> list F) (tclosest : T -> point -> F)
    (tracks : list T),
  (* std *) (forall l, Permutation (sortP l) l) ->
  (* V1 *) (forall a b, In a tracks -> In b tracks -> fcmp (t_zb a) (t_zb b) <> None) ->
  (forall a b, teq a b = true -> teq b a = true) ->
  (forall a b c, teq a b = true -> teq b c = true -> teq a c = true) ->
  (* V2 *) (forall x y, (forall t, In t x -> In t tracks) -> (forall t, In t y -> In t tracks) ->
              fcmp (sumF (map t_rad x)) (sumF (map t_rad y)) <> None) ->
  (* V3e *) (forall ts mz s,
               vertex_best F fcmp T t_zb t_rad is_primary close_z sumF mean_z sortP tracks = Ok (Some (ts, mz)) ->
               initial_simplex F bump (vguess mz) = Ok s ->
               forall p, In p (asked (vcost F fnan fadd fzero T vcost_val ts) (tree s)) ->
               exists y, vcost F fnan fadd fzero T vcost_val ts p = Ok y /\ good y) ->
  (* V4e *) (forall ts mz s,
               vertex_best F fcmp T t_zb t_rad is_primary close_z sumF mean_z sortP tracks = Ok (Some (ts, mz)) ->
               initial_simplex F bump (vguess mz) = Ok s -> wf_strategy good 3 [] (tree s)) ->
  sd_tol_ok = true ->
  (* V5 *) (forall t, In t tracks -> teq t t = true) ->
  exists r, find_vertices F point fcmp fnan fadd fzero bump (fun c s => run_strategy c (tree s)) sd_tol_ok T teq t_zb
              t_rad is_primary close_z sumF mean_z sortP vpoint_of vcost_val vguess tclosest tracks = Ok r.
Proof. exact vertex_skeleton_total_evaluated_lemma. Qed.
Print Assumptions C14_vertex_skeleton_total.

(* the t reported with each track of the primary vertex is closest_t of that track at the vertex position *)
Theorem C14_vertex_t_values :
  forall (F point : Type) (fcmp : F -> F -> option comparison) (fnan : F -> bool) (fadd : F -> F -> F) (fzero : F)
    (bump : F -> F) (nm : (list F -> res F) -> list (list F) -> res (option (list F))) (sd_tol_ok : bool)
    (T : Type) (teq : T -> T -> bool) (t_zb t_rad : T -> F) (is_primary : T -> bool) (close_z : F -> F -> bool)
    (sumF : list F -> F) (mean_z : list T -> F) (sortP : list T -> list T) (vpoint_of : list F -> point)
    (vcost_val : list T -> list F -> T -> F) (vguess : F -> list F) (tclosest : T -> point -> F)
    (tracks : list T) v rem,
  find_vertices F point fcmp fnan fadd fzero bump nm sd_tol_ok T teq t_zb t_rad is_primary close_z
    sumF mean_z sortP vpoint_of vcost_val vguess tclosest tracks = Ok (Some v, rem) ->
  forall t x, In (t, x) (v_tracks F T v) -> x = tclosest t (vpoint_of (v_pos F T v)).
Proof. exact vertex_t_values_lemma. Qed.
Print Assumptions C14_vertex_t_values.

Theorem C14_vertex_t_range :
  forall (F point : Type) (fcmp : F -> F -> option comparison) (fnan : F -> bool) (fadd : F -> F -> F) (fzero : F)
    (bump : F -> F) (nm : (list F -> res F) -> list (list F) -> res (option (list F))) (sd_tol_ok : bool)
    (T : Type) (teq : T -> T -> bool) (t_zb t_rad : T -> F) (is_primary : T -> bool) (close_z : F -> F -> bool)
    (sumF : list F -> F) (mean_z : list T -> F) (sortP : list T -> list T) (vpoint_of : list F -> point)
    (vcost_val : list T -> list F -> T -> F) (vguess : F -> list F) (tclosest : T -> point -> F)
    (in_range : F -> Prop),
  (* the contract of closest_t: C16_closest_t_range_partial *)
  (forall t q, in_range (tclosest t q)) ->
  forall (tracks : list T) v rem,
  find_vertices F point fcmp fnan fadd fzero bump nm sd_tol_ok T teq t_zb t_rad is_primary close_z
    sumF mean_z sortP vpoint_of vcost_val vguess tclosest tracks = Ok (Some v, rem) ->
  forall t x, In (t, x) (v_tracks F T v) -> in_range x.
Proof. exact vertex_t_range_lemma. Qed.
Print Assumptions C14_vertex_t_range.

(* the hypotheses are satisfiable by a binary64 instance with the REAL cost kernel (Fit.B64): the summand is
   norm_sqr(q, helix.at(helix.closest_t(q, EPSILON, 20))) of coq/Recon/Helix.v (the model C16 ties bit for bit) over a
   software libm; three points of a helix of radius 0.25 m and pitch 1 m; the optimiser asks the seven vertices of the
   scipy-style simplex and one reflection (eight vectors, computed) and returns the best of them.  (N1) is the IEEE law,
   (N2), (N3e) are computed on this instance, (N4e) is proved for the prober. *)
Example C14_fit_instance_binary64 :
  B64.fit B64.pts <> Panic /\ (forall k, B64.fit B64.pts = Err k -> k = E_noinit).
Proof. exact B64_proofs.fit_total. Qed.
Example C14_fit_instance_binary64_runs :
  is_ok (B64.fit B64.pts) = true
  /\ length (asked B64.the_cost (B64.tree B64.the_simplex)) = 8
  /\ forallb (fun p => match B64.the_cost p with Ok y => negb (PrimFloat.is_nan y) | _ => false end)
              (asked B64.the_cost (B64.tree B64.the_simplex)) = true
  (* and the all-vectors form of the hypothesis is false of this kernel: a NaN parameter gives a NaN summand *)
  /\ PrimFloat.is_nan (B64.real_point_val B64.soft_libm [PrimFloat.nan; 0; 0; 1; 0; 1]%float
                         (mk_spoint 0x1.c28f5c28f5c29p-4 0x1.3333333333333p-2 0x1.999999999999ap-4)) = true.
Proof. vm_compute. repeat split; reflexivity. Qed.
(* exact instances (numbers = nat; the optimiser asks the first vertex of the simplex and returns it) of the same
   hypotheses (N1)-(N4e), (V1)-(V5), for ALL clusters of >= 3 points / ALL track lists *)
Example C14_fit_instance : forall pts, 3 <= length pts ->
  Toy.fit pts <> Panic /\ (forall k, Toy.fit pts = Err k -> k = E_noinit).
Proof. exact Toy.fit_total. Qed.
Example C14_fit_instance_runs : is_ok (Toy.fit [5; 1; 9; 4; 7]) = true /\ Toy.fit [3; 3; 3] = Err E_noinit.
Proof. vm_compute. split; reflexivity. Qed.
Example C14_vertex_instance : forall tracks, exists r, Toy.find tracks = Ok r.
Proof. exact Toy.find_total. Qed.
Example C14_vertex_instance_runs :
  match Toy.find [8; 9; 1; 10; 8] with Ok (Some v, rem) => length (v_tracks nat nat v) + length rem | _ => 0 end = 5.
Proof. vm_compute. reflexivity. Qed.

(* t_range over binary64: with the real closest_t (coq/Recon/Helix.v) as the kernel, t_inner and t_outer of a returned
   track are NaN or in [-pi, pi] (through C16_closest_t_range_partial; standard FloatAxioms); no other hypothesis *)
From AG Require Recon.Helix_proofs.
Theorem C14_t_range_binary64 :
  forall (L : libm) (tol : PrimFloat.float) (iters : nat),
  (forall y x, Helix_proofs.rn (latan2 L y x)) ->
  forall (flt feq : PrimFloat.float -> PrimFloat.float -> bool) fcmp fnan fadd fsub fmul fhalf fabs fzero
    guess6 bump point_val nm sd_tol_ok (pts : list spoint) tr,
  fit_cluster_to_helix PrimFloat.float spoint sp_r (sp_x L) (sp_y L) flt feq fcmp fnan fadd fsub fmul fhalf fabs fzero
    guess6 bump point_val (fun hp q => closest_t L (helix_of_params hp) q tol iters) nm sd_tol_ok pts = Ok tr ->
  Helix_proofs.rn (tr_t_inner PrimFloat.float tr) /\ Helix_proofs.rn (tr_t_outer PrimFloat.float tr).
Proof. exact fit_t_range_binary64_min_lemma. Qed.
Print Assumptions C14_t_range_binary64.

(* fit_skeleton_total for the binary64 instance (the instance the differential tag fit3 runs): the IEEE hypotheses
   (N1), (N2) are discharged through Flocq's link to primitive floats — the radii only have to be finite with
   |r| <= 1 m (Rabs_le1; the quantifier has r <= 0.25 m) — so only the gaps (N3e), (N4e) remain *)
Theorem C14_fit_skeleton_total_binary64 :
  forall (L : libm) guess6 bump point_val closest (tree : list (list PrimFloat.float) -> strategy PrimFloat.float)
    (good : PrimFloat.float -> Prop) sd_tol_ok (pts : list spoint),
  (* radii *) (forall p, In p pts -> Fit_proofs.Rabs_le1 (sp_r p)) ->
  (* N3e *) (forall s, fit_simplex PrimFloat.float spoint sp_r (sp_x L) (sp_y L) PrimFloat.ltb PrimFloat.eqb fcmp_prim
               PrimFloat.add PrimFloat.sub PrimFloat.mul (fun x => PrimFloat.div x 2%float) PrimFloat.abs guess6 bump pts = Ok s ->
     forall p, In p (asked (cost PrimFloat.float spoint PrimFloat.is_nan PrimFloat.add 0%float point_val pts) (tree s)) ->
     exists y, cost PrimFloat.float spoint PrimFloat.is_nan PrimFloat.add 0%float point_val pts p = Ok y /\ good y) ->
  (* N4e *) (forall s, fit_simplex PrimFloat.float spoint sp_r (sp_x L) (sp_y L) PrimFloat.ltb PrimFloat.eqb fcmp_prim
               PrimFloat.add PrimFloat.sub PrimFloat.mul (fun x => PrimFloat.div x 2%float) PrimFloat.abs guess6 bump pts = Ok s ->
     wf_strategy good 6 [] (tree s)) ->
  sd_tol_ok = true -> 3 <= length pts ->
  let fit := fit_cluster_to_helix PrimFloat.float spoint sp_r (sp_x L) (sp_y L) PrimFloat.ltb PrimFloat.eqb fcmp_prim
               PrimFloat.is_nan PrimFloat.add PrimFloat.sub PrimFloat.mul (fun x => PrimFloat.div x 2%float)
               PrimFloat.abs 0%float guess6 bump point_val closest (fun c s => run_strategy c (tree s)) sd_tol_ok in
  fit pts <> Panic /\ (forall k, fit pts = Err k -> k = E_noinit).
Proof. exact fit_skeleton_total_evaluated_binary64_lemma. Qed.
Print Assumptions C14_fit_skeleton_total_binary64.

(* t_inner and t_outer of a returned track are NOT NaN — no totality hypothesis: the cost function has evaluated
   closest_t at the returned parameters for every point of the cluster (among them the template points) and its
   assert!(!val.is_nan()) passed.  Hypotheses: (S1) the optimiser's best_param is the argument of a completed cost call
   (argmin, not modelled), (S2) IEEE: a NaN t gives a NaN squared distance through Helix::at and norm_sqr.
   Together with C14_t_range(_binary64): t_inner, t_outer lie in [-pi, pi]. *)
Theorem C14_t_not_nan :
  forall (F point : Type) (p_r p_x p_y : point -> F) (flt feq : F -> F -> bool)
    (fcmp : F -> F -> option comparison) (fnan : F -> bool) (fadd fsub fmul : F -> F -> F)
    (fhalf fabs : F -> F) (fzero : F)
    (guess6 : list point -> point -> point -> point -> list F) (bump : F -> F)
    (point_val closest : list F -> point -> F)
    (nm : (list F -> res F) -> list (list F) -> res (option (list F))) (sd_tol_ok : bool),
  (* S1 *) (forall (c : list F -> res F) s v, nm c s = Ok (Some v) -> exists y, c v = Ok y) ->
  (* S2 *) (forall p q, fnan (closest p q) = true -> fnan (point_val p q) = true) ->
  forall pts tr,
  fit_cluster_to_helix F point p_r p_x p_y flt feq fcmp fnan fadd fsub fmul fhalf fabs fzero
    guess6 bump point_val closest nm sd_tol_ok pts = Ok tr ->
  fnan (tr_t_inner F tr) = false /\ fnan (tr_t_outer F tr) = false.
Proof. exact fit_t_not_nan_lemma. Qed.
Print Assumptions C14_t_not_nan.

(* ---- OPEN FINDING `tinyphi`, F9 (harness tags rel14kf-tinyphi-*, corpus/C14/tinyphi.case) ----
   On the class recognised by Fit.tinyphi_class (template circle radius >= 1e136 m, template points not collinear in the
   sense of the code; the same operations as the harness recogniser, tied by the differential tag cls14) the numeric
   hypothesis (N3e) is false of the implementation for almost every member with radius >= 1e138 m (it panics at
   track_fitting.rs:265).  The theorems above are conditional on (N3e), so none of them is contradicted; they say nothing
   there.  Pinned here: the witness is in the class, and already in the binary64 model closest_t of the fit's initial
   guess is NaN because e = 4 pi^2 r R / h^2 = inf/inf. *)
Theorem C14_tinyphi_known_witness :
  tinyphi_class tinyphi_libm tinyphi_witness = true
  /\ match tinyphi_witness with
     | p :: _ => PrimFloat.is_nan (closest_t tinyphi_libm tinyphi_guess p EPS 20) = true
                 /\ PrimFloat.is_nan (kf_e (kepler_setup tinyphi_libm tinyphi_guess p)) = true
     | [] => False
     end.
Proof. exact (conj tinyphi_witness_in_class tinyphi_witness_nan). Qed.
Print Assumptions C14_tinyphi_known_witness.
