(* C14 — reconstruction stages are total on physical inputs and return finite geometry.   PARTIAL.

   FULL STATEMENT OF THE PROPERTY (not proved in full):
     for every finite set of space points (0..=2000 points, r in [0.05, 0.25] m, any phi, |z| <= 1.3 m, including the
     degenerate families of the quantifier) cluster_spacepoints returns; for every cluster Track::try_from returns a
     track or Err(NoInitialParameters); for every set of tracks find_vertices returns; none of them panics; every
     returned track has finite parameters and t_inner, t_outer in [-pi, pi]; every returned vertex is finite.

   LEVEL CLAIMED: proof of the CONTROL SKELETON, conditional on named numeric hypotheses.
     * C14_fit_skeleton_total: every unwrap / assert! / partial_cmp().unwrap() / index of fit_cluster_to_helix,
       three_template_points and Problem::cost succeeds, and NoInitialParameters is the only error, PROVIDED
         (N1) partial_cmp of non-NaN numbers is Some                      (IEEE law)
         (N2) the radii of the cluster are numbers: |p.r - (a.r + b.r)/2| is not NaN   (numeric fact, holds for finite radii)
         (N3) the cost oracle norm_sqr(p, at(closest_t(p))) is never NaN   (NAMED GAP: binary64 Newton through glibc)
         (N4) Nelder-Mead returns a parameter vector of the simplex dimension when the cost never panics
                                                                           (NAMED GAP: argmin is not modelled)
         (N5) the initial guess has 6 components, the sd tolerance is not negative; the cluster has >= 3 points.
     * C14_vertex_skeleton_total: likewise for find_vertices / beamline_clusters / the vertex cost, PROVIDED
         (V1) z of closest approach to the beamline is not NaN, (V2) sums of radii are not NaN,
         (V3) the vertex cost oracle is never NaN (NAMED GAP), (V4) as (N4) (NAMED GAP),
         (V5) the input tracks have no NaN field (what this property promises of the fit), so Track's PartialEq is
              reflexive on them;  sort_unstable_by returns a permutation (std, not modelled).
       The position(..).unwrap() / swap_remove bookkeeping is proved by a multiset argument, not assumed.
     * C14_t_range: t_inner and t_outer of a returned track are values of closest_t at points of the cluster, hence
       (C14_t_range_binary64, through C16_closest_t_range_partial) NaN or in [-pi, pi].
     * C14_t_not_nan: t_inner / t_outer of a returned track are not NaN (the cost function's assert has already
       covered them), given only that the optimiser returns a vector it has evaluated.
     * C14_fit_skeleton_total_binary64: (N1), (N2) discharged for the binary64 instance (Flocq link).
     * C14_tinyphi_known_witness: the open finding `tinyphi` (where (N3) is false of the implementation).
   NOT PROVED (monitored on the implementation by the harness lines rel14p / rel14f / rel14v, a test):
     (N3), (N4), (V3), (V4), finiteness of the returned parameters, NaN-freedom of t_inner / t_outer; totality of
     cluster_spacepoints is the subject of C15 (cluster_terminates) and is exercised here by rel14p.

   This file only pins statements; proofs are in Recon/Fit_proofs.v. *)
From Coq Require Import PrimFloat Permutation.
From AG Require Import Base.Prelude Base.Res Recon.Helix Recon.Fit Recon.Fit_proofs.
Local Open Scope nat_scope.

Theorem C14_fit_skeleton_total :
  forall (F point : Type) (p_r p_x p_y : point -> F) (flt feq : F -> F -> bool)
    (fcmp : F -> F -> option comparison) (fnan : F -> bool) (fadd fsub fmul : F -> F -> F)
    (fhalf fabs : F -> F) (fzero : F)
    (guess6 : list point -> point -> point -> point -> list F) (bump : F -> F)
    (point_val closest : list F -> point -> F)
    (nm : (list F -> res F) -> list (list F) -> res (option (list F))) (sd_tol_ok : bool)
    (pts : list point),
  (* N1 *) (forall x y, fnan x = false -> fnan y = false -> fcmp x y <> None) ->
  (* N2 *) (forall a b p, In a pts -> In b pts -> In p pts ->
              fnan (dev F point p_r fsub fabs (fhalf (fadd (p_r a) (p_r b))) p) = false) ->
  (* N3 *) (forall p q, In q pts -> fnan (point_val p q) = false) ->
  (* N4 *) (forall (c : list F -> res F) s n,
              (forall p, length p = n -> c p <> Panic /\ forall k, c p <> Err k) ->
              Forall (fun v => length v = n) s -> s <> [] ->
              exists v, nm c s = Ok (Some v) /\ length v = n) ->
  (* N5 *) (forall f m l, length (guess6 pts f m l) = 6) -> sd_tol_ok = true -> 3 <= length pts ->
  let fit := fit_cluster_to_helix F point p_r p_x p_y flt feq fcmp fnan fadd fsub fmul fhalf fabs fzero
               guess6 bump point_val closest nm sd_tol_ok in
  fit pts <> Panic /\ (forall k, fit pts = Err k -> k = E_noinit).
Proof. exact fit_skeleton_total_lemma. Qed.
Print Assumptions C14_fit_skeleton_total.

Theorem C14_t_range :
  forall (F point : Type) (p_r p_x p_y : point -> F) (flt feq : F -> F -> bool)
    (fcmp : F -> F -> option comparison) (fnan : F -> bool) (fadd fsub fmul : F -> F -> F)
    (fhalf fabs : F -> F) (fzero : F)
    (guess6 : list point -> point -> point -> point -> list F) (bump : F -> F)
    (point_val closest : list F -> point -> F)
    (nm : (list F -> res F) -> list (list F) -> res (option (list F))) (sd_tol_ok : bool)
    (pts : list point),
  (forall x y, fnan x = false -> fnan y = false -> fcmp x y <> None) ->
  (forall a b p, In a pts -> In b pts -> In p pts ->
     fnan (dev F point p_r fsub fabs (fhalf (fadd (p_r a) (p_r b))) p) = false) ->
  (forall p q, In q pts -> fnan (point_val p q) = false) ->
  (forall (c : list F -> res F) s n,
     (forall p, length p = n -> c p <> Panic /\ forall k, c p <> Err k) ->
     Forall (fun v => length v = n) s -> s <> [] ->
     exists v, nm c s = Ok (Some v) /\ length v = n) ->
  (forall f m l, length (guess6 pts f m l) = 6) -> sd_tol_ok = true -> 3 <= length pts ->
  forall (in_range : F -> Prop),
  (* the contract of closest_t: C16_closest_t_range_partial *)
  (forall hp q, in_range (closest hp q)) ->
  forall tr,
  fit_cluster_to_helix F point p_r p_x p_y flt feq fcmp fnan fadd fsub fmul fhalf fabs fzero
    guess6 bump point_val closest nm sd_tol_ok pts = Ok tr ->
  in_range (tr_t_inner F tr) /\ in_range (tr_t_outer F tr).
Proof. exact fit_t_range_lemma. Qed.
Print Assumptions C14_t_range.

Theorem C14_vertex_skeleton_total :
  forall (F point : Type) (fcmp : F -> F -> option comparison) (fnan : F -> bool) (fadd : F -> F -> F) (fzero : F)
    (bump : F -> F) (nm : (list F -> res F) -> list (list F) -> res (option (list F))) (sd_tol_ok : bool)
    (T : Type) (teq : T -> T -> bool) (t_zb t_rad : T -> F) (is_primary : T -> bool) (close_z : F -> F -> bool)
    (sumF : list F -> F) (mean_z : list T -> F) (sortP : list T -> list T) (vpoint_of : list F -> point)
    (vcost_val : list T -> list F -> T -> F) (vguess : F -> list F) (tclosest : T -> point -> F)
    (tracks : list T),
  (* std *) (forall l, Permutation (sortP l) l) ->
  (* V1 *) (forall a b, In a tracks -> In b tracks -> fcmp (t_zb a) (t_zb b) <> None) ->
  (* V2 *) (forall x y, (forall t, In t x -> In t tracks) -> (forall t, In t y -> In t tracks) ->
              fcmp (sumF (map t_rad x)) (sumF (map t_rad y)) <> None) ->
  (* V3 *) (forall ts p t, fnan (vcost_val ts p t) = false) ->
  (* V4 *) (forall (c : list F -> res F) s n,
              (forall p, length p = n -> c p <> Panic /\ forall k, c p <> Err k) ->
              Forall (fun v => length v = n) s -> s <> [] ->
              exists v, nm c s = Ok (Some v) /\ length v = n) ->
  (forall z, length (vguess z) = 3) -> sd_tol_ok = true ->
  (* V5 *) (forall t, In t tracks -> teq t t = true) ->
  (forall a b, teq a b = true -> teq b a = true) ->
  (forall a b c, teq a b = true -> teq b c = true -> teq a c = true) ->
  exists r, find_vertices F point fcmp fnan fadd fzero bump nm sd_tol_ok T teq t_zb t_rad is_primary close_z
              sumF mean_z sortP vpoint_of vcost_val vguess tclosest tracks = Ok r.
Proof. exact vertex_skeleton_total_lemma. Qed.
Print Assumptions C14_vertex_skeleton_total.

(* the t reported with each track of the primary vertex is closest_t of that track at the vertex position *)
Theorem C14_vertex_t_values :
  forall (F point : Type) (fcmp : F -> F -> option comparison) (fnan : F -> bool) (fadd : F -> F -> F) (fzero : F)
    (bump : F -> F) (nm : (list F -> res F) -> list (list F) -> res (option (list F))) (sd_tol_ok : bool)
    (T : Type) (teq : T -> T -> bool) (t_zb t_rad : T -> F) (is_primary : T -> bool) (close_z : F -> F -> bool)
    (sumF : list F -> F) (mean_z : list T -> F) (sortP : list T -> list T) (vpoint_of : list F -> point)
    (vcost_val : list T -> list F -> T -> F) (vguess : F -> list F) (tclosest : T -> point -> F)
    (tracks : list T) v rem,
  find_vertices F point fcmp fnan fadd fzero bump nm sd_tol_ok T teq t_zb t_rad is_primary close_z
    sumF mean_z sortP vpoint_of vcost_val vguess tclosest tracks = Ok (Some v, rem) ->
  forall t x, In (t, x) (v_tracks F T v) -> x = tclosest t (vpoint_of (v_pos F T v)).
Proof. exact vertex_t_values_lemma. Qed.
Print Assumptions C14_vertex_t_values.

Theorem C14_vertex_t_range :
  forall (F point : Type) (fcmp : F -> F -> option comparison) (fnan : F -> bool) (fadd : F -> F -> F) (fzero : F)
    (bump : F -> F) (nm : (list F -> res F) -> list (list F) -> res (option (list F))) (sd_tol_ok : bool)
    (T : Type) (teq : T -> T -> bool) (t_zb t_rad : T -> F) (is_primary : T -> bool) (close_z : F -> F -> bool)
    (sumF : list F -> F) (mean_z : list T -> F) (sortP : list T -> list T) (vpoint_of : list F -> point)
    (vcost_val : list T -> list F -> T -> F) (vguess : F -> list F) (tclosest : T -> point -> F)
    (in_range : F -> Prop),
  (* the contract of closest_t: C16_closest_t_range_partial *)
  (forall t q, in_range (tclosest t q)) ->
  forall (tracks : list T) v rem,
  find_vertices F point fcmp fnan fadd fzero bump nm sd_tol_ok T teq t_zb t_rad is_primary close_z
    sumF mean_z sortP vpoint_of vcost_val vguess tclosest tracks = Ok (Some v, rem) ->
  forall t x, In (t, x) (v_tracks F T v) -> in_range x.
Proof. exact vertex_t_range_lemma. Qed.
Print Assumptions C14_vertex_t_range.

(* the hypotheses are satisfiable: an exact instance (numbers = nat) where the conclusions are also computed *)
Example C14_fit_instance : forall pts, 3 <= length pts ->
  Toy.fit pts <> Panic /\ (forall k, Toy.fit pts = Err k -> k = E_noinit).
Proof. exact Toy.fit_total. Qed.
Example C14_fit_instance_runs : is_ok (Toy.fit [5; 1; 9; 4; 7]) = true /\ Toy.fit [3; 3; 3] = Err E_noinit.
Proof. vm_compute. split; reflexivity. Qed.
Example C14_vertex_instance : forall tracks, exists r, Toy.find tracks = Ok r.
Proof. exact Toy.find_total. Qed.
Example C14_vertex_instance_runs :
  match Toy.find [8; 9; 1; 10; 8] with Ok (Some v, rem) => length (v_tracks nat nat v) + length rem | _ => 0 end = 5.
Proof. vm_compute. reflexivity. Qed.

(* t_range over binary64: with the real closest_t (coq/Recon/Helix.v) as the kernel, t_inner and t_outer of a returned
   track are NaN or in [-pi, pi] (through C16_closest_t_range_partial; standard FloatAxioms) *)
From AG Require Recon.Helix_proofs.
Theorem C14_t_range_binary64 :
  forall (L : libm) (tol : PrimFloat.float) (iters : nat),
  (forall y x, Helix_proofs.rn (latan2 L y x)) ->
  forall (flt feq : PrimFloat.float -> PrimFloat.float -> bool) fcmp fnan fadd fsub fmul fhalf fabs fzero
    guess6 bump point_val nm sd_tol_ok (pts : list spoint),
  (forall x y, fnan x = false -> fnan y = false -> fcmp x y <> None) ->
  (forall a b p, In a pts -> In b pts -> In p pts ->
     fnan (dev PrimFloat.float spoint sp_r fsub fabs (fhalf (fadd (sp_r a) (sp_r b))) p) = false) ->
  (forall p q, In q pts -> fnan (point_val p q) = false) ->
  (forall (c : list PrimFloat.float -> res PrimFloat.float) s n,
     (forall p, length p = n -> c p <> Panic /\ forall k, c p <> Err k) ->
     Forall (fun v => length v = n) s -> s <> [] ->
     exists v, nm c s = Ok (Some v) /\ length v = n) ->
  (forall f m l, length (guess6 pts f m l) = 6) -> sd_tol_ok = true -> 3 <= length pts ->
  forall tr,
  fit_cluster_to_helix PrimFloat.float spoint sp_r (sp_x L) (sp_y L) flt feq fcmp fnan fadd fsub fmul fhalf fabs fzero
    guess6 bump point_val (fun hp q => closest_t L (helix_of_params hp) q tol iters) nm sd_tol_ok pts = Ok tr ->
  Helix_proofs.rn (tr_t_inner PrimFloat.float tr) /\ Helix_proofs.rn (tr_t_outer PrimFloat.float tr).
Proof. exact fit_t_range_binary64_lemma. Qed.
Print Assumptions C14_t_range_binary64.

(* fit_skeleton_total for the binary64 instance (the instance the differential tag fit3 runs): the IEEE hypotheses
   (N1), (N2) are discharged through Flocq's link to primitive floats — the radii only have to be finite with
   |r| <= 1 m (Rabs_le1; the quantifier has r <= 0.25 m) — so only the genuinely numeric gaps (N3), (N4) remain *)
Theorem C14_fit_skeleton_total_binary64 :
  forall (L : libm) guess6 bump point_val closest nm sd_tol_ok (pts : list spoint),
  (* radii *) (forall p, In p pts -> Fit_proofs.Rabs_le1 (sp_r p)) ->
  (* N3 *) (forall p q, In q pts -> PrimFloat.is_nan (point_val p q) = false) ->
  (* N4 *) (forall (c : list PrimFloat.float -> res PrimFloat.float) s n,
     (forall p, length p = n -> c p <> Panic /\ forall k, c p <> Err k) ->
     Forall (fun v => length v = n) s -> s <> [] ->
     exists v, nm c s = Ok (Some v) /\ length v = n) ->
  (* N5 *) (forall f m l, length (guess6 pts f m l) = 6) -> sd_tol_ok = true -> 3 <= length pts ->
  let fit := fit_cluster_to_helix PrimFloat.float spoint sp_r (sp_x L) (sp_y L) PrimFloat.ltb PrimFloat.eqb fcmp_prim
               PrimFloat.is_nan PrimFloat.add PrimFloat.sub PrimFloat.mul (fun x => PrimFloat.div x 2%float)
               PrimFloat.abs 0%float guess6 bump point_val closest nm sd_tol_ok in
  fit pts <> Panic /\ (forall k, fit pts = Err k -> k = E_noinit).
Proof. exact fit_skeleton_total_binary64_lemma. Qed.
Print Assumptions C14_fit_skeleton_total_binary64.

(* t_inner and t_outer of a returned track are NOT NaN — no totality hypothesis: the cost function has evaluated
   closest_t at the returned parameters for every point of the cluster (among them the template points) and its
   assert!(!val.is_nan()) passed.  Hypotheses: (S1) the optimiser's best_param is the argument of a completed cost call
   (argmin, not modelled), (S2) IEEE: a NaN t gives a NaN squared distance through Helix::at and norm_sqr.
   Together with C14_t_range(_binary64): t_inner, t_outer lie in [-pi, pi]. *)
Theorem C14_t_not_nan :
  forall (F point : Type) (p_r p_x p_y : point -> F) (flt feq : F -> F -> bool)
    (fcmp : F -> F -> option comparison) (fnan : F -> bool) (fadd fsub fmul : F -> F -> F)
    (fhalf fabs : F -> F) (fzero : F)
    (guess6 : list point -> point -> point -> point -> list F) (bump : F -> F)
    (point_val closest : list F -> point -> F)
    (nm : (list F -> res F) -> list (list F) -> res (option (list F))) (sd_tol_ok : bool),
  (* S1 *) (forall (c : list F -> res F) s v, nm c s = Ok (Some v) -> exists y, c v = Ok y) ->
  (* S2 *) (forall p q, fnan (closest p q) = true -> fnan (point_val p q) = true) ->
  forall pts tr,
  fit_cluster_to_helix F point p_r p_x p_y flt feq fcmp fnan fadd fsub fmul fhalf fabs fzero
    guess6 bump point_val closest nm sd_tol_ok pts = Ok tr ->
  fnan (tr_t_inner F tr) = false /\ fnan (tr_t_outer F tr) = false.
Proof. exact fit_t_not_nan_lemma. Qed.
Print Assumptions C14_t_not_nan.

(* ---- OPEN FINDING `tinyphi` (harness tags rel14kf-tinyphi-*, corpus/C14/tinyphi.case) ----
   On the class recognised by Fit.tinyphi_class the numeric hypothesis (N3) is false of the implementation (it panics at
   track_fitting.rs:265).  The theorems above are conditional on (N3), so none of them is contradicted; they say nothing
   on this class.  Pinned here: the witness is in the class, and already in the binary64 model closest_t of the fit's
   initial guess is NaN because e = 4 pi^2 r R / h^2 = inf/inf. *)
Theorem C14_tinyphi_known_witness :
  tinyphi_class tinyphi_libm tinyphi_witness = true
  /\ match tinyphi_witness with
     | p :: _ => PrimFloat.is_nan (closest_t tinyphi_libm tinyphi_guess p EPS 20) = true
                 /\ PrimFloat.is_nan (kf_e (kepler_setup tinyphi_libm tinyphi_guess p)) = true
     | [] => False
     end.
Proof. exact (conj tinyphi_witness_in_class tinyphi_witness_nan). Qed.
Print Assumptions C14_tinyphi_known_witness.
