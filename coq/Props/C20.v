(* C20 — the Chronobox timestamps CSV never reports a wrong time. Statements only.
   Model: Apps/CbTime.v (alpha-g-chronobox-timestamps/main.rs, times in integer ticks of the 10 MHz clock),
   parser: Codec/Chrono.v (C07), hardware FIFO model and event-level specification: Apps/CbHardware.v. *)
From Coq Require Import Sorted.
From AG Require Import Base.Prelude Base.Res Base.Bytes Codec.Chrono Codec.Chrono_proofs
  Apps.CbTime Apps.CbHardware Apps.CbTime_proofs.

(* ---------- rows: one per timestamp entry after the first counter-0 marker, by board, in stream order ---------- *)
(* the row loops (split_inclusive on markers, split_last, previous/next marker threading) never reach an
   unreachable!() and produce, for ANY entry list, one row per timestamp entry, in order, whose time is computed
   from the nearest marker before and after it *)
Theorem C20_rows_loop : forall b fifo,
  board_rows b fifo = Ok (rows_spec b None fifo) /\
  map row_key (rows_spec b None fifo) = ts_keys b fifo /\
  length (rows_spec b None fifo) = count_ts fifo.
Proof. intros. split; [apply board_rows_spec|]. split; [apply rows_spec_keys|apply rows_spec_length]. Qed.
Print Assumptions C20_rows_loop.

(* the whole program, ANY input: when it succeeds there is one parsed FIFO per board that has a bank, in ascending
   board order; each is the suffix, starting at the first counter-0 marker (whose top bit is clear), of the entries
   of the board's complete buffer (parsed with nothing left over); the rows are exactly, board after board and in
   stream order, one row (board, channel, leading = not trailing) per timestamp entry of that suffix *)
Theorem C20_cb_rows_complete : forall pieces rows, cb_program pieces = Ok rows ->
  exists fs,
    map fst fs = keys (cb_buffers pieces) /\
    Forall2 (fun bb bf => exists es t, cb_fifo (snd bb) = (es, []) /\ from_first is_mk0 es = Some (snd bf) /\
                                      snd bf = MK false 0 :: t) (cb_buffers pieces) fs /\
    map row_key rows = flat_map (fun bf => ts_keys (fst bf) (snd bf)) fs /\
    rows = rows_of_fifos fs.
Proof. exact cb_rows_complete_lemma. Qed.
Print Assumptions C20_cb_rows_complete.

(* the buffers: ascending board order (BTreeMap), a board is present iff it has a bank, its buffer is the
   concatenation of its banks in file/event/bank order *)
Theorem C20_cb_buffers : forall pieces,
  StronglySorted N.lt (map fst (cb_buffers pieces)) /\
  forall b, bt_lookup (cb_buffers pieces) b = if present b pieces then Some (concat_of b pieces) else None.
Proof. exact cb_buffers_spec. Qed.
Print Assumptions C20_cb_buffers.

(* ---------- times ---------- *)
(* the arithmetic core: an edge at absolute tick T, found in the FIFO between marker k-1 (written at tick k*2^23,
   top bit = (k-1) odd) and marker k, DISPLACED BY LESS THAN 2^23 TICKS from the window [k*2^23, (k+1)*2^23) of those
   markers: the program's time (epoch = ((k-1)+1)/2, top-bit comparison) is the true time (T with bit 0, the edge
   flag, dropped) exactly when the edge really lies in the window, and empty when it was displaced across a marker *)
Theorem C20_hw_time_core : forall k T, 1 <= k ->
  k * 8388608 <= T + 8388608 -> T < (k + 1) * 8388608 + 8388608 ->
  chronobox_time (T mod 16777216 / 2 * 2) (Some (oddN (k - 1), k - 1)) (Some (oddN k, k)) =
  if (k * 8388608 <=? T) && (T <? (k + 1) * 8388608) then Some (T - T mod 2) else None.
Proof. exact hw_time_core. Qed.
Print Assumptions C20_hw_time_core.

(* value of a non-empty time, for ANY markers: only between two consecutive consistent markers, on the right side *)
Theorem C20_chronobox_time_some : forall ts previous next t,
  chronobox_time ts previous next = Some t <->
  exists ptop pcnt ntop, previous = Some (ptop, pcnt) /\ next = Some (ntop, pcnt + 1) /\ ntop <> ptop /\
    (ts / 8388608 =? 1) <> ptop /\ t = ts + (pcnt + 1) / 2 * 16777216.
Proof. exact chronobox_time_some. Qed.
Print Assumptions C20_chronobox_time_some.

(* cb_time_empty_iff (entry level, ANY entry list): the row of a timestamp entry takes the LAST marker before it and
   the FIRST marker after it; its time is empty exactly when these are not two consecutive, consistent markers
   (missing, counters not n / n+1, or equal top bits) or the timestamp's top bit equals the previous marker's *)
Theorem C20_cb_time_empty_iff : forall b l1 previous ch tr ts l2,
  nth_error (rows_spec b previous (l1 ++ TS ch tr ts :: l2)) (count_ts l1) =
    Some (Row b ch (negb tr) (chronobox_time ts (last_mk previous l1) (first_mk l2))) /\
  (chronobox_time ts (last_mk previous l1) (first_mk l2) = None <->
   ~ (exists ptop pcnt ntop, last_mk previous l1 = Some (ptop, pcnt) /\ first_mk l2 = Some (ntop, pcnt + 1) /\
                             ntop <> ptop) \/
   (exists ptop pcnt, last_mk previous l1 = Some (ptop, pcnt) /\ (ts / 8388608 =? 1) = ptop)).
Proof. intros. split; [apply rows_spec_nth|apply chronobox_time_none_iff]. Qed.
Print Assumptions C20_cb_time_empty_iff.

(* the stream of a well-formed hardware event sequence parses completely, to exactly its entries *)
Theorem C20_hw_parse : forall evs, hw_wf 0 evs -> cb_fifo (hw_stream evs) = (hw_entries evs, []).
Proof. intros evs H. exact (hw_parse evs 0 H). Qed.
Print Assumptions C20_hw_parse.

(* cb_time_correct, full form: boards = the hardware event sequences (markers 0, 1, 2, … at every half wrap with
   alternating top bit, edges displaced by < 2^23 ticks, scaler blocks interleaved) of the boards that have data, in
   ascending board order; pieces = ANY cutting of their streams into banks (any order across boards, any grouping into
   events and files): the program's result is exactly the specification written from the events — failure iff some
   board has no marker, otherwise for every edge after the first marker one row, with the true time iff the edge lies
   in its window and a later marker closes it *)
Theorem C20_cb_program_hw : forall boards pieces,
  StronglySorted N.lt (map fst boards) ->
  Forall (fun be => hw_wf 0 (snd be)) boards ->
  (forall b, (if present b pieces then Some (concat_of b pieces) else None) = bt_lookup (hw_pieces boards) b) ->
  cb_program pieces = hw_program boards.
Proof. exact cb_program_hw. Qed.
Print Assumptions C20_cb_program_hw.

(* the same with a hypothesis that can be checked by computation *)
Theorem C20_cb_program_hw_buffers : forall boards pieces,
  Forall (fun be => hw_wf 0 (snd be)) boards ->
  cb_buffers pieces = hw_pieces boards ->
  cb_program pieces = hw_program boards.
Proof. intros boards pieces Hw Hb. unfold cb_program. rewrite Hb. apply hw_fifos_rows. assumption. Qed.
Print Assumptions C20_cb_program_hw_buffers.

(* cb_time_correct, edge by edge: the rows are, board after board, in one-to-one ordered correspondence with the edges
   after the first marker; right board, channel and edge; EVERY NON-EMPTY TIME IS THE TRUE TIME OF THAT EDGE; the time
   is empty exactly when no later marker closes the window or the edge is displaced out of its window *)
Theorem C20_cb_time_correct : forall boards pieces rows,
  StronglySorted N.lt (map fst boards) ->
  Forall (fun be => hw_wf 0 (snd be)) boards ->
  (forall b, (if present b pieces then Some (concat_of b pieces) else None) = bt_lookup (hw_pieces boards) b) ->
  cb_program pieces = Ok rows ->
  exists rr, rows = concat rr /\
    Forall2 (fun be rs =>
      Forall2 (fun e r =>
        r_board r = fst be /\ r_channel r = he_ch e /\ r_leading r = negb (he_tr e) /\
        (forall t, r_time r = Some t -> t = he_T e - he_T e mod 2) /\
        (r_time r = None <->
         ~ (he_later e = true /\ he_k e * 8388608 <= he_T e /\ he_T e < (he_k e + 1) * 8388608)))
      (hw_edges (snd be)) rs) boards rr.
Proof. exact cb_time_correct_lemma. Qed.
Print Assumptions C20_cb_time_correct.

(* ---------- failure ---------- *)
(* the three malformed tails of the property text leave the parser stuck on a non-empty remainder:
   the stream ends inside a 4-byte entry; inside a scaler block; or holds a word that is neither a timestamp, a marker
   nor the tag of a scaler block *)
Theorem C20_malformed_tails :
  (forall r, (length r < 4)%nat -> next r = None) /\
  (forall t, lenN t < 240 -> next (0x3C :: 0 :: 0 :: 0xFE :: t) = None) /\
  (forall b0 b1 b2 b3 t, word b0 b1 b2 b3 = None -> (b0, b1, b2, b3) <> (0x3C, 0, 0, 0xFE) ->
     next (b0 :: b1 :: b2 :: b3 :: t) = None).
Proof. split; [exact next_short|]. split; [exact next_partial_scalers|exact next_bad_word]. Qed.
Print Assumptions C20_malformed_tails.

(* a board fails exactly when: complete elements followed by a non-empty rest that starts with no complete element;
   or no counter-0 marker; or the first counter-0 marker has its top bit set *)
Theorem C20_cb_board_fail_iff : forall buf,
  (exists k, cb_board_fifo buf = Err k) <->
  (exists p es r, buf = p ++ r /\ Elems p es /\ r <> [] /\ next r = None) \/
  (exists es, Elems buf es /\ forallb (fun e => negb (is_mk0 e)) es = true) \/
  (exists pre post, Elems buf (pre ++ MK true 0 :: post) /\ forallb (fun e => negb (is_mk0 e)) pre = true).
Proof.
  intros buf. rewrite cb_board_fail_iff. split.
  - intros [p es r H1 H2 H3 H4|es H1 H2|pre post H1 H2]; [left|right; left|right; right]; eauto 8.
  - intros [(p & es & r & H1 & H2 & H3 & H4)|[(es & H1 & H2)|(pre & post & H1 & H2)]].
    + eapply Bad_remainder; eassumption.
    + eapply Bad_no_epoch0; eassumption.
    + eapply Bad_first_marker; eassumption.
Qed.
Print Assumptions C20_cb_board_fail_iff.

(* cb_fail_conditions: the run fails — `Err`, i.e. non-zero exit at main.rs:160, before File::create at :166, so NO
   CSV — exactly when some board that has a bank is malformed in one of the three ways; it never panics *)
Theorem C20_cb_fail_conditions : forall pieces,
  ((exists k, cb_program pieces = Err k) <->
   (exists b, present b pieces = true /\ exists k, cb_board_fifo (concat_of b pieces) = Err k)) /\
  cb_program pieces <> Panic.
Proof.
  intros pieces. split; [|apply cb_program_no_panic]. rewrite cb_program_fail_iff.
  split; intros (b & Hp & Hb); exists b; (split; [assumption|]); apply cb_board_fail_iff; assumption.
Qed.
Print Assumptions C20_cb_fail_conditions.

(* ---------- cut invariance ---------- *)
(* the result depends only on which boards have a bank and on the concatenation of each board's banks; and that single
   parse of the concatenation equals feeding the banks one by one with the resume protocol (C07 cb_split_many) *)
Theorem C20_cut_invariance : forall p1 p2,
  (forall b, present b p1 = present b p2) -> (forall b, concat_of b p1 = concat_of b p2) ->
  cb_program p1 = cb_program p2.
Proof. exact cb_program_cut_invariant. Qed.
Print Assumptions C20_cut_invariance.

Theorem C20_feed_is_concat : forall b pieces, cb_feed [] (pieces_of b pieces) = cb_fifo (concat_of b pieces).
Proof. exact cb_feed_is_concat. Qed.
Print Assumptions C20_feed_is_concat.

(* ---------- the hypotheses are satisfiable on a non-trivial value ---------- *)
(* two boards; board 3: an edge before the first marker, edges 1 tick either side of markers, one displaced across a
   marker in each direction, a scaler block, an edge after the last marker *)
Definition ex_b1 : list hw_event :=
  [HEdge 5 7 false; HMarker 0; HEdge 8388608 1 true; HEdge 16777215 2 false; HMarker 1].
Definition ex_b3 : list hw_event :=
  [HEdge 100 3 false; HMarker 0; HEdge 8388609 5 false; HEdge 8388607 6 true; HEdge 16777216 7 false;
   HScalers (repeat 0xFF 240); HMarker 1; HEdge 16777215 8 true; HEdge 16777216 9 false; HEdge 25165823 10 true;
   HMarker 2; HEdge 25165824 11 false].
Definition ex_boards := [(1, ex_b1); (3, ex_b3)].
(* a cut pattern: board 3 first, its stream cut in the middle of a word and of the scaler block; an empty bank *)
Definition ex_pieces : list (N * list N) :=
  [(3, takeN 6 (hw_stream ex_b3)); (1, takeN 9 (hw_stream ex_b1)); (3, []);
   (3, takeN 100 (dropN 6 (hw_stream ex_b3))); (1, dropN 9 (hw_stream ex_b1)); (3, dropN 106 (hw_stream ex_b3))].

Example C20_nonvacuous_wf : Forall (fun be => hw_wf 0 (snd be)) ex_boards.
Proof.
  constructor; [apply hw_wfb_sound; vm_compute; reflexivity|].
  constructor; [apply hw_wfb_sound; vm_compute; reflexivity|]. constructor.
Qed.
Example C20_nonvacuous_buffers : cb_buffers ex_pieces = hw_pieces ex_boards.
Proof. vm_compute. reflexivity. Qed.
Example C20_nonvacuous_rows :
  cb_program ex_pieces = Ok
    [Row 1 1 false (Some 8388608); Row 1 2 true (Some 16777214);
     Row 3 5 true (Some 8388608); Row 3 6 false None; Row 3 7 true None;
     Row 3 8 false None; Row 3 9 true (Some 16777216); Row 3 10 false (Some 25165822);
     Row 3 11 true None] /\
  hw_program ex_boards = cb_program ex_pieces.
Proof. split; [vm_compute; reflexivity|]. symmetry. apply C20_cb_program_hw_buffers; [exact C20_nonvacuous_wf|exact C20_nonvacuous_buffers]. Qed.
(* failures *)
Example C20_nonvacuous_fail :
  (exists k, cb_program [(2, takeN 5 (hw_stream ex_b1))] = Err k) /\                 (* ends inside an entry *)
  (exists k, cb_program [(1, hw_stream ex_b1); (2, hw_stream [HEdge 1 1 true])] = Err k) /\   (* no counter-0 marker *)
  (exists k, cb_program [(4, [0; 0; 0x80; 0xFF])] = Err k).                            (* first marker: top bit set *)
Proof. repeat split; eexists; vm_compute; reflexivity. Qed.

(* ---------- single faults of the marker sequence: never a WRONG non-empty time ---------- *)
From AG Require Import Apps.CbFaults Apps.CbFaults_proofs.
(* Fault model (Apps/CbFaults.v).  l1 ++ mid ++ l2 is a well-formed hardware event sequence; the contiguous stretch
   `mid` of the FIFO (nothing, one marker, one edge, several events) is replaced by an ARBITRARY sequence X of valid
   4-byte words - markers with any counter and top bit, timestamps (word_ok) -, the rest is untouched:
       stream = hw_stream l1 ++ words X ++ hw_stream l2,   cut into banks in any way (fault_sound quantifies pieces).
   Then the run fails as a whole (no CSV), or the rows correspond one to one, in order, to the timestamp words after
   the first counter-0 marker (`owed`), with the right board / channel / edge, and the row of EVERY SURVIVING EDGE
   (an edge of l1 or l2, absolute tick T) has time = None or time = Some (T - T mod 2): never another value.
   Why: a non-empty time needs counters c, c+1 with different top bits around the timestamp; with one damaged stretch
   one of the two markers around a surviving edge is original, which forces the other to be what the original was. *)
Theorem C20_fault_burst_no_wrong_time : forall b l1 mid X l2,
  hw_wf 0 (l1 ++ mid ++ l2) -> Forall word_ok X ->
  forall pieces, (forall b', present b' pieces = (b' =? b)) ->
    concat_of b pieces = hw_stream l1 ++ words_stream X ++ hw_stream l2 ->
  (exists k, cb_program pieces = Err k) \/
  (exists rows, cb_program pieces = Ok rows /\
     Forall2 (fun (t : entry * option N) r =>
                r_board r = b /\
                match fst t with TS ch tr _ => r_channel r = ch /\ r_leading r = negb tr | MK _ _ => False end /\
                forall T, snd t = Some T -> r_time r = None \/ r_time r = Some (T - T mod 2))
             (owed false (hw_tagged l1 ++ junk X ++ hw_tagged l2)) rows).
Proof. intros b l1 mid X l2 Hw HX pieces Hp Hc. exact (fault_program b l1 mid X l2 pieces Hw HX Hp Hc). Qed.
Print Assumptions C20_fault_burst_no_wrong_time.

(* the single marker faults of the property text, for marker m of a well-formed sequence l1 ++ HMarker m :: l2:
   DROPPED; DUPLICATED (the FIFO holds the marker word twice in a row); CORRUPTED into any other valid marker word
   (any counter c < 2^23, any top bit - including counters m+-1, m+-2 that are consistent with a later marker);
   CORRUPTED into any valid timestamp word *)
Theorem C20_single_marker_fault_no_wrong_time : forall b l1 m l2, hw_wf 0 (l1 ++ HMarker m :: l2) ->
  fault_sound b (hw_stream (l1 ++ l2)) (hw_tagged (l1 ++ l2)) /\
  fault_sound b (hw_stream (l1 ++ HMarker m :: HMarker m :: l2)) (hw_tagged (l1 ++ HMarker m :: HMarker m :: l2)) /\
  (forall (top : bool) c, c < 8388608 ->
     fault_sound b (hw_stream l1 ++ le32 (255 * 16777216 + (if top then 8388608 else 0) + c) ++ hw_stream l2)
                   (hw_tagged l1 ++ (MK top c, None) :: hw_tagged l2)) /\
  (forall ch (tr : bool) ts, ch < 59 -> ts < 16777216 -> ts mod 2 = 0 ->
     fault_sound b (hw_stream l1 ++ le32 ((128 + ch) * 16777216 + ts + (if tr then 1 else 0)) ++ hw_stream l2)
                   (hw_tagged l1 ++ (TS ch tr ts, None) :: hw_tagged l2)).
Proof. exact fault_single_marker. Qed.
Print Assumptions C20_single_marker_fault_no_wrong_time.

(* a marker word where the hardware writes none - in particular a second copy of a marker ANYWHERE in the stream
   (next to the first, later, earlier), with any counter *)
Theorem C20_spurious_marker_no_wrong_time : forall b l1 l2 c, hw_wf 0 (l1 ++ l2) ->
  fault_sound b (hw_stream (l1 ++ HMarker c :: l2)) (hw_tagged (l1 ++ HMarker c :: l2)).
Proof. exact fault_spurious_marker. Qed.
Print Assumptions C20_spurious_marker_no_wrong_time.

(* non-vacuity: marker 1 of a five-marker sequence dropped / duplicated / turned into the word of marker 3; the rows
   of the damaged streams (the same the REAL binary prints: corpus/C20/marker_faults.case) *)
Definition ex_f1 : list hw_event := [HEdge 100 3 false; HMarker 0; HEdge 8388609 5 false; HEdge 8388607 6 true].
Definition ex_f2 : list hw_event :=
  [HEdge 16777300 8 true; HMarker 2; HEdge 25165900 9 false; HMarker 3; HEdge 33554500 10 true; HMarker 4].
Example C20_nonvacuous_faults :
  hw_wfb (ex_f1 ++ HMarker 1 :: ex_f2) = true /\
  cb_program [(2, hw_stream (ex_f1 ++ ex_f2))] =
    Ok [Row 2 5 true None; Row 2 6 false None; Row 2 8 false None; Row 2 9 true (Some 25165900);
        Row 2 10 false (Some 33554500)] /\
  cb_program [(2, hw_stream (ex_f1 ++ HMarker 1 :: HMarker 1 :: ex_f2))] =
    Ok [Row 2 5 true (Some 8388608); Row 2 6 false None; Row 2 8 false (Some 16777300); Row 2 9 true (Some 25165900);
        Row 2 10 false (Some 33554500)] /\
  cb_program [(2, hw_stream ex_f1 ++ le32 (255 * 16777216 + 8388608 + 3) ++ hw_stream ex_f2)] =
    Ok [Row 2 5 true None; Row 2 6 false None; Row 2 8 false None; Row 2 9 true (Some 25165900);
        Row 2 10 false (Some 33554500)] /\
  owed false (hw_tagged (ex_f1 ++ ex_f2)) =
    [(TS 5 false 8388608, Some 8388609); (TS 6 true 8388606, Some 8388607); (TS 8 true 84, Some 16777300);
     (TS 9 false 8388684, Some 25165900); (TS 10 true 68, Some 33554500)].
Proof. vm_compute. repeat split; reflexivity. Qed.
(* sharpness: the statement is about ONE damaged stretch.  TWO corrupted markers on either side of an edge (markers 1
   and 2 turned into the words of markers 3 and 4) do produce a wrong time: the edge at tick 16777300 is printed as
   33554516 (by the model and by the real binary alike); this is outside "every single fault" *)
Example C20_two_faults_wrong_time :
  cb_program [(2, hw_stream [HMarker 0; HEdge 8388700 1 false] ++ le32 (255 * 16777216 + 8388608 + 3) ++
                  hw_stream [HEdge 16777300 8 true] ++ le32 (255 * 16777216 + 4) ++
                  hw_stream [HEdge 25165900 9 false; HMarker 3])] =
    Ok [Row 2 1 true None; Row 2 8 false (Some 33554516); Row 2 9 true None].
Proof. vm_compute. reflexivity. Qed.

(* the same with ARBITRARY other boards in the run (any content, well-formed or not, any interleaving of the banks):
   board b has a bank and its banks concatenate to the damaged stream; the program fails as a whole, or the rows OF
   BOARD b among the CSV rows are sound in the sense above *)
Theorem C20_fault_burst_among_boards_no_wrong_time : forall b l1 mid X l2 pieces,
  hw_wf 0 (l1 ++ mid ++ l2) -> Forall word_ok X ->
  present b pieces = true -> concat_of b pieces = hw_stream l1 ++ words_stream X ++ hw_stream l2 ->
  (exists k, cb_program pieces = Err k) \/
  (exists rows, cb_program pieces = Ok rows /\
     Forall2 (row_sound b) (owed false (hw_tagged l1 ++ junk X ++ hw_tagged l2))
             (filter (fun r => r_board r =? b) rows)).
Proof. exact fault_program_boards. Qed.
Print Assumptions C20_fault_burst_among_boards_no_wrong_time.
