(* C20 — placeholder while the harness is brought up *)
From AG Require Import Base.Prelude Apps.CbTime Apps.CbHardware.
