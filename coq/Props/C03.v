(* C03 — PWB chunks are integrity-checked: both CRC-32C words bind every accepted byte.
   This file only pins statements; proofs live in Codec/Chunk_proofs.v, Codec/CrcHD.v, Codec/Crc32c_proofs.v,
   Codec/ChunkDetect_proofs.v.
   Bit order convention of the detection theorems: serial order = byte 0 first, least significant bit first
   within a byte (Codec/BitErr.v).  "Burst of at most 32 contiguous bits" is read in this order; every
   byte-aligned window of at most 4 bytes is such a window in either bit order.  In the other reading (bits
   numbered most significant first within bytes) an unaligned window spans up to 40 serial positions: there every
   burst of at most 31 bits is rejected (C03_chunk_burst31_msb_first_rejected) but the claim for exactly 32 bits is
   FALSE: C03_chunk_burst32_msb_first_refuted exhibits an accepted chunk and a 32-contiguous-bit (MSB-first)
   change of its payload that is accepted too (replayed on the implementation: accepted). *)
From AG Require Import Base.Prelude Base.Res Base.Bytes Codec.Crc32c Codec.CrcHD Codec.BitErr
  Codec.Chunk Codec.ChunkObs Codec.Chunk_proofs Codec.Crc32c_proofs Codec.ChunkDetect_proofs Codec.CrcMsb_proofs.

(* accepted <-> field ranges hold and the bytes are the documented layout of the fields, with both CRC words
   computed by the encoder; any device table, both overflow modes *)
Theorem C03_chunk_exact : forall devices m l c, bytes l ->
  (chunk_decode devices m l = Ok c <-> chunk_ok devices c /\ c_dev c < 2^32 /\ l = chunk_encode c).
Proof. exact chunk_exact_lemma. Qed.
Print Assumptions C03_chunk_exact.

Theorem C03_chunk_total : forall devices m l, bytes l -> chunk_decode devices m l <> Panic.
Proof. exact chunk_total_lemma. Qed.
Print Assumptions C03_chunk_total.

Theorem C03_chunk_no_wrap : forall devices l, bytes l ->
  chunk_decode devices Checked l = chunk_decode devices Wrapping l.
Proof. exact chunk_no_wrap_lemma. Qed.
Print Assumptions C03_chunk_no_wrap.

(* the acceptance conditions of the property text, read off the accepted bytes: length a multiple of 4 and at
   least 28 (at most 65560: derived from the u16 length field), known device, chip 0..3, flags 0 or 1, declared
   payload length n with 0..3 padding bytes, all zero, and both stored CRC words equal the inverted CRC-32C of the
   16 header bytes resp. of payload + padding *)
Theorem C03_chunk_accept_conditions : forall devices m l c, bytes l -> chunk_decode devices m l = Ok c ->
  let n := lenN (c_payload c) in
  lenN l mod 4 = 0 /\ 28 <= lenN l <= 65560 /\ lenN l = 24 + n + pad_len n /\ pad_len n <= 3 /\
  dev_known devices (le_val (subN l 0 4)) = true /\ nthN l 10 <= 3 /\ nthN l 11 <= 1 /\
  le_val (subN l 14 2) = n /\ 1 <= n <= 65535 /\ subN l 20 n = c_payload c /\
  subN l (20 + n) (pad_len n) = zeros (pad_len n) /\
  le_val (subN l 16 4) = N.lxor (crc32c (subN l 0 16)) 0xFFFFFFFF /\
  le_val (subN l (lenN l - 4) 4) = N.lxor (crc32c (subN l 20 (lenN l - 24))) 0xFFFFFFFF.
Proof. exact chunk_accept_conditions. Qed.
Print Assumptions C03_chunk_accept_conditions.

(* header_crc32c() / payload_crc32c() recomputed from the fields give back the two stored words *)
Theorem C03_chunk_crc_accessors : forall devices m l c, bytes l -> chunk_decode devices m l = Ok c ->
  chunk_header_crc c = Ok (stored_header_crc l) /\ chunk_payload_crc c = stored_payload_crc l.
Proof. exact chunk_crc_accessors. Qed.
Print Assumptions C03_chunk_crc_accessors.

(* bit-level linearity of the CRC register over xor, for bit strings of any length *)
Theorem C03_crc_linear : forall l1 l2 s1 s2, length l1 = length l2 ->
  crc_bits (N.lxor s1 s2) (xorl l1 l2) = N.lxor (crc_bits s1 l1) (crc_bits s2 l2).
Proof. exact crc_bits_linear. Qed.
Print Assumptions C03_crc_linear.

(* closed form: after a bit string w the register is L^|w| (s xor value of w read LSB first) *)
Theorem C03_crc_closed_form : forall w r, crc_bits r w = Liter (length w) (N.lxor r (bval w)).
Proof. exact crc_bits_closed. Qed.
Print Assumptions C03_crc_closed_form.

(* syndrome of an error pattern: xor of L^k(1) over the set bits, k = 1 + number of bits that follow *)
Theorem C03_syndrome_positions : forall e, crc_bits 0 e = xors (map W (exps e)).
Proof. exact syndrome_positions. Qed.
Print Assumptions C03_syndrome_positions.

(* finite table, by vm_compute: the 524352 iterates L^k(2^31) are pairwise distinct modulo 2^31 *)
Theorem C03_crc32c_hd4_524352 : forall i j : nat, (i < j)%nat -> N.of_nat j < 524352 ->
  N.land (Liter i 0x80000000) 0x7FFFFFFF <> N.land (Liter j 0x80000000) 0x7FFFFFFF.
Proof. exact hd_distinct. Qed.
Print Assumptions C03_crc32c_hd4_524352.

(* hence: no pattern of 1, 2 or 3 wrong bits in a codeword of at most 524352 bits has zero syndrome *)
Theorem C03_bits_detect123 : forall e, N.of_nat (length e) <= 524352 -> (1 <= weight e <= 3)%nat ->
  crc_bits 0 e <> 0.
Proof. exact bits_detect123. Qed.
Print Assumptions C03_bits_detect123.

(* algebraic: no non-empty pattern inside 32 consecutive serial positions has zero syndrome (any length) *)
Theorem C03_bits_burst32 : forall e, within32 e -> (1 <= weight e)%nat -> crc_bits 0 e <> 0.
Proof. exact bits_burst32. Qed.
Print Assumptions C03_bits_burst32.

(* every change of 1, 2 or 3 bits of an accepted chunk is rejected (no length hypothesis: an accepted chunk has
   at most 65560 bytes, its longer codeword 524320 bits) *)
Theorem C03_chunk_flip123_rejected : forall devices m l l' c, bytes l -> bytes l' ->
  chunk_decode devices m l = Ok c -> length l' = length l -> (1 <= hamming_bits l l' <= 3)%nat ->
  exists k, chunk_decode devices m l' = Err k.
Proof. exact chunk_flip123_rejected_lemma. Qed.
Print Assumptions C03_chunk_flip123_rejected.

(* every change confined to a burst of at most 32 contiguous (serial) bits of an accepted chunk is rejected,
   wherever the burst lies (inside one codeword or straddling header CRC / payload) *)
Theorem C03_chunk_burst32_rejected : forall devices m l l' c, bytes l -> bytes l' ->
  chunk_decode devices m l = Ok c -> length l' = length l -> l' <> l -> burst32 l l' ->
  exists k, chunk_decode devices m l' = Err k.
Proof.
  intros devices m l l' c Hb Hb' Hd Hl Hne. apply (chunk_burst32_rejected_lemma devices m l l' c); auto.
  apply hamming_pos_lemma; auto.
Qed.
Print Assumptions C03_chunk_burst32_rejected.

(* The other reading of "contiguous bits": bits numbered most significant first within bytes (Codec/CrcMsb_proofs.v:
   burst_msb len l l' = every differing bit, at byte j and MSB-first offset t, has 8j+t in one window of len).
   Such a window touches up to 5 bytes = 40 serial positions.  Every change inside at most 31 such bits is
   rejected (finite check of the 255 x 8 candidate multiples of the generator, by computation) ... *)
Theorem C03_chunk_burst31_msb_first_rejected : forall devices m l l' c, bytes l -> bytes l' ->
  chunk_decode devices m l = Ok c -> length l' = length l -> l' <> l -> burst_msb 31 l l' ->
  exists k, chunk_decode devices m l' = Err k.
Proof. exact chunk_burst31_msb_rejected_lemma. Qed.
Print Assumptions C03_chunk_burst31_msb_first_rejected.

(* ... but for exactly 32 bits the claim is REFUTED in this reading: there is an accepted chunk l and a byte string
   l' of the same length, differing from l exactly inside MSB-first bits 161..192 (32 contiguous bits of the
   payload), which is accepted as well, with a different payload.  The error pattern (bytes 62 95 e3 fd 80
   xor-ed onto 5 consecutive bytes of one codeword; the only other one is 01 03 83 6b f2) is a multiple of the
   CRC-32C generator.  Replayed on the implementation: accepted. *)
Theorem C03_chunk_burst32_msb_first_refuted :
  exists devices m l l' c c',
    bytes l /\ bytes l' /\ chunk_decode devices m l = Ok c /\ length l' = length l /\ l' <> l /\
    burst_msb 32 l l' /\ chunk_decode devices m l' = Ok c' /\ c_payload c' <> c_payload c.
Proof. exact chunk_burst32_msb_refuted_lemma. Qed.
Print Assumptions C03_chunk_burst32_msb_first_refuted.

(* ... and these are the only ones: a non-empty error pattern E (bytes xor-ed onto one CRC codeword) inside 32
   contiguous MSB-first bits has zero syndrome exactly when it is 62 95 e3 fd 80 or 01 03 83 6b f2 at some byte
   offset and zero elsewhere *)
Theorem C03_msb32_undetected_exactly_two : forall E p, bytes E -> in_window_msb E p 32 ->
  (1 <= weight (bits_of_bytes E))%nat -> (crc_bits 0 (bits_of_bytes E) = 0 <-> is_gen_multiple E).
Proof. exact msb32_exactly_two. Qed.
Print Assumptions C03_msb32_undetected_exactly_two.

(* ---------- non-vacuity ---------- *)
(* the check value of the CRC-32C catalogue entry pins polynomial, reflection and inversion *)
Example C03_crc_check_value : crc32c [49;50;51;52;53;54;55;56;57] = 0xE3069283.
Proof. vm_compute. reflexivity. Qed.

(* the chunk of the repository's documentation is accepted; flipping one bit, or a 32-bit burst, rejects it *)
Definition doc_chunk : list N :=
  [236;40;255;135; 2;0;0;0; 3;0; 0; 1; 5;0; 1;0; 143;203;131;81; 255;0;0;0; 122;92;155;159].
Definition doc_devices : list N := [2281646316].
Definition doc_chunk_3bits : list N :=  (* payload byte 255 -> 248 *)
  [236;40;255;135; 2;0;0;0; 3;0; 0; 1; 5;0; 1;0; 143;203;131;81; 248;0;0;0; 122;92;155;159].
Example C03_nonvacuous :
  bytesb doc_chunk = true /\
  is_ok (chunk_decode doc_devices Checked doc_chunk) = true /\
  hamming_bits doc_chunk doc_chunk_3bits = 3%nat /\
  is_err (chunk_decode doc_devices Checked doc_chunk_3bits) = true.
Proof. vm_compute. repeat split; reflexivity. Qed.
