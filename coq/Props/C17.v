(* C17 — deconvolution is non-negative, scale-covariant and equals its plain definition.
   This file only pins statements; models are in Signal/Greedy.v, proofs in Signal/Greedy_proofs.v. *)
From AG Require Import Base.Prelude Base.Res Signal.Greedy Signal.Greedy_proofs.
From Coq Require Import Floats QArith Qcanon.
Local Open Scope nat_scope.

(* (1) The production loop with the `i += last_positive + 1` window skip computes exactly the plain
   one-sample-at-a-time sweep: same input vector, same residual, same panics.  For every sample type
   and all operations on it (so in particular for IEEE binary64 with its NaNs and signed zeros),
   every signal, response, offset and look-ahead; no size bound. *)
Theorem C17_greedy_skip_eq_naive :
  forall (F : Type) (zero szero : F) (add sub mul div fmin : F -> F -> F) (neg nonneg : F -> bool)
         (signal response : list F) (off la : nat),
  nn_greedy F zero szero add sub mul div fmin neg nonneg signal response off la =
  nn_naive F zero szero add sub mul div fmin neg nonneg signal response off la.
Proof. exact greedy_skip_eq_naive_lemma. Qed.
Print Assumptions C17_greedy_skip_eq_naive.

(* (2) Hence the least-squares selection over any offset/look-ahead grid (pads: 3..=5 x 7..=12) equals
   the selection over the plain scheme, including the first-strict-minimum tie-break. *)
Theorem C17_pad_deconv_eq_plain :
  forall (F : Type) (zero szero inf : F) (add sub mul div fmin : F -> F -> F) (neg nonneg : F -> bool)
         (ltb : F -> F -> bool) (signal response : list F) (offs las : list nat),
  ls_deconv F inf ltb (nn_greedy F zero szero add sub mul div fmin neg nonneg) signal response offs las =
  ls_deconv F inf ltb (nn_naive F zero szero add sub mul div fmin neg nonneg) signal response offs las.
Proof. exact deconv_eq_plain_lemma. Qed.
Print Assumptions C17_pad_deconv_eq_plain.

(* (3) One output sample per input sample — what the code guarantees, and when.
   A single sweep: never out of fuel; whenever it returns, the input vector has the length of the
   signal; it does return when the response window exists, is negative and look_ahead >= 1 (otherwise
   the slicing, the assert or the unwrap panics); a waveform too short for the window gives zeros. *)
Theorem C17_deconv_lengths :
  forall (F : Type) (zero szero : F) (add sub mul div fmin : F -> F -> F) (neg nonneg : F -> bool)
         (signal response : list F) (off la : nat),
  (forall k, nn_greedy F zero szero add sub mul div fmin neg nonneg signal response off la <> Err k) /\
  (forall r inp, nn_greedy F zero szero add sub mul div fmin neg nonneg signal response off la = Ok (r, inp) ->
                 length inp = length signal) /\
  (forall rwin, slice F response off la = Some rwin -> forallb neg rwin = true -> 1 <= la ->
     exists r inp, nn_greedy F zero szero add sub mul div fmin neg nonneg signal response off la = Ok (r, inp)) /\
  (forall rwin, slice F response off la = Some rwin -> forallb neg rwin = true -> length signal < off + la ->
     nn_greedy F zero szero add sub mul div fmin neg nonneg signal response off la =
     Ok (sumsq F szero add mul signal, repeat zero (length signal))).
Proof. exact deconv_lengths_lemma. Qed.
Print Assumptions C17_deconv_lengths.

(* The least-squares selection returns a vector of the signal's length if and only if some sweep of
   the grid ends with a residual that compares < +infinity; if none does (every residual is NaN or
   +infinity, or the grid is empty) it returns the EMPTY vector `Vec::new()` it started from. *)
Theorem C17_ls_deconv_lengths :
  forall (F : Type) (zero szero inf : F) (add sub mul div fmin : F -> F -> F) (neg nonneg : F -> bool)
         (ltb : F -> F -> bool) (signal response : list F) (offs las : list nat) (out : list F),
  ls_deconv F inf ltb (nn_greedy F zero szero add sub mul div fmin neg nonneg) signal response offs las = Ok out ->
  ((exists off la r inp, In off offs /\ In la las /\
      nn_greedy F zero szero add sub mul div fmin neg nonneg signal response off la = Ok (r, inp) /\ ltb r inf = true) ->
   length out = length signal) /\
  ((forall off la r inp, In off offs -> In la las ->
      nn_greedy F zero szero add sub mul div fmin neg nonneg signal response off la = Ok (r, inp) -> ltb r inf = false) ->
   out = []).
Proof. exact ls_deconv_lengths_lemma. Qed.
Print Assumptions C17_ls_deconv_lengths.

(* "one output sample per input sample" therefore does NOT hold for all binary64 inputs: a sample whose
   square overflows, or a NaN, makes every residual +inf / NaN and the pad routine returns no samples.
   (Outside the property's domain of calibrated waveforms; the harness replays both on the implementation.) *)
Definition resp18 : list float := repeat (-1)%float 18.
Theorem C17_length_all_inputs_refuted :
  exists signal : list float, length signal = 1 /\ pad_deconv_f signal resp18 = Ok [].
Proof. exact length_all_inputs_refuted_lemma. Qed.
Print Assumptions C17_length_all_inputs_refuted.

(* (4) Sign.  Every output sample is 0.0 or a min of quotients s / r with `not (s >= 0)` and `r < 0`.
   From three laws on the arithmetic (quotient of such a pair is "ge0", min preserves it, 0 is) every
   sample of every sweep, and of the selected vector, is ge0.  For exact rationals ge0 is `0 <= x`
   (C17_greedy_nonneg_Q); for binary64 the laws hold with ge0 x := "x is NaN or has its sign bit clear"
   and are proved below (C17_greedy_nonneg_f64). *)
Theorem C17_greedy_nonneg :
  forall (F : Type) (zero szero : F) (add sub mul div fmin : F -> F -> F) (neg nonneg : F -> bool)
         (ge0 : F -> Prop),
  ge0 zero ->
  (forall s r, nonneg s = false -> neg r = true -> ge0 (div s r)) ->
  (forall a b, ge0 a -> ge0 b -> ge0 (fmin a b)) ->
  forall (signal response : list F) (off la : nat) (r : F) (inp : list F),
  nn_greedy F zero szero add sub mul div fmin neg nonneg signal response off la = Ok (r, inp) -> Forall ge0 inp.
Proof. exact nn_greedy_nonneg_sec. Qed.
Print Assumptions C17_greedy_nonneg.

Theorem C17_ls_deconv_nonneg :
  forall (F : Type) (zero szero inf : F) (add sub mul div fmin : F -> F -> F) (neg nonneg : F -> bool)
         (ltb : F -> F -> bool) (ge0 : F -> Prop),
  ge0 zero ->
  (forall s r, nonneg s = false -> neg r = true -> ge0 (div s r)) ->
  (forall a b, ge0 a -> ge0 b -> ge0 (fmin a b)) ->
  forall (signal response : list F) (offs las : list nat) (out : list F),
  ls_deconv F inf ltb (nn_greedy F zero szero add sub mul div fmin neg nonneg) signal response offs las = Ok out ->
  Forall ge0 out.
Proof. exact ls_deconv_nonneg_sec. Qed.
Print Assumptions C17_ls_deconv_nonneg.

Theorem C17_greedy_nonneg_Q : forall signal response off la r inp,
  nn_greedy_q signal response off la = Ok (r, inp) -> Forall (fun x => (0 <= x)%Qc) inp.
Proof. exact greedy_nonneg_Q_lemma. Qed.
Print Assumptions C17_greedy_nonneg_Q.

(* For binary64 the three laws are PROVED (IEEE sign rule of division read off SpecFloat through the
   standard library's FloatAxioms div_spec/leb_spec/ltb_spec): for ALL float inputs - NaN, infinities,
   subnormals, signed zeros - no output sample of a sweep or of the selection (pads 3..=5 x 7..=12, wires
   0..=1 x 3..=12, any grid) is negative or -0: each is NaN or has its sign bit clear. *)
Theorem C17_greedy_nonneg_f64 : forall signal response off la r inp,
  nn_greedy_f signal response off la = Ok (r, inp) -> Forall f_ge0 inp.
Proof. exact greedy_nonneg_f64_lemma. Qed.
Print Assumptions C17_greedy_nonneg_f64.

Theorem C17_ls_deconv_nonneg_f64 : forall signal response offs las out,
  ls_deconv_f signal response offs las = Ok out -> Forall f_ge0 out.
Proof. exact ls_nonneg_f64_lemma. Qed.
Print Assumptions C17_ls_deconv_nonneg_f64.

Theorem C17_f_ge0_reading : forall x : float, f_ge0 x -> is_nan x = true \/ (0 <=? x)%float = true.
Proof. exact f_ge0_spec_lemma. Qed.
Print Assumptions C17_f_ge0_reading.

(* (4b) Finiteness of what is selected.  A sweep whose residual compares < +inf has only finite outputs:
   a non-finite amplitude at i would leave a non-finite residual at i (residual[i] -= val * response[0]),
   which is never touched again and makes the sum of squares NaN or +inf.  Generic from five laws ... *)
Theorem C17_ls_deconv_finite :
  forall (F : Type) (zero szero inf : F) (add sub mul div fmin : F -> F -> F) (neg nonneg : F -> bool)
         (ltb : F -> F -> bool) (fin : F -> Prop),
  fin zero ->
  (forall s p, fin (sub s p) -> fin p) ->
  (forall v r, fin (mul v r) -> fin v) ->
  (forall l, ltb (sumsq F szero add mul l) inf = true -> Forall fin l) ->
  (forall r b, ltb r b = true -> ltb r inf = true) ->
  forall (signal response : list F) (offs las : list nat) (out : list F),
  ls_deconv F inf ltb (nn_greedy F zero szero add sub mul div fmin neg nonneg) signal response offs las = Ok out ->
  Forall fin out.
Proof. exact ls_deconv_finite_sec. Qed.
Print Assumptions C17_ls_deconv_finite.

(* ... which are PROVED for binary64 (non-finite operands of + - x give non-finite results; a sum of squares
   started at -0 is never -inf).  So, for ALL binary64 waveforms and responses and any grid (pads, wires), the
   routine returns either NO samples (every sweep residual NaN or +inf) or exactly one sample per input sample,
   each finite and with its sign bit clear. *)
Theorem C17_deconv_f64_all_inputs : forall signal response offs las out,
  ls_deconv_f signal response offs las = Ok out ->
  (out = [] \/ length out = length signal) /\ Forall f_fin out /\ Forall f_ge0 out.
Proof. exact deconv_f64_all_inputs_lemma. Qed.
Print Assumptions C17_deconv_f64_all_inputs.

(* (5) Scale covariance.  If x |-> sc x (multiplication by c) commutes exactly with - x / min, leaves
   0 and the comparison with 0 unchanged, and sc2 (multiplication by c^2) does the same for the sum of
   squares and the comparisons of residuals, then scaling every sample scales every output by c, the
   residual by c^2, and changes no control decision (same panics, same argmin).  The laws are exact for
   binary64 with c = 2^k in the absence of overflow/underflow (measured per run by rel17scale, k in
   -20..20), and hold for every c > 0 over the rationals (C17_scale_covariant_Q). *)
Theorem C17_scale_covariant :
  forall (F : Type) (zero szero : F) (add sub mul div fmin : F -> F -> F) (neg nonneg : F -> bool)
         (sc sc2 : F -> F),
  sc zero = zero ->
  (forall a b, sub (sc a) (sc b) = sc (sub a b)) ->
  (forall v r, mul (sc v) r = sc (mul v r)) ->
  (forall s r, div (sc s) r = sc (div s r)) ->
  (forall a b, fmin (sc a) (sc b) = sc (fmin a b)) ->
  (forall x, nonneg (sc x) = nonneg x) ->
  (forall x, mul (sc x) (sc x) = sc2 (mul x x)) ->
  (forall a b, add (sc2 a) (sc2 b) = sc2 (add a b)) ->
  sc2 szero = szero ->
  forall (signal response : list F) (off la : nat),
  nn_greedy F zero szero add sub mul div fmin neg nonneg (map sc signal) response off la =
  res_map (sc_out F sc sc2) (nn_greedy F zero szero add sub mul div fmin neg nonneg signal response off la).
Proof. exact nn_greedy_scale_sec. Qed.
Print Assumptions C17_scale_covariant.

Theorem C17_ls_scale_covariant :
  forall (F : Type) (zero szero inf : F) (add sub mul div fmin : F -> F -> F) (neg nonneg : F -> bool)
         (ltb : F -> F -> bool) (sc sc2 : F -> F),
  sc zero = zero ->
  (forall a b, sub (sc a) (sc b) = sc (sub a b)) ->
  (forall v r, mul (sc v) r = sc (mul v r)) ->
  (forall s r, div (sc s) r = sc (div s r)) ->
  (forall a b, fmin (sc a) (sc b) = sc (fmin a b)) ->
  (forall x, nonneg (sc x) = nonneg x) ->
  (forall x, mul (sc x) (sc x) = sc2 (mul x x)) ->
  (forall a b, add (sc2 a) (sc2 b) = sc2 (add a b)) ->
  sc2 szero = szero ->
  (forall a b, ltb (sc2 a) (sc2 b) = ltb a b) ->
  sc2 inf = inf ->
  forall (signal response : list F) (offs las : list nat),
  ls_deconv F inf ltb (nn_greedy F zero szero add sub mul div fmin neg nonneg) (map sc signal) response offs las =
  res_map (map sc) (ls_deconv F inf ltb (nn_greedy F zero szero add sub mul div fmin neg nonneg) signal response offs las).
Proof. exact ls_deconv_scale_sec. Qed.
Print Assumptions C17_ls_scale_covariant.

Theorem C17_scale_covariant_Q : forall c : Qc, (0 < c)%Qc -> forall signal response off la,
  nn_greedy_q (map (Qcmult c) signal) response off la =
  res_map (sc_out Qc (Qcmult c) (Qcmult (c * c))) (nn_greedy_q signal response off la).
Proof. exact scale_covariant_Q_lemma. Qed.
Print Assumptions C17_scale_covariant_Q.

(* the laws of the selection level are satisfiable too: rationals extended by +infinity (None), so that
   `inf` is a genuine infinity fixed by the scaling *)
Theorem C17_ls_scale_covariant_Qinf : forall c : Qc, (0 < c)%Qc -> forall signal response offs las,
  ls_deconv (option Qc) None o_ltb nn_greedy_o (map (o_scale c) signal) response offs las =
  res_map (map (o_scale c)) (ls_deconv (option Qc) None o_ltb nn_greedy_o signal response offs las).
Proof. exact ls_scale_covariant_Qinf_lemma. Qed.
Print Assumptions C17_ls_scale_covariant_Qinf.

(* (6) Isolated pulse.  Waveform: k zeros, then a * response cut to m samples, then t zeros (t > 0 only if
   the whole response fits): i.e. signal[j] = a * response[j - k] for k <= j < min(n, k + len response),
   0 elsewhere, n = k + min(m, len response) + t.  If the response window of offset 0 is negative and
   fits (look_ahead <= m, which is k + look_ahead <= n; the property's "k + 18 <= n" covers every
   look-ahead 3..=12 of the wire grid), the sweep with offset 0 returns exactly a at k, 0 elsewhere and
   residual 0 - from six arithmetic facts that hold in any ordered field for a > 0. *)
Theorem C17_isolated_pulse_exact :
  forall (F : Type) (zero szero : F) (add sub mul div fmin : F -> F -> F) (neg nonneg : F -> bool)
         (a : F) (response : list F) (la : nat),
  1 <= la -> la <= length response -> forallb neg (firstn la response) = true ->
  nonneg zero = true ->
  (forall r, neg r = true -> nonneg (mul a r) = false) ->
  (forall r, neg r = true -> div (mul a r) r = a) ->
  fmin a a = a ->
  (forall r, sub (mul a r) (mul a r) = zero) ->
  add szero (mul zero zero) = szero ->
  forall k m t, la <= m -> t = 0 \/ length response <= m ->
  let P := map (mul a) (firstn m response) ++ repeat zero t in
  nn_greedy F zero szero add sub mul div fmin neg nonneg (repeat zero k ++ P) response 0 la =
  Ok (szero, repeat zero k ++ a :: repeat zero (length P - 1)).
Proof. exact isolated_pulse_lemma. Qed.
Print Assumptions C17_isolated_pulse_exact.

(* ... and the least-squares selection returns that exact recovery: offset 0 with the first look-ahead
   comes first and reaches residual szero; no later sweep is strictly better because no sum of squares is
   < szero.  (The sweeps with offset 1 do NOT recover the pulse: they put a * min_j R[j]/R[j+1] at k - 1.
   They only have to terminate, which needs every window of the grid negative.) *)
Theorem C17_isolated_pulse_selected :
  forall (F : Type) (zero szero inf : F) (add sub mul div fmin : F -> F -> F) (neg nonneg : F -> bool)
         (ltb : F -> F -> bool) (signal response exact : list F) (la0 : nat) (offs las : list nat),
  nn_greedy F zero szero add sub mul div fmin neg nonneg signal response 0 la0 = Ok (szero, exact) ->
  (forall off la, In off (0 :: offs) -> In la (la0 :: las) ->
     exists rwin, slice F response off la = Some rwin /\ forallb neg rwin = true /\ 1 <= la) ->
  (forall l, ltb (sumsq F szero add mul l) szero = false) ->
  ltb szero inf = true ->
  ls_deconv F inf ltb (nn_greedy F zero szero add sub mul div fmin neg nonneg) signal response (0 :: offs) (la0 :: las)
  = Ok exact.
Proof. exact isolated_pulse_ls_lemma. Qed.
Print Assumptions C17_isolated_pulse_selected.

(* Over the rationals, for the wire grid 0..=1 x 3..=12 and ANY response whose first 13 samples are
   negative (table fact of the binned wire response, checked on the implementation's table by rel17table):
   a pulse of amplitude a > 0 starting at k with k + 3 <= n is recovered as exactly a at k, 0 elsewhere. *)
Theorem C17_isolated_pulse_exact_Q : forall (a : Qc) (response : list Qc),
  (0 < a)%Qc -> 13 <= length response -> forallb q_neg (firstn 13 response) = true ->
  forall k m t, 3 <= m -> t = 0 \/ length response <= m ->
  let P := map (Qcmult a) (firstn m response) ++ repeat 0%Qc t in
  ls_deconv Qc 1%Qc q_dec nn_greedy_q (repeat 0%Qc k ++ P) response (range_incl 0 1) (range_incl 3 12) =
  Ok (repeat 0%Qc k ++ a :: repeat 0%Qc (length P - 1)).
Proof. exact isolated_pulse_wire_Q_lemma. Qed.
Print Assumptions C17_isolated_pulse_exact_Q.

(* non-vacuity: the models run on concrete values *)
Example C17_nonvacuous_float :
  nn_greedy_f [(-2)%float; (-4)%float; (-1)%float; 0%float] [(-1)%float; (-2)%float; (-0.5)%float] 0 2
  = Ok (0%float, [2%float; 0%float; 0%float; 0%float]).
Proof. vm_compute. reflexivity. Qed.

(* one case of the differential run evaluated inside Coq (vm_compute on primitive floats, no extraction):
   the expected residual and outputs are the bit patterns printed by the implementation *)
Example C17_impl_case_in_coq :
  nn_greedy_f [(-0x1.4e6b233d692e8p+6)%float; (-0x1.619c5064ce7ecp+18)%float; (-0x1.e6435040a44f3p+17)%float; (-0x1.7af8da2cfbf73p+18)%float; (-0x1.1701db3bc6478p+19)%float; (-0x1.e8a7a2e3e1b4dp+17)%float; (-0x1.9c7b691475246p+18)%float; (-0x1.195f355939e7bp+18)%float; (-0x1.b8eff41ed7283p+18)%float; (-0x1.c7b7eac868a73p+18)%float; (-0x1.576393a457bf6p+18)%float; (-0x1.ed549857b67d1p+18)%float; (-0x1.24cc5ab4da26dp+19)%float; (-0x1.541a86d1d9bc7p+18)%float; (-0x1.ecdfe191994bep+18)%float]
              [(-0x0.00000000007e8p-1022)%float; (-0x1.4d8ed4b27a553p+5)%float; (-0x1.ca94d081871e4p+4)%float; (-0x1.6571a24ad16e1p+5)%float; (-0x1.0b3e2710802c5p+5)%float; (-0x1.a1f01095a6d37p+2)%float; (-0x1.bd7c5b9ab6edcp+3)%float; (-0x1.cde9efdec8b3bp+2)%float; (-0x1.6481720800be7p+5)%float; (-0x1.4a868a566a550p+5)%float; (-0x1.0302c5c6fdccap+5)%float; (-0x1.5a1b21c129063p+4)%float; (-0x1.2437984b70a24p+5)%float; (-0x1.c2df5e60b636bp+3)%float; (-0x1.46ab65faec46bp+5)%float] 0 7
  = Ok ((0x1.719531514edd4p+20)%float, [(0x1.0f63dc4435257p+13)%float; (0x1.62d62927bfbadp+0)%float; 0%float; (0x1.a5923292ef628p+12)%float; 0%float; (0x1.2734eea90c157p+1)%float; 0%float; (0x1.e1d0cd3e06409p+8)%float; 0%float; 0%float; 0%float; 0%float; 0%float; 0%float; 0%float]).
Proof. vm_compute. reflexivity. Qed.
