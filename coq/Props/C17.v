(* C17 — placeholder, filled below *)
From AG Require Import Base.Prelude Base.Res Signal.Greedy.
