(* C17 — deconvolution is non-negative, scale-covariant and equals its plain definition.
   This file only pins statements; models are in Signal/Greedy.v, proofs in Signal/Greedy_proofs.v. *)
From AG Require Import Base.Prelude Base.Res Signal.Greedy Signal.Greedy_proofs.
From Coq Require Import Floats QArith Qcanon.
Local Open Scope nat_scope.

(* (1) The production loop with the `i += last_positive + 1` window skip computes exactly the plain
   one-sample-at-a-time sweep: same input vector, same residual, same panics.  For every sample type
   and all operations on it (so in particular for IEEE binary64 with its NaNs and signed zeros),
   every signal, response, offset and look-ahead; no size bound. *)
Theorem C17_greedy_skip_eq_naive :
  forall (F : Type) (zero szero : F) (add sub mul div fmin : F -> F -> F) (neg nonneg : F -> bool)
         (signal response : list F) (off la : nat),
  nn_greedy F zero szero add sub mul div fmin neg nonneg signal response off la =
  nn_naive F zero szero add sub mul div fmin neg nonneg signal response off la.
Proof. exact greedy_skip_eq_naive_lemma. Qed.
Print Assumptions C17_greedy_skip_eq_naive.

(* (2) Hence the least-squares selection over any offset/look-ahead grid (pads: 3..=5 x 7..=12) equals
   the selection over the plain scheme, including the first-strict-minimum tie-break. *)
Theorem C17_pad_deconv_eq_plain :
  forall (F : Type) (zero szero inf : F) (add sub mul div fmin : F -> F -> F) (neg nonneg : F -> bool)
         (ltb : F -> F -> bool) (signal response : list F) (offs las : list nat),
  ls_deconv F inf ltb (nn_greedy F zero szero add sub mul div fmin neg nonneg) signal response offs las =
  ls_deconv F inf ltb (nn_naive F zero szero add sub mul div fmin neg nonneg) signal response offs las.
Proof. exact deconv_eq_plain_lemma. Qed.
Print Assumptions C17_pad_deconv_eq_plain.

(* (3) One output sample per input sample — what the code guarantees, and when.
   A single sweep: never out of fuel; whenever it returns, the input vector has the length of the
   signal; it does return when the response window exists, is negative and look_ahead >= 1 (otherwise
   the slicing, the assert or the unwrap panics); a waveform too short for the window gives zeros. *)
Theorem C17_deconv_lengths :
  forall (F : Type) (zero szero : F) (add sub mul div fmin : F -> F -> F) (neg nonneg : F -> bool)
         (signal response : list F) (off la : nat),
  (forall k, nn_greedy F zero szero add sub mul div fmin neg nonneg signal response off la <> Err k) /\
  (forall r inp, nn_greedy F zero szero add sub mul div fmin neg nonneg signal response off la = Ok (r, inp) ->
                 length inp = length signal) /\
  (forall rwin, slice F response off la = Some rwin -> forallb neg rwin = true -> 1 <= la ->
     exists r inp, nn_greedy F zero szero add sub mul div fmin neg nonneg signal response off la = Ok (r, inp)) /\
  (forall rwin, slice F response off la = Some rwin -> forallb neg rwin = true -> length signal < off + la ->
     nn_greedy F zero szero add sub mul div fmin neg nonneg signal response off la =
     Ok (sumsq F szero add mul signal, repeat zero (length signal))).
Proof. exact deconv_lengths_lemma. Qed.
Print Assumptions C17_deconv_lengths.

(* The least-squares selection returns a vector of the signal's length if and only if some sweep of
   the grid ends with a residual that compares < +infinity; if none does (every residual is NaN or
   +infinity, or the grid is empty) it returns the EMPTY vector `Vec::new()` it started from. *)
Theorem C17_ls_deconv_lengths :
  forall (F : Type) (zero szero inf : F) (add sub mul div fmin : F -> F -> F) (neg nonneg : F -> bool)
         (ltb : F -> F -> bool) (signal response : list F) (offs las : list nat) (out : list F),
  ls_deconv F inf ltb (nn_greedy F zero szero add sub mul div fmin neg nonneg) signal response offs las = Ok out ->
  ((exists off la r inp, In off offs /\ In la las /\
      nn_greedy F zero szero add sub mul div fmin neg nonneg signal response off la = Ok (r, inp) /\ ltb r inf = true) ->
   length out = length signal) /\
  ((forall off la r inp, In off offs -> In la las ->
      nn_greedy F zero szero add sub mul div fmin neg nonneg signal response off la = Ok (r, inp) -> ltb r inf = false) ->
   out = []).
Proof. exact ls_deconv_lengths_lemma. Qed.
Print Assumptions C17_ls_deconv_lengths.

(* "one output sample per input sample" therefore does NOT hold for all binary64 inputs: a sample whose
   square overflows, or a NaN, makes every residual +inf / NaN and the pad routine returns no samples.
   (Outside the property's domain of calibrated waveforms; the harness replays both on the implementation.) *)
Definition resp18 : list float := repeat (-1)%float 18.
Theorem C17_length_all_inputs_refuted :
  exists signal : list float, length signal = 1 /\ pad_deconv_f signal resp18 = Ok [].
Proof. exact length_all_inputs_refuted_lemma. Qed.
Print Assumptions C17_length_all_inputs_refuted.

(* (4) Sign.  Every output sample is 0.0 or a min of quotients s / r with `not (s >= 0)` and `r < 0`.
   From three laws on the arithmetic (quotient of such a pair is "ge0", min preserves it, 0 is) every
   sample of every sweep, and of the selected vector, is ge0.  For exact rationals ge0 is `0 <= x`
   (C17_greedy_nonneg_Q); for binary64 the laws hold with ge0 x := "x is NaN or has its sign bit clear"
   and are proved below (C17_greedy_nonneg_f64). *)
Theorem C17_greedy_nonneg :
  forall (F : Type) (zero szero : F) (add sub mul div fmin : F -> F -> F) (neg nonneg : F -> bool)
         (ge0 : F -> Prop),
  ge0 zero ->
  (forall s r, nonneg s = false -> neg r = true -> ge0 (div s r)) ->
  (forall a b, ge0 a -> ge0 b -> ge0 (fmin a b)) ->
  forall (signal response : list F) (off la : nat) (r : F) (inp : list F),
  nn_greedy F zero szero add sub mul div fmin neg nonneg signal response off la = Ok (r, inp) -> Forall ge0 inp.
Proof. exact nn_greedy_nonneg_sec. Qed.
Print Assumptions C17_greedy_nonneg.

Theorem C17_ls_deconv_nonneg :
  forall (F : Type) (zero szero inf : F) (add sub mul div fmin : F -> F -> F) (neg nonneg : F -> bool)
         (ltb : F -> F -> bool) (ge0 : F -> Prop),
  ge0 zero ->
  (forall s r, nonneg s = false -> neg r = true -> ge0 (div s r)) ->
  (forall a b, ge0 a -> ge0 b -> ge0 (fmin a b)) ->
  forall (signal response : list F) (offs las : list nat) (out : list F),
  ls_deconv F inf ltb (nn_greedy F zero szero add sub mul div fmin neg nonneg) signal response offs las = Ok out ->
  Forall ge0 out.
Proof. exact ls_deconv_nonneg_sec. Qed.
Print Assumptions C17_ls_deconv_nonneg.

Theorem C17_greedy_nonneg_Q : forall signal response off la r inp,
  nn_greedy_q signal response off la = Ok (r, inp) -> Forall (fun x => (0 <= x)%Qc) inp.
Proof. exact greedy_nonneg_Q_lemma. Qed.
Print Assumptions C17_greedy_nonneg_Q.

(* For binary64 the three laws are PROVED (IEEE sign rule of division read off SpecFloat through the
   standard library's FloatAxioms div_spec/leb_spec/ltb_spec): for ALL float inputs - NaN, infinities,
   subnormals, signed zeros - no output sample of a sweep or of the selection (pads 3..=5 x 7..=12, wires
   0..=1 x 3..=12, any grid) is negative or -0: each is NaN or has its sign bit clear. *)
Theorem C17_greedy_nonneg_f64 : forall signal response off la r inp,
  nn_greedy_f signal response off la = Ok (r, inp) -> Forall f_ge0 inp.
Proof. exact greedy_nonneg_f64_lemma. Qed.
Print Assumptions C17_greedy_nonneg_f64.

Theorem C17_ls_deconv_nonneg_f64 : forall signal response offs las out,
  ls_deconv_f signal response offs las = Ok out -> Forall f_ge0 out.
Proof. exact ls_nonneg_f64_lemma. Qed.
Print Assumptions C17_ls_deconv_nonneg_f64.

Theorem C17_f_ge0_reading : forall x : float, f_ge0 x -> is_nan x = true \/ (0 <=? x)%float = true.
Proof. exact f_ge0_spec_lemma. Qed.
Print Assumptions C17_f_ge0_reading.

(* (4b) Finiteness of what is selected.  A sweep whose residual compares < +inf has only finite outputs:
   a non-finite amplitude at i would leave a non-finite residual at i (residual[i] -= val * response[0]),
   which is never touched again and makes the sum of squares NaN or +inf.  Generic from five laws ... *)
Theorem C17_ls_deconv_finite :
  forall (F : Type) (zero szero inf : F) (add sub mul div fmin : F -> F -> F) (neg nonneg : F -> bool)
         (ltb : F -> F -> bool) (fin : F -> Prop),
  fin zero ->
  (forall s p, fin (sub s p) -> fin p) ->
  (forall v r, fin (mul v r) -> fin v) ->
  (forall l, ltb (sumsq F szero add mul l) inf = true -> Forall fin l) ->
  (forall r b, ltb r b = true -> ltb r inf = true) ->
  forall (signal response : list F) (offs las : list nat) (out : list F),
  ls_deconv F inf ltb (nn_greedy F zero szero add sub mul div fmin neg nonneg) signal response offs las = Ok out ->
  Forall fin out.
Proof. exact ls_deconv_finite_sec. Qed.
Print Assumptions C17_ls_deconv_finite.

(* ... which are PROVED for binary64 (non-finite operands of + - x give non-finite results; a sum of squares
   started at -0 is never -inf).  So, for ALL binary64 waveforms and responses and any grid (pads, wires), the
   routine returns either NO samples (every sweep residual NaN or +inf) or exactly one sample per input sample,
   each finite and with its sign bit clear. *)
Theorem C17_deconv_f64_all_inputs : forall signal response offs las out,
  ls_deconv_f signal response offs las = Ok out ->
  (out = [] \/ length out = length signal) /\ Forall f_fin out /\ Forall f_ge0 out.
Proof. exact deconv_f64_all_inputs_lemma. Qed.
Print Assumptions C17_deconv_f64_all_inputs.

(* (5) Scale covariance.  If x |-> sc x (multiplication by c) commutes exactly with - x / min, leaves
   0 and the comparison with 0 unchanged, and sc2 (multiplication by c^2) does the same for the sum of
   squares and the comparisons of residuals, then scaling every sample scales every output by c, the
   residual by c^2, and changes no control decision (same panics, same argmin).  The laws are exact for
   binary64 with c = 2^k in the absence of overflow/underflow (measured per run by rel17scale, k in
   -20..20), and hold for every c > 0 over the rationals (C17_scale_covariant_Q). *)
Theorem C17_scale_covariant :
  forall (F : Type) (zero szero : F) (add sub mul div fmin : F -> F -> F) (neg nonneg : F -> bool)
         (sc sc2 : F -> F),
  sc zero = zero ->
  (forall a b, sub (sc a) (sc b) = sc (sub a b)) ->
  (forall v r, mul (sc v) r = sc (mul v r)) ->
  (forall s r, div (sc s) r = sc (div s r)) ->
  (forall a b, fmin (sc a) (sc b) = sc (fmin a b)) ->
  (forall x, nonneg (sc x) = nonneg x) ->
  (forall x, mul (sc x) (sc x) = sc2 (mul x x)) ->
  (forall a b, add (sc2 a) (sc2 b) = sc2 (add a b)) ->
  sc2 szero = szero ->
  forall (signal response : list F) (off la : nat),
  nn_greedy F zero szero add sub mul div fmin neg nonneg (map sc signal) response off la =
  res_map (sc_out F sc sc2) (nn_greedy F zero szero add sub mul div fmin neg nonneg signal response off la).
Proof. exact nn_greedy_scale_sec. Qed.
Print Assumptions C17_scale_covariant.

Theorem C17_ls_scale_covariant :
  forall (F : Type) (zero szero inf : F) (add sub mul div fmin : F -> F -> F) (neg nonneg : F -> bool)
         (ltb : F -> F -> bool) (sc sc2 : F -> F),
  sc zero = zero ->
  (forall a b, sub (sc a) (sc b) = sc (sub a b)) ->
  (forall v r, mul (sc v) r = sc (mul v r)) ->
  (forall s r, div (sc s) r = sc (div s r)) ->
  (forall a b, fmin (sc a) (sc b) = sc (fmin a b)) ->
  (forall x, nonneg (sc x) = nonneg x) ->
  (forall x, mul (sc x) (sc x) = sc2 (mul x x)) ->
  (forall a b, add (sc2 a) (sc2 b) = sc2 (add a b)) ->
  sc2 szero = szero ->
  (forall a b, ltb (sc2 a) (sc2 b) = ltb a b) ->
  sc2 inf = inf ->
  forall (signal response : list F) (offs las : list nat),
  ls_deconv F inf ltb (nn_greedy F zero szero add sub mul div fmin neg nonneg) (map sc signal) response offs las =
  res_map (map sc) (ls_deconv F inf ltb (nn_greedy F zero szero add sub mul div fmin neg nonneg) signal response offs las).
Proof. exact ls_deconv_scale_sec. Qed.
Print Assumptions C17_ls_scale_covariant.

Theorem C17_scale_covariant_Q : forall c : Qc, (0 < c)%Qc -> forall signal response off la,
  nn_greedy_q (map (Qcmult c) signal) response off la =
  res_map (sc_out Qc (Qcmult c) (Qcmult (c * c))) (nn_greedy_q signal response off la).
Proof. exact scale_covariant_Q_lemma. Qed.
Print Assumptions C17_scale_covariant_Q.

(* the laws of the selection level are satisfiable too: rationals extended by +infinity (None), so that
   `inf` is a genuine infinity fixed by the scaling *)
Theorem C17_ls_scale_covariant_Qinf : forall c : Qc, (0 < c)%Qc -> forall signal response offs las,
  ls_deconv (option Qc) None o_ltb nn_greedy_o (map (o_scale c) signal) response offs las =
  res_map (map (o_scale c)) (ls_deconv (option Qc) None o_ltb nn_greedy_o signal response offs las).
Proof. exact ls_scale_covariant_Qinf_lemma. Qed.
Print Assumptions C17_ls_scale_covariant_Qinf.

(* (6) Isolated pulse.  Waveform: k zeros, then a * response cut to m samples, then t zeros (t > 0 only if
   the whole response fits): i.e. signal[j] = a * response[j - k] for k <= j < min(n, k + len response),
   0 elsewhere, n = k + min(m, len response) + t.  If the response window of offset 0 is negative and
   fits (look_ahead <= m, which is k + look_ahead <= n; the property's "k + 18 <= n" covers every
   look-ahead 3..=12 of the wire grid), the sweep with offset 0 returns exactly a at k, 0 elsewhere and
   residual 0 - from six arithmetic facts that hold in any ordered field for a > 0.
   SCOPE: exact arithmetic only.  Two of the facts are FALSE for IEEE binary64 - `div (mul a r) r = a` (two
   roundings) and, with szero = -0.0 as in the float instance, `add szero (mul zero zero) = szero`
   (-0 + 0*0 = +0) - so this theorem and the next have no binary64 instance and say nothing about the
   floating-point routine; they are instantiated over Q below (C17_isolated_pulse_exact_Q).  For binary64 the
   recovery (the property's "relative error below 1e-6") is MEASURED on the implementation by rel17pulse
   (2e-16 relative; single-wire blocks at all 256 ring positions), not proved. *)
Theorem C17_isolated_pulse_exact :
  forall (F : Type) (zero szero : F) (add sub mul div fmin : F -> F -> F) (neg nonneg : F -> bool)
         (a : F) (response : list F) (la : nat),
  1 <= la -> la <= length response -> forallb neg (firstn la response) = true ->
  nonneg zero = true ->
  (forall r, neg r = true -> nonneg (mul a r) = false) ->
  (forall r, neg r = true -> div (mul a r) r = a) ->
  fmin a a = a ->
  (forall r, sub (mul a r) (mul a r) = zero) ->
  add szero (mul zero zero) = szero ->
  forall k m t, la <= m -> t = 0 \/ length response <= m ->
  let P := map (mul a) (firstn m response) ++ repeat zero t in
  nn_greedy F zero szero add sub mul div fmin neg nonneg (repeat zero k ++ P) response 0 la =
  Ok (szero, repeat zero k ++ a :: repeat zero (length P - 1)).
Proof. exact isolated_pulse_lemma. Qed.
Print Assumptions C17_isolated_pulse_exact.

(* ... and the least-squares selection returns that exact recovery: offset 0 with the first look-ahead
   comes first and reaches residual szero; no later sweep is strictly better because no sum of squares is
   < szero.  (The sweeps with offset 1 do NOT recover the pulse: they put a * min_j R[j]/R[j+1] at k - 1.
   They only have to terminate, which needs every window of the grid negative.) *)
Theorem C17_isolated_pulse_selected :
  forall (F : Type) (zero szero inf : F) (add sub mul div fmin : F -> F -> F) (neg nonneg : F -> bool)
         (ltb : F -> F -> bool) (signal response exact : list F) (la0 : nat) (offs las : list nat),
  nn_greedy F zero szero add sub mul div fmin neg nonneg signal response 0 la0 = Ok (szero, exact) ->
  (forall off la, In off (0 :: offs) -> In la (la0 :: las) ->
     exists rwin, slice F response off la = Some rwin /\ forallb neg rwin = true /\ 1 <= la) ->
  (forall l, ltb (sumsq F szero add mul l) szero = false) ->
  ltb szero inf = true ->
  ls_deconv F inf ltb (nn_greedy F zero szero add sub mul div fmin neg nonneg) signal response (0 :: offs) (la0 :: las)
  = Ok exact.
Proof. exact isolated_pulse_ls_lemma. Qed.
Print Assumptions C17_isolated_pulse_selected.

(* Over the rationals, for the wire grid 0..=1 x 3..=12 and ANY response whose first 13 samples are
   negative (table fact of the binned wire response, checked on the implementation's table by rel17table):
   a pulse of amplitude a > 0 starting at k with k + 3 <= n is recovered as exactly a at k, 0 elsewhere. *)
Theorem C17_isolated_pulse_exact_Q : forall (a : Qc) (response : list Qc),
  (0 < a)%Qc -> 13 <= length response -> forallb q_neg (firstn 13 response) = true ->
  forall k m t, 3 <= m -> t = 0 \/ length response <= m ->
  let P := map (Qcmult a) (firstn m response) ++ repeat 0%Qc t in
  ls_deconv Qc 1%Qc q_dec nn_greedy_q (repeat 0%Qc k ++ P) response (range_incl 0 1) (range_incl 3 12) =
  Ok (repeat 0%Qc k ++ a :: repeat 0%Qc (length P - 1)).
Proof. exact isolated_pulse_wire_Q_lemma. Qed.
Print Assumptions C17_isolated_pulse_exact_Q.

(* non-vacuity: the models run on concrete values *)
Example C17_nonvacuous_float :
  nn_greedy_f [(-2)%float; (-4)%float; (-1)%float; 0%float] [(-1)%float; (-2)%float; (-0.5)%float] 0 2
  = Ok (0%float, [2%float; 0%float; 0%float; 0%float]).
Proof. vm_compute. reflexivity. Qed.

(* one case of the differential run evaluated inside Coq (vm_compute on primitive floats, no extraction):
   the expected residual and outputs are the bit patterns printed by the implementation *)
Example C17_impl_case_in_coq :
  nn_greedy_f [(-0x1.4e6b233d692e8p+6)%float; (-0x1.619c5064ce7ecp+18)%float; (-0x1.e6435040a44f3p+17)%float; (-0x1.7af8da2cfbf73p+18)%float; (-0x1.1701db3bc6478p+19)%float; (-0x1.e8a7a2e3e1b4dp+17)%float; (-0x1.9c7b691475246p+18)%float; (-0x1.195f355939e7bp+18)%float; (-0x1.b8eff41ed7283p+18)%float; (-0x1.c7b7eac868a73p+18)%float; (-0x1.576393a457bf6p+18)%float; (-0x1.ed549857b67d1p+18)%float; (-0x1.24cc5ab4da26dp+19)%float; (-0x1.541a86d1d9bc7p+18)%float; (-0x1.ecdfe191994bep+18)%float]
              [(-0x0.00000000007e8p-1022)%float; (-0x1.4d8ed4b27a553p+5)%float; (-0x1.ca94d081871e4p+4)%float; (-0x1.6571a24ad16e1p+5)%float; (-0x1.0b3e2710802c5p+5)%float; (-0x1.a1f01095a6d37p+2)%float; (-0x1.bd7c5b9ab6edcp+3)%float; (-0x1.cde9efdec8b3bp+2)%float; (-0x1.6481720800be7p+5)%float; (-0x1.4a868a566a550p+5)%float; (-0x1.0302c5c6fdccap+5)%float; (-0x1.5a1b21c129063p+4)%float; (-0x1.2437984b70a24p+5)%float; (-0x1.c2df5e60b636bp+3)%float; (-0x1.46ab65faec46bp+5)%float] 0 7
  = Ok ((0x1.719531514edd4p+20)%float, [(0x1.0f63dc4435257p+13)%float; (0x1.62d62927bfbadp+0)%float; 0%float; (0x1.a5923292ef628p+12)%float; 0%float; (0x1.2734eea90c157p+1)%float; 0%float; (0x1.e1d0cd3e06409p+8)%float; 0%float; 0%float; 0%float; 0%float; 0%float; 0%float; 0%float]).
Proof. vm_compute. reflexivity. Qed.

(* ===== scale covariance for binary64 under an explicit, checkable no-overflow/no-underflow condition — imported from Signal/GreedyScale_pins.v ===== *)
(* C17 — scale covariance FOR BINARY64 (pins in the Props style; to be imported by Props/C17.v).

   "multiplying every calibrated sample of an event by a power of two multiplies every recovered
    amplitude by exactly that factor while changing no time"

   is proved here for the bit-exact binary64 model that the differential compares with the
   implementation (nn_greedy_f / ls_deconv_f of Signal/Greedy.v), under an explicit and executable
   no-overflow / no-underflow side condition on the values THE RUN ACTUALLY PRODUCES:

     nn_safe k signal response off la   /   ls_safe k signal response offs las     (Signal/GreedyScale.v)

   re-run the algorithm on the UNSCALED waveform and test, for every arithmetic operation performed
   (s / r, f64::min, v * r, s - v*r, x.powi(2), acc + x^2, r < best), that its operands and its result
   are either a zero or finite with magnitude in [2^(K-1021), 2^(1023-K)], K = |k| (K = 2|k| for the
   squared residual), that a product / quotient is a zero only when a factor / the dividend is
   (no underflow to zero), that the response samples used are finite (non-zero as divisors), and
   |k| <= 500.  Under that predicate every control decision (window skips, argmin over the
   offset x look-ahead grid, hence every TIME) is unchanged, every amplitude is multiplied by
   c = 2^k bit for bit, and the squared residual by c^2.

   The op-level facts are proved through Flocq (Bmult/Bdiv/Bplus/Bminus_correct: the scaled exact
   value rounds to the scaled rounded value because the canonical exponent shifts by k in the
   normal range) and transported to Coq's primitive floats with the standard FloatAxioms
   (Flocq.IEEE754.PrimFloat: Prim2B, mul_equiv, ...). *)
From AG Require Import Base.Prelude Base.Res Signal.Greedy Signal.GreedyScale Signal.GreedyScale_proofs.
From Coq Require Import Floats.

(* the scaling that the harness relation rel17scale performs: x * c and r * c * c with c = 2f64.powi(k) *)
Example C17_fscale_is_mul_pow2 : forall k x, fscale k x = (x * pow2 k)%float /\ fscale2 k x = (x * pow2 k * pow2 k)%float.
Proof. intros. split; reflexivity. Qed.
(* pow2 k is the binary64 number 2^k (general statement: pow2_spec in GreedyScale_proofs.v, through Flocq) *)
Example C17_pow2_values : (pow2 10 = 1024 /\ pow2 (-10) = 0x1p-10 /\ pow2 0 = 1 /\ pow2 (-20) = Z.ldexp 1 (-20) /\ pow2 20 = Z.ldexp 1 20)%float.
Proof. repeat split; vm_compute; reflexivity. Qed.

(* one sweep: outputs scaled by c, squared residual by c^2, same control flow *)
Theorem C17_nn_greedy_scale_f64 : forall (k : Z) (signal response : list float) (off la : nat),
  nn_safe k signal response off la = true ->
  nn_greedy_f (map (fscale k) signal) response off la =
  res_map (sc_out float (fscale k) (fscale2 k)) (nn_greedy_f signal response off la).
Proof. exact nn_greedy_scale_f64_lemma. Qed.
Print Assumptions C17_nn_greedy_scale_f64.

(* the whole selection ls_deconvolution (the pad and wire entry points are instances):
   the same grid point wins, every amplitude is scaled exactly *)
Theorem C17_ls_deconv_scale_f64 : forall (k : Z) (signal response : list float) (offs las : list nat),
  ls_safe k signal response offs las = true ->
  ls_deconv_f (map (fscale k) signal) response offs las =
  res_map (map (fscale k)) (ls_deconv_f signal response offs las).
Proof. exact ls_deconv_scale_f64_lemma. Qed.
Print Assumptions C17_ls_deconv_scale_f64.

Theorem C17_pad_deconv_scale_f64 : forall (k : Z) (signal pad_response : list float),
  ls_safe k signal pad_response (range_incl 3 5) (range_incl 7 12) = true ->
  pad_deconv_f (map (fscale k) signal) pad_response = res_map (map (fscale k)) (pad_deconv_f signal pad_response).
Proof. intros. apply ls_deconv_scale_f64_lemma. assumption. Qed.
Print Assumptions C17_pad_deconv_scale_f64.

Theorem C17_wire_deconv_scale_f64 : forall (k : Z) (signal wire_response : list float),
  ls_safe k signal wire_response (range_incl 0 1) (range_incl 3 12) = true ->
  wire_deconv_f (map (fscale k) signal) wire_response = res_map (map (fscale k)) (wire_deconv_f signal wire_response).
Proof. intros. apply ls_deconv_scale_f64_lemma. assumption. Qed.
Print Assumptions C17_wire_deconv_scale_f64.

(* the op-level binary64 laws themselves (each under its boolean test), k with |k| <= 500 *)
Theorem C17_f64_scale_laws : forall k : Z, (Z.abs k <= kmax)%Z ->
  let K := Z.abs k in let K2 := (2 * Z.abs k)%Z in let sc := fscale k in let sc2 := fscale2 k in
  (forall a b, f_ok_sub K a b = true -> (sc a - sc b = sc (a - b))%float) /\
  (forall v r, f_ok_mul K v r = true -> (sc v * r = sc (v * r))%float) /\
  (forall s r, f_ok_div K s r = true -> (sc s / r = sc (s / r))%float) /\
  (forall a b, okv K a = true -> okv K b = true -> f_min (sc a) (sc b) = sc (f_min a b)) /\
  (forall x, okv K x = true -> f_nonneg (sc x) = f_nonneg x) /\
  (forall x, f_ok_sq k x = true -> (sc x * sc x = sc2 (x * x))%float) /\
  (forall a b, f_ok_add K2 a b = true -> (sc2 a + sc2 b = sc2 (a + b))%float) /\
  (forall a b, f_ok_lt2 K2 a b = true -> (sc2 a <? sc2 b = (a <? b))%float) /\
  sc 0%float = 0%float /\ sc2 neg_zero = neg_zero /\ sc2 infinity = infinity.
Proof.
  intros k Hk. cbv zeta.
  exact (conj (law_sub k Hk) (conj (law_mul k Hk) (conj (law_div k Hk) (conj (law_min k Hk) (conj (law_nonneg k Hk)
        (conj (law_sq k Hk) (conj (law_add2 k Hk) (conj (law_lt2 k Hk) (conj (law_zero k Hk) (conj (law_szero k Hk) (law_inf k Hk))))))))))).
Qed.
Print Assumptions C17_f64_scale_laws.

(* ---- the hypotheses are satisfiable on a non-trivial concrete binary64 waveform, and the conclusion is
        what the implementation printed.  Two response-shaped pulses (amplitudes 80 and 55.5 at samples 2
        and 6) plus noise, 14 samples, on a 5-sample response; grid offsets 0..=1 x look-aheads 2..=3.
        Case lines (corpus/C17/scale_example.case, compared with the implementation on every run):
        the waveform, the waveform * 2^10, the waveform * 2^-10.  The implementation printed
          ls=14:1=3fc1111111111111,2=4053e93e93e93e94,3=3fbc71c71c71c762,5=3fbee8dd7cc6ba28,6=404b962bbdc18c77,7=3fbc985d6f15813b
          ls=14:1=4061111111111111,2=40f3e93e93e93e94,3=405c71c71c71c762,5=405ee8dd7cc6ba28,6=40eb962bbdc18c77,7=405c985d6f15813b
          ls=14:1=3f21111111111111,2=3fb3e93e93e93e94,3=3f1c71c71c71c762,5=3f1ee8dd7cc6ba28,6=3fab962bbdc18c77,7=3f1c985d6f15813b
        (same mantissas, exponents shifted by +10 / -10, same positions). ---- *)
Local Open Scope float_scope.
Definition ex_resp : list float :=
  [-0x1.8p+0; -0x1.ap+1; -0x1p+1; -0x1.8p-1; -0x1.999999999999ap-4].
Definition ex_sig : list float :=
  [0x1.3333333333333p-2; -0x1.999999999999ap-3; -0x1.df9999999999ap+6; -0x1.0466666666666p+8; -0x1.3f8p+7;
   -0x1.e133333333333p+5; -0x1.6cccccccccccdp+6; -0x1.695999999999ap+7; -0x1.bb33333333333p+6; -0x1.4dccccccccccdp+5;
   -0x1.4cccccccccccep+2; -0x1p-2; 0x1.3333333333333p-3; -0x1.999999999999ap-5].
Definition ex_out : list float :=
  [0; 0x1.1111111111111p-3; 0x1.3e93e93e93e94p+6; 0x1.c71c71c71c762p-4; 0; 0x1.ee8dd7cc6ba28p-4; 0x1.b962bbdc18c77p+5;
   0x1.c985d6f15813bp-4; 0; 0; 0; 0; 0; 0].
Definition ex_out_up : list float :=
  [0; 0x1.1111111111111p+7; 0x1.3e93e93e93e94p+16; 0x1.c71c71c71c762p+6; 0; 0x1.ee8dd7cc6ba28p+6; 0x1.b962bbdc18c77p+15;
   0x1.c985d6f15813bp+6; 0; 0; 0; 0; 0; 0].
Definition ex_out_down : list float :=
  [0; 0x1.1111111111111p-13; 0x1.3e93e93e93e94p-4; 0x1.c71c71c71c762p-14; 0; 0x1.ee8dd7cc6ba28p-14; 0x1.b962bbdc18c77p-5;
   0x1.c985d6f15813bp-14; 0; 0; 0; 0; 0; 0].

Example C17_scale_example_safe :
  ls_safe 10 ex_sig ex_resp [0; 1]%nat [2; 3]%nat = true /\ ls_safe (-10) ex_sig ex_resp [0; 1]%nat [2; 3]%nat = true /\
  nn_safe 10 ex_sig ex_resp 1 3 = true /\ nn_safe (-10) ex_sig ex_resp 1 3 = true.
Proof. repeat split; vm_compute; reflexivity. Qed.
Example C17_scale_example_unscaled : ls_deconv_f ex_sig ex_resp [0; 1]%nat [2; 3]%nat = Ok ex_out.
Proof. vm_compute. reflexivity. Qed.
(* the conclusion of the theorem, obtained FROM the theorem, equals what the implementation printed *)
Example C17_scale_example_up : ls_deconv_f (map (fscale 10) ex_sig) ex_resp [0; 1]%nat [2; 3]%nat = Ok ex_out_up.
Proof.
  rewrite (C17_ls_deconv_scale_f64 10 ex_sig ex_resp [0; 1]%nat [2; 3]%nat (proj1 C17_scale_example_safe)).
  rewrite C17_scale_example_unscaled. vm_compute. reflexivity.
Qed.
Example C17_scale_example_down : ls_deconv_f (map (fscale (-10)) ex_sig) ex_resp [0; 1]%nat [2; 3]%nat = Ok ex_out_down.
Proof.
  rewrite (C17_ls_deconv_scale_f64 (-10) ex_sig ex_resp [0; 1]%nat [2; 3]%nat (proj1 (proj2 C17_scale_example_safe))).
  rewrite C17_scale_example_unscaled. vm_compute. reflexivity.
Qed.
(* one sweep: residual 0x1.e7cef2dac6ac5p+13 becomes 0x1.e7cef2dac6ac5p+33 (printed: 40ce7cef2dac6ac5 -> 420e7cef2dac6ac5) *)
Example C17_scale_example_residual :
  res_map fst (nn_greedy_f ex_sig ex_resp 1 3) = Ok 0x1.e7cef2dac6ac5p+13 /\
  res_map fst (nn_greedy_f (map (fscale 10) ex_sig) ex_resp 1 3) = Ok 0x1.e7cef2dac6ac5p+33.
Proof.
  rewrite (C17_nn_greedy_scale_f64 10 ex_sig ex_resp 1 3 (proj1 (proj2 (proj2 C17_scale_example_safe)))).
  split; vm_compute; reflexivity.
Qed.
(* the predicate is not vacuous the other way either: it rejects a waveform whose scaled image overflows *)
Example C17_scale_example_rejects : nn_safe 500 [0x1p+600; -0x1p+0; -0x1p+0] ex_resp 0 2 = false.
Proof. vm_compute. reflexivity. Qed.


(* ---- the tie of the two theorems above to the cases that are run.  For every `rel17scale` case line the model
        runner EVALUATES the hypotheses (at every point of the production grid nn_safe, and ls_safe over the grid)
        on the waveform, response and k of the line, and the line carries the implementation's verdict (scaled bit
        for bit or not); "hypotheses true and not scaled exactly" is a violation.  The runner evaluates the
        predicates in the form below, which computes the four bounds 2^(K-1021), 2^(1023-K), 2^(2K-1021),
        2^(1023-2K) once instead of in every range test; it is the same function (by conversion). ---- *)
From AG Require Import Signal.GreedyScaleFast.
Theorem C17_nn_safe_fast_eq : forall (k : Z) (signal response : list float) (off la : nat),
  nn_safe_fast k signal response off la = nn_safe k signal response off la.
Proof. exact nn_safe_fast_eq. Qed.
Print Assumptions C17_nn_safe_fast_eq.
Theorem C17_ls_safe_fast_eq : forall (k : Z) (signal response : list float) (offs las : list nat),
  ls_safe_fast k signal response offs las = ls_safe k signal response offs las.
Proof. exact ls_safe_fast_eq. Qed.
Print Assumptions C17_ls_safe_fast_eq.
(* so the theorem in the form the runner uses it *)
Theorem C17_ls_deconv_scale_f64_as_run : forall (k : Z) (signal response : list float) (offs las : list nat),
  ls_safe_fast k signal response offs las = true ->
  ls_deconv_f (map (fscale k) signal) response offs las =
  res_map (map (fscale k)) (ls_deconv_f signal response offs las).
Proof. intros k s r offs las H. apply C17_ls_deconv_scale_f64. rewrite <- C17_ls_safe_fast_eq. exact H. Qed.
Print Assumptions C17_ls_deconv_scale_f64_as_run.
Theorem C17_nn_greedy_scale_f64_as_run : forall (k : Z) (signal response : list float) (off la : nat),
  nn_safe_fast k signal response off la = true ->
  nn_greedy_f (map (fscale k) signal) response off la =
  res_map (sc_out float (fscale k) (fscale2 k)) (nn_greedy_f signal response off la).
Proof. intros k s r off la H. apply C17_nn_greedy_scale_f64. rewrite <- C17_nn_safe_fast_eq. exact H. Qed.
Print Assumptions C17_nn_greedy_scale_f64_as_run.
(* the predicate has both values: true on the example up to the bound kmax = 500 on either side, false beyond it
   whatever the waveform *)
Example C17_safe_false_beyond_kmax :
  map (fun k => ls_safe_fast k ex_sig ex_resp [0; 1]%nat [2; 3]%nat) [501; 500; 400; -400; -500; -501]%Z =
  [false; true; true; true; true; false].
Proof. vm_compute. reflexivity. Qed.
