(* C17 — deconvolution is non-negative, scale-covariant and equals its plain definition.
   This file only pins statements; models are in Signal/Greedy.v, proofs in Signal/Greedy_proofs.v. *)
From AG Require Import Base.Prelude Base.Res Signal.Greedy Signal.Greedy_proofs.
From Coq Require Import Floats.
Local Open Scope nat_scope.

(* (1) The production loop with the `i += last_positive + 1` window skip computes exactly the plain
   one-sample-at-a-time sweep: same input vector, same residual, same panics.  For every sample type
   and all operations on it (so in particular for IEEE binary64 with its NaNs and signed zeros),
   every signal, response, offset and look-ahead; no size bound. *)
Theorem C17_greedy_skip_eq_naive :
  forall (F : Type) (zero szero : F) (add sub mul div fmin : F -> F -> F) (neg nonneg : F -> bool)
         (signal response : list F) (off la : nat),
  nn_greedy F zero szero add sub mul div fmin neg nonneg signal response off la =
  nn_naive F zero szero add sub mul div fmin neg nonneg signal response off la.
Proof. exact greedy_skip_eq_naive_lemma. Qed.
Print Assumptions C17_greedy_skip_eq_naive.

(* (2) Hence the least-squares selection over any offset/look-ahead grid (pads: 3..=5 x 7..=12) equals
   the selection over the plain scheme, including the first-strict-minimum tie-break. *)
Theorem C17_pad_deconv_eq_plain :
  forall (F : Type) (zero szero inf : F) (add sub mul div fmin : F -> F -> F) (neg nonneg : F -> bool)
         (ltb : F -> F -> bool) (signal response : list F) (offs las : list nat),
  ls_deconv F inf ltb (nn_greedy F zero szero add sub mul div fmin neg nonneg) signal response offs las =
  ls_deconv F inf ltb (nn_naive F zero szero add sub mul div fmin neg nonneg) signal response offs las.
Proof. exact deconv_eq_plain_lemma. Qed.
Print Assumptions C17_pad_deconv_eq_plain.

(* (3) One output sample per input sample — what the code guarantees, and when.
   A single sweep: never out of fuel; whenever it returns, the input vector has the length of the
   signal; it does return when the response window exists, is negative and look_ahead >= 1 (otherwise
   the slicing, the assert or the unwrap panics); a waveform too short for the window gives zeros. *)
Theorem C17_deconv_lengths :
  forall (F : Type) (zero szero : F) (add sub mul div fmin : F -> F -> F) (neg nonneg : F -> bool)
         (signal response : list F) (off la : nat),
  (forall k, nn_greedy F zero szero add sub mul div fmin neg nonneg signal response off la <> Err k) /\
  (forall r inp, nn_greedy F zero szero add sub mul div fmin neg nonneg signal response off la = Ok (r, inp) ->
                 length inp = length signal) /\
  (forall rwin, slice F response off la = Some rwin -> forallb neg rwin = true -> 1 <= la ->
     exists r inp, nn_greedy F zero szero add sub mul div fmin neg nonneg signal response off la = Ok (r, inp)) /\
  (forall rwin, slice F response off la = Some rwin -> forallb neg rwin = true -> length signal < off + la ->
     nn_greedy F zero szero add sub mul div fmin neg nonneg signal response off la =
     Ok (sumsq F szero add mul signal, repeat zero (length signal))).
Proof. exact deconv_lengths_lemma. Qed.
Print Assumptions C17_deconv_lengths.

(* The least-squares selection returns a vector of the signal's length if and only if some sweep of
   the grid ends with a residual that compares < +infinity; if none does (every residual is NaN or
   +infinity, or the grid is empty) it returns the EMPTY vector `Vec::new()` it started from. *)
Theorem C17_ls_deconv_lengths :
  forall (F : Type) (zero szero inf : F) (add sub mul div fmin : F -> F -> F) (neg nonneg : F -> bool)
         (ltb : F -> F -> bool) (signal response : list F) (offs las : list nat) (out : list F),
  ls_deconv F inf ltb (nn_greedy F zero szero add sub mul div fmin neg nonneg) signal response offs las = Ok out ->
  ((exists off la r inp, In off offs /\ In la las /\
      nn_greedy F zero szero add sub mul div fmin neg nonneg signal response off la = Ok (r, inp) /\ ltb r inf = true) ->
   length out = length signal) /\
  ((forall off la r inp, In off offs -> In la las ->
      nn_greedy F zero szero add sub mul div fmin neg nonneg signal response off la = Ok (r, inp) -> ltb r inf = false) ->
   out = []).
Proof. exact ls_deconv_lengths_lemma. Qed.
Print Assumptions C17_ls_deconv_lengths.

(* "one output sample per input sample" therefore does NOT hold for all binary64 inputs: a sample whose
   square overflows, or a NaN, makes every residual +inf / NaN and the pad routine returns no samples.
   (Outside the property's domain of calibrated waveforms; the harness replays both on the implementation.) *)
Definition resp18 : list float := repeat (-1)%float 18.
Theorem C17_length_all_inputs_refuted :
  exists signal : list float, length signal = 1 /\ pad_deconv_f signal resp18 = Ok [].
Proof. exact length_all_inputs_refuted_lemma. Qed.
Print Assumptions C17_length_all_inputs_refuted.
