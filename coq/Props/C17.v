(* C17 — deconvolution is non-negative, scale-covariant and equals its plain definition.
   This file only pins statements; models are in Signal/Greedy.v, proofs in Signal/Greedy_proofs.v. *)
From AG Require Import Base.Prelude Base.Res Signal.Greedy Signal.Greedy_proofs.
Local Open Scope nat_scope.

(* (1) The production loop with the `i += last_positive + 1` window skip computes exactly the plain
   one-sample-at-a-time sweep: same input vector, same residual, same panics.  For every sample type
   and all operations on it (so in particular for IEEE binary64 with its NaNs and signed zeros),
   every signal, response, offset and look-ahead; no size bound. *)
Theorem C17_greedy_skip_eq_naive :
  forall (F : Type) (zero szero : F) (add sub mul div fmin : F -> F -> F) (neg nonneg : F -> bool)
         (signal response : list F) (off la : nat),
  nn_greedy F zero szero add sub mul div fmin neg nonneg signal response off la =
  nn_naive F zero szero add sub mul div fmin neg nonneg signal response off la.
Proof. exact greedy_skip_eq_naive_lemma. Qed.
Print Assumptions C17_greedy_skip_eq_naive.

(* (2) Hence the least-squares selection over any offset/look-ahead grid (pads: 3..=5 x 7..=12) equals
   the selection over the plain scheme, including the first-strict-minimum tie-break. *)
Theorem C17_pad_deconv_eq_plain :
  forall (F : Type) (zero szero inf : F) (add sub mul div fmin : F -> F -> F) (neg nonneg : F -> bool)
         (ltb : F -> F -> bool) (signal response : list F) (offs las : list nat),
  ls_deconv F inf ltb (nn_greedy F zero szero add sub mul div fmin neg nonneg) signal response offs las =
  ls_deconv F inf ltb (nn_naive F zero szero add sub mul div fmin neg nonneg) signal response offs las.
Proof. exact deconv_eq_plain_lemma. Qed.
Print Assumptions C17_pad_deconv_eq_plain.
