(* C08 -- channel identity is unambiguous: names, boards and detector elements biject.
   This file only pins statements; proofs live in Ident/Names_proofs.v and Ident/Maps_proofs.v.
   The tables and `match run_number` arms come from Gen/Boards.v, Gen/WireMaps.v, Gen/PadMaps.v, which
   the translator regenerates from the current /repo on every run, so everything below is re-proved
   against what the source says now. *)
From AG Require Import Base.Prelude Base.Res Base.Bytes Ident.Dispatch Ident.Names Ident.Maps
  Ident.Maps_proofs Ident.Names_proofs Gen.Boards Gen.WireMaps Gen.PadMaps.

(* ----------------------------------------------------------------------------------------------- names *)
(* among ALL byte strings exactly the documented names are accepted, each with its documented channel;
   documented_names is computed from ALPHA16BOARDS and PADWING_BOARDS:
   B/C + Alpha16 board + base-16/base-32 digit, PC + PadWing board, ATAT, TRBA, MCVX *)
Theorem C08_names_exact : forall s k, parse_main s = Ok k <-> In (s, k) documented_names.
Proof. exact names_exact_lemma. Qed.
Print Assumptions C08_names_exact.

(* CBF1-4 and SEQ2 for their own parsers *)
Theorem C08_cb_names_exact : forall s i, parse_cb s = Ok i <-> In (s, i) documented_cb_names.
Proof. exact cb_names_exact_lemma. Qed.
Print Assumptions C08_cb_names_exact.
Theorem C08_seq2_names_exact : forall s u, parse_seq2 s = Ok u <-> In (s, u) documented_seq2_names.
Proof. exact seq2_names_exact_lemma. Qed.
Print Assumptions C08_seq2_names_exact.

(* distinct names denote distinct channels (and no name is documented twice) *)
Theorem C08_names_injective : NoDup (map snd documented_names) /\ NoDup (map fst documented_names).
Proof. exact names_injective_lemma. Qed.
Print Assumptions C08_names_injective.

(* channels are identified by table rows; rows are distinct boards (names, MAC addresses, device ids) *)
Theorem C08_board_rows_distinct :
  NoDup (map fst alpha16_boards) /\ NoDup (map snd alpha16_boards)
  /\ NoDup (map (fun t => fst (fst t)) padwing_boards) /\ NoDup (map (fun t => snd (fst t)) padwing_boards)
  /\ NoDup (map snd padwing_boards) /\ NoDup chronobox_names.
Proof. exact board_rows_distinct_lemma. Qed.
Print Assumptions C08_board_rows_distinct.

(* no parser panics on any Rust string (= well-formed UTF-8 byte list of any length) *)
Theorem C08_names_total : forall s, utf8b s = true ->
  parse_main s <> Panic /\ parse_alpha16 s <> Panic /\ parse_adc16 s <> Panic /\ parse_adc32 s <> Panic
  /\ parse_pwb s <> Panic /\ parse_trg s <> Panic /\ parse_trb3 s <> Panic /\ parse_mcvx s <> Panic
  /\ parse_cb s <> Panic /\ parse_seq2 s <> Panic.
Proof. exact names_total_lemma. Qed.
Print Assumptions C08_names_total.

(* on arbitrary byte lists (also ill-formed UTF-8) the only panicking input of the model is "PC" followed by
   a continuation byte at the slice index -- not a &str *)
Theorem C08_names_total_bytes : forall s,
  parse_alpha16 s <> Panic /\ parse_adc16 s <> Panic /\ parse_adc32 s <> Panic
  /\ parse_trg s <> Panic /\ parse_trb3 s <> Panic /\ parse_mcvx s <> Panic /\ parse_cb s <> Panic /\ parse_seq2 s <> Panic
  /\ (parse_pwb s = Panic <-> exists c d, s = [80; 67; c; d] /\ is_cont c = true).
Proof. exact names_total_bytes_lemma. Qed.
Print Assumptions C08_names_total_bytes.

(* each component parser is exact on its own *)
Theorem C08_component_parsers_exact : forall s,
  (forall b c, parse_adc16 s = Ok (b, c) <-> In (s, KAdc16 b c) documented_names)
  /\ (forall b c, parse_adc32 s = Ok (b, c) <-> In (s, KAdc32 b c) documented_names)
  /\ (forall b, parse_pwb s = Ok b <-> In (s, KPwb b) documented_names)
  /\ (forall k, parse_alpha16 s = Ok k <->
                In (s, k) documented_names /\ match k with KAdc16 _ _ | KAdc32 _ _ => True | _ => False end)
  /\ (forall u, parse_trg s = Ok u <-> s = s_ATAT)
  /\ (forall u, parse_trb3 s = Ok u <-> s = s_TRBA)
  /\ (forall u, parse_mcvx s = Ok u <-> s = s_MCVX).
Proof. exact component_parsers_exact_lemma. Qed.
Print Assumptions C08_component_parsers_exact.

(* ------------------------------------------------------------------------------------------------ maps *)
(* for EVERY run number: if a wire map is selected, (installed Alpha16 board, channel) -> wire is total,
   injective and onto the TPC_ANODE_WIRES wires *)
Theorem C08_wire_map_bijective : forall run id, wire_dispatch run = Some id ->
  (forall b ch, In b (wire_boards (fst id)) -> ch < 32 ->
     exists w, wire_position run b ch = Ok w /\ w < gen_TPC_ANODE_WIRES)
  /\ (forall b ch b' ch', In b (wire_boards (fst id)) -> In b' (wire_boards (fst id)) -> ch < 32 -> ch' < 32 ->
        wire_position run b ch = wire_position run b' ch' -> b = b' /\ ch = ch')
  /\ (forall w, w < gen_TPC_ANODE_WIRES ->
        exists b ch, In b (wire_boards (fst id)) /\ ch < 32 /\ wire_position run b ch = Ok w).
Proof. exact wire_map_bijective_lemma. Qed.
Print Assumptions C08_wire_map_bijective.

(* for EVERY run number: if a PWB map is selected, 64 boards are installed and
   (installed board, AFTER chip, pad channel) -> (pad column, pad row) is total, injective and onto *)
Theorem C08_pad_map_bijective : forall run t, pwb_dispatch run = Some t ->
  lenN (pwb_installed t) = gen_TPC_PWB_COLUMNS * gen_TPC_PWB_ROWS
  /\ (forall b a ch, In b (pwb_installed t) -> In a gen_after_ids -> In ch pad_channels ->
        exists c w, pad_position run b a ch = Ok (c, w) /\ c < gen_TPC_PAD_COLUMNS /\ w < gen_TPC_PAD_ROWS)
  /\ (forall b a ch b' a' ch', In b (pwb_installed t) -> In a gen_after_ids -> In ch pad_channels ->
        In b' (pwb_installed t) -> In a' gen_after_ids -> In ch' pad_channels ->
        pad_position run b a ch = pad_position run b' a' ch' -> b = b' /\ a = a' /\ ch = ch')
  /\ (forall c w, c < gen_TPC_PAD_COLUMNS -> w < gen_TPC_PAD_ROWS ->
        exists b a ch, In b (pwb_installed t) /\ In a gen_after_ids /\ In ch pad_channels
                       /\ pad_position run b a ch = Ok (c, w)).
Proof. exact pad_map_bijective_lemma. Qed.
Print Assumptions C08_pad_map_bijective.

(* the sizes the property text names *)
Theorem C08_sizes :
  gen_TPC_ANODE_WIRES = 256 /\ gen_TPC_PADS = 18432 /\ gen_TPC_PAD_COLUMNS * gen_TPC_PAD_ROWS = gen_TPC_PADS
  /\ gen_TPC_PWB_COLUMNS * gen_TPC_PWB_ROWS = 64 /\ gen_after_ids = [0; 1; 2; 3]
  /\ (forall ch, In ch pad_channels <-> 1 <= ch <= 72).
Proof. do 5 (split; [reflexivity|]). exact In_pad_channels. Qed.
Print Assumptions C08_sizes.

(* the simulation run number (u32::MAX) maps exactly like run 5000 *)
Theorem C08_sim_like_5000 :
  (forall b ch, wire_position sim_run b ch = wire_position 5000 b ch)
  /\ (forall b a ch, pad_position sim_run b a ch = pad_position 5000 b a ch).
Proof. exact sim_like_5000_lemma. Qed.
Print Assumptions C08_sim_like_5000.

(* run numbers before the first map give an error rather than a guess (thresholds computed from the arms) *)
Theorem C08_early_runs_error : forall run, run <> sim_run ->
  (run < wire_first_threshold -> forall b ch, exists k, wire_position run b ch = Err k)
  /\ (run < pad_first_threshold -> forall b a ch, exists k, pad_position run b a ch = Err k).
Proof. exact early_runs_error_lemma. Qed.
Print Assumptions C08_early_runs_error.

Theorem C08_no_catch_all_guess : forall arms, In arms [preamp_arms; channel_arms; pwb_arms] ->
  forall b, In (PAny, b) arms -> b = None.
Proof. exact no_catch_all_guess_lemma. Qed.
Print Assumptions C08_no_catch_all_guess.

(* after the first map there is no gap: every later run number has a map *)
Theorem C08_maps_no_gap : forall run,
  (wire_first_threshold <= run -> wire_dispatch run <> None)
  /\ (pad_first_threshold <= run -> pwb_dispatch run <> None).
Proof. exact maps_no_gap_lemma. Qed.
Print Assumptions C08_maps_no_gap.

(* every translated table is selected by some run number (no table whose arm was forgotten or is shadowed) *)
Theorem C08_every_table_used :
  (forall t, t < lenN preamp_tables -> exists run, dispatch preamp_arms run = Some t)
  /\ (forall t, t < lenN channel_tables -> exists run, dispatch channel_arms run = Some t)
  /\ (forall t, t < lenN pwb_tables -> exists run, pwb_dispatch run = Some t).
Proof. exact every_table_used_lemma. Qed.
Print Assumptions C08_every_table_used.

(* the `match run_number` arms select exactly what the table names document: table X_<k> from run k (included) up to
   the next table's first run, nothing before the first, the simulation run as run 5000 (wire_dispatch_req /
   pwb_dispatch_req are built from the table names alone); and a selected map is flagged bijective.  These
   "required" observations are what the model runner prints in the differential run. *)
Theorem C08_required_is_actual : forall run,
  wire_dispatch_req run = wire_dispatch run /\ pwb_dispatch_req run = pwb_dispatch run
  /\ wire_table_obs_req (wire_dispatch run) = wire_table_obs (wire_dispatch run)
  /\ pad_table_obs_req (pwb_dispatch run) = pad_table_obs (pwb_dispatch run).
Proof. exact required_is_actual_lemma. Qed.
Print Assumptions C08_required_is_actual.

(* ------------------------------------------------------------------------------------------- geometry *)
(* phi(wire w) = wire_phi_num w * pi / TPC_ANODE_WIRES;  column c covers
   [2c pi / TPC_PAD_COLUMNS, (2c+2) pi / TPC_PAD_COLUMNS): wire w lies in the interval of its column
   (exact integers: both sides multiplied by the denominators) *)
Theorem C08_column_geometry : forall w, w < gen_TPC_ANODE_WIRES ->
  let c := wire_to_pad_column w in
  c < gen_TPC_PAD_COLUMNS
  /\ 2 * c * gen_TPC_ANODE_WIRES <= wire_phi_num w * gen_TPC_PAD_COLUMNS
  /\ wire_phi_num w * gen_TPC_PAD_COLUMNS < (2 * c + 2) * gen_TPC_ANODE_WIRES.
Proof. exact column_geometry_lemma. Qed.
Print Assumptions C08_column_geometry.

(* pad_column_to_wires c lists exactly the wires of column c, and its range stays inside the wire array *)
Theorem C08_column_wires_inverse : forall c, c < gen_TPC_PAD_COLUMNS ->
  pad_column_first c + gen_WIRES_PER_COLUMN <= gen_TPC_ANODE_WIRES
  /\ forall w, w < gen_TPC_ANODE_WIRES -> (In w (pad_column_to_wires c) <-> wire_to_pad_column w = c).
Proof. exact column_wires_inverse_lemma. Qed.
Print Assumptions C08_column_wires_inverse.

(* ---------------------------------------------------------------------------------------- non-vacuity *)
Example C08_names_nonvacuous :
  length documented_names = 458%nat /\ length documented_cb_names = 4%nat
  /\ parse_main [66; 48; 57; 70] = Ok (KAdc16 0 15) /\ parse_main [67; 49; 56; 86] = Ok (KAdc32 7 31)
  /\ (exists k, parse_main [66; 48; 57; 71] = Err k) /\ (exists k, parse_main [67; 48; 57; 87] = Err k)
  /\ (exists k, parse_main [66; 48; 57; 102] = Err k)
  /\ parse_main [80; 67; 48; 48] = Ok (KPwb 0) /\ parse_cb [67; 66; 70; 51] = Ok 2
  /\ utf8b [80; 67; 195; 169] = true /\ utf8b [80; 67; 169; 48] = false /\ parse_pwb [80; 67; 169; 48] = Panic.
Proof. vm_compute. repeat split; try reflexivity; eexists; reflexivity. Qed.

Example C08_maps_nonvacuous :
  wire_dispatch 5000 = Some (0, 0) /\ pwb_dispatch 5000 = Some 0 /\ pwb_dispatch 10418 = Some 1
  /\ wire_dispatch 2940 = None /\ pwb_dispatch 4417 = None
  /\ wire_first_threshold = 2941 /\ pad_first_threshold = 4418
  /\ wire_position 5000 0 0 = Ok 4 /\ pad_position 5000 24 0 1 = Ok (5, 432)
  /\ wire_to_pad_column 0 = 31 /\ pad_column_to_wires 31 = [0; 1; 2; 3; 4; 5; 6; 7].
Proof. vm_compute. repeat split; reflexivity. Qed.

(* the concrete thresholds of the current source (regenerated arms): no map before run 2941 (wires) / 4418 (pads) *)
Theorem C08_thresholds_current : wire_first_threshold = 2941 /\ pad_first_threshold = 4418.
Proof. split; vm_compute; reflexivity. Qed.
Print Assumptions C08_thresholds_current.
