(* C08 -- channel identity is unambiguous.  Statements only; proofs in Ident/*_proofs.v. *)
From AG Require Import Base.Prelude Base.Res Base.Bytes Ident.Dispatch Ident.Names Ident.Maps.
