(* C18 — drift-time lookup is bounded, monotone, continuous and symmetric.
   This file only pins statements; proofs live in Recon/DriftR_proofs.v (abstract rounding) and
   Recon/Drift_proofs.v (Flocq instance, current tables).

   Setting.  `lookupR m ts z t : res (R * R)` is DriftTables::at and `space_pointR` is
   SpacePoint::try_from(Avalanche): the generic algorithm of Recon/Drift.v (the one whose PrimFloat instance is
   compared bit for bit with the implementation on every run) instantiated with real numbers and
   rnd64 = Flocq `round radix2 (FLT_exp (-1074) 53) ZnearestE` applied after every + - * /.
   `m` is the overflow mode of the build (usize subtraction panics / wraps).
   `tables_ok fmt64 ts`: at least one slice, bounds strictly ascending; every table has >= 2 knots, all entries
   representable, times strictly ascending, radii non-increasing, corrections non-decreasing starting at 0, and
   adjacent radius / correction differences representable (implied by adjacent ratios <= 2, Sterbenz).
   `is_slice ts z s`: s is the first slice whose bound is >= |z|.
   All theorems hold for ANY such tables and all real z, t, phi (no bound); `r_tables` are the tables of the
   current source (Gen/Drift.v, regenerated from verif::drift_tables() on every run), for which table_ok is
   re-proved by computation on every run. *)
From Coq Require Import Reals Floats.
From AG Require Import Base.Prelude Base.Res Base.Bytes Recon.Drift Recon.DriftR Recon.Drift_proofs Gen.Drift.
Local Open Scope R_scope.

(* success exactly when |z| <= largest bound and t within the first and last tabulated time of the slice, inclusive *)
Theorem C18_lookup_ok_iff : forall m ts z t,
  tables_ok fmt64 ts ->
  ((exists r c, lookupR m ts z t = Ok (r, c)) <->
   Rabs z <= zmax ts /\ exists s, is_slice ts z s /\ t_first s <= t <= t_last s).
Proof. exact lookup_ok_iff_lemma. Qed.
Print Assumptions C18_lookup_ok_iff.

(* ... and otherwise the corresponding error kind *)
Theorem C18_lookup_err_z_iff : forall m ts z t,
  tables_ok fmt64 ts -> (lookupR m ts z t = Err ERR_Z <-> zmax ts < Rabs z).
Proof. exact lookup_err_z_iff_lemma. Qed.
Print Assumptions C18_lookup_err_z_iff.

Theorem C18_lookup_err_time_iff : forall m ts z t,
  tables_ok fmt64 ts ->
  (lookupR m ts z t = Err ERR_TIME <-> exists s, is_slice ts z s /\ (t < t_first s \/ t_last s < t)).
Proof. exact lookup_err_time_iff_lemma. Qed.
Print Assumptions C18_lookup_err_time_iff.

(* never a panic (index, unwrap, usize subtraction), in either overflow mode, and the two modes agree *)
Theorem C18_lookup_total : forall m ts z t, tables_ok fmt64 ts -> lookupR m ts z t <> Panic.
Proof. exact lookup_total_lemma. Qed.
Print Assumptions C18_lookup_total.

Theorem C18_lookup_no_wrap : forall ts z t,
  tables_ok fmt64 ts -> lookupR Wrapping ts z t = lookupR Checked ts z t.
Proof. exact lookup_no_wrap_lemma. Qed.
Print Assumptions C18_lookup_no_wrap.

(* rhs_index >= 1 whenever the range test passed, so `rhs_index - 1` (drift.rs:36) never underflows *)
Theorem C18_no_underflow_index : forall m tb t,
  table_ok fmt64 tb ->
  rk_time (nth 0 tb rk0) <= t <= rk_time (nth (length tb - 1) tb rk0) ->
  exists i, rhs_index_of (real_arith rnd64) m tb t = Ok i /\ (1 <= i)%N /\ (i < lenN tb)%N.
Proof. exact no_underflow_index_lemma. Qed.
Print Assumptions C18_no_underflow_index.

(* the radius lies between the smallest and the largest radius tabulated for the slice
   (lo / hi: any lower / upper bound of the tabulated radii, in particular their min / max) *)
Theorem C18_radius_in_range : forall m ts z t r c s lo hi,
  tables_ok fmt64 ts -> is_slice ts z s -> lookupR m ts z t = Ok (r, c) ->
  (forall k, In k (fst s) -> lo <= rk_radius k) -> (forall k, In k (fst s) -> rk_radius k <= hi) ->
  lo <= r <= hi.
Proof. exact radius_in_range_lemma. Qed.
Print Assumptions C18_radius_in_range.

(* the radius does not increase with drift time *)
Theorem C18_radius_monotone : forall m ts z t1 t2 r1 c1 r2 c2,
  tables_ok fmt64 ts -> t1 <= t2 ->
  lookupR m ts z t1 = Ok (r1, c1) -> lookupR m ts z t2 = Ok (r2, c2) -> r2 <= r1.
Proof. exact radius_monotone_lemma. Qed.
Print Assumptions C18_radius_monotone.

(* the tabulated radius is reproduced EXACTLY at every tabulated time (so certainly to 1e-12 m) *)
Theorem C18_radius_at_knots : forall m ts z s k,
  tables_ok fmt64 ts -> is_slice ts z s -> In k (fst s) ->
  exists c, lookupR m ts z (rk_time k) = Ok (rk_radius k, c).
Proof. exact radius_at_knots_lemma. Qed.
Print Assumptions C18_radius_at_knots.

(* identical for z and -z (any tables) *)
Theorem C18_z_symmetric : forall m ts z t, lookupR m ts (- z) t = lookupR m ts z t.
Proof. exact z_symmetric_lemma. Qed.
Print Assumptions C18_z_symmetric.

(* the Lorentz correction lies between 0 and the slice's tabulated maximum ... *)
Theorem C18_lorentz_in_range : forall m ts z t r c s hi,
  tables_ok fmt64 ts -> is_slice ts z s -> lookupR m ts z t = Ok (r, c) ->
  (forall k, In k (fst s) -> rk_corr k <= hi) -> 0 <= c <= hi.
Proof. exact lorentz_in_range_lemma. Qed.
Print Assumptions C18_lorentz_in_range.

(* ... and the space point is (looked-up radius, azimuth minus that correction, unchanged z); errors pass through *)
Theorem C18_space_point : forall m ts t phi z r p z',
  space_pointR m ts t phi z = Ok (r, p, z') <->
  exists c, lookupR m ts z t = Ok (r, c) /\ p = rnd64 (phi - c) /\ z' = z.
Proof. exact space_point_lemma. Qed.
Print Assumptions C18_space_point.

Theorem C18_space_point_err : forall m ts t phi z k,
  space_pointR m ts t phi z = Err k <-> lookupR m ts z t = Err k.
Proof. exact space_point_err_lemma. Qed.
Print Assumptions C18_space_point_err.

(* continuity: the change between two lookups is bounded by the tabulated change over any knot interval
   [time_i, time_j] containing both times — within one segment by one tabulated step, across a knot by the sum
   of the two steps.  This reduces the "0.5 mm per 8 ns" claim to a fact about the table.
   The sharper statement wanted by the property,
     |t2 - t1| <= knot spacing -> |r1 - r2| <= max (not sum) of the tabulated steps of the <= 2 segments touched
     (+ an explicit rounding term),
   is proved further down (C18_knot_straddle, C18_half_mm_straddle_8ns); this theorem remains the only bound for two
   lookups that touch three segments. *)
Theorem C18_step_bound_partial : forall m ts z s i j t1 t2 r1 c1 r2 c2,
  tables_ok fmt64 ts -> is_slice ts z s -> (i <= j)%nat -> (j < length (fst s))%nat ->
  rk_time (knot_at s i) <= t1 -> t1 <= t2 -> t2 <= rk_time (knot_at s j) ->
  lookupR m ts z t1 = Ok (r1, c1) -> lookupR m ts z t2 = Ok (r2, c2) ->
  0 <= r1 - r2 <= rk_radius (knot_at s i) - rk_radius (knot_at s j).
Proof. exact step_bound_lemma. Qed.
Print Assumptions C18_step_bound_partial.

(* the tables of the current source are well-formed (vm_compute over the 92 regenerated tables) *)
Theorem C18_table_ok_current : tables_ok fmt64 r_tables.
Proof. exact table_ok_current_lemma. Qed.
Print Assumptions C18_table_ok_current.

Theorem C18_tables_okb_current : tables_okb drift_tables = true.
Proof. exact tables_okb_current_lemma. Qed.
Print Assumptions C18_tables_okb_current.

(* on the current tables every tabulated step outside the known class F8 (`known_steps`, 135 listed
   (table, segment) pairs) is < 0.5 mm, hence so is the change between any two lookups inside such a segment
   (partial: lookups 8 ns apart that straddle a knot are only covered by C18_step_bound_partial) *)
Theorem C18_half_mm_outside_known_partial : forall m i j sd a b z t1 t2 r1 c1 r2 c2,
  nth_error d_tables i = Some sd -> nth_error (fst sd) j = Some a -> nth_error (fst sd) (S j) = Some b ->
  ~ In (N.of_nat i, N.of_nat j) known_steps ->
  is_slice r_tables z (map dknotR (fst sd), dyR (snd sd)) ->
  dyR (dk_time a) <= t1 -> t1 <= t2 -> t2 <= dyR (dk_time b) ->
  lookupR m r_tables z t1 = Ok (r1, c1) -> lookupR m r_tables z t2 = Ok (r2, c2) ->
  0 <= r1 - r2 < 5 / 10000.
Proof. exact half_mm_outside_known_lemma. Qed.
Print Assumptions C18_half_mm_outside_known_partial.

(* the computed bound that replaces 0.5 mm: every tabulated step of the current tables is < 0.66 mm, hence so is the
   change between any two lookups inside one tabulated segment (any segment, known class included) *)
Theorem C18_max_knot_step_current : forall i j sd a b,
  nth_error d_tables i = Some sd -> nth_error (fst sd) j = Some a -> nth_error (fst sd) (S j) = Some b ->
  dyR (dk_radius a) - dyR (dk_radius b) < 66 / 100000.
Proof. exact max_knot_step_current_lemma. Qed.
Print Assumptions C18_max_knot_step_current.

Theorem C18_step_lt_066_mm_partial : forall m i j sd a b z t1 t2 r1 c1 r2 c2,
  nth_error d_tables i = Some sd -> nth_error (fst sd) j = Some a -> nth_error (fst sd) (S j) = Some b ->
  is_slice r_tables z (map dknotR (fst sd), dyR (snd sd)) ->
  dyR (dk_time a) <= t1 -> t1 <= t2 -> t2 <= dyR (dk_time b) ->
  lookupR m r_tables z t1 = Ok (r1, c1) -> lookupR m r_tables z t2 = Ok (r2, c2) ->
  0 <= r1 - r2 < 66 / 100000.
Proof. exact step_lt_066_mm_lemma. Qed.
Print Assumptions C18_step_lt_066_mm_partial.

(* known finding F8 (`drift_step_ge_half_mm`): "changes by less than 0.5 mm between lookups 8 ns apart" is FALSE
   of the shipped tables: z = 0, t = knots 17 and 18 of table 0 (136 ns / 144 ns) are 8 ns apart (to 1e-20 s)
   and the radii differ by >= 0.5 mm (0.571 mm) *)
Theorem C18_lipschitz_half_mm_refuted :
  exists z t1 t2 r1 c1 r2 c2,
    lookupR Checked r_tables z t1 = Ok (r1, c1) /\ lookupR Checked r_tables z t2 = Ok (r2, c2) /\
    Rabs (t2 - t1 - 8 / 1000000000) <= 1 / 100000000000000000000 /\
    5 / 10000 <= r1 - r2.
Proof. exact lipschitz_half_mm_refuted_lemma. Qed.
Print Assumptions C18_lipschitz_half_mm_refuted.

(* non-vacuity: the hypotheses are satisfiable (C18_table_ok_current: the 92 shipped tables), the known class is
   exactly the set of tabulated steps >= 0.5 mm, and the executable PrimFloat instance of the same algorithm runs on
   the current tables with the three outcome classes *)
Example C18_known_class_exact : big_steps d_tables 5 10000 = known_steps /\ length known_steps = 135%nat.
Proof. vm_compute. split; reflexivity. Qed.
Example C18_model_runs :
  is_ok (space_point_f Checked drift_tables 0x1p-23%float 1%float 0.5%float) = true /\
  space_point_f Checked drift_tables 1%float 1%float 0.5%float = Err ERR_TIME /\
  space_point_f Wrapping drift_tables 0x1p-23%float 1%float (-2)%float = Err ERR_Z.
Proof. vm_compute. repeat split; reflexivity. Qed.

(* the executable binary64 instance (the one compared bit for bit with the implementation) returns the same
   (radius, correction), error or panic for z and -z: for ANY tables and all floats, NaN and infinities included *)
Theorem C18_z_symmetric_binary64 : forall m (ts : ptables) t z,
  tables_at prim_arith m ts (PrimFloat.opp z) t = tables_at prim_arith m ts z t.
Proof. exact z_symmetric_prim_lemma. Qed.
Print Assumptions C18_z_symmetric_binary64.

(* the F8 witness evaluated by Coq's own VM on the binary64 instance: z = 0, t = 136 ns / 144 ns give
   r = 0x3fc64d7f0ed3d85a and 0x3fc63ac929aa1d76 (0.17424 m and 0.173669 m, 0.571 mm apart) — the bit patterns the
   implementation returns for the first two lines of corpus/C18/boundary.case (so extraction, the OCaml runner and
   the kernel's float evaluation agree on these cases) *)
Example C18_F8_witness_binary64 :
  space_point_f Checked drift_tables 0x1.240eca6a943fep-23%float 0.5%float 0%float
    = Ok (0x1.64d7f0ed3d85ap-3%float, 0.5%float, 0%float) /\
  space_point_f Checked drift_tables 0x1.353cd652bb167p-23%float 0.5%float 0%float
    = Ok (0x1.63ac929aa1d76p-3%float, 0.5%float, 0%float) /\
  PrimFloat.ltb 0.0005%float (PrimFloat.sub 0x1.64d7f0ed3d85ap-3 0x1.63ac929aa1d76p-3)%float = true.
Proof. vm_compute. repeat split; reflexivity. Qed.

(* ===== continuity across a knot for lookups 8 ns apart (rounded lookup, explicit rounding term) — imported from Recon/DriftCont_pins.v ===== *)
(* C18 — continuity of the drift lookup across a knot: pinned statements (proofs: Recon/DriftCont_proofs.v).
   Setting as in Props/C18.v.  Knots (tm, rm), (tk, rk), (tp, rp) are three consecutive entries of one table;
   t1 lies in the left segment [tm, tk], t2 in the right segment [tk, tp]; h1 = tk - tm, h2 = tp - tk.
   `exact_lerp lt rt lhs rhs t` = lhs + (t - lt) / (rt - lt) * (rhs - lhs) is the interpolation without rounding. *)
From Coq Require Import Reals.
From Flocq Require Import Core.
From AG Require Import Base.Prelude Base.Res Base.Bytes Recon.Drift Recon.DriftR Recon.DriftR_proofs
  Recon.Drift_proofs Recon.DriftCont Recon.DriftCont_proofs Gen.Drift.
Local Open Scope R_scope.

(* exact interpolation: two times at most min(h1, h2) apart that straddle the knot tk differ in radius by at most
   the LARGER (not the sum) of the two tabulated steps *)
Theorem C18_knot_straddle_real : forall tm tk tp rm rk rp t1 t2,
  tm < tk -> tk < tp -> rk <= rm -> rp <= rk ->
  tm <= t1 <= tk -> tk <= t2 <= tp -> t2 - t1 <= Rmin (tk - tm) (tp - tk) ->
  0 <= exact_lerp tm tk rm rk t1 - exact_lerp tk tp rk rp t2 <= Rmax (rm - rk) (rk - rp).
Proof. exact knot_straddle_real. Qed.
Print Assumptions C18_knot_straddle_real.

(* ... for uniformly spaced knots *)
Theorem C18_knot_straddle_real_uniform : forall tm tk tp rm rk rp t1 t2 h,
  0 < h -> tk - tm = h -> tp - tk = h -> rk <= rm -> rp <= rk ->
  tm <= t1 <= tk -> tk <= t2 <= tp -> t2 - t1 <= h ->
  0 <= exact_lerp tm tk rm rk t1 - exact_lerp tk tp rk rp t2 <= Rmax (rm - rk) (rk - rp).
Proof. exact knot_straddle_real_uniform. Qed.
Print Assumptions C18_knot_straddle_real_uniform.

(* ... and scaled: t2 - t1 <= c * min(h1, h2) gives c * max step (used for "exactly 8 ns apart" on tables whose
   spacing is 8 ns only up to rounding) *)
Theorem C18_knot_straddle_real_scaled : forall tm tk tp rm rk rp t1 t2 c,
  tm < tk -> tk < tp -> rk <= rm -> rp <= rk ->
  tm <= t1 <= tk -> tk <= t2 <= tp -> t2 - t1 <= c * Rmin (tk - tm) (tp - tk) ->
  0 <= exact_lerp tm tk rm rk t1 - exact_lerp tk tp rk rp t2 <= c * Rmax (rm - rk) (rk - rp).
Proof. exact knot_straddle_real_scaled. Qed.
Print Assumptions C18_knot_straddle_real_scaled.

(* ---------- the algorithm of the implementation: lookupR = DriftTables::at over R with rnd64 after every operation ----------
   u64 = 2^-53, eta64 = 2^-1075;  straddle_eps u eta B s1 s2 = u * (2 B + 9 (s1 + s2)) + 4 eta.
   Knot k of the slice of z (1 <= k, k + 1 < number of knots); t1 in [t_(k-1), t_k], t2 in [t_k, t_(k+1)];
   all radii of the slice within [0, B]; knot spacing not absurdly small (eta64 <= u64 * min(h1, h2), i.e.
   min(h1, h2) >= 2^-1022).  Then for lookups at most min(h1, h2) apart the radius changes by at most the LARGER of
   the two tabulated steps plus the rounding term. *)
Theorem C18_knot_straddle : forall m ts z s k t1 t2 r1 c1 r2 c2 B,
  tables_ok fmt64 ts -> is_slice ts z s -> (1 <= k)%nat -> (S k < length (fst s))%nat ->
  (forall kn, In kn (fst s) -> 0 <= rk_radius kn <= B) ->
  rk_time (knot_at s (k - 1)) <= t1 <= rk_time (knot_at s k) ->
  rk_time (knot_at s k) <= t2 <= rk_time (knot_at s (S k)) ->
  t2 - t1 <= Rmin (rk_time (knot_at s k) - rk_time (knot_at s (k - 1)))
                  (rk_time (knot_at s (S k)) - rk_time (knot_at s k)) ->
  eta64 <= u64 * Rmin (rk_time (knot_at s k) - rk_time (knot_at s (k - 1)))
                      (rk_time (knot_at s (S k)) - rk_time (knot_at s k)) ->
  lookupR m ts z t1 = Ok (r1, c1) -> lookupR m ts z t2 = Ok (r2, c2) ->
  0 <= r1 - r2 <=
    Rmax (rk_radius (knot_at s (k - 1)) - rk_radius (knot_at s k))
         (rk_radius (knot_at s k) - rk_radius (knot_at s (S k)))
    + straddle_eps u64 eta64 B (rk_radius (knot_at s (k - 1)) - rk_radius (knot_at s k))
                               (rk_radius (knot_at s k) - rk_radius (knot_at s (S k))).
Proof. exact knot_straddle_lemma. Qed.
Print Assumptions C18_knot_straddle.

(* ... scaled: t2 - t1 <= c * min(h1, h2) gives c * max step + the same rounding term *)
Theorem C18_knot_straddle_scaled : forall m ts z s k t1 t2 r1 c1 r2 c2 B c,
  tables_ok fmt64 ts -> is_slice ts z s -> (1 <= k)%nat -> (S k < length (fst s))%nat ->
  (forall kn, In kn (fst s) -> 0 <= rk_radius kn <= B) ->
  rk_time (knot_at s (k - 1)) <= t1 <= rk_time (knot_at s k) ->
  rk_time (knot_at s k) <= t2 <= rk_time (knot_at s (S k)) ->
  t2 - t1 <= c * Rmin (rk_time (knot_at s k) - rk_time (knot_at s (k - 1)))
                      (rk_time (knot_at s (S k)) - rk_time (knot_at s k)) ->
  eta64 <= u64 * Rmin (rk_time (knot_at s k) - rk_time (knot_at s (k - 1)))
                      (rk_time (knot_at s (S k)) - rk_time (knot_at s k)) ->
  lookupR m ts z t1 = Ok (r1, c1) -> lookupR m ts z t2 = Ok (r2, c2) ->
  0 <= r1 - r2 <=
    c * Rmax (rk_radius (knot_at s (k - 1)) - rk_radius (knot_at s k))
             (rk_radius (knot_at s k) - rk_radius (knot_at s (S k)))
    + straddle_eps u64 eta64 B (rk_radius (knot_at s (k - 1)) - rk_radius (knot_at s k))
                               (rk_radius (knot_at s k) - rk_radius (knot_at s (S k))).
Proof. exact knot_straddle_scaled_lemma. Qed.
Print Assumptions C18_knot_straddle_scaled.

(* the error model used: binary64 round-to-nearest-even with gradual underflow (Flocq error_N_FLT) *)
Theorem C18_rnd64_err : forall x, Rabs (rnd64 x - x) <= u64 * Rabs x + eta64.
Proof. exact rnd64_err. Qed.
Print Assumptions C18_rnd64_err.

(* one lookup against the exact interpolation of its segment, for any rounding satisfying the laws of
   Section Rounded and the error model with 0 <= eta <= u <= 1/8 (instantiated above with rnd64, u64, eta64):
   |computed - exact| <= lerp_eps u eta B step = u * (B + 9 step) + 2 eta *)
Theorem C18_table_at_exact_err : forall (rnd : R -> R) (fmt : R -> Prop),
  (forall x y, x <= y -> rnd x <= rnd y) -> (forall x, fmt x -> rnd x = x) -> (forall x, fmt (rnd x)) ->
  fmt 0 -> fmt 1 -> (forall x y, fmt x -> fmt y -> x < y -> 0 < rnd (y - x)) ->
  forall u eta, 0 <= u <= / 8 -> 0 <= eta <= u -> (forall x, Rabs (rnd x - x) <= u * Rabs x + eta) ->
  forall m tb j t r c B,
  table_ok fmt tb -> (1 <= j)%nat -> (j < length tb)%nat ->
  rk_time (nth (j - 1) tb rk0) <= t <= rk_time (nth j tb rk0) ->
  0 <= rk_radius (nth j tb rk0) -> rk_radius (nth (j - 1) tb rk0) <= B ->
  eta <= u * (rk_time (nth j tb rk0) - rk_time (nth (j - 1) tb rk0)) ->
  table_at (real_arith rnd) m tb t = Ok (r, c) ->
  Rabs (r - exact_lerp (rk_time (nth (j - 1) tb rk0)) (rk_time (nth j tb rk0))
                       (rk_radius (nth (j - 1) tb rk0)) (rk_radius (nth j tb rk0)) t)
  <= lerp_eps u eta B (rk_radius (nth (j - 1) tb rk0) - rk_radius (nth j tb rk0)).
Proof. exact table_at_exact_err. Qed.
Print Assumptions C18_table_at_exact_err.

(* ---------- the tables of the current source (facts by vm_compute, re-proved on every build) ---------- *)
(* knot spacing: every two adjacent tabulated times are 8 ns apart to within 1e-21 s.  The spacing is NOT exactly
   uniform: the times are the binary64 roundings of j * 8e-9 (observed: 8e-9 - 2.5e-22 .. 8e-9 + 6.1e-22). *)
Theorem C18_spacings_okb_current : spacings_okb d_tables = true.
Proof. exact spacings_okb_current. Qed.
Print Assumptions C18_spacings_okb_current.

Theorem C18_spacing_current : forall i j sd a b,
  nth_error d_tables i = Some sd -> nth_error (fst sd) j = Some a -> nth_error (fst sd) (S j) = Some b ->
  7999999999999 / 1000000000000000000000 <= dyR (dk_time b) - dyR (dk_time a)
    <= 8000000000001 / 1000000000000000000000.
Proof. exact spacing_current_lemma. Qed.
Print Assumptions C18_spacing_current.

(* every tabulated radius lies in [0, 1/4] m *)
Theorem C18_radius_current : forall i sd a,
  nth_error d_tables i = Some sd -> In a (fst sd) -> 0 <= dyR (dk_radius a) <= 1 / 4.
Proof. exact radius_current_lemma. Qed.
Print Assumptions C18_radius_current.

(* the rounding term on the current tables is below 6e-17 m *)
Theorem C18_straddle_eps_current : forall s1 s2,
  0 <= s1 < 66 / 100000 -> 0 <= s2 < 66 / 100000 ->
  straddle_eps u64 eta64 (1 / 4) s1 s2 <= 6 / 100000000000000000.
Proof. exact straddle_eps_current. Qed.
Print Assumptions C18_straddle_eps_current.

(* adjacent segments j, j+1 of table i (knots a, b, c): t2 - t1 <= cc * min(h1, h2) gives cc * max step + 6e-17 m *)
Theorem C18_straddle_current_scaled : forall m i j sd a b c z t1 t2 r1 c1 r2 c2 cc,
  nth_error d_tables i = Some sd ->
  nth_error (fst sd) j = Some a -> nth_error (fst sd) (S j) = Some b -> nth_error (fst sd) (S (S j)) = Some c ->
  is_slice r_tables z (map dknotR (fst sd), dyR (snd sd)) ->
  dyR (dk_time a) <= t1 <= dyR (dk_time b) -> dyR (dk_time b) <= t2 <= dyR (dk_time c) ->
  t2 - t1 <= cc * Rmin (dyR (dk_time b) - dyR (dk_time a)) (dyR (dk_time c) - dyR (dk_time b)) ->
  lookupR m r_tables z t1 = Ok (r1, c1) -> lookupR m r_tables z t2 = Ok (r2, c2) ->
  0 <= dyR (dk_radius a) - dyR (dk_radius b) /\ 0 <= dyR (dk_radius b) - dyR (dk_radius c) /\
  0 <= r1 - r2 <=
    cc * Rmax (dyR (dk_radius a) - dyR (dk_radius b)) (dyR (dk_radius b) - dyR (dk_radius c))
    + 6 / 100000000000000000.
Proof. exact straddle_current_scaled_lemma. Qed.
Print Assumptions C18_straddle_current_scaled.

(* lookups that straddle a knot, at most min(h1, h2) apart, neither touched segment in the known class F8:
   the radius changes by less than 0.5 mm + 1e-15 m (complements C18_half_mm_outside_known_partial, which covers
   two lookups inside ONE segment) *)
Theorem C18_half_mm_straddle : forall m i j sd a b c z t1 t2 r1 c1 r2 c2,
  nth_error d_tables i = Some sd ->
  nth_error (fst sd) j = Some a -> nth_error (fst sd) (S j) = Some b -> nth_error (fst sd) (S (S j)) = Some c ->
  ~ In (N.of_nat i, N.of_nat j) known_steps -> ~ In (N.of_nat i, N.of_nat (S j)) known_steps ->
  is_slice r_tables z (map dknotR (fst sd), dyR (snd sd)) ->
  dyR (dk_time a) <= t1 <= dyR (dk_time b) -> dyR (dk_time b) <= t2 <= dyR (dk_time c) ->
  t2 - t1 <= Rmin (dyR (dk_time b) - dyR (dk_time a)) (dyR (dk_time c) - dyR (dk_time b)) ->
  lookupR m r_tables z t1 = Ok (r1, c1) -> lookupR m r_tables z t2 = Ok (r2, c2) ->
  0 <= r1 - r2 < 5 / 10000 + 1 / 1000000000000000.
Proof. exact half_mm_straddle_lemma. Qed.
Print Assumptions C18_half_mm_straddle.

(* ... the same for lookups at most 8 ns apart (8e-9 may exceed min(h1, h2) by up to 1e-21 s; the scaled bound
   absorbs it: 8e-9 / (8e-9 - 1e-21) * 0.5 mm < 0.5 mm + 7e-17 m) *)
Theorem C18_half_mm_straddle_8ns : forall m i j sd a b c z t1 t2 r1 c1 r2 c2,
  nth_error d_tables i = Some sd ->
  nth_error (fst sd) j = Some a -> nth_error (fst sd) (S j) = Some b -> nth_error (fst sd) (S (S j)) = Some c ->
  ~ In (N.of_nat i, N.of_nat j) known_steps -> ~ In (N.of_nat i, N.of_nat (S j)) known_steps ->
  is_slice r_tables z (map dknotR (fst sd), dyR (snd sd)) ->
  dyR (dk_time a) <= t1 <= dyR (dk_time b) -> dyR (dk_time b) <= t2 <= dyR (dk_time c) ->
  t2 - t1 <= 8 / 1000000000 ->
  lookupR m r_tables z t1 = Ok (r1, c1) -> lookupR m r_tables z t2 = Ok (r2, c2) ->
  0 <= r1 - r2 < 5 / 10000 + 1 / 1000000000000000.
Proof. exact half_mm_straddle_8ns_lemma. Qed.
Print Assumptions C18_half_mm_straddle_8ns.

(* ... and for EVERY pair of adjacent segments (known class included): less than 0.66 mm + 1e-15 m *)
Theorem C18_straddle_lt_066_mm_8ns : forall m i j sd a b c z t1 t2 r1 c1 r2 c2,
  nth_error d_tables i = Some sd ->
  nth_error (fst sd) j = Some a -> nth_error (fst sd) (S j) = Some b -> nth_error (fst sd) (S (S j)) = Some c ->
  is_slice r_tables z (map dknotR (fst sd), dyR (snd sd)) ->
  dyR (dk_time a) <= t1 <= dyR (dk_time b) -> dyR (dk_time b) <= t2 <= dyR (dk_time c) ->
  t2 - t1 <= 8 / 1000000000 ->
  lookupR m r_tables z t1 = Ok (r1, c1) -> lookupR m r_tables z t2 = Ok (r2, c2) ->
  0 <= r1 - r2 < 66 / 100000 + 1 / 1000000000000000.
Proof. exact straddle_lt_066_mm_8ns_lemma. Qed.
Print Assumptions C18_straddle_lt_066_mm_8ns.

