(* C18 — drift-time lookup is bounded, monotone, continuous and symmetric.
   This file only pins statements; proofs live in Recon/Drift_proofs.v. *)
From Coq Require Import Floats.
From AG Require Import Base.Prelude Base.Res Base.Bytes Recon.Drift Recon.Drift_proofs Gen.Drift.

Theorem C18_tables_okb_current : tables_okb drift_tables = true.
Proof. exact tables_okb_current_lemma. Qed.
Print Assumptions C18_tables_okb_current.
