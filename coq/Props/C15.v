(* C15 -- clustering and vertexing conserve inputs and honour size and distance rules.
   This file only pins statements; proofs live in Recon/Cluster_proofs.v, Recon/Vertex_proofs.v. *)
From AG Require Import Base.Prelude Base.Res Recon.Vec Recon.Cluster.
