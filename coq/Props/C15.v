(* C15 -- clustering and vertexing conserve inputs and honour size and distance rules.
   This file only pins statements; proofs live in Recon/Cluster_proofs.v, Recon/Vertex_proofs.v.

   Clustering: `bins p` is the value of get_bins(p) and `near p q` is distance(p, q) <= max_distance; the
   theorems hold for ANY such functions with pairwise distinct bins per point (get_bins pushes every
   (theta_bin, rho_bin) at most once; the harness checks it on every case), any input list with any
   number of duplicates, any minimum size >= 1 and any fuel > length of the input.  The public wrapper
   (cluster_spacepoints_pub) uses 13 and fuel = length + 1. *)
From Coq Require Import Permutation.
From AG Require Import Base.Prelude Base.Res Recon.Vec Recon.Cluster Recon.Cluster_proofs Recon.Vertex Recon.Vertex_proofs.
Local Open Scope nat_scope.

(* every unwrap of remove_unchecked / of the remainder loop succeeds and every loop ends within the
   stated fuel: the function returns normally *)
Theorem C15_cluster_total :
  forall (bins : point -> list bin) (near : point -> point -> bool),
  (forall p, NoDup (bins p)) ->
  forall sp fuel min_points, 1 <= min_points -> length sp < fuel ->
  exists clusters rem, cluster_spacepoints bins near fuel min_points sp = Ok (clusters, rem).
Proof. exact cluster_total_lemma. Qed.
Print Assumptions C15_cluster_total.

(* multiset conservation, duplicates included: clusters and remainder together are the input *)
Theorem C15_cluster_partition :
  forall (bins : point -> list bin) (near : point -> point -> bool),
  (forall p, NoDup (bins p)) ->
  forall sp fuel min_points clusters rem, 1 <= min_points -> length sp < fuel ->
  cluster_spacepoints bins near fuel min_points sp = Ok (clusters, rem) ->
  Permutation (concat clusters ++ rem) sp.
Proof. exact cluster_partition_lemma. Qed.
Print Assumptions C15_cluster_partition.

Theorem C15_cluster_min_size :
  forall (bins : point -> list bin) (near : point -> point -> bool),
  (forall p, NoDup (bins p)) ->
  forall sp fuel min_points clusters rem, 1 <= min_points -> length sp < fuel ->
  cluster_spacepoints bins near fuel min_points sp = Ok (clusters, rem) ->
  forall c, In c clusters -> min_points <= length c.
Proof. exact cluster_min_size_lemma. Qed.
Print Assumptions C15_cluster_min_size.

(* single linkage: any two points of a cluster are joined by a chain of cluster points in which
   consecutive points are within max_distance (in one direction or the other; no symmetry of `near`
   is assumed) *)
Theorem C15_cluster_connected :
  forall (bins : point -> list bin) (near : point -> point -> bool),
  (forall p, NoDup (bins p)) ->
  forall sp fuel min_points clusters rem, 1 <= min_points -> length sp < fuel ->
  cluster_spacepoints bins near fuel min_points sp = Ok (clusters, rem) ->
  forall c, In c clusters -> connected near c.
Proof. exact cluster_connected_lemma. Qed.
Print Assumptions C15_cluster_connected.

(* the core invariant (Acc_inv, Recon/Cluster.v): every bin of the accumulator holds exactly the live points
   that vote for it, with multiplicity; `add` and `remove_unchecked` maintain it, and under it
   remove_unchecked of a live point never panics *)
Theorem C15_acc_add_invariant :
  forall (bins : point -> list bin), (forall p, NoDup (bins p)) ->
  forall live a p, Acc_inv bins live a -> Acc_inv bins (live ++ [p]) (acc_add bins a p).
Proof. exact add_inv. Qed.
Print Assumptions C15_acc_add_invariant.

Theorem C15_acc_remove_invariant :
  forall (bins : point -> list bin), (forall p, NoDup (bins p)) ->
  forall live a p, Acc_inv bins (p :: live) a ->
  exists a', acc_remove bins a p = Ok a' /\ Acc_inv bins live a'.
Proof. exact remove_inv. Qed.
Print Assumptions C15_acc_remove_invariant.

(* the inner `while j < points.len()` loop is executed by the model on a zipper; it is, outcome for outcome and
   with the same fuel, the index loop with swap_remove(j) transcribed from track_finding.rs:198-204 *)
Theorem C15_flood_zipper_is_index_loop :
  forall (near : point -> point -> bool) fuel ci cluster pre_rev suf,
  flood_jz near fuel ci cluster pre_rev suf
  = flood_j_idx near fuel ci cluster (rev pre_rev ++ suf) (length pre_rev).
Proof. exact flood_jz_index. Qed.
Print Assumptions C15_flood_zipper_is_index_loop.

(* the public wrapper: 13 points, fuel length + 1 *)
Theorem C15_cluster_pub :
  forall (bins : point -> list bin) (near : point -> point -> bool),
  (forall p, NoDup (bins p)) ->
  forall sp, exists clusters rem,
    cluster_spacepoints_pub bins near sp = Ok (clusters, rem) /\
    Permutation (concat clusters ++ rem) sp /\
    forall c, In c clusters -> 13 <= length c /\ connected near c.
Proof. exact cluster_pub_lemma. Qed.
Print Assumptions C15_cluster_pub.

(* non-vacuity: concrete tables with distinct bins; shared bins, duplicates, two clusters and a remainder *)
Definition ex_bins (p : point) : list bin :=
  match p with 0%N => [1; 2] | 1%N => [2; 3] | 2%N => [2; 5] | 7%N => [9; 2] | 8%N => [9] | _ => [7] end%positive.
Definition ex_near (p q : point) : bool := (N.max p q - N.min p q <=? 1)%N.
Example C15_nonvacuous :
  cluster_spacepoints ex_bins ex_near 12 2 [0; 1; 2; 5; 1; 0; 7; 8; 8; 20; 7]%N
  = Ok ([[0; 0; 1; 1; 2]; [7; 7; 8; 8]]%N, [20; 5]%N)
  /\ (forall p, In p [0; 1; 2; 5; 7; 8; 20]%N -> NoDup (ex_bins p)).
Proof.
  split; [vm_compute; reflexivity|].
  intros p Hp. cbn in Hp.
  repeat (destruct Hp as [<-|Hp]; [cbn; repeat constructor; cbn; intuition discriminate|]). destruct Hp.
Qed.
Example C15_nonvacuous_pub :
  cluster_spacepoints_pub (fun _ => [1; 2]%positive) (fun _ _ => true) (repeat 3%N 14 ++ [4%N])
  = Ok ([4%N :: repeat 3%N 14], []).
Proof. vm_compute. reflexivity. Qed.

(* ---- vertexing (vertex_fitting.rs): the filters, the z and radius comparisons, the unstable sort and the
   Nelder-Mead fit are arbitrary functions; of the sort only "returns a rearrangement or panics" is assumed ---- *)

(* the tracks of the primary vertex and the remainder together are the input tracks (as multisets) *)
Theorem C15_vertex_partition :
  forall (long_enough close_beam : track -> bool) (sortF : list track -> res (list track))
         (zclose : track -> track -> bool) (cmp_r : list track -> list track -> res comparison)
         (fit : list track -> res unit),
  (forall l l', sortF l = Ok l' -> Permutation l' l) ->
  forall tracks v rem,
  find_vertices long_enough close_beam sortF zclose cmp_r fit tracks = Ok (v, rem) ->
  Permutation (unwrap_or_nil v ++ rem) tracks.
Proof. exact vertex_partition_lemma. Qed.
Print Assumptions C15_vertex_partition.

(* a primary vertex is reported only with at least two tracks *)
Theorem C15_primary_two_tracks :
  forall (long_enough close_beam : track -> bool) (sortF : list track -> res (list track))
         (zclose : track -> track -> bool) (cmp_r : list track -> list track -> res comparison)
         (fit : list track -> res unit),
  forall tracks c rem,
  find_vertices long_enough close_beam sortF zclose cmp_r fit tracks = Ok (Some c, rem) ->
  2 <= length c.
Proof. exact primary_two_tracks_lemma. Qed.
Print Assumptions C15_primary_two_tracks.

(* non-vacuity: a sort that is a rearrangement (here: reversal); z-close when ids differ by at most 1; two
   clusters of two tracks tie in size and in summed radius, the later one wins (max_by keeps the last) *)
Example C15_vertex_nonvacuous :
  find_vertices (fun t => negb (t =? 9)%N) (fun t => negb (t =? 8)%N) (fun l => Ok (rev l))
                (fun a b => (N.max a b - N.min a b <=? 1)%N) (fun _ _ => Ok Eq) (fun _ => Ok tt)
                [1; 9; 2; 8; 6; 5]%N
  = Ok (Some [2; 1]%N, [6; 9; 5; 8]%N).
Proof. vm_compute. reflexivity. Qed.

(* ===== get_bins: the NoDup hypothesis of the clustering theorems proved from the structure of the loop — imported from Recon/Bins_pins.v ===== *)
(* C15 -- the hypothesis `forall p, NoDup (bins p)` of the C15_cluster_* theorems, discharged from the
   STRUCTURE of HoughSpaceAccumulator::get_bins (track_finding.rs:119-151).  This file only pins statements;
   model: Recon/Bins.v, proofs: Recon/Bins_proofs.v.

   `rho_bin : N -> Z` is the abstract float part: rho_bin 0 is prev_rho_bin before the loop (:130), rho_bin k
   (1 <= k <= theta_bins) the `rho_bin` of iteration theta_bin = k (:135).  The theorems hold for EVERY such
   sequence and every theta_bins (the trigonometry, the rounding, the saturating `as i32` play no role).
   The model is tied to the implementation by the `c15bins` lines of the differential run (harness/phys/src/
   c15.rs: the real get_bins through verif_hough_bins vs the extracted get_bins_res on the logged sequence). *)
From Coq Require Import Permutation.
From AG Require Import Base.Prelude Base.Res Recon.Vec Recon.Cluster Recon.Cluster_proofs
  Recon.Bins Recon.Bins_proofs.

(* get_bins returns normally: `theta_bin - 1` does not underflow and `bin.try_into().unwrap()` (i32 -> u32) is
   only reached with bin >= 0, because the range starts at min_bin.max(0) *)
Theorem C15_get_bins_total :
  forall (theta_bins : N) (rho_bin : N -> Z),
  get_bins_res rho_bin theta_bins = Ok (get_bins_model theta_bins rho_bin).
Proof. exact get_bins_total_lemma. Qed.
Print Assumptions C15_get_bins_total.

(* no (theta, rho) pair is pushed twice: different iterations push different theta indices, one iteration
   pushes a strictly increasing range of rho *)
Theorem C15_get_bins_nodup :
  forall (theta_bins : N) (rho_bin : N -> Z), NoDup (get_bins_model theta_bins rho_bin).
Proof. exact get_bins_nodup_lemma. Qed.
Print Assumptions C15_get_bins_nodup.

Theorem C15_get_bins_theta_range :
  forall (theta_bins : N) (rho_bin : N -> Z) (t r : N),
  In (t, r) (get_bins_model theta_bins rho_bin) -> t < theta_bins.
Proof. exact get_bins_theta_range_lemma. Qed.
Print Assumptions C15_get_bins_theta_range.

(* exactly which bins are voted for: theta index t < theta_bins, at least one of the two edge values
   rho_bin t, rho_bin (t+1) non-negative, and rho between them *)
Theorem C15_get_bins_membership :
  forall (theta_bins : N) (rho_bin : N -> Z) (t r : N),
  In (t, r) (get_bins_model theta_bins rho_bin) <->
  t < theta_bins /\ (0 <= rho_bin t \/ 0 <= rho_bin (t + 1)%N)%Z /\
  (Z.min (rho_bin t) (rho_bin (t + 1)%N) <= Z.of_N r <= Z.max (rho_bin t) (rho_bin (t + 1)%N))%Z.
Proof. exact get_bins_in_iff_lemma. Qed.
Print Assumptions C15_get_bins_membership.

(* the same for the `positive` bin names of Recon/Cluster.v: (theta, rho) |-> 1 + rho * theta_bins + theta *)
Theorem C15_bins_of_nodup :
  forall (theta_bins : N) (rho_bin : N -> Z), NoDup (bins_of theta_bins rho_bin).
Proof. exact bins_of_nodup_lemma. Qed.
Print Assumptions C15_bins_of_nodup.

(* ---- how the C15 clustering theorems specialise: `bins` := the modelled get_bins with 230 theta bins
   (reconstruction.rs:63-78) over an arbitrary rho_bin sequence per point; no hypothesis on bins is left ---- *)
Theorem C15_cluster_pub_bins :
  forall (rho : point -> N -> Z) (near : point -> point -> bool) (sp : list point),
  exists clusters rem,
    cluster_spacepoints_pub (fun p => bins_of 230 (rho p)) near sp = Ok (clusters, rem) /\
    Permutation (concat clusters ++ rem) sp /\
    forall c, In c clusters -> (13 <= length c)%nat /\ connected near c.
Proof. intros rho near sp. apply cluster_pub_lemma. intros p. apply bins_of_nodup_lemma. Qed.
Print Assumptions C15_cluster_pub_bins.

Theorem C15_cluster_total_bins :
  forall (theta_bins : N) (rho : point -> N -> Z) (near : point -> point -> bool),
  forall sp fuel min_points, (1 <= min_points)%nat -> (length sp < fuel)%nat ->
  exists clusters rem,
    cluster_spacepoints (fun p => bins_of theta_bins (rho p)) near fuel min_points sp = Ok (clusters, rem).
Proof. intros n rho near. apply cluster_total_lemma. intros p. apply bins_of_nodup_lemma. Qed.
Print Assumptions C15_cluster_total_bins.

(* non-vacuity: a sequence that goes negative and comes back (the skipped iterations, the clamp at 0, a
   descending and an ascending range) *)
Example C15_get_bins_example :
  get_bins_res (fun k => nth (N.to_nat k) [2; 0; -3; -1; 1; 4; 4]%Z 0%Z) 6
  = Ok [(0, 0); (0, 1); (0, 2); (1, 0); (3, 0); (3, 1); (4, 1); (4, 2); (4, 3); (4, 4); (5, 4)].
Proof. vm_compute. reflexivity. Qed.

