(* C09 - every main event yields a result: the assembly never panics.
   This file only pins statements; proofs live in Event/Event_proofs.v, Event/EventThm_proofs.v.

   Scope: MainEvent::try_from_banks.  The panic sites of the function are model primitives:
   board_id().unwrap_or (cannot panic), wire_signals[i] (i < 256 by the range of the wire map),
   pad_seen[c][r] / pad_signals[c][r] (c < 32, r < 576), waveform_at(..).unwrap() (a sent channel
   always has a waveform), and the i32 subtraction that replaced the i16 checked_sub().unwrap()
   (finding F2: i16 - i16 always fits i32).  timestamp() is a field read.  avalanches() and
   vertex() are covered by C13/C14/C17; for C09 the harness runs the panic search on the real code
   (`tot09` cases) and the model predicts `never panic` for every case. *)
From AG Require Import Base.Prelude Base.Res Event.Event Event.EventSpec Event.Event_proofs
  Event.EventThm_proofs Event.EventExample.

Theorem C09_build_total : forall (F : Type) (fcal : Z -> F -> F) (e : env F) (m : ovf)
    (order : list (list chunkv) -> list (list chunkv)) (banks : list bank),
  env_typed e -> banks_typed banks -> build fcal e m order banks <> Panic.
Proof. exact build_total_lemma. Qed.
Print Assumptions C09_build_total.

(* a build with overflow checks and one without behave identically *)
Theorem C09_build_no_wrap : forall (F : Type) (fcal : Z -> F -> F) (e : env F)
    (order : list (list chunkv) -> list (list chunkv)) (banks : list bank),
  env_typed e -> banks_typed banks ->
  build fcal e Checked order banks = build fcal e Wrapping order banks.
Proof. exact build_no_wrap_lemma. Qed.
Print Assumptions C09_build_no_wrap.

(* the widened subtraction itself: extreme samples against an extreme baseline *)
Theorem C09_sample_subtraction_fits : forall (m : ovf) (v bl : Z), i16 v -> i16 bl -> sub_i32 m v bl = Ok (v - bl)%Z.
Proof. exact (sub_i32_ok unit (fun _ x => x)). Qed.
Print Assumptions C09_sample_subtraction_fits.

(* non-vacuity and sharpness: the typed hypotheses are satisfiable, and the model does panic when
   they are violated (an i16-impossible sample in checked mode, a wire index outside the array) *)
Example C09_hypotheses_satisfiable : env_typed ex_env /\ banks_typed ex_banks.
Proof. exact (conj ex_env_typed ex_banks_typed). Qed.
Example C09_model_can_panic_outside_types :
  build ex_fcal ex_env Checked (fun l => l)
    [BWire 1 2 (DOk {| a_board := None; a_chan := A32 2; a_wf := [0; 0; 4294967296]%Z |})] = Panic.
Proof. vm_compute. reflexivity. Qed.
