(* C09 - every main event yields a result: the assembly never panics.
   This file only pins statements; proofs live in Event/Event_proofs.v, Event/EventThm_proofs.v.

   Scope: MainEvent::try_from_banks.  The panic sites of the function are model primitives:
   board_id().unwrap_or (cannot panic), wire_signals[i] (i < 256 by the range of the wire map),
   pad_seen[c][r] / pad_signals[c][r] (c < 32, r < 576), waveform_at(..).unwrap() (a sent channel
   always has a waveform), and the i32 subtraction that replaced the i16 checked_sub().unwrap()
   (finding F2: i16 - i16 always fits i32).  timestamp() is a field read.  avalanches() and
   vertex() are covered by C13/C14/C17; for C09 the harness runs the panic search on the real code
   (`tot09` cases) and the model predicts `never panic` for every case. *)
From AG Require Import Base.Prelude Base.Res Event.Event Event.EventSpec Event.Event_proofs
  Event.EventThm_proofs Event.EventExample.

Theorem C09_build_total : forall (F : Type) (fcal : Z -> F -> F) (e : env F) (m : ovf)
    (order : list (list chunkv) -> list (list chunkv)) (banks : list bank),
  env_typed e -> banks_typed banks -> build fcal e m order banks <> Panic.
Proof. exact build_total_lemma. Qed.
Print Assumptions C09_build_total.

(* a build with overflow checks and one without behave identically *)
Theorem C09_build_no_wrap : forall (F : Type) (fcal : Z -> F -> F) (e : env F)
    (order : list (list chunkv) -> list (list chunkv)) (banks : list bank),
  env_typed e -> banks_typed banks ->
  build fcal e Checked order banks = build fcal e Wrapping order banks.
Proof. exact build_no_wrap_lemma. Qed.
Print Assumptions C09_build_no_wrap.

(* the widened subtraction itself: extreme samples against an extreme baseline *)
Theorem C09_sample_subtraction_fits : forall (m : ovf) (v bl : Z), i16 v -> i16 bl -> sub_i32 m v bl = Ok (v - bl)%Z.
Proof. exact (sub_i32_ok unit (fun _ x => x)). Qed.
Print Assumptions C09_sample_subtraction_fits.

(* non-vacuity and sharpness: the typed hypotheses are satisfiable, and the model does panic when
   they are violated (an i16-impossible sample in checked mode, a wire index outside the array) *)
Example C09_hypotheses_satisfiable : env_typed ex_env /\ banks_typed ex_banks.
Proof. exact (conj ex_env_typed ex_banks_typed). Qed.
Example C09_model_can_panic_outside_types :
  build ex_fcal ex_env Checked (fun l => l)
    [BWire 1 2 (DOk {| a_board := None; a_chan := A32 2; a_wf := [0; 0; 4294967296]%Z |})] = Panic.
Proof. vm_compute. reflexivity. Qed.

(* ===== avalanches() / vertex(): pins imported from Signal/AvalTotal_pins.v ===== *)
From Coq Require Import Floats.
From Coq Require Import Permutation.
From AG Require Import Base.Prelude Base.Res Signal.Ring Signal.Ring_proofs Signal.Avalanches Signal.Greedy
  Signal.AvalTotal Signal.AvalTotal_proofs.
From AG Require Recon.Cluster Recon.Fit.

(* (1) contiguous_ranges: the scan stays inside the 256 slots, the two loops terminate within the stated fuel,
   and the merge of the first and last block never pops or swap_removes an empty vector - for EVERY occupancy
   of the 256 slots (no "not the full ring" premise).  The result is the pure function of C13. *)
Theorem C09_contiguous_ranges_total : forall (sig : Type) (ws : list (option sig)),
  N.of_nat (length ws) = NW ->
  contiguous_ranges_res ws = Ok (contiguous_ranges ws) /\ contiguous_ranges_res ws <> Panic.
Proof. exact contiguous_ranges_total_lemma. Qed.
Print Assumptions C09_contiguous_ranges_total.

(* the merge step alone, for ANY vector of ranges (lines 59-68): `pop().unwrap()` and `swap_remove(0)` are only
   reached behind `len() > 1` *)
Theorem C09_merge_seam_total : forall ranges : list (N * N), merge_seam_res ranges = Ok (merge_seam ranges).
Proof. exact merge_seam_total_lemma. Qed.
Print Assumptions C09_merge_seam_total.

(* (2) on a block returned by contiguous_ranges: it has at least one wire (`.max().unwrap()`), every wire of it
   is inside the array and present (`wire_signals[i].as_ref().unwrap()`, `.nth(j).unwrap()`), and
   `256 - first + last` does not underflow *)
Theorem C09_wire_block_total : forall (sig : Type) (slen : sig -> nat) (ws : list (option sig)) (r : N * N),
  N.of_nat (length ws) = NW -> In r (contiguous_ranges ws) ->
  range_to_indices r <> [] /\
  length (block_sigs ws r) = length (range_to_indices r) /\
  problem_dimensions_res slen ws r = Ok (max_slen slen (block_sigs ws r), range_to_len r) /\
  y_matrix_res slen ws r = Ok (max_slen slen (block_sigs ws r), block_sigs ws r).
Proof. exact wire_block_total_lemma. Qed.
Print Assumptions C09_wire_block_total.

(* wire_range_deconvolution on such a block: with the shape law of the solve, every y.read(row, column) is in
   bounds; the result pairs each wire of the block with its deconvolved column *)
Theorem C09_wire_range_deconvolution_total :
  forall (sig amp : Type) (azero : amp) (slen : sig -> nat) (solve : nat -> list sig -> list (list amp))
         (wdec : list amp -> res (list amp)) (ws : list (option sig)) (r : N * N),
  faer_shape solve -> kernel_total wdec ->
  N.of_nat (length ws) = NW -> In r (contiguous_ranges ws) ->
  wire_range_deconvolution_res slen solve wdec ws r
  = Ok (combine (range_to_indices r) (D_of slen solve wdec (block_sigs ws r))).
Proof. exact wire_range_deconvolution_total_lemma. Qed.
Print Assumptions C09_wire_range_deconvolution_total.

(* (3) imported from C17: for ALL binary64 waveforms (whatever the cross-talk solve returned) the deconvolved
   vector is empty or has one entry per sample; every entry is finite, has a clear sign bit, is not a NaN *)
Theorem C09_ls_deconv_no_nan : forall (signal response : list float) (offs las : list nat) (out : list float),
  ls_deconv_f signal response offs las = Ok out ->
  (out = [] \/ length out = length signal) /\
  Forall (fun x => f_fin x /\ f_ge0 x /\ f64_num x) out.
Proof. exact ls_deconv_no_nan_lemma. Qed.
Print Assumptions C09_ls_deconv_no_nan.

(* ... and it does return (no panic at the slicing, the assert, the reduce().unwrap() or input[i]) when the
   response windows of the grid exist and are negative *)
Theorem C09_ls_deconv_returns : forall (response : list float) (offs las : list nat),
  response_windows_ok response offs las ->
  forall signal, exists out, ls_deconv_f signal response offs las = Ok out.
Proof. exact ls_deconv_f_total. Qed.
Print Assumptions C09_ls_deconv_returns.

(* the hypothesis response_windows_ok in the form the harness measures it on the implementation's tables
   (rel17table): the first 13 bins of the wire response, bins 3..17 of the pad response, exist and are negative *)
Theorem C09_response_windows_from_table : forall wire_response pad_response : list float,
  (13 <= length wire_response)%nat -> (forall k, (k < 13)%nat -> f_neg (nth k wire_response 0%float) = true) ->
  (17 <= length pad_response)%nat -> (forall k, (3 <= k < 17)%nat -> f_neg (nth k pad_response 0%float) = true) ->
  response_windows_ok wire_response (range_incl 0 1) (range_incl 3 12) /\
  response_windows_ok pad_response (range_incl 3 5) (range_incl 7 12).
Proof. exact (fun w p a b c d => conj (wire_windows_from_table w a b) (pad_windows_from_table p c d)). Qed.
Print Assumptions C09_response_windows_from_table.

(* (4) match_column_inputs for the 8 wires of a pad column: t_max exists, TpcWirePosition::try_from and
   TpcPadRow::try_from(row - 1) succeed, both sorts' partial_cmp().unwrap() succeed - for ALL input values *)
Theorem C09_match_column_total :
  forall (amp zt : Type) (azero : amp) (apos : amp -> bool) (agt : amp -> amp -> bool)
         (pcmp : amp -> amp -> option comparison) (zf : N -> amp -> amp -> amp -> zt)
         (sortW : list (N * amp) -> list (N * amp)) (sortP : list (zt * amp) -> list (zt * amp))
         (num : amp -> Prop) (column : N) (wire_inputs pci : list (list amp)),
  cmp_laws apos agt pcmp num ->
  length wire_inputs = 8%nat -> N.of_nat (length pci) = NROWS ->
  let (first, last) := pad_column_to_wires column in
  match_column_inputs_res azero apos agt pcmp zf sortW sortP (Nseq first (last - first)) wire_inputs pci
  = Ok (match_column_inputs azero apos agt zf sortW sortP (Nseq first (last - first)) wire_inputs pci).
Proof. exact match_column_total_lemma. Qed.
Print Assumptions C09_match_column_total.

(* the three comparison facts hold for binary64 (FloatAxioms ltb_spec, compare_spec) *)
Theorem C09_f64_cmp_laws : cmp_laws fpos fgt f_pcmp f64_num.
Proof. exact f64_cmp_laws. Qed.
Print Assumptions C09_f64_cmp_laws.

(* (5) any sample type: avalanches() returns the value of the C13 skeleton; timestamp() is a field read *)
Theorem C09_avalanches_total :
  forall (sig amp zt : Type) (azero : amp) (apos : amp -> bool) (agt : amp -> amp -> bool)
         (pcmp : amp -> amp -> option comparison) (zf : N -> amp -> amp -> amp -> zt) (slen : sig -> nat)
         (solve : nat -> list sig -> list (list amp)) (wdec : list amp -> res (list amp))
         (pdec : sig -> res (list amp))
         (sortW : list (N * amp) -> list (N * amp)) (sortP : list (zt * amp) -> list (zt * amp))
         (num : amp -> Prop) (ev : main_event sig),
  faer_shape solve -> kernel_total wdec -> kernel_total pdec -> cmp_laws apos agt pcmp num ->
  event_shape ev ->
  avalanches_res azero apos agt pcmp zf slen solve wdec pdec sortW sortP (wire_signals ev) (pad_signals ev)
  = Ok (avalanches azero apos agt zf (D_of slen solve wdec) (P_of pdec) sortW sortP (wire_signals ev) (pad_signals ev))
  /\ timestamp_res ev = Ok (trigger_timestamp ev).
Proof. exact avalanches_total_lemma. Qed.
Print Assumptions C09_avalanches_total.

(* (5) binary64, the per-channel kernels being the C17 model of ls_deconvolution: for every event, every
   waveform content (NaN, infinities, i16 extremes times any gain), any centroid function and any sorts *)
Theorem C09_avalanches_f64_total :
  forall (zf : N -> float -> float -> float -> float)
         (solve : nat -> list (list float) -> list (list float)) (wire_response pad_response : list float)
         (sortW : list (N * float) -> list (N * float)) (sortP : list (float * float) -> list (float * float))
         (ev : main_event (list float)),
  faer_shape solve ->
  response_windows_ok wire_response (range_incl 0 1) (range_incl 3 12) ->
  response_windows_ok pad_response (range_incl 3 5) (range_incl 7 12) ->
  event_shape ev ->
  (exists avs, avalanches_res_f64 zf solve wire_response pad_response sortW sortP (wire_signals ev) (pad_signals ev)
               = Ok avs) /\
  avalanches_res_f64 zf solve wire_response pad_response sortW sortP (wire_signals ev) (pad_signals ev) <> Panic /\
  timestamp_res ev = Ok (trigger_timestamp ev).
Proof. exact avalanches_f64_total_lemma. Qed.
Print Assumptions C09_avalanches_f64_total.

(* (6) vertex() = filter_map(try_into().ok()) . cluster_spacepoints . filter_map(Track::try_from(..).ok()) .
   find_vertices (lib.rs:394-406).  The wrapper itself has no panic site of its own: it returns whenever its four
   stages do (an Err of a stage is dropped by `.ok()`, a panic of a stage unwinds). *)
Theorem C09_vertex_wrapper_total :
  forall (A SP TR V : Type) (sp_of : A -> res SP) (cluster : list SP -> res (list (list SP) * list SP))
         (fit : list SP -> res TR) (find : list TR -> res (option V * list TR)) (Pc : list SP -> Prop)
         (avs : list A),
  (forall a, In a avs -> sp_of a <> Panic) ->
  (forall pts, exists cl rem, cluster pts = Ok (cl, rem) /\ forall c, In c cl -> Pc c) ->
  (forall c, Pc c -> fit c <> Panic) ->
  (forall trs, exists r, find trs = Ok r) ->
  exists v, vertex_res sp_of cluster fit find (Ok avs) = Ok v.
Proof. exact (@vertex_res_total). Qed.
Print Assumptions C09_vertex_wrapper_total.

(* the same, with the hypotheses on the fit and on find_vertices asked only of the clusters (vertex_clusters) and of
   the track list (vertex_tracks) that THIS avalanche list leads to *)
Theorem C09_vertex_wrapper_total_rel :
  forall (A SP TR V : Type) (sp_of : A -> res SP) (cluster : list SP -> res (list (list SP) * list SP))
         (fit : list SP -> res TR) (find : list TR -> res (option V * list TR)) (Pc : list SP -> Prop)
         (avs : list A),
  (forall a, In a avs -> sp_of a <> Panic) ->
  (forall pts, exists cl rem, cluster pts = Ok (cl, rem) /\ forall c, In c cl -> Pc c) ->
  (forall cl c, vertex_clusters sp_of cluster avs = Ok cl -> In c cl -> Pc c -> fit c <> Panic) ->
  (forall trs, vertex_tracks sp_of cluster fit avs = Ok trs -> exists r, find trs = Ok r) ->
  exists v, vertex_res sp_of cluster fit find (Ok avs) = Ok v.
Proof. exact (@vertex_res_total_rel). Qed.
Print Assumptions C09_vertex_wrapper_total_rel.

(* PARTIAL.
   FULL STATEMENT WANTED (the clause of the property): for every main event built from banks, vertex() returns - it
   never panics - with no hypothesis beyond "the event was built from banks".

   PROVED: with the stages instantiated by the models of C15 (cluster_spacepoints_pub over the equality classes of the
   space points) and C14 (fit_cluster_to_helix, find_vertices; the optimiser argmin Executor + NelderMead is an
   interaction tree that RECEIVES the cost function - Fit.strategy / run_strategy / asked, `ftree` for the track fit,
   `vtree` for the vertex fit, both universally quantified), vertex() returns for an avalanche list avs PROVIDED the
   premises below.  Every premise about numbers is asked only of the values THIS avalanche list leads to:
   `vertex_clusters sp_of cluster avs` = the clusters Track::try_from is called on, `vertex_tracks sp_of cluster fit avs`
   = the tracks find_vertices is handed, and, inside a fit, the parameter vectors the optimiser actually asks (`asked`).
   (The former statement had "(N3)/(V3) the cost kernel is not NaN for EVERY parameter vector", "(N2)/(V1)/(V5) for ALL
   points / tracks": false of every binary64 kernel, e.g. p = [nan; ..].)

   THE UNPROVED NUMERIC GAPS (not proved anywhere; monitored on the implementation by the panic search `tot09` and by
   C14's rel14f / rel14v):
     (N3e) on every vector the optimiser asks while fitting a cluster of this event, started from that cluster's
           initial simplex, Problem::cost returns a `good` number, i.e. (C14_cost_ok_iff) the
           assert!(!val.is_nan()) of track_fitting.rs:265 does not fire.  FALSE of the implementation on the class of
           the open finding F9 (C14_tinyphi_known_witness); the theorem says nothing there.
     (N4e) argmin: on that simplex the optimiser is well formed (wf_strategy good 6): while the answers are good it asks
           vectors of 6 components, does not fail by itself, and best_param is a vector it has asked.
     (V3e), (V4e) the same for the vertex cost (vertex_fitting.rs:231), the tracks / mean z the vertex fit of this event
           is run on (vertex_best) and dimension 3.
     (Z1)  SpacePoint::try_from does not panic on any avalanche of the event (see below).
   NUMERIC PREMISES THAT ARE FACTS ABOUT THE EVENT'S VALUES, likewise not proved here:
     (N2)  |p.r - (a.r + b.r)/2| is not NaN for points of a cluster of the event (finite radii; discharged for binary64
           radii with |r| <= 1 m in C14_fit_skeleton_total_binary64),
     (V1)  z of the closest approach to the beamline is not NaN for the tracks of the event,
     (V2bc) the sums of helix radii of the beamline clusters of those tracks - the sums max_by compares at
           vertex_fitting.rs:45-51 - are not NaN (C14 states it for all lists of tracks of the event),
     (V5)  Track's derived PartialEq is reflexive on those tracks (no NaN field).
   LAWS / SHAPE (true of the real code, stated because the types are abstract): (C15) no Hough bin is listed twice for a
   point; (N1) IEEE: partial_cmp of two non-NaN numbers is Some (proved for binary64: Fit_proofs.fcmp_prim_total);
   with_sd_tolerance gets a non-negative tolerance; sort_unstable_by returns a permutation (std); `==` of tracks is
   symmetric and transitive (true of f64 fields, NaN included).
   DROPPED with respect to the former statement, because the proof does not use them: (N5) the lengths of the initial
   guesses (6 and 3) - the dimension is part of (N4e)/(V4e) now; the cluster length >= 3 comes from C15 (>= 13).

   Where NaN-freedom of (r, phi, z) has to come from - it is needed twice: C15's model identifies a point with its
   equality class, which exists only if SpacePoint's derived `==` is reflexive (no NaN coordinate:
   `position(|p| p == x).unwrap()` in the remainder bookkeeping panics otherwise), and (Z1):
     r    is a value of the drift table (C18_radius_in_range): a number whenever the lookup returns;
     phi  is the wire azimuth minus a tabulated correction: a number;
     z    is the centroid zf(row, first, middle, last) = z_row + w / (2 ln(m^2/(f l))) * ln(l/f) of matching.rs:80-83.
          f, m, l are finite and positive (C09_ls_deconv_no_nan), but z IS NaN when m^2 and f*l both overflow
          (f, l, m >= 1.4e154), when f*l underflows to 0 while l/f overflows, or when m^2/(f l) rounds to 1 with
          l = f: none of these is excluded by the types.  And a NaN z is not rejected but PANICS:
          DriftTables::at (drift.rs:60-71) passes `z_abs > max` (false on NaN) and then
          `.find(|(_, ub)| ub >= &z_abs).unwrap()` finds nothing (observed on the implementation: corpus/C18
          `drift <t> <phi> 7ff8000000000000` -> panic).  Such amplitudes cannot be produced from i16 samples, the
          shipped gains and the shipped response (an amplitude is at most |sample| / |response bin|), but that
          bound is a numeric fact about the tables which is not proved here.
   So (Z1) is "no pad-hit centroid of the event is NaN" + C18's lookup totality. *)
Theorem C09_vertex_total_partial :
  forall (A F vpoint : Type) (sp_of : A -> res Cluster.point)
    (bins : Cluster.point -> list Cluster.bin) (near : Cluster.point -> Cluster.point -> bool)
    (p_r p_x p_y : Cluster.point -> F) (flt feq : F -> F -> bool)
    (fcmp : F -> F -> option comparison) (fnan : F -> bool) (fadd fsub fmul : F -> F -> F)
    (fhalf fabs : F -> F) (fzero : F)
    (guess6 : list Cluster.point -> Cluster.point -> Cluster.point -> Cluster.point -> list F) (bump : F -> F)
    (point_val closest : list F -> Cluster.point -> F)
    (ftree vtree : list (list F) -> Fit.strategy F) (good : F -> Prop) (sd_tol_ok : bool)
    (teq : Fit.track F -> Fit.track F -> bool) (t_zb t_rad : Fit.track F -> F) (is_primary : Fit.track F -> bool)
    (close_z : F -> F -> bool) (sumF : list F -> F) (mean_z : list (Fit.track F) -> F)
    (sortP : list (Fit.track F) -> list (Fit.track F)) (vpoint_of : list F -> vpoint)
    (vcost_val : list (Fit.track F) -> list F -> Fit.track F -> F) (vguess : F -> list F)
    (tclosest : Fit.track F -> vpoint -> F),
  let cluster := Cluster.cluster_spacepoints_pub bins near in
  let cost := Fit.cost F Cluster.point fnan fadd fzero point_val in
  let fit_simplex := Fit.fit_simplex F Cluster.point p_r p_x p_y flt feq fcmp fadd fsub fmul fhalf fabs guess6 bump in
  let fit := Fit.fit_cluster_to_helix F Cluster.point p_r p_x p_y flt feq fcmp fnan fadd fsub fmul fhalf fabs fzero
               guess6 bump point_val closest (fun c s => Fit.run_strategy c (ftree s)) sd_tol_ok in
  let vcost := Fit.vcost F fnan fadd fzero (Fit.track F) vcost_val in
  let beamline_clusters := Fit.beamline_clusters F fcmp (Fit.track F) t_zb close_z mean_z sortP in
  let vertex_best := Fit.vertex_best F fcmp (Fit.track F) t_zb t_rad is_primary close_z sumF mean_z sortP in
  let find := Fit.find_vertices F vpoint fcmp fnan fadd fzero bump (fun c s => Fit.run_strategy c (vtree s)) sd_tol_ok
                (Fit.track F) teq t_zb t_rad is_primary close_z sumF mean_z sortP vpoint_of vcost_val vguess tclosest in
  (* C15 *) (forall p, NoDup (bins p)) ->
  (* N1 *) (forall x y, fnan x = false -> fnan y = false -> fcmp x y <> None) ->
  sd_tol_ok = true ->
  (* std *) (forall l, Permutation (sortP l) l) ->
  (forall a b, teq a b = true -> teq b a = true) ->
  (forall a b c, teq a b = true -> teq b c = true -> teq a c = true) ->
  forall avs : list A,
  (* Z1 *) (forall a, In a avs -> sp_of a <> Panic) ->
  (* N2 *) (forall cl c, vertex_clusters sp_of cluster avs = Ok cl -> In c cl ->
              forall a b p, In a c -> In b c -> In p c ->
              fnan (Fit.dev F Cluster.point p_r fsub fabs (fhalf (fadd (p_r a) (p_r b))) p) = false) ->
  (* N3e *) (forall cl c, vertex_clusters sp_of cluster avs = Ok cl -> In c cl ->
              forall s, fit_simplex c = Ok s ->
              forall p, In p (Fit.asked (cost c) (ftree s)) -> exists y, cost c p = Ok y /\ good y) ->
  (* N4e *) (forall cl c, vertex_clusters sp_of cluster avs = Ok cl -> In c cl ->
              forall s, fit_simplex c = Ok s -> Fit.wf_strategy good 6 [] (ftree s)) ->
  (* V1 *) (forall trs, vertex_tracks sp_of cluster fit avs = Ok trs ->
              forall a b, In a trs -> In b trs -> fcmp (t_zb a) (t_zb b) <> None) ->
  (* V2bc *) (forall trs, vertex_tracks sp_of cluster fit avs = Ok trs ->
              forall bc a b, beamline_clusters (filter is_primary trs) = Ok bc -> In a bc -> In b bc ->
              fcmp (sumF (map t_rad (fst a))) (sumF (map t_rad (fst b))) <> None) ->
  (* V3e *) (forall trs, vertex_tracks sp_of cluster fit avs = Ok trs ->
              forall ts mz s, vertex_best trs = Ok (Some (ts, mz)) -> Fit.initial_simplex F bump (vguess mz) = Ok s ->
              forall p, In p (Fit.asked (vcost ts) (vtree s)) -> exists y, vcost ts p = Ok y /\ good y) ->
  (* V4e *) (forall trs, vertex_tracks sp_of cluster fit avs = Ok trs ->
              forall ts mz s, vertex_best trs = Ok (Some (ts, mz)) -> Fit.initial_simplex F bump (vguess mz) = Ok s ->
              Fit.wf_strategy good 3 [] (vtree s)) ->
  (* V5 *) (forall trs, vertex_tracks sp_of cluster fit avs = Ok trs -> forall t, In t trs -> teq t t = true) ->
  exists v, vertex_res sp_of cluster fit find (Ok avs) = Ok v.
Proof. exact vertex_total_partial_lemma. Qed.
Print Assumptions C09_vertex_total_partial.

(* the premise set of C09_vertex_total_partial is jointly satisfiable: an instance over binary64 with the REAL cost
   kernels of the track fit and of the vertex fit (coq/Recon/Helix.v), closest_t, three_template_points, beamline_clusters,
   find_vertices; TOY parts (listed in coq/Signal/VertexInst.v): software libm, the simplex prober mini_nm instead of
   argmin, table-driven SpacePoint::try_from / Hough bins / distance, constant initial guess of the track fit, filters that
   accept every track, identity sort, bit-pattern equality of tracks.  The event has 26 points on two helices and one
   rejected avalanche; it leads to 2 clusters of 13 points, 2 tracks and one vertex. *)
From AG Require Signal.VertexInst Signal.VertexInst_proofs.
Example C09_vertex_premises_satisfiable :
  let cluster := VertexInst.VI.cluster in let fit := VertexInst.VI.fit in
  (* C15 *) (forall p, NoDup (VertexInst.VI.bins p)) /\
  (* Z1 *) (forall a, In a VertexInst.VI.avs -> VertexInst.VI.sp_of a <> Panic) /\
  (* N2 *) (forall cl c, vertex_clusters VertexInst.VI.sp_of cluster VertexInst.VI.avs = Ok cl -> In c cl ->
              forall a b p, In a c -> In b c -> In p c ->
              PrimFloat.is_nan (Fit.dev float N VertexInst.VI.p_r PrimFloat.sub PrimFloat.abs
                                  (VertexInst.VI.half (VertexInst.VI.p_r a + VertexInst.VI.p_r b)) p) = false) /\
  (* N3e *) (forall cl c, vertex_clusters VertexInst.VI.sp_of cluster VertexInst.VI.avs = Ok cl -> In c cl ->
              forall s, VertexInst.VI.fit_simplex c = Ok s ->
              forall p, In p (Fit.asked (VertexInst.VI.cost c) (VertexInst.VI.tree s)) ->
              exists y, VertexInst.VI.cost c p = Ok y /\ VertexInst.VI.good y) /\
  (* N4e *) (forall cl c, vertex_clusters VertexInst.VI.sp_of cluster VertexInst.VI.avs = Ok cl -> In c cl ->
              forall s, VertexInst.VI.fit_simplex c = Ok s -> Fit.wf_strategy VertexInst.VI.good 6 [] (VertexInst.VI.tree s)) /\
  (* V1 *) (forall trs, vertex_tracks VertexInst.VI.sp_of cluster fit VertexInst.VI.avs = Ok trs ->
              forall a b, In a trs -> In b trs -> Fit.fcmp_prim (VertexInst.VI.t_zb a) (VertexInst.VI.t_zb b) <> None) /\
  (* V2bc *) (forall trs, vertex_tracks VertexInst.VI.sp_of cluster fit VertexInst.VI.avs = Ok trs ->
              forall bc a b, VertexInst.VI.beamline_clusters (filter VertexInst.VI.is_primary trs) = Ok bc -> In a bc -> In b bc ->
              Fit.fcmp_prim (VertexInst.VI.sumF (map VertexInst.VI.t_rad (fst a)))
                            (VertexInst.VI.sumF (map VertexInst.VI.t_rad (fst b))) <> None) /\
  (* V3e *) (forall trs, vertex_tracks VertexInst.VI.sp_of cluster fit VertexInst.VI.avs = Ok trs ->
              forall ts mz s, VertexInst.VI.vertex_best trs = Ok (Some (ts, mz)) ->
              Fit.initial_simplex float Fit.B64.bump (VertexInst.VI.vguess mz) = Ok s ->
              forall p, In p (Fit.asked (VertexInst.VI.vcost ts) (VertexInst.VI.tree s)) ->
              exists y, VertexInst.VI.vcost ts p = Ok y /\ VertexInst.VI.good y) /\
  (* V4e *) (forall trs, vertex_tracks VertexInst.VI.sp_of cluster fit VertexInst.VI.avs = Ok trs ->
              forall ts mz s, VertexInst.VI.vertex_best trs = Ok (Some (ts, mz)) ->
              Fit.initial_simplex float Fit.B64.bump (VertexInst.VI.vguess mz) = Ok s ->
              Fit.wf_strategy VertexInst.VI.good 3 [] (VertexInst.VI.tree s)) /\
  (* V5 *) (forall t, VertexInst.VI.teq t t = true) /\
  (forall a b, VertexInst.VI.teq a b = true -> VertexInst.VI.teq b a = true) /\
  (forall a b c, VertexInst.VI.teq a b = true -> VertexInst.VI.teq b c = true -> VertexInst.VI.teq a c = true).
Proof.
  exact (conj VertexInst_proofs.VI_proofs.bins_nodup (conj VertexInst_proofs.VI_proofs.Z1_ok
        (conj VertexInst_proofs.VI_proofs.N2_ok (conj VertexInst_proofs.VI_proofs.N3_ok
        (conj VertexInst_proofs.VI_proofs.N4_ok (conj VertexInst_proofs.VI_proofs.V1_ok
        (conj VertexInst_proofs.VI_proofs.V2_ok (conj VertexInst_proofs.VI_proofs.V3_ok
        (conj VertexInst_proofs.VI_proofs.V4_ok (conj VertexInst_proofs.VI_proofs.teq_refl
        (conj VertexInst_proofs.VI_proofs.teq_sym VertexInst_proofs.VI_proofs.teq_trans))))))))))).
Qed.
(* ... hence the theorem applies to it (the remaining premises - (N1) for binary64, the tolerance, the identity sort -
   are discharged in VertexInst_proofs.vertex_total), and the model does run to a vertex *)
Example C09_vertex_instance :
  exists v, vertex_res VertexInst.VI.sp_of VertexInst.VI.cluster VertexInst.VI.fit VertexInst.VI.find
              (Ok VertexInst.VI.avs) = Ok v.
Proof. exact VertexInst_proofs.VI_proofs.vertex_total. Qed.
Example C09_vertex_instance_runs :
  match vertex_res VertexInst.VI.sp_of VertexInst.VI.cluster VertexInst.VI.fit VertexInst.VI.find (Ok VertexInst.VI.avs)
  with Ok (Some _) => true | _ => false end = true
  /\ map (@length N) VertexInst_proofs.VI_proofs.the_clusters = [13; 13]%nat
  /\ length VertexInst_proofs.VI_proofs.the_tracks = 2%nat.
Proof. exact VertexInst_proofs.VI_proofs.runs. Qed.

(* the hypotheses are satisfiable on a non-trivial value, and the model is not vacuously total *)
Example C09_avalanches_hypotheses_satisfiable :
  faer_shape solve_pad /\
  response_windows_ok resp18m (range_incl 0 1) (range_incl 3 12) /\
  response_windows_ok resp18m (range_incl 3 5) (range_incl 7 12) /\
  event_shape ex_event.
Proof. exact (conj solve_pad_shape (conj resp18m_wire (conj resp18m_pad ex_event_shape))). Qed.
Example C09_avalanches_example_run :
  ex_run ex_ws ex_pads = Ok [Aval 100 1 4%float 3%float 4%float].
Proof. vm_compute. reflexivity. Qed.
(* with 101 instead of 256 wire slots the scan indexes out of bounds *)
Example C09_avalanches_model_can_panic : ex_run (firstn 101 ex_ws) ex_pads = Panic.
Proof. vm_compute. reflexivity. Qed.
(* a vector handed to swap_remove(0) would panic if it were empty: the primitive is not total by itself *)
Example C09_swap_remove_can_panic : unwrap (@swap_remove0 (N * N) []) = Panic.
Proof. reflexivity. Qed.
(* (Z1) is necessary: a stage that panics unwinds through filter_map(.. .ok()) *)
Example C09_vertex_wrapper_propagates_panic :
  vertex_res (A := unit) (SP := unit) (TR := unit) (V := unit) (fun _ => Panic) (fun l => Ok ([], l))
             (fun _ => Ok tt) (fun l => Ok (None, l)) (Ok [tt]) = Panic.
Proof. reflexivity. Qed.

(* ===== end-to-end model (coq/Event/E2E.v): the run number and the RAW (bank name bytes, data bytes) list, decoded by
   the models of C02-C06/C08, calibrated with the tables regenerated into Gen/Calib.v, assembled by Event.build. The only
   hypothesis left is that the data are bytes. ===== *)
From Coq Require Import Permutation.
From AG Require Import Base.Prelude Base.Res Base.Bytes Ident.Tables.
From AG Require Codec.Adc Codec.Chunk Codec.Reasm Codec.Pwb Codec.Trg Ident.Names Ident.Maps.
From AG Require Import Event.Event Event.EventSpec Event.E2E Event.E2E_proofs.

(* =============================================================================================== C09 *)
(* (a) the typing hypotheses of every Event theorem hold of the real decoders, maps and calibration tables:
   wire index < 256 and pad < (32, 576) from the map theorems, i16 baselines by computation over Gen/Calib.v,
   i16 samples from ADC / PWB exactness, no repeated channel in channels_sent from the ascending mask bits *)
Theorem C09_e2e_env_typed : forall (F : Type) (gain_of : Z * Z -> F) (m : ovf) (run : N), env_typed (env_e2e_m gain_of m run).
Proof. intros F gain_of. exact (e2e_env_typed_m F (fun _ g => g) gain_of). Qed.
Print Assumptions C09_e2e_env_typed.

Theorem C09_e2e_banks_typed : forall (m : ovf) (banks : list (list N * list N)),
  Forall bytes (map snd banks) -> banks_typed (decode_banks_m m banks).
Proof. exact e2e_banks_typed_m. Qed.
Print Assumptions C09_e2e_banks_typed.

(* (b) every main event yields a result: for ALL run numbers, ALL raw bank lists (any names, any bytes), both
   overflow modes and every HashMap iteration order the composed model returns Ok or Err, never a panic *)
Theorem C09_e2e_build_total : forall (F : Type) (fcal : Z -> F -> F) (gain_of : Z * Z -> F) (m : ovf) (run : N) (banks : list (list N * list N))
    (order : list (list chunkv) -> list (list chunkv)),
  Forall bytes (map snd banks) -> try_from_banks_model fcal gain_of m run banks order <> Panic.
Proof. exact e2e_build_total. Qed.
Print Assumptions C09_e2e_build_total.

(* a build with overflow checks and one without give the same result, decoders and reassembly included *)
Theorem C09_e2e_build_no_wrap : forall (F : Type) (fcal : Z -> F -> F) (gain_of : Z * Z -> F) (run : N) (banks : list (list N * list N))
    (order : list (list chunkv) -> list (list chunkv)),
  Forall bytes (map snd banks) ->
  try_from_banks_model fcal gain_of Checked run banks order = try_from_banks_model fcal gain_of Wrapping run banks order.
Proof. exact e2e_build_no_wrap. Qed.
Print Assumptions C09_e2e_build_no_wrap.

Theorem C09_e2e_mode_irrelevant : forall (F : Type) (fcal : Z -> F -> F) (gain_of : Z * Z -> F) (m : ovf) (run : N) (banks : list (list N * list N))
    (order : list (list chunkv) -> list (list chunkv)),
  Forall bytes (map snd banks) ->
  try_from_banks_model fcal gain_of m run banks order =
  build fcal (env_e2e gain_of run) m order (map (fun nd => decode_bank (fst nd) (snd nd)) banks).
Proof. exact e2e_mode_irrelevant. Qed.
Print Assumptions C09_e2e_mode_irrelevant.

(* the environment record has no room for a panic of a component (Panic is mapped to DErr in Event/E2E.v);
   nothing is hidden by that: no component panics - the name parser on any &str, the decoders on any bytes, the
   reassembly on any chunks that decoded, waveform_at on every sent channel, the maps on every channel id *)
Theorem C09_e2e_components_never_panic : forall m : ovf,
  (forall name, Names.utf8b name = true -> Names.parse_main name <> Panic) /\
  (forall data, bytes data -> Adc.adc_decode adc_macs m data <> Panic /\
                              Chunk.chunk_decode pwb_devices m data <> Panic /\ Trg.trg_decode data <> Panic) /\
  (forall cs ks, chunks_of_views m cs = Some ks ->
     Reasm.reasm pwb_devices m Reasm.isort_by_id Pwb.pwb (Pwb.pwb_decode pwb_macs m) ks <> Panic) /\
  (forall f c, Pwb.pwb_fields_ok pwb_macs f -> In c (Pwb.p_sent f) -> exists w, Pwb.waveform_at m f c = Ok (Some w)) /\
  (forall run b ch, ch < 32 -> Maps.wire_position run b ch <> Panic) /\
  (forall run b a ch, a <= 3 -> 1 <= ch <= 72 -> Maps.pad_position run b a ch <> Panic).
Proof. exact e2e_components_never_panic. Qed.
Print Assumptions C09_e2e_components_never_panic.

(* ... and the maps are only ever asked about channel ids in those ranges *)
Theorem C09_e2e_map_arguments_in_range : forall m : ovf,
  (forall d p c, bytes d -> adc_view m d = DOk p -> a_chan p = A32 c -> c < 32) /\
  (forall cs p, reasm_e2e m cs = DOk p ->
     p_chip p <= 3 /\ forall pc wf, In (Pad pc, wf) (p_sent p) -> 1 <= pc <= 72).
Proof. intros m. split; [exact (adc_view_chan unit (fun _ g => g) m)|exact (reasm_e2e_args m)]. Qed.
Print Assumptions C09_e2e_map_arguments_in_range.

(* ---- the matrix handed to the Cholesky factorisation of wire deconvolution (deconvolution/wires.rs: a_matrix,
   `cholesky_in_place(..).unwrap()`), for the factors regenerated from the source and EVERY block length:
   symmetric and positive definite over the reals, x^T A x >= margin |x|^2 with margin = a0 - 2 (|a1|+..+|a4|) > 0
   (0.6396 for the current factors).  (The binary64 factorisation itself is
   measured on the implementation for all 256 block lengths: rel17block.) *)
From Coq Require Import Reals List.
From AG Require Signal.CrossTalk.

Theorem C09_crosstalk_band_lower_bound : forall (a0 a1 a2 a3 a4 : R) (l : list R),
  (CrossTalk.qform a0 a1 a2 a3 a4 l >= CrossTalk.margin a0 a1 a2 a3 a4 * CrossTalk.sumsq l)%R.
Proof. exact CrossTalk.qform_lower_bound. Qed.
Print Assumptions C09_crosstalk_band_lower_bound.

Theorem C09_crosstalk_matrix_positive_definite :
  (forall i j, CrossTalk.crosstalk_entry i j = CrossTalk.crosstalk_entry j i) /\
  (0 < CrossTalk.nf_margin)%R /\
  (forall l : list R, (CrossTalk.crosstalk_qform l >= CrossTalk.nf_margin * CrossTalk.sumsq l)%R) /\
  (forall l : list R, ~ Forall (fun x => x = 0%R) l -> (0 < CrossTalk.crosstalk_qform l)%R).
Proof.
  exact (conj CrossTalk.crosstalk_symmetric (conj CrossTalk.nf_margin_pos
          (conj CrossTalk.crosstalk_lower_bound CrossTalk.crosstalk_positive_definite))).
Qed.
Print Assumptions C09_crosstalk_matrix_positive_definite.
