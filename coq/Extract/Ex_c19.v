(* Extraction unit `c19`: the row pipeline of alpha-g-vertices / alpha-g-trg-scalers (run by ocaml/run_c19.ml). *)
From Coq Require Import Extraction ExtrOcamlBasic.
From AG Require Import Base.Prelude Base.Res Apps.FileOrder Apps.Rows.

Extraction Language OCaml.
Extraction Blacklist String List Int Z Str Unix Array Bytes Char.

Extraction "model.ml"
  Base.Prelude.ex_base Base.Res.res
  Apps.Rows.event Apps.Rows.file Apps.Rows.run_rows_exec.
