(* Extraction unit c03 (C03 chunk integrity, C04 reassembly). Only ExtrOcamlBasic. *)
From Coq Require Import Extraction ExtrOcamlBasic.
From AG Require Import Base.Prelude Base.Res Base.Bytes Codec.Crc32c Codec.Chunk Codec.ChunkObs Codec.Reasm Codec.Pwb Ident.Tables.

Extraction Language OCaml.
Extraction Blacklist String List Int Z Str Unix Array Bytes Char.
(* keep the early returns lazy in the strict target language *)
Extraction Inline guard assert_.

Extraction "model.ml"
  Base.Prelude.ex_base Base.Res.res
  Codec.Crc32c.crc32c_raw Codec.Chunk.chunk_decode Codec.ChunkObs.chunk_obs Ident.Tables.pwb_devices
  Codec.Reasm.reasm_struct Codec.Reasm.isort_by_id Codec.Pwb.pwb_decode Ident.Tables.pwb_macs.
