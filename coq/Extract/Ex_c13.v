(* Extraction unit c13: index skeleton of MainEvent::avalanches over binary64 amplitudes
   (kernels D, P, zf are passed in by ocaml/run_c13.ml as oracle tables logged from the implementation). *)
From Coq Require Import Extraction ExtrOcamlBasic ExtrOCamlFloats.
From AG Require Import Base.Prelude Signal.Ring Signal.Avalanches.

Extraction Language OCaml.
Extraction Blacklist String List Int Z Str Unix Array Bytes Char.

Extraction "model.ml"
  Base.Prelude.ex_base
  Signal.Avalanches.avalanches_f Signal.Avalanches.contiguous_ranges_n.
