(* Extraction unit `c05`: the PWB v2 packet decoder model, its accessors and the spec encoder
   (run by ocaml/run_c05.ml).  Only ExtrOcamlBasic: N, Z, positive, nat stay extracted datatypes. *)
From Coq Require Import Extraction ExtrOcamlBasic.
From AG Require Import Base.Prelude Base.Res Base.Bytes Codec.Pwb Ident.Tables.

Extraction Language OCaml.
Extraction Blacklist String List Int Z Str Unix Array Bytes Char.

Extraction "model.ml"
  Base.Prelude.ex_base Base.Res.res
  Codec.Pwb.pwb_decode Codec.Pwb.pwb_all_waveforms Codec.Pwb.pwb_encode Codec.Pwb.packet_version
  Codec.Pwb.compression Ident.Tables.pwb_macs.
