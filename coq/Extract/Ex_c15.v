(* Extraction unit c15: clustering (track_finding.rs) and vertex bookkeeping (vertex_fitting.rs). *)
From Coq Require Import Extraction ExtrOcamlBasic.
From AG Require Import Base.Prelude Base.Res Recon.Vec Recon.Cluster Recon.Vertex Recon.Bins.

Extraction Language OCaml.
Extraction Blacklist String List Int Z Str Unix Array Bytes Char.

Extraction "model.ml"
  Base.Prelude.ex_base Base.Res.res
  Recon.Cluster.cluster_spacepoints_pub Recon.Cluster.largest_cluster
  Recon.Vertex.find_vertices Recon.Vertex.beamline_clusters
  Recon.Bins.get_bins_res.
