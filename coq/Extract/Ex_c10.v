(* Extraction unit c10 (C09, C10, C11): the event assembly model at binary64. *)
From Coq Require Import Extraction ExtrOcamlBasic ExtrOCamlFloats ExtrOCamlInt63.
From AG Require Import Base.Prelude Base.Res Event.Event Event.EventF64.

Extraction Language OCaml.
Extraction Blacklist String List Int Z Str Unix Array Bytes Char.

Extraction "model.ml"
  Base.Prelude.ex_base Base.Res.res
  Event.EventF64.build64 Event.EventF64.mk_env64 Event.Event.st0.
