(* Extraction unit e2e (end-to-end tie of C09, C10, C11): try_from_banks over raw (name, bytes) lists at binary64,
   with the real decoders, maps and the calibration tables regenerated from /repo. *)
From Coq Require Import Extraction ExtrOcamlBasic ExtrOCamlFloats ExtrOCamlInt63.
From AG Require Import Base.Prelude Base.Res Event.Event Event.EventF64 Event.E2E Event.E2E64.

Extraction Language OCaml.
Extraction Blacklist String List Int Z Str Unix Array Bytes Char.
(* keep the early returns lazy in the strict target language *)
Extraction Inline guard assert_.

Extraction "model.ml"
  Base.Prelude.ex_base Base.Res.res
  Event.E2E64.try_from_banks_model64 Event.E2E64.wire_cal_row64 Event.E2E64.pad_cal_col64.
