(* Extraction of the C17 model (PrimFloat instance of Signal/Greedy.v) to OCaml.
   ExtrOCamlFloats maps PrimFloat operations to the kernel's Float64 module (native IEEE binary64). *)
From Coq Require Import Extraction ExtrOcamlBasic ExtrOCamlFloats ExtrOCamlInt63.
From AG Require Import Base.Prelude Base.Res Signal.Greedy Signal.GreedyScale Signal.GreedyScaleFast.

Extraction Language OCaml.
Extraction Blacklist String List Int Z Str Unix Array Bytes Char.

Extraction "model.ml"
  Base.Prelude.ex_base Base.Res.res
  Signal.Greedy.range_incl
  Signal.Greedy.nn_greedy_f Signal.Greedy.nn_naive_f
  Signal.Greedy.ls_deconv_f Signal.Greedy.ls_naive_f
  Signal.Greedy.pad_deconv_f Signal.Greedy.wire_deconv_f
  (* the executable hypothesis of C17_nn_greedy_scale_f64 / C17_ls_deconv_scale_f64 (= nn_safe / ls_safe:
     C17_nn_safe_fast_eq, C17_ls_safe_fast_eq), evaluated by the runner on every rel17scale case *)
  Signal.GreedyScaleFast.nn_safe_fast Signal.GreedyScaleFast.ls_safe_fast.
