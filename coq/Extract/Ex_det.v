(* Extraction of the executable models to OCaml (run by ocaml/modelrun.ml).
   Only ExtrOcamlBasic is used: N, Z, positive, nat stay extracted inductive datatypes. *)
From Coq Require Import Extraction ExtrOcamlBasic.
From AG Require Import Base.Prelude Base.Res Base.Bytes Codec.Trg Codec.Chrono Codec.Adc Ident.Tables.

Extraction Language OCaml.
Extraction Blacklist String List Int Z Str Unix Array Bytes Char.

Extraction "model.ml"
  Base.Prelude.ex_base Base.Res.res
  Codec.Trg.trg_decode Codec.Trg.trg_obs Codec.Trg.trg_encode
  Codec.Adc.adc_decode Ident.Tables.adc_macs Ident.Tables.pwb_macs Ident.Tables.pwb_devices
  Codec.Chrono.cb_fifo Codec.Chrono.cb_feed Codec.Chrono.entry_obs.
