(* Extraction unit c20: the model of alpha-g-chronobox-timestamps (Apps/CbTime.v) and the hardware FIFO model
   (Apps/CbHardware.v). Only ExtrOcamlBasic: N, Z, positive, nat stay extracted inductive datatypes. *)
From Coq Require Import Extraction ExtrOcamlBasic.
From AG Require Import Base.Prelude Base.Res Base.Bytes Codec.Chrono Apps.CbTime Apps.CbHardware.

Extraction Language OCaml.
Extraction Blacklist String List Int Z Str Unix Array Bytes Char.

Extraction "model.ml"
  Base.Prelude.ex_base Base.Res.res
  Apps.CbTime.cb_program Apps.CbTime.row_obs
  Apps.CbHardware.hw_stream Apps.CbHardware.hw_program Apps.CbHardware.hw_wfb.
