(* Extraction unit `c07w`: the COMBINATOR-level model of chronobox_fifo (Codec/ChronoWinnow.v over
   Codec/Winnow.v), plus the recursive model Codec/Chrono.v so that the runner can cross-check the two on
   every case (they are equal by ChronoWinnow_proofs.cbw_fifo_eq / cbw_feed_eq). *)
From Coq Require Import Extraction ExtrOcamlBasic.
From AG Require Import Base.Prelude Base.Bytes Codec.Winnow Codec.Chrono Codec.ChronoWinnow.

Extraction Language OCaml.
Extraction Blacklist String List Int Z Str Unix Array Bytes Char.

Extraction "model.ml"
  Base.Prelude.ex_base
  Codec.Winnow.pres
  Codec.ChronoWinnow.chronobox_fifo_winnow Codec.ChronoWinnow.cbw_feed
  Codec.ChronoWinnow.fifo_entry Codec.ChronoWinnow.scalers_block
  Codec.Chrono.cb_fifo Codec.Chrono.cb_feed.
