(* Extraction unit avt: the panic-aware model of MainEvent::avalanches (Signal/AvalTotal.v) over binary64
   amplitudes, kernels passed in by ocaml/run_avt.ml as the oracle tables of the C13 `av` case lines. *)
From Coq Require Import Extraction ExtrOcamlBasic ExtrOCamlFloats.
From AG Require Import Base.Prelude Base.Res Signal.Ring Signal.Avalanches Signal.AvalTotal.

Extraction Language OCaml.
Extraction Blacklist String List Int Z Str Unix Array Bytes Char.

Extraction "model.ml"
  Base.Prelude.ex_base Base.Res.res
  Signal.AvalTotal.avalanches_res_tab Signal.AvalTotal.contiguous_ranges_res_n.
