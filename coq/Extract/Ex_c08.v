(* Extraction of the C08 models (bank names, channel maps) to OCaml, run by ocaml/run_c08.ml. *)
From Coq Require Import Extraction ExtrOcamlBasic.
(* one module per line: tools/vlib.py derives the .vo files the runner needs from these lines (so that the model still
   builds when a proof file breaks) and its pattern only recognises a single module per `Require` *)
From AG Require Import Base.Prelude.
From AG Require Import Base.Res.
From AG Require Import Base.Bytes.
From AG Require Import Ident.Dispatch.
From AG Require Import Ident.Names.
From AG Require Import Ident.Maps.

Extraction Language OCaml.
Extraction Blacklist String List Int Z Str Unix Array Bytes Char.

Extraction "model.ml"
  Base.Prelude.ex_base Base.Res.res
  Ident.Names.parse_main Ident.Names.parse_alpha16 Ident.Names.parse_adc16 Ident.Names.parse_adc32
  Ident.Names.parse_pwb Ident.Names.parse_trg Ident.Names.parse_trb3 Ident.Names.parse_mcvx
  Ident.Names.parse_cb Ident.Names.parse_seq2 Ident.Names.chan_obs Ident.Names.a16_row Ident.Names.pwb_row
  Ident.Names.cb_row Ident.Names.from_str_radix_u8
  Ident.Maps.wire_dispatch_req Ident.Maps.pwb_dispatch_req Ident.Maps.wire_table_obs_req Ident.Maps.pad_table_obs_req
  Ident.Maps.wpos_obs_req Ident.Maps.ppos_obs_req Ident.Maps.wcol_obs Ident.Maps.pad_column_to_wires.
