(* Extraction of the C08 models (bank names, channel maps) to OCaml, run by ocaml/run_c08.ml. *)
From Coq Require Import Extraction ExtrOcamlBasic.
From AG Require Import Base.Prelude Base.Res Base.Bytes Ident.Dispatch Ident.Names Ident.Maps.

Extraction Language OCaml.
Extraction Blacklist String List Int Z Str Unix Array Bytes Char.

Extraction "model.ml"
  Base.Prelude.ex_base Base.Res.res
  Ident.Names.parse_main Ident.Names.parse_alpha16 Ident.Names.parse_adc16 Ident.Names.parse_adc32
  Ident.Names.parse_pwb Ident.Names.parse_trg Ident.Names.parse_trb3 Ident.Names.parse_mcvx
  Ident.Names.parse_cb Ident.Names.parse_seq2 Ident.Names.chan_obs Ident.Names.a16_row Ident.Names.pwb_row
  Ident.Names.cb_row Ident.Names.from_str_radix_u8
  Ident.Maps.wire_dispatch_req Ident.Maps.pwb_dispatch_req Ident.Maps.wire_table_obs_req Ident.Maps.pad_table_obs_req
  Ident.Maps.wpos_obs_req Ident.Maps.ppos_obs_req Ident.Maps.wcol_obs Ident.Maps.pad_column_to_wires.
