(* Extraction unit c16 (C16, C14): float model of the helix closest-approach routine and the
   template-point selection.  PrimFloat is evaluated natively (ExtrOCamlFloats -> coq-core's Float64). *)
From Coq Require Import Extraction ExtrOcamlBasic ExtrOCamlFloats.
From AG Require Import Base.Prelude Base.Res Recon.Helix Recon.Fit.

Extraction Language OCaml.
Extraction Blacklist String List Int Z Str Unix Array Bytes Char.

Extraction "model.ml"
  Base.Prelude.ex_base
  Recon.Helix.c16_obs Recon.Helix.closest_t Recon.Helix.helix_at Recon.Helix.closest_to_beamline
  Recon.Helix.arc_length Recon.Helix.mk_spoint Recon.Fit.fit3_outcome Recon.Fit.three_template_prim
  Recon.Fit.tinyphi_class.
