(* Extraction unit c18: the PrimFloat instance of the drift lookup.
   ExtrOCamlFloats maps `float` to coq-core's Float64 (OCaml native doubles), so the extracted model
   evaluates IEEE binary64 operations on the hardware, like the Rust code.
   The 92 tables are NOT extracted as an OCaml literal (ocamlopt needs minutes and an unlimited stack for a
   145 000-element float literal): ocaml/run_c18.ml parses the hexadecimal literals of the very file
   coq/Gen/Drift.v that coqc compiles (exact in both parsers), and the harness compares every table bit for bit
   with the implementation's (`drift-tab` case lines). *)
From Coq Require Import Extraction ExtrOcamlBasic ExtrOCamlFloats.
(* one module per line: tools/vlib.py derives the make targets of the runner from these lines *)
From AG Require Import Base.Prelude.
From AG Require Import Base.Res.
From AG Require Import Base.Bytes.
From AG Require Import Recon.Drift.

Extraction Language OCaml.
Extraction Blacklist String List Int Z Str Unix Array Bytes Char.

Extraction "model.ml"
  Base.Prelude.ex_base Base.Res.res
  Recon.Drift.space_point_f Recon.Drift.ERR_TIME Recon.Drift.ERR_Z.
