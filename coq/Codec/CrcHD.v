(* CRC-32C (Castagnoli) has Hamming distance >= 4 on codewords of up to 524 352 bits: the finite table fact.

   L is the zero-input step of the reflected CRC register (multiplication by x modulo the generator, in the
   reflected representation).  The iterates  L^k(2^31), k < 524352,  are pairwise distinct even after dropping
   bit 31.  Checked by vm_compute over the finite table (sort + adjacent-distinct); the bound is in the statement.
   This file depends on nothing generated, so its .vo is cached. *)
From Coq Require Import Sorting.Mergesort Sorting.Permutation Sorting.Sorted Orders.
From AG Require Import Base.Prelude Codec.Crc32c.

(* zero-input register step *)
Definition L (s : N) : N := N.lxor (N.shiftr s 1) (if N.testbit s 0 then POLY else 0).
Fixpoint Liter (k : nat) (s : N) : N := match k with O => s | S k' => Liter k' (L s) end.

Definition MASK31 : N := 0x7FFFFFFF.
Definition TOP : N := 0x80000000.
Definition HD_BOUND : N := 524352.

(* table of  L^k(s) land MASK31,  k = 0 .. n-1, in reverse order *)
Fixpoint iter_tbl (n : nat) (s : N) (acc : list N) : list N :=
  match n with O => acc | S n' => iter_tbl n' (L s) (N.land s MASK31 :: acc) end.

Module NOrder <: TotalLeBool.
  Definition t := N.
  Definition leb := N.leb.
  Theorem leb_total : forall a1 a2, leb a1 a2 = true \/ leb a2 a1 = true.
  Proof. intros a1 a2. unfold leb. destruct (N.leb_spec a1 a2); [left; reflexivity|right]. apply N.leb_le. lia. Qed.
End NOrder.
Module NSort := Sort NOrder.

Fixpoint strict_sorted (l : list N) : bool :=
  match l with
  | x :: ((y :: _) as t) => N.ltb x y && strict_sorted t
  | _ => true
  end.
Definition hd_check (n : N) : bool := strict_sorted (NSort.sort (iter_tbl (N.to_nat n) TOP [])).

(* the finite computation: 524352 table entries, sorted, adjacent entries strictly increasing *)
Theorem crc32c_hd4_524352 : hd_check 524352 = true.
Proof. vm_cast_no_check (eq_refl true). Qed.

(* ---------- lifting to a statement about indices ---------- *)
Lemma Liter_S k s : Liter (S k) s = L (Liter k s).
Proof. revert s. induction k as [|k IH]; intros s; [reflexivity|]. cbn [Liter]. rewrite <- IH. reflexivity. Qed.
Lemma Liter_add a b s : Liter (a + b) s = Liter a (Liter b s).
Proof. induction a as [|a IH]; [reflexivity|]. cbn [Nat.add]. rewrite !Liter_S, IH. reflexivity. Qed.

Lemma iter_tbl_spec n : forall s acc,
  iter_tbl n s acc = rev (map (fun k => N.land (Liter k s) MASK31) (seq 0 n)) ++ acc.
Proof.
  induction n as [|n IH]; intros s acc; [reflexivity|].
  cbn [iter_tbl]. rewrite IH. cbn [seq map rev]. rewrite <- seq_shift, map_map.
  rewrite <- app_assoc. cbn [app]. reflexivity.
Qed.

Lemma strict_sorted_lt l : strict_sorted l = true -> forall x, In x (tl l) -> forall h, hd_error l = Some h -> h < x.
Proof.
  induction l as [|a l IH]; intros H x Hx h Hh; [destruct Hx|].
  cbn in Hh. injection Hh as <-. cbn [tl] in Hx.
  destruct l as [|b l]; [destruct Hx|].
  cbn [strict_sorted] in H. apply andb_true_iff in H. destruct H as [Hab Hs]. apply N.ltb_lt in Hab.
  destruct Hx as [<-|Hx]; [assumption|].
  specialize (IH Hs x Hx b eq_refl). lia.
Qed.
Lemma strict_sorted_NoDup l : strict_sorted l = true -> NoDup l.
Proof.
  induction l as [|a l IH]; intros H; [constructor|].
  constructor.
  - intros Hin. pose proof (strict_sorted_lt (a :: l) H a Hin a eq_refl). lia.
  - apply IH. destruct l as [|b l]; [reflexivity|]. cbn [strict_sorted] in H. apply andb_true_iff in H. apply H.
Qed.

Lemma NoDup_map_nth {A} (f : nat -> A) n : NoDup (map f (seq 0 n)) ->
  forall i j, (i < j)%nat -> (j < n)%nat -> f i <> f j.
Proof.
  intros H i j Hij Hj E.
  rewrite NoDup_nth_error in H.
  assert (Hi : (i < length (map f (seq 0 n)))%nat) by (rewrite map_length, seq_length; lia).
  specialize (H i j Hi).
  assert (Ni : forall k, (k < n)%nat -> nth_error (map f (seq 0 n)) k = Some (f k)).
  { intros k Hk. rewrite nth_error_map. rewrite (nth_error_nth' _ 0%nat) by (rewrite seq_length; assumption).
    rewrite seq_nth by assumption. reflexivity. }
  rewrite !Ni in H by lia. specialize (H (f_equal Some E)). lia.
Qed.

(* generic in the bound, so that the big constant never meets a tactic *)
Lemma hd_check_distinct n : hd_check n = true -> forall i j : nat, (i < j)%nat -> N.of_nat j < n ->
  N.land (Liter i TOP) MASK31 <> N.land (Liter j TOP) MASK31.
Proof.
  intros H i j Hij Hj. unfold hd_check in H.
  apply strict_sorted_NoDup in H.
  assert (P : Permutation (iter_tbl (N.to_nat n) TOP []) (NSort.sort (iter_tbl (N.to_nat n) TOP [])))
    by apply NSort.Permuted_sort.
  apply Permutation_sym in P. apply (Permutation_NoDup P) in H.
  rewrite iter_tbl_spec, app_nil_r in H.
  apply (Permutation_NoDup (Permutation_sym (Permutation_rev _))) in H.
  apply (NoDup_map_nth _ _ H i j Hij). lia.
Qed.

(* the table fact as a statement over all pairs of exponents below the bound *)
Theorem hd_distinct : forall i j : nat, (i < j)%nat -> N.of_nat j < HD_BOUND ->
  N.land (Liter i TOP) MASK31 <> N.land (Liter j TOP) MASK31.
Proof. exact (hd_check_distinct HD_BOUND crc32c_hd4_524352). Qed.
