(* Model of alpha_g_detector::padwing::Chunk::try_from(&[u8]) (detector/src/padwing.rs) and its
   encoder-based specification.  The table of known device ids is an argument.  Definitions only. *)
From AG Require Import Base.Prelude Base.Res Base.Bytes Codec.Crc32c.

Record chunk := {
  c_dev : N;          (* device_id : u32 *)
  c_pseq : N;         (* packet_sequence : u32 *)
  c_cseq : N;         (* channel_sequence : u16 *)
  c_chan : N;         (* channel_id : u8 (AfterId 0..=3) *)
  c_flags : N;        (* flags : u8 (0 or 1) *)
  c_id : N;           (* chunk_id : u16 *)
  c_payload : list N }.

Definition E := 1.

Section Decode.
Variable devices : list N.
Variable m : ovf.

Definition dev_known (d : N) : bool := existsb (N.eqb d) devices.

Definition chunk_decode (l : list N) : res chunk :=
  let len := lenN l in
  guard (len <? 28) E (
  guard (negb (len mod 4 =? 0)) E (
  do dev <- rd_le l 0 4; guard (negb (dev_known dev)) E (
  do pseq <- rd_le l 4 4;
  do cseq <- rd_le l 8 2;
  do chan <- idx l 10; guard (3 <? chan) E (
  do flags <- idx l 11; guard (negb (flags =? 0) && negb (flags =? 1)) E (
  do id <- rd_le l 12 2;
  do clen <- rd_le l 14 2;
  do max <- usub m 64 len 24;
  do min <- usub m 64 max 3;
  guard ((clen <? min) || (max <? clen)) E (
  do hcrc <- rd_le l 16 4;
  do hs <- slice l 0 16;
  guard (negb (hcrc =? crc32c_raw hs)) E (
  do payload <- (do s <- slice_from l 20; slice_to s clen);
  do pa <- uadd m 64 20 clen;
  do pb <- usub m 64 len 4;
  do padding <- slice l pa pb;
  guard (existsb (fun x => negb (x =? 0)) padding) E (
  do pcrc <- (do s <- slice_from l pb; do a <- arr 4 s; Ok (le_val a));
  do ps <- slice l 20 pb;
  guard (negb (pcrc =? crc32c_raw ps)) E (
  Ok {| c_dev := dev; c_pseq := pseq; c_cseq := cseq; c_chan := chan; c_flags := flags; c_id := id;
        c_payload := payload |}))))))))).
End Decode.

(* ---------- specification ---------- *)
Definition pad_len (n : N) : N := (4 - n mod 4) mod 4.
Definition zeros (n : N) : list N := repeat 0 (N.to_nat n).

Definition chunk_header (c : chunk) : list N :=
  le_enc 4 (c_dev c) ++ le_enc 4 (c_pseq c) ++ le_enc 2 (c_cseq c) ++ [c_chan c; c_flags c] ++
  le_enc 2 (c_id c) ++ le_enc 2 (lenN (c_payload c)).
Definition chunk_body (c : chunk) : list N := c_payload c ++ zeros (pad_len (lenN (c_payload c))).
Definition chunk_encode (c : chunk) : list N :=
  chunk_header c ++ le_enc 4 (crc32c_raw (chunk_header c)) ++
  chunk_body c ++ le_enc 4 (crc32c_raw (chunk_body c)).

Definition chunk_ok (devices : list N) (c : chunk) : Prop :=
  dev_known devices (c_dev c) = true /\ c_pseq c < 2^32 /\ c_cseq c < 2^16 /\ c_chan c <= 3 /\ c_flags c <= 1 /\
  c_id c < 2^16 /\ 1 <= lenN (c_payload c) <= 65535 /\ bytes (c_payload c).

(* Chunk accessors used by reassembly *)
Definition c_eom (c : chunk) : bool := N.land (c_flags c) 1 =? 1.
