(* C07 / C01 — pins of the combinator layer: the winnow-level model of chronobox_fifo (Codec/ChronoWinnow.v,
   transcribed combinator by combinator over Codec/Winnow.v = winnow 0.6.1 semantics) equals the recursive
   model Codec/Chrono.v:cb_fifo that all other C07 theorems are about.  Statements only; to be imported into
   Props/C07.v (the C07_cbw_ theorems) and Props/C01.v (the C01_cbw_ theorems). *)
From AG Require Import Base.Prelude Base.Bytes Codec.Winnow Codec.Chrono Codec.ChronoWinnow
  Codec.ChronoWinnow_proofs.

(* combinator-level parser = recursive parser, for every input, with fuel = length + 1, in debug and release *)
Theorem C07_cbw_fifo_eq : forall dbg l,
  chronobox_fifo_winnow dbg l = POk (fst (cb_fifo l)) (snd (cb_fifo l)).
Proof. exact cbw_fifo_eq. Qed.
Print Assumptions C07_cbw_fifo_eq.

(* fuel = length + 1 is sufficient: any larger fuel gives the same outcome *)
Theorem C07_cbw_fuel_enough : forall dbg fuel l, (length l < fuel)%nat ->
  chronobox_fifo_fuel dbg fuel l = chronobox_fifo_winnow dbg l.
Proof. exact cbw_fuel_enough. Qed.
Print Assumptions C07_cbw_fuel_enough.

(* the resume protocol over the combinator-level parser = cb_feed *)
Theorem C07_cbw_feed_eq : forall dbg pieces rem,
  cbw_feed dbg rem pieces = POk (fst (cb_feed rem pieces)) (snd (cb_feed rem pieces)).
Proof. exact cbw_feed_eq. Qed.
Print Assumptions C07_cbw_feed_eq.

(* every element parser that succeeds consumes exactly 4 bytes (entry) / 244 bytes (separator), so the
   "`repeat` parsers must always consume" assertions of repeat0_ and separated_foldl1 cannot fire *)
Theorem C07_cbw_entry_consumes : forall l e r, fifo_entry l = POk e r -> exists p, l = p ++ r /\ lenN p = 4.
Proof. exact fifo_entry_consumes. Qed.
Print Assumptions C07_cbw_entry_consumes.

Theorem C07_cbw_scalers_consumes : forall l u r,
  scalers_block l = POk u r -> exists p, l = p ++ r /\ lenN p = 244.
Proof. exact scalers_block_consumes. Qed.
Print Assumptions C07_cbw_scalers_consumes.

(* totality at the combinator level: no assert, no ChannelId unwrap, no final PResult::unwrap panic, and the
   fuel never runs out *)
Theorem C01_cbw_no_panic : forall dbg l,
  chronobox_fifo_winnow dbg l <> PPanic /\ chronobox_fifo_winnow dbg l <> PFuel.
Proof. exact cbw_no_panic. Qed.
Print Assumptions C01_cbw_no_panic.

(* the element parsers only succeed or Backtrack (never Cut, never panic) ... *)
Theorem C01_cbw_elems_never_cut : forall l,
  ok_or_back (fifo_entry l) /\ ok_or_back (scalers_block l).
Proof. exact elems_ok_or_back. Qed.
Print Assumptions C01_cbw_elems_never_cut.

(* ... and the whole parser returns Ok before `.unwrap()`: "this parser always succeeds" (chronobox.rs:171) *)
Theorem C01_cbw_never_cut : forall dbg fuel l, (length l < fuel)%nat ->
  exists es r, chronobox_fifo_parser dbg fuel l = POk es r.
Proof. exact cbw_never_cut. Qed.
Print Assumptions C01_cbw_never_cut.

(* debug_assertions on (assert panics) and off (assert is a Cut error, then unwrap panics) agree *)
Theorem C01_cbw_dbg_irrelevant : forall l, chronobox_fifo_winnow true l = chronobox_fifo_winnow false l.
Proof. exact cbw_dbg_irrelevant. Qed.
Print Assumptions C01_cbw_dbg_irrelevant.

(* the combinator semantics is not vacuous: reset after a failed branch, a non-consuming element trips the
   assert (panic in debug, Cut in release), and the running example of Props/C07.v *)
Example C07_cbw_nonvacuous :
  chronobox_fifo_winnow true [0x10;0x20;0x30;0x85; 0x01;0x00;0x80;0xFF; 0x3C;0;0;0xFE; 1;2;3] =
  POk [TS 5 false 0x302010; MK true 1] [0x3C;0;0;0xFE; 1;2;3].
Proof. vm_compute. reflexivity. Qed.
Example C07_cbw_failed_entry_leaves_stream_advanced : fifo_entry [1; 2; 3; 0x7F; 9] = PBack [0x7F; 9].
Proof. vm_compute. reflexivity. Qed.
Example C07_cbw_assert_sites :
  repeat0 true 5 empty [1; 2] = PPanic /\ repeat0 false 5 empty [1; 2] = PCut [1; 2].
Proof. split; vm_compute; reflexivity. Qed.
