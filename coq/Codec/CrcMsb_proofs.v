(* C03, the other bit order: bursts counted with bits numbered most significant first within bytes.
   A window of up to 31 such bits touches at most 5 bytes, i.e. up to 40 serial positions, so the algebraic burst
   argument does not apply.  An undetected pattern inside 5 bytes b0..b4 must satisfy L^32(b0..b3) = b4, which
   fixes b0..b3 as the 32-fold inverse step of b4; the 255 x 8 candidate (pattern, alignment) pairs are checked
   by computation: none fits a window of 31 bits.  (Two of them fit a window of exactly 32 bits: see
   chunk_burst32_msb_first_refuted_lemma.) *)
From AG Require Import Base.Prelude Base.Res Base.Bytes Base.Mask Codec.Crc32c Codec.CrcHD Codec.BitErr
  Codec.Chunk Codec.Chunk_proofs Codec.Crc32c_proofs Codec.ChunkDetect_proofs.

(* ---------- the inverse register step ---------- *)
Definition Linv (y : N) : N := if N.testbit y 31 then 2 * N.lxor y POLY + 1 else 2 * y.
Fixpoint Linv_iter (k : nat) (y : N) : N := match k with O => y | S k' => Linv (Linv_iter k' y) end.

Lemma L_odd z : L (2 * z + 1) = N.lxor z POLY.
Proof. unfold L. rewrite N.testbit_odd_0, shiftr_div. change (2^1) with 2. replace ((2 * z + 1) / 2) with z by lia. reflexivity. Qed.
Lemma testbit31_small q : q < 2^31 -> N.testbit q 31 = false.
Proof.
  intros H. rewrite testbit_div. rewrite N.div_small by exact H. reflexivity.
Qed.
Lemma Linv_L x : x < 2^32 -> Linv (L x) = x.
Proof.
  intros B. change (2^32) with 4294967296 in B.
  destruct (N.Even_or_Odd x) as [[q ->]|[q ->]].
  - rewrite L_double. unfold Linv. rewrite testbit31_small by (change (2^31) with 2147483648; lia). reflexivity.
  - rewrite L_odd. unfold Linv.
    rewrite N.lxor_spec, testbit31_small by (change (2^31) with 2147483648; lia).
    change (N.testbit POLY 31) with true. cbn [xorb].
    rewrite N.lxor_assoc, N.lxor_nilpotent, N.lxor_0_r. reflexivity.
Qed.
Lemma Linv_Liter k : forall x, x < 2^32 -> Linv_iter k (Liter k x) = x.
Proof.
  induction k as [|k IH]; intros x B; [reflexivity|].
  cbn [Liter Linv_iter]. rewrite IH by (apply L_bound; exact B). apply Linv_L. exact B.
Qed.

(* ---------- error bytes (xor_bytes, in_window_msb, burst_msb: Codec/BitErr.v) ---------- *)
Lemma bits_of_byte_lxor x y : bits_of_byte (N.lxor x y) = xorl (bits_of_byte x) (bits_of_byte y).
Proof. unfold bits_of_byte, xorl. cbn [map combine fst snd]. rewrite !N.lxor_spec. reflexivity. Qed.
Lemma bits_xor_bytes a : forall b, bits_of_bytes (xor_bytes a b) = diff_bits a b.
Proof.
  unfold diff_bits, xor_bytes. induction a as [|x a IH]; intros [|y b]; try reflexivity.
  cbn [combine map fst snd].
    change (bits_of_bytes (N.lxor x y :: map (fun p => N.lxor (fst p) (snd p)) (combine a b)))
      with (bits_of_byte (N.lxor x y) ++ bits_of_bytes (map (fun p => N.lxor (fst p) (snd p)) (combine a b))).
    change (bits_of_bytes (x :: a)) with (bits_of_byte x ++ bits_of_bytes a).
    change (bits_of_bytes (y :: b)) with (bits_of_byte y ++ bits_of_bytes b).
    rewrite xorl_app by reflexivity. rewrite IH, bits_of_byte_lxor. reflexivity.
Qed.
Lemma xor_bytes_bytes a : forall b, bytes a -> bytes b -> bytes (xor_bytes a b).
Proof.
  unfold xor_bytes. induction a as [|x a IH]; intros [|y b] Ha Hb; try constructor.
  - inversion Ha. inversion Hb. subst. unfold byte in *. apply (lxor_bound x y 8); assumption.
  - inversion Ha. inversion Hb. subst. apply IH; assumption.
Qed.
Lemma xor_bytes_app a : forall a' b b', length a = length a' ->
  xor_bytes (a ++ b) (a' ++ b') = xor_bytes a a' ++ xor_bytes b b'.
Proof.
  unfold xor_bytes. induction a as [|x a IH]; intros [|x' a'] b b' H; try discriminate; [reflexivity|].
  cbn [app combine map]. f_equal. apply IH. injection H; auto.
Qed.
Lemma xor_bytes_length a : forall b, length a = length b -> length (xor_bytes a b) = length a.
Proof. intros b H. unfold xor_bytes. rewrite map_length, combine_length. lia. Qed.

Lemma in_window_app E1 E2 p len : in_window_msb (E1 ++ E2) p len ->
  in_window_msb E1 p len /\ in_window_msb E2 (p - 8 * length E1) len.
Proof.
  intros H. split.
  - intros j t Ht Hb. apply H; [exact Ht|].
    destruct (Nat.lt_ge_cases j (length E1)) as [Lj|Lj].
    + rewrite app_nth1 by exact Lj. exact Hb.
    + rewrite nth_overflow in Hb by exact Lj. rewrite N.bits_0 in Hb. discriminate.
  - intros j t Ht Hb. specialize (H (length E1 + j)%nat t Ht). rewrite app_nth2_plus in H. specialize (H Hb). lia.
Qed.

(* ---------- finite facts about single bytes ---------- *)
Lemma byte_no_bits b : b < 256 -> (forall t, (t < 8)%nat -> N.testbit b (N.of_nat (7 - t)) = false) -> b = 0.
Proof.
  intros Hb H.
  assert (A : forallb (fun k => (N.of_nat k =? 0) ||
               existsb (fun t => N.testbit (N.of_nat k) (N.of_nat (7 - t))) (seq 0 8)) (seq 0 256) = true)
    by (vm_compute; reflexivity).
  rewrite forallb_forall in A. specialize (A (N.to_nat b)). rewrite N2Nat.id in A.
  assert (I : In (N.to_nat b) (seq 0 256)) by (apply in_seq; lia).
  apply A in I. apply orb_true_iff in I. destruct I as [I|I]; [apply N.eqb_eq; exact I|].
  apply existsb_exists in I. destruct I as (t & It & Et). apply in_seq in It. rewrite H in Et by lia. discriminate.
Qed.
Lemma crc_zero_byte s : crc_bits s (bits_of_byte 0) = Liter 8 s.
Proof. rewrite crc_bits_closed. cbn [bits_of_byte map length]. change (bval _) with 0. rewrite N.lxor_0_r. reflexivity. Qed.
Lemma weight_pos_bval e : (1 <= weight e)%nat -> bval e <> 0.
Proof.
  unfold weight. induction e as [|b e IH]; cbn [filter length bval]; [lia|].
  destruct b; cbn [length N.b2n]; [lia|]. intros H. specialize (IH H). lia.
Qed.
Lemma le_val_zero l : (forall j, nth j l 0 = 0) -> le_val l = 0.
Proof.
  induction l as [|x l IH]; intros H; [reflexivity|]. cbn [le_val].
  rewrite (H 0%nat : x = 0). rewrite IH; [reflexivity|]. intros j. exact (H (S j)).
Qed.

(* the candidate patterns: for every last byte h and alignment a, some set bit of byte 0 or of byte 4 lies
   outside the window of 31 bits starting at MSB-first offset a *)
Definition msb31_check : bool :=
  forallb (fun h => forallb (fun a =>
    existsb (fun t =>
      (N.testbit (Linv_iter 32 (N.of_nat h) mod 256) (N.of_nat (7 - t)) && (t <? a)%nat) ||
      (N.testbit (N.of_nat h) (N.of_nat (7 - t)) && (a + 31 <=? 32 + t)%nat)) (seq 0 8))
    (seq 0 8)) (seq 1 255).
Lemma msb31_check_ok : msb31_check = true.
Proof. vm_compute. reflexivity. Qed.

(* ---------- the core: a pattern inside 31 MSB-first bits of one codeword has non-zero syndrome ---------- *)
Lemma short_within32 (E : list N) : (length E <= 4)%nat -> within32 (bits_of_bytes E).
Proof.
  intros H. exists 0%nat. intros i Hi.
  assert (i < length (bits_of_bytes E))%nat.
  { destruct (Nat.lt_ge_cases i (length (bits_of_bytes E))); [assumption|].
    rewrite nth_overflow in Hi by assumption. discriminate. }
  rewrite bits_of_bytes_length in H0. lia.
Qed.

Theorem msb31_core : forall E p, bytes E -> in_window_msb E p 31 -> (1 <= weight (bits_of_bytes E))%nat ->
  crc_bits 0 (bits_of_bytes E) <> 0.
Proof.
  induction E as [|b0 E IH]; intros p Hb Hw Hn; [cbn in Hn; lia|].
  inversion Hb as [|? ? Hb0 HbE]. subst.
  destruct (le_lt_dec 8 p) as [Hp|Hp].
  - (* the window starts after this byte: the byte is zero *)
    assert (b0 = 0).
    { apply byte_no_bits; [exact Hb0|]. intros t Ht.
      destruct (N.testbit b0 (N.of_nat (7 - t))) eqn:Eb; [|reflexivity].
      specialize (Hw 0%nat t Ht Eb). lia. }
    subst b0. change (bits_of_bytes (0 :: E)) with (bits_of_byte 0 ++ bits_of_bytes E) in *.
    rewrite crc_bits_app, crc_zero_byte, Liter_0.
    rewrite weight_app in Hn. change (weight (bits_of_byte 0)) with 0%nat in Hn.
    apply (IH (p - 8)%nat); [exact HbE| |exact Hn].
    intros j t Ht Hbit. specialize (Hw (S j) t Ht Hbit). lia.
  - (* the window starts in this byte *)
    destruct E as [|b1 [|b2 [|b3 [|b4 rest]]]];
      try (apply bits_burst32; [apply short_within32; cbn [length]; lia|exact Hn]).
    assert (Hb' := Hb). unfold bytes in Hb'. rewrite Forall_forall in Hb'.
    assert (B0 : b0 < 256) by (apply Hb'; cbn; auto).
    assert (B1 : b1 < 256) by (apply Hb'; cbn; auto).
    assert (B2 : b2 < 256) by (apply Hb'; cbn; auto).
    assert (B3 : b3 < 256) by (apply Hb'; cbn; auto).
    assert (B4 : b4 < 256) by (apply Hb'; cbn; auto 6).
    assert (Brest : bytes rest).
    { apply Forall_forall. intros x Hx. apply Hb'. cbn. auto 8. }
    assert (Zrest : forall j, nth j rest 0 = 0).
    { intros j. apply byte_no_bits.
      - destruct (Nat.lt_ge_cases j (length rest)) as [Lj|Lj].
        + unfold bytes in Brest. rewrite Forall_forall in Brest. apply Brest, nth_In, Lj.
        + rewrite nth_overflow by exact Lj. reflexivity.
      - intros t Ht. destruct (N.testbit (nth j rest 0) (N.of_nat (7 - t))) eqn:Eb; [|reflexivity].
        specialize (Hw (5 + j)%nat t Ht Eb). lia. }
    set (lo := le_val [b0; b1; b2; b3]).
    assert (Lo : lo < 2^32).
    { unfold lo. change (2^32) with (256 ^ lenN [b0; b1; b2; b3]). apply le_val_bound.
      repeat constructor; assumption. }
    intros S.
    change (bits_of_bytes (b0 :: b1 :: b2 :: b3 :: b4 :: rest))
      with (bits_of_bytes [b0; b1; b2; b3] ++ bits_of_byte b4 ++ bits_of_bytes rest) in S, Hn.
    rewrite !crc_bits_app in S.
    rewrite (crc_bits_closed (bits_of_bytes [b0; b1; b2; b3])) in S.
    rewrite bval_bytes in S by (repeat constructor; assumption). fold lo in S.
    rewrite N.lxor_0_l in S.
    change (length (bits_of_bytes [b0; b1; b2; b3])) with 32%nat in S.
    rewrite (crc_bits_closed (bits_of_byte b4)) in S. rewrite bval_byte in S by exact B4.
    change (length (bits_of_byte b4)) with 8%nat in S.
    rewrite (crc_bits_closed (bits_of_bytes rest)) in S. rewrite bval_bytes in S by exact Brest.
    rewrite (le_val_zero rest Zrest), N.lxor_0_r in S.
    assert (S32 : Liter 32 lo < 2^32) by (apply Liter_bound; exact Lo).
    assert (X : N.lxor (Liter 32 lo) b4 < 2^32).
    { apply lxor_bound; [exact S32|]. change (2^32) with 4294967296. lia. }
    apply Liter_zero in S; [|apply Liter_bound; exact X].
    apply Liter_zero in S; [|exact X].
    apply N.lxor_eq in S.
    assert (Elo : lo = Linv_iter 32 b4) by (rewrite <- S; symmetry; apply Linv_Liter; exact Lo).
    assert (E0 : lo mod 256 = b0) by (unfold lo; cbn [le_val]; lia).
    destruct (N.eq_dec b4 0) as [Z4|N4].
    + (* then everything is zero *)
      rewrite Z4 in Elo, Hn. change (Linv_iter 32 0) with 0 in Elo.
      apply weight_pos_bval in Hn. apply Hn.
      rewrite !bval_app. rewrite bval_bytes by (repeat constructor; assumption). fold lo. rewrite Elo.
      rewrite (bval_byte 0) by reflexivity. rewrite (bval_bytes rest) by exact Brest. rewrite (le_val_zero rest Zrest).
      rewrite ?N.mul_0_r, ?N.add_0_r, ?N.mul_0_r, ?N.add_0_l. reflexivity.
    + pose proof msb31_check_ok as C. unfold msb31_check in C. rewrite forallb_forall in C.
      specialize (C (N.to_nat b4)). rewrite N2Nat.id in C.
      assert (I4 : In (N.to_nat b4) (seq 1 255)) by (apply in_seq; lia).
      apply C in I4. rewrite forallb_forall in I4. specialize (I4 p).
      assert (Ip : In p (seq 0 8)) by (apply in_seq; lia).
      apply I4 in Ip. apply existsb_exists in Ip. destruct Ip as (t & It & Et). apply in_seq in It.
      rewrite <- Elo, E0 in Et. apply orb_true_iff in Et. destruct Et as [Et|Et]; apply andb_true_iff in Et; destruct Et as [T1 T2].
      * apply Nat.ltb_lt in T2. specialize (Hw 0%nat t ltac:(lia) T1). lia.
      * apply Nat.leb_le in T2. specialize (Hw 4%nat t ltac:(lia) T1). lia.
Qed.

(* ---------- chunks ---------- *)
Theorem chunk_burst31_msb_rejected_lemma devices m l l' c : bytes l -> bytes l' ->
  chunk_decode devices m l = Ok c -> length l' = length l -> l' <> l -> burst_msb 31 l l' ->
  exists k, chunk_decode devices m l' = Err k.
Proof.
  intros Hb Hb' Hd Hlen Hne [p Hw]. apply reject_of_not_ok; [assumption|]. intros c' Hd'.
  pose proof (hamming_pos_lemma l l' Hb Hb' Hlen Hne) as Hpos. unfold hamming_bits in Hpos.
  apply chunk_exact_lemma in Hd; [|assumption]. apply chunk_exact_lemma in Hd'; [|assumption].
  destruct Hd as (Hok & _ & ->). destruct Hd' as (Hok' & _ & ->).
  destruct (encode_diff c c' (eq_sym Hlen)) as (E & S1 & S2 & _ & _).
  rewrite E, weight_app in Hpos.
  rewrite (chunk_encode_cw c), (chunk_encode_cw c') in Hw. rewrite chunk_encode_cw in Hb. rewrite chunk_encode_cw in Hb'.
  rewrite xor_bytes_app in Hw by (rewrite !cw1_length; reflexivity).
  apply in_window_app in Hw. destruct Hw as [W1 W2].
  apply bytes_app in Hb. apply bytes_app in Hb'. destruct Hb as [Hb1 Hb2]. destruct Hb' as [Hb1' Hb2'].
  rewrite <- bits_xor_bytes in S1, S2, Hpos. rewrite <- (bits_xor_bytes (cw2 c)) in Hpos.
  destruct (Nat.eq_dec (weight (bits_of_bytes (xor_bytes (cw1 c) (cw1 c')))) 0) as [Z|Z].
  - apply (msb31_core _ _ (xor_bytes_bytes _ _ Hb2 Hb2') W2); [lia|exact S2].
  - apply (msb31_core _ _ (xor_bytes_bytes _ _ Hb1 Hb1') W1); [lia|exact S1].
Qed.

(* ---------- exactly 32 MSB-first bits: refuted ---------- *)
Definition in_window_msbb (E : list N) (p len : nat) : bool :=
  forallb (fun j => forallb (fun t =>
    implb (N.testbit (nth j E 0) (N.of_nat (7 - t))) ((p <=? 8 * j + t)%nat && (8 * j + t <? p + len)%nat))
    (seq 0 8)) (seq 0 (length E)).
Lemma in_window_msbb_sound E p len : in_window_msbb E p len = true -> in_window_msb E p len.
Proof.
  intros H j t Ht Hb. unfold in_window_msbb in H. rewrite forallb_forall in H.
  assert (Lj : (j < length E)%nat).
  { destruct (Nat.lt_ge_cases j (length E)); [assumption|]. rewrite nth_overflow, N.bits_0 in Hb by assumption. discriminate. }
  specialize (H j ltac:(apply in_seq; lia)). rewrite forallb_forall in H.
  specialize (H t ltac:(apply in_seq; lia)). rewrite Hb in H. cbn [implb] in H.
  apply andb_true_iff in H. destruct H as [A B]. apply Nat.leb_le in A. apply Nat.ltb_lt in B. lia.
Qed.

Theorem chunk_burst32_msb_refuted_lemma :
  exists devices m l l' c c',
    bytes l /\ bytes l' /\ chunk_decode devices m l = Ok c /\ length l' = length l /\ l' <> l /\
    burst_msb 32 l l' /\ chunk_decode devices m l' = Ok c' /\ c_payload c' <> c_payload c.
Proof.
  exists [2281646316], Checked, msb_witness, msb_witness'.
  eexists. eexists.
  split; [apply bytesb_spec; vm_compute; reflexivity|].
  split; [apply bytesb_spec; vm_compute; reflexivity|].
  split; [vm_compute; reflexivity|].
  split; [reflexivity|].
  split; [unfold msb_witness, msb_witness'; intros H; discriminate H|].
  split; [exists 161%nat; apply in_window_msbb_sound; vm_compute; reflexivity|].
  split; [vm_compute; reflexivity|].
  cbn [c_payload]. intros H. discriminate H.
Qed.

(* ---------- exactly 32 MSB-first bits: the undetected patterns are exactly two ---------- *)
Definition msb32_check : bool :=
  forallb (fun h => forallb (fun a =>
    existsb (fun t =>
      (N.testbit (Linv_iter 32 (N.of_nat h) mod 256) (N.of_nat (7 - t)) && (t <? a)%nat) ||
      (N.testbit (N.of_nat h) (N.of_nat (7 - t)) && (a + 32 <=? 32 + t)%nat)) (seq 0 8)
    || ((h =? 128)%nat && (a =? 1)%nat) || ((h =? 242)%nat && (a =? 7)%nat))
    (seq 0 8)) (seq 1 255).
Lemma msb32_check_ok : msb32_check = true.
Proof. vm_compute. reflexivity. Qed.

Lemma all_zero_repeat (l : list N) : (forall j, nth j l 0 = 0) -> l = repeat 0 (length l).
Proof.
  induction l as [|x l IH]; intros H; [reflexivity|]. cbn [length repeat].
  rewrite (H 0%nat : x = 0). f_equal. apply IH. intros j. exact (H (S j)).
Qed.

Theorem msb32_core : forall E p, bytes E -> in_window_msb E p 32 -> (1 <= weight (bits_of_bytes E))%nat ->
  crc_bits 0 (bits_of_bytes E) = 0 -> is_gen_multiple E.
Proof.
  induction E as [|b0 E IH]; intros p Hb Hw Hn Hs; [cbn in Hn; lia|].
  inversion Hb as [|? ? Hb0 HbE]. subst.
  destruct (le_lt_dec 8 p) as [Hp|Hp].
  - assert (b0 = 0).
    { apply byte_no_bits; [exact Hb0|]. intros t Ht.
      destruct (N.testbit b0 (N.of_nat (7 - t))) eqn:Eb; [|reflexivity].
      specialize (Hw 0%nat t Ht Eb). lia. }
    subst b0. change (bits_of_bytes (0 :: E)) with (bits_of_byte 0 ++ bits_of_bytes E) in *.
    rewrite crc_bits_app, crc_zero_byte, Liter_0 in Hs.
    rewrite weight_app in Hn. change (weight (bits_of_byte 0)) with 0%nat in Hn.
    destruct (IH (p - 8)%nat HbE) as (j & r & pat & Hpat & ->); [|exact Hn|exact Hs|].
    + intros j t Ht Hbit. specialize (Hw (S j) t Ht Hbit). lia.
    + exists (S j), r, pat. split; [exact Hpat|reflexivity].
  - destruct E as [|b1 [|b2 [|b3 [|b4 rest]]]];
      try (exfalso; revert Hs; apply bits_burst32; [apply short_within32; cbn [length]; lia|exact Hn]).
    assert (Hb' := Hb). unfold bytes in Hb'. rewrite Forall_forall in Hb'.
    assert (B0 : b0 < 256) by (apply Hb'; cbn; auto).
    assert (B1 : b1 < 256) by (apply Hb'; cbn; auto).
    assert (B2 : b2 < 256) by (apply Hb'; cbn; auto).
    assert (B3 : b3 < 256) by (apply Hb'; cbn; auto).
    assert (B4 : b4 < 256) by (apply Hb'; cbn; auto 6).
    assert (Brest : bytes rest).
    { apply Forall_forall. intros x Hx. apply Hb'. cbn. auto 8. }
    assert (Zrest : forall j, nth j rest 0 = 0).
    { intros j. apply byte_no_bits.
      - destruct (Nat.lt_ge_cases j (length rest)) as [Lj|Lj].
        + unfold bytes in Brest. rewrite Forall_forall in Brest. apply Brest, nth_In, Lj.
        + rewrite nth_overflow by exact Lj. reflexivity.
      - intros t Ht. destruct (N.testbit (nth j rest 0) (N.of_nat (7 - t))) eqn:Eb; [|reflexivity].
        specialize (Hw (5 + j)%nat t Ht Eb). lia. }
    set (lo := le_val [b0; b1; b2; b3]).
    assert (Lo : lo < 2^32).
    { unfold lo. change (2^32) with (256 ^ lenN [b0; b1; b2; b3]). apply le_val_bound.
      repeat constructor; assumption. }
    change (bits_of_bytes (b0 :: b1 :: b2 :: b3 :: b4 :: rest))
      with (bits_of_bytes [b0; b1; b2; b3] ++ bits_of_byte b4 ++ bits_of_bytes rest) in Hs, Hn.
    rewrite !crc_bits_app in Hs.
    rewrite (crc_bits_closed (bits_of_bytes [b0; b1; b2; b3])) in Hs.
    rewrite bval_bytes in Hs by (repeat constructor; assumption). fold lo in Hs.
    rewrite N.lxor_0_l in Hs.
    change (length (bits_of_bytes [b0; b1; b2; b3])) with 32%nat in Hs.
    rewrite (crc_bits_closed (bits_of_byte b4)) in Hs. rewrite bval_byte in Hs by exact B4.
    change (length (bits_of_byte b4)) with 8%nat in Hs.
    rewrite (crc_bits_closed (bits_of_bytes rest)) in Hs. rewrite bval_bytes in Hs by exact Brest.
    rewrite (le_val_zero rest Zrest), N.lxor_0_r in Hs.
    assert (S32 : Liter 32 lo < 2^32) by (apply Liter_bound; exact Lo).
    assert (X : N.lxor (Liter 32 lo) b4 < 2^32).
    { apply lxor_bound; [exact S32|]. change (2^32) with 4294967296. lia. }
    apply Liter_zero in Hs; [|apply Liter_bound; exact X].
    apply Liter_zero in Hs; [|exact X].
    apply N.lxor_eq in Hs.
    assert (Elo : lo = Linv_iter 32 b4) by (rewrite <- Hs; symmetry; apply Linv_Liter; exact Lo).
    assert (E0 : lo mod 256 = b0) by (unfold lo; cbn [le_val]; lia).
    rewrite (all_zero_repeat rest Zrest).
    destruct (N.eq_dec b4 0) as [Z4|N4].
    + exfalso. rewrite Z4 in Elo, Hn. change (Linv_iter 32 0) with 0 in Elo.
      apply weight_pos_bval in Hn. apply Hn.
      rewrite !bval_app. rewrite bval_bytes by (repeat constructor; assumption). fold lo. rewrite Elo.
      rewrite (bval_byte 0) by reflexivity. rewrite (bval_bytes rest) by exact Brest. rewrite (le_val_zero rest Zrest).
      rewrite ?N.mul_0_r, ?N.add_0_r, ?N.mul_0_r, ?N.add_0_l. reflexivity.
    + pose proof msb32_check_ok as C. unfold msb32_check in C. rewrite forallb_forall in C.
      specialize (C (N.to_nat b4)).
      assert (I4 : In (N.to_nat b4) (seq 1 255)) by (apply in_seq; lia).
      apply C in I4. rewrite forallb_forall in I4. specialize (I4 p).
      assert (Ip : In p (seq 0 8)) by (apply in_seq; lia).
      apply I4 in Ip. rewrite N2Nat.id in Ip.
      apply orb_true_iff in Ip. destruct Ip as [Ip|Ip]; [apply orb_true_iff in Ip; destruct Ip as [Ip|Ip]|].
      * exfalso. apply existsb_exists in Ip. destruct Ip as (t & It & Et). apply in_seq in It.
        rewrite <- Elo, E0 in Et. apply orb_true_iff in Et.
        destruct Et as [Et|Et]; apply andb_true_iff in Et; destruct Et as [T1 T2].
        -- apply Nat.ltb_lt in T2. specialize (Hw 0%nat t ltac:(lia) T1). lia.
        -- apply Nat.leb_le in T2. specialize (Hw 4%nat t ltac:(lia) T1). lia.
      * apply andb_true_iff in Ip. destruct Ip as [H4 _]. apply Nat.eqb_eq in H4.
        assert (H128 : b4 = 128) by lia. rewrite H128 in Elo |- *.
        change (Linv_iter 32 128) with 4259550562 in Elo. unfold lo in Elo. cbn [le_val] in Elo.
        remember (b1 + 256 * (b2 + 256 * (b3 + 256 * 0))) as X1 eqn:EX1.
        assert (A0 : b0 = 98 /\ X1 = 16638869) by lia. destruct A0 as [-> ->].
        remember (b2 + 256 * (b3 + 256 * 0)) as X2 eqn:EX2.
        assert (A1 : b1 = 149 /\ X2 = 64995) by lia. destruct A1 as [-> ->].
        assert (A2 : b2 = 227 /\ b3 = 253) by lia. destruct A2 as [-> ->].
        exists 0%nat, (length rest), gen_pat1. split; [left; reflexivity|reflexivity].
      * apply andb_true_iff in Ip. destruct Ip as [H4 _]. apply Nat.eqb_eq in H4.
        assert (H242 : b4 = 242) by lia. rewrite H242 in Elo |- *.
        change (Linv_iter 32 242) with 1803748097 in Elo. unfold lo in Elo. cbn [le_val] in Elo.
        remember (b1 + 256 * (b2 + 256 * (b3 + 256 * 0))) as X1 eqn:EX1.
        assert (A0 : b0 = 1 /\ X1 = 7045891) by lia. destruct A0 as [-> ->].
        remember (b2 + 256 * (b3 + 256 * 0)) as X2 eqn:EX2.
        assert (A1 : b1 = 3 /\ X2 = 27523) by lia. destruct A1 as [-> ->].
        assert (A2 : b2 = 131 /\ b3 = 107) by lia. destruct A2 as [-> ->].
        exists 0%nat, (length rest), gen_pat2. split; [right; reflexivity|reflexivity].
Qed.

(* conversely both patterns are multiples of the generator: zero syndrome wherever they sit *)
Lemma crc_zero_bytes_state r : forall s, crc_bits s (bits_of_bytes (repeat 0 r)) = Liter (8 * r) s.
Proof.
  induction r as [|r IH]; intros s; [reflexivity|].
  change (bits_of_bytes (repeat 0 (S r))) with (bits_of_byte 0 ++ bits_of_bytes (repeat 0 r)).
  rewrite crc_bits_app, crc_zero_byte, IH. replace (8 * S r)%nat with (8 * r + 8)%nat by lia.
  rewrite Liter_add. reflexivity.
Qed.
Theorem gen_multiple_undetected E : is_gen_multiple E -> crc_bits 0 (bits_of_bytes E) = 0.
Proof.
  intros (j & r & pat & Hpat & ->). rewrite !bits_of_bytes_app, !crc_bits_app.
  rewrite (crc_zero_bytes_state j 0), Liter_0.
  assert (Z : crc_bits 0 (bits_of_bytes pat) = 0) by (destruct Hpat as [->| ->]; vm_compute; reflexivity).
  rewrite Z, crc_zero_bytes_state. apply Liter_0.
Qed.

Theorem msb32_exactly_two E p : bytes E -> in_window_msb E p 32 -> (1 <= weight (bits_of_bytes E))%nat ->
  (crc_bits 0 (bits_of_bytes E) = 0 <-> is_gen_multiple E).
Proof.
  intros Hb Hw Hn. split; [apply (msb32_core E p); assumption|apply gen_multiple_undetected].
Qed.
