(* Model of `impl TryFrom<Vec<Chunk>> for PwbV2Packet` (detector/src/padwing.rs:1528-1590) and the
   order-independent specification of an acceptable chunk set.  Definitions only.
   The sort (slice::sort_unstable_by_key) and the payload decoder (PwbV2Packet::try_from(&[u8]), modelled
   elsewhere) are Section variables. *)
From Coq Require Import Sorting.Permutation Sorting.Sorted.
From AG Require Import Base.Prelude Base.Res Base.Bytes Codec.Chunk.

(* error kinds of TryPwbPacketFromChunksError; the two `position` payloads are kept, found/expected are not *)
Definition E_MISSING (pos : N) : N := 1 + 8 * pos.     (* MissingChunk { position } *)
Definition E_DEVICE : N := 2.                           (* DeviceIdMismatch *)
Definition E_CHIP : N := 3.                             (* ChannelIdMismatch *)
Definition E_NO_EOM : N := 4.                           (* MissingEndOfMessageChunk *)
Definition E_EOM_EARLY (pos : N) : N := 5 + 8 * pos.    (* MisplacedEndOfMessageChunk { position } *)
Definition E_LENGTH : N := 6.                           (* PayloadLengthMismatch *)
Definition E_PAYLOAD : N := 7.                          (* BadPayload(_) *)

(* iter().position(p) for a predicate that may panic *)
Fixpoint position {A} (p : A -> res bool) (l : list A) (i : N) : res (option N) :=
  match l with
  | [] => Ok None
  | x :: t => do b <- p x; if b then Ok (Some i) else position p t (i + 1)
  end.
(* iter().position(p) for a total predicate *)
Fixpoint posb {A} (p : A -> bool) (l : list A) (i : N) : option N :=
  match l with
  | [] => None
  | x :: t => if p x then Some i else posb p t (i + 1)
  end.
(* iter().enumerate().position(|(i, c)| usize::from(c.chunk_id) != i), counting from i *)
Fixpoint first_bad_id (ids : list N) (i : N) : option N :=
  match ids with
  | [] => None
  | x :: t => if x =? i then first_bad_id t (i + 1) else Some i
  end.
(* slice.last() *)
Definition last_opt {A} (l : list A) : option A := match rev l with [] => None | x :: _ => Some x end.

Section Reasm.
Variable devices : list N.
Variable m : ovf.
Variable sortF : list chunk -> list chunk.   (* chunks.sort_unstable_by_key(|c| c.chunk_id) *)

(* Chunk::board_id() = BoardId::try_from(self.device_id).unwrap()  (padwing.rs:405).  The BoardId found is a
   function of the device id and contains it, so two board ids are equal iff the device ids are. *)
Definition board_id (c : chunk) : res N := if dev_known devices (c_dev c) then Ok (c_dev c) else Panic.
(* Chunk::after_id() = AfterId::try_from(self.channel_id).unwrap()  (padwing.rs:464) *)
Definition after_id (c : chunk) : res N := if c_chan c <=? 3 then Ok (c_chan c) else Panic.

(* the checks after the sort, on the sorted vector; returns the concatenated payload *)
Definition reasm_sorted (s : list chunk) : res (list N) :=
  (* 1554-1560 *)
  match first_bad_id (map c_id s) 0 with
  | Some pos => Err (E_MISSING pos)
  | None =>
  (* 1561 chunks.last().unwrap().is_end_of_message() *)
  do lastc <- unwrap (last_opt s);
  guard (negb (c_eom lastc)) E_NO_EOM (
  (* 1564-1570 .take(chunks.len() - 1).position(|c| c.is_end_of_message()) *)
  do n1 <- usub m 64 (lenN s) 1;
  match posb c_eom (takeN n1 s) 0 with
  | Some pos => Err (E_EOM_EARLY pos)
  | None =>
  (* 1571-1580 .take(chunks.len() - 1).position(|c| c.payload().len() != chunks[0].payload().len()) *)
  do c0 <- idx s 0;
  match posb (fun c => negb (lenN (c_payload c) =? lenN (c_payload c0))) (takeN n1 s) 0 with
  | Some _ => Err E_LENGTH
  | None =>
  (* 1581 let max_items = chunks[0].payload().len() * chunks.len() *)
  do _ <- umul m 64 (lenN (c_payload c0)) (lenN s);
  (* 1582-1587 fold: extend_from_slice of every payload in order *)
  Ok (flat_map c_payload s)
  end end) end.

(* all structural checks; returns the bytes handed to PwbV2Packet::try_from(&[u8]) *)
Definition reasm_struct (cs : list chunk) : res (list N) :=
  (* 1532 *)
  guard (match cs with [] => true | _ => false end) (E_MISSING 0) (
  (* 1535-1543: chunks[0].board_id() is evaluated inside the closure, first for the first element, so
     evaluating it once beforehand panics in exactly the same cases *)
  do c0 <- idx cs 0;
  do b0 <- board_id c0;
  do r <- position (fun c => do b <- board_id c; Ok (negb (b =? b0))) cs 0;
  match r with
  | Some _ => Err E_DEVICE
  | None =>
  (* 1544-1552 *)
  do a0 <- after_id c0;
  do r <- position (fun c => do a <- after_id c; Ok (negb (a =? a0))) cs 0;
  match r with
  | Some _ => Err E_CHIP
  | None => reasm_sorted (sortF cs)   (* 1553 *)
  end end).

Variable P : Type.
Variable pwb_decode : list N -> res P.       (* PwbV2Packet::try_from(&payload[..]) *)

(* 1588 Ok(PwbV2Packet::try_from(&payload[..])?)  with `?` converting through BadPayload(#[from]) *)
Definition reasm (cs : list chunk) : res P :=
  do payload <- reasm_struct cs;
  match pwb_decode payload with
  | Ok p => Ok p
  | Err _ => Err E_PAYLOAD
  | Panic => Panic
  end.
End Reasm.

(* executable instance of the sort: insertion sort by chunk id (stable; any admissible sort gives the same
   result by C04_reasm_perm) *)
Fixpoint insert_by_id (c : chunk) (l : list chunk) : list chunk :=
  match l with
  | [] => [c]
  | x :: t => if c_id c <=? c_id x then c :: l else x :: insert_by_id c t
  end.
Definition isort_by_id (l : list chunk) : list chunk := fold_right insert_by_id [] l.

(* what is assumed of slice::sort_unstable_by_key: the result is a permutation of the input, sorted by the key.
   Nothing is assumed about the relative order of chunks with equal ids. *)
Definition admissible_sort (sortF : list chunk -> list chunk) : Prop :=
  (forall l, Permutation l (sortF l)) /\ (forall l, Sorted.Sorted (fun a b => c_id a <= c_id b) (sortF l)).

(* ---------- specification: an acceptable set of chunks, independent of any order ---------- *)
Fixpoint nseq_from (i : N) (n : nat) : list N :=
  match n with O => [] | S k => i :: nseq_from (i + 1) k end.
(* 0, 1, ..., n-1 *)
Definition nseq (n : nat) : list N := nseq_from 0 n.

Definition wf_set (cs : list chunk) : Prop :=
  cs <> [] /\
  (forall c c', In c cs -> In c' cs -> c_dev c = c_dev c') /\                      (* one board *)
  (forall c c', In c cs -> In c' cs -> c_chan c = c_chan c') /\                    (* one chip *)
  Permutation (map c_id cs) (nseq (length cs)) /\                                   (* ids are 0..n-1 *)
  (forall c, In c cs -> (c_eom c = true <-> c_id c = lenN cs - 1)) /\              (* EOM on id n-1 only *)
  (forall c c0, In c cs -> In c0 cs -> c_id c0 = 0 -> c_id c < lenN cs - 1 ->      (* ids < n-1: size of id 0 *)
     lenN (c_payload c) = lenN (c_payload c0)).
(* note: the size of the final chunk (id n-1) is not constrained at all; it may even exceed the others *)

(* payload of the chunk with id i *)
Definition payload_of (cs : list chunk) (i : N) : list N :=
  match find (fun c => c_id c =? i) cs with Some c => c_payload c | None => [] end.
(* concatenation of the payloads in id order *)
Definition concat_by_id (cs : list chunk) : list N := flat_map (payload_of cs) (nseq (length cs)).

(* the single faults, as predicates on the set *)
Definition F_board (cs : list chunk) : Prop := exists c c', In c cs /\ In c' cs /\ c_dev c <> c_dev c'.
Definition F_chip (cs : list chunk) : Prop := exists c c', In c cs /\ In c' cs /\ c_chan c <> c_chan c'.
Definition F_missing (cs : list chunk) : Prop := exists i, i < lenN cs /\ ~ In i (map c_id cs).
Definition F_dup (cs : list chunk) : Prop := ~ NoDup (map c_id cs).
Definition F_eom_absent (cs : list chunk) : Prop := exists c, In c cs /\ c_id c = lenN cs - 1 /\ c_eom c = false.
Definition F_eom_early (cs : list chunk) : Prop := exists c, In c cs /\ c_id c <> lenN cs - 1 /\ c_eom c = true.
Definition F_size (cs : list chunk) : Prop :=
  exists c c0, In c cs /\ In c0 cs /\ c_id c0 = 0 /\ c_id c < lenN cs - 1 /\ lenN (c_payload c) <> lenN (c_payload c0).


(* ---------- the sender side: a payload cut into pieces, numbered, end-of-message on the last ---------- *)
Definition mk_chunk (dev chan : N) (pseq cseq : N -> N) (i flags : N) (p : list N) : chunk :=
  {| c_dev := dev; c_pseq := pseq i; c_cseq := cseq i; c_chan := chan; c_flags := flags; c_id := i; c_payload := p |}.
(* pieces `front` (all of one size) followed by a last piece of any size *)
Definition chunks_of (dev chan : N) (pseq cseq : N -> N) (front : list (list N)) (lastp : list N) : list chunk :=
  map (fun ip => mk_chunk dev chan pseq cseq (fst ip) 0 (snd ip)) (combine (nseq (length front)) front)
  ++ [mk_chunk dev chan pseq cseq (N.of_nat (length front)) 1 lastp].
