(* The winnow 0.6.1 combinators used by detector/src/chronobox.rs, on a complete `&[u8]` stream,
   transcribed from the winnow SOURCE (~/.cargo/registry/src/*/winnow-0.6.1/src/...; file:line in the
   comments).  Definitions only.

   A Rust parser is `FnMut(&mut I) -> PResult<O, E>`: it mutates the stream in place, so the position of
   the stream AFTER A FAILURE is observable by the enclosing combinator (a failing parser does not rewind
   by itself: `timestamp_counter` fails after `le_u24` has consumed three bytes).  The outcome type
   therefore carries the remaining input in the error outcomes too:

     POk v rest     Ok(v), stream advanced to `rest`
     PBack rest     Err(ErrMode::Backtrack(_)), stream left at `rest`              error.rs:113
     PCut rest      Err(ErrMode::Cut(_)), stream left at `rest`                    error.rs:122
     PPanic         the thread panics
     PFuel          the model ran out of fuel (not a Rust outcome; excluded by theorem)

   `ErrMode::Incomplete` (error.rs:107) cannot occur: `&[u8]` is not a partial stream
   (`is_partial_supported() = false`), every `if PARTIAL && input.is_partial()` arm is dead.
   Error payloads (ErrorKind, context) are not modelled: no combinator used here inspects them.
   `trace(name, p)` is the identity without the `debug` feature (combinator/debug/mod.rs). *)
From AG Require Import Base.Prelude Base.Bytes.

Inductive pres (A : Type) : Type :=
| POk (a : A) (rest : list N)
| PBack (rest : list N)
| PCut (rest : list N)
| PPanic
| PFuel.
Arguments POk {A} a rest.
Arguments PBack {A} rest.
Arguments PCut {A} rest.
Arguments PPanic {A}.
Arguments PFuel {A}.

Definition parser (A : Type) : Type := list N -> pres A.

(* `let o = p.parse_next(i)?; k(o, i)` : `?` returns every Err unchanged, stream where p left it *)
Definition pbind {A B} (r : pres A) (k : A -> list N -> pres B) : pres B :=
  match r with
  | POk a rest => k a rest
  | PBack rest => PBack rest
  | PCut rest => PCut rest
  | PPanic => PPanic
  | PFuel => PFuel
  end.

(* ---------- stream primitives of `&[u8]` (stream/mod.rs) ---------- *)

(* build configuration: are `debug_assertions` on?  (decides what `ErrMode::assert` does) *)
Definition dbg_mode := bool.

(* ErrMode::assert(i, msg)                                                        error.rs:189-194
     = ErrMode::Cut(E::assert(i, msg));
   ParserError::assert                                                            error.rs:276-284
     #[cfg(debug_assertions)]      panic!("assert `{}` failed at {:#?}", ..)
     #[cfg(not(debug_assertions))] Self::from_error_kind(input, ErrorKind::Assert)          *)
Definition err_assert {A} (dbg : dbg_mode) (i : list N) : pres A :=
  if dbg then PPanic else PCut i.

(* ---------- token/mod.rs ---------- *)

(* take(c) -> take_::<_, _, false>(i, c)                                          token/mod.rs:788-801
     match i.offset_at(c) {                      // &[u8]: Ok(c) iff c <= len
       Ok(offset) => Ok(i.next_slice(offset)),   // returns the first c bytes, advances by c
       Err(_needed) => Err(ErrMode::from_error_kind(i, ErrorKind::Slice)),   // Backtrack, stream untouched
     } *)
Definition take (c : N) : parser (list N) := fun i =>
  if c <=? lenN i then POk (takeN c i) (dropN c i) else PBack i.

(* any -> any_::<_, _, false>                                                     token/mod.rs:62-76
     input.next_token().ok_or_else(|| ErrMode::from_error_kind(input, ErrorKind::Token)) *)
Definition any : parser N := fun i =>
  match i with
  | b :: rest => POk b rest
  | [] => PBack i
  end.

(* Compare<&[u8]> for &[u8]                                                       stream/mod.rs:2075-2086
     if t.iter().zip( *self).any(|(a, b)| a != b) { Error }
     else if self.len() < t.slice_len() { Incomplete } else { Ok(t.slice_len()) } *)
Inductive cmpres := CmpOk (len : N) | CmpIncomplete | CmpError.
Definition compare_bytes (i t : list N) : cmpres :=
  if existsb (fun ab => negb (fst ab =? snd ab)) (combine t i) then CmpError
  else if lenN i <? lenN t then CmpIncomplete else CmpOk (lenN t).

(* Compare<u8> for &[u8]                                                          stream/mod.rs:2147-2156
     match self.first().copied() { Some(c) if t == c => Ok(1), Some(_) => Error, None => Incomplete } *)
Definition compare_u8 (i : list N) (t : N) : cmpres :=
  match i with
  | c :: _ => if t =? c then CmpOk 1 else CmpError
  | [] => CmpIncomplete
  end.

(* literal(tag) -> literal_::<_, _, _, false>(i, t)                               token/mod.rs:153-173
     match i.compare(t) {
       CompareResult::Ok(len) => Ok(i.next_slice(len)),
       CompareResult::Incomplete | CompareResult::Error => Err(ErrMode::from_error_kind(i, ErrorKind::Tag)),
     }                                                     // Backtrack, stream untouched *)
Definition literal_of (c : cmpres) : parser (list N) := fun i =>
  match c with
  | CmpOk len => POk (takeN len i) (dropN len i)
  | CmpIncomplete | CmpError => PBack i
  end.
(* impl Parser for &[u8; N]: literal( *self)                                       parser.rs:854-863 *)
Definition literal_bytes (t : list N) : parser (list N) := fun i => literal_of (compare_bytes i t) i.

(* ---------- combinator/parser.rs ---------- *)

(* Map::parse_next                                                                combinator/parser.rs:77-82 *)
Definition map {A B} (p : parser A) (f : A -> B) : parser B := fun i =>
  pbind (p i) (fun a rest => POk (f a) rest).
(* Value::parse_next: parser.parse_next(input).map(|_| self.val.clone())          combinator/parser.rs:496-498 *)
Definition value {A B} (p : parser A) (v : B) : parser B := map p (fun _ => v).
(* Void::parse_next                                                               combinator/parser.rs:575-577 *)
Definition void {A} (p : parser A) : parser unit := map p (fun _ => tt).

(* impl Parser for u8: literal( *self).value( *self)                                parser.rs:734-745 *)
Definition literal_u8 (t : N) : parser N := value (fun i => literal_of (compare_u8 i t) i) t.

(* empty                                                                          combinator/core.rs:470-472 *)
Definition empty : parser unit := fun i => POk tt i.

(* Verify::parse_next                                                             combinator/parser.rs:447-456
     let start = input.checkpoint();
     let o = self.parser.parse_next(input)?;
     (self.filter)(o.borrow()).then_some(o).ok_or_else(|| {
         input.reset(&start);
         ErrMode::from_error_kind(input, ErrorKind::Verify) })      // Backtrack, stream reset to start *)
Definition verify {A} (p : parser A) (filter : A -> bool) : parser A := fun start =>
  pbind (p start) (fun o rest => if filter o then POk o rest else PBack start).

(* outcome of a user closure returning Result<O2, E2> (it may also panic) *)
Inductive cres (A : Type) : Type := COk (a : A) | CErr | CPanic.
Arguments COk {A} a.
Arguments CErr {A}.
Arguments CPanic {A}.

(* TryMap::parse_next                                                             combinator/parser.rs:132-141
     let start = input.checkpoint();
     let o = self.parser.parse_next(input)?;
     (self.map)(o).map_err(|err| {
         input.reset(&start);
         ErrMode::from_external_error(input, ErrorKind::Verify, err) })   // Backtrack, stream reset *)
Definition try_map {A B} (p : parser A) (g : A -> cres B) : parser B := fun start =>
  pbind (p start) (fun o rest =>
    match g o with
    | COk b => POk b rest
    | CErr => PBack start
    | CPanic => PPanic
    end).

(* ---------- binary/mod.rs ---------- *)

(* to_le_uint                                                                     binary/mod.rs:906-916
     let mut res = Uint::default();
     for (index, byte) in number.iter_offsets() { res = res + (Uint::from(byte) << (8 * index as u8)); }
   (u32 arithmetic; with at most 4 bytes < 256 neither `+` nor `<<` overflows) *)
Fixpoint to_le_uint_from (index : N) (res : N) (number : list N) : N :=
  match number with
  | [] => res
  | byte :: tl => to_le_uint_from (index + 1) (res + N.shiftl byte (8 * index)) tl
  end.
Definition to_le_uint (number : list N) : N := to_le_uint_from 0 0 number.

(* le_uint(input, bound) = take(bound).map(|n| to_le_uint(n.as_bytes()))          binary/mod.rs:893-903 *)
Definition le_uint (bound : N) : parser N := map (take bound) to_le_uint.
Definition le_u24 : parser N := le_uint 3.                                     (* binary/mod.rs:748-755 *)
Definition le_u32 : parser N := le_uint 4.                                     (* binary/mod.rs:793-800 *)
(* u8 -> u8_::<_, _, false>: input.next_token().ok_or_else(|| Backtrack(Token))   binary/mod.rs:1264-1276 *)
Definition u8 : parser N := any.

(* ---------- sequencing: tuples (parser.rs:966-981) and seq! (macros/seq.rs:106-141) ----------
   `$(let $output = $parser.parse_next(i)?;)+  Ok(($($output),+,))` — no checkpoint, no reset. *)
Definition tuple3 {A B C} (p1 : parser A) (p2 : parser B) (p3 : parser C) : parser (A * B * C) := fun i =>
  pbind (p1 i) (fun a i1 => pbind (p2 i1) (fun b i2 => pbind (p3 i2) (fun c i3 => POk (a, b, c) i3))).

(* ---------- combinator/branch.rs ---------- *)

(* alt((p0, p1)): Alt::choice for a 2-tuple                                       combinator/branch.rs:163-219
     let start = input.checkpoint();
     match self.0.parse_next(input) {
       Err(ErrMode::Backtrack(e)) => {
         input.reset(&start);
         match self.1.parse_next(input) {
           Err(ErrMode::Backtrack(e2)) => Err(ErrMode::Backtrack(e.or(e2).append(input, &start, ErrorKind::Alt))),
           res => res } }                         // after the last branch failed the stream is NOT reset
       res => res } *)
Definition alt2 {A} (p0 p1 : parser A) : parser A := fun start =>
  match p0 start with
  | PBack _ =>
      match p1 start with
      | PBack rest1 => PBack rest1
      | res => res
      end
  | res => res
  end.

(* ---------- combinator/multi.rs ---------- *)

(* repeat(0.., f) -> repeat0_(f, i), accumulating into a Vec                      combinator/multi.rs:301-328
     let mut acc = C::initial(None);
     loop {
       let start = i.checkpoint();
       let len = i.eof_offset();
       match f.parse_next(i) {
         Err(ErrMode::Backtrack(_)) => { i.reset(&start); return Ok(acc); }
         Err(e) => return Err(e),
         Ok(o) => {
           // infinite loop check: the parser must always consume
           if i.eof_offset() == len {
             return Err(ErrMode::assert(i, "`repeat` parsers must always consume"));
           }
           acc.accumulate(o);                    // Vec::push
         } } }
   One unit of fuel per loop iteration. *)
Fixpoint repeat0_loop {A} (dbg : dbg_mode) (fuel : nat) (f : parser A) (acc : list A) (i : list N)
  : pres (list A) :=
  match fuel with
  | O => PFuel
  | S fuel' =>
      let start := i in
      let len := lenN i in
      match f i with
      | PBack _ => POk acc start
      | PCut r => PCut r
      | PPanic => PPanic
      | PFuel => PFuel
      | POk o i' =>
          if lenN i' =? len then err_assert dbg i'
          else repeat0_loop dbg fuel' f (acc ++ [o]) i'
      end
  end.
Definition repeat0 {A} (dbg : dbg_mode) (fuel : nat) (f : parser A) : parser (list A) :=
  repeat0_loop dbg fuel f [].

(* separated_foldl1(parser, sep, op)                                              combinator/multi.rs:1010-1054
     let mut ol = parser.parse_next(i)?;
     loop {
       let start = i.checkpoint();
       let len = i.eof_offset();
       match sep.parse_next(i) {
         Err(ErrMode::Backtrack(_)) => { i.reset(&start); return Ok(ol); }
         Err(e) => return Err(e),
         Ok(s) => {
           // infinite loop check: the parser must always consume
           if i.eof_offset() == len {
             return Err(ErrMode::assert(i, "`repeat` parsers must always consume"));
           }
           match parser.parse_next(i) {
             Err(ErrMode::Backtrack(_)) => { i.reset(&start); return Ok(ol); }   // reset to BEFORE sep
             Err(e) => return Err(e),
             Ok(or) => { ol = op(ol, s, or); }
           } } } }
   One unit of fuel per loop iteration. *)
Fixpoint sep_foldl1_loop {A S} (dbg : dbg_mode) (fuel : nat) (p : parser A) (sep : parser S)
  (op : A -> S -> A -> A) (ol : A) (i : list N) : pres A :=
  match fuel with
  | O => PFuel
  | S fuel' =>
      let start := i in
      let len := lenN i in
      match sep i with
      | PBack _ => POk ol start
      | PCut r => PCut r
      | PPanic => PPanic
      | PFuel => PFuel
      | POk s i1 =>
          if lenN i1 =? len then err_assert dbg i1
          else
            match p i1 with
            | PBack _ => POk ol start
            | PCut r => PCut r
            | PPanic => PPanic
            | PFuel => PFuel
            | POk or i2 => sep_foldl1_loop dbg fuel' p sep op (op ol s or) i2
            end
      end
  end.
Definition separated_foldl1 {A S} (dbg : dbg_mode) (fuel : nat) (p : parser A) (sep : parser S)
  (op : A -> S -> A -> A) : parser A := fun i =>
  pbind (p i) (fun ol i0 => sep_foldl1_loop dbg fuel p sep op ol i0).

(* PResult::unwrap() on the result of `parse_next`: any Err panics *)
Definition presult_unwrap {A} (r : pres A) : pres A :=
  match r with
  | PBack _ | PCut _ => PPanic
  | r => r
  end.
