(* Model of alpha_g_detector::chronobox::chronobox_fifo (detector/src/chronobox.rs).
   The winnow parser `separated_foldl1(repeat(0.., fifo_entry), scalers_block, append)` on a complete
   `&[u8]` is: take timestamp/marker words while possible; when a complete scaler block follows, skip it
   and continue; otherwise stop, leaving the input at the first byte not consumed.  Definitions only. *)
From AG Require Import Base.Prelude Base.Res Base.Bytes.

Inductive entry :=
| TS (channel : N) (trailing : bool) (timestamp : N)      (* TimestampCounter *)
| MK (top_bit : bool) (counter : N).                      (* WrapAroundMarker *)

Definition NUM_INPUT_CHANNELS : N := 59.

(* one 4-byte word: le_u24 then the top byte *)
Definition word (b0 b1 b2 b3 : N) : option entry :=
  let temp := b0 + 256 * b1 + 65536 * b2 in
  if (N.land b3 0x80 =? 0x80) && (N.land b3 0x7F <? NUM_INPUT_CHANNELS)
  then Some (TS (N.land b3 0x7F) (N.land temp 1 =? 1) (N.land temp 0xFFFFFE))
  else if b3 =? 0xFF
  then Some (MK (N.land temp 0x800000 =? 0x800000) (N.land temp 0x7FFFFF))
  else None.

Inductive elem := E (e : entry) | Scalers.

(* 4-byte tag + 59 * 4 bytes + le_u32  = 244 bytes *)
Definition SCALERS_BODY : N := NUM_INPUT_CHANNELS * 4 + 4.

Definition next (l : list N) : option (elem * list N) :=
  match l with
  | b0 :: b1 :: b2 :: b3 :: r =>
      match word b0 b1 b2 b3 with
      | Some e => Some (E e, r)
      | None =>
          if (b0 =? 0x3C) && (b1 =? 0) && (b2 =? 0) && (b3 =? 0xFE) && (SCALERS_BODY <=? lenN r)
          then Some (Scalers, dropN SCALERS_BODY r) else None
      end
  | _ => None
  end.

Fixpoint parse (fuel : nat) (l : list N) : list entry * list N :=
  match fuel with
  | O => ([], l)
  | S f =>
      match next l with
      | Some (E e, r) => let (es, r') := parse f r in (e :: es, r')
      | Some (Scalers, r) => parse f r
      | None => ([], l)
      end
  end.

(* chronobox_fifo(&mut input): entries, and what is left in `input` *)
Definition cb_fifo (l : list N) : list entry * list N := parse (length l) l.

(* the resume protocol of the analysis binary: append each piece to the previous remainder, parse again *)
Fixpoint cb_feed (rem : list N) (pieces : list (list N)) : list entry * list N :=
  match pieces with
  | [] => ([], rem)
  | p :: ps =>
      let (es, r) := cb_fifo (rem ++ p) in
      let (es', r') := cb_feed r ps in (es ++ es', r')
  end.

(* observation *)
Definition entry_obs (e : entry) : list N :=
  match e with
  | TS c tr t => [0; c; (if tr then 1 else 0); t]
  | MK top c => [1; (if top then 1 else 0); c]
  end.
