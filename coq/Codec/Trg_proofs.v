From AG Require Import Base.Prelude Base.Res Base.Bytes Base.Mask Codec.Trg.

(* mask facts for 32-bit words *)
Lemma m_hi4 x : N.land x 0xF0000000 = (x / 2^28) mod 2^4 * 2^28.
Proof. replace 0xF0000000 with (2^32 - 2^28) by reflexivity. rewrite land_run by lia. reflexivity. Qed.
Lemma m_lo28 x : N.land x 0xFFFFFFF = x mod 2^28.
Proof. replace 0xFFFFFFF with (2^28 - 2^0) by reflexivity. rewrite land_run by lia.
  change (2^0) with 1. rewrite N.div_1_r, N.mul_1_r. reflexivity. Qed.
Lemma m_b31 x : N.land x 0x80000000 = (x / 2^31) mod 2^1 * 2^31.
Proof. replace 0x80000000 with (2^32 - 2^31) by reflexivity. rewrite land_run by lia. reflexivity. Qed.
Lemma m_16_30 x : N.land x 0x7FFF0000 = (x / 2^16) mod 2^15 * 2^16.
Proof. replace 0x7FFF0000 with (2^31 - 2^16) by reflexivity. rewrite land_run by lia. reflexivity. Qed.
Lemma m_lo16 x : N.land x 0xFFFF = x mod 2^16.
Proof. replace 0xFFFF with (2^16 - 2^0) by reflexivity. rewrite land_run by lia.
  change (2^0) with 1. rewrite N.div_1_r, N.mul_1_r. reflexivity. Qed.
Lemma m_hi8 x : N.land x 0xFF000000 = (x / 2^24) mod 2^8 * 2^24.
Proof. replace 0xFF000000 with (2^32 - 2^24) by reflexivity. rewrite land_run by lia. reflexivity. Qed.
Lemma m_hi24 x : N.land x 0xFFFFFF00 = (x / 2^8) mod 2^24 * 2^8.
Proof. replace 0xFFFFFF00 with (2^32 - 2^8) by reflexivity. rewrite land_run by lia. reflexivity. Qed.
Lemma m_lo8 x : N.land x 0xFF = x mod 2^8.
Proof. replace 0xFF with (2^8 - 2^0) by reflexivity. rewrite land_run by lia.
  change (2^0) with 1. rewrite N.div_1_r, N.mul_1_r. reflexivity. Qed.

Ltac trg_masks :=
  rewrite ?m_hi4, ?m_lo28, ?m_b31, ?m_16_30, ?m_lo16, ?m_hi8, ?m_hi24, ?m_lo8, ?shiftr_div in *;
  change (2^28) with 268435456 in *; change (2^4) with 16 in *; change (2^31) with 2147483648 in *;
  change (2^1) with 2 in *; change (2^16) with 65536 in *; change (2^15) with 32768 in *;
  change (2^24) with 16777216 in *; change (2^8) with 256 in *; change (2^32) with 4294967296 in *;
  change (2^64) with 18446744073709551616 in *.

Ltac rd_step l :=
  match goal with
  | |- context [rd_le l ?a ?n] =>
      let w := fresh "w" in let E := fresh "E" in let Hw := fresh "Hw" in let Hen := fresh "Hen" in
      destruct (rd_le_ok l a n ltac:(lia) ltac:(assumption)) as (w & E & Hw & Hen);
      rewrite E; cbn [bind]
  end.

Ltac pow256 := change (256^4) with 4294967296 in *; change (256^8) with 18446744073709551616 in *.

(* word-level facts, each proved in a small context *)
Lemma w_hi4 w : w < 4294967296 -> w = N.land w 0xF0000000 + N.land w 0xFFFFFFF.
Proof. intros H. trg_masks. lia. Qed.
Lemma w_udp w : w < 4294967296 -> N.land w 0x80000000 = 0 -> w < 2147483648.
Proof. intros H. trg_masks. lia. Qed.
Lemma w_d36 w : w < 4294967296 -> N.land w 0x7FFF0000 = 0 ->
  w = (if negb (N.land w 0x80000000 =? 0) then 0x80000000 else 0) + N.land w 0xFFFF.
Proof. intros H. trg_masks. intros H1. case_if; lia. Qed.
Lemma w_d52 w : w < 4294967296 -> N.land w 0xFF000000 = 0 ->
  N.shiftr w 16 < 256 /\ w = N.shiftr w 16 * 65536 + N.land w 0xFFFF.
Proof. intros H. trg_masks. lia. Qed.
Lemma w_lo8 w : w < 4294967296 -> N.land w 0xFFFFFF00 = 0 -> w = N.land w 0xFF.
Proof. intros H. trg_masks. lia. Qed.
Lemma w_lo8_bound w : N.land w 0xFF < 256.
Proof. trg_masks. lia. Qed.
Lemma w_lo16_bound w : N.land w 0xFFFF < 65536.
Proof. trg_masks. lia. Qed.
Lemma w_lo28 w : N.land w 0xFFFFFFF = w mod 268435456.
Proof. trg_masks. reflexivity. Qed.



Theorem trg_total_lemma l : bytes l -> trg_decode l <> Panic.
Proof.
  intros Hb. unfold trg_decode, guard.
  destruct (N.eqb_spec (lenN l) 80) as [L|L]; cbn [negb]; [|discriminate].
  repeat (rd_step l; try (case_if; [discriminate|])). pow256.
  match goal with H : negb (N.land ?w 0xFF000000 =? 0) = false, B : ?w < _ |- _ =>
    apply negb_eqb_false in H; destruct (w_d52 w B H) as [S _];
    replace (N.shiftr w 16 <? 256) with true by (clear - S; lia) end.
  cbn [bind].
  repeat (case_if; [discriminate|]). discriminate.
Qed.


Lemma split80 (l : list N) : lenN l = 80 ->
  l = subN l 0 4 ++ subN l 4 4 ++ subN l 8 4 ++ subN l 12 4 ++ subN l 16 4 ++ subN l 20 4 ++
      subN l 24 4 ++ subN l 28 4 ++ subN l 32 4 ++ subN l 36 4 ++ subN l 40 4 ++ subN l 44 4 ++
      subN l 48 4 ++ subN l 52 4 ++ subN l 56 8 ++ subN l 64 4 ++ subN l 68 4 ++ subN l 72 4 ++
      subN l 76 4.
Proof.
  intros L.
  rewrite (subN_join l 72 4 76 4 8), (subN_join l 68 4 72 8 12), (subN_join l 64 4 68 12 16) by reflexivity.
  rewrite (subN_join l 56 8 64 16 24), (subN_join l 52 4 56 24 28), (subN_join l 48 4 52 28 32) by reflexivity.
  rewrite (subN_join l 44 4 48 32 36), (subN_join l 40 4 44 36 40), (subN_join l 36 4 40 40 44) by reflexivity.
  rewrite (subN_join l 32 4 36 44 48), (subN_join l 28 4 32 48 52), (subN_join l 24 4 28 52 56) by reflexivity.
  rewrite (subN_join l 20 4 24 56 60), (subN_join l 16 4 20 60 64), (subN_join l 12 4 16 64 68) by reflexivity.
  rewrite (subN_join l 8 4 12 68 72), (subN_join l 4 4 8 72 76), (subN_join l 0 4 4 76 80) by reflexivity.
  symmetry. apply subN_all. rewrite L. reflexivity.
Qed.

Theorem trg_sound l f : bytes l -> trg_decode l = Ok f -> trg_fields_ok f /\ l = trg_encode f.
Proof.
  intros Hb. unfold trg_decode, guard.
  destruct (N.eqb_spec (lenN l) 80) as [L|L]; cbn [negb]; [|discriminate].
  repeat (rd_step l; try (case_if; [discriminate|])). pow256.
  match goal with H : negb (N.land ?w 0xFF000000 =? 0) = false, B : ?w < _ |- _ =>
    apply negb_eqb_false in H; destruct (w_d52 w B H) as [S52 W52];
    replace (N.shiftr w 16 <? 256) with true by (clear - S52; lia) end.
  cbn [bind].
  repeat (case_if; [discriminate|]).
  intros [= <-].
  norm_hyps.
  repeat match goal with
  | H : N.land ?w 0xF0000000 = _, B : ?w < 4294967296 |- _ =>
      pose proof (w_hi4 w B); rewrite H in *; clear H
  | H : N.land ?w 0x80000000 = 0, B : ?w < 4294967296 |- _ => pose proof (w_udp w B H); clear H
  | H : N.land ?w 0x7FFF0000 = 0, B : ?w < 4294967296 |- _ => pose proof (w_d36 w B H); clear H
  | H : N.land ?w 0xFFFFFF00 = 0, B : ?w < 4294967296 |- _ => pose proof (w_lo8 w B H); clear H
  end.
  rewrite ?w_lo28 in *.
  split.
  - unfold trg_fields_ok.
    cbn [t_udp t_ts t_out t_in t_pulser t_trigbm t_nim t_esata t_mlu t_aw16p t_drift t_scaled
         t_aw16m t_aw16b t_bsc t_bscm t_coin t_fw].
    change (2^31) with 2147483648; change (2^32) with 4294967296; change (2^16) with 65536;
    change (2^8) with 256; change (2^64) with 18446744073709551616.
    repeat split; try assumption; try apply w_lo8_bound; try apply w_lo16_bound; lia.
  - rewrite (split80 l L) at 1. unfold trg_encode, e32.
    cbn [t_udp t_ts t_out t_in t_pulser t_trigbm t_nim t_esata t_mlu t_aw16p t_drift t_scaled
         t_aw16m t_aw16b t_bsc t_bscm t_coin t_fw].
    repeat match goal with H : le_enc _ _ = subN l _ _ |- _ => rewrite <- H; clear H end.
    change (N.to_nat 4) with 4%nat. change (N.to_nat 8) with 8%nat.
    repeat match goal with |- _ ++ _ = _ ++ _ => f_equal end; try reflexivity; f_equal; lia.
Qed.



Lemma trg_encode_len f : lenN (trg_encode f) = 80.
Proof. unfold trg_encode, e32. autorewrite with len. reflexivity. Qed.

Lemma trg_encode_bytes f : bytes (trg_encode f).
Proof. unfold trg_encode, e32. repeat (apply bytes_app; split); apply le_enc_bytes. Qed.

(* reverse word facts *)
Lemma r_udp x : x < 2147483648 -> N.land x 0x80000000 = 0.
Proof. intros H. trg_masks. lia. Qed.
Lemma r_hdr_hi k o : k < 16 -> N.land (k * 268435456 + o mod 268435456) 0xF0000000 = k * 268435456.
Proof. intros H. trg_masks. lia. Qed.
Lemma r_hdr_lo k o : k < 16 -> N.land (k * 268435456 + o mod 268435456) 0xFFFFFFF = o mod 268435456.
Proof. intros H. trg_masks. lia. Qed.
Lemma r_d36_z (b : bool) p : p < 65536 -> N.land ((if b then 0x80000000 else 0) + p) 0x7FFF0000 = 0.
Proof. intros H. trg_masks. destruct b; lia. Qed.
Lemma r_d36_m (b : bool) p : p < 65536 -> negb (N.land ((if b then 0x80000000 else 0) + p) 0x80000000 =? 0) = b.
Proof.
  intros H. trg_masks.
  destruct b; [apply negb_true_iff, N.eqb_neq | apply negb_false_iff, N.eqb_eq]; lia.
Qed.
Lemma r_d36_p (b : bool) p : p < 65536 -> N.land ((if b then 0x80000000 else 0) + p) 0xFFFF = p.
Proof. intros H. trg_masks. destruct b; lia. Qed.
Lemma r_d52_z m b : m < 256 -> b < 65536 -> N.land (m * 65536 + b) 0xFF000000 = 0.
Proof. intros H H'. trg_masks. lia. Qed.
Lemma r_d52_m m b : m < 256 -> b < 65536 -> N.shiftr (m * 65536 + b) 16 = m.
Proof. intros H H'. trg_masks. lia. Qed.
Lemma r_d52_b m b : m < 256 -> b < 65536 -> N.land (m * 65536 + b) 0xFFFF = b.
Proof. intros H H'. trg_masks. lia. Qed.
Lemma r_lo8_z x : x < 256 -> N.land x 0xFFFFFF00 = 0.
Proof. intros H. trg_masks. lia. Qed.
Lemma r_lo8_v x : x < 256 -> N.land x 0xFF = x.
Proof. intros H. trg_masks. lia. Qed.

Ltac field_at f := match goal with |- context [subN (trg_encode f) ?a ?n] =>
  let E := fresh "E" in
  eassert (E : subN (trg_encode f) a n = _) by (unfold trg_encode, e32; sub_walk; reflexivity);
  rewrite E; clear E end.

Theorem trg_complete f : trg_fields_ok f -> trg_decode (trg_encode f) = Ok f.
Proof.
  intros (H1 & H2 & H3 & H4 & H5 & H6 & H7 & H8 & H9 & H10 & H11 & H12 & H13 & H14 & H15 & H16 & H17 & O1 & O2 & O3).
  change (2^31) with 2147483648 in *; change (2^32) with 4294967296 in *; change (2^16) with 65536 in *;
    change (2^8) with 256 in *; change (2^64) with 18446744073709551616 in *.
  unfold trg_decode, guard. rewrite trg_encode_len. cbn [N.eqb negb].
  rewrite !rd_le_eq by (rewrite trg_encode_len; lia).
  repeat field_at f.
  rewrite !le_val_enc_small by
    (change (256 ^ N.of_nat 4) with 4294967296; change (256 ^ N.of_nat 8) with 18446744073709551616;
     try destruct (t_mlu f); lia).
  cbn [bind].
  rewrite r_udp by assumption.
  change (2147483648 + t_out f mod 268435456) with (8 * 268435456 + t_out f mod 268435456).
  change (3758096384 + t_out f mod 268435456) with (14 * 268435456 + t_out f mod 268435456).
  rewrite !r_hdr_hi, !r_hdr_lo by lia.
  rewrite r_d36_z, r_d36_m, r_d36_p by assumption.
  rewrite r_d52_z, r_d52_m, r_d52_b by assumption.
  rewrite !r_lo8_z, !r_lo8_v by assumption.
  rewrite w_lo28.
  rewrite !N.eqb_refl. cbn [negb orb].
  change (8 * 268435456 =? 2147483648) with true. change (14 * 268435456 =? 3758096384) with true.
  cbn [negb].
  replace (t_in f <? t_out f) with false by (symmetry; apply N.ltb_ge; lia).
  replace (t_in f <? t_drift f) with false by (symmetry; apply N.ltb_ge; lia).
  replace (t_drift f <? t_out f) with false by (symmetry; apply N.ltb_ge; lia).
  replace (t_drift f <? t_scaled f) with false by (symmetry; apply N.ltb_ge; lia).
  replace (t_scaled f <? t_out f) with false by (symmetry; apply N.ltb_ge; lia).
  replace (t_aw16m f <? 256) with true by (symmetry; apply N.ltb_lt; lia).
  cbn [orb bind]. destruct f; reflexivity.
Qed.

Theorem trg_exact_lemma l f :
  bytes l -> (trg_decode l = Ok f <-> trg_fields_ok f /\ l = trg_encode f).
Proof.
  intros Hb. split.
  - apply trg_sound; assumption.
  - intros [H ->]. apply trg_complete; assumption.
Qed.

(* readability corollaries *)
Corollary trg_counters_ordered_lemma l f : bytes l -> trg_decode l = Ok f ->
  t_out f <= t_scaled f /\ t_scaled f <= t_drift f /\ t_drift f <= t_in f.
Proof. intros Hb H. apply trg_sound in H; [|assumption]. destruct H as [H _]. unfold trg_fields_ok in H. tauto. Qed.

Corollary trg_len_lemma l : lenN l <> 80 -> exists k, trg_decode l = Err k.
Proof.
  intros H. unfold trg_decode, guard. destruct (N.eqb_spec (lenN l) 80); [contradiction|]. cbn [negb]. eauto.
Qed.

Corollary trg_reencode_lemma l f : bytes l -> trg_decode l = Ok f -> trg_encode f = l.
Proof. intros Hb H. apply trg_sound in H; [|assumption]. symmetry. tauto. Qed.

(* a different byte string of an accepted packet's field values cannot be accepted with the same fields:
   in particular setting any reserved bit of an accepted packet yields a rejection or different fields *)
Corollary trg_injective_lemma l l' f : bytes l -> bytes l' ->
  trg_decode l = Ok f -> trg_decode l' = Ok f -> l = l'.
Proof.
  intros B B' H H'. apply trg_sound in H; [|assumption]. apply trg_sound in H'; [|assumption].
  destruct H as [_ ->]. destruct H' as [_ ->]. reflexivity.
Qed.
