(* Bitwise model of CRC-32C (Castagnoli, reflected, polynomial 0x82F63B78) as computed by the `crc32c` crate.
   crc32c_raw l = !crc32c::crc32c(l): initial value 0xFFFFFFFF, no final inversion.  Definitions only. *)
From AG Require Import Base.Prelude.

Definition POLY : N := 0x82F63B78.

(* one bit step: s = register, b = input bit *)
Definition crc_step (s : N) (b : bool) : N :=
  let s' := N.lxor s (N.b2n b) in
  N.lxor (N.shiftr s' 1) (if N.testbit s' 0 then POLY else 0).
Definition bits_of_byte (x : N) : list bool := map (N.testbit x) [0; 1; 2; 3; 4; 5; 6; 7].
Definition crc_bits (s : N) (l : list bool) : N := fold_left crc_step l s.
Definition crc_byte (s x : N) : N := crc_bits s (bits_of_byte x).
Definition crc_bytes (s : N) (l : list N) : N := fold_left crc_byte l s.
Definition crc32c_raw (l : list N) : N := crc_bytes 0xFFFFFFFF l.
Definition crc32c (l : list N) : N := N.lxor (crc32c_raw l) 0xFFFFFFFF.

(* serial bit string of a byte string: LSB first within each byte (transmission order of a reflected CRC) *)
Definition bits_of_bytes (l : list N) : list bool := flat_map bits_of_byte l.
