(* Proofs about the PWB v2 packet model (Codec/Pwb.v). *)
From Coq Require Import Sorted.
From AG Require Import Base.Prelude Base.Res Base.Bytes Base.Mask Codec.Adc Codec.Pwb.
