(* Proofs about the PWB v2 packet model (Codec/Pwb.v). *)
From Coq Require Import Sorted FinFun.
From AG Require Import Base.Prelude Base.Res Base.Bytes Base.Mask Codec.Adc Codec.Pwb.

(* ================= A. channels and the readout order ================= *)

Lemma chan_eqb_eq a b : chan_eqb a b = true <-> a = b.
Proof.
  destruct a, b; cbn [chan_eqb]; split; intros H; try discriminate; try (apply N.eqb_eq in H; subst; reflexivity);
    inversion H; subst; apply N.eqb_refl.
Qed.
Lemma chan_eqb_refl a : chan_eqb a a = true.
Proof. apply chan_eqb_eq. reflexivity. Qed.

Lemma In_Nrange i n : In i (Nrange n) <-> i < N.of_nat n.
Proof.
  unfold Nrange. rewrite in_map_iff. split.
  - intros (k & <- & Hk). apply in_seq in Hk. lia.
  - intros H. exists (N.to_nat i). split; [lia|]. apply in_seq. lia.
Qed.

Lemma position_In x l k : position x l = Some k -> In x l.
Proof.
  revert k. induction l as [|c t IH]; intros k; cbn [position]; [discriminate|].
  destruct (chan_eqb c x) eqn:Ec.
  - apply chan_eqb_eq in Ec. subst. intros _. left. reflexivity.
  - destruct (position x t) eqn:Ep; [|discriminate]. intros _. right. eapply IH. reflexivity.
Qed.
Lemma position_None x l : position x l = None <-> ~ In x l.
Proof.
  induction l as [|c t IH]; cbn [position In]; [tauto|].
  destruct (chan_eqb c x) eqn:Ec.
  - apply chan_eqb_eq in Ec. subst. split; [discriminate|]. intros H. exfalso. apply H. left. reflexivity.
  - assert (c <> x) by (intros ->; rewrite chan_eqb_refl in Ec; discriminate).
    destruct (position x t) eqn:Ep.
    + split; [discriminate|]. intros H1. exfalso. apply H1. right. eapply position_In. eassumption.
    + split; [|reflexivity]. intros _ [H1|H1]; [contradiction|]. apply IH in H1; [assumption|reflexivity].
Qed.
Lemma position_nth x l k : position x l = Some k -> nth_error l (N.to_nat k) = Some x.
Proof.
  revert k. induction l as [|c t IH]; intros k; cbn [position]; [discriminate|].
  destruct (chan_eqb c x) eqn:Ec.
  - apply chan_eqb_eq in Ec. subst. intros [= <-]. reflexivity.
  - destruct (position x t) eqn:Ep; [|discriminate]. intros [= <-].
    replace (N.to_nat (n + 1)) with (S (N.to_nat n)) by lia. cbn [nth_error]. apply IH. reflexivity.
Qed.
Lemma position_lt x l k : position x l = Some k -> k < lenN l.
Proof.
  intros H. apply position_nth in H. assert (nth_error l (N.to_nat k) <> None) by congruence.
  apply nth_error_Some in H0. unfold lenN. lia.
Qed.

Lemma readout_order_length : length readout_order = 79%nat.
Proof. reflexivity. Qed.

(* finite checks over the 79 readout indices / the 79 channels *)
Lemma readout_fwd_check :
  forallb (fun i => match readout_chan i with
                    | Some c => (chan_readout c =? i) && chan_valid c &&
                                match chan_of_readout Checked i, chan_of_readout Wrapping i with
                                | Ok a, Ok b => chan_eqb a c && chan_eqb b c
                                | _, _ => false
                                end
                    | None => false end) (map N.succ (Nrange 79)) = true.
Proof. vm_compute. reflexivity. Qed.
Lemma readout_bwd_check :
  forallb (fun c => match readout_chan (chan_readout c) with Some c' => chan_eqb c' c | None => false end &&
                    (1 <=? chan_readout c) && (chan_readout c <=? 79) &&
                    match c with
                    | Reset n => (1 <=? n) && (n <=? 3)
                    | Fpn n => (1 <=? n) && (n <=? 4)
                    | Pad n => (1 <=? n) && (n <=? 72)
                    end) readout_order = true.
Proof. vm_compute. reflexivity. Qed.

Lemma readout_chan_range i c : readout_chan i = Some c -> 1 <= i <= 79.
Proof.
  unfold readout_chan. destruct (N.eqb_spec i 0); [discriminate|]. intros H.
  assert (nth_error readout_order (N.to_nat (i - 1)) <> None) by congruence.
  apply nth_error_Some in H0. rewrite readout_order_length in H0. lia.
Qed.
Lemma readout_chan_none i : i = 0 \/ 80 <= i -> readout_chan i = None.
Proof.
  unfold readout_chan. intros [->|H]; [reflexivity|].
  destruct (N.eqb_spec i 0); [reflexivity|]. apply nth_error_None. rewrite readout_order_length. lia.
Qed.
Lemma in_succ_range i : 1 <= i <= 79 -> In i (map N.succ (Nrange 79)).
Proof.
  intros H. apply in_map_iff. exists (i - 1). split; [lia|]. apply In_Nrange. lia.
Qed.

Lemma readout_fwd i c : readout_chan i = Some c ->
  chan_readout c = i /\ chan_valid c = true /\ 1 <= i <= 79 /\ forall m, chan_of_readout m i = Ok c.
Proof.
  intros H. pose proof (readout_chan_range i c H) as R.
  pose proof readout_fwd_check as F. rewrite forallb_forall in F. specialize (F i (in_succ_range i R)).
  rewrite H in F. apply andb_true_iff in F. destruct F as [F F3]. apply andb_true_iff in F. destruct F as [F1 F2].
  apply N.eqb_eq in F1. repeat split; try assumption; try lia.
  intros m. destruct (chan_of_readout Checked i) eqn:E1; try discriminate.
  destruct (chan_of_readout Wrapping i) eqn:E2; try discriminate.
  apply andb_true_iff in F3. destruct F3 as [G1 G2]. apply chan_eqb_eq in G1, G2. subst.
  destruct m; assumption.
Qed.

Lemma chan_valid_In c : chan_valid c = true -> In c readout_order.
Proof.
  unfold chan_valid, chan_readout. destruct (position c readout_order) eqn:Ep.
  - intros _. eapply position_In. eassumption.
  - rewrite N.eqb_refl. discriminate.
Qed.
Lemma In_chan_valid c : In c readout_order -> chan_valid c = true.
Proof.
  intros H. unfold chan_valid, chan_readout. destruct (position c readout_order) eqn:Ep.
  - destruct (N.eqb_spec (n + 1) 0); [lia|reflexivity].
  - apply position_None in Ep. contradiction.
Qed.

Lemma readout_bwd c : chan_valid c = true ->
  readout_chan (chan_readout c) = Some c /\ 1 <= chan_readout c <= 79.
Proof.
  intros H. apply chan_valid_In in H.
  pose proof readout_bwd_check as F. rewrite forallb_forall in F. specialize (F c H).
  repeat (apply andb_true_iff in F; destruct F as [F ?]).
  destruct (readout_chan (chan_readout c)) eqn:E1; [|discriminate].
  apply chan_eqb_eq in F. subst. split; [reflexivity|lia].
Qed.

Lemma chan_valid_shape c : chan_valid c = true <->
  match c with Reset n => 1 <= n <= 3 | Fpn n => 1 <= n <= 4 | Pad n => 1 <= n <= 72 end.
Proof.
  split.
  - intros H. apply chan_valid_In in H.
    pose proof readout_bwd_check as F. rewrite forallb_forall in F. specialize (F c H).
    apply andb_true_iff in F. destruct F as [_ F]. destruct c; lia.
  - intros H. apply In_chan_valid.
    destruct c as [n|n|n].
    + assert (n = 1 \/ n = 2 \/ n = 3) as [->|[->| ->]] by lia; vm_compute; tauto.
    + assert (n = 1 \/ n = 2 \/ n = 3 \/ n = 4) as [->|[->|[->| ->]]] by lia; vm_compute; tauto.
    + assert (G : forallb (fun k => existsb (chan_eqb (Pad (N.succ k))) readout_order) (Nrange 72) = true)
        by (vm_compute; reflexivity).
      rewrite forallb_forall in G. specialize (G (n - 1)). rewrite In_Nrange in G.
      replace (N.succ (n - 1)) with n in G by lia. specialize (G ltac:(lia)).
      apply existsb_exists in G. destruct G as (x & Hx & Ex). apply chan_eqb_eq in Ex. subst. assumption.
Qed.

(* the decoder's conversion is the documented readout order, in both overflow modes, for every u16 (every N) *)
Lemma chan_of_readout_pure m i :
  chan_of_readout m i = match readout_chan i with Some c => Ok c | None => Err PE end.
Proof.
  destruct (readout_chan i) eqn:Er.
  - apply readout_fwd in Er. apply Er.
  - assert (R : i = 0 \/ 80 <= i).
    { destruct (N.eq_dec i 0); [left; assumption|]. destruct (N.le_gt_cases 80 i); [right; assumption|].
      exfalso. pose proof readout_fwd_check as F. rewrite forallb_forall in F.
      specialize (F i (in_succ_range i ltac:(lia))). rewrite Er in F. discriminate. }
    unfold chan_of_readout. destruct R as [->|R]; [reflexivity|].
    replace ((1 <=? i) && (i <=? 3)) with false by lia.
    replace (i =? 16) with false by lia. replace (i =? 29) with false by lia.
    replace (i =? 54) with false by lia. replace (i =? 67) with false by lia.
    replace ((4 <=? i) && (i <=? 79)) with false by lia. reflexivity.
Qed.

Lemma readout_chan_d_ok i : 1 <= i <= 79 ->
  readout_chan i = Some (readout_chan_d i) /\ chan_readout (readout_chan_d i) = i /\ chan_valid (readout_chan_d i) = true.
Proof.
  intros R. unfold readout_chan_d. destruct (readout_chan i) eqn:Er.
  - apply readout_fwd in Er. tauto.
  - exfalso. pose proof readout_fwd_check as F. rewrite forallb_forall in F.
    specialize (F i (in_succ_range i R)). rewrite Er in F. discriminate.
Qed.
Lemma readout_chan_d_bwd c : chan_valid c = true -> readout_chan_d (chan_readout c) = c.
Proof. intros H. unfold readout_chan_d. destruct (readout_bwd c H) as [-> _]. reflexivity. Qed.

Lemma readout_order_NoDup : NoDup readout_order.
Proof.
  assert (H : NoDup (map chan_readout readout_order)).
  { replace (map chan_readout readout_order) with (map N.succ (Nrange 79)) by (vm_compute; reflexivity).
    apply FinFun.Injective_map_NoDup; [intros a b; lia|].
    unfold Nrange. apply FinFun.Injective_map_NoDup; [intros a b; lia|]. apply seq_NoDup. }
  apply NoDup_map_inv in H. assumption.
Qed.

(* ================= B. the mask loop ================= *)

Lemma filter_none {A} (p : A -> bool) l : (forall x, In x l -> p x = false) -> filter p l = [].
Proof.
  induction l as [|a t IH]; intros H; cbn [filter]; [reflexivity|].
  rewrite (H a) by (left; reflexivity). apply IH. intros x Hx. apply H. right. assumption.
Qed.

Lemma Nrange_split n k : (k < n)%nat ->
  Nrange n = Nrange k ++ [N.of_nat k] ++ map N.of_nat (seq (S k) (n - S k)).
Proof.
  intros H. unfold Nrange. replace n with (k + (1 + (n - S k)))%nat at 1 by lia.
  rewrite seq_app, map_app. f_equal.
Qed.

Lemma mask_bits_In num n i : In i (mask_bits num n) <-> i < N.of_nat n /\ N.testbit num i = true.
Proof. unfold mask_bits. rewrite filter_In, In_Nrange. tauto. Qed.

Lemma Nrange_sorted n : StronglySorted N.lt (Nrange n).
Proof.
  unfold Nrange. generalize 0%nat as a. induction n as [|n IH]; intros a; cbn [seq map]; constructor.
  - apply IH.
  - apply Forall_forall. intros x Hx. apply in_map_iff in Hx. destruct Hx as (k & <- & Hk).
    apply in_seq in Hk. lia.
Qed.
Lemma filter_sorted (p : N -> bool) l : StronglySorted N.lt l -> StronglySorted N.lt (filter p l).
Proof.
  induction 1 as [|a t Ht IH Ha]; cbn [filter]; [constructor|].
  destruct (p a); [|assumption]. constructor; [assumption|].
  rewrite Forall_forall in *. intros x Hx. apply filter_In in Hx. apply Ha. tauto.
Qed.
Lemma mask_bits_sorted num n : StronglySorted N.lt (mask_bits num n).
Proof. apply filter_sorted, Nrange_sorted. Qed.

(* two strictly ascending lists with the same elements are equal *)
Lemma sorted_ext (l1 l2 : list N) : StronglySorted N.lt l1 -> StronglySorted N.lt l2 ->
  (forall x, In x l1 <-> In x l2) -> l1 = l2.
Proof.
  intros S1. revert l2. induction S1 as [|a t St IH Ha]; intros l2 S2 H.
  - destruct l2 as [|b u]; [reflexivity|]. exfalso. apply (H b). left. reflexivity.
  - destruct S2 as [|b u Su Hb].
    + exfalso. apply (H a). left. reflexivity.
    + rewrite Forall_forall in Ha, Hb.
      assert (a = b).
      { destruct (proj1 (H a) (or_introl eq_refl)) as [E|E]; [symmetry; assumption|].
        destruct (proj2 (H b) (or_introl eq_refl)) as [E'|E']; [assumption|].
        specialize (Ha _ E'). specialize (Hb _ E). lia. }
      subst b. f_equal. apply IH; [assumption|]. intros x. split; intros Hx.
      * destruct (proj1 (H x) (or_intror Hx)) as [E|E]; [|assumption]. subst x. specialize (Ha _ Hx). lia.
      * destruct (proj2 (H x) (or_intror Hx)) as [E|E]; [|assumption]. subst x. specialize (Hb _ Hx). lia.
Qed.

Lemma high_bits_bound x n : (forall i, n <= i -> N.testbit x i = false) -> x < 2 ^ n.
Proof.
  intros H. destruct (N.eq_dec x 0) as [->|Hx]; [apply N.neq_0_lt_0, N.pow_nonzero; lia|].
  apply N.log2_lt_pow2; [lia|].
  destruct (N.lt_ge_cases (N.log2 x) n) as [L|L]; [assumption|].
  specialize (H (N.log2 x) L). rewrite (N.bit_log2 x Hx) in H. discriminate.
Qed.
Lemma bound_high_bits x n i : x < 2 ^ n -> n <= i -> N.testbit x i = false.
Proof.
  intros H L. destruct (N.eq_dec x 0) as [->|Hx]; [apply N.bits_0|].
  apply N.bits_above_log2. apply N.log2_lt_pow2 in H; lia.
Qed.

Lemma lz128_log2 x : x <> 0 -> N.log2 x < 128 -> 127 - lz128 x = N.log2 x /\ lz128 x <= 127.
Proof.
  intros Hx L. unfold lz128. rewrite N.size_log2 by assumption. lia.
Qed.

(* padwing.rs:1390-1394: the loop pushes the set bits from the highest to the lowest; fuel n suffices when
   no bit at or above position n is set *)
Lemma mask_loop_spec m : forall fuel n num, (n <= fuel)%nat -> (n <= 128)%nat ->
  (forall i, N.of_nat n <= i -> N.testbit num i = false) ->
  mask_loop m fuel num = Ok (rev (mask_bits num n)).
Proof.
  induction fuel as [|k IH]; intros n num Hn H128 Hhi.
  - assert (num = 0).
    { apply N.bits_inj_0. intros i. apply Hhi. lia. }
    subst. cbn [mask_loop]. rewrite N.eqb_refl.
    unfold mask_bits. rewrite filter_none; [reflexivity|]. intros x _. apply N.bits_0.
  - cbn [mask_loop]. destruct (N.eqb_spec num 0) as [->|Hx].
    + unfold mask_bits. rewrite filter_none; [reflexivity|]. intros x _. apply N.bits_0.
    + set (b := N.log2 num).
      assert (Tb : N.testbit num b = true) by (apply N.bit_log2; assumption).
      assert (Lb : b < N.of_nat n).
      { destruct (N.lt_ge_cases b (N.of_nat n)) as [L|L]; [assumption|]. rewrite (Hhi b L) in Tb. discriminate. }
      destruct (lz128_log2 num Hx ltac:(fold b; lia)) as [Lz1 Lz2]. fold b in Lz1.
      rewrite usub_ok by assumption. cbn [bind]. rewrite Lz1.
      unfold u16_unwrap. replace (b <? 65536) with true by lia. cbn [bind].
      unfold ushl. replace (b <? 128) with true by lia. cbn [bind].
      rewrite N.mul_1_l. rewrite N.mod_small by (apply N.pow_lt_mono_r; lia).
      set (num' := N.lxor num (2 ^ b)).
      assert (Hhi' : forall i, N.of_nat (N.to_nat b) <= i -> N.testbit num' i = false).
      { intros i Hi. unfold num'. rewrite N.lxor_spec, N.pow2_bits_eqb.
        destruct (N.eqb_spec b i) as [<-|Ne]; [rewrite Tb; reflexivity|].
        rewrite N.bits_above_log2 by (fold b; lia). reflexivity. }
      rewrite (IH (N.to_nat b) num') by (assumption || lia). cbn [bind]. f_equal.
      rewrite <- rev_unit. f_equal.
      unfold mask_bits. rewrite (Nrange_split n (N.to_nat b)) by lia.
      rewrite !filter_app. rewrite N2Nat.id. cbn [filter]. rewrite Tb.
      rewrite (filter_none _ (map _ _)).
      * rewrite app_nil_r. f_equal. apply filter_ext_in. intros i Hi. apply In_Nrange in Hi.
        unfold num'. rewrite N.lxor_spec, N.pow2_bits_false by lia. apply xorb_false_r.
      * intros x Hx'. apply in_map_iff in Hx'. destruct Hx' as (j & <- & Hj). apply in_seq in Hj.
        apply N.bits_above_log2. fold b. lia.
Qed.

Theorem mask_bits_ascending_lemma m num : num < 2 ^ 128 ->
  mask_loop m 128 num = Ok (rev (mask_bits num 128)) /\ StronglySorted N.lt (mask_bits num 128).
Proof.
  intros H. split; [|apply mask_bits_sorted].
  apply mask_loop_spec; try lia. intros i Hi. apply (bound_high_bits num 128); [assumption|lia].
Qed.

Lemma le_val_app_zeros a z : Forall (fun b => b = 0) z -> le_val (a ++ z) = le_val a.
Proof.
  intros Hz. induction a as [|x a IH]; cbn [app le_val].
  - induction Hz as [|b z Hb Hz IHz]; cbn [le_val]; [reflexivity|]. subst. rewrite IHz. reflexivity.
  - rewrite IH. reflexivity.
Qed.

Lemma map_res_ok {A B} (f : A -> res B) (g : A -> B) l : (forall a, In a l -> f a = Ok (g a)) ->
  map_res f l = Ok (map g l).
Proof.
  induction l as [|a t IH]; intros H; cbn [map_res map]; [reflexivity|].
  rewrite H by (left; reflexivity). cbn [bind]. rewrite IH by (intros; apply H; right; assumption). reflexivity.
Qed.

(* padwing.rs:1384-1400: ten mask bytes with bit 79 clear -> the channels of the set bits, ascending *)
Lemma mask_chans_ok m s : lenN s = 10 -> le_val s < 2 ^ 79 ->
  mask_chans m s = Ok (mask_chan_list (le_val s)).
Proof.
  intros L B. unfold mask_chans. rewrite arr_ok by assumption. cbn [bind].
  rewrite le_val_app_zeros by (repeat constructor).
  set (num := le_val s) in *.
  assert (Hhi : forall i, N.of_nat 79 <= i -> N.testbit num i = false).
  { intros i Hi. apply (bound_high_bits num 79); [assumption|lia]. }
  rewrite (mask_loop_spec m 128 79 num) by (assumption || lia). cbn [bind].
  rewrite rev_involutive. unfold mask_chan_list. apply map_res_ok.
  intros i Hi. apply mask_bits_In in Hi. destruct Hi as [Hi _].
  rewrite uadd_ok by (change (2^16) with 65536; lia). cbn [bind].
  rewrite chan_of_readout_pure.
  destruct (readout_chan_d_ok (i + 1) ltac:(lia)) as (-> & _). reflexivity.
Qed.
