(* Proofs about the PWB v2 packet model (Codec/Pwb.v).
   Engineering note: [mask_chan_list num] is [map _ (filter (N.testbit num) (Nrange 79))]; if the kernel ever has
   to compare a reduced and an unreduced copy of it, it unfolds [filter] into 79 nested [if]s whose two branches
   share the rest of the list and the comparison costs 2^79 (Qed never returns).  Therefore the list is only
   accessed through [In_mask_chan_list], [mask_bits_In], [mask_chan_list_*] and is kept behind [remember]
   (never [set]/[fold]/[change]) in proofs that also use [lia]/[destruct ... in H]. *)
From Coq Require Import Sorted FinFun.
From AG Require Import Base.Prelude Base.Res Base.Bytes Base.Mask Codec.Adc Codec.Pwb.

(* ================= A. channels and the readout order ================= *)

Lemma chan_eqb_eq a b : chan_eqb a b = true <-> a = b.
Proof.
  destruct a, b; cbn [chan_eqb]; split; intros H; try discriminate; try (apply N.eqb_eq in H; subst; reflexivity);
    inversion H; subst; apply N.eqb_refl.
Qed.
Lemma chan_eqb_refl a : chan_eqb a a = true.
Proof. apply chan_eqb_eq. reflexivity. Qed.

Lemma In_Nrange i n : In i (Nrange n) <-> i < N.of_nat n.
Proof.
  unfold Nrange. rewrite in_map_iff. split.
  - intros (k & <- & Hk). apply in_seq in Hk. lia.
  - intros H. exists (N.to_nat i). split; [lia|]. apply in_seq. lia.
Qed.

Lemma position_In x l k : position x l = Some k -> In x l.
Proof.
  revert k. induction l as [|c t IH]; intros k; cbn [position]; [discriminate|].
  destruct (chan_eqb c x) eqn:Ec.
  - apply chan_eqb_eq in Ec. subst. intros _. left. reflexivity.
  - destruct (position x t) eqn:Ep; [|discriminate]. intros _. right. eapply IH. reflexivity.
Qed.
Lemma position_None x l : position x l = None <-> ~ In x l.
Proof.
  induction l as [|c t IH]; cbn [position In]; [tauto|].
  destruct (chan_eqb c x) eqn:Ec.
  - apply chan_eqb_eq in Ec. subst. split; [discriminate|]. intros H. exfalso. apply H. left. reflexivity.
  - assert (c <> x) by (intros ->; rewrite chan_eqb_refl in Ec; discriminate).
    destruct (position x t) eqn:Ep.
    + split; [discriminate|]. intros H1. exfalso. apply H1. right. eapply position_In. eassumption.
    + split; [|reflexivity]. intros _ [H1|H1]; [contradiction|]. apply IH in H1; [assumption|reflexivity].
Qed.
Lemma position_nth x l k : position x l = Some k -> nth_error l (N.to_nat k) = Some x.
Proof.
  revert k. induction l as [|c t IH]; intros k; cbn [position]; [discriminate|].
  destruct (chan_eqb c x) eqn:Ec.
  - apply chan_eqb_eq in Ec. subst. intros [= <-]. reflexivity.
  - destruct (position x t) eqn:Ep; [|discriminate]. intros [= <-].
    replace (N.to_nat (n + 1)) with (S (N.to_nat n)) by lia. cbn [nth_error]. apply IH. reflexivity.
Qed.
Lemma position_lt x l k : position x l = Some k -> k < lenN l.
Proof.
  intros H. apply position_nth in H. assert (nth_error l (N.to_nat k) <> None) by congruence.
  apply nth_error_Some in H0. unfold lenN. lia.
Qed.

Lemma readout_order_length : length readout_order = 79%nat.
Proof. reflexivity. Qed.

(* finite checks over the 79 readout indices / the 79 channels *)
Lemma readout_fwd_check :
  forallb (fun i => match readout_chan i with
                    | Some c => (chan_readout c =? i) && chan_valid c &&
                                match chan_of_readout Checked i, chan_of_readout Wrapping i with
                                | Ok a, Ok b => chan_eqb a c && chan_eqb b c
                                | _, _ => false
                                end
                    | None => false end) (map N.succ (Nrange 79)) = true.
Proof. vm_compute. reflexivity. Qed.
Lemma readout_bwd_check :
  forallb (fun c => match readout_chan (chan_readout c) with Some c' => chan_eqb c' c | None => false end &&
                    (1 <=? chan_readout c) && (chan_readout c <=? 79) &&
                    match c with
                    | Reset n => (1 <=? n) && (n <=? 3)
                    | Fpn n => (1 <=? n) && (n <=? 4)
                    | Pad n => (1 <=? n) && (n <=? 72)
                    end) readout_order = true.
Proof. vm_compute. reflexivity. Qed.

Lemma readout_chan_range i c : readout_chan i = Some c -> 1 <= i <= 79.
Proof.
  unfold readout_chan. destruct (N.eqb_spec i 0); [discriminate|]. intros H.
  assert (nth_error readout_order (N.to_nat (i - 1)) <> None) by congruence.
  apply nth_error_Some in H0. rewrite readout_order_length in H0. lia.
Qed.
Lemma readout_chan_none i : i = 0 \/ 80 <= i -> readout_chan i = None.
Proof.
  unfold readout_chan. intros [->|H]; [reflexivity|].
  destruct (N.eqb_spec i 0); [reflexivity|]. apply nth_error_None. rewrite readout_order_length. lia.
Qed.
Lemma in_succ_range i : 1 <= i <= 79 -> In i (map N.succ (Nrange 79)).
Proof.
  intros H. apply in_map_iff. exists (i - 1). split; [lia|]. apply In_Nrange. lia.
Qed.

Lemma readout_fwd i c : readout_chan i = Some c ->
  chan_readout c = i /\ chan_valid c = true /\ 1 <= i <= 79 /\ forall m, chan_of_readout m i = Ok c.
Proof.
  intros H. pose proof (readout_chan_range i c H) as R.
  pose proof readout_fwd_check as F. rewrite forallb_forall in F. specialize (F i (in_succ_range i R)).
  rewrite H in F. apply andb_true_iff in F. destruct F as [F F3]. apply andb_true_iff in F. destruct F as [F1 F2].
  apply N.eqb_eq in F1. repeat split; try assumption; try lia.
  intros m. destruct (chan_of_readout Checked i) eqn:E1; try discriminate.
  destruct (chan_of_readout Wrapping i) eqn:E2; try discriminate.
  apply andb_true_iff in F3. destruct F3 as [G1 G2]. apply chan_eqb_eq in G1, G2. subst.
  destruct m; assumption.
Qed.

Lemma chan_valid_In c : chan_valid c = true -> In c readout_order.
Proof.
  unfold chan_valid, chan_readout. destruct (position c readout_order) eqn:Ep.
  - intros _. eapply position_In. eassumption.
  - rewrite N.eqb_refl. discriminate.
Qed.
Lemma In_chan_valid c : In c readout_order -> chan_valid c = true.
Proof.
  intros H. unfold chan_valid, chan_readout. destruct (position c readout_order) eqn:Ep.
  - destruct (N.eqb_spec (n + 1) 0); [lia|reflexivity].
  - apply position_None in Ep. contradiction.
Qed.

Lemma readout_bwd c : chan_valid c = true ->
  readout_chan (chan_readout c) = Some c /\ 1 <= chan_readout c <= 79.
Proof.
  intros H. apply chan_valid_In in H.
  pose proof readout_bwd_check as F. rewrite forallb_forall in F. specialize (F c H).
  repeat (apply andb_true_iff in F; destruct F as [F ?]).
  destruct (readout_chan (chan_readout c)) eqn:E1; [|discriminate].
  apply chan_eqb_eq in F. subst. split; [reflexivity|lia].
Qed.

Lemma chan_valid_shape c : chan_valid c = true <->
  match c with Reset n => 1 <= n <= 3 | Fpn n => 1 <= n <= 4 | Pad n => 1 <= n <= 72 end.
Proof.
  split.
  - intros H. apply chan_valid_In in H.
    pose proof readout_bwd_check as F. rewrite forallb_forall in F. specialize (F c H).
    apply andb_true_iff in F. destruct F as [_ F]. destruct c; lia.
  - intros H. apply In_chan_valid.
    destruct c as [n|n|n].
    + assert (n = 1 \/ n = 2 \/ n = 3) as [->|[->| ->]] by lia; vm_compute; tauto.
    + assert (n = 1 \/ n = 2 \/ n = 3 \/ n = 4) as [->|[->|[->| ->]]] by lia; vm_compute; tauto.
    + assert (G : forallb (fun k => existsb (chan_eqb (Pad (N.succ k))) readout_order) (Nrange 72) = true)
        by (vm_compute; reflexivity).
      rewrite forallb_forall in G. specialize (G (n - 1)). rewrite In_Nrange in G.
      replace (N.succ (n - 1)) with n in G by lia. specialize (G ltac:(lia)).
      apply existsb_exists in G. destruct G as (x & Hx & Ex). apply chan_eqb_eq in Ex. subst. assumption.
Qed.

(* the decoder's conversion is the documented readout order, in both overflow modes, for every u16 (every N) *)
Lemma chan_of_readout_pure m i :
  chan_of_readout m i = match readout_chan i with Some c => Ok c | None => Err PE end.
Proof.
  destruct (readout_chan i) eqn:Er.
  - apply readout_fwd in Er. apply Er.
  - assert (R : i = 0 \/ 80 <= i).
    { destruct (N.eq_dec i 0); [left; assumption|]. destruct (N.le_gt_cases 80 i); [right; assumption|].
      exfalso. pose proof readout_fwd_check as F. rewrite forallb_forall in F.
      specialize (F i (in_succ_range i ltac:(lia))). rewrite Er in F. discriminate. }
    unfold chan_of_readout. destruct R as [->|R]; [reflexivity|].
    replace ((1 <=? i) && (i <=? 3)) with false by lia.
    replace (i =? 16) with false by lia. replace (i =? 29) with false by lia.
    replace (i =? 54) with false by lia. replace (i =? 67) with false by lia.
    replace ((4 <=? i) && (i <=? 79)) with false by lia. reflexivity.
Qed.

Lemma readout_chan_d_ok i : 1 <= i <= 79 ->
  readout_chan i = Some (readout_chan_d i) /\ chan_readout (readout_chan_d i) = i /\ chan_valid (readout_chan_d i) = true.
Proof.
  intros R. unfold readout_chan_d. destruct (readout_chan i) eqn:Er.
  - apply readout_fwd in Er. tauto.
  - exfalso. pose proof readout_fwd_check as F. rewrite forallb_forall in F.
    specialize (F i (in_succ_range i R)). rewrite Er in F. discriminate.
Qed.
Lemma readout_chan_d_bwd c : chan_valid c = true -> readout_chan_d (chan_readout c) = c.
Proof. intros H. unfold readout_chan_d. destruct (readout_bwd c H) as [-> _]. reflexivity. Qed.

Lemma readout_order_NoDup : NoDup readout_order.
Proof.
  assert (H : NoDup (map chan_readout readout_order)).
  { replace (map chan_readout readout_order) with (map N.succ (Nrange 79)) by (vm_compute; reflexivity).
    apply FinFun.Injective_map_NoDup; [intros a b; lia|].
    unfold Nrange. apply FinFun.Injective_map_NoDup; [intros a b; lia|]. apply seq_NoDup. }
  apply NoDup_map_inv in H. assumption.
Qed.

(* ================= B. the mask loop ================= *)

Lemma filter_none {A} (p : A -> bool) l : (forall x, In x l -> p x = false) -> filter p l = [].
Proof.
  induction l as [|a t IH]; intros H; cbn [filter]; [reflexivity|].
  rewrite (H a) by (left; reflexivity). apply IH. intros x Hx. apply H. right. assumption.
Qed.

Lemma Nrange_split n k : (k < n)%nat ->
  Nrange n = Nrange k ++ [N.of_nat k] ++ map N.of_nat (seq (S k) (n - S k)).
Proof.
  intros H. unfold Nrange. replace n with (k + (1 + (n - S k)))%nat at 1 by lia.
  rewrite seq_app, map_app. f_equal.
Qed.

Lemma mask_bits_In num n i : In i (mask_bits num n) <-> i < N.of_nat n /\ N.testbit num i = true.
Proof. unfold mask_bits. rewrite filter_In, In_Nrange. tauto. Qed.

Lemma Nrange_sorted n : StronglySorted N.lt (Nrange n).
Proof.
  unfold Nrange. generalize 0%nat as a. induction n as [|n IH]; intros a; cbn [seq map]; constructor.
  - apply IH.
  - apply Forall_forall. intros x Hx. apply in_map_iff in Hx. destruct Hx as (k & <- & Hk).
    apply in_seq in Hk. lia.
Qed.
Lemma filter_sorted (p : N -> bool) l : StronglySorted N.lt l -> StronglySorted N.lt (filter p l).
Proof.
  induction 1 as [|a t Ht IH Ha]; cbn [filter]; [constructor|].
  destruct (p a); [|assumption]. constructor; [assumption|].
  rewrite Forall_forall in *. intros x Hx. apply filter_In in Hx. apply Ha. tauto.
Qed.
Lemma mask_bits_sorted num n : StronglySorted N.lt (mask_bits num n).
Proof. apply filter_sorted, Nrange_sorted. Qed.

(* two strictly ascending lists with the same elements are equal *)
Lemma sorted_ext (l1 l2 : list N) : StronglySorted N.lt l1 -> StronglySorted N.lt l2 ->
  (forall x, In x l1 <-> In x l2) -> l1 = l2.
Proof.
  intros S1. revert l2. induction S1 as [|a t St IH Ha]; intros l2 S2 H.
  - destruct l2 as [|b u]; [reflexivity|]. exfalso. apply (H b). left. reflexivity.
  - destruct S2 as [|b u Su Hb].
    + exfalso. apply (H a). left. reflexivity.
    + rewrite Forall_forall in Ha, Hb.
      assert (a = b).
      { destruct (proj1 (H a) (or_introl eq_refl)) as [E|E]; [symmetry; assumption|].
        destruct (proj2 (H b) (or_introl eq_refl)) as [E'|E']; [assumption|].
        specialize (Ha _ E'). specialize (Hb _ E). lia. }
      subst b. f_equal. apply IH; [assumption|]. intros x. split; intros Hx.
      * destruct (proj1 (H x) (or_intror Hx)) as [E|E]; [|assumption]. subst x. specialize (Ha _ Hx). lia.
      * destruct (proj2 (H x) (or_intror Hx)) as [E|E]; [|assumption]. subst x. specialize (Hb _ Hx). lia.
Qed.

Lemma high_bits_bound x n : (forall i, n <= i -> N.testbit x i = false) -> x < 2 ^ n.
Proof.
  intros H. destruct (N.eq_dec x 0) as [->|Hx]; [apply N.neq_0_lt_0, N.pow_nonzero; lia|].
  apply N.log2_lt_pow2; [lia|].
  destruct (N.lt_ge_cases (N.log2 x) n) as [L|L]; [assumption|].
  specialize (H (N.log2 x) L). rewrite (N.bit_log2 x Hx) in H. discriminate.
Qed.
Lemma bound_high_bits x n i : x < 2 ^ n -> n <= i -> N.testbit x i = false.
Proof.
  intros H L. destruct (N.eq_dec x 0) as [->|Hx]; [apply N.bits_0|].
  apply N.bits_above_log2. apply N.log2_lt_pow2 in H; lia.
Qed.

Lemma lz128_log2 x : x <> 0 -> N.log2 x < 128 -> 127 - lz128 x = N.log2 x /\ lz128 x <= 127.
Proof.
  intros Hx L. unfold lz128. rewrite N.size_log2 by assumption. lia.
Qed.

(* padwing.rs:1390-1394: the loop pushes the set bits from the highest to the lowest; fuel n suffices when
   no bit at or above position n is set *)
Lemma mask_loop_spec m : forall fuel n num, (n <= fuel)%nat -> (n <= 128)%nat ->
  (forall i, N.of_nat n <= i -> N.testbit num i = false) ->
  mask_loop m fuel num = Ok (rev (mask_bits num n)).
Proof.
  induction fuel as [|k IH]; intros n num Hn H128 Hhi.
  - assert (num = 0).
    { apply N.bits_inj_0. intros i. apply Hhi. lia. }
    subst. cbn [mask_loop]. rewrite N.eqb_refl.
    unfold mask_bits. rewrite filter_none; [reflexivity|]. intros x _. apply N.bits_0.
  - cbn [mask_loop]. destruct (N.eqb_spec num 0) as [->|Hx].
    + unfold mask_bits. rewrite filter_none; [reflexivity|]. intros x _. apply N.bits_0.
    + set (b := N.log2 num).
      assert (Tb : N.testbit num b = true) by (apply N.bit_log2; assumption).
      assert (Lb : b < N.of_nat n).
      { destruct (N.lt_ge_cases b (N.of_nat n)) as [L|L]; [assumption|]. rewrite (Hhi b L) in Tb. discriminate. }
      destruct (lz128_log2 num Hx ltac:(fold b; lia)) as [Lz1 Lz2]. fold b in Lz1.
      rewrite usub_ok by assumption. cbn [bind]. rewrite Lz1.
      unfold u16_unwrap. replace (b <? 65536) with true by lia. cbn [bind].
      unfold ushl. replace (b <? 128) with true by lia. cbn [bind].
      rewrite N.mul_1_l. rewrite N.mod_small by (apply N.pow_lt_mono_r; lia).
      set (num' := N.lxor num (2 ^ b)).
      assert (Hhi' : forall i, N.of_nat (N.to_nat b) <= i -> N.testbit num' i = false).
      { intros i Hi. unfold num'. rewrite N.lxor_spec, N.pow2_bits_eqb.
        destruct (N.eqb_spec b i) as [<-|Ne]; [rewrite Tb; reflexivity|].
        rewrite N.bits_above_log2 by (fold b; lia). reflexivity. }
      rewrite (IH (N.to_nat b) num') by (assumption || lia). cbn [bind]. f_equal.
      rewrite <- rev_unit. f_equal.
      unfold mask_bits. rewrite (Nrange_split n (N.to_nat b)) by lia.
      rewrite !filter_app. rewrite N2Nat.id. cbn [filter]. rewrite Tb.
      rewrite (filter_none _ (map _ _)).
      * rewrite app_nil_r. f_equal. apply filter_ext_in. intros i Hi. apply In_Nrange in Hi.
        unfold num'. rewrite N.lxor_spec, N.pow2_bits_false by lia. apply xorb_false_r.
      * intros x Hx'. apply in_map_iff in Hx'. destruct Hx' as (j & <- & Hj). apply in_seq in Hj.
        apply N.bits_above_log2. fold b. lia.
Qed.

Theorem mask_bits_ascending_lemma m num : num < 2 ^ 128 ->
  mask_loop m 128 num = Ok (rev (mask_bits num 128)) /\ StronglySorted N.lt (mask_bits num 128).
Proof.
  intros H. split; [|apply mask_bits_sorted].
  apply mask_loop_spec; try lia. intros i Hi. apply (bound_high_bits num 128); [assumption|lia].
Qed.

Lemma le_val_app_zeros a z : Forall (fun b => b = 0) z -> le_val (a ++ z) = le_val a.
Proof.
  intros Hz. induction a as [|x a IH]; cbn [app le_val].
  - induction Hz as [|b z Hb Hz IHz]; cbn [le_val]; [reflexivity|]. subst. rewrite IHz. reflexivity.
  - rewrite IH. reflexivity.
Qed.

Lemma map_res_ok {A B} (f : A -> res B) (g : A -> B) l : (forall a, In a l -> f a = Ok (g a)) ->
  map_res f l = Ok (map g l).
Proof.
  induction l as [|a t IH]; intros H; cbn [map_res map]; [reflexivity|].
  rewrite H by (left; reflexivity). cbn [bind]. rewrite IH by (intros; apply H; right; assumption). reflexivity.
Qed.

(* padwing.rs:1384-1400: ten mask bytes with bit 79 clear -> the channels of the set bits, ascending *)
Lemma mask_chans_ok m s : lenN s = 10 -> le_val s < 2 ^ 79 ->
  mask_chans m s = Ok (mask_chan_list (le_val s)).
Proof.
  intros L B. unfold mask_chans. rewrite arr_ok by assumption. cbn [bind].
  rewrite le_val_app_zeros by (repeat constructor).
  set (num := le_val s) in *.
  assert (Hhi : forall i, N.of_nat 79 <= i -> N.testbit num i = false).
  { intros i Hi. apply (bound_high_bits num 79); [assumption|lia]. }
  rewrite (mask_loop_spec m 128 79 num) by (assumption || lia). cbn [bind].
  rewrite rev_involutive. unfold mask_chan_list. apply map_res_ok.
  intros i Hi. apply mask_bits_In in Hi. destruct Hi as [Hi _].
  rewrite uadd_ok by (change (2^16) with 65536; lia). cbn [bind].
  rewrite chan_of_readout_pure.
  destruct (readout_chan_d_ok (i + 1) ltac:(lia)) as (-> & _). reflexivity.
Qed.

(* ================= C. panic-free, mode-free form of the decoder ================= *)

Fixpoint blocks_pure (req bpc : N) (d : list N) (cs : list chan) : bool :=
  match cs with
  | [] => true
  | c :: t =>
      match readout_chan (le_val (subN d 0 2)) with
      | Some fc => chan_eqb fc c
      | None => false
      end &&
      (le_val (subN d 2 2) =? req) &&
      ((req mod 2 =? 0) || list_eqb (subN d (4 + 2 * req) 2) [0; 0]) &&
      blocks_pure req bpc (dropN bpc d) t
  end.

Definition bpc_of (req : N) : N := 4 + 2 * req + 2 * (req mod 2).

Definition pwb_pure (macs : list (list N)) (l : list N) : res pwb :=
  if lenN l <? 56 then Err PE else
  if negb (nthN l 0 =? 2) then Err PE else
  match after_of_char (nthN l 1) with None => Err PE | Some chip =>
  if negb (nthN l 2 =? 0) then Err PE else
  match trigger_of (nthN l 3) with None => Err PE | Some trig =>
  let mac := subN l 4 6 in
  if negb (mac_known macs mac) then Err PE else
  if negb (list_eqb (subN l 18 2) [0; 0]) then Err PE else
  let last := le_val (subN l 20 2) in
  if 511 <? last then Err PE else
  let req := le_val (subN l 22 2) in
  if 511 <? req then Err PE else
  if 128 <=? nthN l 33 then Err PE else
  if 128 <=? nthN l 43 then Err PE else
  let sent := mask_chan_list (le_val (subN l 24 10)) in
  let over := mask_chan_list (le_val (subN l 34 10)) in
  let data := dropN 52 l in
  let bpc := bpc_of req in
  if negb (bpc * lenN sent + 4 =? lenN data) then Err PE else
  if negb (blocks_pure req bpc data sent) then Err PE else
  if negb (list_eqb (subN data (lenN data - 4) 4) [204; 204; 204; 204]) then Err PE else
  Ok {| p_chip := chip; p_trig := trig; p_mac := mac; p_delay := le_val (subN l 10 2);
        p_ts := le_val (subN l 12 8); p_last := last; p_req := req; p_sent := sent; p_over := over;
        p_counter := le_val (subN l 44 4); p_fifo := le_val (subN l 48 2);
        p_wdepth := nthN l 50; p_rdepth := nthN l 51; p_data := chunks2_le data |}
  end end.

Lemma pwb_pure_no_panic macs l : pwb_pure macs l <> Panic.
Proof.
  unfold pwb_pure.
  repeat (first [case_if | destruct (after_of_char _) | destruct (trigger_of _)]; try discriminate).
Qed.

Lemma subN_dropN {A} (l : list A) a o n : subN (dropN a l) o n = subN l (a + o) n.
Proof. unfold subN. rewrite dropN_dropN. reflexivity. Qed.

Lemma rd2_ok d a : a + 2 <= lenN d -> rd2 d a = Ok (le_val (subN d a 2)).
Proof.
  intros H. unfold rd2. rewrite slice_from_ok by lia. cbn [bind].
  rewrite slice_to_ok by (rewrite dropN_length; lia). cbn [bind].
  change (takeN 2 (dropN a d)) with (subN d a 2).
  rewrite arr_ok by (apply subN_length; assumption). reflexivity.
Qed.

Lemma land128 b : b < 256 -> (N.land b 128 =? 0) = (b <? 128).
Proof.
  intros H. replace 128 with (2^8 - 2^7) at 1 by reflexivity. rewrite land_run by lia.
  change (2^(8-7)) with 2. change (2^7) with 128.
  destruct (N.ltb_spec b 128); destruct (N.eqb_spec ((b / 128) mod 2 * 128) 0); lia.
Qed.

Lemma mask_chan_list_length num : lenN (mask_chan_list num) <= 79.
Proof.
  unfold mask_chan_list, mask_bits, lenN. rewrite map_length.
  assert (H : forall (p : N -> bool) l, (length (filter p l) <= length l)%nat).
  { intros p l. induction l as [|a t IH]; cbn [filter length]; [lia|]. destruct (p a); cbn [length]; lia. }
  specialize (H (N.testbit num) (Nrange 79)).
  unfold Nrange in H at 2. rewrite map_length, seq_length in H. lia.
Qed.

Lemma blocks_check_pure m req data : req <= 511 -> forall cs i,
  bpc_of req * (i + lenN cs) + 4 <= lenN data -> i + lenN cs <= 79 ->
  blocks_check m req (bpc_of req) data i cs =
  if blocks_pure req (bpc_of req) (dropN (bpc_of req * i) data) cs then Ok tt else Err PE.
Proof.
  intros Hreq. set (bpc := bpc_of req).
  assert (Hb : bpc <= 1028) by (unfold bpc, bpc_of; lia).
  assert (Hb2 : 4 + 2 * req + 2 <= bpc \/ req mod 2 = 0) by (unfold bpc, bpc_of; lia).
  assert (Hb3 : 4 + 2 * req <= bpc) by (unfold bpc, bpc_of; lia).
  induction cs as [|c t IH]; intros i Hlen Hn; cbn [blocks_check blocks_pure]; [reflexivity|].
  rewrite lenN_cons in Hlen, Hn.
  replace (bpc * (i + (lenN t + 1))) with (bpc * i + bpc + bpc * lenN t) in Hlen by lia.
  assert (Hi : bpc * i <= 1028 * 79) by (apply N.mul_le_mono; lia).
  set (x := bpc * i) in *.
  rewrite umul_ok by (fold x; change (2^64) with 18446744073709551616; lia). cbn [bind]. fold x.
  rewrite rd2_ok by lia. cbn [bind]. rewrite chan_of_readout_pure.
  rewrite !subN_dropN. rewrite N.add_0_r.
  destruct (readout_chan (le_val (subN data x 2))) as [fc|]; cbn [bind andb]; [|reflexivity].
  unfold guard. destruct (chan_eqb fc c); cbn [negb andb]; [|reflexivity].
  rewrite uadd_ok by (change (2^64) with 18446744073709551616; lia). cbn [bind].
  rewrite rd2_ok by lia. cbn [bind].
  destruct (le_val (subN data (x + 2) 2) =? req); cbn [negb andb]; [|reflexivity].
  assert (Hrest : blocks_check m req bpc data (i + 1) t =
                  if blocks_pure req bpc (dropN bpc (dropN x data)) t then Ok tt else Err PE).
  { rewrite IH by lia. rewrite dropN_dropN. unfold x. replace (bpc * (i + 1)) with (bpc * i + bpc) by lia. reflexivity. }
  destruct (N.eqb_spec (req mod 2) 0) as [Ev|Od]; cbn [negb orb bind].
  - exact Hrest.
  - rewrite uadd_ok by (change (2^64) with 18446744073709551616; lia). cbn [bind].
    rewrite umul_ok by (change (2^64) with 18446744073709551616; lia). cbn [bind].
    rewrite uadd_ok by (change (2^64) with 18446744073709551616; lia). cbn [bind].
    rewrite slice_from_to by lia. cbn [bind].
    replace (x + 4 + 2 * req) with (x + (4 + 2 * req)) by lia.
    destruct (list_eqb (subN data (x + (4 + 2 * req)) 2) [0; 0]) eqn:Ez; cbn [negb bind].
    + exact Hrest.
    + rewrite arr_ok by (apply subN_length; lia). reflexivity.
Qed.

Lemma le_val_snoc q x : le_val (q ++ [x]) = le_val q + 256 ^ lenN q * x.
Proof.
  induction q as [|y q IHq]; cbn [app le_val].
  - rewrite (@lenN_nil N). change (256^0) with 1. lia.
  - rewrite IHq, lenN_cons. rewrite N.add_1_r, N.pow_succ_r'. lia.
Qed.

Lemma subN_10_split l a : a + 10 <= lenN l -> subN l a 10 = subN l a 9 ++ [nthN l (a + 9)].
Proof.
  intros H. change 10 with (9 + 1) at 1. rewrite subN_split. rewrite nthN_subN by lia. reflexivity.
Qed.

Lemma le10_top l a : bytes l -> a + 10 <= lenN l -> nthN l (a + 9) < 128 -> le_val (subN l a 10) < 2 ^ 79.
Proof.
  intros Hb L H. rewrite subN_10_split by assumption.
  assert (B9 : le_val (subN l a 9) < 256 ^ 9) by (apply le_subN_bound; [assumption|lia]).
  rewrite le_val_snoc, subN_length by lia.
  change (256^9) with 4722366482869645213696 in *.
  change (2^79) with 604462909807314587353088. lia.
Qed.

Theorem pwb_decode_pure macs m l : bytes l -> pwb_decode macs m l = pwb_pure macs l.
Proof.
  intros Hb. unfold pwb_decode, pwb_pure, guard.
  destruct (N.ltb_spec (lenN l) 56) as [L56|L56]; [reflexivity|].
  rewrite !idx_nthN by lia. cbn [bind].
  destruct (negb (nthN l 0 =? 2)); [reflexivity|].
  destruct (after_of_char (nthN l 1)) as [chip|]; cbn [or_err bind]; [|reflexivity].
  destruct (negb (nthN l 2 =? 0)); [reflexivity|].
  destruct (trigger_of (nthN l 3)) as [trig|]; cbn [or_err bind]; [|reflexivity].
  rewrite (slice_arr_eq l 4 10 6) by lia. cbn [bind].
  destruct (negb (mac_known macs (subN l 4 6))); [reflexivity|].
  rewrite !rd_le_eq by lia. cbn [bind].
  rewrite (slice_ok l 18 20) by lia. cbn [bind]. change (20 - 18) with 2.
  destruct (negb (list_eqb (subN l 18 2) [0; 0])).
  { rewrite arr_ok by (apply subN_length; lia). reflexivity. }
  destruct (511 <? le_val (subN l 20 2)); [reflexivity|].
  destruct (N.ltb_spec 511 (le_val (subN l 22 2))) as [Hreq|Hreq]; [reflexivity|].
  set (req := le_val (subN l 22 2)) in *.
  rewrite !land128 by (apply nthN_byte; assumption).
  destruct (N.ltb_spec (nthN l 33) 128) as [H33|H33]; cbn [negb];
    [replace (128 <=? nthN l 33) with false by lia | replace (128 <=? nthN l 33) with true by lia; reflexivity].
  rewrite (slice_ok l 24 34) by lia. cbn [bind]. change (34 - 24) with 10.
  assert (L1 : lenN (subN l 24 10) = 10) by (apply subN_length; lia).
  assert (L2 : lenN (subN l 34 10) = 10) by (apply subN_length; lia).
  rewrite mask_chans_ok; [|assumption|].
  2:{ apply le10_top; [assumption|lia|]. exact H33. }
  cbn [bind].
  destruct (N.ltb_spec (nthN l 43) 128) as [H43|H43]; cbn [negb];
    [replace (128 <=? nthN l 43) with false by lia | replace (128 <=? nthN l 43) with true by lia; reflexivity].
  rewrite (slice_ok l 34 44) by lia. cbn [bind]. change (44 - 34) with 10.
  rewrite mask_chans_ok; [|assumption|].
  2:{ apply le10_top; [assumption|lia|]. exact H43. }
  cbn [bind].
  rewrite slice_from_ok by lia. cbn [bind].
  set (sent := mask_chan_list (le_val (subN l 24 10))).
  pose proof (mask_chan_list_length (le_val (subN l 24 10))) as Hn. fold sent in Hn.
  assert (Hbpc : (if req mod 2 =? 0
                  then do a <- umul m 64 2 req; uadd m 64 4 a
                  else do a <- umul m 64 2 req; do b <- uadd m 64 4 a; uadd m 64 b 2) = Ok (bpc_of req)).
  { unfold bpc_of. destruct (N.eqb_spec (req mod 2) 0) as [Ev|Od];
      repeat (first [rewrite umul_ok by (change (2^64) with 18446744073709551616; lia)
                    | rewrite uadd_ok by (change (2^64) with 18446744073709551616; lia)]; cbn [bind]);
      f_equal; lia. }
  rewrite Hbpc. cbn [bind]. set (bpc := bpc_of req).
  assert (Hb1 : bpc <= 1028) by (unfold bpc, bpc_of; lia).
  assert (Hm : bpc * lenN sent <= 1028 * 79) by (apply N.mul_le_mono; lia).
  rewrite !umul_ok by (change (2^64) with 18446744073709551616; lia). cbn [bind].
  rewrite !uadd_ok by (change (2^64) with 18446744073709551616; lia). cbn [bind].
  set (data := dropN 52 l).
  destruct (N.eqb_spec (bpc * lenN sent + 4) (lenN data)) as [El|El]; cbn [negb]; [|reflexivity].
  unfold bpc. rewrite blocks_check_pure by (fold bpc; rewrite ?N.add_0_l; lia).
  rewrite N.mul_0_r, dropN_0. fold bpc.
  destruct (blocks_pure req bpc data sent); cbn [bind negb]; [|reflexivity].
  rewrite usub_ok by lia. cbn [bind].
  rewrite slice_from_ok by lia. cbn [bind].
  rewrite (dropN_subN data (lenN data - 4)). replace (lenN data - (lenN data - 4)) with 4 by lia.
  destruct (list_eqb (subN data (lenN data - 4) 4) [204; 204; 204; 204]); cbn [negb]; [reflexivity|].
  rewrite arr_ok by (apply subN_length; lia). reflexivity.
Qed.

Theorem pwb_total_lemma macs m l : bytes l -> pwb_decode macs m l <> Panic.
Proof. intros Hb. rewrite pwb_decode_pure by assumption. apply pwb_pure_no_panic. Qed.

Theorem pwb_no_wrap_lemma macs l : bytes l -> pwb_decode macs Checked l = pwb_decode macs Wrapping l.
Proof. intros Hb. rewrite !pwb_decode_pure by assumption. reflexivity. Qed.


Lemma succ_sorted l : StronglySorted N.lt l -> StronglySorted N.lt (map N.succ l).
Proof.
  induction 1 as [|a t Ht IH Ha]; cbn [map]; constructor; [assumption|].
      rewrite Forall_forall in *. intros x Hx. apply in_map_iff in Hx. destruct Hx as (y & <- & Hy).
      specialize (Ha y Hy). lia.
Qed.
Lemma aux num i : In i (mask_bits num 79) -> chan_readout (readout_chan_d (i + 1)) = N.succ i.
Proof.
  intros Hi. apply mask_bits_In in Hi. destruct Hi as [Hi _].
  destruct (readout_chan_d_ok (i + 1) ltac:(lia)) as (_ & -> & _). lia.
Qed.
Lemma mask_chan_list_sorted num : StronglySorted N.lt (map chan_readout (mask_chan_list num)).
Proof.
  unfold mask_chan_list. rewrite map_map.
  rewrite (map_ext_in _ N.succ).
  - apply succ_sorted. apply mask_bits_sorted.
  - apply aux.
Qed.


Theorem mask_chans_lemma m s : bytes s -> lenN s = 10 -> nthN s 9 < 128 ->
  mask_chans m s = Ok (mask_chan_list (le_val s)) /\
  mask_chan_list (le_val s) = map (fun i => readout_chan_d (i + 1)) (filter (N.testbit (le_val s)) (Nrange 79)) /\
  StronglySorted N.lt (map chan_readout (mask_chan_list (le_val s))).
Proof.
  intros Hb L H. split; [|split].
  3:{ apply mask_chan_list_sorted. }
  2:{ reflexivity. }
  apply mask_chans_ok.
  assumption.
  assert (L' : 0 + 10 <= lenN s) by lia.
  pose proof (le10_top s 0 Hb L') as G. 
  rewrite subN_all in G by lia. apply G. exact H.
Qed.

Theorem readout_bijection_lemma :
  (forall m i, chan_of_readout m i = match readout_chan i with Some c => Ok c | None => Err PE end) /\
  (forall i, readout_chan i <> None <-> 1 <= i <= 79) /\
  (forall i c, readout_chan i = Some c -> chan_readout c = i /\ chan_valid c = true) /\
  (forall c, chan_valid c = true -> readout_chan (chan_readout c) = Some c /\ 1 <= chan_readout c <= 79) /\
  (forall c, chan_valid c = true <->
             match c with Reset n => 1 <= n <= 3 | Fpn n => 1 <= n <= 4 | Pad n => 1 <= n <= 72 end) /\
  length readout_order = 79%nat /\ NoDup readout_order.
Proof.
  split; [exact chan_of_readout_pure|]. split.
  { intros i. split.
    - destruct (readout_chan i) eqn:E; [|congruence]. intros _. eapply readout_chan_range. eassumption.
    - intros R. destruct (readout_chan_d_ok i R) as (-> & _). discriminate. }
  split; [intros i c H; apply readout_fwd in H; tauto|].
  split; [exact readout_bwd|]. split; [exact chan_valid_shape|].
  split; [reflexivity|exact readout_order_NoDup].
Qed.

(* ================= D. bytes <-> i16 words, blocks ================= *)

Lemma le_enc2_explicit x : le_enc 2 x = [x mod 256; x / 256 mod 256].
Proof. reflexivity. Qed.
Lemma le2_val lo h : le_val [lo; h] = lo + 256 * h.
Proof. cbn [le_val]. lia. Qed.
Lemma enc_words_cons z w : enc_words (z :: w) = le_enc 2 (of_signed 16 z) ++ enc_words w.
Proof. reflexivity. Qed.
Lemma enc_words_app a b : enc_words (a ++ b) = enc_words a ++ enc_words b.
Proof. unfold enc_words. apply flat_map_app. Qed.
Lemma enc_words_lenN w : lenN (enc_words w) = 2 * lenN w.
Proof.
  induction w as [|z w IH]; [reflexivity|]. rewrite enc_words_cons, lenN_app, lenN_cons, IH, le_enc_lenN. lia.
Qed.
Lemma enc_words_bytes w : bytes (enc_words w).
Proof.
  induction w as [|z w IH]; [constructor|]. rewrite enc_words_cons. apply bytes_app. split; [apply le_enc_bytes|assumption].
Qed.

Lemma to_signed16_ok' x : x < 65536 -> i16_ok (to_signed 16 x).
Proof.
  intros H. unfold i16_ok. pose proof (to_signed_range 16 x ltac:(lia) H) as R.
  change (2 ^ (16 - 1)) with 32768 in R. lia.
Qed.

Lemma chunks2_le_ok : forall k s, (length s <= k)%nat -> bytes s -> Forall i16_ok (chunks2_le s).
Proof.
  induction k as [|k IH]; intros s Hk Hb.
  - destruct s; [constructor|cbn [length] in Hk; lia].
  - destruct s as [|lo [|h t]]; cbn [chunks2_le]; try constructor.
    + inversion Hb as [|? ? Hl Hb']; subst. inversion Hb' as [|? ? Hh Hb'']; subst.
      apply to_signed16_ok'. rewrite le2_val. unfold byte in *. lia.
    + inversion Hb as [|? ? Hl Hb']; subst. inversion Hb' as [|? ? Hh Hb'']; subst.
      apply IH; [cbn [length] in Hk; lia|assumption].
Qed.

Lemma enc_words_chunks : forall k s, length s = (2 * k)%nat -> bytes s -> enc_words (chunks2_le s) = s.
Proof.
  induction k as [|k IH]; intros s Hk Hb.
  - destruct s; [reflexivity|discriminate].
  - destruct s as [|lo [|h t]]; cbn [length] in Hk; try lia.
    inversion Hb as [|? ? Hl Hb']; subst. inversion Hb' as [|? ? Hh Hb'']; subst. unfold byte in *.
    cbn [chunks2_le]. rewrite enc_words_cons.
    rewrite of_to_signed by (try lia; rewrite le2_val; change (2^16) with 65536; lia).
    rewrite le_enc2_explicit, le2_val.
    replace ((lo + 256 * h) mod 256) with lo by lia.
    replace ((lo + 256 * h) / 256 mod 256) with h by lia.
    cbn [app]. do 2 f_equal. apply IH; [lia|assumption].
Qed.

Lemma chunks_enc_words w : Forall i16_ok w -> chunks2_le (enc_words w) = w.
Proof.
  induction 1 as [|z w Hz Hw IH]; [reflexivity|].
  rewrite enc_words_cons, le_enc2_explicit.
  assert (B : of_signed 16 z < 65536) by (change 65536 with (2^16); apply of_signed_bound).
  set (x := of_signed 16 z) in *.
  change ([x mod 256; x / 256 mod 256] ++ enc_words w) with (x mod 256 :: x / 256 mod 256 :: enc_words w).
  cbn [chunks2_le]. rewrite IH. f_equal. rewrite le2_val.
  replace (x mod 256 + 256 * (x / 256 mod 256)) with x by lia.
  apply to_of_signed; [lia|]. change (2^(16-1)) with 32768. unfold i16_ok in Hz. lia.
Qed.

Lemma of_signed16_small r : r < 65536 -> of_signed 16 (Z.of_N r) = r.
Proof.
  intros H. unfold of_signed. change (2^16) with 65536. rewrite Z.mod_small by lia. lia.
Qed.

(* words and bytes of one block / of all blocks agree *)
Lemma block_words_bytes req c w : req <= 511 -> chan_valid c = true ->
  enc_words (block_words req c w) = block_bytes req c w.
Proof.
  intros Hr Hc. destruct (readout_bwd c Hc) as [_ R].
  unfold block_words, block_bytes. rewrite !enc_words_app.
  change (enc_words [Z.of_N (chan_readout c); Z.of_N req])
    with (le_enc 2 (of_signed 16 (Z.of_N (chan_readout c))) ++ le_enc 2 (of_signed 16 (Z.of_N req)) ++ []).
  rewrite !of_signed16_small by lia. rewrite app_nil_r, <- app_assoc.
  do 3 f_equal. destruct (req mod 2 =? 0); reflexivity.
Qed.
Lemma blocks_words_bytes req : req <= 511 -> forall cs ws, Forall (fun c => chan_valid c = true) cs ->
  enc_words (blocks_words req cs ws) = blocks_bytes req cs ws.
Proof.
  intros Hr. induction cs as [|c ct IH]; intros ws Hv; [reflexivity|].
  destruct ws as [|w wt]; [reflexivity|]. cbn [blocks_words blocks_bytes].
  inversion Hv; subst. rewrite enc_words_app, block_words_bytes, IH by assumption. reflexivity.
Qed.

Lemma END_bytes : enc_words [END_WORD; END_WORD] = [204; 204; 204; 204].
Proof. vm_compute. reflexivity. Qed.

Lemma block_words_lenN req c w : lenN w = req -> lenN (block_words req c w) = spw req.
Proof.
  intros H. unfold block_words, spw. rewrite !lenN_app, H.
  destruct (N.eqb_spec (req mod 2) 0) as [E|E]; rewrite ?lenN_cons, ?lenN_nil; lia.
Qed.

Lemma parse_blocks_words req : forall cs ws tail, length ws = length cs -> Forall (fun w => lenN w = req) ws ->
  parse_blocks req (length cs) (blocks_words req cs ws ++ tail) = ws.
Proof.
  induction cs as [|c ct IH]; intros ws tail Hl Hw.
  - destruct ws; [reflexivity|discriminate].
  - destruct ws as [|w wt]; [discriminate|]. cbn [length] in Hl. inversion Hw as [|? ? Hw1 Hw2]; subst.
    cbn [length parse_blocks blocks_words]. f_equal.
    + unfold block_words. rewrite <- !app_assoc.
      apply subN_mid; reflexivity.
    + rewrite <- app_assoc. rewrite dropN_app_exact by (apply block_words_lenN; reflexivity).
      apply IH; [lia|assumption].
Qed.

Lemma leqb_eq a b : list_eqb a b = true -> a = b.
Proof.
  revert b. induction a as [|x a IH]; intros [|y b]; cbn [list_eqb]; try discriminate; [reflexivity|].
  intros H. apply andb_true_iff in H. destruct H as [H1 H2]. apply N.eqb_eq in H1. subst. f_equal. auto.
Qed.
Lemma leqb_refl a : list_eqb a a = true.
Proof. induction a as [|x a IH]; cbn [list_eqb]; [reflexivity|]. rewrite N.eqb_refl. assumption. Qed.

Lemma chunks2_le_length : forall k s, length s = (2 * k)%nat -> length (chunks2_le s) = k.
Proof.
  induction k as [|k IH]; intros s Hk.
  - destruct s; [reflexivity|discriminate].
  - destruct s as [|lo [|h t]]; cbn [length] in Hk; try lia. cbn [chunks2_le length]. f_equal. apply IH. lia.
Qed.

(* the waveforms of the blocks, read from the data bytes *)
Fixpoint byte_waves (req : N) (n : nat) (d : list N) : list (list Z) :=
  match n with
  | O => []
  | S k => chunks2_le (subN d 4 (2 * req)) :: byte_waves req k (dropN (bpc_of req) d)
  end.

Lemma blocks_pure_sound req : req <= 511 -> forall cs d, bytes d -> bpc_of req * lenN cs <= lenN d ->
  blocks_pure req (bpc_of req) d cs = true ->
  subN d 0 (bpc_of req * lenN cs) = blocks_bytes req cs (byte_waves req (length cs) d) /\
  length (byte_waves req (length cs) d) = length cs /\
  Forall (fun w => lenN w = req /\ Forall i16_ok w) (byte_waves req (length cs) d) /\
  Forall (fun c => chan_valid c = true) cs.
Proof.
  intros Hreq. set (bpc := bpc_of req).
  assert (Hb3 : 4 + 2 * req <= bpc) by (unfold bpc, bpc_of; lia).
  induction cs as [|c t IH]; intros d Hb Hlen H.
  - rewrite (@lenN_nil chan), N.mul_0_r. cbn [length byte_waves blocks_bytes]. repeat split; constructor.
  - cbn [blocks_pure] in H. rewrite !andb_true_iff in H. destruct H as [[[H1 H2] H3] H4].
    rewrite lenN_cons in Hlen.
    replace (bpc * (lenN t + 1)) with (bpc + bpc * lenN t) in Hlen by lia.
    destruct (readout_chan (le_val (subN d 0 2))) as [fc|] eqn:Er; [|discriminate].
    apply chan_eqb_eq in H1. subst fc.
    apply readout_fwd in Er. destruct Er as (Er1 & Er2 & _).
    apply N.eqb_eq in H2.
    assert (Hd : bpc * lenN t <= lenN (dropN bpc d)) by (rewrite dropN_length; lia).
    destruct (IH (dropN bpc d) (bytes_dropN _ _ Hb) Hd H4) as (I1 & I2 & I3 & I4).
    assert (Ls : lenN (subN d 4 (2 * req)) = 2 * req) by (apply subN_length; lia).
    cbn [length byte_waves blocks_bytes]. fold bpc.
    split; [|split; [|split]].
    + rewrite lenN_cons. replace (bpc * (lenN t + 1)) with (bpc + bpc * lenN t) by lia.
      rewrite subN_split, N.add_0_l.
      replace (subN d bpc (bpc * lenN t)) with (subN (dropN bpc d) 0 (bpc * lenN t))
        by (rewrite subN_dropN; f_equal; lia).
      rewrite I1. f_equal.
      unfold block_bytes.
      replace bpc with (2 + (2 + (2 * req + (bpc - 4 - 2 * req)))) at 1 by lia.
      rewrite !subN_split. change (0 + 2 + 2) with 4. change (0 + 2) with 2.
      pose proof (le_subN_enc d 0 2 2%nat Hb ltac:(lia) eq_refl) as E0. rewrite <- Er1 in E0.
      pose proof (le_subN_enc d 2 2 2%nat Hb ltac:(lia) eq_refl) as E2. rewrite H2 in E2.
      rewrite E0, E2. do 2 f_equal.
      rewrite (enc_words_chunks (N.to_nat req)); [|unfold lenN in Ls; lia|apply bytes_subN; assumption].
      f_equal.
      destruct (N.eqb_spec (req mod 2) 0) as [Ev|Od].
      * replace (bpc - 4 - 2 * req) with 0 by (unfold bpc, bpc_of; lia). reflexivity.
      * cbn [orb] in H3. apply leqb_eq in H3.
        replace (bpc - 4 - 2 * req) with 2 by (unfold bpc, bpc_of; lia). exact H3.
    + f_equal. exact I2.
    + constructor; [|exact I3]. split.
      * unfold lenN. rewrite (chunks2_le_length (N.to_nat req)); [lia|unfold lenN in Ls; lia].
      * eapply chunks2_le_ok; [reflexivity|apply bytes_subN; assumption].
    + constructor; assumption.
Qed.

Lemma blocks_words_i16 req : req <= 511 -> forall cs ws, Forall (fun c => chan_valid c = true) cs ->
  Forall (fun w => lenN w = req /\ Forall i16_ok w) ws -> Forall i16_ok (blocks_words req cs ws).
Proof.
  intros Hr. induction cs as [|c ct IH]; intros ws Hv Hw; [constructor|].
  destruct ws as [|w wt]; [constructor|]. cbn [blocks_words].
  inversion Hv; subst. inversion Hw as [|? ? [_ Hw1] Hw2]; subst.
  destruct (readout_bwd c H1) as [_ R].
  apply Forall_app. split; [|apply IH; assumption].
  unfold block_words. apply Forall_app. split.
  - repeat constructor; unfold i16_ok; lia.
  - apply Forall_app. split; [assumption|]. destruct (req mod 2 =? 0); repeat constructor; unfold i16_ok; lia.
Qed.
Lemma pwb_words_i16 req cs ws : req <= 511 -> Forall (fun c => chan_valid c = true) cs ->
  Forall (fun w => lenN w = req /\ Forall i16_ok w) ws -> Forall i16_ok (pwb_words req cs ws).
Proof.
  intros. unfold pwb_words. apply Forall_app. split; [apply blocks_words_i16; assumption|].
  repeat constructor; unfold i16_ok, END_WORD; lia.
Qed.

(* data bytes = encoded words *)
Lemma pwb_words_bytes req cs ws : req <= 511 -> Forall (fun c => chan_valid c = true) cs ->
  enc_words (pwb_words req cs ws) = blocks_bytes req cs ws ++ [204; 204; 204; 204].
Proof.
  intros Hr Hv. unfold pwb_words. rewrite enc_words_app, blocks_words_bytes, END_bytes by assumption. reflexivity.
Qed.

(* ---- masks ---- *)
Lemma chans_mask_bits cs i : N.testbit (chans_mask cs) i = existsb (fun c => chan_readout c - 1 =? i) cs.
Proof.
  induction cs as [|c t IH]; cbn [chans_mask fold_right existsb]; [apply N.bits_0|].
  rewrite N.setbit_eqb. fold (chans_mask t). rewrite IH. reflexivity.
Qed.

Lemma In_mask_chan_list c num :
  In c (mask_chan_list num) <-> exists j, readout_chan_d (j + 1) = c /\ j < 79 /\ N.testbit num j = true.
Proof.
  unfold mask_chan_list. rewrite in_map_iff. split; intros (j & E & H); exists j; (split; [exact E|]).
  - apply mask_bits_In in H. exact H.
  - apply mask_bits_In. exact H.
Qed.

Lemma chans_mask_list num : num < 2 ^ 79 -> chans_mask (mask_chan_list num) = num.
Proof.
  intros H. apply N.bits_inj. intros i. rewrite chans_mask_bits.
  destruct (N.testbit num i) eqn:T.
  - assert (Hi : i < 79).
    { destruct (N.lt_ge_cases i 79) as [L|L]; [assumption|]. rewrite (bound_high_bits num 79 i H L) in T. discriminate. }
    apply existsb_exists. exists (readout_chan_d (i + 1)). split.
    + apply In_mask_chan_list. exists i. auto.
    + destruct (readout_chan_d_ok (i + 1) ltac:(lia)) as (_ & -> & _). apply N.eqb_eq. lia.
  - destruct (existsb _ _) eqn:X; [|reflexivity]. exfalso.
    apply existsb_exists in X. destruct X as (c & Hc & Ec).
    apply In_mask_chan_list in Hc. destruct Hc as (j & <- & Hj & Tj).
    destruct (readout_chan_d_ok (j + 1) ltac:(lia)) as (_ & R & _). rewrite R in Ec. apply N.eqb_eq in Ec.
    assert (j = i) by lia. subst. congruence.
Qed.

Lemma mask_chan_list_valid num : Forall (fun c => chan_valid c = true) (mask_chan_list num).
Proof.
  apply Forall_forall. intros c Hc. apply In_mask_chan_list in Hc.
  destruct Hc as (j & <- & Hj & _). apply (readout_chan_d_ok (j + 1)). lia.
Qed.
Lemma mask_chan_list_ok num : chans_ok (mask_chan_list num).
Proof. split; [apply mask_chan_list_valid|apply mask_chan_list_sorted]. Qed.

Lemma after_of_char_spec b chip : after_of_char b = Some chip -> b = 65 + chip /\ chip <= 3.
Proof.
  unfold after_of_char.
  destruct (N.eqb_spec b 65); [intros H; inversion H; subst; lia|].
  destruct (N.eqb_spec b 66); [intros H; inversion H; subst; lia|].
  destruct (N.eqb_spec b 67); [intros H; inversion H; subst; lia|].
  destruct (N.eqb_spec b 68); [intros H; inversion H; subst; lia|]. discriminate.
Qed.
Lemma trigger_of_spec b t : trigger_of b = Some t -> b = t /\ (t = 0 \/ t = 1 \/ t = 3).
Proof.
  unfold trigger_of.
  destruct (N.eqb_spec b 0); [intros H; inversion H; subst; lia|].
  destruct (N.eqb_spec b 1); [intros H; inversion H; subst; lia|].
  destruct (N.eqb_spec b 3); [intros H; inversion H; subst; lia|]. discriminate.
Qed.

Lemma split_pwb (l : list N) : 56 <= lenN l ->
  l = subN l 0 1 ++ subN l 1 1 ++ subN l 2 1 ++ subN l 3 1 ++ subN l 4 6 ++ subN l 10 2 ++ subN l 12 6 ++
      subN l 18 2 ++ subN l 20 2 ++ subN l 22 2 ++ subN l 24 10 ++ subN l 34 10 ++ subN l 44 4 ++ subN l 48 2 ++
      subN l 50 1 ++ subN l 51 1 ++ subN l 52 (lenN l - 52).
Proof.
  intros L. repeat rewrite subN_join' by lia. symmetry. apply subN_all. lia.
Qed.

(* ================= E. soundness ================= *)

(* the data part of an accepted packet *)
Lemma data_sound req sent data : req <= 511 -> bytes data ->
  bpc_of req * lenN sent + 4 = lenN data ->
  blocks_pure req (bpc_of req) data sent = true ->
  subN data (lenN data - 4) 4 = [204; 204; 204; 204] ->
  let ws := byte_waves req (length sent) data in
  data = blocks_bytes req sent ws ++ [204; 204; 204; 204] /\
  chunks2_le data = pwb_words req sent ws /\
  parse_blocks req (length sent) (chunks2_le data) = ws /\
  Forall (fun w => lenN w = req /\ Forall i16_ok w) ws.
Proof.
  intros Hreq Hb El Hbl Hmk ws.
  destruct (blocks_pure_sound req Hreq sent data Hb ltac:(lia) Hbl) as (B1 & B2 & B3 & B4). fold ws in B1, B2, B3.
  assert (Ed : data = blocks_bytes req sent ws ++ [204; 204; 204; 204]).
  { rewrite <- B1, <- Hmk. replace (lenN data - 4) with (0 + bpc_of req * lenN sent) by lia.
    rewrite subN_join' by reflexivity. symmetry. apply subN_all. lia. }
  assert (Ew : chunks2_le data = pwb_words req sent ws).
  { rewrite Ed at 1. rewrite <- pwb_words_bytes by assumption.
    apply chunks_enc_words. apply pwb_words_i16; assumption. }
  repeat split; try assumption.
  rewrite Ew. unfold pwb_words. apply parse_blocks_words; [assumption|].
  rewrite Forall_forall in *. intros w Hw. apply B3. assumption.
Qed.

Theorem pwb_pure_sound macs l f : bytes l -> pwb_pure macs l = Ok f -> pwb_fields_ok macs f /\ l = pwb_encode f.
Proof.
  intros Hb. unfold pwb_pure.
  destruct (N.ltb_spec (lenN l) 56) as [L56|L56]; [discriminate|].
  destruct (N.eqb_spec (nthN l 0) 2) as [B0|B0]; cbn [negb]; [|discriminate].
  destruct (after_of_char (nthN l 1)) as [chip|] eqn:Ech; [|discriminate].
  destruct (N.eqb_spec (nthN l 2) 0) as [B2|B2]; cbn [negb]; [|discriminate].
  destruct (trigger_of (nthN l 3)) as [trig|] eqn:Etr; [|discriminate].
  destruct (mac_known macs (subN l 4 6)) eqn:Emac; cbn [negb]; [|discriminate].
  destruct (list_eqb (subN l 18 2) [0; 0]) eqn:Ez; cbn [negb]; [|discriminate]. apply leqb_eq in Ez.
  destruct (N.ltb_spec 511 (le_val (subN l 20 2))) as [Hlast|Hlast]; [discriminate|].
  destruct (N.ltb_spec 511 (le_val (subN l 22 2))) as [Hreq|Hreq]; [discriminate|].
  destruct (N.leb_spec 128 (nthN l 33)) as [H33|H33]; [discriminate|].
  destruct (N.leb_spec 128 (nthN l 43)) as [H43|H43]; [discriminate|].
  set (req := le_val (subN l 22 2)) in *.
  set (n1 := le_val (subN l 24 10)). set (n2 := le_val (subN l 34 10)).
  set (data := dropN 52 l).
  destruct (N.eqb_spec (bpc_of req * lenN (mask_chan_list n1) + 4) (lenN data)) as [El|El]; cbn [negb]; [|discriminate].
  destruct (blocks_pure req (bpc_of req) data (mask_chan_list n1)) eqn:Ebl; cbn [negb]; [|discriminate].
  destruct (list_eqb (subN data (lenN data - 4) 4) [204; 204; 204; 204]) eqn:Emk; cbn [negb]; [|discriminate].
  apply leqb_eq in Emk.
  intros [= <-].
  assert (Bd : bytes data) by (apply bytes_dropN; assumption).
  destruct (data_sound req (mask_chan_list n1) data Hreq Bd El Ebl Emk) as (Ed & Ew & Ep & Ews).
  apply after_of_char_spec in Ech. destruct Ech as [Ech Hchip].
  apply trigger_of_spec in Etr. destruct Etr as [Etr Htrig].
  assert (N1 : n1 < 2 ^ 79) by (apply le10_top; [assumption|lia|exact H33]).
  assert (N2 : n2 < 2 ^ 79) by (apply le10_top; [assumption|lia|exact H43]).
  assert (Ets : le_val (subN l 12 8) = le_val (subN l 12 6)).
  { change 8 with (6 + 2). rewrite subN_split. change (12 + 6) with 18. rewrite Ez.
    apply le_val_app_zeros. repeat constructor. }
  split.
  - unfold pwb_fields_ok, pwb_waves.
    cbn [p_chip p_trig p_mac p_delay p_ts p_last p_req p_sent p_over p_counter p_fifo p_wdepth p_rdepth p_data].
    rewrite Ep, Ets.
    assert (Lm : lenN (subN l 4 6) = 6) by (apply subN_length; lia).
    repeat split; try assumption; try apply mask_chan_list_ok; try (apply nthN_byte; assumption).
    + unfold lenN in Lm. lia.
    + apply bytes_subN. assumption.
    + change (2^16) with (256^2). apply le_subN_bound; [assumption|lia].
    + change (2^48) with (256^6). apply le_subN_bound; [assumption|lia].
    + change (2^32) with (256^4). apply le_subN_bound; [assumption|lia].
    + change (2^16) with (256^2). apply le_subN_bound; [assumption|lia].
  - unfold pwb_encode, pwb_waves.
    cbn [p_chip p_trig p_mac p_delay p_ts p_last p_req p_sent p_over p_counter p_fifo p_wdepth p_rdepth p_data].
    rewrite Ep, Ets. rewrite !chans_mask_list by assumption.
    rewrite (split_pwb l L56) at 1.
    rewrite !nthN_subN by lia. rewrite B0, Ech, B2, Etr, Ez.
    unfold n1, n2, req.
    rewrite (le_subN_enc l 10 2 2%nat), (le_subN_enc l 12 6 6%nat), (le_subN_enc l 20 2 2%nat),
      (le_subN_enc l 22 2 2%nat), (le_subN_enc l 24 10 10%nat), (le_subN_enc l 34 10 10%nat),
      (le_subN_enc l 44 4 4%nat), (le_subN_enc l 48 2 2%nat) by (first [assumption | lia | reflexivity]).
    rewrite <- (dropN_subN l 52). fold data. fold req. fold n1. rewrite <- Ed. reflexivity.
Qed.

(* ================= F. completeness ================= *)

Lemma chans_mask_bit_true cs i : N.testbit (chans_mask cs) i = true <-> exists c, In c cs /\ chan_readout c - 1 = i.
Proof.
  rewrite chans_mask_bits, existsb_exists. split; intros (c & H1 & H2); exists c; (split; [assumption|]).
  - apply N.eqb_eq. assumption.
  - apply N.eqb_eq. assumption.
Qed.

Lemma chans_mask_bound cs : Forall (fun c => chan_valid c = true) cs -> chans_mask cs < 2 ^ 79.
Proof.
  intros Hv. apply high_bits_bound. intros i Hi.
  destruct (N.testbit (chans_mask cs) i) eqn:T; [|reflexivity]. exfalso.
  apply chans_mask_bit_true in T. destruct T as (c & Hc & E).
  rewrite Forall_forall in Hv. destruct (readout_bwd c (Hv c Hc)) as [_ R]. lia.
Qed.

Lemma pred_sorted cs : Forall (fun c => chan_valid c = true) cs -> StronglySorted N.lt (map chan_readout cs) ->
  StronglySorted N.lt (map (fun c => chan_readout c - 1) cs).
Proof.
  induction cs as [|c t IH]; intros Hv Hs; cbn [map] in *; [constructor|].
  inversion Hv as [|? ? Hc Ht]; subst. inversion Hs as [|? ? Hs1 Hs2]; subst.
  constructor; [apply IH; assumption|].
  rewrite Forall_forall in *. intros x Hx. apply in_map_iff in Hx. destruct Hx as (y & <- & Hy).
  specialize (Hs2 (chan_readout y) (in_map _ _ _ Hy)).
  destruct (readout_bwd c Hc) as [_ R1]. destruct (readout_bwd y (Ht y Hy)) as [_ R2]. lia.
Qed.

Lemma mask_bits_chans_mask cs : chans_ok cs -> mask_bits (chans_mask cs) 79 = map (fun c => chan_readout c - 1) cs.
Proof.
  intros [Hv Hs]. apply sorted_ext; [apply mask_bits_sorted|apply pred_sorted; assumption|].
  intros i. rewrite mask_bits_In, chans_mask_bit_true, in_map_iff. split.
  - intros (_ & c & Hc & E). exists c. split; assumption.
  - intros (c & E & Hc). split; [|exists c; split; assumption].
    rewrite Forall_forall in Hv. destruct (readout_bwd c (Hv c Hc)) as [_ R]. lia.
Qed.

Lemma mask_chan_list_chans_mask cs : chans_ok cs -> mask_chan_list (chans_mask cs) = cs.
Proof.
  intros Hok. unfold mask_chan_list. rewrite (mask_bits_chans_mask cs Hok). rewrite map_map.
  destruct Hok as [Hv _]. rewrite Forall_forall in Hv.
  rewrite <- (map_id cs) at 2. apply map_ext_in. intros c Hc.
  destruct (readout_bwd c (Hv c Hc)) as [_ R].
  replace (chan_readout c - 1 + 1) with (chan_readout c) by lia.
  apply readout_chan_d_bwd. apply Hv. assumption.
Qed.

Global Hint Rewrite enc_words_lenN : len.

Lemma block_bytes_lenN req c w : lenN w = req -> lenN (block_bytes req c w) = bpc_of req.
Proof.
  intros H. unfold block_bytes, bpc_of. rewrite !lenN_app, !le_enc_lenN, enc_words_lenN, H.
  destruct (N.eqb_spec (req mod 2) 0) as [E|E]; rewrite ?lenN_cons, ?lenN_nil; lia.
Qed.

Lemma blocks_bytes_lenN req : forall cs ws, length ws = length cs -> Forall (fun w => lenN w = req) ws ->
  lenN (blocks_bytes req cs ws) = bpc_of req * lenN cs.
Proof.
  induction cs as [|c ct IH]; intros ws Hl Hw.
  - rewrite (@lenN_nil chan). cbn [blocks_bytes]. rewrite lenN_nil. lia.
  - destruct ws as [|w wt]; [discriminate|]. cbn [length] in Hl. inversion Hw; subst.
    cbn [blocks_bytes]. rewrite lenN_app, block_bytes_lenN, IH, lenN_cons by (lia || assumption || reflexivity). lia.
Qed.

Lemma parse_blocks_length req n d : length (parse_blocks req n d) = n.
Proof. revert d. induction n as [|n IH]; intros d; cbn [parse_blocks length]; [reflexivity|]. rewrite IH. reflexivity. Qed.

Lemma blocks_pure_complete req : req <= 511 -> forall cs ws tail, length ws = length cs ->
  Forall (fun w => lenN w = req) ws -> Forall (fun c => chan_valid c = true) cs ->
  blocks_pure req (bpc_of req) (blocks_bytes req cs ws ++ tail) cs = true.
Proof.
  intros Hreq. induction cs as [|c ct IH]; intros ws tail Hl Hw Hv; [reflexivity|].
  destruct ws as [|w wt]; [discriminate|]. cbn [length] in Hl.
  inversion Hw as [|? ? Hw1 Hw2]; subst. inversion Hv as [|? ? Hc Hv2]; subst.
  cbn [blocks_bytes blocks_pure]. rewrite <- app_assoc.
  set (R := blocks_bytes (lenN w) ct wt ++ tail).
  assert (Edrop : dropN (bpc_of (lenN w)) (block_bytes (lenN w) c w ++ R) = R).
  { apply dropN_app_exact. apply block_bytes_lenN. reflexivity. }
  assert (HR : blocks_pure (lenN w) (bpc_of (lenN w)) R ct = true) by (apply IH; (lia || assumption)).
  rewrite Edrop, HR, andb_true_r.
  destruct (readout_bwd c Hc) as [Rc1 Rc2].
  unfold block_bytes. rewrite <- !app_assoc.
  set (r := chan_readout c) in *. set (req := lenN w) in *.
  assert (S0 : subN (le_enc 2 r ++ le_enc 2 req ++ enc_words w ++ (if req mod 2 =? 0 then [] else [0; 0]) ++ R) 0 2
               = le_enc 2 r) by (apply subN_app_hd; reflexivity).
  assert (S2 : subN (le_enc 2 r ++ le_enc 2 req ++ enc_words w ++ (if req mod 2 =? 0 then [] else [0; 0]) ++ R) 2 2
               = le_enc 2 req) by (sub_walk; reflexivity).
  rewrite S0, S2.
  rewrite !le_val_enc_small by (change (256 ^ N.of_nat 2) with 65536; lia).
  rewrite Rc1, chan_eqb_refl, N.eqb_refl. cbn [andb].
  destruct (N.eqb_spec (req mod 2) 0) as [Ev|Od]; [reflexivity|]. cbn [orb].
  assert (S4 : subN (le_enc 2 r ++ le_enc 2 req ++ enc_words w ++ [0; 0] ++ R) (4 + 2 * req) 2 = [0; 0]).
  { rewrite subN_app_r by len_lia. rewrite subN_app_r by len_lia. rewrite subN_app_r by (autorewrite with len; fold req; lia).
    apply subN_app_hd; [autorewrite with len; fold req; lia|reflexivity]. }
  rewrite S4. reflexivity.
Qed.

Lemma after_of_char_ok chip : chip <= 3 -> after_of_char (65 + chip) = Some chip.
Proof.
  intros H. assert (chip = 0 \/ chip = 1 \/ chip = 2 \/ chip = 3) as [->|[->|[->| ->]]] by lia; reflexivity.
Qed.

Lemma le_enc10_top M : M < 2 ^ 79 -> nthN (le_enc 10 M) 9 < 128.
Proof.
  intros H. set (s := le_enc 10 M).
  assert (Ls : lenN s = 10) by (unfold s; apply le_enc_lenN).
  assert (Vs : le_val s = M).
  { unfold s. apply le_val_enc_small. change (256 ^ N.of_nat 10) with 1208925819614629174706176.
    change (2^79) with 604462909807314587353088 in H. lia. }
  pose proof (subN_10_split s 0 ltac:(lia)) as E. rewrite subN_all in E by lia.
  rewrite E, le_val_snoc, subN_length in Vs by lia. change (0 + 9) with 9 in Vs.
  change (256 ^ 9) with 4722366482869645213696 in Vs. change (2^79) with 604462909807314587353088 in H. lia.
Qed.

Theorem pwb_pure_complete macs f : pwb_fields_ok macs f -> pwb_pure macs (pwb_encode f) = Ok f.
Proof.
  intros (Hchip & Htrig & Hmac & Lmac & Bmac & Hdelay & Hts & Hlast & Hreq & Hsent & Hover & Hcnt & Hfifo & Hwd &
          Hrd & Hws & Hdata).
  destruct f as [chip trig mac delay ts last req sent over counter fifo wd rd data].
  unfold pwb_encode. unfold pwb_waves in *.
  cbn [p_chip p_trig p_mac p_delay p_ts p_last p_req p_sent p_over p_counter p_fifo p_wdepth p_rdepth p_data] in *.
  set (ws := parse_blocks req (length sent) data) in *.
  destruct (len6 mac Lmac) as (m0 & m1 & m2 & m3 & m4 & m5 & ->).
  assert (Lws : length ws = length sent) by apply parse_blocks_length.
  assert (Hwl : Forall (fun w => lenN w = req) ws).
  { rewrite Forall_forall in *. intros w Hw. apply Hws. assumption. }
  pose proof (proj1 Hsent) as Vs.
  assert (BM1 : chans_mask sent < 2 ^ 79) by (apply chans_mask_bound, Hsent).
  assert (BM2 : chans_mask over < 2 ^ 79) by (apply chans_mask_bound, Hover).
  set (M1 := chans_mask sent) in *. set (M2 := chans_mask over) in *.
  set (tail := blocks_bytes req sent ws ++ [204; 204; 204; 204]).
  assert (Lt : lenN tail = bpc_of req * lenN sent + 4).
  { unfold tail. rewrite lenN_app, blocks_bytes_lenN by assumption. reflexivity. }
  assert (Ht : tail = enc_words data).
  { unfold tail. rewrite <- pwb_words_bytes by assumption. rewrite Hdata. reflexivity. }
  assert (Hd16 : Forall i16_ok data) by (rewrite Hdata; apply pwb_words_i16; assumption).
  set (l := [2; 65 + chip; 0; trig] ++ [m0; m1; m2; m3; m4; m5] ++ le_enc 2 delay ++ le_enc 6 ts ++ [0; 0] ++
            le_enc 2 last ++ le_enc 2 req ++ le_enc 10 M1 ++ le_enc 10 M2 ++ le_enc 4 counter ++ le_enc 2 fifo ++
            [wd; rd] ++ tail).
  assert (Ll : lenN l = 52 + lenN tail) by (unfold l; autorewrite with len; change (N.of_nat 2) with 2;
    change (N.of_nat 6) with 6; change (N.of_nat 10) with 10; change (N.of_nat 4) with 4; lia).
  assert (F0 : nthN l 0 = 2) by reflexivity.
  assert (F1 : nthN l 1 = 65 + chip) by reflexivity.
  assert (F2 : nthN l 2 = 0) by reflexivity.
  assert (F3 : nthN l 3 = trig) by reflexivity.
  assert (S4 : subN l 4 6 = [m0; m1; m2; m3; m4; m5]) by reflexivity.
  assert (S10 : subN l 10 2 = le_enc 2 delay) by reflexivity.
  assert (S12 : subN l 12 8 = le_enc 6 ts ++ [0; 0]) by reflexivity.
  assert (S18 : subN l 18 2 = [0; 0]) by reflexivity.
  assert (S20 : subN l 20 2 = le_enc 2 last) by reflexivity.
  assert (S22 : subN l 22 2 = le_enc 2 req) by reflexivity.
  assert (S24 : subN l 24 10 = le_enc 10 M1) by reflexivity.
  assert (S34 : subN l 34 10 = le_enc 10 M2) by reflexivity.
  assert (S44 : subN l 44 4 = le_enc 4 counter) by reflexivity.
  assert (S48 : subN l 48 2 = le_enc 2 fifo) by reflexivity.
  assert (F33 : nthN l 33 = nthN (le_enc 10 M1) 9) by reflexivity.
  assert (F43 : nthN l 43 = nthN (le_enc 10 M2) 9) by reflexivity.
  assert (F50 : nthN l 50 = wd) by reflexivity.
  assert (F51 : nthN l 51 = rd) by reflexivity.
  assert (D52 : dropN 52 l = tail) by reflexivity.
  clearbody l.
  unfold pwb_pure. cbv zeta.
  rewrite F0, F1, F2, F3, S4, S10, S12, S18, S20, S22, S24, S34, S44, S48, F33, F43, F50, F51, D52.
  replace (lenN l <? 56) with false by lia.
  rewrite after_of_char_ok by assumption.
  replace (trigger_of trig) with (Some trig) by (destruct Htrig as [->|[->| ->]]; reflexivity).
  rewrite Hmac. cbn [N.eqb Pos.eqb negb list_eqb andb].
  rewrite !le_val_enc_small by
    (change (256 ^ N.of_nat 2) with 65536; change (256 ^ N.of_nat 4) with 4294967296;
     change (256 ^ N.of_nat 10) with 1208925819614629174706176;
     change (2^16) with 65536 in *; change (2^32) with 4294967296 in *;
     change (2^79) with 604462909807314587353088 in *; lia).
  replace (511 <? last) with false by lia. replace (511 <? req) with false by lia.
  pose proof (le_enc10_top M1 BM1) as T1. pose proof (le_enc10_top M2 BM2) as T2.
  replace (128 <=? nthN (le_enc 10 M1) 9) with false by lia.
  replace (128 <=? nthN (le_enc 10 M2) 9) with false by lia.
  unfold M1, M2. rewrite !mask_chan_list_chans_mask by assumption.
  rewrite Lt, N.eqb_refl. cbn [negb].
  unfold tail at 1. rewrite blocks_pure_complete by assumption. cbn [negb].
  replace (subN tail (bpc_of req * lenN sent + 4 - 4) 4) with [204; 204; 204; 204].
  2:{ unfold tail. symmetry. apply subN_tail1; [rewrite blocks_bytes_lenN by assumption; lia|reflexivity]. }
  cbn [N.eqb Pos.eqb negb list_eqb andb].
  rewrite le_val_app_zeros by (repeat constructor).
  rewrite le_val_enc_small by (change (256 ^ N.of_nat 6) with 281474976710656; change (2^48) with 281474976710656 in *; lia).
  rewrite Ht, chunks_enc_words by assumption. rewrite !N.eqb_refl. reflexivity.
Qed.

Theorem pwb_exact_lemma macs m l f : bytes l ->
  (pwb_decode macs m l = Ok f <-> pwb_fields_ok macs f /\ l = pwb_encode f).
Proof.
  intros Hb. rewrite pwb_decode_pure by assumption. split.
  - apply pwb_pure_sound. assumption.
  - intros (Hf & ->). apply pwb_pure_complete. assumption.
Qed.

(* ================= G. waveform_at ================= *)

Lemma parse_blocks_nth req : forall n d k, (k < n)%nat ->
  nth_error (parse_blocks req n d) k = Some (subN d (spw req * N.of_nat k + 2) req).
Proof.
  induction n as [|n IH]; intros d k Hk; [lia|].
  destruct k as [|k]; cbn [parse_blocks nth_error].
  - change (N.of_nat 0) with 0. rewrite N.mul_0_r. reflexivity.
  - rewrite IH by lia. rewrite subN_dropN. do 2 f_equal. rewrite Nat2N.inj_succ. lia.
Qed.

Lemma blocks_words_lenN req : forall cs ws, length ws = length cs -> Forall (fun w => lenN w = req) ws ->
  lenN (blocks_words req cs ws) = spw req * lenN cs.
Proof.
  induction cs as [|c ct IH]; intros ws Hl Hw.
  - rewrite (@lenN_nil chan). cbn [blocks_words]. rewrite lenN_nil. lia.
  - destruct ws as [|w wt]; [discriminate|]. cbn [length] in Hl. inversion Hw; subst.
    cbn [blocks_words]. rewrite lenN_app, block_words_lenN, IH, lenN_cons by (lia || assumption || reflexivity). lia.
Qed.

Lemma chans_ok_length cs : chans_ok cs -> lenN cs <= 79.
Proof. intros H. rewrite <- (mask_chan_list_chans_mask cs H). apply mask_chan_list_length. Qed.

Theorem waveform_at_block_lemma macs m f c : pwb_fields_ok macs f -> In c (p_sent f) ->
  exists k w, nth_error (p_sent f) k = Some c /\ nth_error (pwb_waves f) k = Some w /\
              waveform_at m f c = Ok (Some w) /\ lenN w = p_req f.
Proof.
  intros (_ & _ & _ & _ & _ & _ & _ & _ & Hreq & Hsent & _ & _ & _ & _ & _ & Hws & Hdata) Hin.
  destruct (position c (p_sent f)) as [kN|] eqn:Hpos; [|apply position_None in Hpos; contradiction].
  pose proof (position_nth _ _ _ Hpos) as Hnth. pose proof (position_lt _ _ _ Hpos) as Hlt.
  pose proof (chans_ok_length _ Hsent) as Hn.
  set (req := p_req f) in *. set (sent := p_sent f) in *. set (data := p_data f) in *.
  assert (Lws : length (pwb_waves f) = length sent) by apply parse_blocks_length.
  assert (Hwl : Forall (fun w => lenN w = req) (pwb_waves f)).
  { rewrite Forall_forall in *. intros w Hw. apply Hws. assumption. }
  assert (Ld : lenN data = spw req * lenN sent + 2).
  { rewrite Hdata. unfold pwb_words. rewrite lenN_app, blocks_words_lenN by assumption. reflexivity. }
  set (S := spw req) in *.
  assert (HS : 2 + req <= S /\ S <= 514) by (unfold S, spw; lia).
  assert (H1 : S * kN <= 514 * 79) by (apply N.mul_le_mono; lia).
  assert (H2 : S * kN + S <= S * lenN sent).
  { pose proof (N.mul_le_mono_l (kN + 1) (lenN sent) S ltac:(lia)). lia. }
  exists (N.to_nat kN), (subN data (S * kN + 2) req).
  split; [exact Hnth|]. split; [|split].
  - unfold pwb_waves. fold req sent data. rewrite parse_blocks_nth by (unfold lenN in Hlt; lia).
    rewrite N2Nat.id. reflexivity.
  - unfold waveform_at. fold sent. rewrite Hpos. fold req data.
    assert (Hspc : (if req mod 2 =? 0 then uadd m 64 2 req else do a <- uadd m 64 2 req; uadd m 64 a 1) = Ok S).
    { unfold S, spw. destruct (N.eqb_spec (req mod 2) 0) as [Ev|Od];
        repeat (rewrite uadd_ok by (change (2^64) with 18446744073709551616; lia); cbn [bind]); f_equal; lia. }
    rewrite Hspc. cbn [bind].
    rewrite umul_ok by (change (2^64) with 18446744073709551616; lia). cbn [bind].
    rewrite uadd_ok by (change (2^64) with 18446744073709551616; lia). cbn [bind].
    rewrite slice_from_ok by lia. cbn [bind].
    rewrite slice_to_ok by (rewrite dropN_length; lia). reflexivity.
  - apply subN_length. lia.
Qed.

Theorem waveform_absent_lemma m f c : ~ In c (p_sent f) -> waveform_at m f c = Ok None.
Proof. intros H. apply position_None in H. unfold waveform_at. rewrite H. reflexivity. Qed.

(* ================= H. corollaries stated on the input bytes ================= *)

Theorem channel_lists_lemma macs m l f : bytes l -> pwb_decode macs m l = Ok f ->
  p_sent f = mask_chan_list (le_val (subN l 24 10)) /\ p_over f = mask_chan_list (le_val (subN l 34 10)) /\
  N.testbit (le_val (subN l 24 10)) 79 = false /\ N.testbit (le_val (subN l 34 10)) 79 = false.
Proof.
  intros Hb. rewrite pwb_decode_pure by assumption. unfold pwb_pure.
  destruct (N.ltb_spec (lenN l) 56) as [L56|L56]; [discriminate|].
  destruct (N.leb_spec 128 (nthN l 33)) as [H33|H33];
  destruct (N.leb_spec 128 (nthN l 43)) as [H43|H43];
  repeat (first [case_if | destruct (after_of_char _) | destruct (trigger_of _)]; try discriminate).
  intros H. inversion H; subst. cbn [p_sent p_over].
  split; [reflexivity|]. split; [reflexivity|].
  split; apply (bound_high_bits _ 79); try lia; apply le10_top; (assumption || lia).
Qed.

Lemma blocks_bytes_nth req : forall cs ws k c w, length ws = length cs -> Forall (fun w => lenN w = req) ws ->
  nth_error cs k = Some c -> nth_error ws k = Some w ->
  subN (blocks_bytes req cs ws) (bpc_of req * N.of_nat k) (bpc_of req) = block_bytes req c w.
Proof.
  induction cs as [|c0 ct IH]; intros ws k c w Hl Hw Hc Hk; [destruct k; discriminate|].
  destruct ws as [|w0 wt]; [destruct k; discriminate|]. cbn [length] in Hl. inversion Hw as [|? ? Hw1 Hw2]; subst.
  cbn [blocks_bytes].
  pose proof (block_bytes_lenN (lenN w0) c0 w0 eq_refl) as Lb.
  destruct k as [|k]; cbn [nth_error] in Hc, Hk.
  - inversion Hc; inversion Hk; subst. change (N.of_nat 0) with 0. rewrite N.mul_0_r.
    apply subN_app_hd; [reflexivity|]. symmetry. exact Lb.
  - rewrite subN_app_r by (rewrite Lb, Nat2N.inj_succ; lia).
    replace (bpc_of (lenN w0) * N.of_nat (S k) - lenN (block_bytes (lenN w0) c0 w0)) with (bpc_of (lenN w0) * N.of_nat k)
      by (rewrite Lb, Nat2N.inj_succ; lia).
    apply IH; (lia || assumption).
Qed.

Lemma pwb_encode_split f : length (p_mac f) = 6%nat ->
  exists H, lenN H = 52 /\ pwb_encode f = H ++ blocks_bytes (p_req f) (p_sent f) (pwb_waves f) ++ [204; 204; 204; 204].
Proof.
  intros Lm. unfold pwb_encode.
  exists ([2; 65 + p_chip f; 0; p_trig f] ++ p_mac f ++ le_enc 2 (p_delay f) ++ le_enc 6 (p_ts f) ++ [0; 0] ++
          le_enc 2 (p_last f) ++ le_enc 2 (p_req f) ++ le_enc 10 (chans_mask (p_sent f)) ++
          le_enc 10 (chans_mask (p_over f)) ++ le_enc 4 (p_counter f) ++ le_enc 2 (p_fifo f) ++ [p_wdepth f; p_rdepth f]).
  split.
  - autorewrite with len. replace (lenN (p_mac f)) with 6 by (unfold lenN; lia).
    change (N.of_nat 2) with 2. change (N.of_nat 6) with 6. change (N.of_nat 10) with 10. change (N.of_nat 4) with 4. lia.
  - rewrite <- !app_assoc. reflexivity.
Qed.

(* the waveform returned for the k-th sent channel is read from the k-th block of the INPUT bytes, which is exactly
   [readout index; count; samples; padding] at offset 52 + k * bytes_per_channel *)
Theorem waveform_bytes_lemma macs m l f c : bytes l -> pwb_decode macs m l = Ok f -> In c (p_sent f) ->
  exists k w, nth_error (p_sent f) (N.to_nat k) = Some c /\ waveform_at m f c = Ok (Some w) /\ lenN w = p_req f /\
    subN l (52 + bpc_of (p_req f) * k) (bpc_of (p_req f)) = block_bytes (p_req f) c w.
Proof.
  intros Hb Hdec Hin. apply pwb_exact_lemma in Hdec; [|assumption]. destruct Hdec as [Hok El].
  destruct (waveform_at_block_lemma macs m f c Hok Hin) as (k & w & Hc & Hw & Hwf & Lw).
  exists (N.of_nat k), w. rewrite Nat2N.id. repeat split; try assumption.
  destruct Hok as (_ & _ & _ & Lm & _ & _ & _ & _ & Hreq & Hsent & _ & _ & _ & _ & _ & Hws & _).
  destruct (pwb_encode_split f Lm) as (H & LH & EH). rewrite El, EH.
  set (req := p_req f) in *. set (sent := p_sent f) in *. set (ws := pwb_waves f) in *.
  assert (Lws : length ws = length sent) by apply parse_blocks_length.
  assert (Hwl : Forall (fun w => lenN w = req) ws).
  { rewrite Forall_forall in *. intros w' Hw'. apply Hws. assumption. }
  assert (Hk : (k < length sent)%nat) by (apply nth_error_Some; congruence).
  assert (H2 : bpc_of req * N.of_nat k + bpc_of req <= bpc_of req * lenN sent).
  { pose proof (N.mul_le_mono_l (N.of_nat k + 1) (lenN sent) (bpc_of req) ltac:(unfold lenN; lia)). lia. }
  rewrite subN_app_r by lia. replace (52 + bpc_of req * N.of_nat k - lenN H) with (bpc_of req * N.of_nat k) by lia.
  rewrite subN_app_l by (rewrite blocks_bytes_lenN by assumption; lia).
  apply blocks_bytes_nth; assumption.
Qed.


(* ================= I. the acceptance condition as a bullet list over the input bytes ================= *)

Definition pwb_wf (macs : list (list N)) (l : list N) : Prop :=
  56 <= lenN l /\                                                      (* header + end marker present *)
  nthN l 0 = 2 /\                                                      (* version 2 *)
  65 <= nthN l 1 <= 68 /\                                              (* chip 'A'..'D' *)
  nthN l 2 = 0 /\                                                      (* compression 0 *)
  (nthN l 3 = 0 \/ nthN l 3 = 1 \/ nthN l 3 = 3) /\                    (* trigger source 0/1/3 *)
  mac_known macs (subN l 4 6) = true /\                                (* known MAC *)
  subN l 18 2 = [0; 0] /\                                              (* zero bytes 18-19 *)
  le_val (subN l 20 2) <= 511 /\                                       (* last SCA cell *)
  le_val (subN l 22 2) <= 511 /\                                       (* requested samples *)
  nthN l 33 < 128 /\ nthN l 43 < 128 /\                                (* bit 79 clear in both masks *)
  let req := le_val (subN l 22 2) in
  let sent := mask_chan_list (le_val (subN l 24 10)) in
  lenN l = 56 + bpc_of req * lenN sent /\                              (* no bytes missing or left over *)
  (forall k c, nth_error sent k = Some c ->                            (* one block per sent channel, ascending *)
     let o := 52 + bpc_of req * N.of_nat k in
     le_val (subN l o 2) = chan_readout c /\                           (*   that channel's readout index *)
     le_val (subN l (o + 2) 2) = req /\                                (*   the requested sample count *)
     (req mod 2 <> 0 -> subN l (o + 4 + 2 * req) 2 = [0; 0])) /\       (*   zero padding iff odd *)
  subN l (lenN l - 4) 4 = [204; 204; 204; 204].                        (* end marker *)

Lemma readout_chan_iff v c : chan_valid c = true -> (readout_chan v = Some c <-> v = chan_readout c).
Proof.
  intros Hc. split.
  - intros H. apply readout_fwd in H. symmetry. apply H.
  - intros ->. apply readout_bwd. assumption.
Qed.

Lemma blocks_pure_iff req : forall cs d, Forall (fun c => chan_valid c = true) cs ->
  (blocks_pure req (bpc_of req) d cs = true <->
   forall k c, nth_error cs k = Some c ->
     le_val (subN d (bpc_of req * N.of_nat k) 2) = chan_readout c /\
     le_val (subN d (bpc_of req * N.of_nat k + 2) 2) = req /\
     (req mod 2 <> 0 -> subN d (bpc_of req * N.of_nat k + (4 + 2 * req)) 2 = [0; 0])).
Proof.
  set (bpc := bpc_of req).
  induction cs as [|c0 ct IH]; intros d Hv.
  - cbn [blocks_pure]. split; [intros _ k c H; destruct k; discriminate|reflexivity].
  - inversion Hv as [|? ? Hc0 Hvt]; subst. cbn [blocks_pure]. rewrite !andb_true_iff. rewrite (IH (dropN bpc d) Hvt).
    split.
    + intros [[[H1 H2] H3] H4] k c Hk. destruct k as [|k]; cbn [nth_error] in Hk.
      * inversion Hk; subst. change (N.of_nat 0) with 0. rewrite N.mul_0_r, !N.add_0_l.
        destruct (readout_chan (le_val (subN d 0 2))) as [fc|] eqn:Er; [|discriminate].
        apply chan_eqb_eq in H1. subst fc. apply readout_fwd in Er.
        split; [symmetry; apply Er|]. split; [apply N.eqb_eq; assumption|].
        intros Od. destruct (N.eqb_spec (req mod 2) 0); [contradiction|]. cbn [orb] in H3. apply leqb_eq. assumption.
      * specialize (H4 k c Hk). rewrite !subN_dropN in H4. rewrite Nat2N.inj_succ.
        replace (bpc * N.succ (N.of_nat k)) with (bpc + bpc * N.of_nat k) by lia.
        replace (bpc + bpc * N.of_nat k + 2) with (bpc + (bpc * N.of_nat k + 2)) by lia.
        replace (bpc + bpc * N.of_nat k + (4 + 2 * req)) with (bpc + (bpc * N.of_nat k + (4 + 2 * req))) by lia.
        exact H4.
    + intros H. pose proof (H 0%nat c0 eq_refl) as (A1 & A2 & A3).
      change (N.of_nat 0) with 0 in *. rewrite N.mul_0_r, !N.add_0_l in *.
      split; [split; [split|]|].
      * rewrite (proj2 (readout_chan_iff _ c0 Hc0) A1). apply chan_eqb_refl.
      * apply N.eqb_eq. assumption.
      * destruct (N.eqb_spec (req mod 2) 0); [reflexivity|]. cbn [orb]. rewrite A3 by assumption. reflexivity.
      * intros k c Hk. specialize (H (S k) c Hk). rewrite !subN_dropN. rewrite Nat2N.inj_succ in H.
        replace (bpc * N.succ (N.of_nat k)) with (bpc + bpc * N.of_nat k) in H by lia.
        replace (bpc + bpc * N.of_nat k + 2) with (bpc + (bpc * N.of_nat k + 2)) in H by lia.
        replace (bpc + bpc * N.of_nat k + (4 + 2 * req)) with (bpc + (bpc * N.of_nat k + (4 + 2 * req))) in H by lia.
        exact H.
Qed.

Lemma wf_dir1 macs m l : bytes l -> (exists f, pwb_decode macs m l = Ok f) -> pwb_wf macs l.
Proof.
  intros Hb. rewrite pwb_decode_pure by assumption. unfold pwb_wf. cbv zeta.
  pose proof (mask_chan_list_valid (le_val (subN l 24 10))) as Vs.
  remember (mask_chan_list (le_val (subN l 24 10))) as sent eqn:Esent.
  set (req := le_val (subN l 22 2)). set (bpc := bpc_of req).
  intros [f H]. revert H. unfold pwb_pure. cbv zeta. rewrite <- Esent.
    destruct (N.ltb_spec (lenN l) 56) as [L56|L56]; [discriminate|].
    destruct (N.eqb_spec (nthN l 0) 2) as [B0|B0]; cbn [negb]; [|discriminate].
    destruct (after_of_char (nthN l 1)) as [chip|] eqn:Ech; [|discriminate].
    destruct (N.eqb_spec (nthN l 2) 0) as [B2|B2]; cbn [negb]; [|discriminate].
    destruct (trigger_of (nthN l 3)) as [trig|] eqn:Etr; [|discriminate].
    destruct (mac_known macs (subN l 4 6)) eqn:Emac; cbn [negb]; [|discriminate].
    destruct (list_eqb (subN l 18 2) [0; 0]) eqn:Ez; cbn [negb]; [|discriminate]. apply leqb_eq in Ez.
    destruct (N.ltb_spec 511 (le_val (subN l 20 2))) as [Hlast|Hlast]; [discriminate|].
    destruct (N.ltb_spec 511 (le_val (subN l 22 2))) as [Hreq|Hreq]; [discriminate|].
    destruct (N.leb_spec 128 (nthN l 33)) as [H33|H33]; [discriminate|].
    destruct (N.leb_spec 128 (nthN l 43)) as [H43|H43]; [discriminate|].
    fold req bpc.
    destruct (N.eqb_spec (bpc * lenN sent + 4) (lenN (dropN 52 l))) as [El|El]; cbn [negb]; [|discriminate].
    destruct (blocks_pure req bpc (dropN 52 l) sent) eqn:Ebl; cbn [negb]; [|discriminate].
    destruct (list_eqb (subN (dropN 52 l) (lenN (dropN 52 l) - 4) 4) [204; 204; 204; 204]) eqn:Emk; [|discriminate].
    apply leqb_eq in Emk. intros _.
    apply after_of_char_spec in Ech. apply trigger_of_spec in Etr.
    rewrite dropN_length in El, Emk. rewrite subN_dropN in Emk.
    replace (52 + (lenN l - 52 - 4)) with (lenN l - 4) in Emk by lia.
    repeat match goal with |- _ /\ _ => split end; try assumption; try lia.
    intros k c Hk.
    destruct (proj1 (blocks_pure_iff req sent (dropN 52 l) Vs) Ebl k c Hk) as (A1 & A2 & A3). fold bpc in A1, A2, A3.
    rewrite !subN_dropN in A1, A2, A3.
    replace (52 + (bpc * N.of_nat k + 2)) with (52 + bpc * N.of_nat k + 2) in A2 by lia.
    replace (52 + (bpc * N.of_nat k + (4 + 2 * req))) with (52 + bpc * N.of_nat k + 4 + 2 * req) in A3 by lia.
    repeat split; assumption.
Qed.

Lemma wf_dir2 macs m l : bytes l -> pwb_wf macs l -> (exists f, pwb_decode macs m l = Ok f).
Proof.
  intros Hb. rewrite pwb_decode_pure by assumption. unfold pwb_wf. cbv zeta.
  pose proof (mask_chan_list_valid (le_val (subN l 24 10))) as Vs.
  remember (mask_chan_list (le_val (subN l 24 10))) as sent eqn:Esent.
  set (req := le_val (subN l 22 2)). set (bpc := bpc_of req).
  intros (L56 & B0 & B1 & B2 & B3 & Emac & Ez & Hlast & Hreq & H33 & H43 & El & Hblk & Emk).
    assert (Hchip : exists chip, after_of_char (nthN l 1) = Some chip).
    { assert (nthN l 1 = 65 \/ nthN l 1 = 66 \/ nthN l 1 = 67 \/ nthN l 1 = 68) as [E|[E|[E|E]]] by lia;
        rewrite E; eexists; reflexivity. }
    assert (Htrig : exists trig, trigger_of (nthN l 3) = Some trig).
    { destruct B3 as [E|[E|E]]; rewrite E; eexists; reflexivity. }
    destruct Hchip as [chip Hchip]. destruct Htrig as [trig Htrig].
    eexists. unfold pwb_pure. cbv zeta. rewrite <- Esent. rewrite Hchip, Htrig, B0, B2, Emac, Ez.
    replace (lenN l <? 56) with false by lia.
    fold req bpc.
    replace (511 <? le_val (subN l 20 2)) with false by lia.
    replace (511 <? req) with false by (unfold req; lia).
    replace (128 <=? nthN l 33) with false by lia.
    replace (128 <=? nthN l 43) with false by lia.
    rewrite dropN_length.
    replace (bpc * lenN sent + 4 =? lenN l - 52) with true by lia.
    assert (Ebl : blocks_pure req bpc (dropN 52 l) sent = true).
    { apply blocks_pure_iff; [assumption|]. fold bpc. intros k c Hk. destruct (Hblk k c Hk) as (A1 & A2 & A3).
      rewrite !subN_dropN.
      replace (52 + (bpc * N.of_nat k + 2)) with (52 + bpc * N.of_nat k + 2) by lia.
      replace (52 + (bpc * N.of_nat k + (4 + 2 * req))) with (52 + bpc * N.of_nat k + 4 + 2 * req) by lia.
      repeat split; assumption. }
    rewrite Ebl. rewrite subN_dropN. replace (52 + (lenN l - 52 - 4)) with (lenN l - 4) by lia.
    rewrite Emk. rewrite !N.eqb_refl. reflexivity.
Qed.

Theorem pwb_accept_iff_wf_lemma macs m l : bytes l ->
  ((exists f, pwb_decode macs m l = Ok f) <-> pwb_wf macs l).
Proof. intros Hb. split; [apply wf_dir1|apply wf_dir2]; assumption. Qed.
