(* C04: reassembly succeeds exactly on well-formed chunk sets, does not depend on the arrival order nor on which
   admissible sort is used, and never panics on chunks produced by the chunk decoder. *)
From Coq Require Import Sorting.Permutation Sorting.Sorted.
From AG Require Import Base.Prelude Base.Res Base.Bytes Codec.Chunk Codec.Chunk_proofs Codec.Reasm.

Definition idle (a b : chunk) : Prop := c_id a <= c_id b.

(* ---------- generic list facts ---------- *)
Lemma posb_none {A} (p : A -> bool) l : forall i, posb p l i = None <-> forall x, In x l -> p x = false.
Proof.
  induction l as [|a l IH]; intros i; cbn [posb].
  - split; [intros _ x []|reflexivity].
  - destruct (p a) eqn:E.
    + split; [discriminate|]. intros H. rewrite (H a (or_introl eq_refl)) in E. discriminate.
    + rewrite IH. split.
      * intros H x [<-|Hx]; auto.
      * intros H x Hx. apply H. right. exact Hx.
Qed.
Lemma position_pure {A} (p : A -> res bool) (q : A -> bool) l :
  (forall x, In x l -> p x = Ok (q x)) -> forall i, position p l i = Ok (posb q l i).
Proof.
  induction l as [|a l IH]; intros H i; cbn [position posb]; [reflexivity|].
  rewrite (H a (or_introl eq_refl)). cbn [bind]. destruct (q a); [reflexivity|].
  apply IH. intros x Hx. apply H. right. exact Hx.
Qed.
Lemma match_posb_eq {A B C} (q1 : A -> bool) (q2 : B -> bool) l1 l2 (X Y1 Y2 : C) :
  (posb q1 l1 0 = None <-> posb q2 l2 0 = None) -> (posb q1 l1 0 = None -> posb q2 l2 0 = None -> Y1 = Y2) ->
  match posb q1 l1 0 with Some _ => X | None => Y1 end = match posb q2 l2 0 with Some _ => X | None => Y2 end.
Proof.
  intros H HY. destruct (posb q1 l1 0) eqn:E1; destruct (posb q2 l2 0) eqn:E2; auto.
  - destruct H as [_ H]. specialize (H eq_refl). discriminate.
  - destruct H as [H _]. specialize (H eq_refl). discriminate.
Qed.
Lemma flat_map_ext_in' {A B} (f g : A -> list B) l : (forall x, In x l -> f x = g x) -> flat_map f l = flat_map g l.
Proof.
  induction l as [|a l IH]; intros H; [reflexivity|]. cbn [flat_map].
  rewrite (H a (or_introl eq_refl)), IH; [reflexivity|]. intros x Hx. apply H. right. exact Hx.
Qed.
Lemma flat_map_map' {A B C} (f : A -> B) (g : B -> list C) l : flat_map g (map f l) = flat_map (fun x => g (f x)) l.
Proof. induction l as [|a l IH]; [reflexivity|]. cbn [map flat_map]. rewrite IH. reflexivity. Qed.
Lemma nodup_key_inj {A} (f : A -> N) l : NoDup (map f l) -> forall x y, In x l -> In y l -> f x = f y -> x = y.
Proof.
  induction l as [|a l IH]; intros ND x y Hx Hy E; [destruct Hx|].
  cbn [map] in ND. inversion ND as [|? ? Hn ND']. subst.
  destruct Hx as [<-|Hx]; destruct Hy as [<-|Hy]; auto.
  - exfalso. apply Hn. rewrite E. apply in_map. exact Hy.
  - exfalso. apply Hn. rewrite <- E. apply in_map. exact Hx.
Qed.
Lemma last_opt_snoc {A} (f : list A) z : last_opt (f ++ [z]) = Some z.
Proof. unfold last_opt. rewrite rev_app_distr. reflexivity. Qed.
Lemma idx_0 {A} (x : A) t : idx (x :: t) 0 = Ok x.
Proof. reflexivity. Qed.

(* ---------- 0, 1, ..., n-1 ---------- *)
Lemma nseq_from_length i n : length (nseq_from i n) = n.
Proof. revert i. induction n as [|n IH]; intros i; cbn [nseq_from length]; auto. Qed.
Lemma nseq_from_In n : forall i x, In x (nseq_from i n) <-> i <= x < i + N.of_nat n.
Proof.
  induction n as [|n IH]; intros i x; cbn [nseq_from In].
  - split; [intros []|lia].
  - rewrite IH. lia.
Qed.
Lemma nseq_from_sorted n : forall i, StronglySorted N.le (nseq_from i n).
Proof.
  induction n as [|n IH]; intros i; cbn [nseq_from]; constructor; [apply IH|].
  apply Forall_forall. intros x Hx. apply nseq_from_In in Hx. lia.
Qed.
Lemma nseq_from_NoDup n : forall i, NoDup (nseq_from i n).
Proof.
  induction n as [|n IH]; intros i; cbn [nseq_from]; constructor; [|apply IH].
  intros H. apply nseq_from_In in H. lia.
Qed.
Lemma nseq_from_snoc n : forall i, nseq_from i (S n) = nseq_from i n ++ [i + N.of_nat n].
Proof.
  induction n as [|n IH]; intros i.
  - cbn [nseq_from app]. f_equal. lia.
  - change (nseq_from i (S (S n))) with (i :: nseq_from (i + 1) (S n)). rewrite IH.
    cbn [nseq_from app]. do 2 f_equal. f_equal. lia.
Qed.
Lemma first_bad_none ids : forall i, first_bad_id ids i = None <-> ids = nseq_from i (length ids).
Proof.
  induction ids as [|x t IH]; intros i; cbn [first_bad_id length nseq_from]; [split; reflexivity|].
  destruct (N.eqb_spec x i) as [->|Ne].
  - rewrite IH. split; [intros <-; reflexivity|]. intros [= H]. exact H.
  - split; [discriminate|]. intros [= H _]. contradiction.
Qed.

(* ---------- a sorted permutation is unique ---------- *)
Lemma sorted_perm_eq (l1 : list N) : forall l2, StronglySorted N.le l1 -> StronglySorted N.le l2 ->
  Permutation l1 l2 -> l1 = l2.
Proof.
  induction l1 as [|a l1 IH]; intros l2 S1 S2 P.
  - apply Permutation_nil in P. auto.
  - destruct l2 as [|b l2]; [apply Permutation_sym, Permutation_nil in P; discriminate|].
    apply StronglySorted_inv in S1. destruct S1 as [S1 F1]. apply StronglySorted_inv in S2. destruct S2 as [S2 F2].
    rewrite Forall_forall in F1, F2.
    assert (a = b).
    { assert (Hb : In b (a :: l1)) by (apply (Permutation_in b (Permutation_sym P)); left; reflexivity).
      assert (Ha : In a (b :: l2)) by (apply (Permutation_in a P); left; reflexivity).
      destruct Hb as [|Hb]; [auto|]. destruct Ha as [|Ha]; [auto|].
      specialize (F1 b Hb). specialize (F2 a Ha). lia. }
    subst b. f_equal. apply IH; auto. apply (Permutation_cons_inv P).
Qed.
Lemma sorted_map_id l : StronglySorted idle l -> StronglySorted N.le (map c_id l).
Proof.
  induction 1 as [|a l S IH F]; cbn [map]; constructor; [exact IH|].
  apply Forall_map. exact F.
Qed.
Lemma sorted_perm_key_eq (l1 : list chunk) : forall l2, StronglySorted idle l1 -> StronglySorted idle l2 ->
  Permutation l1 l2 -> NoDup (map c_id l1) -> l1 = l2.
Proof.
  induction l1 as [|a l1 IH]; intros l2 S1 S2 P ND.
  - apply Permutation_nil in P. auto.
  - destruct l2 as [|b l2]; [apply Permutation_sym, Permutation_nil in P; discriminate|].
    assert (Hb : In b (a :: l1)) by (apply (Permutation_in b (Permutation_sym P)); left; reflexivity).
    assert (Ha : In a (b :: l2)) by (apply (Permutation_in a P); left; reflexivity).
    assert (E : a = b).
    { apply (nodup_key_inj c_id (a :: l1) ND); [left; reflexivity|exact Hb|].
      apply StronglySorted_inv in S1. destruct S1 as [_ F1]. apply StronglySorted_inv in S2. destruct S2 as [_ F2].
      rewrite Forall_forall in F1, F2. unfold idle in F1, F2.
      destruct Hb as [->|Hb]; [reflexivity|]. destruct Ha as [->|Ha]; [reflexivity|].
      specialize (F1 b Hb). specialize (F2 a Ha). lia. }
    subst b. f_equal.
    apply StronglySorted_inv in S1. apply StronglySorted_inv in S2.
    apply IH; [apply S1|apply S2|apply (Permutation_cons_inv P)|].
    cbn [map] in ND. inversion ND. assumption.
Qed.
Lemma idle_trans : Relations_1.Transitive idle.
Proof. intros a b c. unfold idle. lia. Qed.

(* ---------- the chunk with id i ---------- *)
Lemma find_key cs c : NoDup (map c_id cs) -> In c cs -> find (fun x => c_id x =? c_id c) cs = Some c.
Proof.
  induction cs as [|x t IH]; intros ND Hc; [destruct Hc|]. cbn [find].
  destruct (N.eqb_spec (c_id x) (c_id c)) as [E|E].
  - f_equal. apply (nodup_key_inj c_id (x :: t) ND); [left; reflexivity|exact Hc|exact E].
  - destruct Hc as [->|Hc]; [contradiction|]. apply IH; [|exact Hc]. cbn [map] in ND. inversion ND. assumption.
Qed.
Lemma concat_by_id_sorted cs s : Permutation cs s -> map c_id s = nseq (length s) ->
  flat_map c_payload s = concat_by_id cs.
Proof.
  intros P Hid. unfold concat_by_id. rewrite (Permutation_length P), <- Hid, flat_map_map'.
  apply flat_map_ext_in'. intros c Hc. unfold payload_of. rewrite find_key; [reflexivity| |].
  - apply (Permutation_NoDup (Permutation_map c_id (Permutation_sym P))). rewrite Hid. apply nseq_from_NoDup.
  - apply (Permutation_in c (Permutation_sym P)). exact Hc.
Qed.

(* ---------- shape of a dense, id-sorted vector f ++ [z] ---------- *)
Lemma dense_snoc f z : map c_id (f ++ [z]) = nseq (length (f ++ [z])) ->
  map c_id f = nseq (length f) /\ c_id z = N.of_nat (length f).
Proof.
  rewrite map_app, app_length. cbn [map length]. replace (length f + 1)%nat with (S (length f)) by lia.
  unfold nseq. rewrite nseq_from_snoc. intros H. apply app_inj_tail in H. rewrite N.add_0_l in H. exact H.
Qed.

(* the checks on the sorted vector, in terms of its front f and last element z *)
Definition SC (f : list chunk) (z : chunk) : Prop :=
  c_eom z = true /\ (forall c, In c f -> c_eom c = false) /\
  (forall c, In c f -> lenN (c_payload c) = lenN (c_payload (hd z (f ++ [z])))).
(* the two order-independent conditions on end-of-message and sizes *)
Definition EC (s : list chunk) : Prop :=
  (forall c, In c s -> (c_eom c = true <-> c_id c = lenN s - 1)) /\
  (forall c c0, In c s -> In c0 s -> c_id c0 = 0 -> c_id c < lenN s - 1 -> lenN (c_payload c) = lenN (c_payload c0)).

Lemma hd_snoc_in {A} (f : list A) z : In (hd z (f ++ [z])) (f ++ [z]).
Proof. destruct f; cbn; auto. Qed.
Lemma hd_snoc_id f z : map c_id (f ++ [z]) = nseq (length (f ++ [z])) -> c_id (hd z (f ++ [z])) = 0.
Proof. intros H. apply (f_equal (hd 0)) in H. destruct f as [|a f]; exact H. Qed.

Lemma SC_iff_EC f z : map c_id (f ++ [z]) = nseq (length (f ++ [z])) -> (SC f z <-> EC (f ++ [z])).
Proof.
  intros D. destruct (dense_snoc f z D) as [Df Dz].
  assert (ND : NoDup (map c_id (f ++ [z]))) by (rewrite D; apply nseq_from_NoDup).
  assert (Ln : lenN (f ++ [z]) - 1 = N.of_nat (length f)).
  { unfold lenN. rewrite app_length. cbn [length]. lia. }
  assert (Ff : forall c, In c f -> c_id c < N.of_nat (length f)).
  { intros c Hc. assert (H : In (c_id c) (map c_id f)) by (apply in_map; exact Hc).
    rewrite Df in H. apply nseq_from_In in H. lia. }
  unfold SC, EC. rewrite Ln. split.
  - intros (Ez & Ef & Lf). split.
    + intros c Hc. apply in_app_or in Hc. destruct Hc as [Hc|[<-|[]]].
      * specialize (Ff c Hc). rewrite (Ef c Hc). split; [discriminate|lia].
      * split; auto.
    + intros c c0 Hc Hc0 Z Hlt. apply in_app_or in Hc. destruct Hc as [Hc|[<-|[]]]; [|lia].
      rewrite (Lf c Hc). f_equal. f_equal.
      apply (nodup_key_inj c_id _ ND); [apply hd_snoc_in|exact Hc0|]. rewrite hd_snoc_id by exact D. auto.
  - intros [He Hs]. split; [|split].
    + apply He; [apply in_or_app; right; left; reflexivity|exact Dz].
    + intros c Hc. specialize (Ff c Hc).
      destruct (c_eom c) eqn:E; [|reflexivity].
      assert (In c (f ++ [z])) by (apply in_or_app; left; exact Hc).
      apply He in E; [lia|assumption].
    + intros c Hc. apply Hs; [apply in_or_app; left; exact Hc|apply hd_snoc_in|apply hd_snoc_id; exact D|apply Ff; exact Hc].
Qed.

Section Proofs.
Variable devices : list N.
Variable m : ovf.
Definition oks (cs : list chunk) : Prop := Forall (chunk_ok devices) cs.

(* ---------- normal form of the checks on the sorted vector ---------- *)
Lemma dense_len_bound s : oks s -> map c_id s = nseq (length s) -> lenN s <= 65536.
Proof.
  intros Ho D. destruct s as [|c t]; [unfold lenN; cbn [length]; lia|].
  assert (Hn : c :: t <> []) by discriminate.
  destruct (exists_last Hn) as (f & z & E). rewrite E in *. clear E Hn.
  - destruct (dense_snoc f z D) as [_ Dz].
    unfold oks in Ho. rewrite Forall_forall in Ho.
    assert (Hz : chunk_ok devices z) by (apply Ho, in_or_app; right; left; reflexivity).
    destruct Hz as (_ & _ & _ & _ & _ & Hid & _). change (2^16) with 65536 in Hid.
    unfold lenN. rewrite app_length. cbn [length]. lia.
Qed.

Lemma reasm_sorted_nf f z : oks (f ++ [z]) ->
  reasm_sorted m (f ++ [z]) =
  match first_bad_id (map c_id (f ++ [z])) 0 with
  | Some pos => Err (E_MISSING pos)
  | None =>
    if negb (c_eom z) then Err E_NO_EOM else
    match posb c_eom f 0 with
    | Some pos => Err (E_EOM_EARLY pos)
    | None =>
      match posb (fun c => negb (lenN (c_payload c) =? lenN (c_payload (hd z (f ++ [z]))))) f 0 with
      | Some _ => Err E_LENGTH
      | None => Ok (flat_map c_payload (f ++ [z]))
      end
    end
  end.
Proof.
  intros Ho. unfold reasm_sorted.
  destruct (first_bad_id (map c_id (f ++ [z])) 0) eqn:FB; [reflexivity|].
  apply first_bad_none in FB. fold (nseq (length (map c_id (f ++ [z])))) in FB. rewrite map_length in FB.
  pose proof (dense_len_bound _ Ho FB) as LB.
  rewrite last_opt_snoc. cbn [unwrap bind]. unfold guard.
  destruct (negb (c_eom z)); [reflexivity|].
  assert (Ln : lenN (f ++ [z]) - 1 = lenN f) by (rewrite lenN_app, lenN_cons, lenN_nil; lia).
  rewrite usub_ok by (rewrite lenN_app, lenN_cons; lia). cbn [bind]. rewrite Ln.
  rewrite takeN_app_exact by reflexivity.
  destruct (posb c_eom f 0); [reflexivity|].
  assert (I0 : idx (f ++ [z]) 0 = Ok (hd z (f ++ [z]))) by (destruct f; reflexivity).
  rewrite I0. cbn [bind].
  destruct (posb _ f 0); [reflexivity|].
  rewrite umul_ok; [reflexivity|].
  unfold oks in Ho. rewrite Forall_forall in Ho.
  destruct (Ho _ (hd_snoc_in f z)) as (_ & _ & _ & _ & _ & _ & Hl & _).
  change (2^64) with 18446744073709551616. nia.
Qed.

Lemma reasm_sorted_ok_iff f z b : oks (f ++ [z]) ->
  (reasm_sorted m (f ++ [z]) = Ok b <->
   map c_id (f ++ [z]) = nseq (length (f ++ [z])) /\ SC f z /\ b = flat_map c_payload (f ++ [z])).
Proof.
  intros Ho. rewrite reasm_sorted_nf by exact Ho.
  destruct (first_bad_id (map c_id (f ++ [z])) 0) eqn:FB.
  - split; [discriminate|]. intros (D & _). rewrite <- (map_length c_id) in D. apply first_bad_none in D.
    rewrite D in FB. discriminate.
  - apply first_bad_none in FB. rewrite map_length in FB. unfold SC.
    destruct (c_eom z); cbn [negb].
    + destruct (posb c_eom f 0) eqn:P1.
      * split; [discriminate|]. intros (_ & (_ & Ef & _) & _). apply (proj2 (posb_none c_eom f 0)) in Ef. rewrite Ef in P1. discriminate.
      * destruct (posb (fun c => negb (lenN (c_payload c) =? lenN (c_payload (hd z (f ++ [z]))))) f 0) eqn:P2.
        -- split; [discriminate|]. intros (_ & (_ & _ & Lf) & _).
           assert (X : posb (fun c => negb (lenN (c_payload c) =? lenN (c_payload (hd z (f ++ [z]))))) f 0 = None).
           { apply posb_none. intros c Hc. rewrite (Lf c Hc), N.eqb_refl. reflexivity. }
           pose proof (eq_trans (eq_sym X) P2) as Y. discriminate Y.
        -- rewrite posb_none in P1, P2. split.
           ++ intros [= <-]. repeat split; auto. intros c Hc. specialize (P2 c Hc).
              apply negb_false_iff, N.eqb_eq in P2. exact P2.
           ++ intros (_ & _ & ->). reflexivity.
    + split; [discriminate|]. intros (_ & (Ez & _) & _). discriminate.
Qed.

Lemma reasm_sorted_total s : oks s -> s <> [] -> reasm_sorted m s <> Panic.
Proof.
  intros Ho Hn. destruct (exists_last Hn) as (f & z & ->). rewrite reasm_sorted_nf by exact Ho.
  destruct (first_bad_id _ 0); [discriminate|]. destruct (negb (c_eom z)); [discriminate|].
  destruct (posb c_eom f 0); [discriminate|]. destruct (posb _ f 0); discriminate.
Qed.

(* ---------- the checks before the sort ---------- *)
Lemma board_id_ok c : chunk_ok devices c -> board_id devices c = Ok (c_dev c).
Proof. intros (H & _). unfold board_id. rewrite H. reflexivity. Qed.
Lemma after_id_ok c : chunk_ok devices c -> after_id c = Ok (c_chan c).
Proof. intros (_ & _ & _ & H & _). unfold after_id. replace (c_chan c <=? 3) with true by lia. reflexivity. Qed.

Definition mism (f : chunk -> N) (c0 : chunk) (cs : list chunk) : option N :=
  posb (fun c => negb (f c =? f c0)) cs 0.
Lemma mism_none f c0 cs : mism f c0 cs = None <-> forall c, In c cs -> f c = f c0.
Proof.
  unfold mism. rewrite posb_none. split; intros H c Hc; specialize (H c Hc).
  - apply negb_false_iff, N.eqb_eq in H. exact H.
  - rewrite H, N.eqb_refl. reflexivity.
Qed.
Lemma mism_uniform f c0 t : mism f c0 (c0 :: t) = None <-> forall c c', In c (c0 :: t) -> In c' (c0 :: t) -> f c = f c'.
Proof.
  rewrite mism_none. split.
  - intros H c c' Hc Hc'. rewrite (H c Hc), (H c' Hc'). reflexivity.
  - intros H c Hc. apply H; [exact Hc|left; reflexivity].
Qed.

Section OneSort.
Variable sortF : list chunk -> list chunk.
Hypothesis sort_perm : forall l, Permutation l (sortF l).
Hypothesis sort_sorted : forall l, Sorted idle (sortF l).

Lemma sort_ssorted l : StronglySorted idle (sortF l).
Proof. apply Sorted_StronglySorted; [exact idle_trans|apply sort_sorted]. Qed.

Lemma reasm_struct_nf c0 t : oks (c0 :: t) ->
  reasm_struct devices m sortF (c0 :: t) =
  match mism c_dev c0 (c0 :: t) with
  | Some _ => Err E_DEVICE
  | None => match mism c_chan c0 (c0 :: t) with
            | Some _ => Err E_CHIP
            | None => reasm_sorted m (sortF (c0 :: t))
            end
  end.
Proof.
  intros Ho. unfold reasm_struct, guard. rewrite idx_0. cbn [bind].
  unfold oks in Ho. pose proof Ho as Ho'. rewrite Forall_forall in Ho'.
  rewrite board_id_ok by (apply Ho'; left; reflexivity). cbn [bind].
  rewrite (position_pure _ (fun c => negb (c_dev c =? c_dev c0))).
  2:{ intros x Hx. rewrite board_id_ok by (apply Ho'; exact Hx). reflexivity. }
  cbn [bind]. fold (mism c_dev c0 (c0 :: t)). destruct (mism c_dev c0 (c0 :: t)); [reflexivity|].
  rewrite after_id_ok by (apply Ho'; left; reflexivity). cbn [bind].
  rewrite (position_pure _ (fun c => negb (c_chan c =? c_chan c0))).
  2:{ intros x Hx. rewrite after_id_ok by (apply Ho'; exact Hx). reflexivity. }
  cbn [bind]. fold (mism c_chan c0 (c0 :: t)). destruct (mism c_chan c0 (c0 :: t)); reflexivity.
Qed.

Lemma sort_oks l : oks l -> oks (sortF l).
Proof. unfold oks. apply Permutation_Forall, sort_perm. Qed.
Lemma sort_nonempty c0 t : sortF (c0 :: t) <> [].
Proof. intros H. pose proof (sort_perm (c0 :: t)) as P. rewrite H in P. apply Permutation_sym, Permutation_nil in P. discriminate. Qed.

Theorem reasm_struct_total cs : oks cs -> reasm_struct devices m sortF cs <> Panic.
Proof.
  intros Ho. destruct cs as [|c0 t]; [discriminate|]. rewrite reasm_struct_nf by exact Ho.
  destruct (mism c_dev c0 (c0 :: t)); [discriminate|]. destruct (mism c_chan c0 (c0 :: t)); [discriminate|].
  apply reasm_sorted_total; [apply sort_oks; exact Ho|apply sort_nonempty].
Qed.

(* EC is about membership and length only, so it transfers along a permutation *)
Lemma EC_perm s s' : Permutation s s' -> EC s -> EC s'.
Proof.
  intros P [H1 H2]. pose proof (Permutation_sym P) as P'.
  assert (L : lenN s' = lenN s) by (unfold lenN; rewrite (Permutation_length P); reflexivity).
  unfold EC. rewrite L. split.
  - intros c Hc. apply H1. apply (Permutation_in c P'). exact Hc.
  - intros c c0 Hc Hc0. apply H2; [apply (Permutation_in c P')|apply (Permutation_in c0 P')]; assumption.
Qed.

Theorem reasm_struct_ok_iff cs b : oks cs ->
  (reasm_struct devices m sortF cs = Ok b <-> wf_set cs /\ b = concat_by_id cs).
Proof.
  intros Ho. destruct cs as [|c0 t].
  - split; [discriminate|]. intros [(H & _) _]. contradiction.
  - rewrite reasm_struct_nf by exact Ho.
    remember (c0 :: t) as cs eqn:Ecs. set (s := sortF cs).
    pose proof (sort_perm cs) as P. fold s in P.
    assert (Hne : s <> []) by (unfold s; rewrite Ecs; apply sort_nonempty).
    destruct (exists_last Hne) as (f & z & Es).
    assert (Hos : oks (f ++ [z])) by (rewrite <- Es; apply sort_oks; exact Ho).
    assert (Lcs : length s = length cs) by (symmetry; apply Permutation_length; exact P).
    unfold wf_set.
    destruct (mism c_dev c0 cs) eqn:M1.
    { split; [discriminate|]. intros [(_ & U & _) _]. rewrite Ecs in U. apply (proj2 (mism_uniform _ _ _)) in U. rewrite <- Ecs in U. rewrite U in M1. discriminate. }
    destruct (mism c_chan c0 cs) eqn:M2.
    { split; [discriminate|]. intros [(_ & _ & U & _) _]. rewrite Ecs in U. apply (proj2 (mism_uniform _ _ _)) in U. rewrite <- Ecs in U. rewrite U in M2. discriminate. }
    rewrite Ecs in M1, M2. pose proof (proj1 (mism_uniform _ _ _) M1) as U1. pose proof (proj1 (mism_uniform _ _ _) M2) as U2.
    clear M1 M2. rename U1 into M1. rename U2 into M2. rewrite <- Ecs in M1, M2.
    rewrite Es. rewrite reasm_sorted_ok_iff by exact Hos. rewrite <- Es.
    split.
    + intros (D & HSC & ->). rewrite Es in D.
      pose proof (proj1 (SC_iff_EC f z D) HSC) as HEC. rewrite <- Es in HEC, D.
      apply (EC_perm s cs (Permutation_sym P)) in HEC. destruct HEC as [E1 E2].
      split; [|apply concat_by_id_sorted; assumption].
      split; [rewrite Ecs; discriminate|]. split; [exact M1|]. split; [exact M2|]. split; [|split; assumption].
      rewrite <- Lcs, <- D. apply Permutation_map. exact P.
    + intros ((_ & _ & _ & Pid & E1 & E2) & ->).
      assert (D : map c_id s = nseq (length s)).
      { apply sorted_perm_eq.
        - apply sorted_map_id, sort_ssorted.
        - apply nseq_from_sorted.
        - rewrite Lcs. eapply Permutation_trans; [|exact Pid]. apply Permutation_map, Permutation_sym. exact P. }
      split; [exact D|]. split; [|symmetry; apply concat_by_id_sorted; assumption].
      rewrite Es in D. apply (SC_iff_EC f z D). rewrite <- Es. apply (EC_perm cs s P). split; assumption.
Qed.
End OneSort.

(* ---------- order independence, for any two admissible sorts ---------- *)
Section TwoSorts.
Variables sortF sortF' : list chunk -> list chunk.
Hypothesis sort_perm : forall l, Permutation l (sortF l).
Hypothesis sort_sorted : forall l, Sorted idle (sortF l).
Hypothesis sort_perm' : forall l, Permutation l (sortF' l).
Hypothesis sort_sorted' : forall l, Sorted idle (sortF' l).

Theorem reasm_struct_perm cs cs' : oks cs -> Permutation cs cs' ->
  reasm_struct devices m sortF cs = reasm_struct devices m sortF' cs'.
Proof.
  intros Ho P.
  assert (Ho' : oks cs') by (unfold oks in *; apply (Permutation_Forall P); exact Ho).
  destruct cs as [|c0 t]; [apply Permutation_nil in P; subst; reflexivity|].
  destruct cs' as [|c0' t']; [apply Permutation_sym, Permutation_nil in P; discriminate|].
  rewrite (reasm_struct_nf sortF c0 t Ho), (reasm_struct_nf sortF' c0' t' Ho').
  assert (TU : forall f : chunk -> N,
    (forall c c', In c (c0 :: t) -> In c' (c0 :: t) -> f c = f c') <->
    (forall c c', In c (c0' :: t') -> In c' (c0' :: t') -> f c = f c')).
  { intros f. pose proof (Permutation_sym P) as P'. split; intros H c c' Hc Hc'; apply H.
    - apply (Permutation_in c P'); exact Hc. - apply (Permutation_in c' P'); exact Hc'.
    - apply (Permutation_in c P); exact Hc. - apply (Permutation_in c' P); exact Hc'. }
  unfold mism at 1 3. apply match_posb_eq.
  { fold (mism c_dev c0 (c0 :: t)). fold (mism c_dev c0' (c0' :: t')). rewrite !mism_uniform. apply TU. }
  intros _ _. unfold mism. apply match_posb_eq.
  { fold (mism c_chan c0 (c0 :: t)). fold (mism c_chan c0' (c0' :: t')). rewrite !mism_uniform. apply TU. }
  intros _ _.
  set (s := sortF (c0 :: t)). set (s' := sortF' (c0' :: t')).
  assert (Ps : Permutation s s').
  { eapply Permutation_trans; [apply Permutation_sym, sort_perm|]. eapply Permutation_trans; [exact P|apply sort_perm']. }
  assert (S1 : StronglySorted idle s) by (apply Sorted_StronglySorted; [exact idle_trans|apply sort_sorted]).
  assert (S2 : StronglySorted idle s') by (apply Sorted_StronglySorted; [exact idle_trans|apply sort_sorted']).
  assert (Eid : map c_id s = map c_id s').
  { apply sorted_perm_eq; [apply sorted_map_id; exact S1|apply sorted_map_id; exact S2|apply Permutation_map; exact Ps]. }
  unfold reasm_sorted. rewrite <- Eid.
  destruct (first_bad_id (map c_id s) 0) eqn:FB; [reflexivity|].
  apply first_bad_none in FB.
  assert (E : s = s').
  { apply sorted_perm_key_eq; auto. rewrite FB. apply nseq_from_NoDup. }
  rewrite <- E. reflexivity.
Qed.
End TwoSorts.

(* ---------- with the payload decoder ---------- *)
Section Full.
Variable P : Type.
Variable pwb_decode : list N -> res P.
Variable sortF : list chunk -> list chunk.
Hypothesis sort_perm : forall l, Permutation l (sortF l).
Hypothesis sort_sorted : forall l, Sorted idle (sortF l).

Theorem reasm_ok_iff_lemma cs p : oks cs ->
  (reasm devices m sortF P pwb_decode cs = Ok p <-> wf_set cs /\ pwb_decode (concat_by_id cs) = Ok p).
Proof.
  intros Ho. unfold reasm.
  pose proof (reasm_struct_ok_iff sortF sort_perm sort_sorted cs) as H.
  destruct (reasm_struct devices m sortF cs) as [b|k|] eqn:E; cbn [bind].
  - destruct (proj1 (H b Ho) eq_refl) as [W ->]. split.
    + intros Hp. split; [exact W|]. destruct (pwb_decode (concat_by_id cs)); try discriminate. exact Hp.
    + intros [_ ->]. reflexivity.
  - split; [discriminate|]. intros [W _]. specialize (H (concat_by_id cs) Ho).
    destruct H as [_ H]. specialize (H (conj W eq_refl)). discriminate.
  - split; [discriminate|]. intros [W _]. specialize (H (concat_by_id cs) Ho).
    destruct H as [_ H]. specialize (H (conj W eq_refl)). discriminate.
Qed.

Lemma bytes_flat_map {A} (g : A -> list N) l : (forall x, bytes (g x)) -> bytes (flat_map g l).
Proof. intros H. induction l as [|a l IH]; [constructor|]. cbn [flat_map]. apply bytes_app. auto. Qed.
Lemma bytes_concat_by_id cs : oks cs -> bytes (concat_by_id cs).
Proof.
  intros Ho. apply bytes_flat_map. intros i. unfold payload_of.
  destruct (find (fun c => c_id c =? i) cs) eqn:F; [|constructor].
  apply find_some in F. destruct F as [F _]. unfold oks in Ho. rewrite Forall_forall in Ho.
  destruct (Ho c F) as (_ & _ & _ & _ & _ & _ & _ & Hb). exact Hb.
Qed.

Theorem reasm_total_lemma cs : oks cs -> (forall l, bytes l -> pwb_decode l <> Panic) ->
  reasm devices m sortF P pwb_decode cs <> Panic.
Proof.
  intros Ho Hd. unfold reasm.
  pose proof (reasm_struct_total sortF sort_perm cs Ho) as T.
  pose proof (reasm_struct_ok_iff sortF sort_perm sort_sorted cs) as H.
  destruct (reasm_struct devices m sortF cs) as [b|k|] eqn:E; cbn [bind]; [|discriminate|contradiction].
  destruct (proj1 (H b Ho) eq_refl) as [_ ->].
  specialize (Hd _ (bytes_concat_by_id cs Ho)). destruct (pwb_decode (concat_by_id cs)); try discriminate. contradiction.
Qed.

(* every set that is not well formed is refused, with an error (before the payload decoder is reached) *)
Theorem reasm_not_wf_err cs : oks cs -> ~ wf_set cs -> exists k, reasm devices m sortF P pwb_decode cs = Err k.
Proof.
  intros Ho Hn. unfold reasm.
  pose proof (reasm_struct_total sortF sort_perm cs Ho) as T.
  pose proof (reasm_struct_ok_iff sortF sort_perm sort_sorted cs) as H.
  destruct (reasm_struct devices m sortF cs) as [b|k|] eqn:E; cbn [bind].
  - exfalso. apply Hn. apply (proj1 (H b Ho) eq_refl).
  - eauto.
  - contradiction.
Qed.
End Full.
End Proofs.

(* ---------- the executable sort is admissible ---------- *)
Lemma insert_perm c l : Permutation (c :: l) (insert_by_id c l).
Proof.
  induction l as [|x t IH]; cbn [insert_by_id]; [reflexivity|].
  destruct (c_id c <=? c_id x); [reflexivity|].
  eapply Permutation_trans; [apply perm_swap|]. apply perm_skip. exact IH.
Qed.
Lemma isort_perm l : Permutation l (isort_by_id l).
Proof.
  induction l as [|c l IH]; [reflexivity|]. cbn [isort_by_id fold_right].
  eapply Permutation_trans; [apply perm_skip; exact IH|]. apply insert_perm.
Qed.
Lemma insert_sorted c l : Sorted idle l -> Sorted idle (insert_by_id c l).
Proof.
  induction 1 as [|x t S IH H]; cbn [insert_by_id]; [repeat constructor|].
  destruct (N.leb_spec (c_id c) (c_id x)) as [L|L].
  - constructor; [constructor; assumption|]. constructor. exact L.
  - constructor; [exact IH|].
    destruct t as [|y t]; cbn [insert_by_id].
    + constructor. unfold idle. lia.
    + destruct (c_id c <=? c_id y); constructor; [unfold idle; lia|]. inversion H. assumption.
Qed.
Lemma isort_sorted l : Sorted idle (isort_by_id l).
Proof. induction l as [|c l IH]; [constructor|]. cbn [isort_by_id fold_right]. apply insert_sorted. exact IH. Qed.

Lemma isort_admissible : admissible_sort isort_by_id.
Proof. split; [exact isort_perm|exact isort_sorted]. Qed.

(* ---------- statements in terms of admissible_sort ---------- *)
Section Pinned.
Variable devices : list N.
Variable m : ovf.
Variable P : Type.
Variable pwb_decode : list N -> res P.

Theorem reasm_ok_iff sortF cs p : admissible_sort sortF -> Forall (chunk_ok devices) cs ->
  (reasm devices m sortF P pwb_decode cs = Ok p <-> wf_set cs /\ pwb_decode (concat_by_id cs) = Ok p).
Proof. intros [A B] Ho. apply reasm_ok_iff_lemma; assumption. Qed.

Theorem reasm_perm sortF sortF' cs cs' : admissible_sort sortF -> admissible_sort sortF' ->
  Forall (chunk_ok devices) cs -> Permutation cs cs' ->
  reasm devices m sortF P pwb_decode cs = reasm devices m sortF' P pwb_decode cs'.
Proof.
  intros [A B] [A' B'] Ho Pm. unfold reasm.
  rewrite (reasm_struct_perm devices m sortF sortF' A B A' B' cs cs' Ho Pm). reflexivity.
Qed.

Theorem reasm_total sortF cs : admissible_sort sortF -> Forall (chunk_ok devices) cs ->
  (forall l, bytes l -> pwb_decode l <> Panic) -> reasm devices m sortF P pwb_decode cs <> Panic.
Proof. intros [A B] Ho. apply reasm_total_lemma; assumption. Qed.

Theorem reasm_not_wf sortF cs : admissible_sort sortF -> Forall (chunk_ok devices) cs -> ~ wf_set cs ->
  exists k, reasm devices m sortF P pwb_decode cs = Err k.
Proof. intros [A B] Ho. apply reasm_not_wf_err; assumption. Qed.

(* chunks produced by the chunk decoder satisfy chunk_ok *)
Lemma decoded_chunk_ok m' l c : bytes l -> chunk_decode devices m' l = Ok c -> chunk_ok devices c.
Proof. intros Hb H. apply chunk_exact_lemma in H; [apply H|exact Hb]. Qed.
Lemma decoded_chunks_ok m' ls cs : Forall bytes ls -> Forall2 (fun l c => chunk_decode devices m' l = Ok c) ls cs ->
  Forall (chunk_ok devices) cs.
Proof.
  intros Hb H. induction H as [|l c ls cs H1 H IH]; [constructor|].
  inversion Hb. subst. constructor; [eapply decoded_chunk_ok; eauto|auto].
Qed.

(* ---------- every single fault of the property text makes the set ill-formed ---------- *)
Section Faults.
Variable sortF : list chunk -> list chunk.
Hypothesis adm : admissible_sort sortF.
Variable cs : list chunk.
Hypothesis Ho : Forall (chunk_ok devices) cs.
Let refuse := exists k, reasm devices m sortF P pwb_decode cs = Err k.

Lemma missing_id_err : (exists i, i < lenN cs /\ ~ In i (map c_id cs)) -> refuse.
Proof.
  intros (i & Hi & Hn). apply reasm_not_wf; auto. intros (_ & _ & _ & Pid & _). apply Hn.
  apply (Permutation_in i (Permutation_sym Pid)). apply nseq_from_In. unfold lenN in Hi. lia.
Qed.
Lemma dup_id_err : ~ NoDup (map c_id cs) -> refuse.
Proof.
  intros Hn. apply reasm_not_wf; auto. intros (_ & _ & _ & Pid & _). apply Hn.
  apply (Permutation_NoDup (Permutation_sym Pid)). apply nseq_from_NoDup.
Qed.
Lemma mixed_board_err : (exists c c', In c cs /\ In c' cs /\ c_dev c <> c_dev c') -> refuse.
Proof. intros (c & c' & Hc & Hc' & Hn). apply reasm_not_wf; auto. intros (_ & U & _). apply Hn, U; assumption. Qed.
Lemma mixed_chip_err : (exists c c', In c cs /\ In c' cs /\ c_chan c <> c_chan c') -> refuse.
Proof. intros (c & c' & Hc & Hc' & Hn). apply reasm_not_wf; auto. intros (_ & _ & U & _). apply Hn, U; assumption. Qed.
Lemma eom_absent_err : (exists c, In c cs /\ c_id c = lenN cs - 1 /\ c_eom c = false) -> refuse.
Proof.
  intros (c & Hc & Hid & He). apply reasm_not_wf; auto. intros (_ & _ & _ & _ & E & _).
  apply (E c Hc) in Hid. rewrite Hid in He. discriminate.
Qed.
Lemma eom_early_err : (exists c, In c cs /\ c_id c <> lenN cs - 1 /\ c_eom c = true) -> refuse.
Proof.
  intros (c & Hc & Hid & He). apply reasm_not_wf; auto. intros (_ & _ & _ & _ & E & _).
  apply Hid. apply (E c Hc). exact He.
Qed.
Lemma nonfinal_size_err :
  (exists c c0, In c cs /\ In c0 cs /\ c_id c0 = 0 /\ c_id c < lenN cs - 1 /\
                lenN (c_payload c) <> lenN (c_payload c0)) -> refuse.
Proof.
  intros (c & c0 & Hc & Hc0 & Z & Hlt & Hn). apply reasm_not_wf; auto. intros (_ & _ & _ & _ & _ & S).
  apply Hn. apply S; assumption.
Qed.
End Faults.
End Pinned.

(* ---------- the fault list of the property text is complete ---------- *)
Lemma NoDup_N_dec (l : list N) : NoDup l \/ ~ NoDup l.
Proof.
  induction l as [|a l IH]; [left; constructor|].
  destruct IH as [IH|IH].
  - destruct (in_dec N.eq_dec a l) as [I|I].
    + right. intros H. inversion H. contradiction.
    + left. constructor; assumption.
  - right. intros H. inversion H. contradiction.
Qed.

Theorem wf_set_iff_no_fault cs :
  wf_set cs <-> cs <> [] /\ ~ F_board cs /\ ~ F_chip cs /\ ~ F_missing cs /\ ~ F_dup cs /\
                ~ F_eom_absent cs /\ ~ F_eom_early cs /\ ~ F_size cs.
Proof.
  split.
  - intros (Hn & Ub & Uc & Pid & He & Hs). split; [exact Hn|].
    split; [intros (c & c' & Hc & Hc' & X); apply X, Ub; assumption|].
    split; [intros (c & c' & Hc & Hc' & X); apply X, Uc; assumption|].
    split.
    { intros (i & Hi & X). apply X. apply (Permutation_in i (Permutation_sym Pid)).
      apply nseq_from_In. unfold lenN in Hi. lia. }
    split; [intros X; apply X; apply (Permutation_NoDup (Permutation_sym Pid)), nseq_from_NoDup|].
    split.
    { intros (c & Hc & Hid & E). apply (He c Hc) in Hid. rewrite Hid in E. discriminate. }
    split; [intros (c & Hc & Hid & E); apply Hid, (He c Hc), E|].
    intros (c & c0 & Hc & Hc0 & Z & Hlt & X). apply X, Hs; assumption.
  - intros (Hn & Fb & Fc & Fm & Fd & Fa & Fe & Fs).
    split; [exact Hn|]. split; [|split; [|split; [|split]]].
    + intros c c' Hc Hc'. destruct (N.eq_dec (c_dev c) (c_dev c')) as [E|E]; [exact E|].
      exfalso. apply Fb. exists c, c'. auto.
    + intros c c' Hc Hc'. destruct (N.eq_dec (c_chan c) (c_chan c')) as [E|E]; [exact E|].
      exfalso. apply Fc. exists c, c'. auto.
    + apply Permutation_sym. apply NoDup_Permutation_bis.
      * apply nseq_from_NoDup.
      * unfold nseq. rewrite nseq_from_length, map_length. lia.
      * intros i Hi. apply nseq_from_In in Hi.
        destruct (in_dec N.eq_dec i (map c_id cs)) as [I|I]; [exact I|].
        exfalso. apply Fm. exists i. split; [unfold lenN; lia|exact I].
    + intros c Hc. split.
      * intros E. destruct (N.eq_dec (c_id c) (lenN cs - 1)) as [I|I]; [exact I|].
        exfalso. apply Fe. exists c. auto.
      * intros I. destruct (c_eom c) eqn:E; [reflexivity|]. exfalso. apply Fa. exists c. auto.
    + intros c c0 Hc Hc0 Z Hlt.
      destruct (N.eq_dec (lenN (c_payload c)) (lenN (c_payload c0))) as [E|E]; [exact E|].
      exfalso. apply Fs. exists c, c0. auto 6.
Qed.

(* ---------- every message cut into chunks by the sender is reassembled, in any arrival order ---------- *)
Section Split.
Variable devices : list N.
Variable m : ovf.
Variables dev chan : N.
Variables pseq cseq : N -> N.
Hypothesis dev_ok : dev_known devices dev = true.
Hypothesis chan_ok : chan <= 3.
Hypothesis pseq_ok : forall i, pseq i < 2^32.
Hypothesis cseq_ok : forall i, cseq i < 2^16.
Variable k : N.
Hypothesis k_ok : 1 <= k <= 65535.
Variable front : list (list N).
Variable lastp : list N.
Hypothesis front_ok : Forall (fun q => lenN q = k /\ bytes q) front.
Hypothesis last_ok : 1 <= lenN lastp <= 65535 /\ bytes lastp.
Hypothesis count_ok : N.of_nat (length front) <= 65535.

Let fr := map (fun ip => mk_chunk dev chan pseq cseq (fst ip) 0 (snd ip)) (combine (nseq (length front)) front).
Let z := mk_chunk dev chan pseq cseq (N.of_nat (length front)) 1 lastp.
Let cs := chunks_of dev chan pseq cseq front lastp.

Lemma cs_eq : cs = fr ++ [z]. Proof. reflexivity. Qed.

Lemma combine_fst {A B} (a : list A) : forall b : list B, length a = length b -> map fst (combine a b) = a.
Proof. induction a as [|x a IH]; intros [|y b] H; try discriminate; [reflexivity|]. cbn [combine map fst]. f_equal. apply IH. injection H; auto. Qed.
Lemma combine_snd {A B} (a : list A) : forall b : list B, length a = length b -> map snd (combine a b) = b.
Proof. induction a as [|x a IH]; intros [|y b] H; try discriminate; [reflexivity|]. cbn [combine map snd]. f_equal. apply IH. injection H; auto. Qed.

Lemma fr_length : length fr = length front.
Proof. unfold fr. rewrite map_length, combine_length. unfold nseq. rewrite nseq_from_length. lia. Qed.
Lemma fr_ids : map c_id fr = nseq (length front).
Proof.
  unfold fr. rewrite map_map. cbn [mk_chunk c_id]. apply combine_fst. unfold nseq. apply nseq_from_length.
Qed.
Lemma fr_payloads : map c_payload fr = front.
Proof.
  unfold fr. rewrite map_map. cbn [mk_chunk c_payload]. apply combine_snd. unfold nseq. apply nseq_from_length.
Qed.
Lemma fr_in c : In c fr -> exists i p, c = mk_chunk dev chan pseq cseq i 0 p /\ In p front /\ i < N.of_nat (length front).
Proof.
  unfold fr. intros H. apply in_map_iff in H. destruct H as ([i p] & <- & H).
  exists i, p. split; [reflexivity|]. split.
  - apply in_combine_r in H. exact H.
  - apply in_combine_l in H. apply nseq_from_In in H. lia.
Qed.

Lemma cs_dense : map c_id cs = nseq (length cs).
Proof.
  rewrite cs_eq, map_app, fr_ids, app_length, fr_length. cbn [map length].
  replace (length front + 1)%nat with (S (length front)) by lia.
  unfold nseq. rewrite nseq_from_snoc. cbn [z mk_chunk c_id]. rewrite N.add_0_l. reflexivity.
Qed.

Lemma cs_oks : Forall (chunk_ok devices) cs.
Proof.
  rewrite cs_eq. apply Forall_app. split.
  - apply Forall_forall. intros c Hc. apply fr_in in Hc. destruct Hc as (i & p & -> & Hp & Hi).
    rewrite Forall_forall in front_ok. destruct (front_ok p Hp) as [Lp Bp].
    unfold chunk_ok, mk_chunk. cbn [c_dev c_pseq c_cseq c_chan c_flags c_id c_payload].
    change (2^16) with 65536. repeat split; auto; lia.
  - constructor; [|constructor]. destruct last_ok as [Ll Bl].
    unfold chunk_ok, z, mk_chunk. cbn [c_dev c_pseq c_cseq c_chan c_flags c_id c_payload].
    change (2^16) with 65536. repeat split; auto; lia.
Qed.

Lemma cs_SC : SC fr z.
Proof.
  unfold SC. split; [reflexivity|]. split.
  - intros c Hc. apply fr_in in Hc. destruct Hc as (i & p & -> & _). reflexivity.
  - intros c Hc.
    assert (K : forall c', In c' fr -> lenN (c_payload c') = k).
    { intros c' Hc'. apply fr_in in Hc'. destruct Hc' as (i & p & -> & Hp & _).
      rewrite Forall_forall in front_ok. apply (front_ok p Hp). }
    rewrite (K c Hc). symmetry. destruct fr as [|c0 t] eqn:E; [destruct Hc|].
    cbn [app hd]. apply K. left. reflexivity.
Qed.

Theorem chunks_of_wf : wf_set cs.
Proof.
  pose proof cs_dense as D. rewrite cs_eq in D.
  pose proof (proj1 (SC_iff_EC fr z D) cs_SC) as [E1 E2]. rewrite <- cs_eq in E1, E2, D.
  unfold wf_set. split; [rewrite cs_eq; destruct fr; discriminate|].
  assert (U : forall c, In c cs -> c_dev c = dev /\ c_chan c = chan).
  { intros c Hc. rewrite cs_eq in Hc. apply in_app_or in Hc. destruct Hc as [Hc|[<-|[]]].
    - apply fr_in in Hc. destruct Hc as (i & p & -> & _). split; reflexivity.
    - split; reflexivity. }
  split; [intros c c' Hc Hc'; destruct (U c Hc) as [-> _]; destruct (U c' Hc') as [-> _]; reflexivity|].
  split; [intros c c' Hc Hc'; destruct (U c Hc) as [_ ->]; destruct (U c' Hc') as [_ ->]; reflexivity|].
  split; [rewrite D; reflexivity|]. split; assumption.
Qed.

Theorem chunks_of_concat : concat_by_id cs = concat front ++ lastp.
Proof.
  rewrite <- (concat_by_id_sorted cs cs (Permutation_refl cs) cs_dense).
  rewrite cs_eq, flat_map_app. cbn [flat_map z mk_chunk c_payload]. rewrite app_nil_r. f_equal.
  rewrite flat_map_concat_map, fr_payloads. reflexivity.
Qed.

Variable P : Type.
Variable pwb_decode : list N -> res P.
Variable sortF : list chunk -> list chunk.
Hypothesis adm : admissible_sort sortF.

Theorem split_reasm cs' : Permutation cs cs' ->
  reasm devices m sortF P pwb_decode cs' =
  match pwb_decode (concat front ++ lastp) with Ok p => Ok p | Err _ => Err E_PAYLOAD | Panic => Panic end.
Proof.
  intros Pm. rewrite <- (reasm_perm devices m P pwb_decode sortF sortF cs cs' adm adm cs_oks Pm).
  unfold reasm. destruct adm as [A B].
  rewrite (proj2 (reasm_struct_ok_iff devices m sortF A B cs (concat_by_id cs) cs_oks) (conj chunks_of_wf eq_refl)).
  cbn [bind]. rewrite chunks_of_concat. reflexivity.
Qed.
End Split.
