(* CRC-32C: linearity, closed form of the register, syndromes of error patterns, detection of 1..3 bit
   errors (up to HD_BOUND bits, from the table of CrcHD.v) and of bursts of at most 32 bits (algebraic). *)
From Coq Require Import Sorting.Sorted.
From AG Require Import Base.Prelude Base.Bytes Base.Mask Codec.Crc32c Codec.CrcHD Codec.BitErr
  Codec.Chunk Codec.Chunk_proofs.

(* ---------- the register step is linear over xor ---------- *)
Lemma crc_step_L s b : crc_step s b = L (N.lxor s (N.b2n b)).
Proof. reflexivity. Qed.

Lemma sel_lxor (a b : bool) :
  (if xorb a b then POLY else 0) = N.lxor (if a then POLY else 0) (if b then POLY else 0).
Proof. destruct a, b; reflexivity. Qed.

Lemma lxor_swap4 a b c d : N.lxor (N.lxor a b) (N.lxor c d) = N.lxor (N.lxor a c) (N.lxor b d).
Proof. rewrite !N.lxor_assoc. f_equal. rewrite <- !N.lxor_assoc. f_equal. apply N.lxor_comm. Qed.

Lemma L_lxor a b : L (N.lxor a b) = N.lxor (L a) (L b).
Proof. unfold L. rewrite N.shiftr_lxor, N.lxor_spec, sel_lxor. apply lxor_swap4. Qed.
Lemma L_0 : L 0 = 0.
Proof. reflexivity. Qed.

Lemma crc_step_linear s1 s2 b1 b2 :
  crc_step (N.lxor s1 s2) (xorb b1 b2) = N.lxor (crc_step s1 b1) (crc_step s2 b2).
Proof.
  rewrite !crc_step_L, <- L_lxor. f_equal.
  replace (N.b2n (xorb b1 b2)) with (N.lxor (N.b2n b1) (N.b2n b2)) by (destruct b1, b2; reflexivity).
  apply lxor_swap4.
Qed.

Theorem crc_bits_linear : forall l1 l2 s1 s2, length l1 = length l2 ->
  crc_bits (N.lxor s1 s2) (xorl l1 l2) = N.lxor (crc_bits s1 l1) (crc_bits s2 l2).
Proof.
  unfold xorl, crc_bits.
  induction l1 as [|a l1 IH]; intros [|b l2] s1 s2 H; try discriminate; cbn [combine map fold_left fst snd].
  - reflexivity.
  - rewrite crc_step_linear. apply IH. injection H; auto.
Qed.

(* ---------- iterates of L ---------- *)
Lemma Liter_lxor k : forall a b, Liter k (N.lxor a b) = N.lxor (Liter k a) (Liter k b).
Proof. induction k as [|k IH]; intros a b; cbn [Liter]; [reflexivity|]. rewrite L_lxor. apply IH. Qed.
Lemma Liter_0 k : Liter k 0 = 0.
Proof. induction k as [|k IH]; cbn [Liter]; [reflexivity|]. rewrite L_0. exact IH. Qed.

Lemma L_bound s : s < 2^32 -> L s < 2^32.
Proof.
  intros H. pose proof (crc_step_bound s false H) as B. rewrite crc_step_L in B.
  cbn [N.b2n] in B. rewrite N.lxor_0_r in B. exact B.
Qed.
Lemma Liter_bound k : forall s, s < 2^32 -> Liter k s < 2^32.
Proof. induction k as [|k IH]; intros s H; cbn [Liter]; [assumption|]. apply IH, L_bound, H. Qed.

Lemma L_zero x : x < 2^32 -> L x = 0 -> x = 0.
Proof.
  intros B H. unfold L in H. apply N.lxor_eq in H.
  rewrite shiftr_div in H. change (2^1) with 2 in H.
  rewrite testbit_div in H. change (2^0) with 1 in H. rewrite N.div_1_r in H.
  change (2^32) with 4294967296 in B.
  destruct (N.eqb_spec (x mod 2) 1) as [E|E].
  - unfold POLY in H. lia.
  - lia.
Qed.
Lemma Liter_zero k : forall x, x < 2^32 -> Liter k x = 0 -> x = 0.
Proof.
  induction k as [|k IH]; intros x B H; cbn [Liter] in H; [assumption|].
  apply L_zero; [assumption|]. apply IH; [apply L_bound; assumption|assumption].
Qed.

Lemma L_double x : L (2 * x) = x.
Proof.
  unfold L. rewrite N.testbit_even_0. rewrite <- N.div2_spec, N.div2_double. apply N.lxor_0_r.
Qed.

(* ---------- closed form: the register after a bit string is L^n (s xor value-of-the-string) ---------- *)
Lemma b2n_add_double b v : N.b2n b + 2 * v = N.lxor (N.b2n b) (2 * v).
Proof. destruct b, v; reflexivity. Qed.

Theorem crc_bits_closed w : forall r, crc_bits r w = Liter (length w) (N.lxor r (bval w)).
Proof.
  unfold crc_bits. induction w as [|b w IH]; intros r; cbn [fold_left length bval Liter].
  - rewrite N.lxor_0_r. reflexivity.
  - rewrite IH. f_equal. rewrite crc_step_L, b2n_add_double.
    rewrite <- (N.lxor_assoc r), (L_lxor (N.lxor r (N.b2n b))), L_double. reflexivity.
Qed.

Lemma crc_bits_split s e : crc_bits s e = N.lxor (Liter (length e) s) (crc_bits 0 e).
Proof. rewrite !crc_bits_closed, N.lxor_0_l, Liter_lxor. reflexivity. Qed.

Lemma crc_bits_app s a b : crc_bits s (a ++ b) = crc_bits (crc_bits s a) b.
Proof. unfold crc_bits. apply fold_left_app. Qed.

Lemma bval_small t : forall n : nat, (forall i, nth i t false = true -> (i < n)%nat) -> bval t < 2 ^ N.of_nat n.
Proof.
  induction t as [|b t IH]; intros n H; cbn [bval].
  - apply N.neq_0_lt_0, N.pow_nonzero. lia.
  - destruct n as [|n].
    + assert (b = false) by (destruct b; [specialize (H 0%nat eq_refl); lia|reflexivity]). subst b.
      assert (B : bval t < 2 ^ N.of_nat 0).
      { apply IH. intros i Hi. specialize (H (S i) Hi). lia. }
      change (2 ^ N.of_nat 0) with 1 in *. cbn [N.b2n]. lia.
    + assert (B : bval t < 2 ^ N.of_nat n).
      { apply IH. intros i Hi. specialize (H (S i) Hi). lia. }
      rewrite Nat2N.inj_succ, N.pow_succ_r'. destruct b; cbn [N.b2n]; lia.
Qed.

(* ---------- syndromes ---------- *)
(* W a = L^a(1): the syndrome of a single wrong bit followed by a-1 further bits of the codeword *)
Definition W (a : nat) : N := Liter a 1.
Lemma W_TOP a : W a = Liter (a + 31) TOP.
Proof. unfold W. rewrite Liter_add. reflexivity. Qed.
Lemma TOP_bound : TOP < 2^32. Proof. reflexivity. Qed.

Lemma land_lxor_distr a b c : N.land (N.lxor a b) c = N.lxor (N.land a c) (N.land b c).
Proof.
  apply N.bits_inj. intros n. rewrite N.land_spec, !N.lxor_spec, !N.land_spec.
  destruct (N.testbit a n), (N.testbit b n), (N.testbit c n); reflexivity.
Qed.

Lemma W_shift a x : (a <= x)%nat -> W x = Liter (a + 31) (Liter (x - a) TOP).
Proof. intros H. rewrite W_TOP, <- Liter_add. f_equal. lia. Qed.

Lemma syn1 a : W a <> 0.
Proof. unfold W. intros H. apply Liter_zero in H; [discriminate|reflexivity]. Qed.

Lemma syn2 a b : (a < b)%nat -> N.of_nat (b - a) < HD_BOUND -> N.lxor (W a) (W b) <> 0.
Proof.
  intros Hab Hd H.
  rewrite (W_shift a a), (W_shift a b) in H by lia. rewrite <- Liter_lxor in H.
  replace (a - a)%nat with 0%nat in H by lia. change (Liter 0 TOP) with TOP in H.
  apply Liter_zero in H; [|apply lxor_bound; [apply TOP_bound|apply Liter_bound, TOP_bound]].
  apply (hd_distinct 0 (b - a)); [lia|assumption|].
  cbn [Liter]. apply (f_equal (fun v => N.land v MASK31)) in H. rewrite land_lxor_distr in H.
  change (N.land 0 MASK31) with 0 in H. change (N.land TOP MASK31) with 0 in *.
  rewrite N.lxor_0_l in H. symmetry. exact H.
Qed.

Lemma syn3 a b c : (a < b < c)%nat -> N.of_nat (c - a) < HD_BOUND ->
  N.lxor (W a) (N.lxor (W b) (W c)) <> 0.
Proof.
  intros Habc Hd H.
  rewrite (W_shift a a), (W_shift a b), (W_shift a c) in H by lia. rewrite <- !Liter_lxor in H.
  replace (a - a)%nat with 0%nat in H by lia. change (Liter 0 TOP) with TOP in H.
  apply Liter_zero in H;
    [|repeat apply lxor_bound; try apply TOP_bound; apply Liter_bound, TOP_bound].
  apply (hd_distinct (b - a) (c - a)); [lia|assumption|].
  apply (f_equal (fun v => N.land v MASK31)) in H. rewrite !land_lxor_distr in H.
  change (N.land 0 MASK31) with 0 in H. change (N.land TOP MASK31) with 0 in H.
  rewrite N.lxor_0_l in H. apply N.lxor_eq in H. exact H.
Qed.

(* exponents of the set bits of an error pattern: a set bit followed by k further bits has exponent k+1 *)
Fixpoint exps (e : list bool) : list nat :=
  match e with [] => [] | b :: t => if b then S (length t) :: exps t else exps t end.
Fixpoint xors (l : list N) : N := match l with [] => 0 | x :: t => N.lxor x (xors t) end.

Theorem syndrome_positions e : crc_bits 0 e = xors (map W (exps e)).
Proof.
  induction e as [|b e IH]; [reflexivity|].
  change (crc_bits 0 (b :: e)) with (crc_bits (crc_step 0 b) e).
  rewrite crc_bits_split, IH, crc_step_L, N.lxor_0_l.
  destruct b; cbn [N.b2n exps map xors].
  - reflexivity.
  - rewrite L_0, Liter_0, N.lxor_0_l. reflexivity.
Qed.

Lemma exps_length e : length (exps e) = weight e.
Proof.
  unfold weight. induction e as [|b e IH]; [reflexivity|]. destruct b; cbn [exps filter length]; auto.
Qed.
Lemma exps_range e : Forall (fun x => (1 <= x <= length e)%nat) (exps e).
Proof.
  induction e as [|b e IH]; [constructor|]. cbn [exps length].
  assert (Forall (fun x => (1 <= x <= S (length e))%nat) (exps e))
    by (eapply Forall_impl; [|exact IH]; cbn; intros; lia).
  destruct b; [constructor; [lia|assumption]|assumption].
Qed.
Lemma exps_sorted e : StronglySorted gt (exps e).
Proof.
  induction e as [|b e IH]; [constructor|]. cbn [exps]. destruct b; [|assumption].
  constructor; [assumption|]. eapply Forall_impl; [|apply exps_range]. cbn. intros; lia.
Qed.

(* no error pattern of weight 1, 2 or 3 inside a codeword of at most HD_BOUND bits has zero syndrome *)
Theorem bits_detect123 e : N.of_nat (length e) <= HD_BOUND -> (1 <= weight e <= 3)%nat -> crc_bits 0 e <> 0.
Proof.
  intros Hlen Hw. rewrite syndrome_positions. rewrite <- exps_length in Hw.
  pose proof (exps_range e) as R. pose proof (exps_sorted e) as S.
  destruct (exps e) as [|a [|b [|c [|d t]]]]; cbn [length] in Hw; try lia; cbn [map xors]; rewrite N.lxor_0_r.
  - apply syn1.
  - apply Forall_cons_iff in R. destruct R as [Ra R]. apply Forall_cons_iff in R. destruct R as [Rb _].
    apply StronglySorted_inv in S. destruct S as [_ S]. apply Forall_cons_iff in S. destruct S as [Sab _].
    rewrite N.lxor_comm. apply syn2; lia.
  - apply Forall_cons_iff in R. destruct R as [Ra R]. apply Forall_cons_iff in R. destruct R as [Rb R].
    apply Forall_cons_iff in R. destruct R as [Rc _].
    apply StronglySorted_inv in S. destruct S as [S Sa]. apply Forall_cons_iff in Sa. destruct Sa as [Sab _].
    apply StronglySorted_inv in S. destruct S as [_ Sb]. apply Forall_cons_iff in Sb. destruct Sb as [Sbc _].
    replace (N.lxor (W a) (N.lxor (W b) (W c))) with (N.lxor (W c) (N.lxor (W b) (W a))).
    + apply syn3; lia.
    + rewrite (N.lxor_comm (W b) (W a)), <- N.lxor_assoc, (N.lxor_comm (W c)), N.lxor_assoc.
      f_equal. apply N.lxor_comm.
Qed.

(* any non-empty error pattern inside 32 consecutive serial positions has non-zero syndrome (no length bound) *)
Theorem bits_burst32 : forall e, within32 e -> (1 <= weight e)%nat -> crc_bits 0 e <> 0.
Proof.
  intros e [p Hp]. revert p Hp. induction e as [|b e IH]; intros p Hp Hw; [cbn in Hw; lia|].
  change (crc_bits 0 (b :: e)) with (crc_bits (crc_step 0 b) e). rewrite crc_step_L, N.lxor_0_l.
  destruct b; cbn [N.b2n].
  - assert (p = 0%nat) by (specialize (Hp 0%nat eq_refl); lia). subst p.
    assert (B : bval e < 2 ^ N.of_nat 31).
    { apply bval_small. intros i Hi. specialize (Hp (S i) Hi). lia. }
    change (2 ^ N.of_nat 31) with 2147483648 in B.
    rewrite crc_bits_closed. intros H. apply Liter_zero in H.
    + apply N.lxor_eq in H. change (L 1) with POLY in H. unfold POLY in H. lia.
    + apply lxor_bound; [reflexivity|]. change (2^32) with 4294967296. lia.
  - rewrite L_0. apply (IH (p - 1)%nat).
    + intros i Hi. specialize (Hp (S i) Hi). lia.
    + exact Hw.
Qed.

(* ---------- bytes ---------- *)
Lemma crc_bytes_bits l : forall s, crc_bytes s l = crc_bits s (bits_of_bytes l).
Proof.
  unfold crc_bytes, bits_of_bytes. induction l as [|x l IH]; intros s; cbn [fold_left flat_map]; [reflexivity|].
  rewrite IH. unfold crc_byte. rewrite crc_bits_app. reflexivity.
Qed.
Lemma bits_of_bytes_app a b : bits_of_bytes (a ++ b) = bits_of_bytes a ++ bits_of_bytes b.
Proof. apply flat_map_app. Qed.
Lemma bits_of_bytes_length l : length (bits_of_bytes l) = (8 * length l)%nat.
Proof.
  unfold bits_of_bytes. induction l as [|x l IH]; [reflexivity|]. cbn [flat_map length].
  rewrite app_length, IH. cbn [bits_of_byte map length]. lia.
Qed.

Lemma bval_app a b : bval (a ++ b) = bval a + 2 ^ N.of_nat (length a) * bval b.
Proof.
  induction a as [|x a IH]; cbn [app bval length].
  - change (2 ^ N.of_nat 0) with 1. lia.
  - rewrite IH, Nat2N.inj_succ, N.pow_succ_r'. lia.
Qed.
Lemma bval_byte x : x < 256 -> bval (bits_of_byte x) = x.
Proof.
  intros H.
  assert (A : forallb (fun k => bval (bits_of_byte (N.of_nat k)) =? N.of_nat k) (seq 0 256) = true) by (vm_compute; reflexivity).
  rewrite forallb_forall in A. specialize (A (N.to_nat x)).
  rewrite N2Nat.id in A. apply N.eqb_eq, A. apply in_seq. lia.
Qed.
Lemma bval_bytes l : bytes l -> bval (bits_of_bytes l) = le_val l.
Proof.
  induction 1 as [|x l Hx Hl IH]; [reflexivity|].
  change (bits_of_bytes (x :: l)) with (bits_of_byte x ++ bits_of_bytes l).
  rewrite bval_app, IH, bval_byte by exact Hx. cbn [le_val]. reflexivity.
Qed.

(* a message followed by its little-endian CRC word leaves the register at 0 *)
Theorem codeword_zero msg :
  crc_bits 0xFFFFFFFF (bits_of_bytes (msg ++ le_enc 4 (crc32c_raw msg))) = 0.
Proof.
  rewrite bits_of_bytes_app, crc_bits_app, <- (crc_bytes_bits msg). fold (crc32c_raw msg).
  rewrite crc_bits_closed, bval_bytes by apply le_enc_bytes.
  rewrite le_val_enc_small by (change (256 ^ N.of_nat 4) with (2^32); apply crc32c_raw_bound).
  rewrite N.lxor_nilpotent. apply Liter_0.
Qed.

(* two codewords of the same length differ by a pattern of zero syndrome *)
Theorem codeword_diff_syndrome m1 m2 : length m1 = length m2 ->
  crc_bits 0 (diff_bits (m1 ++ le_enc 4 (crc32c_raw m1)) (m2 ++ le_enc 4 (crc32c_raw m2))) = 0.
Proof.
  intros H. unfold diff_bits.
  rewrite <- (N.lxor_nilpotent 0xFFFFFFFF), crc_bits_linear.
  - rewrite !codeword_zero. reflexivity.
  - rewrite !bits_of_bytes_length, !app_length, !le_enc_length. lia.
Qed.

(* ---------- error patterns of concatenations ---------- *)
Lemma xorl_app a a' b b' : length a = length a' -> xorl (a ++ b) (a' ++ b') = xorl a a' ++ xorl b b'.
Proof.
  unfold xorl. revert a'. induction a as [|x a IH]; intros [|x' a'] H; try discriminate; [reflexivity|].
  cbn [app combine map]. f_equal. apply IH. injection H; auto.
Qed.
Lemma xorl_length a b : length a = length b -> length (xorl a b) = length a.
Proof. intros H. unfold xorl. rewrite map_length, combine_length. lia. Qed.
Lemma weight_app a b : weight (a ++ b) = (weight a + weight b)%nat.
Proof. unfold weight. rewrite filter_app, app_length. reflexivity. Qed.
Lemma within32_app a b : within32 (a ++ b) -> within32 a /\ within32 b.
Proof.
  intros [p Hp]. split.
  - exists p. intros i Hi. apply Hp.
    assert (i < length a)%nat.
    { destruct (Nat.lt_ge_cases i (length a)); [assumption|]. rewrite nth_overflow in Hi by assumption. discriminate. }
    rewrite app_nth1 by assumption. exact Hi.
  - exists (p - length a)%nat. intros i Hi.
    specialize (Hp (length a + i)%nat). rewrite app_nth2_plus in Hp. specialize (Hp Hi). lia.
Qed.
