(* Bit-level error patterns on byte strings (specification vocabulary of C03).  Definitions only.
   Serial bit order: byte 0 first, least significant bit first within each byte (the transmission order of a
   reflected CRC; a little-endian stored CRC word is then transmitted bit 0 first). *)
From AG Require Import Base.Prelude Base.Bytes Codec.Crc32c.

(* position-wise xor of two bit strings *)
Definition xorl (a b : list bool) : list bool := map (fun p => xorb (fst p) (snd p)) (combine a b).
(* number of set bits *)
Definition weight (e : list bool) : nat := length (filter (fun b => b) e).
(* the bits in which two byte strings (of equal length) differ *)
Definition diff_bits (l l' : list N) : list bool := xorl (bits_of_bytes l) (bits_of_bytes l').
(* number of differing bits *)
Definition hamming_bits (l l' : list N) : nat := weight (diff_bits l l').
(* all set bits of e lie in one window of 32 consecutive serial positions *)
Definition within32 (e : list bool) : Prop :=
  exists p : nat, forall i : nat, nth i e false = true -> (p <= i < p + 32)%nat.
(* l' differs from l only inside a burst of at most 32 contiguous bits *)
Definition burst32 (l l' : list N) : Prop := within32 (diff_bits l l').

(* value of a bit string read LSB first *)
Fixpoint bval (w : list bool) : N := match w with [] => 0 | b :: t => N.b2n b + 2 * bval t end.

(* the other reading of "contiguous bits": most significant bit first within each byte *)
Definition bits_of_byte_msb (x : N) : list bool := map (N.testbit x) [7; 6; 5; 4; 3; 2; 1; 0].
Definition bits_of_bytes_msb (l : list N) : list bool := flat_map bits_of_byte_msb l.
Definition diff_bits_msb (l l' : list N) : list bool := xorl (bits_of_bytes_msb l) (bits_of_bytes_msb l').
(* l' differs from l only inside 32 contiguous bits, bits numbered MSB first within bytes *)
Definition burst32_msb (l l' : list N) : Prop := within32 (diff_bits_msb l l').
(* decidable form of within32 for a given window start *)
Definition within32b (e : list bool) (p : nat) : bool :=
  forallb (fun i => implb (nth i e false) ((p <=? i)%nat && (i <? p + 32)%nat)) (seq 0 (length e)).

(* ---------- byte-level error patterns, MSB-first windows ---------- *)
Definition xor_bytes (a b : list N) : list N := map (fun p => N.lxor (fst p) (snd p)) (combine a b).
(* every set bit (byte j, bit t counted from the most significant) lies at MSB-first position p .. p+len-1 *)
Definition in_window_msb (E : list N) (p len : nat) : Prop :=
  forall j t, (t < 8)%nat -> N.testbit (nth j E 0) (N.of_nat (7 - t)) = true -> (p <= 8 * j + t < p + len)%nat.
(* l' differs from l only inside len contiguous bits, bits numbered MSB first within bytes *)
Definition burst_msb (len : nat) (l l' : list N) : Prop := exists p, in_window_msb (xor_bytes l l') p len.


(* the two 5-byte patterns that are multiples of the CRC-32C generator and fit 32 contiguous MSB-first bits *)
Definition gen_pat1 : list N := [98; 149; 227; 253; 128].   (* 62 95 e3 fd 80, window starts at bit offset 1 *)
Definition gen_pat2 : list N := [1; 3; 131; 107; 242].      (* 01 03 83 6b f2, window starts at bit offset 7 *)
(* one of the two patterns at some byte offset, zero elsewhere *)
Definition is_gen_multiple (E : list N) : Prop :=
  exists j r pat, (pat = gen_pat1 \/ pat = gen_pat2) /\ E = repeat 0 j ++ pat ++ repeat 0 r.

