From AG Require Import Base.Prelude Base.Res Base.Bytes Base.Mask Codec.Crc32c Codec.Chunk.

Definition nonzero (x : N) : bool := negb (x =? 0).

Definition chunk_pure (devices : list N) (l : list N) : res chunk :=
  let len := lenN l in
  if len <? 28 then Err E else
  if negb (len mod 4 =? 0) then Err E else
  let dev := le_val (subN l 0 4) in
  if negb (dev_known devices dev) then Err E else
  let chan := nthN l 10 in
  if 3 <? chan then Err E else
  let flags := nthN l 11 in
  if negb (flags =? 0) && negb (flags =? 1) then Err E else
  let clen := le_val (subN l 14 2) in
  if (clen <? len - 27) || (len - 24 <? clen) then Err E else
  if negb (le_val (subN l 16 4) =? crc32c_raw (subN l 0 16)) then Err E else
  if existsb nonzero (subN l (20 + clen) (len - 24 - clen)) then Err E else
  if negb (le_val (subN l (len - 4) 4) =? crc32c_raw (subN l 20 (len - 24))) then Err E else
  Ok {| c_dev := dev; c_pseq := le_val (subN l 4 4); c_cseq := le_val (subN l 8 2); c_chan := chan;
        c_flags := flags; c_id := le_val (subN l 12 2); c_payload := subN l 20 clen |}.

Lemma chunk_pure_no_panic devices l : chunk_pure devices l <> Panic.
Proof. unfold chunk_pure. repeat (case_if; try discriminate). Qed.

Theorem chunk_decode_pure devices m l : bytes l -> chunk_decode devices m l = chunk_pure devices l.
Proof.
  intros Hb. unfold chunk_decode, chunk_pure, guard.
  destruct (N.ltb_spec (lenN l) 28) as [L|L]; [reflexivity|].
  destruct (negb (lenN l mod 4 =? 0)); [reflexivity|].
  rewrite !rd_le_eq by lia. rewrite !idx_nthN by lia. cbn [bind].
  destruct (negb (dev_known devices (le_val (subN l 0 4)))); [reflexivity|].
  destruct (3 <? nthN l 10); [reflexivity|].
  destruct (negb (nthN l 11 =? 0) && negb (nthN l 11 =? 1)); [reflexivity|].
  repeat (rewrite usub_ok by lia; cbn [bind]).
  set (clen := le_val (subN l 14 2)).
  replace (lenN l - 24 - 3) with (lenN l - 27) by lia.
  destruct (N.ltb_spec clen (lenN l - 27)) as [C1|C1]; cbn [orb]; [reflexivity|].
  destruct (N.ltb_spec (lenN l - 24) clen) as [C2|C2]; [reflexivity|].
  rewrite (slice_ok l 0 16) by lia. cbn [bind]. change (16 - 0) with 16.
  destruct (negb (le_val (subN l 16 4) =? crc32c_raw (subN l 0 16))); [reflexivity|].
  rewrite (slice_from_to l 20 clen) by lia. cbn [bind].
  rewrite uadd_ok by (change (2^64) with 18446744073709551616; unfold clen;
    pose proof (le_subN_bound l 14 2 Hb ltac:(lia)); change (256^2) with 65536 in *; lia).
  cbn [bind].
  rewrite (slice_ok l (20 + clen) (lenN l - 4)) by lia. cbn [bind].
  replace (lenN l - 4 - (20 + clen)) with (lenN l - 24 - clen) by lia.
  fold nonzero.
  destruct (existsb nonzero (subN l (20 + clen) (lenN l - 24 - clen))); [reflexivity|].
  rewrite (slice_from_ok l (lenN l - 4)) by lia. cbn [bind].
  rewrite (dropN_subN l (lenN l - 4)). replace (lenN l - (lenN l - 4)) with 4 by lia.
  rewrite arr_ok by (apply subN_length; lia). cbn [bind].
  rewrite (slice_ok l 20 (lenN l - 4)) by lia. cbn [bind].
  replace (lenN l - 4 - 20) with (lenN l - 24) by lia.
  reflexivity.
Qed.

(* ---- zeros / padding ---- *)
Lemma zeros_lenN n : lenN (zeros n) = n.
Proof. unfold zeros, lenN. rewrite repeat_length. lia. Qed.
Global Hint Rewrite zeros_lenN : len.
Lemma zeros_bytes n : bytes (zeros n).
Proof. unfold zeros, bytes. apply Forall_forall. intros x Hx. apply repeat_spec in Hx. subst. unfold byte. lia. Qed.
Lemma all_zero_zeros (s : list N) : existsb nonzero s = false -> s = zeros (lenN s).
Proof.
  induction s as [|x s IH]; intros H; [reflexivity|].
  cbn [existsb] in H. apply orb_false_iff in H. destruct H as [Hx Hs].
  unfold nonzero in Hx. apply negb_false_iff, N.eqb_eq in Hx. subst x.
  rewrite lenN_cons. unfold zeros. replace (N.to_nat (lenN s + 1)) with (S (N.to_nat (lenN s))) by lia.
  cbn [repeat]. f_equal. apply IH. assumption.
Qed.
Lemma zeros_all_zero n : existsb nonzero (zeros n) = false.
Proof.
  unfold zeros. induction (N.to_nat n) as [|k IH]; [reflexivity|]. cbn [repeat existsb]. rewrite IH. reflexivity.
Qed.

(* crc value fits 32 bits *)
Lemma lxor_bound a b n : a < 2^n -> b < 2^n -> N.lxor a b < 2^n.
Proof.
  intros Ha Hb.
  destruct (N.eq_dec a 0) as [->|Na]; [rewrite N.lxor_0_l; assumption|].
  destruct (N.eq_dec b 0) as [->|Nb]; [rewrite N.lxor_0_r; assumption|].
  destruct (N.eq_dec (N.lxor a b) 0) as [->|Nx]; [lia|].
  apply N.log2_lt_pow2; [lia|].
  apply N.log2_lt_pow2 in Ha; [|lia]. apply N.log2_lt_pow2 in Hb; [|lia].
  pose proof (N.log2_lxor a b). lia.
Qed.
Lemma crc_step_bound s b : s < 2^32 -> crc_step s b < 2^32.
Proof.
  intros H. unfold crc_step. apply lxor_bound.
  - rewrite N.shiftr_div_pow2. change (2^1) with 2.
    assert (N.lxor s (N.b2n b) < 2^32) by (apply lxor_bound; [assumption|destruct b; reflexivity]).
    change (2^32) with 4294967296 in *. lia.
  - destruct (N.testbit _ 0); reflexivity.
Qed.
Lemma crc_bits_bound l : forall s, s < 2^32 -> crc_bits s l < 2^32.
Proof.
  unfold crc_bits. induction l as [|b l IH]; intros s H; cbn [fold_left]; [assumption|].
  apply IH, crc_step_bound. assumption.
Qed.
Lemma crc_bytes_bound l : forall s, s < 2^32 -> crc_bytes s l < 2^32.
Proof.
  unfold crc_bytes. induction l as [|b l IH]; intros s H; cbn [fold_left]; [assumption|].
  apply IH. unfold crc_byte. apply crc_bits_bound. assumption.
Qed.
Lemma crc32c_raw_bound l : crc32c_raw l < 2^32.
Proof. apply crc_bytes_bound. reflexivity. Qed.

(* ---------- exactness ---------- *)
Lemma split_chunk (l : list N) clen : 28 <= lenN l -> lenN l - 27 <= clen -> clen <= lenN l - 24 ->
  l = (subN l 0 4 ++ subN l 4 4 ++ subN l 8 2 ++ subN l 10 1 ++ subN l 11 1 ++ subN l 12 2 ++ subN l 14 2) ++
      subN l 16 4 ++ (subN l 20 clen ++ subN l (20 + clen) (lenN l - 24 - clen)) ++ subN l (lenN l - 4) 4.
Proof.
  intros L C1 C2. rewrite <- !app_assoc. repeat rewrite subN_join' by lia. symmetry. apply subN_all. lia.
Qed.
Lemma header16 (l : list N) : 16 <= lenN l ->
  subN l 0 16 = subN l 0 4 ++ subN l 4 4 ++ subN l 8 2 ++ subN l 10 1 ++ subN l 11 1 ++ subN l 12 2 ++ subN l 14 2.
Proof. intros L. repeat rewrite subN_join' by lia. reflexivity. Qed.

Lemma pad_len_spec len clen : len mod 4 = 0 -> len - 27 <= clen -> clen <= len - 24 -> 28 <= len ->
  len - 24 - clen = pad_len clen.
Proof. intros. unfold pad_len. lia. Qed.

Theorem chunk_pure_sound devices l c : bytes l -> chunk_pure devices l = Ok c ->
  chunk_ok devices c /\ c_dev c < 2^32 /\ l = chunk_encode c.
Proof.
  intros Hb. unfold chunk_pure.
  destruct (N.ltb_spec (lenN l) 28) as [L|L]; [discriminate|].
  destruct (N.eqb_spec (lenN l mod 4) 0) as [M4|M4]; cbn [negb]; [|discriminate].
  destruct (dev_known devices (le_val (subN l 0 4))) eqn:Edev; cbn [negb]; [|discriminate].
  destruct (N.ltb_spec 3 (nthN l 10)) as [Ch|Ch]; [discriminate|].
  destruct (negb (nthN l 11 =? 0) && negb (nthN l 11 =? 1)) eqn:Efl; [discriminate|].
  set (clen := le_val (subN l 14 2)).
  destruct (N.ltb_spec clen (lenN l - 27)) as [C1|C1]; cbn [orb]; [discriminate|].
  destruct (N.ltb_spec (lenN l - 24) clen) as [C2|C2]; [discriminate|].
  destruct (N.eqb_spec (le_val (subN l 16 4)) (crc32c_raw (subN l 0 16))) as [Hc|Hc]; cbn [negb]; [|discriminate].
  destruct (existsb nonzero (subN l (20 + clen) (lenN l - 24 - clen))) eqn:Ez; [discriminate|].
  destruct (N.eqb_spec (le_val (subN l (lenN l - 4) 4)) (crc32c_raw (subN l 20 (lenN l - 24)))) as [Pc|Pc]; cbn [negb]; [|discriminate].
  intros [= <-].
  assert (Lp : lenN (subN l 20 clen) = clen) by (apply subN_length; lia).
  assert (Hfl : nthN l 11 <= 1).
  { destruct (N.eqb_spec (nthN l 11) 0); destruct (N.eqb_spec (nthN l 11) 1); cbn in Efl; try discriminate; lia. }
  split; [|split].
  - unfold chunk_ok. cbn [c_dev c_pseq c_cseq c_chan c_flags c_id c_payload]. rewrite Lp.
    repeat split; try assumption; try lia.
    + apply (le_subN_bound l 4 4 Hb). lia.
    + apply (le_subN_bound l 8 2 Hb). lia.
    + apply (le_subN_bound l 12 2 Hb). lia.
    + pose proof (le_subN_bound l 14 2 Hb ltac:(lia)) as B. fold clen in B. change (256^2) with 65536 in B. lia.
    + apply bytes_subN. assumption.
  - cbn [c_dev]. apply (le_subN_bound l 0 4 Hb). lia.
  - unfold chunk_encode, chunk_body.
    assert (EH : chunk_header {| c_dev := le_val (subN l 0 4); c_pseq := le_val (subN l 4 4);
                                 c_cseq := le_val (subN l 8 2); c_chan := nthN l 10; c_flags := nthN l 11;
                                 c_id := le_val (subN l 12 2); c_payload := subN l 20 clen |} = subN l 0 16).
    { unfold chunk_header. cbn [c_dev c_pseq c_cseq c_chan c_flags c_id c_payload]. rewrite Lp.
      rewrite (le_subN_enc l 0 4 4%nat), (le_subN_enc l 4 4 4%nat), (le_subN_enc l 8 2 2%nat), (le_subN_enc l 12 2 2%nat)
        by (first [assumption | lia | reflexivity]).
      unfold clen. rewrite (le_subN_enc l 14 2 2%nat) by (first [assumption | lia | reflexivity]).
      change [nthN l 10; nthN l 11] with ([nthN l 10] ++ [nthN l 11]).
      rewrite <- !nthN_subN by lia. rewrite <- !app_assoc. symmetry. apply header16. lia. }
    rewrite EH. cbn [c_payload]. rewrite Lp.
    rewrite <- Hc. rewrite (le_subN_enc l 16 4 4%nat) by (first [assumption | lia | reflexivity]).
    rewrite <- (pad_len_spec (lenN l) clen) by assumption.
    assert (EB : subN l 20 clen ++ zeros (lenN l - 24 - clen) = subN l 20 (lenN l - 24)).
    { pose proof (all_zero_zeros _ Ez) as Z. rewrite subN_length in Z by lia. rewrite <- Z.
      rewrite subN_join' by lia. f_equal. lia. }
    rewrite EB. rewrite <- Pc. rewrite (le_subN_enc l (lenN l - 4) 4 4%nat) by (first [assumption | lia | reflexivity]).
    rewrite (split_chunk l clen L C1 C2) at 1.
    rewrite <- (header16 l) by lia. rewrite (subN_join' l 20) by lia.
    replace (clen + (lenN l - 24 - clen)) with (lenN l - 24) by lia. reflexivity.
Qed.

Lemma chunk_header_len c : lenN (chunk_header c) = 16.
Proof. unfold chunk_header. autorewrite with len. reflexivity. Qed.

Theorem chunk_pure_complete devices c : chunk_ok devices c -> c_dev c < 2^32 ->
  chunk_pure devices (chunk_encode c) = Ok c.
Proof.
  intros (Hd & Hp & Hcs & Hch & Hfl & Hid & Hlen & Hb) Hdev.
  destruct c as [dev pseq cseq chan flags id payload].
  cbn [c_dev c_pseq c_cseq c_chan c_flags c_id c_payload] in *.
  set (c := {| c_dev := dev; c_pseq := pseq; c_cseq := cseq; c_chan := chan; c_flags := flags; c_id := id; c_payload := payload |}).
  set (n := lenN payload) in *.
  set (H := chunk_header c). set (l := chunk_encode c).
  assert (LH : lenN H = 16) by apply chunk_header_len.
  assert (Pd : pad_len n < 4) by (unfold pad_len; lia).
  assert (Pm : (n + pad_len n) mod 4 = 0) by (unfold pad_len; lia).
  assert (Ll : lenN l = 24 + n + pad_len n).
  { unfold l, chunk_encode, chunk_body. fold H. cbn [c_payload]. autorewrite with len. rewrite LH. change (c_payload c) with payload. fold n. lia. }
  assert (S0 : subN l 0 4 = le_enc 4 dev) by reflexivity.
  assert (S4 : subN l 4 4 = le_enc 4 pseq) by reflexivity.
  assert (S8 : subN l 8 2 = le_enc 2 cseq) by reflexivity.
  assert (F10 : nthN l 10 = chan) by reflexivity.
  assert (F11 : nthN l 11 = flags) by reflexivity.
  assert (S12 : subN l 12 2 = le_enc 2 id) by reflexivity.
  assert (S14 : subN l 14 2 = le_enc 2 n) by reflexivity.
  assert (S16 : subN l 16 4 = le_enc 4 (crc32c_raw H)) by reflexivity.
  assert (SH : subN l 0 16 = H) by reflexivity.
  set (h20 := H ++ le_enc 4 (crc32c_raw H)).
  assert (L20 : lenN h20 = 20) by (unfold h20; autorewrite with len; lia).
  assert (El : l = h20 ++ payload ++ zeros (pad_len n) ++ le_enc 4 (crc32c_raw (payload ++ zeros (pad_len n)))).
  { unfold l, h20, chunk_encode, chunk_body. fold H. change (c_payload c) with payload. fold n. rewrite <- !app_assoc. reflexivity. }
  assert (SP : subN l 20 n = payload).
  { rewrite El at 1. apply subN_tail2; [lia|reflexivity]. }
  assert (SZ : subN l (20 + n) (lenN l - 24 - n) = zeros (pad_len n)).
  { rewrite El at 1. rewrite (app_assoc h20). apply subN_tail2; autorewrite with len; fold n; lia. }
  assert (SB : subN l 20 (lenN l - 24) = payload ++ zeros (pad_len n)).
  { rewrite El at 1. rewrite (app_assoc payload). apply subN_tail2; autorewrite with len; fold n; lia. }
  assert (SC : subN l (lenN l - 4) 4 = le_enc 4 (crc32c_raw (payload ++ zeros (pad_len n)))).
  { rewrite El at 1. rewrite (app_assoc h20), (app_assoc (h20 ++ _)). apply subN_tail1; autorewrite with len; fold n; lia. }
  clearbody l. clear El.
  unfold chunk_pure. rewrite S0, S4, S8, F10, F11, S12, S14, S16, SH.
  change (2^32) with 4294967296 in *. change (2^16) with 65536 in *.
  rewrite !le_val_enc_small by
    (change (256 ^ N.of_nat 2) with 65536; change (256 ^ N.of_nat 4) with 4294967296;
     first [assumption | lia | apply crc32c_raw_bound]).
  rewrite SP, SZ, SB, SC.
  rewrite !le_val_enc_small by (change (256 ^ N.of_nat 4) with 4294967296; apply crc32c_raw_bound).
  rewrite Hd, zeros_all_zero, !N.eqb_refl. cbn [negb].
  replace (lenN l <? 28) with false by lia.
  replace (lenN l mod 4 =? 0) with true by (symmetry; apply N.eqb_eq; lia). cbn [negb].
  replace (3 <? chan) with false by lia.
  replace (negb (flags =? 0) && negb (flags =? 1)) with false
    by (destruct (N.eqb_spec flags 0); destruct (N.eqb_spec flags 1); cbn; try reflexivity; lia).
  replace (n <? lenN l - 27) with false by lia.
  replace (lenN l - 24 <? n) with false by lia.
  reflexivity.
Qed.

Theorem chunk_exact_lemma devices m l c : bytes l ->
  (chunk_decode devices m l = Ok c <-> chunk_ok devices c /\ c_dev c < 2^32 /\ l = chunk_encode c).
Proof.
  intros Hb. rewrite chunk_decode_pure by assumption. split.
  - apply chunk_pure_sound. assumption.
  - intros (Hc & Hd & ->). apply chunk_pure_complete; assumption.
Qed.
Theorem chunk_total_lemma devices m l : bytes l -> chunk_decode devices m l <> Panic.
Proof. intros Hb. rewrite chunk_decode_pure by assumption. apply chunk_pure_no_panic. Qed.
Theorem chunk_no_wrap_lemma devices l : bytes l -> chunk_decode devices Checked l = chunk_decode devices Wrapping l.
Proof. intros Hb. rewrite !chunk_decode_pure by assumption. reflexivity. Qed.

(* consequences named in the property text *)
Corollary chunk_accept_shape devices m l c : bytes l -> chunk_decode devices m l = Ok c ->
  lenN l mod 4 = 0 /\ 28 <= lenN l /\ lenN l = 24 + lenN (c_payload c) + pad_len (lenN (c_payload c)) /\
  pad_len (lenN (c_payload c)) <= 3 /\ lenN l <= 65562.
Proof.
  intros Hb H. apply chunk_exact_lemma in H; [|assumption]. destruct H as ((_ & _ & _ & _ & _ & _ & Hl & _) & _ & ->).
  unfold chunk_encode, chunk_body. rewrite !lenN_app, chunk_header_len, !le_enc_lenN, zeros_lenN.
  unfold pad_len. change (N.of_nat 4) with 4. lia.
Qed.
