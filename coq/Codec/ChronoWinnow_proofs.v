(* The combinator-level model of chronobox_fifo (Codec/ChronoWinnow.v over Codec/Winnow.v) equals the
   recursive model Codec/Chrono.v:cb_fifo on every input; no panic site is reachable; no Cut error is
   produced; fuel = length + 1 suffices. *)
From AG Require Import Base.Prelude Base.Bytes Codec.Winnow Codec.Chrono Codec.Chrono_proofs Codec.ChronoWinnow.

(* ---------- leaf parsers ---------- *)

Lemma to_le_uint3 b0 b1 b2 : to_le_uint [b0; b1; b2] = b0 + 256 * b1 + 65536 * b2.
Proof.
  unfold to_le_uint. cbn [to_le_uint_from]. rewrite !N.shiftl_mul_pow2.
  change (2 ^ (8 * 0)) with 1. change (2 ^ (8 * (0 + 1))) with 256. change (2 ^ (8 * (0 + 1 + 1))) with 65536.
  lia.
Qed.

Lemma take_short c l : lenN l < c -> take c l = PBack l.
Proof. intros H. unfold take. destruct (N.leb_spec c (lenN l)); [lia|reflexivity]. Qed.

Lemma take_ok c l : c <= lenN l -> take c l = POk (takeN c l) (dropN c l).
Proof. intros H. unfold take. destruct (N.leb_spec c (lenN l)); [reflexivity|lia]. Qed.

Lemma le_u24_cons b0 b1 b2 r : le_u24 (b0 :: b1 :: b2 :: r) = POk (b0 + 256 * b1 + 65536 * b2) r.
Proof.
  unfold le_u24, le_uint, map. rewrite take_ok by (rewrite !lenN_cons; lia).
  cbn [pbind]. change (takeN 3 (b0 :: b1 :: b2 :: r)) with [b0; b1; b2].
  change (dropN 3 (b0 :: b1 :: b2 :: r)) with r. rewrite to_le_uint3. reflexivity.
Qed.

Lemma le_u24_short l : (length l < 3)%nat -> le_u24 l = PBack l.
Proof. intros H. unfold le_u24, le_uint, map. rewrite take_short by (unfold lenN; lia). reflexivity. Qed.

Definition temp3 (b0 b1 b2 : N) : N := b0 + 256 * b1 + 65536 * b2.

Lemma ts_cons b0 b1 b2 b3 r :
  timestamp_counter (b0 :: b1 :: b2 :: b3 :: r) =
  if (N.land b3 0x80 =? 0x80) && (N.land b3 0x7F <? NUM_INPUT_CHANNELS)
  then POk (TS (N.land b3 0x7F) (N.land (temp3 b0 b1 b2) 1 =? 1) (N.land (temp3 b0 b1 b2) 0xFFFFFE)) r
  else PBack (b3 :: r).
Proof.
  unfold timestamp_counter. rewrite le_u24_cons. fold (temp3 b0 b1 b2).
  unfold value, empty, map, try_map, verify, u8, any. cbn [pbind].
  destruct (N.land b3 128 =? 128); cbn [pbind andb]; [|reflexivity].
  unfold channel_id_try_from. change (u8_try_from NUM_INPUT_CHANNELS) with (Some NUM_INPUT_CHANNELS). cbv beta iota.
  destruct (N.land b3 127 <? NUM_INPUT_CHANNELS); cbn [pbind]; reflexivity.
Qed.

Lemma wm_cons b0 b1 b2 b3 r :
  wrap_around_marker (b0 :: b1 :: b2 :: b3 :: r) =
  if b3 =? 0xFF
  then POk (MK (N.land (temp3 b0 b1 b2) 0x800000 =? 0x800000) (N.land (temp3 b0 b1 b2) 0x7FFFFF)) r
  else PBack (b3 :: r).
Proof.
  unfold wrap_around_marker. rewrite le_u24_cons. fold (temp3 b0 b1 b2).
  unfold value, empty, map, literal_u8, value, map, literal_of, compare_u8. cbn [pbind].
  rewrite (N.eqb_sym 255 b3). destruct (b3 =? 255); reflexivity.
Qed.

(* a failing outcome that is a Backtrack (never Cut / panic / fuel) *)
Definition is_back {A} (r : pres A) : Prop := exists x, r = PBack x.

Lemma ts_short l : (length l < 4)%nat -> is_back (timestamp_counter l).
Proof.
  intros H. destruct l as [|b0 [|b1 [|b2 [|b3 r]]]]; cbn [length] in H; try lia.
  1-3: (unfold timestamp_counter; rewrite le_u24_short by (cbn [length]; lia); eexists; reflexivity).
  unfold timestamp_counter. rewrite le_u24_cons. eexists. reflexivity.
Qed.

Lemma wm_short l : (length l < 4)%nat -> is_back (wrap_around_marker l).
Proof.
  intros H. destruct l as [|b0 [|b1 [|b2 [|b3 r]]]]; cbn [length] in H; try lia.
  1-3: (unfold wrap_around_marker; rewrite le_u24_short by (cbn [length]; lia); eexists; reflexivity).
  unfold wrap_around_marker. rewrite le_u24_cons. eexists. reflexivity.
Qed.

(* fifo_entry on a complete word is `word`; the alt resets to the word start before the second branch *)
Lemma fifo_entry_cons b0 b1 b2 b3 r :
  fifo_entry (b0 :: b1 :: b2 :: b3 :: r) =
  match word b0 b1 b2 b3 with Some e => POk e r | None => PBack (b3 :: r) end.
Proof.
  unfold fifo_entry, alt2, map. rewrite ts_cons, wm_cons. unfold word. fold (temp3 b0 b1 b2).
  destruct ((N.land b3 128 =? 128) && (N.land b3 127 <? NUM_INPUT_CHANNELS)); cbn [pbind]; [reflexivity|].
  destruct (b3 =? 255); reflexivity.
Qed.

Lemma fifo_entry_short l : (length l < 4)%nat -> is_back (fifo_entry l).
Proof.
  intros H. destruct (ts_short l H) as [x Hx]. destruct (wm_short l H) as [y Hy].
  unfold fifo_entry, alt2, map. rewrite Hx, Hy. cbn [pbind]. eexists. reflexivity.
Qed.

Lemma next_short l : (length l < 4)%nat -> next l = None.
Proof. intros H. destruct l as [|b0 [|b1 [|b2 [|b3 r]]]]; cbn [length] in H; try lia; reflexivity. Qed.

(* element parser vs `next`: success is exactly an entry word; failure is a Backtrack *)
Lemma fifo_entry_next l :
  match fifo_entry l with
  | POk e r => next l = Some (E e, r)
  | PBack _ => forall e r, next l <> Some (E e, r)
  | _ => False
  end.
Proof.
  destruct (Nat.lt_ge_cases (length l) 4) as [H|H].
  - destruct (fifo_entry_short l H) as [x Hx]. rewrite Hx. intros e r. rewrite next_short by assumption. discriminate.
  - destruct l as [|b0 [|b1 [|b2 [|b3 r]]]]; cbn [length] in H; try lia.
    rewrite fifo_entry_cons. cbn [next]. destruct (word b0 b1 b2 b3) as [e|]; [reflexivity|].
    intros e r'. case_if; discriminate.
Qed.

(* ---------- scalers_block ---------- *)

Lemma scalers_short l : (length l < 4)%nat -> scalers_block l = PBack l.
Proof.
  intros H. unfold scalers_block, void, map, tuple3, literal_bytes, compare_bytes.
  destruct (existsb _ _); [reflexivity|].
  destruct (N.ltb_spec (lenN l) (lenN SCALERS_TAG)) as [_|H1]; [reflexivity|].
  unfold lenN in H1. cbn [SCALERS_TAG length] in H1. lia.
Qed.

Lemma scalers_cons b0 b1 b2 b3 t :
  scalers_block (b0 :: b1 :: b2 :: b3 :: t) =
  if (b0 =? 0x3C) && (b1 =? 0) && (b2 =? 0) && (b3 =? 0xFE)
  then if SCALERS_BODY <=? lenN t then POk tt (dropN SCALERS_BODY t)
       else if 236 <=? lenN t then PBack (dropN 236 t) else PBack t
  else PBack (b0 :: b1 :: b2 :: b3 :: t).
Proof.
  unfold scalers_block, void, map, tuple3, literal_bytes, compare_bytes, SCALERS_TAG.
  cbn [combine existsb fst snd].
  rewrite (N.eqb_sym 60 b0), (N.eqb_sym 0 b1), (N.eqb_sym 0 b2), (N.eqb_sym 254 b3).
  destruct (b0 =? 60); cbn [negb orb andb literal_of pbind]; [|reflexivity].
  destruct (b1 =? 0); cbn [negb orb andb literal_of pbind]; [|reflexivity].
  destruct (b2 =? 0); cbn [negb orb andb literal_of pbind]; [|reflexivity].
  destruct (b3 =? 254); cbn [negb orb andb literal_of pbind]; [|reflexivity].
  destruct (N.ltb_spec (lenN (b0 :: b1 :: b2 :: b3 :: t)) (lenN [60; 0; 0; 254])) as [H|_].
  { rewrite !lenN_cons, lenN_nil in H. lia. }
  cbn [literal_of pbind]. change (dropN (lenN [60; 0; 0; 254]) (b0 :: b1 :: b2 :: b3 :: t)) with t.
  change (NUM_INPUT_CHANNELS * 4) with 236. change SCALERS_BODY with 240.
  unfold take at 1. destruct (N.leb_spec 236 (lenN t)) as [H1|H1]; cbn [pbind].
  - unfold le_u32, le_uint, map, take. rewrite dropN_length.
    destruct (N.leb_spec 4 (lenN t - 236)) as [H2|H2]; cbn [pbind].
    + destruct (N.leb_spec 240 (lenN t)); [|lia]. rewrite dropN_dropN. reflexivity.
    + destruct (N.leb_spec 240 (lenN t)); [lia|]. reflexivity.
  - destruct (N.leb_spec 240 (lenN t)); [lia|]. reflexivity.
Qed.

(* separator vs `next`, where no entry word starts: success is exactly a complete scaler block *)
Lemma scalers_next l : (forall e r, next l <> Some (E e, r)) ->
  match scalers_block l with
  | POk _ r => next l = Some (Scalers, r)
  | PBack _ => next l = None
  | _ => False
  end.
Proof.
  intros Hne. destruct (Nat.lt_ge_cases (length l) 4) as [H|H].
  - rewrite scalers_short by assumption. apply next_short; assumption.
  - destruct l as [|b0 [|b1 [|b2 [|b3 t]]]]; cbn [length] in H; try lia.
    rewrite scalers_cons. cbn [next] in *. destruct (word b0 b1 b2 b3) as [e|].
    { exfalso. apply (Hne e t). reflexivity. }
    destruct ((b0 =? 60) && (b1 =? 0) && (b2 =? 0) && (b3 =? 254)); cbn [andb]; [|reflexivity].
    destruct (SCALERS_BODY <=? lenN t); [reflexivity|]. destruct (236 <=? lenN t); reflexivity.
Qed.

(* the tag word is not an entry word, so the hypothesis of scalers_next is not needed for success *)
Lemma scalers_ok_next l u r : scalers_block l = POk u r -> next l = Some (Scalers, r).
Proof.
  intros Hs. destruct (Nat.lt_ge_cases (length l) 4) as [H|H].
  - rewrite scalers_short in Hs by assumption. discriminate.
  - destruct l as [|b0 [|b1 [|b2 [|b3 t]]]]; cbn [length] in H; try lia.
    rewrite scalers_cons in Hs. cbn [next].
    destruct (N.eqb_spec b0 60); cbn [andb] in Hs; [|discriminate].
    destruct (N.eqb_spec b1 0); cbn [andb] in Hs; [|discriminate].
    destruct (N.eqb_spec b2 0); cbn [andb] in Hs; [|discriminate].
    destruct (N.eqb_spec b3 254); cbn [andb] in Hs; [|discriminate].
    subst. change (word 60 0 0 254) with (@None entry). cbn [andb].
    change (60 =? 60) with true. change (0 =? 0) with true. change (254 =? 254) with true. cbn [andb].
    destruct (SCALERS_BODY <=? lenN t); [|destruct (236 <=? lenN t); discriminate].
    inversion Hs. reflexivity.
Qed.

(* ---------- progress: every element parser that succeeds consumes 4 / 244 bytes ---------- *)

Theorem fifo_entry_consumes l e r : fifo_entry l = POk e r -> exists p, l = p ++ r /\ lenN p = 4.
Proof.
  intros H. pose proof (fifo_entry_next l) as Hn. rewrite H in Hn.
  destruct (next_consumes _ _ _ Hn) as (p & Hp & Hl). exists p. split; assumption.
Qed.

Theorem scalers_block_consumes l u r : scalers_block l = POk u r -> exists p, l = p ++ r /\ lenN p = 244.
Proof.
  intros H. apply scalers_ok_next in H.
  destruct (next_consumes _ _ _ H) as (p & Hp & Hl). exists p. split; assumption.
Qed.

(* element parsers only ever succeed or Backtrack (no Cut, no panic, no fuel) *)
Definition ok_or_back {A} (r : pres A) : Prop :=
  match r with POk _ _ | PBack _ => True | _ => False end.

Theorem fifo_entry_ok_or_back l : ok_or_back (fifo_entry l).
Proof. pose proof (fifo_entry_next l) as H. unfold ok_or_back. destruct (fifo_entry l); auto. Qed.

Theorem scalers_block_ok_or_back l : ok_or_back (scalers_block l).
Proof.
  unfold ok_or_back. destruct (Nat.lt_ge_cases (length l) 4) as [H|H].
  - rewrite scalers_short by assumption. exact I.
  - destruct l as [|b0 [|b1 [|b2 [|b3 t]]]]; cbn [length] in H; try lia.
    rewrite scalers_cons. repeat case_if; exact I.
Qed.

Theorem elems_ok_or_back : forall l, ok_or_back (fifo_entry l) /\ ok_or_back (scalers_block l).
Proof. intro l. split; [apply fifo_entry_ok_or_back|apply scalers_block_ok_or_back]. Qed.

(* ---------- the loops ---------- *)

Lemma lenN_neq_of_shorter (r l : list N) : (length r < length l)%nat -> (lenN r =? lenN l) = false.
Proof. intros H. apply N.eqb_neq. unfold lenN. lia. Qed.

(* repeat(0.., fifo_entry): collects the maximal run of entry words, stops (reset) where no entry starts *)
Lemma repeat0_spec dbg : forall fuel l acc, (length l < fuel)%nat ->
  exists es r,
    repeat0_loop dbg fuel fifo_entry acc l = POk (acc ++ es) r /\
    (forall e r', next r <> Some (E e, r')) /\
    cb_fifo l = (es ++ fst (cb_fifo r), snd (cb_fifo r)) /\
    (length r <= length l)%nat.
Proof.
  induction fuel as [|fuel IH]; intros l acc Hf; [lia|].
  cbn [repeat0_loop]. pose proof (fifo_entry_next l) as Hn.
  destruct (fifo_entry l) as [e r|x| | |]; try contradiction.
  - pose proof (next_shorter _ _ _ Hn) as Hs. rewrite lenN_neq_of_shorter by assumption.
    destruct (IH r (acc ++ [e])) as (es & r2 & Hr & Hst & Hcb & Hlen); [lia|].
    exists (e :: es), r2. repeat split.
    + rewrite Hr, <- app_assoc. reflexivity.
    + exact Hst.
    + rewrite cb_step, Hn, Hcb. reflexivity.
    + lia.
  - exists [], l. repeat split.
    + rewrite app_nil_r. reflexivity.
    + exact Hn.
    + cbn [app]. destruct (cb_fifo l). reflexivity.
    + lia.
Qed.

(* the separated_foldl1 loop, entered where no entry word starts *)
Lemma sep_loop_spec dbg fr : forall fuel l ol, (length l < fuel)%nat -> (length l < fr)%nat ->
  (forall e r', next l <> Some (E e, r')) ->
  sep_foldl1_loop dbg fuel (repeat0 dbg fr fifo_entry) scalers_block (fun a (_ : unit) b => a ++ b) ol l =
  POk (ol ++ fst (cb_fifo l)) (snd (cb_fifo l)).
Proof.
  induction fuel as [|fuel IH]; intros l ol Hf Hfr Hne; [lia|].
  cbn [sep_foldl1_loop]. pose proof (scalers_next l Hne) as Hn.
  destruct (scalers_block l) as [u r|x| | |]; try contradiction.
  - pose proof (next_shorter _ _ _ Hn) as Hs. rewrite lenN_neq_of_shorter by assumption.
    unfold repeat0.
    destruct (repeat0_spec dbg fr r []) as (es & r2 & Hr & Hst & Hcb & Hlen); [lia|].
    rewrite Hr. cbn [app]. rewrite IH by (try lia; assumption).
    rewrite (cb_step l), Hn, Hcb. cbn [fst snd]. rewrite app_assoc. reflexivity.
  - rewrite (cb_step l), Hn. cbn [fst snd]. rewrite app_nil_r. reflexivity.
Qed.

Lemma parser_spec dbg fuel l : (length l < fuel)%nat ->
  chronobox_fifo_parser dbg fuel l = POk (fst (cb_fifo l)) (snd (cb_fifo l)).
Proof.
  intros Hf. unfold chronobox_fifo_parser, separated_foldl1. unfold repeat0 at 1.
  destruct (repeat0_spec dbg fuel l []) as (es & r & Hr & Hst & Hcb & Hlen); [assumption|].
  rewrite Hr. cbn [pbind app]. rewrite sep_loop_spec by (try lia; assumption).
  rewrite Hcb. reflexivity.
Qed.

(* ---------- main theorems ---------- *)

(* the combinator-level model equals the recursive model on every input, in both build configurations *)
Theorem cbw_fifo_eq : forall dbg l,
  chronobox_fifo_winnow dbg l = POk (fst (cb_fifo l)) (snd (cb_fifo l)).
Proof.
  intros. unfold chronobox_fifo_winnow, chronobox_fifo_fuel. rewrite parser_spec by lia. reflexivity.
Qed.

(* any fuel above the input length gives the same result: fuel = length + 1 is sufficient *)
Theorem cbw_fuel_enough : forall dbg fuel l, (length l < fuel)%nat ->
  chronobox_fifo_fuel dbg fuel l = chronobox_fifo_winnow dbg l.
Proof.
  intros. rewrite cbw_fifo_eq. unfold chronobox_fifo_fuel. rewrite parser_spec by assumption. reflexivity.
Qed.

(* the "must consume" assertions, ChannelId's unwrap and the final PResult::unwrap are unreachable, and the
   fuel never runs out *)
Theorem cbw_no_panic : forall dbg l,
  chronobox_fifo_winnow dbg l <> PPanic /\ chronobox_fifo_winnow dbg l <> PFuel.
Proof. intros. rewrite cbw_fifo_eq. split; discriminate. Qed.

(* before the final unwrap the parser returns Ok: neither Cut nor Backtrack reaches `.unwrap()` *)
Theorem cbw_never_cut : forall dbg fuel l, (length l < fuel)%nat ->
  exists es r, chronobox_fifo_parser dbg fuel l = POk es r.
Proof. intros. rewrite parser_spec by assumption. eauto. Qed.

(* debug_assertions (panic on the assert) and release (Cut -> unwrap panics) builds agree *)
Theorem cbw_dbg_irrelevant : forall l, chronobox_fifo_winnow true l = chronobox_fifo_winnow false l.
Proof. intros. rewrite !cbw_fifo_eq. reflexivity. Qed.

(* the resume protocol over the combinator-level parser *)
Theorem cbw_feed_eq : forall dbg pieces rem,
  cbw_feed dbg rem pieces = POk (fst (cb_feed rem pieces)) (snd (cb_feed rem pieces)).
Proof.
  intros dbg. induction pieces as [|p ps IH]; intros rem; cbn [cbw_feed cb_feed]; [reflexivity|].
  rewrite cbw_fifo_eq. cbn [pbind]. destruct (cb_fifo (rem ++ p)) as [es r]. cbn [fst snd].
  rewrite IH. cbn [pbind]. destruct (cb_feed r ps) as [es' r']. reflexivity.
Qed.
