(* Model of alpha_g_detector::trigger::TrgV3Packet::try_from(&[u8]) (detector/src/trigger.rs)
   and the encoder-based specification.  Definitions only. *)
From AG Require Import Base.Prelude Base.Res Base.Bytes.

Record trg := {
  t_udp : N; t_ts : N; t_out : N; t_in : N; t_pulser : N; t_trigbm : N; t_nim : N; t_esata : N;
  t_mlu : bool; t_aw16p : N; t_drift : N; t_scaled : N; t_aw16m : N; t_aw16b : N;
  t_bsc : N; t_bscm : N; t_coin : N; t_fw : N }.

(* error kinds (only used for readability; observations compare Ok/Err only) *)
Definition E_len := 0. Definition E_zero := 1. Definition E_hdr := 2. Definition E_in := 3.
Definition E_drift := 4. Definition E_scaled := 5. Definition E_ftr := 6. Definition E_out := 7.

Definition trg_decode (l : list N) : res trg :=
  guard (negb (lenN l =? 80)) E_len (                                   (* trigger.rs: slice.len() != 80 *)
  do udp <- rd_le l 0 4;
  guard (negb (N.land udp 0x80000000 =? 0)) E_zero (
  do header <- rd_le l 4 4;
  guard (negb (N.land header 0xF0000000 =? 0x80000000)) E_hdr (
  do ts <- rd_le l 8 4;
  do outc <- rd_le l 12 4;
  do inc <- rd_le l 16 4;
  guard (inc <? outc) E_in (
  do pulser <- rd_le l 20 4;
  do trigbm <- rd_le l 24 4;
  do nim <- rd_le l 28 4;
  do esata <- rd_le l 32 4;
  do d36 <- rd_le l 36 4;
  guard (negb (N.land d36 0x7FFF0000 =? 0)) E_zero (
  let mlu := negb (N.land d36 0x80000000 =? 0) in
  let aw16p := N.land d36 0xFFFF in                                      (* try_into::<u16>().unwrap(): fits *)
  do drift <- rd_le l 40 4;
  guard ((inc <? drift) || (drift <? outc)) E_drift (
  do scaled <- rd_le l 44 4;
  guard ((drift <? scaled) || (scaled <? outc)) E_scaled (
  do z48 <- rd_le l 48 4;
  guard (negb (z48 =? 0)) E_zero (
  do d52 <- rd_le l 52 4;
  guard (negb (N.land d52 0xFF000000 =? 0)) E_zero (
  do aw16m <- (let v := N.shiftr d52 16 in if v <? 256 then Ok v else Panic);   (* u8::try_from(dummy >> 16).unwrap() *)
  let aw16b := N.land d52 0xFFFF in
  do bsc <- rd_le l 56 8;
  do d64 <- rd_le l 64 4;
  guard (negb (N.land d64 0xFFFFFF00 =? 0)) E_zero (
  let bscm := N.land d64 0xFF in
  do d68 <- rd_le l 68 4;
  guard (negb (N.land d68 0xFFFFFF00 =? 0)) E_zero (
  let coin := N.land d68 0xFF in
  do fw <- rd_le l 72 4;
  do footer <- rd_le l 76 4;
  guard (negb (N.land footer 0xF0000000 =? 0xE0000000)) E_ftr (
  guard (negb (N.land header 0xFFFFFFF =? N.land footer 0xFFFFFFF)
         || negb (N.land header 0xFFFFFFF =? N.land outc 0xFFFFFFF)) E_out (
  Ok {| t_udp := udp; t_ts := ts; t_out := outc; t_in := inc; t_pulser := pulser; t_trigbm := trigbm;
        t_nim := nim; t_esata := esata; t_mlu := mlu; t_aw16p := aw16p; t_drift := drift;
        t_scaled := scaled; t_aw16m := aw16m; t_aw16b := aw16b; t_bsc := bsc; t_bscm := bscm;
        t_coin := coin; t_fw := fw |}))))))))))))).

(* ---- specification: encoder from the documented layout + field ranges ---- *)
Definition e32 (x : N) : list N := le_enc 4 x.
Definition trg_encode (p : trg) : list N :=
  e32 (t_udp p) ++
  e32 (0x80000000 + t_out p mod 0x10000000) ++
  e32 (t_ts p) ++ e32 (t_out p) ++ e32 (t_in p) ++ e32 (t_pulser p) ++
  e32 (t_trigbm p) ++ e32 (t_nim p) ++ e32 (t_esata p) ++
  e32 ((if t_mlu p then 0x80000000 else 0) + t_aw16p p) ++
  e32 (t_drift p) ++ e32 (t_scaled p) ++ e32 0 ++
  e32 (t_aw16m p * 65536 + t_aw16b p) ++
  le_enc 8 (t_bsc p) ++
  e32 (t_bscm p) ++ e32 (t_coin p) ++ e32 (t_fw p) ++
  e32 (0xE0000000 + t_out p mod 0x10000000).

Definition trg_fields_ok (p : trg) : Prop :=
  t_udp p < 2^31 /\ t_ts p < 2^32 /\ t_out p < 2^32 /\ t_in p < 2^32 /\ t_pulser p < 2^32 /\
  t_trigbm p < 2^32 /\ t_nim p < 2^32 /\ t_esata p < 2^32 /\ t_aw16p p < 2^16 /\
  t_drift p < 2^32 /\ t_scaled p < 2^32 /\ t_aw16m p < 2^8 /\ t_aw16b p < 2^16 /\
  t_bsc p < 2^64 /\ t_bscm p < 2^8 /\ t_coin p < 2^8 /\ t_fw p < 2^32 /\
  t_out p <= t_scaled p /\ t_scaled p <= t_drift p /\ t_drift p <= t_in p.

(* observation printed for the correspondence check: all 18 accessors *)
Definition trg_obs (p : trg) : list N :=
  [t_udp p; t_ts p; t_out p; t_in p; t_pulser p; t_trigbm p; t_nim p; t_esata p;
   (if t_mlu p then 1 else 0); t_aw16p p; t_drift p; t_scaled p; t_aw16m p; t_aw16b p;
   t_bsc p; t_bscm p; t_coin p; t_fw p].
