From AG Require Import Base.Prelude Base.Res Base.Bytes Base.Mask Codec.Adc.

(* ---- chunks2_be ---- *)
Lemma chunks2_be_length s : (length (chunks2_be s) = length s / 2)%nat.
Proof.
  remember (length s) as k eqn:Hk. revert s Hk.
  induction k as [k IH] using lt_wf_ind. intros s Hk.
  destruct s as [|h [|lo t]]; cbn [chunks2_be length] in *; subst; try reflexivity.
  rewrite (IH (length t)) by (lia || reflexivity).
  change (S (S (length t))) with (2 + length t)%nat.
  replace (2 + length t)%nat with (length t + 1 * 2)%nat by lia.
  rewrite Nat.div_add by lia. lia.
Qed.

Lemma be2_bound h lo : h < 256 -> lo < 256 -> be_val [h; lo] < 65536.
Proof. intros. unfold be_val. cbn [rev app le_val]. lia. Qed.

Lemma to_signed16_ok x : x < 65536 -> i16_ok (to_signed 16 x).
Proof.
  intros H. unfold i16_ok. pose proof (to_signed_range 16 x ltac:(lia) H) as R.
  change (2 ^ (16 - 1)) with 32768 in R. lia.
Qed.

Lemma chunks2_be_ok s : bytes s -> Forall i16_ok (chunks2_be s).
Proof.
  remember (length s) as k eqn:Hk. revert s Hk.
  induction k as [k IH] using lt_wf_ind. intros s Hk Hb.
  destruct s as [|h [|lo t]]; cbn [chunks2_be]; try constructor.
  - inversion Hb as [|? ? Hh Hb']; subst. inversion Hb' as [|? ? Hl Hb'']; subst.
    apply to_signed16_ok, be2_bound; assumption.
  - inversion Hb as [|? ? Hh Hb']; subst. inversion Hb' as [|? ? Hl Hb'']; subst.
    apply (IH (length t)); cbn [length]; (lia || reflexivity || assumption).
Qed.

Lemma be_enc2_val h lo : h < 256 -> lo < 256 -> be_enc 2 (be_val [h; lo]) = [h; lo].
Proof.
  intros Hh Hl. apply be_enc_val'; [|reflexivity]. repeat constructor; assumption.
Qed.

Lemma enc_wave_cons z w : enc_wave (z :: w) = be_enc 2 (of_signed 16 z) ++ enc_wave w.
Proof. reflexivity. Qed.
Lemma be_enc2_explicit x : be_enc 2 x = [x / 256 mod 256; x mod 256].
Proof. reflexivity. Qed.

Lemma enc_wave_chunks s : bytes s -> Nat.even (length s) = true -> enc_wave (chunks2_be s) = s.
Proof.
  remember (length s) as k eqn:Hk. revert s Hk.
  induction k as [k IH] using lt_wf_ind. intros s Hk Hb Hev.
  destruct s as [|h [|lo t]]; cbn [chunks2_be]; try reflexivity.
  - subst. discriminate.
  - inversion Hb as [|? ? Hh Hb']; subst. inversion Hb' as [|? ? Hl Hb'']; subst.
    rewrite enc_wave_cons.
    rewrite of_to_signed by (try lia; change (2^16) with 65536; apply be2_bound; assumption).
    rewrite be_enc2_val by assumption. cbn [app]. do 2 f_equal.
    apply (IH (length t)); cbn [length]; try (lia || reflexivity || assumption).
Qed.


Lemma chunks_enc_wave w : Forall i16_ok w -> chunks2_be (enc_wave w) = w.
Proof.
  induction 1 as [|z w Hz Hw IH]; [reflexivity|].
  rewrite enc_wave_cons, be_enc2_explicit.
  assert (B : of_signed 16 z < 65536) by (change 65536 with (2^16); apply of_signed_bound).
  set (x := of_signed 16 z) in *.
  change ([x / 256 mod 256; x mod 256] ++ enc_wave w) with (x / 256 mod 256 :: x mod 256 :: enc_wave w).
  cbn [chunks2_be]. rewrite IH. f_equal.
  replace (be_val [x / 256 mod 256; x mod 256]) with x.
  - apply to_of_signed; [lia|]. change (2^(16-1)) with 32768. unfold i16_ok in Hz. lia.
  - unfold be_val. cbn [rev app le_val]. lia.
Qed.

Lemma enc_wave_length w : length (enc_wave w) = (2 * length w)%nat.
Proof.
  induction w as [|z w IH]; [reflexivity|]. rewrite enc_wave_cons.
  rewrite app_length, IH, be_enc_length. cbn [length]. lia.
Qed.
Lemma enc_wave_bytes w : bytes (enc_wave w).
Proof.
  induction w as [|z w IH]; [constructor|]. rewrite enc_wave_cons.
  apply bytes_app. split; [apply be_enc_bytes|assumption].
Qed.

(* ---- the i32 sum cannot overflow ---- *)
Lemma isum32_ok m : forall l acc, Forall i16_ok l ->
  (Z.abs acc + 32768 * Z.of_nat (length l) <= 2147483647)%Z ->
  isum32 m acc l = Ok (acc + sumZ l)%Z.
Proof.
  induction l as [|x t IH]; intros acc Hl Hb; cbn [isum32 sumZ fold_right].
  - f_equal. lia.
  - inversion Hl as [|? ? Hx Ht]; subst. unfold i16_ok in Hx. cbn [length] in Hb.
    unfold iadd32.
    replace ((-2147483648 <=? acc + x) && (acc + x <=? 2147483647))%Z with true by lia.
    cbn [bind]. rewrite IH by (try assumption; lia). f_equal. unfold sumZ. lia.
Qed.

(* trunc-then-adjust = floor division *)
Lemma floor_mean_lemma num : (if (Z.rem num 64 <? 0)%Z then Z.quot num 64 - 1 else Z.quot num 64)%Z = (num / 64)%Z.
Proof.
  destruct (Z.ltb_spec (Z.rem num 64) 0); Z.to_euclidean_division_equations; lia.
Qed.

Lemma sumZ_bound l : Forall i16_ok l -> (-32768 * Z.of_nat (length l) <= sumZ l <= 32767 * Z.of_nat (length l))%Z.
Proof.
  induction 1 as [|x t Hx Ht IH]; cbn [sumZ fold_right length]; [lia|].
  unfold i16_ok in Hx. unfold sumZ in IH. lia.
Qed.

(* ---------- panic-free, mode-free form of the decoder ---------- *)
Definition ladder (supp keep_bit : bool) (keep_last req : N) (n : Z) : bool :=
  if supp then keep_bit && (34 <=? keep_last) && (last_index keep_last <? n)%Z && (n <=? Z.of_N req - 2)%Z
  else (if keep_bit then (34 <=? keep_last) && (last_index keep_last <? n)%Z else keep_last =? 0)
       && (n =? Z.of_N req - 2)%Z.

Definition adc_pure (macs : list (list N)) (l : list N) : res adc :=
  let len := lenN l in
  if len <? 16 then Err E else
  if negb (nthN l 0 =? 1) then Err E else
  if negb (nthN l 1 =? 3) then Err E else
  let trig := be_val (subN l 2 2) in
  let modid := nthN l 4 in
  if 7 <? modid then Err E else
  let chan := nthN l 5 in
  if (if chan <? 128 then 15 <? chan else 31 <? chan - 128) then Err E else
  let req := be_val (subN l 6 2) in
  let lsw := subN l 8 4 in
  let sb := to_signed 16 (be_val (subN l (len - 2) 2)) in
  let footer := be_val (subN l (len - 4) 2) in
  let keep_last := footer mod 4096 in
  let keep_bit := (footer / 4096) mod 2 =? 1 in
  let supp := (footer / 8192) mod 2 =? 1 in
  if len =? 16 then
    if negb supp then Err E else if keep_bit then Err E else if negb (keep_last =? 0) then Err E else
    Ok {| a_trig := trig; a_module := modid; a_chan := chan; a_req := req; a_ts := be_val lsw;
          a_long := None; a_baseline := sb; a_keep_last := keep_last; a_keep_bit := keep_bit; a_supp := supp |}
  else
  if len <? 36 then Err E else
  if negb (list_eqb (subN l 12 2) [0; 0]) then Err E else
  let mac := subN l 14 6 in
  if negb (mac_known macs mac) then Err E else
  let ets := subN l 20 4 ++ lsw in
  let off := be_val (subN l 24 4) in
  let build := be_val (subN l 28 4) in
  let wb := len - 36 in
  if negb (wb mod 2 =? 0) then Err E else
  let wave := chunks2_be (subN l 32 wb) in
  let n := lenN wave in
  if n <? 64 then Err E else
  if negb (sumZ (firstn 64 wave) / 64 =? sb)%Z then Err E else
  if ladder supp keep_bit keep_last req (Z.of_N n) then
    Ok {| a_trig := trig; a_module := modid; a_chan := chan; a_req := req; a_ts := be_val ets;
          a_long := Some {| al_mac := mac; al_offset := to_signed 32 off; al_build := build; al_wave := wave |};
          a_baseline := sb; a_keep_last := keep_last; a_keep_bit := keep_bit; a_supp := supp |}
  else Err E.

Lemma adc_pure_no_panic macs l : adc_pure macs l <> Panic.
Proof.
  unfold adc_pure. repeat (case_if; try discriminate).
Qed.

Lemma mFFF x : N.land x 0xFFF = x mod 4096.
Proof. replace 0xFFF with (2^12 - 2^0) by reflexivity. rewrite land_run by lia.
  change (2^0) with 1. rewrite N.div_1_r, N.mul_1_r. reflexivity. Qed.
Lemma m1b x : N.land x 1 = x mod 2.
Proof. replace 1 with (2^1 - 2^0) at 1 by reflexivity. rewrite land_run by lia.
  change (2^0) with 1. rewrite N.div_1_r, N.mul_1_r. reflexivity. Qed.



Theorem adc_decode_pure macs m l : bytes l -> adc_decode macs m l = adc_pure macs l.
Proof.
  intros Hb. unfold adc_decode, adc_pure, guard.
  destruct (N.ltb_spec (lenN l) 16) as [L16|L16]; [reflexivity|].
  rewrite !idx_nthN by lia. cbn [bind].
  destruct (negb (nthN l 0 =? 1)); [reflexivity|].
  destruct (negb (nthN l 1 =? 3)); [reflexivity|].
  rewrite !rd_be_eq by lia. cbn [bind].
  destruct (7 <? nthN l 4); [reflexivity|].
  destruct (if nthN l 5 <? 128 then 15 <? nthN l 5 else 31 <? nthN l 5 - 128); [reflexivity|].
  rewrite (slice_arr_eq l 8 12 4) by lia. cbn [bind].
  rewrite !usub_ok by lia. cbn [bind].
  rewrite (slice_from_ok l (lenN l - 2)) by lia. cbn [bind].
  rewrite (dropN_subN l (lenN l - 2)). replace (lenN l - (lenN l - 2)) with 2 by lia.
  rewrite arr_ok by (apply subN_length; lia). cbn [bind].
  rewrite (slice_from_ok l (lenN l - 4)) by lia. cbn [bind].
  rewrite slice_to_ok by (rewrite dropN_length; lia). cbn [bind].
  change (takeN 2 (dropN (lenN l - 4) l)) with (subN l (lenN l - 4) 2).
  rewrite arr_ok by (apply subN_length; lia). cbn [bind].
  rewrite mFFF, !m1b, !shiftr_div. change (2^12) with 4096. change (2^13) with 8192.
  set (footer := be_val (subN l (lenN l - 4) 2)).
  destruct (N.eqb_spec (lenN l) 16) as [E16|E16]; [reflexivity|].
  destruct (N.ltb_spec (lenN l) 36) as [L36|L36]; [reflexivity|].
  rewrite (slice_ok l 12 14) by lia. cbn [bind]. change (14 - 12) with 2.
  destruct (negb (list_eqb (subN l 12 2) [0; 0])); [reflexivity|].
  rewrite (slice_arr_eq l 14 20 6) by lia. cbn [bind].
  destruct (negb (mac_known macs (subN l 14 6))); [reflexivity|].
  rewrite (slice_arr_eq l 20 24 4) by lia. cbn [bind].
  rewrite arr_ok by (rewrite lenN_app, !subN_length by lia; reflexivity). cbn [bind].
  rewrite !rd_be_eq by lia. cbn [bind].
  rewrite usub_ok by lia. cbn [bind].
  destruct (negb ((lenN l - 36) mod 2 =? 0)) eqn:Eev; [reflexivity|].
  rewrite (slice_from_to l 32 (lenN l - 36)) by lia. cbn [bind].
  set (wave := chunks2_be (subN l 32 (lenN l - 36))).
  assert (Hw : Forall i16_ok wave) by (apply chunks2_be_ok, bytes_subN; assumption).
  unfold BASELINE_SAMPLES.
  destruct (N.ltb_spec (lenN wave) 64) as [L64|L64]; [reflexivity|].
  rewrite slice_to_ok by lia. cbn [bind]. unfold takeN. change (N.to_nat 64) with 64%nat.
  assert (Hf : Forall i16_ok (firstn 64 wave)).
  { rewrite Forall_forall in *. intros x Hx. apply Hw. eapply In_firstn'; eauto. }
  assert (Lf : length (firstn 64 wave) = 64%nat).
  { rewrite firstn_length. unfold lenN in L64. lia. }
  rewrite isum32_ok by (try assumption; rewrite Lf; lia). cbn [bind].
  rewrite Z.add_0_l, floor_mean_lemma.
  set (sb := to_signed 16 (be_val (subN l (lenN l - 2) 2))).
  pose proof (sumZ_bound _ Hf) as SB. rewrite Lf in SB.
  set (db := (sumZ (firstn 64 wave) / 64)%Z) in *.
  assert (Hdb : (-32768 <= db <= 32767)%Z) by (unfold db; lia).
  destruct (negb (db =? sb)%Z).
  { unfold i16_unwrap. replace ((-32768 <=? db) && (db <=? 32767))%Z with true by lia. reflexivity. }
  unfold ladder, MIN_KEEP_LAST, BASELINE_SAMPLES, last_index.
  change ((64 + 2) / 2 + 1) with 34.
  set (kl := footer mod 4096). set (req := be_val (subN l 6 2)).
  assert (Hkl : kl < 4096) by (unfold kl; lia).
  set (n := lenN wave) in *.
  destruct ((footer / 8192) mod 2 =? 1).
  - destruct ((footer / 4096) mod 2 =? 1); cbn [negb andb]; [|reflexivity].
    destruct (N.ltb_spec kl 34) as [K|K].
    { replace (34 <=? kl) with false by lia. reflexivity. }
    replace (34 <=? kl) with true by lia. cbn [andb].
    rewrite usub_ok by lia. cbn [bind]. rewrite umul_ok by (change (2^64) with 18446744073709551616; lia). cbn [bind].
    rewrite usub_ok by lia. cbn [bind].
    destruct (N.leb_spec n ((kl - 1) * 2 - 2)) as [A|A].
    { replace ((Z.of_N kl - 1) * 2 - 2 <? Z.of_N n)%Z with false by lia. reflexivity. }
    replace ((Z.of_N kl - 1) * 2 - 2 <? Z.of_N n)%Z with true by lia. cbn [andb].
    destruct (N.leb_spec 2 req) as [R|R].
    + destruct (N.ltb_spec (req - 2) n) as [B|B].
      * replace (Z.of_N n <=? Z.of_N req - 2)%Z with false by lia. reflexivity.
      * replace (Z.of_N n <=? Z.of_N req - 2)%Z with true by lia. reflexivity.
    + replace (0 <? n) with true by lia.
      replace (Z.of_N n <=? Z.of_N req - 2)%Z with false by lia. reflexivity.
  - destruct ((footer / 4096) mod 2 =? 1).
    + destruct (N.ltb_spec kl 34) as [K|K].
      { replace (34 <=? kl) with false by lia. reflexivity. }
      replace (34 <=? kl) with true by lia. cbn [andb].
      rewrite usub_ok by lia. cbn [bind]. rewrite umul_ok by (change (2^64) with 18446744073709551616; lia). cbn [bind].
      rewrite usub_ok by lia. cbn [bind].
      destruct (N.leb_spec n ((kl - 1) * 2 - 2)) as [A|A].
      { replace ((Z.of_N kl - 1) * 2 - 2 <? Z.of_N n)%Z with false by lia. reflexivity. }
      replace ((Z.of_N kl - 1) * 2 - 2 <? Z.of_N n)%Z with true by lia. cbn [andb bind].
      destruct (N.leb_spec 2 req) as [R|R].
      * destruct (N.eqb_spec n (req - 2)) as [B|B]; cbn [negb].
        -- replace (Z.of_N n =? Z.of_N req - 2)%Z with true by lia. reflexivity.
        -- replace (Z.of_N n =? Z.of_N req - 2)%Z with false by lia. reflexivity.
      * replace (n =? 0) with false by lia.
        replace (Z.of_N n =? Z.of_N req - 2)%Z with false by lia. reflexivity.
    + destruct (N.eqb_spec kl 0) as [K|K]; cbn [negb bind andb]; [|reflexivity].
      destruct (N.leb_spec 2 req) as [R|R].
      * destruct (N.eqb_spec n (req - 2)) as [B|B]; cbn [negb].
        -- replace (Z.of_N n =? Z.of_N req - 2)%Z with true by lia. reflexivity.
        -- replace (Z.of_N n =? Z.of_N req - 2)%Z with false by lia. reflexivity.
      * replace (n =? 0) with false by lia.
        replace (Z.of_N n =? Z.of_N req - 2)%Z with false by lia. reflexivity.
Qed.

(* ---------- exactness ---------- *)

Lemma split_short (l : list N) : lenN l = 16 ->
  l = subN l 0 1 ++ subN l 1 1 ++ subN l 2 2 ++ subN l 4 1 ++ subN l 5 1 ++ subN l 6 2 ++ subN l 8 4 ++
      subN l 12 2 ++ subN l 14 2.
Proof.
  intros L. repeat rewrite subN_join' by lia. symmetry. apply subN_all. lia.
Qed.
Lemma split_long (l : list N) : 36 <= lenN l ->
  l = subN l 0 1 ++ subN l 1 1 ++ subN l 2 2 ++ subN l 4 1 ++ subN l 5 1 ++ subN l 6 2 ++ subN l 8 4 ++
      subN l 12 2 ++ subN l 14 6 ++ subN l 20 4 ++ subN l 24 4 ++ subN l 28 4 ++ subN l 32 (lenN l - 36) ++
      subN l (lenN l - 4) 2 ++ subN l (lenN l - 2) 2.
Proof.
  intros L. repeat rewrite subN_join' by lia. symmetry. apply subN_all. lia.
Qed.


Lemma list_eqb_eq a b : list_eqb a b = true -> a = b.
Proof.
  revert b. induction a as [|x a IH]; intros [|y b]; cbn [list_eqb]; try discriminate; [reflexivity|].
  intros H. apply andb_true_iff in H. destruct H as [H1 H2]. apply N.eqb_eq in H1. subst. f_equal. auto.
Qed.
Lemma list_eqb_refl a : list_eqb a a = true.
Proof. induction a as [|x a IH]; cbn [list_eqb]; [reflexivity|]. rewrite N.eqb_refl. assumption. Qed.


Lemma ladder_spec supp kb kl req n : ladder supp kb kl req n = true ->
  if supp then kb = true /\ 34 <= kl /\ (last_index kl < n)%Z /\ (n <= Z.of_N req - 2)%Z
  else (if kb then 34 <= kl /\ (last_index kl < n)%Z else kl = 0) /\ (n = Z.of_N req - 2)%Z.
Proof.
  unfold ladder. destruct supp, kb; cbn [andb]; intros H; lia.
Qed.
Lemma ladder_complete (supp kb : bool) (kl req : N) (n : Z) :
  (if supp return Prop then kb = true /\ 34 <= kl /\ (last_index kl < n)%Z /\ (n <= Z.of_N req - 2)%Z
   else (if kb return Prop then 34 <= kl /\ (last_index kl < n)%Z else kl = 0) /\ (n = Z.of_N req - 2)%Z) ->
  ladder supp kb kl req n = true.
Proof.
  unfold ladder. destruct supp, kb; cbn [andb]; intros H; lia.
Qed.

Lemma footer_decomp ft : ft < 65536 ->
  ft = ft mod 4096 + 4096 * b2n ((ft / 4096) mod 2 =? 1) + 8192 * b2n ((ft / 8192) mod 2 =? 1) + 16384 * (ft / 16384)
  /\ ft / 16384 < 4.
Proof.
  intros H. unfold b2n.
  destruct (N.eqb_spec ((ft / 4096) mod 2) 1); destruct (N.eqb_spec ((ft / 8192) mod 2) 1); lia.
Qed.

Theorem adc_pure_sound macs l f : bytes l -> adc_pure macs l = Ok f ->
  adc_fields_ok macs f /\ exists u, u < 4 /\ l = adc_encode f u.
Proof.
  intros Hb. unfold adc_pure.
  destruct (N.ltb_spec (lenN l) 16) as [L16|L16]; [discriminate|].
  destruct (N.eqb_spec (nthN l 0) 1) as [B0|B0]; cbn [negb]; [|discriminate].
  destruct (N.eqb_spec (nthN l 1) 3) as [B1|B1]; cbn [negb]; [|discriminate].
  destruct (N.ltb_spec 7 (nthN l 4)) as [M|M]; [discriminate|].
  set (chan := nthN l 5).
  destruct (if chan <? 128 then 15 <? chan else 31 <? chan - 128) eqn:Ech; [discriminate|].
  assert (Hchan : chan <= 15 \/ 128 <= chan <= 159).
  { destruct (N.ltb_spec chan 128); lia. }
  set (footer := be_val (subN l (lenN l - 4) 2)).
  assert (Hft : footer < 65536) by (apply (be_subN_bound l (lenN l - 4) 2 Hb); lia).
  destruct (footer_decomp footer Hft) as [FD FU].
  assert (Hsb : i16_ok (to_signed 16 (be_val (subN l (lenN l - 2) 2)))).
  { apply to_signed16_ok. apply (be_subN_bound l (lenN l - 2) 2 Hb). lia. }
  assert (Htrig : be_val (subN l 2 2) < 2^16) by (apply (be_subN_bound l 2 2 Hb); lia).
  assert (Hreq : be_val (subN l 6 2) < 2^16) by (apply (be_subN_bound l 6 2 Hb); lia).
  destruct (N.eqb_spec (lenN l) 16) as [E16|E16].
  - (* short form *)
    destruct ((footer / 8192) mod 2 =? 1) eqn:Es; cbn [negb]; [|discriminate].
    destruct ((footer / 4096) mod 2 =? 1) eqn:Ek; [discriminate|].
    destruct (N.eqb_spec (footer mod 4096) 0) as [K|K]; cbn [negb]; [|discriminate].
    intros [= <-]. split.
    + unfold adc_fields_ok. cbn [a_trig a_module a_chan a_req a_ts a_long a_baseline a_keep_last a_keep_bit a_supp].
      repeat split; try assumption; try lia; try (unfold i16_ok in Hsb; lia).
      apply (be_subN_bound l 8 4 Hb). lia.
    + exists (footer / 16384). split; [assumption|].
      unfold adc_encode, adc_footer.
      cbn [a_trig a_module a_chan a_req a_ts a_long a_baseline a_keep_last a_keep_bit a_supp].
      rewrite <- FD.
      rewrite (split_short l E16) at 1.
      rewrite !nthN_subN by lia. rewrite B0, B1. fold chan.
      unfold footer in *. clear footer.
      replace (lenN l - 4) with 12 in * by lia. replace (lenN l - 2) with 14 in * by lia.
      rewrite of_to_signed by (try lia; apply (be_subN_bound l 14 2 Hb); lia).
      rewrite (be_subN_enc l 2 2 2%nat), (be_subN_enc l 6 2 2%nat), (be_subN_enc l 8 4 4%nat) by (first [assumption | lia | reflexivity]).
      rewrite (be_subN_enc l 12 2 2%nat), (be_subN_enc l 14 2 2%nat) by (first [assumption | lia | reflexivity]).
      reflexivity.
  - destruct (N.ltb_spec (lenN l) 36) as [L36|L36]; [discriminate|].
    destruct (list_eqb (subN l 12 2) [0; 0]) eqn:Ez; cbn [negb]; [|discriminate].
    apply list_eqb_eq in Ez.
    destruct (mac_known macs (subN l 14 6)) eqn:Emac; cbn [negb]; [|discriminate].
    destruct (N.eqb_spec ((lenN l - 36) mod 2) 0) as [Eev|Eev]; cbn [negb]; [|discriminate].
    set (ws := subN l 32 (lenN l - 36)). set (wave := chunks2_be ws).
    assert (Lws : lenN ws = lenN l - 36) by (apply subN_length; lia).
    assert (Bws : bytes ws) by (apply bytes_subN; assumption).
    assert (Hw : Forall i16_ok wave) by (apply chunks2_be_ok; assumption).
    destruct (N.ltb_spec (lenN wave) 64) as [L64|L64]; [discriminate|].
    destruct (Z.eqb_spec (sumZ (firstn 64 wave) / 64) (to_signed 16 (be_val (subN l (lenN l - 2) 2)))) as [Eb|Eb];
      cbn [negb]; [|discriminate].
    destruct (ladder _ _ _ _ _) eqn:Elad; [|discriminate].
    apply ladder_spec in Elad.
    intros [= <-]. split.
    + unfold adc_fields_ok. cbn [a_trig a_module a_chan a_req a_ts a_long a_baseline a_keep_last a_keep_bit a_supp
                                 al_mac al_offset al_build al_wave].
      assert (Lmac : lenN (subN l 14 6) = 6) by (apply subN_length; lia).
      replace (Z.of_nat (length wave)) with (Z.of_N (lenN wave)) by (unfold lenN; lia).
      repeat split; try assumption; try lia; try (unfold i16_ok in Hsb; lia).
      * rewrite be_val_app. rewrite subN_length by lia.
        pose proof (be_subN_bound l 20 4 Hb ltac:(lia)). pose proof (be_subN_bound l 8 4 Hb ltac:(lia)).
        change (256^4) with 4294967296 in *. change (2^64) with 18446744073709551616. lia.
      * unfold lenN in Lmac. lia.
      * apply bytes_subN. assumption.
      * pose proof (to_signed_range 32 (be_val (subN l 24 4)) ltac:(lia) (be_subN_bound l 24 4 Hb ltac:(lia))) as R.
        change (2^(32-1)) with 2147483648 in R. lia.
      * pose proof (to_signed_range 32 (be_val (subN l 24 4)) ltac:(lia) (be_subN_bound l 24 4 Hb ltac:(lia))) as R.
        change (2^(32-1)) with 2147483648 in R. lia.
      * apply (be_subN_bound l 28 4 Hb). lia.
    + exists (footer / 16384). split; [assumption|].
      unfold adc_encode, adc_footer.
      cbn [a_trig a_module a_chan a_req a_ts a_long a_baseline a_keep_last a_keep_bit a_supp
           al_mac al_offset al_build al_wave].
      rewrite <- FD.
      rewrite (split_long l L36) at 1.
      rewrite !nthN_subN by lia. rewrite B0, B1, Ez. fold chan. fold ws.
      rewrite be_val_app. rewrite (subN_length l 8 4) by lia.
      pose proof (be_subN_bound l 20 4 Hb ltac:(lia)) as Bm. pose proof (be_subN_bound l 8 4 Hb ltac:(lia)) as Bl.
      change (256^4) with 4294967296 in *. change (2^32) with 4294967296.
      replace ((be_val (subN l 20 4) * 4294967296 + be_val (subN l 8 4)) mod 4294967296) with (be_val (subN l 8 4)) by lia.
      replace ((be_val (subN l 20 4) * 4294967296 + be_val (subN l 8 4)) / 4294967296) with (be_val (subN l 20 4)) by lia.
      rewrite !of_to_signed by (try lia; first [apply (be_subN_bound l (lenN l - 2) 2 Hb) | apply (be_subN_bound l 24 4 Hb)]; lia).
      rewrite (be_subN_enc l 2 2 2%nat), (be_subN_enc l 6 2 2%nat), (be_subN_enc l 8 4 4%nat), (be_subN_enc l 20 4 4%nat),
        (be_subN_enc l 24 4 4%nat), (be_subN_enc l 28 4 4%nat) by (first [assumption | lia | reflexivity]).
      unfold footer. rewrite (be_subN_enc l (lenN l - 4) 2 2%nat), (be_subN_enc l (lenN l - 2) 2 2%nat) by (first [assumption | lia | reflexivity]).
      unfold wave. rewrite enc_wave_chunks; [rewrite <- !app_assoc; reflexivity|assumption|].
      unfold lenN in Lws. rewrite Nat.even_spec. exists (N.to_nat ((lenN l - 36) / 2)). unfold lenN in *. lia.
Qed.

(* ---------- completeness ---------- *)
Lemma enc_wave_lenN w : lenN (enc_wave w) = 2 * lenN w.
Proof. unfold lenN. rewrite enc_wave_length. lia. Qed.
Global Hint Rewrite enc_wave_lenN : len.



Lemma to_signed16_of z : i16_ok z -> to_signed 16 (of_signed 16 z) = z.
Proof. intros H. apply to_of_signed; [lia|]. change (2^(16-1)) with 32768. unfold i16_ok in H. lia. Qed.

Lemma footer_fields kl (kb sp : bool) u : kl < 4096 -> u < 4 ->
  let ft := kl + 4096 * b2n kb + 8192 * b2n sp + 16384 * u in
  ft < 65536 /\ ft mod 4096 = kl /\ ((ft / 4096) mod 2 =? 1) = kb /\ ((ft / 8192) mod 2 =? 1) = sp.
Proof.
  intros Hk Hu. unfold b2n. destruct kb, sp; cbn zeta; repeat split; try lia;
    try (apply N.eqb_eq; lia); try (apply N.eqb_neq; lia).
Qed.

Theorem adc_pure_complete macs f u : adc_fields_ok macs f -> u < 4 -> adc_pure macs (adc_encode f u) = Ok f.
Proof.
  intros (Ht & Hm & Hc & Hr & Hk & Hbl & Hlong) Hu.
  destruct (footer_fields (a_keep_last f) (a_keep_bit f) (a_supp f) u Hk Hu) as (FB & FK & FKB & FS).
  fold (adc_footer f u) in FB, FK, FKB, FS.
  change (2^16) with 65536 in *.
  destruct f as [trig modid chan req ts long bl kl kb sp].
  cbn [a_trig a_module a_chan a_req a_ts a_long a_baseline a_keep_last a_keep_bit a_supp] in *.
  set (ft := adc_footer _ u) in *.
  destruct long as [[mac off build wave]|].
  - (* long form *)
    cbn [al_mac al_offset al_build al_wave] in Hlong.
    destruct Hlong as (Hts & Hmac & Lmac & Bmac & Hoff & Hbuild & Hwave & Hn & Hbase & Hlad).
    destruct (len6 mac Lmac) as (m0 & m1 & m2 & m3 & m4 & m5 & ->).
    set (l := adc_encode _ u).
    assert (Ll : lenN l = 36 + 2 * lenN wave).
    { unfold l, adc_encode. cbn [a_trig a_module a_chan a_req a_ts a_long a_baseline al_mac al_offset al_build al_wave].
      autorewrite with len. lia. }
    assert (F0 : nthN l 0 = 1) by reflexivity.
    assert (F1 : nthN l 1 = 3) by reflexivity.
    assert (F4 : nthN l 4 = modid) by reflexivity.
    assert (F5 : nthN l 5 = chan) by reflexivity.
    assert (S2 : subN l 2 2 = be_enc 2 trig) by reflexivity.
    assert (S6 : subN l 6 2 = be_enc 2 req) by reflexivity.
    assert (S8 : subN l 8 4 = be_enc 4 (ts mod 2^32)) by reflexivity.
    assert (S12 : subN l 12 2 = [0; 0]) by reflexivity.
    assert (S14 : subN l 14 6 = [m0; m1; m2; m3; m4; m5]) by reflexivity.
    assert (S20 : subN l 20 4 = be_enc 4 (ts / 2^32)) by reflexivity.
    assert (S24 : subN l 24 4 = be_enc 4 (of_signed 32 off)) by reflexivity.
    assert (S28 : subN l 28 4 = be_enc 4 build) by reflexivity.
    set (hdr := [1; 3] ++ be_enc 2 trig ++ [modid; chan] ++ be_enc 2 req ++ be_enc 4 (ts mod 2^32) ++ [0; 0] ++
                [m0; m1; m2; m3; m4; m5] ++ be_enc 4 (ts / 2^32) ++ be_enc 4 (of_signed 32 off) ++ be_enc 4 build).
    assert (Lh : lenN hdr = 32) by reflexivity.
    assert (El : l = hdr ++ enc_wave wave ++ be_enc 2 ft ++ be_enc 2 (of_signed 16 bl)).
    { unfold l, hdr, adc_encode.
      cbn [a_trig a_module a_chan a_req a_ts a_long a_baseline al_mac al_offset al_build al_wave].
      rewrite <- !app_assoc. reflexivity. }
    assert (S32 : subN l 32 (lenN l - 36) = enc_wave wave).
    { rewrite El at 1. apply subN_tail2; [lia|]. rewrite enc_wave_lenN. lia. }
    assert (SF : subN l (lenN l - 4) 2 = be_enc 2 ft).
    { rewrite El at 1. rewrite (app_assoc hdr). apply subN_tail2; autorewrite with len; lia. }
    assert (SB : subN l (lenN l - 2) 2 = be_enc 2 (of_signed 16 bl)).
    { rewrite El at 1. rewrite (app_assoc hdr), (app_assoc (hdr ++ _)). apply subN_tail1; autorewrite with len; lia. }
    clearbody l. clear El hdr Lh.
    unfold adc_pure. rewrite F0, F1, F4, F5, S2, S6, S8, S12, S14, S20, S24, S28, S32, SF, SB.
    rewrite chunks_enc_wave by assumption.
    rewrite !be_val_enc_small by
      (change (256 ^ N.of_nat 2) with 65536; change (256 ^ N.of_nat 4) with 4294967296;
       change (2^32) with 4294967296 in *; change (2^64) with 18446744073709551616 in *;
       first [assumption | lia | (change 65536 with (2^16); apply of_signed_bound)
             | (change 4294967296 with (2^32); apply of_signed_bound)]).
    rewrite be_val_app, !be_val_enc_small by
      (change (256 ^ N.of_nat 4) with 4294967296;
       change (2^32) with 4294967296 in *; change (2^64) with 18446744073709551616 in *; lia).
    autorewrite with len. change (256 ^ N.of_nat 4) with 4294967296. change (2^32) with 4294967296.
    replace (ts / 4294967296 * 4294967296 + ts mod 4294967296) with ts by lia.
    rewrite to_signed16_of by assumption.
    rewrite to_of_signed by (try lia; change (2^(32-1)) with 2147483648; lia).
    rewrite FK, FKB, FS.
    assert (Hn' : 64 <= lenN wave) by (unfold lenN; lia).
    replace (lenN l <? 16) with false by lia.
    replace (lenN l =? 16) with false by lia.
    replace (lenN l <? 36) with false by lia.
    replace (7 <? modid) with false by lia.
    replace (if chan <? 128 then 15 <? chan else 31 <? chan - 128) with false
      by (destruct (N.ltb_spec chan 128); lia).
    rewrite Hmac. cbn [N.eqb Pos.eqb negb list_eqb andb].
    replace ((lenN l - 36) mod 2 =? 0) with true by lia. cbn [negb].
    replace (lenN wave <? 64) with false by lia.
    rewrite <- Hbase, Z.eqb_refl. cbn [negb].
    rewrite ladder_complete; [reflexivity|].
    replace (Z.of_N (lenN wave)) with (Z.of_nat (length wave)) by (unfold lenN; lia).
    exact Hlad.
  - (* short form *)
    destruct Hlong as (Hts & -> & -> & ->).
    set (l := adc_encode _ u).
    assert (Ll : lenN l = 16) by reflexivity.
    assert (F0 : nthN l 0 = 1) by reflexivity.
    assert (F1 : nthN l 1 = 3) by reflexivity.
    assert (F4 : nthN l 4 = modid) by reflexivity.
    assert (F5 : nthN l 5 = chan) by reflexivity.
    assert (S2 : subN l 2 2 = be_enc 2 trig) by reflexivity.
    assert (S6 : subN l 6 2 = be_enc 2 req) by reflexivity.
    assert (S8 : subN l 8 4 = be_enc 4 ts) by reflexivity.
    assert (SF : subN l (lenN l - 4) 2 = be_enc 2 ft) by (rewrite Ll; reflexivity).
    assert (SB : subN l (lenN l - 2) 2 = be_enc 2 (of_signed 16 bl)) by (rewrite Ll; reflexivity).
    clearbody l.
    unfold adc_pure. rewrite F0, F1, F4, F5, S2, S6, S8, SF, SB, Ll.
    rewrite !be_val_enc_small by
      (change (256 ^ N.of_nat 2) with 65536; change (256 ^ N.of_nat 4) with 4294967296;
       change (2^32) with 4294967296 in *;
       first [assumption | lia | (change 65536 with (2^16); apply of_signed_bound)]).
    rewrite to_signed16_of by assumption.
    rewrite FK, FKB, FS.
    replace (7 <? modid) with false by lia.
    replace (if chan <? 128 then 15 <? chan else 31 <? chan - 128) with false
      by (destruct (N.ltb_spec chan 128); lia).
    reflexivity.
Qed.

Theorem adc_exact_lemma macs m l f : bytes l ->
  (adc_decode macs m l = Ok f <-> adc_fields_ok macs f /\ exists u, u < 4 /\ l = adc_encode f u).
Proof.
  intros Hb. rewrite adc_decode_pure by assumption. split.
  - apply adc_pure_sound. assumption.
  - intros (Hf & u & Hu & ->). apply adc_pure_complete; assumption.
Qed.

Theorem adc_total_lemma macs m l : bytes l -> adc_decode macs m l <> Panic.
Proof. intros Hb. rewrite adc_decode_pure by assumption. apply adc_pure_no_panic. Qed.

Theorem adc_no_wrap_lemma macs l : bytes l -> adc_decode macs Checked l = adc_decode macs Wrapping l.
Proof. intros Hb. rewrite !adc_decode_pure by assumption. reflexivity. Qed.

Lemma adc_encode_bytes macs f u : adc_fields_ok macs f -> bytes (adc_encode f u).
Proof.
  intros (Ht & Hm & Hc & Hr & Hk & Hbl & Hlong). unfold adc_encode.
  assert (B2 : forall a b, a < 256 -> b < 256 -> bytes [a; b]) by (intros; repeat constructor; assumption).
  destruct (a_long f) as [lg|].
  - destruct Hlong as (_ & _ & _ & Bm & _).
    rewrite !bytes_app. repeat split; try apply be_enc_bytes; try apply enc_wave_bytes; try assumption;
      apply B2; lia.
  - rewrite !bytes_app. repeat split; try apply be_enc_bytes; apply B2; lia.
Qed.
