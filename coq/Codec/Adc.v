(* Model of alpha_g_detector::alpha16::AdcV3Packet::try_from(&[u8]) (detector/src/alpha16.rs, after the
   `fix:` commit that computes max_samples with saturating_sub) and its encoder-based specification.
   The table of known MAC addresses is an argument, so every theorem holds for any board table.
   Definitions only. *)
From AG Require Import Base.Prelude Base.Res Base.Bytes.

Record adc_long := {
  al_mac : list N;          (* 6 bytes *)
  al_offset : Z;            (* trigger_offset : i32 *)
  al_build : N;             (* build_timestamp : u32 *)
  al_wave : list Z }.       (* waveform : Vec<i16> *)

Record adc := {
  a_trig : N;               (* accepted_trigger : u16 *)
  a_module : N;             (* ModuleId 0..=7 *)
  a_chan : N;               (* raw channel byte: 0..=15 (A16) or 128..=159 (A32) *)
  a_req : N;                (* requested_samples : u16 as usize *)
  a_ts : N;                 (* event_timestamp : u64 (32 bits in the short form) *)
  a_long : option adc_long; (* None for the 16-byte suppressed form: board_id, trigger_offset, build_timestamp = None, waveform empty *)
  a_baseline : Z;           (* suppression_baseline : i16 *)
  a_keep_last : N;
  a_keep_bit : bool;
  a_supp : bool }.

Definition BASELINE_SAMPLES : N := 64.
Definition MIN_KEEP_LAST : N := (BASELINE_SAMPLES + 2) / 2 + 1.

Fixpoint list_eqb (a b : list N) : bool :=
  match a, b with
  | [], [] => true
  | x :: a', y :: b' => (x =? y) && list_eqb a' b'
  | _, _ => false
  end.
Definition mac_known (macs : list (list N)) (mac : list N) : bool := existsb (list_eqb mac) macs.

(* chunks_exact(2).map(i16::from_be_bytes) *)
Fixpoint chunks2_be (s : list N) : list Z :=
  match s with
  | h :: lo :: t => to_signed 16 (be_val [h; lo]) :: chunks2_be t
  | _ => []
  end.

(* i32 addition in the given overflow mode *)
Definition iadd32 (m : ovf) (a b : Z) : res Z :=
  let s := (a + b)%Z in
  if ((-2147483648 <=? s) && (s <=? 2147483647))%Z then Ok s
  else match m with Checked => Panic | Wrapping => Ok (to_signed 32 (of_signed 32 s)) end.
Fixpoint isum32 (m : ovf) (acc : Z) (l : list Z) : res Z :=
  match l with [] => Ok acc | x :: t => do a <- iadd32 m acc x; isum32 m a t end.
(* i16::try_from(i32).unwrap() *)
Definition i16_unwrap (z : Z) : res Z := if ((-32768 <=? z) && (z <=? 32767))%Z then Ok z else Panic.

Definition E := 1.  (* error kinds are not observed for this decoder *)

Section Decode.
Variable macs : list (list N).
Variable m : ovf.

Definition adc_decode (l : list N) : res adc :=
  let len := lenN l in
  guard (len <? 16) E (
  do b0 <- idx l 0; guard (negb (b0 =? 1)) E (
  do b1 <- idx l 1; guard (negb (b1 =? 3)) E (
  do trig <- rd_be l 2 2;
  do modid <- idx l 4; guard (7 <? modid) E (
  do chan <- idx l 5;
  guard (if chan <? 128 then 15 <? chan else 31 <? chan - 128) E (
  do req <- rd_be l 6 2;
  do lsw <- (do s <- slice l 8 12; arr 4 s);
  do len2 <- usub m 64 len 2;
  do sb <- (do s <- slice_from l len2; do a <- arr 2 s; Ok (to_signed 16 (be_val a)));
  do len4 <- usub m 64 len 4;
  do footer <- (do s <- slice_from l len4; do s2 <- slice_to s 2; do a <- arr 2 s2; Ok (be_val a));
  let keep_last := N.land footer 0xFFF in
  let keep_bit := N.land (N.shiftr footer 12) 1 =? 1 in
  let supp := N.land (N.shiftr footer 13) 1 =? 1 in
  if len =? 16 then
    guard (negb supp) E (guard keep_bit E (guard (negb (keep_last =? 0)) E (
    Ok {| a_trig := trig; a_module := modid; a_chan := chan; a_req := req; a_ts := be_val lsw;
          a_long := None; a_baseline := sb; a_keep_last := keep_last; a_keep_bit := keep_bit; a_supp := supp |})))
  else
  guard (len <? 36) E (
  do z <- slice l 12 14; guard (negb (list_eqb z [0; 0])) E (
  do mac <- (do s <- slice l 14 20; arr 6 s); guard (negb (mac_known macs mac)) E (
  do msw <- (do s <- slice l 20 24; arr 4 s);
  do ets <- arr 8 (msw ++ lsw);
  do off <- rd_be l 24 4;
  do build <- rd_be l 28 4;
  do wb <- usub m 64 len 36;
  guard (negb (wb mod 2 =? 0)) E (
  do ws <- (do s <- slice_from l 32; slice_to s wb);
  let wave := chunks2_be ws in
  let n := lenN wave in
  let max_samples := if 2 <=? req then req - 2 else 0 in         (* saturating_sub *)
  guard (n <? BASELINE_SAMPLES) E (
  do first <- slice_to wave BASELINE_SAMPLES;
  do num <- isum32 m 0%Z first;
  let d := Z.quot num 64 in
  let data_baseline := if (Z.rem num 64 <? 0)%Z then (d - 1)%Z else d in
  if negb (data_baseline =? sb)%Z then (do _ <- i16_unwrap data_baseline; Err E) else
  let ok := Ok {| a_trig := trig; a_module := modid; a_chan := chan; a_req := req; a_ts := be_val ets;
                  a_long := Some {| al_mac := mac; al_offset := to_signed 32 off; al_build := build; al_wave := wave |};
                  a_baseline := sb; a_keep_last := keep_last; a_keep_bit := keep_bit; a_supp := supp |} in
  if supp then
    guard (negb keep_bit) E (
    guard (keep_last <? MIN_KEEP_LAST) E (
    do k1 <- usub m 64 keep_last 1; do k2 <- umul m 64 k1 2; do last_index <- usub m 64 k2 2;
    guard (n <=? last_index) E (
    guard (max_samples <? n) E ok)))
  else
    do _ <- (if keep_bit then
               guard (keep_last <? MIN_KEEP_LAST) E (
               do k1 <- usub m 64 keep_last 1; do k2 <- umul m 64 k1 2; do last_index <- usub m 64 k2 2;
               guard (n <=? last_index) E (Ok tt))
             else guard (negb (keep_last =? 0)) E (Ok tt));
    guard (negb (n =? max_samples)) E ok)))))))))).
End Decode.

(* ---------- specification ---------- *)
Definition i16_ok (z : Z) : Prop := (-32768 <= z <= 32767)%Z.
Definition b2n (b : bool) : N := if b then 1 else 0.
Definition adc_footer (f : adc) (u : N) : N :=
  a_keep_last f + 4096 * b2n (a_keep_bit f) + 8192 * b2n (a_supp f) + 16384 * u.
Definition enc_wave (w : list Z) : list N := flat_map (fun s => be_enc 2 (of_signed 16 s)) w.

Definition adc_encode (f : adc) (u : N) : list N :=
  [1; 3] ++ be_enc 2 (a_trig f) ++ [a_module f; a_chan f] ++ be_enc 2 (a_req f) ++
  match a_long f with
  | None => be_enc 4 (a_ts f)
  | Some lg =>
      be_enc 4 (a_ts f mod 2^32) ++ [0; 0] ++ al_mac lg ++ be_enc 4 (a_ts f / 2^32) ++
      be_enc 4 (of_signed 32 (al_offset lg)) ++ be_enc 4 (al_build lg) ++ enc_wave (al_wave lg)
  end ++ be_enc 2 (adc_footer f u) ++ be_enc 2 (of_signed 16 (a_baseline f)).

Definition sumZ (l : list Z) : Z := fold_right Z.add 0%Z l.
Definition last_index (keep_last : N) : Z := ((Z.of_N keep_last - 1) * 2 - 2)%Z.

Definition adc_fields_ok (macs : list (list N)) (f : adc) : Prop :=
  a_trig f < 2^16 /\ a_module f <= 7 /\ (a_chan f <= 15 \/ 128 <= a_chan f <= 159) /\ a_req f < 2^16 /\
  a_keep_last f < 4096 /\ i16_ok (a_baseline f) /\
  match a_long f with
  | None => a_ts f < 2^32 /\ a_supp f = true /\ a_keep_bit f = false /\ a_keep_last f = 0
  | Some lg =>
      let n := Z.of_nat (length (al_wave lg)) in
      a_ts f < 2^64 /\ mac_known macs (al_mac lg) = true /\ length (al_mac lg) = 6%nat /\ bytes (al_mac lg) /\
      (-2147483648 <= al_offset lg <= 2147483647)%Z /\ al_build lg < 2^32 /\
      Forall i16_ok (al_wave lg) /\ (64 <= n)%Z /\
      a_baseline f = (sumZ (firstn 64 (al_wave lg)) / 64)%Z /\           (* floor of the mean of the first 64 samples *)
      (if a_supp f
       then a_keep_bit f = true /\ 34 <= a_keep_last f /\ (last_index (a_keep_last f) < n)%Z /\ (n <= Z.of_N (a_req f) - 2)%Z
       else (if a_keep_bit f then 34 <= a_keep_last f /\ (last_index (a_keep_last f) < n)%Z else a_keep_last f = 0) /\
            (n = Z.of_N (a_req f) - 2)%Z)
  end.

(* observation for the correspondence check *)
Definition zobs (z : Z) : N := if (z <? 0)%Z then 2 * Z.to_N (- z) + 1 else 2 * Z.to_N z.
