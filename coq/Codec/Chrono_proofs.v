From AG Require Import Base.Prelude Base.Res Base.Bytes Base.Mask Codec.Chrono.

Global Opaque dropN.

(* ---------- classification of all 2^32 words, symbolically ---------- *)
Lemma m7 x : N.land x 0x7F = x mod 128.
Proof. replace 0x7F with (2^7 - 2^0) by reflexivity. rewrite land_run by lia.
  change (2^0) with 1. rewrite N.div_1_r, N.mul_1_r. reflexivity. Qed.
Lemma m80 x : N.land x 0x80 = (x / 128) mod 2 * 128.
Proof. replace 0x80 with (2^8 - 2^7) by reflexivity. rewrite land_run by lia. reflexivity. Qed.
Lemma m1 x : N.land x 1 = x mod 2.
Proof. replace 1 with (2^1 - 2^0) at 1 by reflexivity. rewrite land_run by lia.
  change (2^0) with 1. rewrite N.div_1_r, N.mul_1_r. reflexivity. Qed.
Lemma mFFFFFE x : N.land x 0xFFFFFE = (x / 2) mod 8388608 * 2.
Proof. replace 0xFFFFFE with (2^24 - 2^1) by reflexivity. rewrite land_run by lia. reflexivity. Qed.
Lemma m800000 x : N.land x 0x800000 = (x / 8388608) mod 2 * 8388608.
Proof. replace 0x800000 with (2^24 - 2^23) by reflexivity. rewrite land_run by lia. reflexivity. Qed.
Lemma m7FFFFF x : N.land x 0x7FFFFF = x mod 8388608.
Proof. replace 0x7FFFFF with (2^23 - 2^0) by reflexivity. rewrite land_run by lia.
  change (2^0) with 1. rewrite N.div_1_r, N.mul_1_r. reflexivity. Qed.

Definition temp24 (b0 b1 b2 : N) := b0 + 256 * b1 + 65536 * b2.

(* arithmetic reading of one word *)
Definition word_spec (b0 b1 b2 b3 : N) : option entry :=
  let w := temp24 b0 b1 b2 in
  if (128 <=? b3) && (b3 <? 128 + 59) then Some (TS (b3 - 128) (b0 mod 2 =? 1) (w - b0 mod 2))
  else if b3 =? 255 then Some (MK (128 <=? b2) (w mod 8388608))
  else None.

Theorem cb_classify_word_lemma b0 b1 b2 b3 :
  b0 < 256 -> b1 < 256 -> b2 < 256 -> b3 < 256 -> word b0 b1 b2 b3 = word_spec b0 b1 b2 b3.
Proof.
  intros H0 H1 H2 H3. unfold word, word_spec, temp24, NUM_INPUT_CHANNELS.
  rewrite m7, m80, m1, mFFFFFE, m800000, m7FFFFF.
  assert (A : ((b3 / 128) mod 2 * 128 =? 128) = (128 <=? b3)).
  { destruct (N.leb_spec 128 b3); [apply N.eqb_eq | apply N.eqb_neq]; lia. }
  rewrite A.
  destruct (N.leb_spec 128 b3) as [L|L]; cbn [andb].
  - assert (B : (b3 mod 128 <? 59) = (b3 <? 128 + 59)).
    { destruct (N.ltb_spec b3 (128 + 59)); [apply N.ltb_lt | apply N.ltb_ge]; lia. }
    rewrite B. destruct (N.ltb_spec b3 (128 + 59)) as [L'|L'].
    + f_equal. f_equal; [lia| |lia].
      destruct (N.eqb_spec (b0 mod 2) 1); [apply N.eqb_eq | apply N.eqb_neq]; lia.
    + destruct (N.eqb_spec b3 255); [|reflexivity]. f_equal. f_equal.
      destruct (N.leb_spec 128 b2); [apply N.eqb_eq | apply N.eqb_neq]; lia.
  - destruct (N.eqb_spec b3 255); [lia|reflexivity].
Qed.

(* ---------- progress and fuel ---------- *)
Lemma dropN_len n (l : list N) : n <= lenN l -> length (dropN n l) = (length l - N.to_nat n)%nat.
Proof. intros H. pose proof (dropN_length n l). unfold lenN in *. lia. Qed.

Lemma next_shorter l x r : next l = Some (x, r) -> (length r < length l)%nat.
Proof.
  unfold next. destruct l as [|b0 [|b1 [|b2 [|b3 r0]]]]; try discriminate.
  destruct (word b0 b1 b2 b3).
  - intros [= <- <-]. cbn [length]. lia.
  - destruct ((b0 =? 60) && (b1 =? 0) && (b2 =? 0) && (b3 =? 254)); cbn [andb]; try discriminate.
    destruct (SCALERS_BODY <=? lenN r0) eqn:Hl; try discriminate. intros [= <- <-].
    apply N.leb_le in Hl. cbn [length]. rewrite dropN_len by assumption. lia.
Qed.

(* every accepted element consumes exactly 4 or 244 bytes *)
Lemma next_consumes l x r : next l = Some (x, r) ->
  exists p, l = p ++ r /\ (match x with E _ => lenN p = 4 | Scalers => lenN p = 244 end).
Proof.
  unfold next. destruct l as [|b0 [|b1 [|b2 [|b3 r0]]]]; try discriminate.
  destruct (word b0 b1 b2 b3).
  - intros [= <- <-]. exists [b0; b1; b2; b3]. split; reflexivity.
  - destruct ((b0 =? 60) && (b1 =? 0) && (b2 =? 0) && (b3 =? 254)); cbn [andb]; try discriminate.
    destruct (SCALERS_BODY <=? lenN r0) eqn:Hl; try discriminate. intros [= <- <-].
    apply N.leb_le in Hl.
    exists (b0 :: b1 :: b2 :: b3 :: takeN SCALERS_BODY r0). split.
    + cbn [app]. do 4 f_equal. symmetry. apply take_drop.
    + rewrite !lenN_cons, takeN_length. unfold SCALERS_BODY, NUM_INPUT_CHANNELS in *. lia.
Qed.

Lemma next_app l b x r : next l = Some (x, r) -> next (l ++ b) = Some (x, r ++ b).
Proof.
  unfold next. destruct l as [|b0 [|b1 [|b2 [|b3 r0]]]]; try discriminate. cbn [app].
  destruct (word b0 b1 b2 b3).
  - intros [= <- <-]. reflexivity.
  - destruct ((b0 =? 60) && (b1 =? 0) && (b2 =? 0) && (b3 =? 254)) eqn:Ht; cbn [andb]; try discriminate.
    destruct (SCALERS_BODY <=? lenN r0) eqn:Hl; try discriminate. intros [= <- <-].
    apply N.leb_le in Hl.
    replace (SCALERS_BODY <=? lenN (r0 ++ b)) with true by (symmetry; apply N.leb_le; rewrite lenN_app; lia).
    rewrite dropN_app by assumption. reflexivity.
Qed.

Lemma parse_fuel : forall f1 f2 l, (length l <= f1)%nat -> (length l <= f2)%nat -> parse f1 l = parse f2 l.
Proof.
  induction f1 as [|f1 IH]; intros f2 l H1 H2.
  - destruct l; [|cbn in H1; lia]. destruct f2; reflexivity.
  - destruct f2 as [|f2].
    + destruct l; [|cbn in H2; lia]. reflexivity.
    + cbn [parse]. destruct (next l) as [[[e|] r]|] eqn:Hn; try reflexivity.
      * apply next_shorter in Hn. rewrite (IH f2 r) by lia. reflexivity.
      * apply next_shorter in Hn. apply IH; lia.
Qed.

Lemma cb_step l : cb_fifo l =
  match next l with
  | Some (E e, r) => let (es, r') := cb_fifo r in (e :: es, r')
  | Some (Scalers, r) => cb_fifo r
  | None => ([], l)
  end.
Proof.
  unfold cb_fifo. destruct (next l) as [[[e|] r]|] eqn:Hn.
  - pose proof (next_shorter _ _ _ Hn). destruct (length l) eqn:El; [lia|]. cbn [parse]. rewrite Hn.
    rewrite (parse_fuel n (length r) r) by lia. reflexivity.
  - pose proof (next_shorter _ _ _ Hn). destruct (length l) eqn:El; [lia|]. cbn [parse]. rewrite Hn.
    apply parse_fuel; lia.
  - destruct (length l); cbn [parse]; [reflexivity| rewrite Hn; reflexivity].
Qed.

(* ---------- split invariance ---------- *)
Theorem cb_split2_lemma : forall a b,
  cb_fifo (a ++ b) = let (e1, r1) := cb_fifo a in let (e2, r2) := cb_fifo (r1 ++ b) in (e1 ++ e2, r2).
Proof.
  intros a. remember (length a) as n eqn:Hn. revert a Hn.
  induction n as [n IH] using lt_wf_ind. intros a Hn b.
  rewrite (cb_step a). destruct (next a) as [[[e|] r]|] eqn:Hx.
  - pose proof (next_shorter _ _ _ Hx) as Hs. rewrite (cb_step (a ++ b)), (next_app _ b _ _ Hx).
    rewrite (IH (length r) ltac:(lia) r eq_refl b).
    destruct (cb_fifo r) as [e1 r1]. destruct (cb_fifo (r1 ++ b)). reflexivity.
  - pose proof (next_shorter _ _ _ Hx) as Hs. rewrite (cb_step (a ++ b)), (next_app _ b _ _ Hx).
    apply (IH (length r) ltac:(lia) r eq_refl b).
  - destruct (cb_fifo (a ++ b)); reflexivity.
Qed.

(* the remainder is a fixed point: nothing more can be parsed from it *)
Lemma cb_rem_stuck : forall l es r, cb_fifo l = (es, r) -> next r = None.
Proof.
  intros l. remember (length l) as n eqn:Hn. revert l Hn.
  induction n as [n IH] using lt_wf_ind. intros l Hn es r.
  rewrite (cb_step l). destruct (next l) as [[[e|] r0]|] eqn:Hx.
  - pose proof (next_shorter _ _ _ Hx) as Hs.
    destruct (cb_fifo r0) as [es0 r1] eqn:E0. intros [= <- <-].
    eapply (IH (length r0)); eauto; lia.
  - pose proof (next_shorter _ _ _ Hx) as Hs. intros H.
    eapply (IH (length r0)); eauto; lia.
  - intros [= <- <-]. assumption.
Qed.
Lemma cb_stuck_fix r : next r = None -> cb_fifo r = ([], r).
Proof. intros H. rewrite cb_step, H. reflexivity. Qed.

(* feeding pieces one at a time (remainder prepended to the next piece) = parsing the whole stream *)
Theorem cb_split_many_lemma : forall pieces rem, next rem = None ->
  cb_feed rem pieces = cb_fifo (rem ++ concat pieces).
Proof.
  induction pieces as [|p ps IH]; intros rem Hrem; cbn [cb_feed concat].
  - rewrite app_nil_r. symmetry. apply cb_stuck_fix. assumption.
  - rewrite app_assoc, (cb_split2_lemma (rem ++ p) (concat ps)).
    destruct (cb_fifo (rem ++ p)) as [e1 r1] eqn:E1.
    rewrite (IH r1) by (eapply cb_rem_stuck; eauto).
    destruct (cb_fifo (r1 ++ concat ps)). reflexivity.
Qed.

(* ---------- soundness and maximality ---------- *)
Inductive Elems : list N -> list entry -> Prop :=
| El_nil : Elems [] []
| El_word b0 b1 b2 b3 e p es :
    word b0 b1 b2 b3 = Some e -> Elems p es -> Elems (b0 :: b1 :: b2 :: b3 :: p) (e :: es)
| El_scalers blk p es :
    lenN blk = 240 -> Elems p es -> Elems (0x3C :: 0 :: 0 :: 0xFE :: blk ++ p) es.

Definition starts_complete (r : list N) : Prop :=
  (exists b0 b1 b2 b3 t e, r = b0 :: b1 :: b2 :: b3 :: t /\ word b0 b1 b2 b3 = Some e) \/
  (exists blk t, r = 0x3C :: 0 :: 0 :: 0xFE :: blk ++ t /\ lenN blk = 240).

Lemma next_none_iff r : next r = None <-> ~ starts_complete r.
Proof.
  split.
  - intros Hn [(b0 & b1 & b2 & b3 & t & e & -> & Hw)|(blk & t & -> & Hb)]; unfold next in Hn.
    + rewrite Hw in Hn. discriminate.
    + change (word 60 0 0 254) with (@None entry) in Hn. cbn [N.eqb Pos.eqb andb] in Hn.
      replace (SCALERS_BODY <=? lenN (blk ++ t)) with true in Hn; [discriminate|].
      symmetry. apply N.leb_le. rewrite lenN_app, Hb. unfold SCALERS_BODY, NUM_INPUT_CHANNELS. lia.
  - intros H. unfold next. destruct r as [|b0 [|b1 [|b2 [|b3 r0]]]]; try reflexivity.
    destruct (word b0 b1 b2 b3) eqn:Hw.
    + exfalso. apply H. left. do 6 eexists. split; [reflexivity|eassumption].
    + destruct ((b0 =? 60) && (b1 =? 0) && (b2 =? 0) && (b3 =? 254)) eqn:Ht; cbn [andb]; [|reflexivity].
      destruct (SCALERS_BODY <=? lenN r0) eqn:Hl; [|reflexivity].
      exfalso. apply H. right.
      apply andb_true_iff in Ht. destruct Ht as [Ht E3]. apply andb_true_iff in Ht. destruct Ht as [Ht E2].
      apply andb_true_iff in Ht. destruct Ht as [E0 E1].
      apply N.eqb_eq in E0, E1, E2, E3. subst. apply N.leb_le in Hl.
      exists (takeN SCALERS_BODY r0), (dropN SCALERS_BODY r0). split.
      * do 4 f_equal. symmetry. apply take_drop.
      * rewrite takeN_length. unfold SCALERS_BODY, NUM_INPUT_CHANNELS in *. lia.
Qed.

Theorem cb_sound_maximal_lemma : forall l es r, cb_fifo l = (es, r) ->
  exists p, l = p ++ r /\ Elems p es /\ ~ starts_complete r.
Proof.
  intros l. remember (length l) as n eqn:Hn. revert l Hn.
  induction n as [n IH] using lt_wf_ind. intros l Hn es r.
  rewrite (cb_step l). destruct (next l) as [[[e|] r0]|] eqn:Hx.
  - pose proof (next_shorter _ _ _ Hx) as Hs.
    destruct (cb_fifo r0) as [es0 r1] eqn:E0. intros [= <- <-].
    destruct (IH (length r0) ltac:(lia) r0 eq_refl es0 r1 E0) as (p & -> & He & Hm).
    unfold next in Hx. destruct l as [|b0 [|b1 [|b2 [|b3 t]]]]; try discriminate.
    destruct (word b0 b1 b2 b3) eqn:Hw.
    + injection Hx as He' Ht. subst e0 t. exists (b0 :: b1 :: b2 :: b3 :: p). split; [reflexivity|]. split; [|assumption].
      econstructor; eassumption.
    + destruct ((b0 =? 60) && (b1 =? 0) && (b2 =? 0) && (b3 =? 254)); cbn [andb] in Hx; try discriminate.
      destruct (SCALERS_BODY <=? lenN t); discriminate.
  - pose proof (next_shorter _ _ _ Hx) as Hs. intros H.
    destruct (IH (length r0) ltac:(lia) r0 eq_refl es r H) as (p & -> & He & Hm).
    unfold next in Hx. destruct l as [|b0 [|b1 [|b2 [|b3 t]]]]; try discriminate.
    destruct (word b0 b1 b2 b3) eqn:Hw; [discriminate|].
    destruct ((b0 =? 60) && (b1 =? 0) && (b2 =? 0) && (b3 =? 254)) eqn:Ht; cbn [andb] in Hx; try discriminate.
    destruct (SCALERS_BODY <=? lenN t) eqn:Hl; try discriminate.
    injection Hx as Hx.
    apply andb_true_iff in Ht. destruct Ht as [Ht E3]. apply andb_true_iff in Ht. destruct Ht as [Ht E2].
    apply andb_true_iff in Ht. destruct Ht as [E0 E1].
    apply N.eqb_eq in E0, E1, E2, E3. subst b0 b1 b2 b3. apply N.leb_le in Hl.
    exists (60 :: 0 :: 0 :: 254 :: takeN SCALERS_BODY t ++ p). split; [|split; [|assumption]].
    + change (60 :: 0 :: 0 :: 254 :: takeN SCALERS_BODY t ++ p) with ([60; 0; 0; 254] ++ takeN SCALERS_BODY t ++ p).
      rewrite <- !app_assoc. rewrite <- Hx. rewrite take_drop. reflexivity.
    + constructor; [|assumption]. rewrite takeN_length. unfold SCALERS_BODY, NUM_INPUT_CHANNELS in *. lia.
  - intros [= <- <-]. exists []. split; [reflexivity|]. split; [constructor|].
    apply next_none_iff. assumption.
Qed.

(* the entries are determined by the consumed prefix alone (uniqueness of the decomposition) *)
Lemma cb_total_lemma l : exists es r, cb_fifo l = (es, r) /\ (length r <= length l)%nat.
Proof.
  destruct (cb_fifo l) as [es r] eqn:E. exists es, r. split; [reflexivity|].
  destruct (cb_sound_maximal_lemma _ _ _ E) as (p & -> & _). rewrite app_length. lia.
Qed.
