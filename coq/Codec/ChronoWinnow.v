(* detector/src/chronobox.rs transcribed combinator by combinator over Codec/Winnow.v (the winnow 0.6.1
   semantics with checkpoint/reset, Backtrack vs Cut, the "must consume" assert).  Definitions only.
   The entry type of Codec/Chrono.v is reused:
     TimestampCounter { channel, timestamp, edge }  = TS channel (edge = Trailing) timestamp
     WrapAroundMarker { timestamp_top_bit, counter } = MK timestamp_top_bit counter.          *)
From AG Require Import Base.Prelude Base.Bytes Codec.Winnow Codec.Chrono.

(* usize -> u8: `u8::try_from(x)` *)
Definition u8_try_from (x : N) : option N := if x <? 256 then Some x else None.

(* chronobox.rs:20-32   impl TryFrom<u8> for ChannelId
     if num < u8::try_from(NUM_INPUT_CHANNELS).unwrap() { Ok(ChannelId(num)) }
     else { Err(TryChannelIdFromUnsignedError { input: num }) }                      *)
Definition channel_id_try_from (num : N) : cres N :=
  match u8_try_from NUM_INPUT_CHANNELS with
  | None => CPanic                                        (* .unwrap() *)
  | Some k => if num <? k then COk num else CErr
  end.

(* chronobox.rs:62-74
     fn timestamp_counter(input: &mut &[u8]) -> PResult<TimestampCounter> {
         let temp = le_u24.parse_next(input)?;
         seq! {TimestampCounter{
             timestamp: empty.value(temp & 0x00FFFFFE),
             edge: empty.value(if temp & 1 == 1 {EdgeType::Trailing} else {EdgeType::Leading}),
             channel: u8
                 .verify(|&n| n & 0x80 == 0x80)
                 .try_map(|n| ChannelId::try_from(n & 0x7F))
         }}
         .parse_next(input)
     }
   seq!{Name{f: p, ..}} expands to `let f = p.parse_next(input)?; ...; Ok(Name{f, ..})` (macros/seq.rs:66-73,
   106-141).  Note: no checkpoint here; on failure of the third field the stream stays after the 3 bytes. *)
Definition timestamp_counter : parser entry := fun input =>
  pbind (le_u24 input) (fun temp input =>                                              (* :63 *)
  pbind (value empty (N.land temp 0x00FFFFFE) input) (fun timestamp input =>           (* :66 *)
  pbind (value empty (N.land temp 1 =? 1) input) (fun edge input =>                    (* :67 *)
  pbind (try_map (verify u8 (fun n => N.land n 0x80 =? 0x80))                          (* :68-69 *)
                 (fun n => channel_id_try_from (N.land n 0x7F)) input)                 (* :70 *)
        (fun channel input =>
  POk (TS channel edge timestamp) input)))).

(* chronobox.rs:99-108
     fn wrap_around_marker(input: &mut &[u8]) -> PResult<WrapAroundMarker> {
         let temp = le_u24.parse_next(input)?;
         seq! {WrapAroundMarker{
             timestamp_top_bit: empty.value(temp & 0x00800000 == 0x00800000),
             counter: empty.value(temp & 0x007FFFFF),
             _: 0xFF,
         }}
         .parse_next(input)
     } *)
Definition wrap_around_marker : parser entry := fun input =>
  pbind (le_u24 input) (fun temp input =>                                              (* :100 *)
  pbind (value empty (N.land temp 0x00800000 =? 0x00800000) input) (fun top_bit input => (* :103 *)
  pbind (value empty (N.land temp 0x007FFFFF) input) (fun counter input =>             (* :104 *)
  pbind (literal_u8 0xFF input) (fun _ input =>                                        (* :105 *)
  POk (MK top_bit counter) input)))).

(* chronobox.rs:129-135
     fn fifo_entry(input: &mut &[u8]) -> PResult<FifoEntry> {
         alt((
             timestamp_counter.map(FifoEntry::TimestampCounter),
             wrap_around_marker.map(FifoEntry::WrapAroundMarker),
         ))
         .parse_next(input)
     }
   (the two enum constructors are the identity on `entry`) *)
Definition fifo_entry : parser entry :=
  alt2 (map timestamp_counter (fun e => e)) (map wrap_around_marker (fun e => e)).

Definition SCALERS_TAG : list N := [0x3C; 0x00; 0x00; 0xFE].

(* chronobox.rs:137-145
     fn scalers_block(input: &mut &[u8]) -> PResult<()> {
         (
             b"\x3C\x00\x00\xFE",
             take(NUM_INPUT_CHANNELS * std::mem::size_of::<u32>()),
             le_u32,
         )
             .void()
             .parse_next(input)
     } *)
Definition scalers_block : parser unit :=
  void (tuple3 (literal_bytes SCALERS_TAG) (take (NUM_INPUT_CHANNELS * 4)) le_u32).

(* chronobox.rs:161-174
     pub fn chronobox_fifo(input: &mut &[u8]) -> Vec<FifoEntry> {
         separated_foldl1(
             repeat(0.., fifo_entry),
             scalers_block,
             |mut l: Vec<_>, _, mut r| { l.append(&mut r); l },
         )
         .parse_next(input)
         .unwrap()
     }
   Both loops get the same fuel. *)
Definition chronobox_fifo_parser (dbg : dbg_mode) (fuel : nat) : parser (list entry) :=
  separated_foldl1 dbg fuel (repeat0 dbg fuel fifo_entry) scalers_block
    (fun l _ r => l ++ r).

Definition chronobox_fifo_fuel (dbg : dbg_mode) (fuel : nat) (input : list N) : pres (list entry) :=
  presult_unwrap (chronobox_fifo_parser dbg fuel input).

(* fuel = length of the input + 1 (sufficient: ChronoWinnow_proofs.cbw_fifo_eq) *)
Definition chronobox_fifo_winnow (dbg : dbg_mode) (input : list N) : pres (list entry) :=
  chronobox_fifo_fuel dbg (S (length input)) input.

(* the resume protocol over the combinator-level parser (same shape as Chrono.cb_feed) *)
Fixpoint cbw_feed (dbg : dbg_mode) (rem : list N) (pieces : list (list N)) : pres (list entry) :=
  match pieces with
  | [] => POk [] rem
  | p :: ps =>
      pbind (chronobox_fifo_winnow dbg (rem ++ p)) (fun es r =>
      pbind (cbw_feed dbg r ps) (fun es' r' => POk (es ++ es') r'))
  end.
