(* Model of alpha_g_detector::padwing::PwbV2Packet (detector/src/padwing.rs):
     ChannelId::try_from(u16)              padwing.rs:819-839
     PwbV2Packet::try_from(&[u8])          padwing.rs:1337-1495
     accessors, waveform_at                padwing.rs:1019-1334
   and its encoder-based specification.  The table of known MAC addresses is an argument, so every
   theorem holds for any board table.  Definitions only.

   Layout of this file (the event-assembly properties reuse parts 1-3):
     1. channel identifiers and the readout order
     2. the record [pwb] (mirror of the Rust struct) and the accessors (incl. [waveform_at])
     3. the decoder [pwb_decode]
     4. the specification: [pwb_encode], [pwb_fields_ok]                                              *)
From Coq Require Import Sorted.
From AG Require Import Base.Prelude Base.Res Base.Bytes Codec.Adc.
(* from Codec.Adc: list_eqb, mac_known, i16_ok, b2n *)

Definition PE : N := 1.          (* error kinds are not observed for this decoder *)
Definition OUT_OF_FUEL : N := 99.

(* ================= 1. channel identifiers ================= *)

(* padwing.rs:803  enum ChannelId { Reset(ResetChannelId), Fpn(FpnChannelId), Pad(PadChannelId) };
   the payload is the channel index (NOT the readout index) *)
Inductive chan := Reset (n : N) | Fpn (n : N) | Pad (n : N).

(* #[derive(PartialEq)] *)
Definition chan_eqb (a b : chan) : bool :=
  match a, b with
  | Reset x, Reset y => x =? y
  | Fpn x, Fpn y => x =? y
  | Pad x, Pad y => x =? y
  | _, _ => false
  end.

(* padwing.rs:753 / 774 / 793 : {Reset,Fpn,Pad}ChannelId::try_from(u16) *)
Definition reset_of (n : N) : res N := if (1 <=? n) && (n <=? 3) then Ok n else Err PE.
Definition fpn_of (n : N) : res N := if (1 <=? n) && (n <=? 4) then Ok n else Err PE.
Definition pad_of (n : N) : res N := if (1 <=? n) && (n <=? 72) then Ok n else Err PE.

(* padwing.rs:823  ChannelId::try_from(readout_index: u16); the match arms in source order,
   u16 subtraction in the overflow mode of the build *)
Definition chan_of_readout (m : ovf) (i : N) : res chan :=
  if (1 <=? i) && (i <=? 3) then do c <- reset_of i; Ok (Reset c)          (* 825 *)
  else if i =? 16 then do c <- fpn_of 1; Ok (Fpn c)                         (* 826 *)
  else if i =? 29 then do c <- fpn_of 2; Ok (Fpn c)                         (* 827 *)
  else if i =? 54 then do c <- fpn_of 3; Ok (Fpn c)                         (* 828 *)
  else if i =? 67 then do c <- fpn_of 4; Ok (Fpn c)                         (* 829 *)
  else if (4 <=? i) && (i <=? 79) then                                      (* 830 *)
    do a <- usub m 16 i (b2n (16 <? i));                                    (* 832 *)
    do b <- usub m 16 a (b2n (29 <? i));
    do c <- usub m 16 b (b2n (54 <? i));
    do d <- usub m 16 c (b2n (67 <? i));
    do e <- usub m 16 d 3;
    do p <- pad_of e; Ok (Pad p)
  else Err PE.                                                              (* 834 *)

(* --- specification side: the documented readout order of the 79 channels of an AFTER chip:
   3 reset states, then the 72 pads in order with the 4 FPN channels at readout positions 16, 29, 54, 67 *)
Definition pads (a : N) (n : nat) : list chan := map (fun k => Pad (a + N.of_nat k)) (seq 0 n).
Definition readout_order : list chan :=
  [Reset 1; Reset 2; Reset 3] ++ pads 1 12 ++ [Fpn 1] ++ pads 13 12 ++ [Fpn 2] ++ pads 25 24 ++ [Fpn 3] ++
  pads 49 12 ++ [Fpn 4] ++ pads 61 12.

(* channel with readout index i (1-based) *)
Definition readout_chan (i : N) : option chan :=
  if i =? 0 then None else nth_error readout_order (N.to_nat (i - 1)).

(* Iterator::position(|c| *c == x) *)
Fixpoint position (x : chan) (l : list chan) : option N :=
  match l with
  | [] => None
  | c :: t => if chan_eqb c x then Some 0 else match position x t with Some k => Some (k + 1) | None => None end
  end.

(* readout index of a channel (0 for something that is not a channel of the chip) *)
Definition chan_readout (c : chan) : N :=
  match position c readout_order with Some k => k + 1 | None => 0 end.
Definition chan_valid (c : chan) : bool := negb (chan_readout c =? 0).

(* ================= 2. the packet and its accessors ================= *)

(* padwing.rs:938  struct PwbV2Packet *)
Record pwb := {
  p_chip : N;               (* after_id : AfterId, 0..=3 for A..=D *)
  p_trig : N;               (* trigger_source : Trigger as its wire value 0 External / 1 Manual / 3 InternalPulse *)
  p_mac : list N;           (* board_id : BoardId, identified by its MAC address (6 bytes) *)
  p_delay : N;              (* trigger_delay : u16 *)
  p_ts : N;                 (* trigger_timestamp : u64 *)
  p_last : N;               (* last_sca_cell : u16 *)
  p_req : N;                (* requested_samples : usize *)
  p_sent : list chan;       (* channels_sent : Vec<ChannelId> *)
  p_over : list chan;       (* channels_over_threshold : Vec<ChannelId> *)
  p_counter : N;            (* event_counter : u32 *)
  p_fifo : N;               (* fifo_max_depth : u16 *)
  p_wdepth : N;             (* event_descriptor_write_depth : u8 *)
  p_rdepth : N;             (* event_descriptor_read_depth : u8 *)
  p_data : list Z }.        (* data : Vec<i16> -- everything after byte 52, block headers and end marker included *)
(* compression : Compression has the single value Raw (wire value 0) and carries no information *)

Definition packet_version (_ : pwb) : N := 2.                                (* 1019 *)
Definition compression (_ : pwb) : N := 0.                                   (* 1061 *)

(* padwing.rs:1322  waveform_at(&self, channel) -> Option<&[i16]>; usize arithmetic in the overflow mode *)
Definition waveform_at (m : ovf) (f : pwb) (c : chan) : res (option (list Z)) :=
  match position c (p_sent f) with                                           (* 1323 *)
  | Some index =>
      let req := p_req f in
      do spc <- (if req mod 2 =? 0 then uadd m 64 2 req                      (* 1324-1328 *)
                 else do a <- uadd m 64 2 req; uadd m 64 a 1);
      do index' <- umul m 64 spc index;                                      (* 1329 *)
      do i2 <- uadd m 64 index' 2;                                           (* 1330 *)
      do s <- slice_from (p_data f) i2;
      do w <- slice_to s req;
      Ok (Some w)
  | None => Ok None                                                          (* 1332 *)
  end.

(* ================= 3. the decoder ================= *)

(* u128::leading_zeros *)
Definition lz128 (x : N) : N := 128 - N.size x.
(* a << k at width w: shifting by >= w panics with overflow checks, masks the amount without *)
Definition ushl (m : ovf) (w a k : N) : res N :=
  if k <? w then Ok ((a * 2 ^ k) mod 2 ^ w)
  else match m with Checked => Panic | Wrapping => Ok ((a * 2 ^ (k mod w)) mod 2 ^ w) end.
(* u16::try_from(u32).unwrap() *)
Definition u16_unwrap (v : N) : res N := if v <? 65536 then Ok v else Panic.
(* Result::unwrap *)
Definition unwrap_res {A} (r : res A) : res A := match r with Ok a => Ok a | _ => Panic end.

(* padwing.rs:1390-1394  while num != 0 { let bit = num.leading_zeros();
     v.push((127 - bit).try_into().unwrap()); num ^= 1 << (127 - bit); }
   returns the pushed values in push order; fuel 128 suffices for every u128 (C05_mask_bits_ascending) *)
Fixpoint mask_loop (m : ovf) (fuel : nat) (num : N) : res (list N) :=
  if num =? 0 then Ok [] else
  match fuel with
  | O => Err OUT_OF_FUEL
  | S k =>
      let bit := lz128 num in                                                (* 1391 *)
      do d <- usub m 32 127 bit;                                             (* 1392, 1393: 127 - bit (u32) *)
      do d16 <- u16_unwrap d;                                                (* 1392 *)
      do sh <- ushl m 128 1 d;                                               (* 1393 *)
      do rest <- mask_loop m k (N.lxor num sh);
      Ok (d16 :: rest)
  end.

Fixpoint map_res {A B} (f : A -> res B) (l : list A) : res (list B) :=
  match l with
  | [] => Ok []
  | a :: t => do b <- f a; do r <- map_res f t; Ok (b :: r)
  end.

(* padwing.rs:1384-1400 (and 1404-1420): 10 mask bytes -> Vec<ChannelId> *)
Definition mask_chans (m : ovf) (s : list N) : res (list chan) :=
  do a <- arr 10 s;                                                          (* 1386 copy_from_slice into array[..10] *)
  let num := le_val (a ++ [0; 0; 0; 0; 0; 0]) in                             (* 1387 u128::from_le_bytes *)
  do v <- mask_loop m 128 num;                                               (* 1390 *)
  map_res (fun index => do r <- uadd m 16 index 1;                           (* 1398 index + 1 (u16) *)
                        unwrap_res (chan_of_readout m r))                    (* 1398 .unwrap() *)
          (rev v).                                                           (* 1397 .rev() *)

(* chunks_exact(2).map(i16::from_le_bytes) *)
Fixpoint chunks2_le (s : list N) : list Z :=
  match s with
  | lo :: h :: t => to_signed 16 (le_val [lo; h]) :: chunks2_le t
  | _ => []
  end.

(* data[a..][..2].try_into().unwrap() then u16::from_le_bytes *)
Definition rd2 (d : list N) (a : N) : res N :=
  do s <- slice_from d a; do s2 <- slice_to s 2; do x <- arr 2 s2; Ok (le_val x).

(* padwing.rs:1437-1465  for (index, &channel) in channels_sent.iter().enumerate() *)
Fixpoint blocks_check (m : ovf) (req bpc : N) (data : list N) (i : N) (cs : list chan) : res unit :=
  match cs with
  | [] => Ok tt
  | channel :: t =>
      do index <- umul m 64 bpc i;                                           (* 1438 *)
      do fc <- rd2 data index;                                               (* 1439-1440 *)
      do found <- chan_of_readout m fc;                                      (* 1441 ? *)
      guard (negb (chan_eqb found channel)) PE (                             (* 1442 *)
      do i2 <- uadd m 64 index 2;
      do fs <- rd2 data i2;                                                  (* 1448-1449 *)
      guard (negb (fs =? req)) PE (                                          (* 1450 *)
      do _ <- (if negb (req mod 2 =? 0) then                                 (* 1456 && short-circuit *)
                 do i4 <- uadd m 64 index 4;
                 do r2 <- umul m 64 2 req;
                 do off <- uadd m 64 i4 r2;
                 do z <- (do s <- slice_from data off; slice_to s 2);        (* 1457 *)
                 if negb (list_eqb z [0; 0]) then
                   do _ <- arr 2 z; Err PE                                   (* 1460-1462 try_into().unwrap() *)
                 else Ok tt
               else Ok tt);
      blocks_check m req bpc data (i + 1) t))
  end.

(* AfterId::try_from(char)  padwing.rs:284 *)
Definition after_of_char (b : N) : option N :=
  if b =? 65 then Some 0 else if b =? 66 then Some 1 else if b =? 67 then Some 2 else if b =? 68 then Some 3 else None.
(* Trigger::try_from(u8)  padwing.rs:720 *)
Definition trigger_of (b : N) : option N :=
  if b =? 0 then Some 0 else if b =? 1 then Some 1 else if b =? 3 then Some 3 else None.

Section Decode.
Variable macs : list (list N).
Variable m : ovf.

Definition pwb_decode (l : list N) : res pwb :=
  let len := lenN l in
  guard (len <? 56) PE (                                                     (* 1342 *)
  do b0 <- idx l 0; guard (negb (b0 =? 2)) PE (                              (* 1349 *)
  do b1 <- idx l 1; do chip <- or_err (after_of_char b1) PE;                 (* 1352 *)
  do b2 <- idx l 2; guard (negb (b2 =? 0)) PE (                              (* 1353 Compression::try_from *)
  do b3 <- idx l 3; do trig <- or_err (trigger_of b3) PE;                    (* 1354 *)
  do mac <- (do s <- slice l 4 10; arr 6 s);                                 (* 1355 *)
  guard (negb (mac_known macs mac)) PE (                                     (* 1356 BoardId::try_from *)
  do delay <- rd_le l 10 2;                                                  (* 1357-1358 *)
  do z <- slice l 18 20;                                                     (* 1359 *)
  (if negb (list_eqb z [0; 0]) then do _ <- arr 2 z; Err PE else             (* 1360-1362 *)
  do ts <- rd_le l 12 8;                                                     (* 1364-1365 *)
  do last <- rd_le l 20 2;                                                   (* 1366-1367 *)
  guard (511 <? last) PE (                                                   (* 1368 *)
  do req <- rd_le l 22 2;                                                    (* 1373-1374 *)
  guard (511 <? req) PE (                                                    (* 1375 *)
  do b33 <- idx l 33; guard (negb (N.land b33 128 =? 0)) PE (                (* 1380 *)
  do s1 <- slice l 24 34;                                                    (* 1386 *)
  do sent <- mask_chans m s1;                                                (* 1384-1400 *)
  do b43 <- idx l 43; guard (negb (N.land b43 128 =? 0)) PE (                (* 1401 *)
  do s2 <- slice l 34 44;                                                    (* 1406 *)
  do over <- mask_chans m s2;                                                (* 1404-1420 *)
  do counter <- rd_le l 44 4;                                                (* 1421-1422 *)
  do fifo <- rd_le l 48 2;                                                   (* 1423-1424 *)
  do wd <- idx l 50;                                                         (* 1425 *)
  do rd <- idx l 51;                                                         (* 1426 *)
  do data <- slice_from l 52;                                                (* 1427 *)
  do bpc <- (if req mod 2 =? 0                                               (* 1428-1432 *)
             then do a <- umul m 64 2 req; uadd m 64 4 a
             else do a <- umul m 64 2 req; do b <- uadd m 64 4 a; uadd m 64 b 2);
  let n := lenN sent in
  do tot <- (do a <- umul m 64 bpc n; uadd m 64 a 4);                        (* 1433 *)
  if negb (tot =? lenN data) then
    do a <- umul m 64 bpc n; do _ <- uadd m 64 56 a; Err PE                  (* 1434-1437 *)
  else
  do _ <- blocks_check m req bpc data 0 sent;                                (* 1439-1465 *)
  do e4 <- usub m 64 (lenN data) 4;                                          (* 1467 *)
  do mk <- slice_from data e4;
  if negb (list_eqb mk [204; 204; 204; 204]) then
    do _ <- arr 4 mk; Err PE                                                 (* 1468-1470 *)
  else
  Ok {| p_chip := chip; p_trig := trig; p_mac := mac; p_delay := delay; p_ts := ts; p_last := last;
        p_req := req; p_sent := sent; p_over := over; p_counter := counter; p_fifo := fifo;
        p_wdepth := wd; p_rdepth := rd; p_data := chunks2_le data |}))))))))).  (* 1472-1494 *)
End Decode.

(* ================= 4. specification ================= *)

(* positions 0 .. n-1 and the set bits of a mask among them, ascending *)
Definition Nrange (n : nat) : list N := map N.of_nat (seq 0 n).
Definition mask_bits (num : N) (n : nat) : list N := filter (N.testbit num) (Nrange n).
(* channel with readout index i, total (Reset 0 is not a channel of the chip) *)
Definition readout_chan_d (i : N) : chan := match readout_chan i with Some c => c | None => Reset 0 end.
(* channel list of a mask: set bits ascending, bit i <-> readout index i + 1 *)
Definition mask_chan_list (num : N) : list chan := map (fun i => readout_chan_d (i + 1)) (mask_bits num 79).

(* 80-bit mask of a channel list: bit (readout index - 1) is set for every listed channel *)
Definition chans_mask (cs : list chan) : N :=
  fold_right (fun c acc => N.setbit acc (chan_readout c - 1)) 0 cs.

(* channel lists as the decoder produces them: channels of the chip, strictly ascending readout order *)
Definition chans_ok (cs : list chan) : Prop :=
  Forall (fun c => chan_valid c = true) cs /\ StronglySorted N.lt (map chan_readout cs).

(* i16 words, little-endian *)
Definition enc_words (w : list Z) : list N := flat_map (fun s => le_enc 2 (of_signed 16 s)) w.

(* samples per channel in [data]: 2 header words, the samples, one zero word iff odd *)
Definition spw (req : N) : N := 2 + req + req mod 2.

(* the waveforms carried by [data], block by block (the documented block layout read back) *)
Fixpoint parse_blocks (req : N) (n : nat) (d : list Z) : list (list Z) :=
  match n with
  | O => []
  | S k => subN d 2 req :: parse_blocks req k (dropN (spw req) d)
  end.
Definition pwb_waves (f : pwb) : list (list Z) := parse_blocks (p_req f) (length (p_sent f)) (p_data f).

(* one block, as bytes: readout index, sample count, samples, 2 zero bytes iff the count is odd *)
Definition block_bytes (req : N) (c : chan) (w : list Z) : list N :=
  le_enc 2 (chan_readout c) ++ le_enc 2 req ++ enc_words w ++ (if req mod 2 =? 0 then [] else [0; 0]).
Fixpoint blocks_bytes (req : N) (cs : list chan) (ws : list (list Z)) : list N :=
  match cs, ws with
  | c :: ct, w :: wt => block_bytes req c w ++ blocks_bytes req ct wt
  | _, _ => []
  end.
(* the same as i16 words (what the struct keeps in [data]) *)
Definition block_words (req : N) (c : chan) (w : list Z) : list Z :=
  [Z.of_N (chan_readout c); Z.of_N req] ++ w ++ (if req mod 2 =? 0 then [] else [0%Z]).
Fixpoint blocks_words (req : N) (cs : list chan) (ws : list (list Z)) : list Z :=
  match cs, ws with
  | c :: ct, w :: wt => block_words req c w ++ blocks_words req ct wt
  | _, _ => []
  end.
Definition END_WORD : Z := (-13108)%Z.    (* 0xCCCC as i16 *)
Definition pwb_words (req : N) (cs : list chan) (ws : list (list Z)) : list Z :=
  blocks_words req cs ws ++ [END_WORD; END_WORD].

(* the documented little-endian layout (padwing.rs:915-936 and the property text) *)
Definition pwb_encode (f : pwb) : list N :=
  [2; 65 + p_chip f; 0; p_trig f] ++ p_mac f ++ le_enc 2 (p_delay f) ++ le_enc 6 (p_ts f) ++ [0; 0] ++
  le_enc 2 (p_last f) ++ le_enc 2 (p_req f) ++ le_enc 10 (chans_mask (p_sent f)) ++
  le_enc 10 (chans_mask (p_over f)) ++ le_enc 4 (p_counter f) ++ le_enc 2 (p_fifo f) ++
  [p_wdepth f; p_rdepth f] ++ blocks_bytes (p_req f) (p_sent f) (pwb_waves f) ++ [204; 204; 204; 204].

Definition pwb_fields_ok (macs : list (list N)) (f : pwb) : Prop :=
  p_chip f <= 3 /\ (p_trig f = 0 \/ p_trig f = 1 \/ p_trig f = 3) /\
  mac_known macs (p_mac f) = true /\ length (p_mac f) = 6%nat /\ bytes (p_mac f) /\
  p_delay f < 2^16 /\ p_ts f < 2^48 /\ p_last f <= 511 /\ p_req f <= 511 /\
  chans_ok (p_sent f) /\ chans_ok (p_over f) /\
  p_counter f < 2^32 /\ p_fifo f < 2^16 /\ p_wdepth f < 256 /\ p_rdepth f < 256 /\
  Forall (fun w => lenN w = p_req f /\ Forall i16_ok w) (pwb_waves f) /\
  p_data f = pwb_words (p_req f) (p_sent f) (pwb_waves f).

(* ---------- observation for the correspondence check ---------- *)
(* waveform_at for every channel of the chip in readout order (both overflow modes must agree; Checked is run) *)
Definition pwb_all_waveforms (f : pwb) : list (chan * res (option (list Z))) :=
  map (fun c => (c, waveform_at Checked f c)) readout_order.
