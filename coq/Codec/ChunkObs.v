(* Chunk accessors (detector/src/padwing.rs:405-586) and the observation compared with the implementation.
   Definitions only. *)
From AG Require Import Base.Prelude Base.Res Base.Bytes Codec.Crc32c Codec.Chunk.

(* padwing.rs:524 header_crc32c(): re-serialises the fields; u16::try_from(payload.len()).unwrap() *)
Definition chunk_header_crc (c : chunk) : res N :=
  if lenN (c_payload c) <? 65536 then Ok (crc32c_raw (chunk_header c)) else Panic.
(* padwing.rs:575 let padding = match self.payload.len() % 4 { 0 => 0, r => 4 - r } *)
Definition chunk_padding (n : N) : N := if n mod 4 =? 0 then 0 else 4 - n mod 4.
(* padwing.rs:574 payload_crc32c() *)
Definition chunk_payload_crc (c : chunk) : N :=
  crc32c_raw (c_payload c ++ zeros (chunk_padding (lenN (c_payload c)))).

(* stored CRC words of a chunk's bytes *)
Definition stored_header_crc (l : list N) : N := le_val (subN l 16 4).
Definition stored_payload_crc (l : list N) : N := le_val (subN l (lenN l - 4) 4).

(* device, chip, packet sequence, channel sequence, chunk id, end-of-message (the only accessor of flags),
   header_crc32c(), payload_crc32c(), stored header CRC word, stored payload CRC word *)
Definition chunk_obs (l : list N) (c : chunk) : res (list N) :=
  do h <- chunk_header_crc c;
  Ok [c_dev c; c_chan c; c_pseq c; c_cseq c; c_id c; N.b2n (c_eom c);
      h; chunk_payload_crc c; stored_header_crc l; stored_payload_crc l].
