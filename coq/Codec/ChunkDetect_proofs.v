(* C03: every 1-, 2- or 3-bit change and every burst of at most 32 contiguous bits of an accepted chunk is rejected.
   Route: both the accepted chunk and a hypothetically accepted variant are encodings (chunk_exact), i.e. two
   CRC codewords each (header+CRC, body+CRC); their difference splits into two patterns of zero syndrome
   (linearity), at least one of which is non-empty and of weight <= 3 / inside a 32-bit window: impossible by
   Crc32c_proofs.bits_detect123 / bits_burst32.  The codeword lengths are derived from chunk_ok (u16 length). *)
From AG Require Import Base.Prelude Base.Res Base.Bytes Codec.Crc32c Codec.CrcHD Codec.BitErr
  Codec.Chunk Codec.Chunk_proofs Codec.Crc32c_proofs.

Definition cw1 (c : chunk) : list N := chunk_header c ++ le_enc 4 (crc32c_raw (chunk_header c)).
Definition cw2 (c : chunk) : list N := chunk_body c ++ le_enc 4 (crc32c_raw (chunk_body c)).

Lemma chunk_encode_cw c : chunk_encode c = cw1 c ++ cw2 c.
Proof. unfold chunk_encode, cw1, cw2. rewrite <- !app_assoc. reflexivity. Qed.
Lemma chunk_header_length c : length (chunk_header c) = 16%nat.
Proof. pose proof (chunk_header_len c) as H. unfold lenN in H. lia. Qed.
Lemma cw1_length c : length (cw1 c) = 20%nat.
Proof. unfold cw1. rewrite app_length, chunk_header_length, le_enc_length. reflexivity. Qed.
Lemma cw2_length c : length (cw2 c) = (length (chunk_body c) + 4)%nat.
Proof. unfold cw2. rewrite app_length, le_enc_length. reflexivity. Qed.

(* derived, not assumed: the body (payload + padding) of an accepted chunk has at most 65536 bytes *)
Lemma chunk_body_bound devices c : chunk_ok devices c -> lenN (chunk_body c) <= 65536.
Proof.
  intros (_ & _ & _ & _ & _ & _ & Hl & _). unfold chunk_body. rewrite lenN_app, zeros_lenN.
  unfold pad_len. lia.
Qed.

(* the difference of two encodings of equal length: two patterns of zero syndrome *)
Lemma encode_diff c c' : length (chunk_encode c) = length (chunk_encode c') ->
  diff_bits (chunk_encode c) (chunk_encode c') = diff_bits (cw1 c) (cw1 c') ++ diff_bits (cw2 c) (cw2 c') /\
  crc_bits 0 (diff_bits (cw1 c) (cw1 c')) = 0 /\ crc_bits 0 (diff_bits (cw2 c) (cw2 c')) = 0 /\
  length (diff_bits (cw1 c) (cw1 c')) = 160%nat /\
  length (diff_bits (cw2 c) (cw2 c')) = (8 * (length (chunk_body c) + 4))%nat.
Proof.
  intros Hlen. rewrite !chunk_encode_cw, !app_length, !cw1_length in Hlen.
  assert (H2 : length (cw2 c) = length (cw2 c')) by lia.
  assert (Hb : length (chunk_body c) = length (chunk_body c')) by (rewrite !cw2_length in H2; lia).
  split; [|split; [|split; [|split]]].
  - rewrite !chunk_encode_cw. unfold diff_bits. rewrite !bits_of_bytes_app. apply xorl_app.
    rewrite !bits_of_bytes_length, !cw1_length. reflexivity.
  - apply codeword_diff_syndrome. rewrite !chunk_header_length. reflexivity.
  - apply codeword_diff_syndrome. exact Hb.
  - unfold diff_bits. rewrite xorl_length; rewrite !bits_of_bytes_length, !cw1_length; reflexivity.
  - unfold diff_bits. rewrite xorl_length; rewrite !bits_of_bytes_length; [rewrite cw2_length; reflexivity|lia].
Qed.

Lemma reject_of_not_ok devices m l : bytes l -> (forall c, chunk_decode devices m l <> Ok c) ->
  exists k, chunk_decode devices m l = Err k.
Proof.
  intros Hb H. destruct (chunk_decode devices m l) as [c|k|] eqn:E.
  - exfalso. apply (H c). reflexivity.
  - eauto.
  - exfalso. apply (chunk_total_lemma devices m l Hb). exact E.
Qed.

Theorem chunk_flip123_rejected_lemma devices m l l' c : bytes l -> bytes l' ->
  chunk_decode devices m l = Ok c -> length l' = length l -> (1 <= hamming_bits l l' <= 3)%nat ->
  exists k, chunk_decode devices m l' = Err k.
Proof.
  intros Hb Hb' Hd Hlen Hw. apply reject_of_not_ok; [assumption|]. intros c' Hd'.
  apply chunk_exact_lemma in Hd; [|assumption]. apply chunk_exact_lemma in Hd'; [|assumption].
  destruct Hd as (Hok & _ & ->). destruct Hd' as (Hok' & _ & ->).
  destruct (encode_diff c c' (eq_sym Hlen)) as (E & S1 & S2 & L1 & L2).
  unfold hamming_bits in Hw. rewrite E, weight_app in Hw.
  pose proof (chunk_body_bound devices c Hok) as B. unfold lenN in B.
  destruct (Nat.eq_dec (weight (diff_bits (cw1 c) (cw1 c'))) 0) as [Z|Z].
  - apply (bits_detect123 (diff_bits (cw2 c) (cw2 c'))); [|lia|exact S2].
    rewrite L2. unfold HD_BOUND. lia.
  - apply (bits_detect123 (diff_bits (cw1 c) (cw1 c'))); [|lia|exact S1].
    rewrite L1. unfold HD_BOUND. lia.
Qed.

Theorem chunk_burst32_rejected_lemma devices m l l' c : bytes l -> bytes l' ->
  chunk_decode devices m l = Ok c -> length l' = length l -> (1 <= hamming_bits l l')%nat -> burst32 l l' ->
  exists k, chunk_decode devices m l' = Err k.
Proof.
  intros Hb Hb' Hd Hlen Hw Hbu. apply reject_of_not_ok; [assumption|]. intros c' Hd'.
  apply chunk_exact_lemma in Hd; [|assumption]. apply chunk_exact_lemma in Hd'; [|assumption].
  destruct Hd as (Hok & _ & ->). destruct Hd' as (Hok' & _ & ->).
  destruct (encode_diff c c' (eq_sym Hlen)) as (E & S1 & S2 & _ & _).
  unfold hamming_bits in Hw. unfold burst32 in Hbu. rewrite E in Hw, Hbu. rewrite weight_app in Hw.
  apply within32_app in Hbu. destruct Hbu as [W1 W2].
  destruct (Nat.eq_dec (weight (diff_bits (cw1 c) (cw1 c'))) 0) as [Z|Z].
  - apply (bits_burst32 _ W2); [lia|exact S2].
  - apply (bits_burst32 _ W1); [lia|exact S1].
Qed.

(* a change of l into a different byte string of the same length has at least one differing bit *)
Lemma bits_of_byte_inj x y : x < 256 -> y < 256 -> bits_of_byte x = bits_of_byte y -> x = y.
Proof. intros Hx Hy H. rewrite <- (bval_byte x Hx), <- (bval_byte y Hy), H. reflexivity. Qed.
Lemma xorl_weight_0 a : forall b, length a = length b -> weight (xorl a b) = 0%nat -> a = b.
Proof.
  unfold weight, xorl. induction a as [|x a IH]; intros [|y b] H Hw; try discriminate; [reflexivity|].
  cbn [combine map filter fst snd] in Hw.
  destruct x, y; cbn [xorb] in Hw; cbn [length] in Hw; try discriminate; f_equal; apply IH; auto.
Qed.
Lemma app_eq_len {A} (a : list A) : forall a' b b', length a = length a' -> a ++ b = a' ++ b' -> a = a' /\ b = b'.
Proof.
  induction a as [|x a IH]; intros [|y a'] b b' Hl H; try discriminate; [auto|].
  cbn [app] in H. injection H as -> H. injection Hl as Hl. destruct (IH a' b b' Hl H) as [-> ->]. auto.
Qed.
Lemma bits_of_bytes_inj l : forall l', bytes l -> bytes l' -> length l = length l' ->
  bits_of_bytes l = bits_of_bytes l' -> l = l'.
Proof.
  induction l as [|x l IH]; intros [|y l'] Hb Hb' Hlen H; try discriminate; [reflexivity|].
  change (bits_of_byte x ++ bits_of_bytes l = bits_of_byte y ++ bits_of_bytes l') in H.
  inversion Hb as [|? ? Hx Hl]. inversion Hb' as [|? ? Hy Hl']. subst.
  assert (A : bits_of_byte x = bits_of_byte y /\ bits_of_bytes l = bits_of_bytes l').
  { apply app_eq_len; [reflexivity|exact H]. }
  destruct A as [A1 A2]. f_equal; [apply bits_of_byte_inj; assumption|apply IH; auto].
Qed.
Theorem hamming_pos_lemma l l' : bytes l -> bytes l' -> length l' = length l -> l' <> l -> (1 <= hamming_bits l l')%nat.
Proof.
  intros Hb Hb' Hlen Hne. destruct (hamming_bits l l') eqn:E; [|lia]. exfalso. apply Hne. symmetry.
  apply bits_of_bytes_inj; auto. apply xorl_weight_0; [|exact E].
  rewrite !bits_of_bytes_length. lia.
Qed.

(* ---------- the acceptance conditions of the property text, read off the input bytes ---------- *)
From AG Require Import Codec.ChunkObs.

Lemma crc32c_inverted x : crc32c_raw x = N.lxor (crc32c x) 0xFFFFFFFF.
Proof. unfold crc32c. rewrite N.lxor_assoc, N.lxor_nilpotent, N.lxor_0_r. reflexivity. Qed.

Theorem chunk_accept_conditions devices m l c : bytes l -> chunk_decode devices m l = Ok c ->
  let n := lenN (c_payload c) in
  lenN l mod 4 = 0 /\ 28 <= lenN l <= 65560 /\ lenN l = 24 + n + pad_len n /\ pad_len n <= 3 /\
  dev_known devices (le_val (subN l 0 4)) = true /\ nthN l 10 <= 3 /\ nthN l 11 <= 1 /\
  le_val (subN l 14 2) = n /\ 1 <= n <= 65535 /\ subN l 20 n = c_payload c /\
  subN l (20 + n) (pad_len n) = zeros (pad_len n) /\
  le_val (subN l 16 4) = N.lxor (crc32c (subN l 0 16)) 0xFFFFFFFF /\
  le_val (subN l (lenN l - 4) 4) = N.lxor (crc32c (subN l 20 (lenN l - 24))) 0xFFFFFFFF.
Proof.
  intros Hb. rewrite chunk_decode_pure by assumption. unfold chunk_pure.
  destruct (N.ltb_spec (lenN l) 28) as [L|L]; [discriminate|].
  destruct (N.eqb_spec (lenN l mod 4) 0) as [M4|M4]; cbn [negb]; [|discriminate].
  destruct (dev_known devices (le_val (subN l 0 4))) eqn:Edev; cbn [negb]; [|discriminate].
  destruct (N.ltb_spec 3 (nthN l 10)) as [Ch|Ch]; [discriminate|].
  destruct (negb (nthN l 11 =? 0) && negb (nthN l 11 =? 1)) eqn:Efl; [discriminate|].
  set (clen := le_val (subN l 14 2)).
  destruct (N.ltb_spec clen (lenN l - 27)) as [C1|C1]; cbn [orb]; [discriminate|].
  destruct (N.ltb_spec (lenN l - 24) clen) as [C2|C2]; [discriminate|].
  destruct (N.eqb_spec (le_val (subN l 16 4)) (crc32c_raw (subN l 0 16))) as [Hc|Hc]; cbn [negb]; [|discriminate].
  destruct (existsb nonzero (subN l (20 + clen) (lenN l - 24 - clen))) eqn:Ez; [discriminate|].
  destruct (N.eqb_spec (le_val (subN l (lenN l - 4) 4)) (crc32c_raw (subN l 20 (lenN l - 24)))) as [Pc|Pc]; cbn [negb]; [|discriminate].
  intros [= <-]. cbn [c_payload].
  assert (Lp : lenN (subN l 20 clen) = clen) by (apply subN_length; lia).
  rewrite Lp. cbv zeta.
  assert (Hfl : nthN l 11 <= 1).
  { destruct (N.eqb_spec (nthN l 11) 0); destruct (N.eqb_spec (nthN l 11) 1); cbn in Efl; try discriminate; lia. }
  pose proof (le_subN_bound l 14 2 Hb ltac:(lia)) as B. fold clen in B. change (256^2) with 65536 in B.
  pose proof (pad_len_spec (lenN l) clen M4 C1 C2 L) as Pd.
  rewrite <- !crc32c_inverted.
  repeat split; try assumption; try reflexivity; try (unfold pad_len in *; lia).
  rewrite <- Pd. pose proof (all_zero_zeros _ Ez) as Z. rewrite subN_length in Z by lia. exact Z.
Qed.

(* the two CRC accessors recompute exactly the two stored words of an accepted chunk *)
Lemma chunk_padding_pad_len n : chunk_padding n = pad_len n.
Proof. unfold chunk_padding, pad_len. destruct (N.eqb_spec (n mod 4) 0); lia. Qed.

Theorem chunk_crc_accessors devices m l c : bytes l -> chunk_decode devices m l = Ok c ->
  chunk_header_crc c = Ok (stored_header_crc l) /\ chunk_payload_crc c = stored_payload_crc l.
Proof.
  intros Hb H. apply chunk_exact_lemma in H; [|assumption].
  destruct H as ((_ & _ & _ & _ & _ & _ & Hl & _) & _ & ->).
  unfold chunk_header_crc, chunk_payload_crc, stored_header_crc, stored_payload_crc.
  rewrite chunk_padding_pad_len. fold (chunk_body c).
  replace (lenN (c_payload c) <? 65536) with true by lia.
  assert (B1 : forall x, le_val (le_enc 4 (crc32c_raw x)) = crc32c_raw x).
  { intros x. apply le_val_enc_small. change (256 ^ N.of_nat 4) with (2^32). apply crc32c_raw_bound. }
  split.
  - f_equal. unfold chunk_encode.
    rewrite (subN_tail2 (chunk_header c)) by (rewrite ?chunk_header_len, ?le_enc_lenN; reflexivity).
    symmetry. apply B1.
  - unfold chunk_encode. rewrite !app_assoc.
    rewrite subN_tail1 by (autorewrite with len; rewrite ?chunk_header_len; change (N.of_nat 4) with 4; lia).
    symmetry. apply B1.
Qed.

(* ---------- the MSB-first reading of "burst of 32 contiguous bits" is NOT covered: a witness ---------- *)
Lemma within32b_sound e p : within32b e p = true -> within32 e.
Proof.
  intros H. exists p. intros i Hi. unfold within32b in H. rewrite forallb_forall in H.
  assert (Hl : (i < length e)%nat).
  { destruct (Nat.lt_ge_cases i (length e)); [assumption|]. rewrite nth_overflow in Hi by assumption. discriminate. }
  specialize (H i). rewrite Hi in H. cbn [implb] in H.
  assert (In i (seq 0 (length e))) by (apply in_seq; lia).
  apply H in H0. apply andb_true_iff in H0. destruct H0 as [A B].
  apply Nat.leb_le in A. apply Nat.ltb_lt in B. lia.
Qed.

(* an accepted chunk with payload 01 02 .. 08, and the same chunk with payload bytes 0..4 xor-ed with
   62 95 e3 fd 80: in MSB-first numbering the changed bits are 161..192, a window of exactly 32 contiguous bits
   (in serial numbering they span 40 positions); the error polynomial is a multiple of the generator *)
Definition msb_witness : list N :=
  [236;40;255;135; 2;0;0;0; 3;0; 0; 1; 5;0; 8;0; 64;144;53;223; 1;2;3;4;5;6;7;8; 126;224;118;185].
Definition msb_witness' : list N :=
  [236;40;255;135; 2;0;0;0; 3;0; 0; 1; 5;0; 8;0; 64;144;53;223; 99;151;224;249;133;6;7;8; 126;224;118;185].

Theorem chunk_burst32_msb_first_refuted_lemma :
  exists devices m l l' c c',
    bytes l /\ bytes l' /\ chunk_decode devices m l = Ok c /\ length l' = length l /\ l' <> l /\
    burst32_msb l l' /\ chunk_decode devices m l' = Ok c' /\ c_payload c' <> c_payload c.
Proof.
  exists [2281646316], Checked, msb_witness, msb_witness'.
  eexists. eexists.
  split; [apply bytesb_spec; vm_compute; reflexivity|].
  split; [apply bytesb_spec; vm_compute; reflexivity|].
  split; [vm_compute; reflexivity|].
  split; [reflexivity|].
  split; [unfold msb_witness, msb_witness'; intros H; discriminate H|].
  split; [apply (within32b_sound _ 161); vm_compute; reflexivity|].
  split; [vm_compute; reflexivity|].
  cbn [c_payload]. intros H. discriminate H.
Qed.
