(* C08 -- proofs about the bank-name parsers (Ident/Names.v).
   "only documented names are accepted" is proved symbolically for ALL byte lists and ANY board table
   (each parser is inverted into: fixed prefix, board-table row, digit character); the converse
   "every documented name is accepted, with that channel" and the distinctness statements are finite
   computations over the documented list built from the generated tables. *)
From AG Require Import Base.Prelude Base.Res Base.Bytes Ident.Names Ident.Maps_proofs Gen.Boards.

(* ---- lists ------------------------------------------------------------------------------------------- *)
Lemma lenN_4 {A} (s : list A) : lenN s = 4 -> exists a b c d, s = [a; b; c; d].
Proof.
  unfold lenN. destruct s as [|a [|b [|c [|d [|e r]]]]]; cbn [length]; intro H; try lia.
  eauto.
Qed.

Lemma find_idx_enum {A} (f : A -> bool) l i j :
  find_idx f l i = Some j -> exists x, In (j, x) (enum_from i l) /\ f x = true.
Proof.
  revert i; induction l as [|x l IH]; intro i; cbn [find_idx enum_from]; [discriminate|].
  destruct (f x) eqn:F.
  - intro H; inv H. exists x. split; [left; reflexivity|exact F].
  - intro H. destruct (IH _ H) as (y & I & Fy). exists y. split; [right; exact I|exact Fy].
Qed.

Lemma forallb_4 {A} (f : A -> bool) a b c d :
  forallb f [a; b; c; d] = true -> f a = true /\ f b = true /\ f c = true /\ f d = true.
Proof. cbn. rewrite !andb_true_iff. tauto. Qed.
Lemma existsb_4 {A} (f : A -> bool) a b c d :
  existsb f [a; b; c; d] = false -> f a = false /\ f b = false /\ f c = false /\ f d = false.
Proof. cbn. rewrite !orb_false_iff. tauto. Qed.

(* ---- characters ----------------------------------------------------------------------------------------- *)
Lemma alnum_not_cont x : is_alnum x = true -> is_cont x = false.
Proof. unfold is_alnum, is_digit, is_upper, is_lower, is_cont. lia. Qed.
Lemma digit_not_cont x : is_digit x = true -> is_cont x = false.
Proof. unfold is_digit, is_cont. lia. Qed.

(* a digit accepted by to_digit that is not lower case is the canonical digit character of its value *)
Lemma to_digit_char radix d v :
  to_digit radix d = Some v -> is_lower d = false -> v < radix /\ d = digit_char v.
Proof.
  unfold to_digit, digit_char, is_digit, is_upper, is_lower.
  destruct ((48 <=? d) && (d <=? 57)) eqn:D.
  - destruct (d - 48 <? radix) eqn:R; intro H; inv H. intros _. split; [lia|].
    destruct (d - 48 <? 10) eqn:T; lia.
  - destruct (10 <? radix) eqn:R10; [|discriminate].
    destruct ((65 <=? d) && (d <=? 90)) eqn:U.
    + destruct (d - 65 + 10 <? radix) eqn:R; intro H; inv H. intros _. split; [lia|].
      destruct (d - 65 + 10 <? 10) eqn:T; lia.
    + destruct ((97 <=? d) && (d <=? 122)) eqn:L; [|discriminate].
      intros _ C. discriminate.
Qed.
Lemma to_digit_lt radix d v : to_digit radix d = Some v -> v < radix.
Proof.
  unfold to_digit.
  destruct (if is_digit d then Some (d - 48)
            else if 10 <? radix then if is_upper d then Some (d - 65 + 10)
                                     else if is_lower d then Some (d - 97 + 10) else None else None) as [x|];
    [|discriminate].
  destruct (x <? radix) eqn:R; intro H; inv H. lia.
Qed.

(* from_str_radix on one character *)
Lemma radix_one radix d v : from_str_radix_u8 radix [d] = Some v -> to_digit radix d = Some v.
Proof.
  unfold from_str_radix_u8. destruct ((d =? 43) || (d =? 45)); [discriminate|].
  cbn [digits_u8]. destruct (to_digit radix d) as [x|]; [|discriminate].
  cbv zeta. replace (0 * radix + x) with x by lia. destruct (x <=? 255); intro H; inv H. reflexivity.
Qed.

(* ---- slicing four-byte strings ------------------------------------------------------------------------ *)
Ltac slice4 C := unfold str_from, str_to, is_char_boundary; cbn [length Nat.leb Nat.eqb nth_error]; rewrite C; reflexivity.
Lemma str_from_4_1 a b c d : is_cont b = false -> str_from [a; b; c; d] 1 = Ok [b; c; d].
Proof. intro C. slice4 C. Qed.
Lemma str_from_4_2 a b c d : is_cont c = false -> str_from [a; b; c; d] 2 = Ok [c; d].
Proof. intro C. slice4 C. Qed.
Lemma str_from_4_3 a b c d : is_cont d = false -> str_from [a; b; c; d] 3 = Ok [d].
Proof. intro C. slice4 C. Qed.
Lemma str_to_3_2 b c d : is_cont d = false -> str_to [b; c; d] 2 = Ok [b; c].
Proof. intro C. slice4 C. Qed.

(* ---- Adc16 / Adc32 ---------------------------------------------------------------------------------------- *)
Lemma parse_adc_guard letter radix chan_of s :
  parse_adc letter radix chan_of s <> Err 1 \/ True ->
  forall r, parse_adc letter radix chan_of s = r ->
  (exists b c d, s = [letter; b; c; d] /\ is_alnum b = true /\ is_alnum c = true /\ is_alnum d = true
                 /\ is_lower b = false /\ is_lower c = false /\ is_lower d = false
                 /\ r = (do board <- or_err (find_a16 [b; c]) 2;
                         do v <- or_err (from_str_radix_u8 radix [d]) 3;
                         do ch <- unwrap (chan_of v); Ok (board, ch)))
  \/ r = Err 1.
Proof.
  intros _ r. unfold parse_adc.
  destruct (negb (first_is s letter) || negb (lenN s =? 4) || negb (forallb is_alnum s) || existsb is_lower s) eqn:G.
  - intro H. right. symmetry. exact H.
  - apply orb_false_iff in G as [G G4]. apply orb_false_iff in G as [G G3]. apply orb_false_iff in G as [G1 G2].
    apply negb_false_iff in G1, G2, G3. apply N.eqb_eq in G2.
    destruct (lenN_4 s G2) as (a & b & c & d & ->).
    cbn [first_is] in G1. apply N.eqb_eq in G1. subst a.
    apply forallb_4 in G3 as (_ & Ab & Ac & Ad). apply existsb_4 in G4 as (_ & Lb & Lc & Ld).
    rewrite (str_from_4_1 letter b c d (alnum_not_cont _ Ab)). cbn [bind].
    rewrite (str_to_3_2 b c d (alnum_not_cont _ Ad)). cbn [bind].
    rewrite (str_from_4_3 letter b c d (alnum_not_cont _ Ad)).
    intro H. left. exists b, c, d. repeat split; auto.
Qed.

Lemma parse_adc_ok letter radix chan_of ndig s b c :
  (forall v x, chan_of v = Some x -> x = v /\ v < ndig) ->
  parse_adc letter radix chan_of s = Ok (b, c) ->
  exists name mac, In (b, (name, mac)) (enum alpha16_boards) /\ c < ndig /\ s = letter :: name ++ [digit_char c].
Proof.
  intros CH H. destruct (parse_adc_guard letter radix chan_of s (or_intror I) _ H) as [(x & y & z & -> & _ & _ & _ & _ & _ & Lz & R)|R];
    [|discriminate].
  symmetry in R. apply bind_ok in R as (board & R1 & R). apply bind_ok in R as (v & R2 & R).
  apply bind_ok in R as (ch & R3 & R). inv R.
  destruct (find_a16 [x; y]) as [j|] eqn:F; cbn in R1; inv R1.
  destruct (from_str_radix_u8 radix [z]) as [v'|] eqn:FR; cbn in R2; inv R2.
  destruct (chan_of v) as [ch'|] eqn:C; cbn in R3; inv R3.
  destruct (CH _ _ C) as [-> Vlt].
  apply radix_one in FR. destruct (to_digit_char _ _ _ FR Lz) as [_ ->].
  unfold find_a16 in F. apply find_idx_enum in F as ([name mac] & In1 & E). cbn [fst] in E.
  apply list_eqb_eq in E. subst name. exists [x; y], mac. repeat split; auto.
Qed.

Lemma adc16_channel_spec v x : adc16_channel v = Some x -> x = v /\ v < 16.
Proof. unfold adc16_channel. destruct (15 <? v) eqn:E; intro H; inv H. lia. Qed.
Lemma adc32_channel_spec v x : adc32_channel v = Some x -> x = v /\ v < 32.
Proof. unfold adc32_channel. destruct (31 <? v) eqn:E; intro H; inv H. lia. Qed.

Lemma In_doc_adc letter ndig mk b name mac c :
  In (b, (name, mac)) (enum alpha16_boards) -> c < ndig ->
  In (letter :: name ++ [digit_char c], mk b c) (doc_adc letter ndig mk).
Proof.
  intros I L. unfold doc_adc. apply in_flat_map. exists (b, (name, mac)). split; [exact I|].
  apply in_map_iff. exists c. split; [reflexivity|]. apply In_rangeN. exact L.
Qed.

Lemma parse_adc_total letter radix chan_of s :
  (forall v, v < radix -> chan_of v <> None) -> parse_adc letter radix chan_of s <> Panic.
Proof.
  intros CH. destruct (parse_adc_guard letter radix chan_of s (or_intror I) _ eq_refl)
    as [(x & y & z & -> & _ & _ & _ & _ & _ & _ & R)|R]; rewrite R; [|discriminate].
  destruct (find_a16 [x; y]); cbn [or_err bind]; [|discriminate].
  destruct (from_str_radix_u8 radix [z]) as [v|] eqn:FR; cbn [or_err bind]; [|discriminate].
  apply radix_one in FR. apply to_digit_lt in FR. specialize (CH _ FR).
  destruct (chan_of v); cbn [unwrap bind]; [discriminate|congruence].
Qed.

(* ---- PadWing ---------------------------------------------------------------------------------------------- *)
Lemma parse_pwb_shape s :
  (exists c d, s = [80; 67; c; d]
     /\ parse_pwb s = (do t <- str_from s 2; if negb (forallb is_digit t) then Err 1
                        else do t' <- str_from s 2; or_err (find_pwb t') 2))
  \/ parse_pwb s = Err 1.
Proof.
  unfold parse_pwb. destruct (prefixb [80; 67] s) eqn:P; cbn [negb]; [|right; reflexivity].
  destruct (lenN s =? 4) eqn:L; cbn [negb]; [|right; reflexivity].
  apply N.eqb_eq in L. destruct (lenN_4 s L) as (a & b & c & d & ->).
  cbn [prefixb] in P. apply andb_true_iff in P as [P1 P2]. apply andb_true_iff in P2 as [P2 _].
  apply N.eqb_eq in P1, P2. subst a b. left. exists c, d. split; reflexivity.
Qed.

Lemma parse_pwb_ok s b :
  parse_pwb s = Ok b ->
  exists name mac dev, In (b, (name, mac, dev)) (enum padwing_boards) /\ s = 80 :: 67 :: name.
Proof.
  intro H. destruct (parse_pwb_shape s) as [(c & d & -> & R)|R]; [|congruence].
  rewrite R in H. clear R. unfold str_from, is_char_boundary in H. cbn [length Nat.leb nth_error skipn] in H.
  destruct (is_cont c); cbn [negb bind] in H; [discriminate|].
  destruct (forallb is_digit [c; d]); cbn [negb] in H; [|discriminate].
  destruct (find_pwb [c; d]) as [j|] eqn:F; cbn in H; inv H.
  unfold find_pwb in F. apply find_idx_enum in F as ([[name mac] dev] & In1 & E). cbn [fst] in E.
  apply list_eqb_eq in E. subst name. eauto.
Qed.

Lemma utf8_head_not_cont c t : utf8b (c :: t) = true -> is_cont c = false.
Proof.
  cbn [utf8b]. unfold is_cont. destruct (c <? 128) eqn:A; [intros _; lia|].
  destruct t as [|b t2]; [discriminate|].
  destruct ((194 <=? c) && (c <=? 223)) eqn:B; [intros _; lia|].
  destruct t2 as [|c2 t3]; [discriminate|].
  destruct ((224 <=? c) && (c <=? 239)) eqn:C; [intros _; lia|].
  destruct t3 as [|d t4]; [discriminate|].
  intro H. repeat (apply andb_true_iff in H as [H _]). lia.
Qed.
Lemma utf8_tail a t : a < 128 -> utf8b (a :: t) = true -> utf8b t = true.
Proof. intro L. cbn [utf8b]. replace (a <? 128) with true by (symmetry; apply N.ltb_lt; exact L). auto. Qed.

Lemma parse_pwb_total s : utf8b s = true -> parse_pwb s <> Panic.
Proof.
  intro U. destruct (parse_pwb_shape s) as [(c & d & -> & R)|R]; rewrite R; [|discriminate].
  apply utf8_tail in U; [|lia]. apply utf8_tail in U; [|lia]. apply utf8_head_not_cont in U.
  unfold str_from, is_char_boundary. cbn [length Nat.leb nth_error skipn]. rewrite U. cbn [negb bind].
  destruct (forallb is_digit [c; d]); cbn [negb]; [|discriminate].
  destruct (find_pwb [c; d]); cbn; discriminate.
Qed.

(* exactly which byte lists make the model of PadwingBankName panic: "PC" followed by a continuation byte,
   which no Rust &str can contain *)
Lemma parse_pwb_panic_iff s : parse_pwb s = Panic <-> exists c d, s = [80; 67; c; d] /\ is_cont c = true.
Proof.
  split.
  - intro H. destruct (parse_pwb_shape s) as [(c & d & -> & R)|R]; [|congruence].
    exists c, d. split; [reflexivity|]. rewrite R in H. clear R.
    unfold str_from, is_char_boundary in H. cbn [length Nat.leb nth_error skipn] in H.
    destruct (is_cont c); [reflexivity|]. cbn [negb bind] in H.
    destruct (forallb is_digit [c; d]); cbn [negb] in H; [|discriminate].
    destruct (find_pwb [c; d]); cbn in H; discriminate.
  - intros (c & d & -> & C). unfold parse_pwb. cbn [prefixb]. rewrite !N.eqb_refl. cbn [andb negb].
    replace (lenN [80; 67; c; d] =? 4) with true by reflexivity. cbn [negb].
    unfold str_from, is_char_boundary. cbn [length Nat.leb nth_error]. rewrite C. reflexivity.
Qed.

(* ---- literal names ------------------------------------------------------------------------------------------ *)
Lemma parse_lit_ok lit s u : parse_lit lit s = Ok u -> s = lit.
Proof. unfold parse_lit. destruct (list_eqb s lit) eqn:E; cbn; [|discriminate]. intros _. apply list_eqb_eq. exact E. Qed.
Lemma parse_lit_total lit s : parse_lit lit s <> Panic.
Proof. unfold parse_lit. destruct (list_eqb s lit); cbn; discriminate. Qed.

(* ---- main event bank names -------------------------------------------------------------------------------- *)
Lemma In_doc_tail x : In x [(s_ATAT, KTrg); (s_TRBA, KTrb3); (s_MCVX, KMcvx)] -> In x documented_names.
Proof. intro H. unfold documented_names. apply in_or_app; right. apply in_or_app; right. apply in_or_app; right. exact H. Qed.

Lemma parse_alpha16_sound s k : parse_alpha16 s = Ok k -> In (s, k) documented_names.
Proof.
  unfold parse_alpha16. destruct s as [|a r]; [discriminate|].
  destruct (a =? 67) eqn:E67.
  - intro H. apply bind_ok in H as ([b c] & P & H). inv H. cbn [fst snd].
    destruct (parse_adc_ok 67 32 adc32_channel 32 _ _ _ adc32_channel_spec P) as (name & mac & I & L & ->).
    unfold documented_names. apply in_or_app; right. apply in_or_app; left. eapply (In_doc_adc 67 32 KAdc32); eassumption.
  - destruct (a =? 66) eqn:E66; [|discriminate].
    intro H. apply bind_ok in H as ([b c] & P & H). inv H. cbn [fst snd].
    destruct (parse_adc_ok 66 16 adc16_channel 16 _ _ _ adc16_channel_spec P) as (name & mac & I & L & ->).
    unfold documented_names. apply in_or_app; left. eapply (In_doc_adc 66 16 KAdc16); eassumption.
Qed.

Lemma parse_main_sound s k : parse_main s = Ok k -> In (s, k) documented_names.
Proof.
  unfold parse_main. destruct s as [|a r]; [discriminate|].
  destruct (a =? 65).
  { intro H. apply bind_ok in H as (u & P & H). inv H. apply parse_lit_ok in P. rewrite P.
    apply In_doc_tail. left. reflexivity. }
  destruct ((a =? 66) || (a =? 67)); [apply parse_alpha16_sound|].
  destruct (a =? 80).
  { intro H. apply bind_ok in H as (b & P & H). inv H.
    destruct (parse_pwb_ok _ _ P) as (name & mac & dev & I & ->).
    unfold documented_names. apply in_or_app; right. apply in_or_app; right. apply in_or_app; left.
    unfold doc_pwb. apply in_map_iff. exists (b, (name, mac, dev)). split; [reflexivity|exact I]. }
  destruct (a =? 84).
  { intro H. apply bind_ok in H as (u & P & H). inv H. apply parse_lit_ok in P. rewrite P.
    apply In_doc_tail. right; left. reflexivity. }
  destruct (a =? 77); [|discriminate].
  intro H. apply bind_ok in H as (u & P & H). inv H. apply parse_lit_ok in P. rewrite P.
  apply In_doc_tail. right; right; left. reflexivity.
Qed.

Lemma chan_eqb_eq a b : chan_eqb a b = true -> a = b.
Proof.
  destruct a, b; cbn; try discriminate; try reflexivity; rewrite ?andb_true_iff, ?N.eqb_eq;
    intros; f_equal; intuition congruence.
Qed.

(* every documented name is accepted and denotes the documented channel (finite computation over the list) *)
Lemma parse_main_complete s k : In (s, k) documented_names -> parse_main s = Ok k.
Proof.
  assert (forallb (fun p => match parse_main (fst p) with Ok k' => chan_eqb k' (snd p) | _ => false end)
                  documented_names = true) as F by (vm_compute; reflexivity).
  intro I. rewrite forallb_forall in F. specialize (F _ I). cbn [fst snd] in F.
  destruct (parse_main s); try discriminate. apply chan_eqb_eq in F. congruence.
Qed.

Theorem names_exact_lemma : forall s k, parse_main s = Ok k <-> In (s, k) documented_names.
Proof. intros; split; [apply parse_main_sound|apply parse_main_complete]. Qed.

(* ---- distinctness ------------------------------------------------------------------------------------------ *)
Fixpoint nodupb {A} (eqb : A -> A -> bool) (l : list A) : bool :=
  match l with [] => true | x :: r => negb (existsb (eqb x) r) && nodupb eqb r end.
Lemma nodupb_spec {A} (eqb : A -> A -> bool) l :
  (forall a, eqb a a = true) -> nodupb eqb l = true -> NoDup l.
Proof.
  intro R. induction l as [|x r IH]; cbn [nodupb]; intro H; constructor.
  - apply andb_true_iff in H as [H _]. apply negb_true_iff in H. intro I.
    assert (existsb (eqb x) r = true) as E by (apply existsb_exists; exists x; auto). congruence.
  - apply andb_true_iff in H as [_ H]. auto.
Qed.
Lemma chan_eqb_refl a : chan_eqb a a = true.
Proof. destruct a; cbn; rewrite ?N.eqb_refl; reflexivity. Qed.
Lemma list_eqb_refl a : list_eqb a a = true.
Proof. apply list_eqb_eq. reflexivity. Qed.

(* distinct documented names denote distinct channels, and no name is listed twice *)
Theorem names_injective_lemma :
  NoDup (map snd documented_names) /\ NoDup (map fst documented_names).
Proof.
  split.
  - apply (nodupb_spec chan_eqb); [exact chan_eqb_refl|vm_compute; reflexivity].
  - apply (nodupb_spec list_eqb); [exact list_eqb_refl|vm_compute; reflexivity].
Qed.

Corollary names_injective_parse s s' k : parse_main s = Ok k -> parse_main s' = Ok k -> s = s'.
Proof.
  intros H H'. apply names_exact_lemma in H, H'. destruct names_injective_lemma as [ND _].
  assert (forall l : list (list N * chan), NoDup (map snd l) -> In (s, k) l -> In (s', k) l -> s = s') as G.
  { induction l as [|[x y] l IH]; cbn; intros N1 I1 I2; [contradiction|]. inv N1.
    destruct I1 as [E1|I1], I2 as [E2|I2]; try congruence.
    - inv E1. exfalso. apply H2. apply in_map_iff. exists (s', k). auto.
    - inv E2. exfalso. apply H2. apply in_map_iff. exists (s, k). auto.
    - auto. }
  eapply G; eauto.
Qed.

(* rows of the board tables are distinct boards: distinct names, distinct MAC addresses, distinct device ids *)
Theorem board_rows_distinct_lemma :
  NoDup (map fst alpha16_boards) /\ NoDup (map snd alpha16_boards)
  /\ NoDup (map (fun t => fst (fst t)) padwing_boards) /\ NoDup (map (fun t => snd (fst t)) padwing_boards)
  /\ NoDup (map snd padwing_boards) /\ NoDup chronobox_names.
Proof.
  repeat split; try (apply (nodupb_spec list_eqb); [exact list_eqb_refl|vm_compute; reflexivity]).
  apply (nodupb_spec N.eqb); [exact N.eqb_refl|vm_compute; reflexivity].
Qed.

(* ---- chronobox and sequencer names ------------------------------------------------------------------------ *)
Theorem cb_names_exact_lemma : forall s i, parse_cb s = Ok i <-> In (s, i) documented_cb_names.
Proof.
  intros s i. split.
  - unfold parse_cb, cb_bank_names. cbn [parse_cb_in].
    repeat match goal with
    | |- (if list_eqb s ?l then _ else _) = _ -> _ =>
        let E := fresh "E" in destruct (list_eqb s l) eqn:E;
        [apply list_eqb_eq in E; subst s; vm_compute; intro H; inv H; auto 10|]
    end. discriminate.
  - assert (forallb (fun p => match parse_cb (fst p) with Ok j => j =? snd p | _ => false end)
                    documented_cb_names = true) as F by (vm_compute; reflexivity).
    intro I. rewrite forallb_forall in F. specialize (F _ I). cbn [fst snd] in F.
    destruct (parse_cb s); try discriminate. apply N.eqb_eq in F. congruence.
Qed.

Theorem seq2_names_exact_lemma : forall s u, parse_seq2 s = Ok u <-> In (s, u) documented_seq2_names.
Proof.
  intros s u. split.
  - intro H. apply parse_lit_ok in H. subst s. destruct u. left. reflexivity.
  - intros [H|[]]. inv H. reflexivity.
Qed.

Lemma parse_cb_in_total arms s :
  forallb (fun p => match find_cb (snd p) with Some _ => true | None => false end) arms = true ->
  parse_cb_in arms s <> Panic.
Proof.
  induction arms as [|[bank board] arms IH]; cbn [parse_cb_in forallb snd]; [discriminate|].
  intro H. apply andb_true_iff in H as [H1 H2]. destruct (list_eqb s bank); [|auto].
  destruct (find_cb board); [cbn; discriminate|discriminate].
Qed.

(* ---- totality -------------------------------------------------------------------------------------------------- *)
Lemma parse_adc16_total s : parse_adc16 s <> Panic.
Proof. apply parse_adc_total. intros v L. unfold adc16_channel. replace (15 <? v) with false by lia. discriminate. Qed.
Lemma parse_adc32_total s : parse_adc32 s <> Panic.
Proof. apply parse_adc_total. intros v L. unfold adc32_channel. replace (31 <? v) with false by lia. discriminate. Qed.
Lemma parse_alpha16_total s : parse_alpha16 s <> Panic.
Proof.
  unfold parse_alpha16. destruct s as [|a r]; [discriminate|].
  destruct (a =? 67).
  - pose proof (parse_adc32_total (a :: r)). destruct (parse_adc32 (a :: r)); cbn; congruence.
  - destruct (a =? 66); [|discriminate].
    pose proof (parse_adc16_total (a :: r)). destruct (parse_adc16 (a :: r)); cbn; congruence.
Qed.
Lemma parse_cb_total s : parse_cb s <> Panic.
Proof. apply parse_cb_in_total. vm_compute. reflexivity. Qed.

(* no parser panics on any Rust string (valid UTF-8, any length, any content); only PadwingBankName needs
   the validity, and only for the single shape given by parse_pwb_panic_iff *)
Theorem names_total_lemma : forall s, utf8b s = true ->
  parse_main s <> Panic /\ parse_alpha16 s <> Panic /\ parse_adc16 s <> Panic /\ parse_adc32 s <> Panic
  /\ parse_pwb s <> Panic /\ parse_trg s <> Panic /\ parse_trb3 s <> Panic /\ parse_mcvx s <> Panic
  /\ parse_cb s <> Panic /\ parse_seq2 s <> Panic.
Proof.
  intros s U.
  pose proof (parse_alpha16_total s) as A. pose proof (parse_pwb_total s U) as P.
  split; [|repeat split; solve [exact A | exact P | apply parse_adc16_total | apply parse_adc32_total
                               | apply parse_cb_total | apply parse_lit_total]].
  unfold parse_main. destruct s as [|a r]; [discriminate|].
  destruct (a =? 65).
  { pose proof (parse_lit_total s_ATAT (a :: r)). unfold parse_trg. destruct (parse_lit s_ATAT (a :: r)); cbn; congruence. }
  destruct ((a =? 66) || (a =? 67)); [exact A|].
  destruct (a =? 80).
  { destruct (parse_pwb (a :: r)); cbn; congruence. }
  destruct (a =? 84).
  { pose proof (parse_lit_total s_TRBA (a :: r)). unfold parse_trb3. destruct (parse_lit s_TRBA (a :: r)); cbn; congruence. }
  destruct (a =? 77); [|discriminate].
  pose proof (parse_lit_total s_MCVX (a :: r)). unfold parse_mcvx. destruct (parse_lit s_MCVX (a :: r)); cbn; congruence.
Qed.

(* without the UTF-8 hypothesis: every parser other than PadwingBankName (and MainEventBankName through it)
   is total on arbitrary byte lists *)
Theorem names_total_bytes_lemma : forall s,
  parse_alpha16 s <> Panic /\ parse_adc16 s <> Panic /\ parse_adc32 s <> Panic
  /\ parse_trg s <> Panic /\ parse_trb3 s <> Panic /\ parse_mcvx s <> Panic /\ parse_cb s <> Panic /\ parse_seq2 s <> Panic
  /\ (parse_pwb s = Panic <-> exists c d, s = [80; 67; c; d] /\ is_cont c = true).
Proof.
  intro s. repeat split; try solve [apply parse_alpha16_total | apply parse_adc16_total | apply parse_adc32_total
                                     | apply parse_cb_total | apply parse_lit_total]; apply parse_pwb_panic_iff.
Qed.

(* ---- the component parsers, each exact on its own -------------------------------------------------------- *)
Lemma parse_main_adc16 s b c : parse_main s = Ok (KAdc16 b c) -> parse_adc16 s = Ok (b, c).
Proof.
  unfold parse_main. destruct s as [|a r]; [discriminate|].
  destruct (a =? 65). { intro H. apply bind_ok in H as (u & _ & H). discriminate. }
  destruct ((a =? 66) || (a =? 67)).
  2:{ destruct (a =? 80). { intro H. apply bind_ok in H as (u & _ & H). discriminate. }
      destruct (a =? 84). { intro H. apply bind_ok in H as (u & _ & H). discriminate. }
      destruct (a =? 77); [|discriminate]. intro H. apply bind_ok in H as (u & _ & H). discriminate. }
  unfold parse_alpha16. destruct (a =? 67). { intro H. apply bind_ok in H as (u & _ & H). discriminate. }
  destruct (a =? 66); [|discriminate]. intro H. apply bind_ok in H as ([x y] & P & H). inv H. exact P.
Qed.
Lemma parse_main_adc32 s b c : parse_main s = Ok (KAdc32 b c) -> parse_adc32 s = Ok (b, c).
Proof.
  unfold parse_main. destruct s as [|a r]; [discriminate|].
  destruct (a =? 65). { intro H. apply bind_ok in H as (u & _ & H). discriminate. }
  destruct ((a =? 66) || (a =? 67)).
  2:{ destruct (a =? 80). { intro H. apply bind_ok in H as (u & _ & H). discriminate. }
      destruct (a =? 84). { intro H. apply bind_ok in H as (u & _ & H). discriminate. }
      destruct (a =? 77); [|discriminate]. intro H. apply bind_ok in H as (u & _ & H). discriminate. }
  unfold parse_alpha16. destruct (a =? 67). { intro H. apply bind_ok in H as ([x y] & P & H). inv H. exact P. }
  destruct (a =? 66); [|discriminate]. intro H. apply bind_ok in H as (u & _ & H). discriminate.
Qed.
Lemma parse_main_pwb s b : parse_main s = Ok (KPwb b) -> parse_pwb s = Ok b.
Proof.
  unfold parse_main. destruct s as [|a r]; [discriminate|].
  destruct (a =? 65). { intro H. apply bind_ok in H as (u & _ & H). discriminate. }
  destruct ((a =? 66) || (a =? 67)).
  { unfold parse_alpha16. destruct (a =? 67). { intro H. apply bind_ok in H as (u & _ & H). discriminate. }
    destruct (a =? 66); [|discriminate]. intro H. apply bind_ok in H as (u & _ & H). discriminate. }
  destruct (a =? 80). { intro H. apply bind_ok in H as (u & P & H). inv H. exact P. }
  destruct (a =? 84). { intro H. apply bind_ok in H as (u & _ & H). discriminate. }
  destruct (a =? 77); [|discriminate]. intro H. apply bind_ok in H as (u & _ & H). discriminate.
Qed.

Theorem component_parsers_exact_lemma : forall s,
  (forall b c, parse_adc16 s = Ok (b, c) <-> In (s, KAdc16 b c) documented_names)
  /\ (forall b c, parse_adc32 s = Ok (b, c) <-> In (s, KAdc32 b c) documented_names)
  /\ (forall b, parse_pwb s = Ok b <-> In (s, KPwb b) documented_names)
  /\ (forall k, parse_alpha16 s = Ok k <->
                In (s, k) documented_names /\ match k with KAdc16 _ _ | KAdc32 _ _ => True | _ => False end)
  /\ (forall u, parse_trg s = Ok u <-> s = s_ATAT)
  /\ (forall u, parse_trb3 s = Ok u <-> s = s_TRBA)
  /\ (forall u, parse_mcvx s = Ok u <-> s = s_MCVX).
Proof.
  intro s.
  assert (forall b c, parse_adc16 s = Ok (b, c) <-> In (s, KAdc16 b c) documented_names) as A16.
  { intros b c. split.
    - intro P. destruct (parse_adc_ok 66 16 adc16_channel 16 _ _ _ adc16_channel_spec P) as (name & mac & I & L & ->).
      unfold documented_names. apply in_or_app; left. eapply (In_doc_adc 66 16 KAdc16); eassumption.
    - intro I. apply parse_main_adc16. apply names_exact_lemma. exact I. }
  assert (forall b c, parse_adc32 s = Ok (b, c) <-> In (s, KAdc32 b c) documented_names) as A32.
  { intros b c. split.
    - intro P. destruct (parse_adc_ok 67 32 adc32_channel 32 _ _ _ adc32_channel_spec P) as (name & mac & I & L & ->).
      unfold documented_names. apply in_or_app; right. apply in_or_app; left. eapply (In_doc_adc 67 32 KAdc32); eassumption.
    - intro I. apply parse_main_adc32. apply names_exact_lemma. exact I. }
  split; [exact A16|]. split; [exact A32|]. split; [|split; [|repeat split]].
  - intro b. split.
    + intro P. destruct (parse_pwb_ok _ _ P) as (name & mac & dev & I & ->).
      unfold documented_names. apply in_or_app; right. apply in_or_app; right. apply in_or_app; left.
      unfold doc_pwb. apply in_map_iff. exists (b, (name, mac, dev)). split; [reflexivity|exact I].
    + intro I. apply parse_main_pwb. apply names_exact_lemma. exact I.
  - intro k. split.
    + intro P. split; [apply parse_alpha16_sound; exact P|].
      unfold parse_alpha16 in P. destruct s as [|a r]; [discriminate|].
      destruct (a =? 67). { apply bind_ok in P as (u & _ & P). inv P. exact I. }
      destruct (a =? 66); [|discriminate]. apply bind_ok in P as (u & _ & P). inv P. exact I.
    + intros [I K]. destruct k as [b c|b c| | | |]; try contradiction.
      * apply A16 in I. pose proof I as P. unfold parse_adc16, parse_adc in P.
        unfold parse_alpha16. destruct s as [|a r]; [discriminate|].
        destruct (first_is (a :: r) 66) eqn:F; cbn [negb orb] in P; [|discriminate].
        cbn [first_is] in F. apply N.eqb_eq in F. subst a.
        replace (66 =? 67) with false by reflexivity. replace (66 =? 66) with true by reflexivity.
        rewrite I. reflexivity.
      * apply A32 in I. pose proof I as P. unfold parse_adc32, parse_adc in P.
        unfold parse_alpha16. destruct s as [|a r]; [discriminate|].
        destruct (first_is (a :: r) 67) eqn:F; cbn [negb orb] in P; [|discriminate].
        cbn [first_is] in F. apply N.eqb_eq in F. subst a.
        replace (67 =? 67) with true by reflexivity. rewrite I. reflexivity.
  - apply parse_lit_ok.
  - intros ->. destruct u. reflexivity.
  - apply parse_lit_ok.
  - intros ->. destruct u. reflexivity.
  - apply parse_lit_ok.
  - intros ->. destruct u. reflexivity.
Qed.
