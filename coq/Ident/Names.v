(* C08 -- bank-name parsers of detector/src/midas.rs over byte lists (a Rust &str is its UTF-8 bytes).
   Definitions only; proofs are in Ident/Names_proofs.v.

   Modelling of the str operations:
   * `&name[a..]`, `&name[..b]` panic unless the index is a char boundary (index 0, index len, or a byte that
     is not a UTF-8 continuation byte 0x80..0xBF) -- `str_from` / `str_to` return Panic exactly then;
   * `name.len()` is the byte length;
   * `name.chars().all(p)` / `.any(p)` with p an ASCII class: on a valid UTF-8 string every byte of a
     non-ASCII char is >= 0x80 and fails every ASCII class, so the test over chars equals the test over bytes;
   * `name.starts_with('B')`, `name.chars().next() == Some('B')`: first byte = 66 (valid UTF-8);
   * `==` between strs is equality of the byte lists. *)
From AG Require Import Base.Prelude Base.Res Base.Bytes Gen.Boards.

(* ---- generic helpers ------------------------------------------------------------------- *)
Fixpoint list_eqb (a b : list N) : bool :=
  match a, b with
  | [], [] => true
  | x :: a', y :: b' => (x =? y) && list_eqb a' b'
  | _, _ => false
  end.

Fixpoint prefixb (p s : list N) : bool :=
  match p, s with
  | [], _ => true
  | x :: p', y :: s' => (x =? y) && prefixb p' s'
  | _ :: _, [] => false
  end.

(* index of the first element satisfying f, counting from i (Rust: `for x in TABLE { if .. { return .. } }`) *)
Fixpoint find_idx {A} (f : A -> bool) (l : list A) (i : N) : option N :=
  match l with
  | [] => None
  | x :: r => if f x then Some i else find_idx f r (i + 1)
  end.

Fixpoint enum_from {A} (i : N) (l : list A) : list (N * A) :=
  match l with [] => [] | x :: r => (i, x) :: enum_from (i + 1) r end.
Definition enum {A} (l : list A) : list (N * A) := enum_from 0 l.

Fixpoint range_from (fuel : nat) (start : N) : list N :=
  match fuel with O => [] | S f => start :: range_from f (start + 1) end.
Definition rangeN (n : N) : list N := range_from (N.to_nat n) 0.

Definition nthN {A} (l : list A) (i : N) : option A := nth_error l (N.to_nat i).

(* ---- str primitives --------------------------------------------------------------------- *)
Definition is_cont (b : N) : bool := (128 <=? b) && (b <? 192).       (* UTF-8 continuation byte *)

(* core::str::is_char_boundary *)
Definition is_char_boundary (s : list N) (i : nat) : bool :=
  match i with
  | O => true
  | _ => if (length s <=? i)%nat then (i =? length s)%nat
         else match nth_error s i with Some b => negb (is_cont b) | None => false end
  end.
(* &s[i..] and &s[..i] *)
Definition str_from (s : list N) (i : nat) : res (list N) :=
  if is_char_boundary s i then Ok (skipn i s) else Panic.
Definition str_to (s : list N) (i : nat) : res (list N) :=
  if is_char_boundary s i then Ok (firstn i s) else Panic.

(* well-formed UTF-8 (Unicode 15, table 3-7): what a Rust &str is guaranteed to be *)
Fixpoint utf8b (s : list N) : bool :=
  match s with
  | [] => true
  | a :: t =>
      if a <? 128 then utf8b t
      else match t with
      | [] => false
      | b :: t2 =>
          if (194 <=? a) && (a <=? 223) then is_cont b && utf8b t2
          else match t2 with
          | [] => false
          | c :: t3 =>
              if (224 <=? a) && (a <=? 239) then
                is_cont b && is_cont c
                && (if a =? 224 then 160 <=? b else true) && (if a =? 237 then b <? 160 else true)
                && utf8b t3
              else match t3 with
              | [] => false
              | d :: t4 =>
                  (240 <=? a) && (a <=? 244) && is_cont b && is_cont c && is_cont d
                  && (if a =? 240 then 144 <=? b else true) && (if a =? 244 then b <? 144 else true)
                  && utf8b t4
              end
          end
      end
  end.

Definition is_digit (b : N) : bool := (48 <=? b) && (b <=? 57).
Definition is_upper (b : N) : bool := (65 <=? b) && (b <=? 90).
Definition is_lower (b : N) : bool := (97 <=? b) && (b <=? 122).
Definition is_alnum (b : N) : bool := is_digit b || is_upper b || is_lower b.   (* char::is_ascii_alphanumeric *)

(* char::to_digit(radix) for 2 <= radix <= 36 (letters are case-insensitive, only used when radix > 10) *)
Definition to_digit (radix b : N) : option N :=
  let d := if is_digit b then Some (b - 48)
           else if 10 <? radix then
                  if is_upper b then Some (b - 65 + 10)
                  else if is_lower b then Some (b - 97 + 10) else None
                else None in
  match d with Some v => if v <? radix then Some v else None | None => None end.

(* u8::from_str_radix: core::num from_ascii_radix for an unsigned 8-bit type.
   None = Err(ParseIntError) (Empty, InvalidDigit or PosOverflow -- the kind is not observed). *)
Fixpoint digits_u8 (radix acc : N) (s : list N) : option N :=
  match s with
  | [] => Some acc
  | c :: r =>
      match to_digit radix c with
      | None => None
      | Some d => let v := acc * radix + d in if v <=? 255 then digits_u8 radix v r else None
      end
  end.
Definition from_str_radix_u8 (radix : N) (s : list N) : option N :=
  match s with
  | [] => None                                           (* Empty *)
  | c :: r =>
      match r with
      | [] => if (c =? 43) || (c =? 45) then None        (* a lone '+' or '-' : InvalidDigit *)
              else digits_u8 radix 0 s
      | _ => if c =? 43 then digits_u8 radix 0 r         (* leading '+' is skipped *)
             else digits_u8 radix 0 s                    (* '-' is not stripped for an unsigned type *)
      end
  end.

(* ---- board tables ------------------------------------------------------------------------- *)
(* alpha16.rs:150 BoardId::try_from(&str): first row whose name equals the input; the board is the row index *)
Definition find_a16 (name : list N) : option N :=
  find_idx (fun p => list_eqb name (fst p)) alpha16_boards 0.
(* padwing.rs:140 *)
Definition find_pwb (name : list N) : option N :=
  find_idx (fun p => list_eqb name (fst (fst p))) padwing_boards 0.
(* chronobox.rs:190 *)
Definition find_cb (name : list N) : option N :=
  find_idx (fun p => list_eqb p name) chronobox_names 0.

(* alpha16.rs:34 / :52 *)
Definition adc16_channel (v : N) : option N := if 15 <? v then None else Some v.
Definition adc32_channel (v : N) : option N := if 31 <? v then None else Some v.

(* ---- the parsers ---------------------------------------------------------------------------- *)
Definition first_is (s : list N) (c : N) : bool := match s with x :: _ => x =? c | [] => false end.

(* midas.rs:138 Adc16BankName / midas.rs:212 Adc32BankName; (letter, radix, channel check) differ *)
Definition parse_adc (letter radix : N) (chan_of : N -> option N) (s : list N) : res (N * N) :=
  if negb (first_is s letter)                         (* !name.starts_with('B') *)
     || negb (lenN s =? 4)                            (* name.len() != 4 *)
     || negb (forallb is_alnum s)                     (* !name.chars().all(is_ascii_alphanumeric) *)
     || existsb is_lower s                            (* name.chars().any(is_ascii_lowercase) *)
  then Err 1
  else
    do t <- str_from s 1;                             (* &name[1..] *)
    do bn <- str_to t 2;                              (* [..2] *)
    do board <- or_err (find_a16 bn) 2;               (* BoardId::try_from(..)? *)
    do t3 <- str_from s 3;                            (* &name[3..] *)
    do v <- or_err (from_str_radix_u8 radix t3) 3;    (* u8::from_str_radix(.., radix)? *)
    do ch <- unwrap (chan_of v);                      (* ChannelId::try_from(..).unwrap() *)
    Ok (board, ch).
Definition parse_adc16 := parse_adc 66 16 adc16_channel.
Definition parse_adc32 := parse_adc 67 32 adc32_channel.

(* the channel a main-event bank name denotes *)
Inductive chan :=
| KAdc16 (board ch : N)      (* board = row of ALPHA16BOARDS *)
| KAdc32 (board ch : N)
| KPwb (board : N)           (* row of PADWING_BOARDS *)
| KTrg | KTrb3 | KMcvx.

(* midas.rs:242 Alpha16BankName *)
Definition parse_alpha16 (s : list N) : res chan :=
  match s with
  | [] => Err 1                                        (* name.chars().next() = None *)
  | a :: _ =>
      if a =? 67 then do bc <- parse_adc32 s; Ok (KAdc32 (fst bc) (snd bc))
      else if a =? 66 then do bc <- parse_adc16 s; Ok (KAdc16 (fst bc) (snd bc))
      else Err 1
  end.

(* midas.rs:351 PadwingBankName; the slice inside the condition is evaluated only after the first two tests *)
Definition parse_pwb (s : list N) : res N :=
  if negb (prefixb [80; 67] s) then Err 1             (* !name.starts_with("PC") *)
  else if negb (lenN s =? 4) then Err 1               (* name.len() != 4 *)
  else
    do t <- str_from s 2;                             (* name[2..] *)
    if negb (forallb is_digit t) then Err 1
    else
      do t' <- str_from s 2;
      or_err (find_pwb t') 2.

Definition s_ATAT : list N := [65; 84; 65; 84].
Definition s_TRBA : list N := [84; 82; 66; 65].
Definition s_MCVX : list N := [77; 67; 86; 88].
Definition s_SEQ2 : list N := [83; 69; 81; 50].
(* midas.rs:379, :403, :451, :427 *)
Definition parse_lit (lit s : list N) : res unit := if negb (list_eqb s lit) then Err 1 else Ok tt.
Definition parse_trg := parse_lit s_ATAT.
Definition parse_trb3 := parse_lit s_TRBA.
Definition parse_mcvx := parse_lit s_MCVX.
Definition parse_seq2 := parse_lit s_SEQ2.

(* midas.rs:507 MainEventBankName *)
Definition parse_main (s : list N) : res chan :=
  match s with
  | [] => Err 1
  | a :: _ =>
      if a =? 65 then do _ <- parse_trg s; Ok KTrg
      else if (a =? 66) || (a =? 67) then parse_alpha16 s
      else if a =? 80 then do b <- parse_pwb s; Ok (KPwb b)
      else if a =? 84 then do _ <- parse_trb3 s; Ok KTrb3
      else if a =? 77 then do _ <- parse_mcvx s; Ok KMcvx
      else Err 1
  end.

(* midas.rs:538 ChronoboxBankName: "CBF<k>" => BoardId::try_from("cb0<k>").unwrap(); result = row of CHRONOBOX_NAMES *)
Definition cb_bank_names : list (list N * list N) :=
  [([67; 66; 70; 49], [99; 98; 48; 49]); ([67; 66; 70; 50], [99; 98; 48; 50]);
   ([67; 66; 70; 51], [99; 98; 48; 51]); ([67; 66; 70; 52], [99; 98; 48; 52])].
Fixpoint parse_cb_in (arms : list (list N * list N)) (s : list N) : res N :=
  match arms with
  | [] => Err 1
  | (bank, board) :: r => if list_eqb s bank then unwrap (find_cb board) else parse_cb_in r s
  end.
Definition parse_cb := parse_cb_in cb_bank_names.

(* ---- the documented names, computed from the board tables ------------------------------------- *)
(* digit character of a value in base 16 / 32: 0-9 then A-V *)
Definition digit_char (v : N) : N := if v <? 10 then 48 + v else 55 + v.

Definition doc_adc (letter ndigits : N) (mk : N -> N -> chan) : list (list N * chan) :=
  flat_map (fun ib => map (fun v => (letter :: fst (snd ib) ++ [digit_char v], mk (fst ib) v)) (rangeN ndigits))
           (enum alpha16_boards).
Definition doc_pwb : list (list N * chan) :=
  map (fun ib => (80 :: 67 :: fst (fst (snd ib)), KPwb (fst ib))) (enum padwing_boards).

Definition documented_names : list (list N * chan) :=
  doc_adc 66 16 KAdc16 ++ doc_adc 67 32 KAdc32 ++ doc_pwb ++ [(s_ATAT, KTrg); (s_TRBA, KTrb3); (s_MCVX, KMcvx)].
Definition documented_cb_names : list (list N * N) :=
  map (fun ib => ([67; 66; 70; 49 + fst ib], fst ib)) (enum chronobox_names).
Definition documented_seq2_names : list (list N * unit) := [(s_SEQ2, tt)].

(* decidable equality on channels, for the computational checks *)
Definition chan_eqb (a b : chan) : bool :=
  match a, b with
  | KAdc16 x y, KAdc16 x' y' => (x =? x') && (y =? y')
  | KAdc32 x y, KAdc32 x' y' => (x =? x') && (y =? y')
  | KPwb x, KPwb x' => x =? x'
  | KTrg, KTrg | KTrb3, KTrb3 | KMcvx, KMcvx => true
  | _, _ => false
  end.

(* ---- observations for the differential check ---------------------------------------------------- *)
(* (kind code, board row name, board mac, channel): kind 1 adc16, 2 adc32, 3 pwb, 4 trg, 5 trb3, 6 mcvx *)
Definition a16_row (i : N) : list N * list N :=
  match nthN alpha16_boards i with Some r => r | None => ([], []) end.
Definition pwb_row (i : N) : list N * list N :=
  match nthN padwing_boards i with Some r => fst r | None => ([], []) end.
Definition chan_obs (k : chan) : N * (list N * list N) * N :=
  match k with
  | KAdc16 b c => (1, a16_row b, c)
  | KAdc32 b c => (2, a16_row b, c)
  | KPwb b => (3, pwb_row b, 0)
  | KTrg => (4, ([], []), 0)
  | KTrb3 => (5, ([], []), 0)
  | KMcvx => (6, ([], []), 0)
  end.
Definition cb_row (i : N) : list N := match nthN chronobox_names i with Some r => r | None => [] end.
