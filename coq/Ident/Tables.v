(* Instantiation of the table parameters of the models with the tables regenerated from /repo. *)
From AG Require Import Base.Prelude Gen.Boards.

Definition adc_macs : list (list N) := map snd alpha16_boards.
Definition pwb_macs : list (list N) := map (fun t => snd (fst t)) padwing_boards.
Definition pwb_devices : list N := map snd padwing_boards.
